import DroopModel.Core
/-!
# Gregory-family rules: wigm, wigm-prf(-batch), cfer(-batch), scotland, mpls
Shared primitives first, then one driver per rule module.
-/
namespace Droop
variable {α : Type} (A : Arith α)

/-- Ballot.vote -/
def bvote (b : Ballot α) : α := A.mulV b.w (A.ofInt b.mult)

/-- position of the first continuing candidate at or after `idx` (rule's transfer() while-loop) -/
def advanceTo (cont : Nat → Bool) (b : Ballot α) : Ballot α :=
  match (b.rank.drop b.idx).findIdx? cont with
  | some k => { b with idx := b.idx + k }
  | none => { b with idx := b.rank.length }

/-- transfer(ballot): advance to the next hopeful candidate, then credit the ballot's vote to it or to
    E.exhausted. (mpls tests `hopeful + pending`, but never sets pending, so the same predicate.) -/
def transferBallot (s : St α) (b : Ballot α) : St α × Ballot α :=
  match (advanceTo (fun cid => s.isHopeful cid) b).top with
  | some c => (s.addVote A c (bvote A (advanceTo (fun cid => s.isHopeful cid) b)), advanceTo (fun cid => s.isHopeful cid) b)
  | none => ({ s with exhausted := A.add s.exhausted (bvote A (advanceTo (fun cid => s.isHopeful cid) b)) },
             advanceTo (fun cid => s.isHopeful cid) b)

/-- one iteration of `for b in E.ballots if b.topRank in cids: [b.weight = rew b.weight]; transfer(b)` -/
def tstep (cids : List Nat) (rew : α → α) (acc : St α × List (Ballot α)) (b : Ballot α) : St α × List (Ballot α) :=
  match b.top with
  | some c =>
    if cids.contains c then
      ((transferBallot A acc.1 { b with w := rew b.w }).1, (transferBallot A acc.1 { b with w := rew b.w }).2 :: acc.2)
    else (acc.1, b :: acc.2)
  | none => (acc.1, b :: acc.2)

def transferAll (s : St α) (cids : List Nat) (rew : α → α) : St α :=
  { (s.ballots.foldl (tstep A cids rew) (s, [])).1 with
    ballots := (s.ballots.foldl (tstep A cids rew) (s, [])).2.reverse }

/-- initial count: `for b in E.ballots: b.topCand.vote += b.vote` -/
def firstCount (s : St α) : St α :=
  s.ballots.foldl (fun s b => match b.top with
                              | some c => s.addVote A c (bvote A b)
                              | none => s) s

/-- breakTie for the rules that break ties by tie order only.
    The subject list of a `tie` action is the chosen candidate followed by the tied candidates. -/
def breakTie (s : St α) (tied : List (Cand α)) (verb : String) : St α × Option (Cand α) :=
  match tied with
  | [] => (s.setCrash "IndexError", none)
  | [c] => (s, some c)
  | _ => ((s.logAct A "tie" verb (((byTieOrder tied).head?.map (·.cid)).toList ++ tied.map (·.cid))), (byTieOrder tied).head?)

def hasQuotaGE (s : St α) (c : Cand α) : Bool := A.ge c.vote s.quota
def hasQuotaX (s : St α) (c : Cand α) : Bool := if A.exact then A.gt c.vote s.quota else A.ge c.vote s.quota

/-- `for c in [c for c in C.hopeful(order='vote', reverse=True) if hasQuota(c)]: c.elect(pending=...)` -/
def electWinners (hasQ : St α → Cand α → Bool) (pend : St α → Cand α → Bool) (verb : St α → Cand α → String) (s : St α) : St α :=
  ((byVote A true s.hopeful).filter (hasQ s)).foldl (fun acc c => acc.elect A c.cid (verb s c) (pend s c)) s

def maxVoteOf (l : List (Cand α)) : Option α :=
  match l with
  | [] => none
  | c :: cs => some (A.pyMax c.vote (cs.map (·.vote)))
def minVoteOf (l : List (Cand α)) : Option α :=
  match l with
  | [] => none
  | c :: cs => some (A.pyMin c.vote (cs.map (·.vote)))

/-- surplus transfer of candidate `hc` with the two-step truncation `(w * surplus) / vote` -/
def transferSurplus (s : St α) (hc : Cand α) (rew : α → α → α → α) (verb : String) : St α :=
  let surplus := A.sub hc.vote s.quota
  let s1 := transferAll A s [hc.cid] (fun w => rew w surplus hc.vote)
  (s1.setVote hc.cid s1.quota).logAct A "transfer" verb [hc.cid]

def rewMulDiv (w surplus vote : α) : α := A.divV (A.mulV w surplus) vote
def rewMuldivDown (w surplus vote : α) : α := A.muldiv .down w surplus vote

/-- transfer the ballots of defeated candidates, zero their votes -/
def transferDefeated (s : St α) (cids : List Nat) (verb : String) : St α :=
  let s1 := transferAll A s cids id
  (cids.foldl (fun acc c => acc.setVote c A.zero) s1).logAct A "transfer" verb cids

inductive Flow | cont | brk
deriving DecidableEq

/-- generic fuelled loop: `while guard: body` with break -/
def loopN (guard : St α → Bool) (body : St α → St α × Flow) : Nat → St α → Option (St α)
  | 0, _ => none
  | fuel+1, s =>
    if s.crash.isSome then some s
    else if guard s then
      match body s with
      | (s', .cont) => loopN guard body fuel s'
      | (s', .brk) => some s'
    else some s

def stdGuard (s : St α) : Bool := decide ((s.hopeful.length : Int) > s.seatsLeft) && decide (s.seatsLeft > 0)

/-- common epilogue of wigm / wigm-prf -/
def epilogueElectOrDefeat (s : St α) : St α :=
  let s1 := s.pendingL.foldl (fun acc c => acc.unpendSilent c.cid) s
  s1.hopeful.foldl (fun acc c =>
    if acc.elected.length < acc.seats then acc.elect A c.cid "Elect remaining" false
    else acc.defeat A c.cid "Defeat remaining") s1

/-! ## sure-loser search shared by wigm-prf-batch and meek (batchDefeat) -/
def groupStep (surplus : α) (acc : List (List (Cand α)) × List (Cand α) × α) (c : Cand α) :
    List (List (Cand α)) × List (Cand α) × α :=
  if A.ge (A.add acc.2.2 surplus) c.vote then (acc.1, acc.2.1 ++ [c], acc.2.2)
  else ((if acc.2.1.isEmpty then acc.1 else acc.1 ++ [acc.2.1]), [c], c.vote)

def sortedGroups (surplus : α) (sorted : List (Cand α)) : List (List (Cand α)) :=
  let r := sorted.foldl (groupStep A surplus) ([], [], A.zero)
  if r.2.1.isEmpty then r.1 else r.1 ++ [r.2.1]

def scanGroups (surplus : α) (maxDefeat : Int) :
    List (List (Cand α)) → Nat → Nat → α → Option Nat → Option Nat
  | grp :: nxt :: rest, g, ncand, vote, maxg =>
    if ((ncand + grp.length : Nat) : Int) > maxDefeat then maxg
    else
      let vote' := A.add vote (A.sum (grp.map (·.vote)))
      let maxg' := match nxt.head? with
                   | some c0 => if A.lt (A.add vote' surplus) c0.vote then some g else maxg
                   | none => maxg
      scanGroups surplus maxDefeat (nxt :: rest) (g+1) (ncand + grp.length) vote' maxg'
  | _, _, _, _, maxg => maxg

def batchDefeatGroups (s : St α) (surplus : α) : List (Cand α) :=
  let groups := sortedGroups A surplus (byVote A false s.hopeful)
  let maxDefeat : Int := (s.hopeful.length : Int) - s.seatsLeft
  match scanGroups A surplus maxDefeat groups 0 0 A.zero none with
  | some g => (groups.take (g+1)).flatten
  | none => []

/-! ## wigm / wigm-prf -/
structure WigmOpts where
  integerQuota : Bool := false
  batchZero : Bool := false
  prf : Bool := false          -- wigm-prf module (quota always with epsilon, hasQuota >=)
  prfBatch : Bool := false

def wigmQuota (o : WigmOpts) (s : St α) : α :=
  if o.prf then A.add (A.divV (A.ofInt s.nballots) (A.ofInt (s.seats + 1))) A.eps
  else if o.integerQuota then A.ofInt (1 + pdiv s.nballots (s.seats + 1))
  else if A.exact then A.divV (A.ofInt s.nballots) (A.ofInt (s.seats + 1))
  else A.add (A.divV (A.ofInt s.nballots) (A.ofInt (s.seats + 1))) A.eps

def wigmSurplusStep (s : St α) : St α :=
  match maxVoteOf A s.pendingL with
  | none => s
  | some hv =>
    match breakTie A s (s.pendingL.filter (fun c => A.eq c.vote hv)) "Break tie (surplus)" with
    | (s1, some hc) =>
      transferSurplus A (s1.unpendLog A hc.cid "Transfer high surplus") hc (rewMulDiv A) "Surplus transferred"
    | (s1, none) => s1

def wigmDefeatStep (o : WigmOpts) (s : St α) : St α :=
  match minVoteOf A s.hopeful with
  | none => s
  | some lv =>
    let lows := s.hopeful.filter (fun c => A.eq c.vote lv)
    if A.eq lv A.zero && o.batchZero && decide ((lows.length : Int) ≤ (s.hopeful.length : Int) - s.seatsLeft) then
      let s1 := lows.foldl (fun acc c => acc.defeat A c.cid "Defeat batch(zero)") s
      lows.foldl (fun acc c => transferDefeated A acc [c.cid] "Transfer defeated") s1
    else
      match breakTie A s lows "Break tie (defeat)" with
      | (s1, some lc) => transferDefeated A (s1.defeat A lc.cid "Defeat") [lc.cid] "Transfer defeated"
      | (s1, none) => s1

/-- sure losers for the batch variant of wigm-prf (B.2) -/
def wigmSure (o : WigmOpts) (s : St α) : List (Cand α) :=
  if o.prfBatch then batchDefeatGroups A s (A.sum (s.pendingL.map (fun c => A.sub c.vote s.quota))) else []

def wigmDefeatSure (s : St α) (sure : List (Cand α)) : St α :=
  (byBallotOrder sure).foldl (fun acc c => acc.defeat A c.cid "Defeat sure loser") s

def wigmBatchStep (s : St α) (sure : List (Cand α)) : St α × Flow :=
  if decide (((wigmDefeatSure A s sure).hopeful.length : Int) ≤ (wigmDefeatSure A s sure).seatsLeft) then
    (wigmDefeatSure A s sure, .brk)
  else (transferDefeated A (wigmDefeatSure A s sure) (sure.map (·.cid)) "Transfer defeated", .cont)

/-- the part of a round after the election step -/
def wigmAfterElect (o : WigmOpts) (s : St α) : St α × Flow :=
  if !(wigmSure A o s).isEmpty then wigmBatchStep A s (wigmSure A o s)
  else if !s.pendingL.isEmpty then (wigmSurplusStep A s, .cont)
  else if !s.hopeful.isEmpty then (wigmDefeatStep A o s, .cont)
  else (s, .cont)

def wigmElect (o : WigmOpts) (s : St α) : St α :=
  electWinners A (if o.prf then hasQuotaGE A else hasQuotaX A) (fun _ _ => true)
    (fun _ _ => "Elect, transfer pending") s

def wigmBody (o : WigmOpts) (s : St α) : St α × Flow :=
  wigmAfterElect A o (wigmElect A o (s.newRound A))

def St.setQuota (s : St α) (q : α) : St α := { s with quota := q }
def St.setExhausted (s : St α) (e : α) : St α := { s with exhausted := e }

/-- everything before the main loop: quota, first count, 'begin' -/
def wigmInit (o : WigmOpts) (s0 : St α) : St α :=
  ((firstCount A (s0.setQuota (wigmQuota A o s0))).setExhausted A.zero).logAct A "begin" "Begin Count" []

def wigmCount (o : WigmOpts) (s0 : St α) : Option (St α) :=
  match loopN stdGuard (wigmBody A o) (2 * s0.cands.length + 3) (wigmInit A o s0) with
  | none => none
  | some s4 => some (epilogueElectOrDefeat A s4)

/-! ## scotland -/
def scotCountComplete (s : St α) : Bool :=
  decide (s.seatsLeft ≤ 0) || decide ((s.hopeful.length : Int) ≤ s.seatsLeft)

/-- one step of the prior-stage search: in round snapshot CN, the tied candidates sorted by vote,
    restricted to those equal to the extreme; returns the unique one if any -/
def scotPrior (tiedCids : List Nat) (lowest : Bool) (cn : List (Cand α)) : Option (Cand α) :=
  let sorted := byVote A false (cn.filter (fun c => tiedCids.contains c.cid))
  let ext := if lowest then sorted.head? else sorted.getLast?
  match ext with
  | none => none
  | some e =>
    match sorted.filter (fun c => A.eq c.vote e.vote) with
    | [c] => some c
    | _ => none

def scotBreakTie (s : St α) (tied : List (Cand α)) (lowest : Bool) (reason : String) : St α × Option (Cand α) :=
  match tied with
  | [] => (s.setCrash "IndexError", none)
  | [c] => (s, some c)
  | _ =>
    let cids := tied.map (·.cid)
    -- for n in range(E.round-1, -1, -1): CN = E.rounds[n]
    match ((s.rounds.take s.round).reverse).findSome? (scotPrior A cids lowest) with
    | some cn0 => (s.logAct A "tie" ("Break tie by prior stage (" ++ reason ++ ")") (cn0.cid :: cids), tied.find? (·.cid == cn0.cid))
    | none => (s.logAct A "tie" ("Break tie by lot (" ++ reason ++ ")") (((byTieOrder tied).head?.map (·.cid)).toList ++ cids),
               (byTieOrder tied).head?)

def candSurplus (s : St α) (c : Cand α) : α :=
  if A.lt (A.sub c.vote s.quota) A.zero then A.zero else A.sub c.vote s.quota

def St.setSurplus (s : St α) (v : α) : St α := { s with surplus := v }

def scotElect (s : St α) : St α :=
  electWinners A (hasQuotaGE A) (fun _ _ => true) (fun _ _ => "Elect, transfer pending") s

/-- transfer the largest surplus [48, 49] -/
def scotSurplusStep (s : St α) : St α :=
  match maxVoteOf A s.pendingL with
  | none => s
  | some hv =>
    match scotBreakTie A s (s.pendingL.filter (fun c => A.eq c.vote hv)) false "largest surplus" with
    | (s3, some hc) =>
      transferSurplus A (s3.unpendLog A hc.cid "Transfer high surplus") hc (rewMuldivDown A) "Surplus transferred"
    | (s3, none) => s3

/-- exclude the candidate with the lowest vote [50, 51] -/
def scotDefeatStep (s : St α) : St α :=
  match minVoteOf A s.hopeful with
  | none => s
  | some lv =>
    match scotBreakTie A s (s.hopeful.filter (fun c => A.eq c.vote lv)) true "defeat low candidate" with
    | (s3, some lc) => transferDefeated A (s3.defeat A lc.cid "Defeat low candidate") [lc.cid] "Transfer defeated"
    | (s3, none) => s3

def scotFinish (s : St α) : St α × Flow := if scotCountComplete s then (s, .brk) else (s, .cont)

/-- a stage after the election step: `newRound`, the reporting surplus, then one transfer or one exclusion -/
def scotStage (s : St α) : St α × Flow :=
  if !s.pendingL.isEmpty then (scotSurplusStep A s, .cont)
  else if !s.hopeful.isEmpty then scotFinish (scotDefeatStep A s)
  else scotFinish s

def scotRound (s : St α) : St α :=
  (s.newRound A).setSurplus (A.sum ((s.newRound A).pendingL.map (candSurplus A (s.newRound A))))

/-- body of scotland's `while True` -/
def scotBody (s : St α) : St α × Flow :=
  if scotCountComplete (scotElect A s) then (scotElect A s, .brk)
  else scotStage A (scotRound A (scotElect A s))

def scotInit (s0 : St α) : St α :=
  ((firstCount A (s0.setQuota (A.ofInt (pdiv s0.nballots (s0.seats + 1) + 1)))).setExhausted A.zero).logAct A
    "begin" "Begin Count" []

def scotEpilogue (s : St α) : St α :=
  let s5 := s.pendingL.foldl (fun acc c => acc.unpendSilent c.cid) s
  let s6 := if decide ((s5.hopeful.length : Int) ≤ s5.seatsLeft) then
              s5.hopeful.foldl (fun acc c => acc.elect A c.cid "Elect remaining candidates" false) s5
            else s5
  s6.hopeful.foldl (fun acc c => acc.defeat A c.cid "Defeat remaining candidates") s6

def scotCount (s0 : St α) : Option (St α) :=
  match loopN (fun _ => true) (scotBody A) (2 * s0.cands.length + 3) (scotInit A s0) with
  | none => none
  | some s4 => some (scotEpilogue A s4)

/-! ## cfer -/
def cferBatch (s : St α) : List (Cand α) :=
  let surplus := A.sum (s.pendingL.map (fun c => A.sub c.vote s.quota))
  let cands := byVote A false s.hopeful
  let nElected := s.elected.length
  let top := cands.getLast?
  -- for t in range(len(cands)-1)
  let rec go (t : Nat) (fuel : Nat) (best : List (Cand α)) : List (Cand α) :=
    match fuel with
    | 0 => best
    | fuel+1 =>
      if t + 1 ≥ cands.length then best else
      let trial := cands.take (t+1)
      match cands[t+1]?, cands[t]?, top with
      | some nextc, some ct, some ctop =>
        if (cands.length - (t+1)) + nElected < s.seats then best
        else
          let vds := A.sum (trial.map (·.vote))
          if A.ge (A.add vds surplus) nextc.vote then go (t+1) fuel best
          else
            let gap := A.sub s.quota ctop.vote
            if nElected + 1 == s.seats
               || (cands.length - trial.length + nElected) == s.seats
               || A.lt (A.add vds surplus) gap
               || (A.eq surplus A.zero && A.lt (A.sub vds ct.vote) gap)
            then go (t+1) fuel trial else go (t+1) fuel best
      | _, _, _ => best
  go 0 cands.length []

def cferFinishDefeats (s : St α) (defeats : List (Cand α)) : St α × Flow :=
  if s.hopeful.length + s.elected.length ≤ s.seats then
    ((s.pendingL.foldl (fun acc c => acc.elect A c.cid "Elect pending" false) s).hopeful.foldl
        (fun acc c => acc.elect A c.cid "Elect remaining" false)
        (s.pendingL.foldl (fun acc c => acc.elect A c.cid "Elect pending" false) s), .brk)
  else (transferDefeated A s (defeats.map (·.cid)) "Transfer defeated", .cont)

/-- round 1 with no more hopefuls than seats: everybody is elected -/
def cferElectAll (s : St α) : St α × Flow :=
  (s.hopeful.foldl (fun acc c => acc.elect A c.cid "Elect all" false) s, .brk)

/-- election step: at or above the quota; a surplus transfer is pending only above it -/
def cferElect (s : St α) : St α :=
  electWinners A (hasQuotaGE A) (fun st c => A.gt c.vote st.quota)
    (fun st c => if A.gt c.vote st.quota then "Elect, transfer pending" else "Elect") s

/-- all seats filled: the rest are defeated -/
def cferSeatsFull (s : St α) : St α × Flow :=
  ((s.pendingL.foldl (fun acc c => acc.unpendSilent c.cid) s).hopeful.foldl
      (fun acc c => acc.defeat A c.cid "Defeat remaining") (s.pendingL.foldl (fun acc c => acc.unpendSilent c.cid) s), .brk)

def cferDefeatBatch (s : St α) (defeats : List (Cand α)) : St α × Flow :=
  cferFinishDefeats A ((byBallotOrder defeats).foldl (fun acc c => acc.defeat A c.cid "Defeat batch") s) defeats

/-- one pending surplus: `c.unpend('Transfer surplus')`, then the transfer computed from the candidate's *current* vote -/
def cferSurplusOne (acc : St α) (c : Cand α) : St α :=
  match acc.cand? c.cid with
  | some cur => transferSurplus A (acc.unpendLog A c.cid "Transfer surplus") cur (rewMulDiv A) "Surplus transferred"
  | none => acc

/-- CfER transfers every pending surplus in the same round -/
def cferSurplusAll (s : St α) : St α := s.pendingL.foldl (cferSurplusOne A) s

def cferDefeatLow (s : St α) : St α × Flow :=
  match minVoteOf A s.hopeful with
  | none => (s.setCrash "ValueError", .brk)
  | some lv =>
    match breakTie A s (s.hopeful.filter (fun c => A.eq c.vote lv)) "Break tie (defeat)" with
    | (s3, some lc) => cferFinishDefeats A (s3.defeat A lc.cid "Defeat") [lc]
    | (s3, none) => (s3, .brk)

/-- the part of a round after the election step -/
def cferAfterElect (batch : Bool) (s : St α) : St α × Flow :=
  if s.elected.length ≥ s.seats then cferSeatsFull A s
  else if !(if batch then cferBatch A s else []).isEmpty then cferDefeatBatch A s (if batch then cferBatch A s else [])
  else if !s.pendingL.isEmpty then (cferSurplusAll A s, .cont)
  else cferDefeatLow A s

def cferBody (batch : Bool) (s : St α) : St α × Flow :=
  if (s.newRound A).round == 1 && (s.newRound A).hopeful.length ≤ (s.newRound A).seats then cferElectAll A (s.newRound A)
  else cferAfterElect A batch (cferElect A (s.newRound A))

def cferInit (s0 : St α) : St α :=
  ((firstCount A (s0.setQuota (A.add (A.divV (A.ofInt s0.nballots) (A.ofInt (s0.seats + 1))) A.eps))).setExhausted A.zero).logAct A
    "begin" "Begin Count" []

def cferCount (batch : Bool) (s0 : St α) : Option (St α) :=
  loopN (fun _ => true) (cferBody A batch) (2 * s0.cands.length + 3) (cferInit A s0)

/-! ## mpls -/
def mplsSurplusAll (s : St α) (declaredOnly : Bool) : α :=
  A.sum ((s.cands.filter (fun c => !(declaredOnly && c.undeclared))).map (candSurplus A s))

def mplsCertainLosers (s : St α) (surplus : α) : List (Cand α) :=
  let sorted := byVote A false s.hopeful
  let maxDefeat : Int := (s.hopeful.length : Int) - s.seatsLeft
  let rec go (cx : Nat) (fuel : Nat) (vote : α) (losers : List (Cand α)) : List (Cand α) :=
    match fuel with
    | 0 => losers
    | fuel+1 =>
      if cx + 1 ≥ sorted.length then losers else
      match sorted[cx]?, sorted[cx+1]? with
      | some c, some nxt =>
        if ((cx + 1 : Nat) : Int) > maxDefeat then losers
        else
          let vote' := A.add vote c.vote
          go (cx+1) fuel vote' (if A.lt (A.add vote' surplus) nxt.vote then sorted.take (cx+1) else losers)
      | _, _ => losers
  byBallotOrder (go 0 sorted.length A.zero [])

/-- `E.surplus = ...; E.logAction('count', ...)` -/
def mplsCountVotes (s : St α) : St α :=
  (s.setSurplus (mplsSurplusAll A s true)).logAct A "count" "Count Votes" []

def mplsAtThreshold (s : St α) : List (Cand α) :=
  (byVote A true s.hopeful).filter (fun c => !c.undeclared && hasQuotaGE A s c)

def mplsElectThreshold (s : St α) : St α × Flow :=
  ((mplsAtThreshold A s).foldl (fun acc c => acc.elect A c.cid "Candidate at threshold" false) s, .brk)

/-- round 2: all undeclared write-ins; every round: the certain losers (each candidate once) -/
def mplsDefeatSet (s : St α) : List (Cand α) :=
  (if s.round == 2 then s.hopeful.filter (·.undeclared) else []) ++
  (mplsCertainLosers A s (A.add s.surplus
      (if s.round == 2 then
        A.sum ((s.ballots.filter (fun b => match b.top with
                                           | some c => s.isUndeclared c
                                           | none => false)).map (bvote A))
       else A.zero))).filter
    (fun c => !(if s.round == 2 then s.hopeful.filter (·.undeclared) else []).any (fun u => u.cid == c.cid))

def mplsDefeatVerb (c : Cand α) : String :=
  if c.undeclared then "Defeat undeclared write-in" else "Defeat certain loser"

/-- recompute the reported surplus, then log the transfer -/
def mplsLogTransfer (s : St α) (verb : String) (subj : List Nat) : St α :=
  (s.setSurplus (mplsSurplusAll A s false)).logAct A "transfer" verb subj

/-- defeat a set simultaneously, move all their ballots on at unchanged value, zero their tallies -/
def mplsDefeatMany (s : St α) (l : List (Cand α)) : St α × Flow :=
  (mplsLogTransfer A
    ((l.map (·.cid)).foldl (fun acc c => acc.setVote c A.zero)
      (transferAll A (l.foldl (fun acc c => acc.defeat A c.cid (mplsDefeatVerb c)) s) (l.map (·.cid)) id))
    "Transfer defeated" (l.map (·.cid)), .cont)

/-- 167.70(c)(1)d: elect the candidate with the largest surplus and transfer it -/
def mplsElectSurplus (s : St α) (hwq : List (Cand α)) (hv : α) : St α × Flow :=
  match breakTie A s (hwq.filter (fun c => A.eq c.vote hv)) "Break tie (largest surplus)" with
  | (s3, some hc) =>
    (mplsLogTransfer A
      ((transferAll A (s3.elect A hc.cid "Elect" false) [hc.cid]
          (fun w => rewMulDiv A w (A.sub hc.vote (s3.elect A hc.cid "Elect" false).quota) hc.vote)).setVote hc.cid
        (transferAll A (s3.elect A hc.cid "Elect" false) [hc.cid]
          (fun w => rewMulDiv A w (A.sub hc.vote (s3.elect A hc.cid "Elect" false).quota) hc.vote)).quota)
      "Transfer surplus" [hc.cid], .cont)
  | (s3, none) => (s3, .brk)

/-- the ballots of the lowest candidate are not transferred when the defeat ends the count -/
def mplsAfterDefeatLow (s4 : St α) (lc : Cand α) : St α :=
  if decide ((s4.hopeful.length : Int) > s4.seatsLeft) then
    mplsLogTransfer A ((transferAll A s4 [lc.cid] id).setVote lc.cid A.zero) "Transfer defeated" [lc.cid]
  else s4

/-- 167.70(c)(1)e: defeat the lowest candidate -/
def mplsDefeatLow (s : St α) : St α :=
  if decide ((s.hopeful.length : Int) > s.seatsLeft) then
    match minVoteOf A s.hopeful with
    | none => s
    | some lv =>
      match breakTie A s (s.hopeful.filter (fun c => A.eq c.vote lv)) "Break tie (defeat low candidate)" with
      | (s3, some lc) => mplsAfterDefeatLow A (s3.defeat A lc.cid "Defeat low candidate") lc
      | (s3, none) => s3
  else s

def mplsFinish (s : St α) : St α × Flow :=
  if decide ((s.hopeful.length : Int) ≤ s.seatsLeft) then (s, .brk) else (s, .cont)

/-- a round after `count` and `New Round`: certain losers, else largest surplus, else lowest candidate -/
def mplsRound (s : St α) : St α × Flow :=
  if !(mplsDefeatSet A s).isEmpty then mplsDefeatMany A s (mplsDefeatSet A s)
  else
    match (byVote A true s.hopeful).filter (hasQuotaGE A s) with
    | h :: hs => mplsElectSurplus A s (h :: hs) (A.pyMax h.vote (hs.map (·.vote)))
    | [] => mplsFinish (mplsDefeatLow A s)

def mplsBody (s : St α) : St α × Flow :=
  if (mplsCountVotes A s).elected.length + (mplsAtThreshold A (mplsCountVotes A s)).length ≥ (mplsCountVotes A s).seats then
    mplsElectThreshold A (mplsCountVotes A s)
  else mplsRound A ((mplsCountVotes A s).newRound A)

def mplsInit (s0 : St α) : St α :=
  ((firstCount A (s0.setQuota (A.ofInt (pdiv s0.nballots (s0.seats + 1) + 1)))).setExhausted A.zero).newRound A

def mplsEpilogue (s : St α) : St α :=
  (if decide ((s.hopeful.length : Int) ≤ s.seatsLeft) then
      s.hopeful.foldl (fun acc c => acc.elect A c.cid "Elect remaining candidates" false) s
    else s).hopeful.foldl (fun acc c => acc.defeat A c.cid "Defeat remaining candidates")
    (if decide ((s.hopeful.length : Int) ≤ s.seatsLeft) then
      s.hopeful.foldl (fun acc c => acc.elect A c.cid "Elect remaining candidates" false) s
    else s)

def mplsCount (s0 : St α) : Option (St α) :=
  match loopN (fun _ => true) (mplsBody A) (2 * s0.cands.length + 4) (mplsInit A s0) with
  | none => none
  | some s4 => some (mplsEpilogue A s4)

end Droop
