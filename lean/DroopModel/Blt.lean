/-!
# BLT ballot-file reader (profile.py): tokenizer, parser, BallotLine, validation
Text is a list of code points. Python's Unicode-dependent predicates are the three tables below
(Unicode 15.0 as shipped with CPython 3.12; re-checked against the interpreter by the harness).
-/
namespace Droop

/-- code points of the digit ZERO of every Unicode decimal-digit (Nd) block; digits are zero..zero+9 -/
def ndZeros : List Nat :=
  [48, 1632, 1776, 1984, 2406, 2534, 2662, 2790, 2918, 3046, 3174, 3302, 3430, 3558, 3664, 3792, 3872, 4160,
   4240, 6112, 6160, 6470, 6608, 6784, 6800, 6992, 7088, 7232, 7248, 42528, 43216, 43264, 43472, 43504, 43600,
   44016, 65296, 66720, 68912, 69734, 69872, 69942, 70096, 70384, 70736, 70864, 71248, 71360, 71472, 71904,
   72016, 72784, 73040, 73120, 73552, 92768, 92864, 93008, 120782, 120792, 120802, 120812, 120822, 123200,
   123632, 124144, 125264, 130032]
/-- `str.isspace()` -/
def pySpaces : List Nat :=
  [9, 10, 11, 12, 13, 28, 29, 30, 31, 32, 133, 160, 5760, 8192, 8193, 8194, 8195, 8196, 8197, 8198, 8199, 8200,
   8201, 8202, 8232, 8233, 8239, 8287, 12288]
/-- `str.splitlines()` boundaries -/
def pyLineBreaks : List Nat := [10, 11, 12, 13, 28, 29, 30, 133, 8232, 8233]

def digitVal? (c : Char) : Option Nat :=
  match ndZeros.find? (fun z => z ≤ c.toNat && c.toNat < z + 10) with
  | some z => some (c.toNat - z)
  | none => none
def isSpace (c : Char) : Bool := pySpaces.contains c.toNat
def isLineBreak (c : Char) : Bool := pyLineBreaks.contains c.toNat

/-- `re.match(r'\d+$', s)` on a whitespace-free token -/
def isDigits (s : String) : Bool := !s.isEmpty && s.toList.all (fun c => (digitVal? c).isSome)
/-- `re.match(r'-?\d+$', s)` -/
def isSignedDigits (s : String) : Bool :=
  match s.toList with
  | '-' :: rest => !rest.isEmpty && rest.all (fun c => (digitVal? c).isSome)
  | _ => isDigits s
/-- `int(s)` for a string of Unicode decimal digits -/
def digitsToNat (s : String) : Nat := s.toList.foldl (fun n c => n * 10 + (digitVal? c).getD 0) 0
def signedToInt (s : String) : Int :=
  match s.toList with
  | '-' :: rest => - (digitsToNat (String.ofList rest) : Int)
  | _ => digitsToNat s

/-! ## lines and tokens -/
def splitOnP (p : Char → Bool) (l : List Char) : List (List Char) :=
  let r := l.foldl (fun (acc : List (List Char) × List Char) c =>
              if p c then (acc.2.reverse :: acc.1, []) else (acc.1, c :: acc.2)) ([], [])
  (r.2.reverse :: r.1).reverse

def pySplit (line : List Char) : List String :=
  ((splitOnP isSpace line).filter (fun t => !t.isEmpty)).map String.ofList

structure TokSt where
  inComment : Nat := 0
  inQuote : Bool := false
  out : List String := []      -- reversed

/-- one token of `__bltBlob`'s inner loop; returns (state, break-out-of-line?) -/
def tokStep (st : TokSt) (tok : String) : TokSt × Bool :=
  let inQuote1 := if st.inComment == 0 && tok.startsWith "\"" then true else st.inQuote
  if inQuote1 && tok.endsWith "\"" then
    ({ st with inQuote := false, out := tok :: st.out }, false)
  else
    let inComment1 := if !inQuote1 && tok.startsWith "/*" then st.inComment + 1 else st.inComment
    if inComment1 != 0 then
      ({ st with inQuote := inQuote1, inComment := if tok.endsWith "*/" then inComment1 - 1 else inComment1 }, false)
    else if !inQuote1 && tok.startsWith "#" then
      ({ st with inQuote := inQuote1, inComment := inComment1 }, true)
    else
      ({ inQuote := inQuote1, inComment := inComment1, out := tok :: st.out }, false)

def tokLine (st : TokSt) : List String → TokSt
  | [] => st
  | t :: ts =>
    match tokStep st t with
    | (st', true) => st'
    | (st', false) => tokLine st' ts

def tokenize (text : List Char) : List String :=
  (((splitOnP isLineBreak text).map pySplit).foldl tokLine {}).out.reverse

/-! ## profile -/
structure Prof where
  nCand : Nat := 0
  nSeats : Nat := 0
  nBallots : Nat := 0
  withdrawn : List Nat := []
  undeclared : List Nat := []
  tieOrder : List (Nat × Nat) := []          -- python dict cid -> order (later wins on lookup by construction)
  nickCid : List (String × Nat) := []
  options : List String := []
  ballotLines : List (Nat × List Nat) := []          -- reversed while parsing
  ballotLinesEq : List (Nat × List (List Nat)) := [] -- reversed while parsing
  names : List String := []                          -- reversed while parsing
  title : String := ""
  source : Option String := none
  comment : Option String := none

inductive PErr | profile | crash (k : String)
deriving Repr

abbrev P := Except PErr

def dictSet {κ ν : Type} [BEq κ] (d : List (κ × ν)) (k : κ) (v : ν) : List (κ × ν) :=
  if d.any (·.1 == k) then d.map (fun e => if e.1 == k then (k, v) else e) else d ++ [(k, v)]
def dictGet? {κ ν : Type} [BEq κ] (d : List (κ × ν)) (k : κ) : Option ν := (d.find? (·.1 == k)).map (·.2)

def lstripC (c : Char) (s : String) : String := String.ofList (s.toList.dropWhile (· == c))
def rstripC (c : Char) (s : String) : String := String.ofList (s.toList.reverse.dropWhile (· == c)).reverse
def stripC (c : Char) (s : String) : String := rstripC c (lstripC c s)

def getCid (pr : Prof) (nick : String) : P Nat :=
  if isDigits nick then
    if 0 < digitsToNat nick && digitsToNat nick ≤ pr.nCand then pure (digitsToNat nick) else throw .profile
  else
    match dictGet? pr.nickCid nick with
    | some cid => pure cid
    | none => throw .profile

/-- read the rest of an option list: tokens up to and including the first one ending in `]` -/
def optionList : List String → List String → P (List String × List String)
  | [], _ => throw .profile                       -- StopIteration -> 'unexpected end-of-file'
  | tok :: rest, acc =>
    let acc' := if tok != "]" then rstripC ']' tok :: acc else acc
    if tok.endsWith "]" then pure (acc'.reverse, rest) else optionList rest acc'

def optTie (pr : Prof) (l : List String) : P Prof :=
  match (l.foldlM (fun (acc : List (Nat × Nat) × Nat) tok => do
      let cid ← getCid pr tok
      pure (dictSet acc.1 cid (acc.2 + 1), acc.2 + 1)) ([], 0) : P (List (Nat × Nat) × Nat)) with
  | .error e => .error e
  | .ok r => if r.1.length != pr.nCand then throw .profile else pure { pr with tieOrder := r.1 }

def optNick (pr : Prof) (l : List String) : P Prof :=
  if l.length != pr.nCand then throw .profile
  else
    match (l.foldlM (fun (acc : List (String × Nat) × Nat) nick => do
        if acc.1.any (·.1 == nick) then throw PErr.profile
        pure (acc.1 ++ [(nick, acc.2 + 1)], acc.2 + 1)) ([], 0) : P (List (String × Nat) × Nat)) with
    | .error e => .error e
    | .ok r => pure { pr with nickCid := r.1 }

def optSet (pr : Prof) (cur : List Nat) (l : List String) : P (List Nat) :=
  l.foldlM (fun acc tok => do
    let cid ← getCid pr tok
    if acc.contains cid then throw .profile
    pure (acc ++ [cid])) cur

/-- name and argument list of a `[...]` option -/
def bltOptionArgs (option : String) (rest : List String) : P (String × List String × List String) :=
  if (lstripC '[' option).endsWith "]" then pure (rstripC ']' (lstripC '[' option), ([] : List String), rest)
  else
    match optionList rest [] with
    | .error e => .error e
    | .ok r => pure (lstripC '[' option, r.1, r.2)

def bltApply (pr : Prof) (name : String) (l : List String) : P Prof :=
  if name == "tie" then optTie pr l
  else if name == "nick" then optNick pr l
  else if name == "droop" then pure { pr with options := pr.options ++ l }
  else if name == "withdrawn" then
    match optSet pr pr.withdrawn l with
    | .error e => .error e
    | .ok w => pure { pr with withdrawn := w }
  else if name == "undeclared" then
    match optSet pr pr.undeclared l with
    | .error e => .error e
    | .ok w => pure { pr with undeclared := w }
  else throw .profile

def bltOption (pr : Prof) (option : String) (rest : List String) : P (Prof × List String) :=
  match bltOptionArgs option rest with
  | .error e => .error e
  | .ok (name, l, rest') =>
    match bltApply pr name l with
    | .error e => .error e
    | .ok pr' => pure (pr', rest')

/-- header loop: options, -n withdrawals; stops at the first ballot line (returns that token) -/
def headerLoop : Nat → Prof → String → List String → P (Prof × String × List String)
  | 0, _, _, _ => throw .profile
  | fuel+1, pr, tok, rest =>
    if tok.startsWith "[" then
      match bltOption pr tok rest with
      | .error e => .error e
      | .ok (pr', rest') =>
        match rest' with
        | [] => throw .profile
        | t :: r => headerLoop fuel pr' t r
    else if tok.startsWith "(" then pure (pr, tok, rest)
    else if isSignedDigits tok then
      if - signedToInt tok ≤ 0 then pure (pr, tok, rest)
      else if (- signedToInt tok).toNat > pr.nCand then throw .profile
      else if pr.withdrawn.contains (- signedToInt tok).toNat then throw .profile
      else
        match rest with
        | [] => throw .profile
        | t :: r => headerLoop fuel { pr with withdrawn := pr.withdrawn ++ [(- signedToInt tok).toNat] } t r
    else throw .profile

/-- join tokens with single spaces until one ends with `close`; none = ran out of tokens -/
def joinUntil (close : String) : Nat → String → List String → Option (String × List String)
  | 0, _, _ => none
  | fuel+1, cur, rest =>
    if cur.endsWith close then some (cur, rest)
    else match rest with
      | [] => none
      | t :: r => joinUntil close fuel (cur ++ " " ++ t) r

/-- BallotLine.__init__: strip every occurrence of a withdrawn candidate from a rank, classify -/
def stripRank (wd : List Nat) (rank : List Nat) : List Nat := rank.filter (fun c => !wd.contains c)

def addBallot (pr : Prof) (mult : Nat) (ranking : List (List Nat)) : P Prof :=
  let stripped := ranking.map (stripRank pr.withdrawn)
  let equalRank := stripped.any (fun r => r.length > 1)
  let kept := stripped.filter (fun r => !r.isEmpty)
  if kept.isEmpty then pure pr
  else if equalRank then pure { pr with nBallots := pr.nBallots + mult, ballotLinesEq := (mult, kept) :: pr.ballotLinesEq }
  else
    let flat := kept.map (fun r => r.headD 0)
    -- array.array('B' | 'H' | 'L' by nCand): every cid ≤ nCand (getCid), so the array type always fits
    pure { pr with nBallots := pr.nBallots + mult, ballotLines := (mult, flat) :: pr.ballotLines }

/-- one ranking: tokens up to the terminating "0" -/
def readRanking (pr : Prof) : List String → List (List Nat) → P (List (List Nat) × List String)
  | [], _ => throw .profile
  | tok :: rest, acc =>
    if tok == "0" then pure (acc.reverse, rest)
    else do
      let grp ← (tok.splitOn "=").mapM (getCid pr)
      readRanking pr rest (grp :: acc)

/-- the head of a ballot line: "(ballot id)" (multiplier 1, ids must be distinct) or a multiplier -/
def ballotHead (ids : List String) (tok : String) (rest : List String) : P (Nat × List String × List String) :=
  if tok.startsWith "(" then
    match joinUntil ")" (rest.length + 1) tok rest with
    | none => throw .profile
    | some (bid, r) =>
      if ids.contains (stripC ' ' (rstripC ')' (lstripC '(' bid))) then throw .profile
      else pure (1, stripC ' ' (rstripC ')' (lstripC '(' bid)) :: ids, r)
  else if isDigits tok then pure (digitsToNat tok, ids, rest)
  else throw .profile

/-- a line whose ranking is empty is not stored -/
def ballotStore (pr : Prof) (mult : Nat) (ranking : List (List Nat)) : P Prof :=
  if ranking.isEmpty then pure pr else addBallot pr mult ranking

def ballotLoop : Nat → Prof → List String → String → List String → P (Prof × List String × List String)
  | 0, _, _, _, _ => throw .profile
  | fuel+1, pr, ids, tok, rest =>
    match ballotHead ids tok rest with
    | .error e => .error e
    | .ok (mult, ids', rest1) =>
      if mult == 0 then pure (pr, ids', rest1)
      else
        match readRanking pr rest1 [] with
        | .error e => .error e
        | .ok (ranking, rest2) =>
          match ballotStore pr mult ranking with
          | .error e => .error e
          | .ok pr' =>
            match rest2 with
            | [] => throw .profile
            | t :: r => ballotLoop fuel pr' ids' t r

def readNames : Nat → Nat → Prof → List String → P (Prof × List String)
  | 0, _, pr, rest => pure (pr, rest)
  | n+1, cid, pr, rest =>
    match rest with
    | [] => throw .profile
    | name :: r =>
      if !name.startsWith "\"" then throw .profile
      else match joinUntil "\"" (r.length + 1) name r with
        | none => throw .profile
        | some (full, r') => readNames n (cid + 1) { pr with names := stripC '"' full :: pr.names } r'

def quoted (tok : String) (rest : List String) : P (String × List String) :=
  match joinUntil "\"" (rest.length + 1) tok rest with
  | none => throw .profile
  | some (s, r) => pure (stripC ' ' (stripC '"' s), r)

/-- no element occurs twice (the dict-based duplicate scan of `__validate`) -/
def noDup : List Nat → Bool
  | [] => true
  | x :: xs => !xs.contains x && noDup xs

def validate (pr : Prof) (eligible : List Nat) : P Unit :=
  if pr.nSeats == 0 || pr.nSeats > eligible.length then throw .profile
  else if pr.nBallots < eligible.length then throw .profile
  else if !(pr.ballotLines.all (fun bl => noDup bl.2)) then throw .profile
  else if !(pr.ballotLinesEq.all (fun bl => noDup bl.2.flatten)) then throw .profile
  else pure ()

structure Profile where
  pr : Prof
  eligible : List Nat

/-- after the candidate names: title, then optionally source and comment -/
def parseTail (pr3 : Prof) (rest3 : List String) : P Prof :=
  match rest3 with
  | [] => throw .profile
  | tt :: r4 =>
    if !tt.startsWith "\"" then throw .profile
    else
      match quoted tt r4 with
      | .error e => .error e
      | .ok (title, r5) =>
        match r5 with
        | [] => pure { pr3 with title := title }
        | ts :: r6 =>
          if !ts.startsWith "\"" then pure { pr3 with title := title }
          else
            match quoted ts r6 with
            | .error e => .error e
            | .ok (src, r7) =>
              match r7 with
              | [] => pure { pr3 with title := title, source := some src }
              | tc :: r8 =>
                if !tc.startsWith "\"" then pure { pr3 with title := title, source := some src }
                else
                  match quoted tc r8 with
                  | .error e => .error e
                  | .ok (cm, _) => pure { pr3 with title := title, source := some src, comment := some cm }

def parseCore (toks : List String) : P Prof :=
  match toks with
  | [] => throw .profile
  | t1 :: r1 =>
    if !isDigits t1 then throw .profile
    else
      match r1 with
      | [] => throw .profile
      | t2 :: r2 =>
        if !isDigits t2 then throw .profile
        else
          match r2 with
          | [] => throw .profile
          | t3 :: r3 =>
            match headerLoop (r2.length + 1) { nCand := digitsToNat t1, nSeats := digitsToNat t2 } t3 r3 with
            | .error e => .error e
            | .ok (pr1, tok, rest) =>
              match ballotLoop (rest.length + 2) pr1 [] tok rest with
              | .error e => .error e
              | .ok (pr2, ids, rest2) =>
                if !ids.isEmpty && ids.length != pr2.ballotLines.length then throw .profile
                else
                  match readNames pr2.nCand 1 pr2 rest2 with
                  | .error e => .error e
                  | .ok (pr3, rest3) => parseTail pr3 rest3

def eligibleOf (pr : Prof) : List Nat :=
  (List.range pr.nCand).map (· + 1) |>.filter (fun c => !pr.withdrawn.contains c)

def finalProf (pr : Prof) : Prof :=
  { pr with ballotLines := pr.ballotLines.reverse, ballotLinesEq := pr.ballotLinesEq.reverse, names := pr.names.reverse }

/-- `__validate` and the construction of the public profile -/
def finishProfile (pr : Prof) : P Profile := do
  validate (finalProf pr) (eligibleOf pr)
  pure { pr := finalProf pr, eligible := eligibleOf pr }

def parseTokens (toks : List String) : P Profile := parseCore toks >>= finishProfile

/-- ElectionProfile(data=text) -/
def parseText (text : List Char) : P Profile :=
  if text.isEmpty then throw .profile else parseTokens (tokenize text)

end Droop
