import DroopModel.Core
/-!
# Trace predicates ok_Cxx: the decidable form of the properties, evaluated on model and implementation records
-/
namespace Droop
variable {α : Type} (A : Arith α)

structure Ctx where
  rule : String
  method : Method
  seats : Nat
  nballots : Nat
  electable : List Nat      -- not withdrawn, and (mpls) not undeclared
  isRational : Bool

def snapsOf (acts : List (Act α)) : List (Act α × Snap α) :=
  acts.filterMap (fun a => a.snap.map (fun s => (a, s)))

def codeOf (s : Snap α) (cid : Nat) : String :=
  match s.cs.find? (fun e => e.1 == cid) with
  | some e => e.2.1
  | none => "?"

def countCode (s : Snap α) (p : String → Bool) : Nat := (s.cs.filter (fun e => p e.2.1)).length
def isElectedCode (c : String) : Bool := c == "E" || c == "e"

/-- allowed status change of one candidate between consecutive snapshots -/
def stepOk (qpqRestart : Bool) (old new : String) : Bool :=
  old == new
  || (old == "H" && (isElectedCode new || new == "D"))
  || (old == "e" && new == "E")
  || (qpqRestart && isElectedCode old && new == "H")
  || (qpqRestart && isElectedCode old && new == "D")   -- un-elected by the restart, then excluded before the next snapshot

/-- C09 over a list of (action, snapshot) pairs -/
def okC09 (ctx : Ctx) (acts : List (Act α)) : Bool :=
  let ss := snapsOf acts
  let need := min ctx.seats ctx.electable.length
  let snapOk (p : Act α × Snap α) : Bool :=
    countCode p.2 isElectedCode ≤ ctx.seats
    && (countCode p.2 isElectedCode + (p.2.cs.filter (fun e => e.2.1 == "H" && ctx.electable.contains e.1)).length ≥ need)
  let pairOk (prev cur : Act α × Snap α) (restart : Bool) : Bool :=
    prev.1.round ≤ cur.1.round
    && cur.2.cs.all (fun e => stepOk restart (codeOf prev.2 e.1) e.2.1)
  let rec go (prev : Act α × Snap α) (restartPending : Bool) : List (Act α × Snap α) → Bool
    | [] => true
    | cur :: rest =>
      -- QPQ: a 'round' logged right after 'begin' or after "Transfer defeated" is followed by a silent restart
      let restartNow := ctx.method == .qpq && restartPending
      snapOk cur && pairOk prev cur restartNow
      && go cur (ctx.method == .qpq && cur.1.tag == "round"
                  && (prev.1.tag == "begin" || (prev.1.tag == "transfer" && prev.1.verb == "Transfer defeated"))) rest
  match ss with
  | [] => false
  | first :: rest => snapOk first && go first false rest

/-- C01 on the final snapshot -/
def okC01 (ctx : Ctx) (acts : List (Act α)) : Bool :=
  match (snapsOf acts).getLast? with
  | none => false
  | some (a, s) =>
    a.tag == "end"
    && countCode s isElectedCode == min ctx.seats ctx.electable.length
    && s.cs.all (fun e => e.2.1 == "W" || isElectedCode e.2.1 || e.2.1 == "D")
    && s.cs.all (fun e => !(isElectedCode e.2.1) || ctx.electable.contains e.1)

/-- upper half of C02 on one snapshot: tallies of non-withdrawn candidates + non-transferable ≤ ballots, nothing negative -/
def snapUpperB (nb : Nat) (sn : Snap α) : Bool :=
  !(A.ltRaw (A.ofInt nb) (A.add (A.sum ((sn.cs.filter (fun e => e.2.1 != "W")).map (fun e => e.2.2.1))) sn.x1))
  && (sn.cs.filter (fun e => e.2.1 != "W")).all (fun e => !(A.ltRaw e.2.2.1 A.zero))
  && !(A.ltRaw sn.x1 A.zero)

/-- ... on every snapshot of a record (proved `true` on every model record of wigm / wigm-prf: `wigm_C02_upper_check`) -/
def recUpperB (nb : Nat) (acts : List (Act α)) : Bool :=
  acts.all (fun a => match a.snap with
                     | some sn => snapUpperB A nb sn
                     | none => true)

/-- lower half of C02: the shortfall is at most 2 units per ballot per surplus transfer so far (exact arithmetic: none) -/
def recLowerB (ctx : Ctx) (units : Int → α) (acts : List (Act α)) : Bool :=
  let n := A.ofInt ctx.nballots
  let rec go (t : Nat) : List (Act α × Snap α) → Bool
    | [] => true
    | (a, s) :: rest =>
      let t' := if a.tag == "transfer" && (a.verb == "Surplus transferred" || a.verb == "Transfer surplus") then t + 1 else t
      let tot := A.add (A.sum ((s.cs.filter (fun e => e.2.1 != "W")).map (fun e => e.2.2.1))) s.x1
      let lower := if ctx.isRational then !(A.ltRaw tot n)
                   else !(A.ltRaw tot (A.sub n (units (2 * ctx.nballots * t'))))
      lower && go t' rest
  go 0 (snapsOf acts)

/-- C02 for the Gregory family: Σ tallies + nt ≤ n, ≥ n − 2·ulp·nballots·T, nothing negative -/
def okC02Gregory (ctx : Ctx) (units : Int → α) (acts : List (Act α)) : Bool :=
  recUpperB A ctx.nballots acts && recLowerB A ctx units acts

end Droop

namespace Droop
variable {α : Type} (A : Arith α)

def stClass (code : String) : String := if code == "e" then "E" else code

def voteOfSnap (s : Snap α) (cid : Nat) : Option α := (s.cs.find? (fun e => e.1 == cid)).map (·.2.2.1)
def quotOfSnap (s : Snap α) (cid : Nat) : Option α := (s.cs.find? (fun e => e.1 == cid)).bind (·.2.2.2.2)
def kfOfSnap (s : Snap α) (cid : Nat) : Option α := (s.cs.find? (fun e => e.1 == cid)).bind (·.2.2.2.1)

/-- candidates whose status class differs between two snapshots (after the optional QPQ virtual un-election) -/
def changedCids (virtualRestart : Bool) (prev cur : Snap α) : List Nat :=
  (cur.cs.filter (fun e =>
    let old := stClass (codeOf prev e.1)
    let old' := if virtualRestart && old == "E" then "H" else old
    old' != stClass e.2.1)).map (·.1)

def hasSub (s sub : String) : Bool := (s.splitOn sub).length > 1

/-- C18 (record part): starts with begin (mpls: round 1), ends with end; every elect/defeat changes exactly one
    candidate's status (or clears one pending flag) in the right direction; nothing changes silently -/
def okC18rec (ctx : Ctx) (acts : List (Act α)) : Bool :=
  let ss := snapsOf acts
  let firstOk := match ss.head? with
    | some (a, _) => a.tag == "begin" || (ctx.rule == "mpls" && a.tag == "round" && a.round == 1)
    | none => false
  let lastOk := match ss.getLast? with
    | some (a, _) => a.tag == "end"
    | none => false
  let rec go (prev : Act α × Snap α) (restartPending : Bool) : List (Act α × Snap α) → Bool
    | [] => true
    | cur :: rest =>
      let virt := ctx.method == .qpq && restartPending
      let ch := changedCids virt prev.2 cur.2
      let unpended := (cur.2.cs.filter (fun e => codeOf prev.2 e.1 == "e" && e.2.1 == "E")).map (·.1)
      let ok :=
        if cur.1.tag == "elect" then
          (ch.length == 1 && ch.all (fun c => stClass (codeOf cur.2 c) == "E")) || (ch.isEmpty && unpended.length == 1)
        else if cur.1.tag == "defeat" then ch.length == 1 && ch.all (fun c => codeOf cur.2 c == "D")
        else ch.isEmpty
      -- the virtual restart stays in force until the first status-changing action re-synchronises the snapshots
      let nextRestart := ctx.method == .qpq && cur.1.tag == "round"
          && (prev.1.tag == "begin" || (prev.1.tag == "transfer" && prev.1.verb == "Transfer defeated"))
      ok && go cur nextRestart rest
  match ss with
  | [] => false
  | first :: rest => firstOk && lastOk && go first false rest

/-- C04(b) and C07 (single exclusions), read on the defeat action's own snapshot; with `lowest := false` only the C04 clause
    (nobody holding a quota is excluded) is judged -/
def okExclusions (ctx : Ctx) (acts : List (Act α)) (lowest : Bool := true) : Bool :=
  let ss := snapsOf acts
  let hasQuota (v q : α) : Bool := if A.exact then A.gt v q else A.ge v q
  let rec go (prev : Act α × Snap α) (restartPending : Bool) : List (Act α × Snap α) → Bool
    | [] => true
    | cur :: rest =>
      let virt := ctx.method == .qpq && restartPending
      let ok :=
        if cur.1.tag == "defeat" && !(hasSub cur.1.verb "remaining") && !(hasSub cur.1.verb "undeclared") then
          (changedCids virt prev.2 cur.2).all (fun cid =>
            let hop := cur.2.cs.filter (fun e => e.2.1 == "H" || e.1 == cid)
            match ctx.method with
            | .qpq =>
              match quotOfSnap cur.2 cid with
              | some qc => (!lowest || hop.all (fun e => match e.2.2.2.2 with
                                             | some qe => !(A.lt qe qc)
                                             | none => true))
                           && !(A.gt qc cur.2.quota)
              | none => false
            | .meek =>
              match voteOfSnap cur.2 cid with
              | some vc =>
                (!lowest || hasSub cur.1.verb "certain loser"
                 || hop.any (fun e => hop.all (fun f => !(A.ltRaw f.2.2.1 e.2.2.1)) && A.ge (A.add e.2.2.1 cur.2.x2) vc))
                && !(hasQuota vc cur.2.quota)
              | none => false
            | .wigm =>
              match voteOfSnap cur.2 cid with
              | some vc =>
                (!lowest || hasSub cur.1.verb "sure loser" || hasSub cur.1.verb "batch" || hasSub cur.1.verb "certain loser"
                 || hop.all (fun e => !(A.lt e.2.2.1 vc)))
                && !(hasQuota vc cur.2.quota)
              | none => false)
        else true
      let nextRestart := ctx.method == .qpq && cur.1.tag == "round"
          && (prev.1.tag == "begin" || (prev.1.tag == "transfer" && prev.1.verb == "Transfer defeated"))
      ok && go cur nextRestart rest
  match ss with
  | [] => false
  | first :: rest => go first false rest

/-- C08 / C02 for the Meek family at the snapshots the property names -/
def okC08 (ctx : Ctx) (omega : α) (acts : List (Act α)) : Bool :=
  let n := A.ofInt ctx.nballots
  (snapsOf acts).all (fun (a, s) =>
    let named :=
      if ctx.rule == "meek-prf" then
        (a.tag == "begin" || a.tag == "elect" || a.tag == "tie" || a.tag == "end"
         || (a.tag == "defeat" && !(hasSub a.verb "remaining"))) && !(a.tag == "elect" && hasSub a.verb "remaining")
      else a.tag == "iterate" || a.tag == "end"
    let live := s.cs.filter (fun e => e.2.1 != "W")
    let tot := A.add (A.sum (live.map (·.2.2.1))) s.x1
    let consOk := !named || (!(A.ltRaw tot n) && !(A.ltRaw n tot) && !(A.ltRaw s.x1 A.zero)
                             && live.all (fun e => !(A.ltRaw e.2.2.1 A.zero)))
    let exitOk := !(a.tag == "iterate" && a.verb == "Iterate (omega)") || A.le s.x2 omega
    consOk && exitOk)

end Droop

namespace Droop
variable {α : Type} (A : Arith α)

/-- C06 on the snapshots begin/round/count/transfer/end of a Gregory count: tallies equal the value of the ballots
    standing with each candidate (or the candidate is elected/defeated and holds no ballots), weights stay in
    [0, 1] and never increase, positions never move back. `ballots` = (multiplier, ranking) per ballot line. -/
def okC06 (ballots : List (Nat × List Nat)) (acts : List (Act α)) : Bool :=
  let tallyOf (ws : List (Nat × α)) (cid : Nat) : α :=
    A.sum ((ballots.zip ws).map (fun (b, w) => if b.2[w.1]? == some cid then A.mulV w.2 (A.ofInt b.1) else A.zero))
  let rec go (prevWs : Option (List (Nat × α))) : List (Act α) → Bool
    | [] => true
    | a :: rest =>
      match a.snap with
      | none => go prevWs rest
      | some sn =>
        let rangeOk := a.ws.all (fun w => !(A.ltRaw w.2 A.zero) && !(A.ltRaw A.one w.2))
        let monoOk := match prevWs with
          | some pw => (pw.zip a.ws).all (fun (p, c) => !(A.ltRaw p.2 c.2) && p.1 ≤ c.1)
          | none => true
        let tallyOk :=
          if a.tag == "begin" || a.tag == "round" || a.tag == "count" || a.tag == "transfer" || a.tag == "end" then
            (sn.cs.filter (fun e => e.2.1 != "W")).all (fun e =>
              let t := tallyOf a.ws e.1
              (!(A.ltRaw t e.2.2.1) && !(A.ltRaw e.2.2.1 t))
              || (A.isZero t && (stClass e.2.1 == "E" || e.2.1 == "D")))
          else true
        a.ws.length == ballots.length && rangeOk && monoOk && tallyOk && go (some a.ws) rest
  go none acts

end Droop
