import DroopModel.Values
/-!
# `__str__` of Fixed, Guarded, Rational (negative values: sign, then the magnitude — repo commit "fix: values: str() of negative values")
-/
namespace Droop

/-- Python `"%0Nd" % n` for n ≥ 0 (the second operand of the format is always `v % scale ≥ 0`) -/
def zpad (width : Nat) (n : Nat) : String :=
  let s := toString n
  String.ofList (List.replicate (width - s.length) '0') ++ s

/-- Python `"%d.%0Nd" % (a, b)` -/
def fmt2 (width : Nat) (a : Int) (b : Int) : String :=
  toString a ++ "." ++ zpad width b.toNat

/-- sign prefix and magnitude of a scaled display value -/
def signStr (v : Int) : String := if v < 0 then "-" else ""

/-- Fixed.__str__ ; `display` already clamped to `0 ≤ display ≤ precision` by initialize -/
def strFixed (p display : Nat) (v : Int) : String :=
  if p == 0 then toString v
  else
    let v1 := if display < p then pdiv (v + pow10 (p - display) / 2) (pow10 (p - display)) else v
    signStr v1 ++ fmt2 display (pdiv v1.natAbs (pow10 display)) (pmod v1.natAbs (pow10 display))

/-- Guarded.__str__ ; `display` already clamped to `≤ p + g` -/
def strGuarded (p g display : Nat) (v : Int) : String :=
  let dd := pow10 (g + p - display)
  let gv0 := pdiv (v + dd / 2) dd
  let gv : Int := gv0.natAbs
  let sc := pow10 display
  if display ≤ p then signStr gv0 ++ fmt2 display (pdiv gv sc) (pmod gv sc)
  else
    let gvp := pmod gv sc
    let sg := pow10 (display - p)
    signStr gv0 ++ toString (pdiv gv sc) ++ "." ++ zpad p (pdiv gvp sg).toNat ++ "_" ++ zpad (display - p) (pmod gvp sg).toNat

/-- Rational.__str__ -/
def strRational (dp : Nat) (q : Rat) : String :=
  let dps := pow10 dp
  let v : Int := if q.num == 0 || q.den == 1 then q.num * dps
                 else ((q + (1 : Rat) / ((dps * 2 : Int) : Rat)) * (dps : Rat)).floor
  signStr v ++ fmt2 dp (pdiv v.natAbs dps) (pmod v.natAbs dps)

end Droop
