import DroopModel.Values
/-!
# `__str__` of Fixed, Guarded, Rational
(negative values: sign, then the magnitude — repo commit "fix: values: str() of negative values")

Two layers: the *display units* (the value rounded to the display precision, an integer count of 10^-d) and the
rendering of display units as a decimal string.
-/
namespace Droop

/-- Python `"%0Nd" % n` for n ≥ 0 -/
def zpad (width : Nat) (n : Nat) : String :=
  let s := toString n
  String.ofList (List.replicate (width - s.length) '0') ++ s

/-- Python `"%d.%0Nd" % (a, b)` -/
def fmt2 (width : Nat) (a : Int) (b : Int) : String :=
  toString a ++ "." ++ zpad width b.toNat

/-- sign prefix of a scaled display value -/
def signStr (v : Int) : String := if v < 0 then "-" else ""

/-- `(v + scaledr) // scaledd`: a value stored with `P` digits, rounded half-up to `d ≤ P` digits -/
def roundUnits (P d : Nat) (v : Int) : Int := pdiv (v + pow10 (P - d) / 2) (pow10 (P - d))

/-- display units of a Fixed value; `display` already clamped to `0 ≤ display ≤ precision` by initialize -/
def fixedUnits (p display : Nat) (v : Int) : Int := if display < p then roundUnits p display v else v

/-- sign, integer part and `d` fraction digits of `u` display units -/
def renderUnits (d : Nat) (u : Int) : String :=
  signStr u ++ fmt2 d (pdiv u.natAbs (pow10 d)) (pmod u.natAbs (pow10 d))

/-- Fixed.__str__ -/
def strFixed (p display : Nat) (v : Int) : String :=
  if p == 0 then toString v else renderUnits display (fixedUnits p display v)

/-- display units of a Guarded value; `display` already clamped to `≤ p + g` -/
def guardedUnits (p g display : Nat) (v : Int) : Int := roundUnits (g + p) display v

/-- Guarded.__str__ : beyond `p` digits the guard digits are set off after an underscore -/
def strGuarded (p g display : Nat) (v : Int) : String :=
  let gv0 := guardedUnits p g display v
  let gv : Int := gv0.natAbs
  let sc := pow10 display
  if display ≤ p then renderUnits display gv0
  else
    let gvp := pmod gv sc
    let sg := pow10 (display - p)
    signStr gv0 ++ toString (pdiv gv sc) ++ "." ++ zpad p (pdiv gvp sg).toNat ++ "_" ++ zpad (display - p) (pmod gvp sg).toNat

/-- display units of a Rational value -/
def rationalUnits (dp : Nat) (q : Rat) : Int :=
  if q.num == 0 || q.den == 1 then q.num * pow10 dp
  else ((q + (1 : Rat) / ((pow10 dp * 2 : Int) : Rat)) * (pow10 dp : Rat)).floor

/-- Rational.__str__ -/
def strRational (dp : Nat) (q : Rat) : String := renderUnits dp (rationalUnits dp q)

end Droop
