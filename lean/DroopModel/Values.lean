/-!
# Droop arithmetic classes (values/fixed.py, guarded.py, rational.py) as explicit dictionaries

`α = Int` holds the `_value` of Fixed/Guarded (units of 10^-p resp. 10^-(p+g)); `α = Rat` is Rational.
Division by zero is total here (returns 0); callers consult `isZero` and raise the crash flag.
-/
namespace Droop

/-- Python `a // b` on ints -/
def pdiv (a b : Int) : Int := Int.fdiv a b
/-- Python `a % b` on ints -/
def pmod (a b : Int) : Int := Int.fmod a b
def pow10 (n : Nat) : Int := (10 : Int) ^ n

inductive Round | down | up | unspecified
deriving DecidableEq, Repr

structure Arith (α : Type) where
  name   : String
  exact  : Bool
  eps    : α
  zero   : α
  one    : α
  ofInt  : Int → α
  add    : α → α → α
  sub    : α → α → α
  mulV   : α → α → α
  divV   : α → α → α
  fdivV  : α → α → α
  isZero : α → Bool
  mul    : Round → α → α → α
  div    : Round → α → α → α
  muldiv : Round → α → α → α → α
  cmp    : α → α → Int
  ltRaw  : α → α → Bool
  raw    : α → String

namespace Arith
variable {α : Type} (A : Arith α)
def lt (a b : α) : Bool := A.cmp a b < 0
def le (a b : α) : Bool := A.cmp a b ≤ 0
def gt (a b : α) : Bool := A.cmp a b > 0
def ge (a b : α) : Bool := A.cmp a b ≥ 0
def eq (a b : α) : Bool := A.cmp a b == 0
def sum (l : List α) : α := l.foldl A.add A.zero
/-- Python builtin `max(iterable)`: keeps the first maximal element under `>` -/
def pyMax (x : α) (l : List α) : α := l.foldl (fun m y => if A.gt y m then y else m) x
/-- Python builtin `min(iterable)`: keeps the first minimal element under `<` -/
def pyMin (x : α) (l : List α) : α := l.foldl (fun m y => if A.lt y m then y else m) x
/-- `V.min(list)` of Guarded: first minimal stored value; for Fixed/Rational builtin `min` agrees -/
def vMin (x : α) (l : List α) : α := l.foldl (fun m y => if A.ltRaw y m then y else m) x
end Arith

/-! ## Fixed -/
def divmodRound (r : Round) (num den : Int) : Int :=
  if den == 0 then 0
  else if r == .up && pmod num den != 0 then pdiv num den + 1 else pdiv num den

def intCmp (a b : Int) : Int := if a < b then -1 else if a == b then 0 else 1

def fixedArith (p : Nat) : Arith Int :=
  let S := pow10 p
  { name := if p == 0 then "integer" else "fixed"
    exact := false
    eps := 1
    zero := 0
    one := S
    ofInt := fun n => n * S
    add := (· + ·)
    sub := (· - ·)
    mulV := fun a b => pdiv (a * b) S
    divV := fun a b => if b == 0 then 0 else pdiv (a * S) b
    fdivV := fun a b => if b == 0 then 0 else pdiv (a * S) b
    isZero := (· == 0)
    mul := fun r a b => divmodRound r (a * b) S
    div := fun r a b => divmodRound r (a * S) b
    muldiv := fun r a b c => divmodRound r (a * b) c
    cmp := intCmp
    ltRaw := fun a b => a < b
    raw := fun a => toString a }

/-! ## Guarded -/
def geps (g : Nat) : Int := if pow10 g / 2 == 0 then 1 else pow10 g / 2

def guardedCmp (g : Nat) (a b : Int) : Int :=
  let d := (a - b).natAbs
  if (d : Int) < geps g then 0 else if a > b then 1 else -1

def guardedArith (p g : Nat) : Arith Int :=
  let S := pow10 (p + g)
  let rnd (r : Round) : Round := if g == 0 then r else .down
  { name := "guarded"
    exact := g != 0
    eps := 1
    zero := 0
    one := S
    ofInt := fun n => n * S
    add := (· + ·)
    sub := (· - ·)
    mulV := fun a b => pdiv (a * b) S
    divV := fun a b => if b == 0 then 0 else pdiv (a * S) b
    fdivV := fun a b => if b == 0 then 0 else pdiv (a * S) b
    isZero := (· == 0)
    mul := fun r a b => divmodRound (rnd r) (a * b) S
    div := fun r a b => divmodRound (rnd r) (a * S) b
    muldiv := fun r a b c => divmodRound (rnd r) (a * b) c
    cmp := guardedCmp g
    ltRaw := fun a b => a < b
    raw := fun a => toString a }

/-- Guarded's comparison statistics (class attributes `maxDiff`, `minDiff`, printed in the arithmetic report):
    the largest difference below the tolerance and the smallest difference at or above it, over the comparisons made so far -/
structure CmpStats where
  maxDiff : Int
  minDiff : Int
deriving Repr, DecidableEq

/-- `Guarded.initialize` -/
def statsInit (p g : Nat) : CmpStats := { maxDiff := 0, minDiff := pow10 (p + g) * 100 }

/-- the bookkeeping part of `Guarded.__cmp__` -/
def statsStep (g : Nat) (s : CmpStats) (ab : Int × Int) : CmpStats :=
  let d : Int := ((ab.1 - ab.2).natAbs : Int)
  { maxDiff := if d < geps g ∧ s.maxDiff < d then d else s.maxDiff
    minDiff := if geps g ≤ d ∧ d < s.minDiff then d else s.minDiff }

def statsRun (g : Nat) (s : CmpStats) (pairs : List (Int × Int)) : CmpStats := pairs.foldl (statsStep g) s

/-! ## Rational -/
def ratCmp (a b : Rat) : Int := if a < b then -1 else if a == b then 0 else 1

def rationalArith : Arith Rat :=
  { name := "rational"
    exact := true
    eps := 0
    zero := 0
    one := 1
    ofInt := fun n => (n : Rat)
    add := (· + ·)
    sub := (· - ·)
    mulV := (· * ·)
    divV := fun a b => if b == 0 then 0 else a / b
    fdivV := fun a b => if b == 0 then 0 else ((a / b).floor : Rat)
    isZero := (· == 0)
    mul := fun _ a b => a * b
    div := fun _ a b => if b == 0 then 0 else a / b
    muldiv := fun _ a b c => if c == 0 then 0 else a * b / c
    cmp := ratCmp
    ltRaw := fun a b => a < b
    raw := fun a => s!"{a.num}/{a.den}" }

end Droop
