import DroopModel.Oracles
/-!
# More trace predicates: C02 (Meek family, QPQ), C04, C05, C06 (re-weighting), C07 (batches, largest surplus, ties), C08 (keep factors)

Every predicate reads one record (list of actions with snapshots, oldest first) plus the static data of the
election (ballot lines, tie order, options). They are evaluated by the driver on the model's record and on the
record the implementation produced.
-/
namespace Droop
variable {α : Type} (A : Arith α)

/-- static data of one election beyond `Ctx` -/
structure Ctx2 where
  intq : Bool := false
  tie : List (Nat × Nat) := []          -- (cid, tie order)
  undeclared : List Nat := []
  ballots : List (Nat × List Nat) := []  -- (multiplier, strict ranking), withdrawn stripped
  hasEq : Bool := false                  -- the profile has equal-rank ballot lines

def rawEq (a b : α) : Bool := !(A.ltRaw a b) && !(A.ltRaw b a)
def rawLe (a b : α) : Bool := !(A.ltRaw b a)

def isRemaining (a : Act α) : Bool := hasSub a.verb "remaining"
def isUndeclVerb (a : Act α) : Bool := hasSub a.verb "undeclared"
def isBatchVerb (a : Act α) : Bool :=
  hasSub a.verb "sure loser" || hasSub a.verb "batch" || hasSub a.verb "certain loser"
def isSurplusTransfer (a : Act α) : Bool :=
  a.tag == "transfer" && (a.verb == "Surplus transferred" || a.verb == "Transfer surplus")

def hopefulOf (s : Snap α) : List (Nat × String × α × Option α × Option α) := s.cs.filter (fun e => e.2.1 == "H")
def electedCount (s : Snap α) : Nat := countCode s isElectedCode

/-- the rule's "has a quota" test -/
def ruleHasQuota (ctx : Ctx) (v q : α) : Bool :=
  if ctx.rule == "wigm" || ctx.rule == "meek" || ctx.rule == "warren" then
    (if A.exact then A.gt v q else A.ge v q)
  else A.ge v q

/-! ## C04 -/

/-- the prescribed (constant) quota of a Gregory rule -/
def gregoryQuota (ctx : Ctx) (c2 : Ctx2) : Option α :=
  let q := A.divV (A.ofInt ctx.nballots) (A.ofInt (ctx.seats + 1))
  let iq := A.ofInt (pdiv ctx.nballots (ctx.seats + 1) + 1)
  if ctx.rule == "wigm" then
    some (if c2.intq then iq else if A.exact then q else A.add q A.eps)
  else if ctx.rule == "wigm-prf" || ctx.rule == "wigm-prf-batch" || ctx.rule == "cfer" || ctx.rule == "cfer-batch" then
    some (A.add q A.eps)
  else if ctx.rule == "scotland" || ctx.rule == "mpls" then some iq
  else none

/-- QPQ: active ballots and exhausted weight from a ballot snapshot -/
def qpqVaTx (c2 : Ctx2) (ws : List (Nat × α)) : α × α :=
  (c2.ballots.zip ws).foldl (fun acc (b, w) =>
    if w.1 < b.2.length then (A.add acc.1 (A.ofInt b.1), acc.2)
    else (acc.1, A.add acc.2 (A.mulV w.2 (A.ofInt b.1)))) (A.zero, A.zero)

/-- C04(a): the quota shown is the prescribed one -/
def okC04quota (ctx : Ctx) (c2 : Ctx2) (acts : List (Act α)) : Bool :=
  (snapsOf acts).all (fun (a, s) =>
    match ctx.method with
    | .wigm =>
      match gregoryQuota A ctx c2 with
      | some q => rawEq A s.quota q
      | none => false
    | .meek =>
      let fromVotes (v : α) : α :=
        if ctx.rule == "meek-prf" then A.add (A.fdivV v (A.ofInt (ctx.seats + 1))) A.eps
        else if A.exact then A.divV v (A.ofInt (ctx.seats + 1))
        else A.add (A.divV v (A.ofInt (ctx.seats + 1))) A.eps
      if a.tag == "begin" then
        rawEq A s.quota (if ctx.rule == "meek-prf" then A.add (A.divV (A.ofInt ctx.nballots) (A.ofInt (ctx.seats + 1))) A.eps
                         else fromVotes (A.ofInt ctx.nballots))
      else if (ctx.rule != "meek-prf" && a.tag == "iterate")
           || (ctx.rule == "meek-prf" && !(isRemaining a) && (a.tag == "elect" || a.tag == "tie" || a.tag == "defeat")) then
        rawEq A s.quota (fromVotes s.votes)
      else true
    | .qpq =>
      if !(isRemaining a) && (a.tag == "elect" || a.tag == "tie" || a.tag == "defeat") && a.ws.length == c2.ballots.length then
        let vt := qpqVaTx A c2 a.ws
        let den := A.sub (A.ofInt (1 + ctx.seats)) vt.2
        !(A.isZero den) && rawEq A s.quota (A.divV vt.1 den)
      else true)

/-- C04(b), election completeness: at the first decision taken after an election step no hopeful holds a quota.
    Gregory: the first tie/unpend/defeat after a `round` (mpls elects one candidate at a time: its two rules are in the code);
    meek/warren: every `iterate`; meek-prf: every tie and pre-exclusion `defeat`. -/
def okC04complete (ctx : Ctx) (acts : List (Act α)) : Bool :=
  let noQuotaLeft (s : Snap α) : Bool := (hopefulOf s).all (fun e => !(ruleHasQuota A ctx e.2.2.1 s.quota))
  let rec go (armed : Bool) : List (Act α × Snap α) → Bool
    | [] => true
    | (a, s) :: rest =>
      match ctx.method with
      | .wigm =>
        if ctx.rule == "mpls" then
          -- Minneapolis elects one candidate per round, so a hopeful may hold the threshold for a while; but (step a) a new
          -- round is never opened while the elected and the declared hopefuls at the threshold could fill every seat,
          -- and (step e) the lowest candidate is never excluded while a declared hopeful is at the threshold
          let atT := (hopefulOf s).filter (fun e => ctx.electable.contains e.1 && ruleHasQuota A ctx e.2.2.1 s.quota)
          (!(a.tag == "round" && a.round ≥ 2) || decide (electedCount s + atT.length < ctx.seats))
          && (!(a.tag == "defeat" && a.verb == "Defeat low candidate") || atT.isEmpty)
          && go armed rest
        else if a.tag == "round" then go true rest
        else if a.tag == "elect" then go armed rest
        else if armed && (a.tag == "tie" || a.tag == "unpend" || (a.tag == "defeat" && !(isRemaining a))) then
          noQuotaLeft s && go false rest
        else go false rest
      | .meek =>
        let named := if ctx.rule == "meek-prf" then (a.tag == "tie" || (a.tag == "defeat" && !(isRemaining a)))
                     else a.tag == "iterate"
        (!named || noQuotaLeft s) && go armed rest
      | .qpq => true
  go false (snapsOf acts)

/-! ## C02 for QPQ -/

/-- Σ weight·multiplier over all ballot lines equals the number of elected candidates, to within
    `nballots·(elected+1)` units; not read on `elect` snapshots nor after the first "remaining" action -/
def okC02Qpq (ctx : Ctx) (c2 : Ctx2) (units : Int → α) (acts : List (Act α)) : Bool :=
  let rec go : List (Act α × Snap α) → Bool
    | [] => true
    | (a, s) :: rest =>
      if isRemaining a then true
      else if a.tag == "elect" || a.tag == "end" || a.ws.length != c2.ballots.length then go rest
      else
        let tot := A.sum ((c2.ballots.zip a.ws).map (fun (b, w) => A.mulV w.2 (A.ofInt b.1)))
        let ne := A.ofInt (electedCount s)
        let tol := units ((ctx.nballots : Int) * ((electedCount s : Int) + 1))
        rawLe A (A.sub tot ne) tol && rawLe A (A.sub ne tot) tol
        && a.ws.all (fun w => !(A.ltRaw w.2 A.zero)) && go rest
  go (snapsOf acts)

/-! ## C05 -/

def subsetsOf : List Nat → List (List Nat)
  | [] => [[]]
  | x :: xs => (subsetsOf xs).flatMap (fun s => [s, x :: s])

/-- Droop proportionality on one finished record: for every set S of candidates, if the ballots whose first |S|
    places are exactly S number more than k quotas plus the allowance, at least min(k,|S|) members of S are elected -/
def okC05 (ctx : Ctx) (c2 : Ctx2) (allowance : α) (acts : List (Act α)) : Bool :=
  match (snapsOf acts).head?, (snapsOf acts).getLast? with
  | some (_, s0), some (_, sN) =>
    let q := s0.quota
    let elected := (sN.cs.filter (fun e => isElectedCode e.2.1)).map (·.1)
    (subsetsOf ctx.electable).all (fun S =>
      S.isEmpty ||
      let vS : Int := ((c2.ballots.filter (fun b => b.2.length ≥ S.length && (b.2.take S.length).all (S.contains ·))).map
                        (fun b => (b.1 : Int))).sum
      let got := (S.filter (elected.contains ·)).length
      (List.range S.length).all (fun k0 =>
        -- k = k0 + 1
        !(A.ltRaw (A.add (A.mulV q (A.ofInt (k0 + 1))) allowance) (A.ofInt vS)) || got ≥ k0 + 1))
  | _, _ => false

/-! ## C06: re-weighting on transfers -/

inductive RewKind | mulDiv | muldivDown
def rewOf (k : RewKind) (w s v : α) : α :=
  match k with
  | .mulDiv => A.divV (A.mulV w s) v
  | .muldivDown => A.muldiv .down w s v

/-- on a surplus transfer every ballot standing with the elected candidate gets weight `rew w (v−q) v`, the
    candidate keeps exactly the quota, nothing else moves; on an exclusion transfer ballots keep their weight -/
def okC06rew (ctx : Ctx) (c2 : Ctx2) (acts : List (Act α)) : Bool :=
  let kind : RewKind := if ctx.rule == "scotland" then .muldivDown else .mulDiv
  let rec go (prev : Act α × Snap α) : List (Act α × Snap α) → Bool
    | [] => true
    | cur :: rest =>
      let ok :=
        if cur.1.tag != "transfer" then
          -- weights and positions change only in transfer actions
          (prev.1.ws.zip cur.1.ws).all (fun (p, c) => p.1 == c.1 && rawEq A p.2 c.2)
        else if isSurplusTransfer cur.1 then
          match cur.1.subj with
          | [cid] =>
            match voteOfSnap prev.2 cid, voteOfSnap cur.2 cid with
            | some v, some v' =>
              rawEq A v' cur.2.quota &&
              ((c2.ballots.zip (prev.1.ws.zip cur.1.ws)).all (fun (b, p, c) =>
                if b.2[p.1]? == some cid then
                  rawEq A c.2 (rewOf A kind p.2 (A.sub v prev.2.quota) v) && p.1 < c.1
                else p.1 == c.1 && rawEq A p.2 c.2))
            | _, _ => false
          | _ => false
        else
          (c2.ballots.zip (prev.1.ws.zip cur.1.ws)).all (fun (b, p, c) =>
            rawEq A p.2 c.2 &&
            (match b.2[p.1]? with
             | some top => if cur.1.subj.contains top then p.1 < c.1 else p.1 == c.1
             | none => p.1 == c.1))
      ok && go cur rest
  match snapsOf acts with
  | [] => false
  | first :: rest => go first rest

/-! ## C07 -/

def tieOf (c2 : Ctx2) (cid : Nat) : Nat := ((c2.tie.find? (fun e => e.1 == cid)).map (·.2)).getD cid

/-- batches are sure losers and leave enough candidates; reference snapshot = the one before the batch -/
def okC07batch (ctx : Ctx) (acts : List (Act α)) : Bool :=
  let rec go (prev : Act α × Snap α) (ref : Option (Snap α)) : List (Act α × Snap α) → Bool
    | [] => true
    | cur :: rest =>
      let inBatch := cur.1.tag == "defeat" && isBatchVerb cur.1
      let ref' : Option (Snap α) :=
        if inBatch then (match ref with
                         | some r => some r
                         | none => some prev.2)
        else none
      let lastOfBatch := inBatch && !(match rest.head? with
                                      | some nx => nx.1.tag == "defeat" && isBatchVerb nx.1 && nx.1.verb == cur.1.verb
                                      | none => false)
      let ok :=
        if lastOfBatch then
          match ref' with
          | none => false
          | some r =>
            let hop := hopefulOf r
            let batch := hop.filter (fun e => codeOf cur.2 e.1 == "D" && !(ctx.rule == "mpls" && !(ctx.electable.contains e.1)))
            let others := hop.filter (fun e => codeOf cur.2 e.1 != "D")
            let surplus :=
              if ctx.method == .meek then r.x2
              else if ctx.rule == "mpls" then r.x2
              else A.sum ((r.cs.filter (fun e => e.2.1 == "e")).map (fun e => A.sub e.2.2.1 r.quota))
            let tot := A.add (A.sum (batch.map (·.2.2.1))) surplus
            -- the stored values are compared exactly: Guarded's own `<` is approximate (values within half a unit of the
            -- declared precision are "equal"), the property speaks of the tallies
            others.all (fun e => A.ltRaw tot e.2.2.1)
            && ((others.length : Int) ≥ (ctx.seats : Int) - (electedCount r : Int))
        else true
      ok && go cur (if lastOfBatch then none else ref') rest
  match snapsOf acts with
  | [] => false
  | first :: rest => go first none rest

/-- where one surplus is transferred at a time the one taken is a largest one -/
def okC07largest (ctx : Ctx) (acts : List (Act α)) : Bool :=
  let rec go (prev : Act α × Snap α) : List (Act α × Snap α) → Bool
    | [] => true
    | cur :: rest =>
      let ok :=
        if (ctx.rule == "wigm" || ctx.rule == "wigm-prf" || ctx.rule == "wigm-prf-batch" || ctx.rule == "scotland")
           && cur.1.tag == "unpend" then
          match cur.1.subj with
          | [cid] =>
            match voteOfSnap prev.2 cid with
            | some v => (prev.2.cs.filter (fun e => e.2.1 == "e")).all (fun e => !(A.gt e.2.2.1 v))
            | none => false
          | _ => false
        else if ctx.rule == "mpls" && cur.1.tag == "elect" && cur.1.verb == "Elect" then
          match cur.1.subj with
          | [cid] =>
            match voteOfSnap prev.2 cid with
            | some v => (hopefulOf prev.2).all (fun e => !(A.gt e.2.2.1 v))
            | none => false
          | _ => false
        else true
      ok && go cur rest
  match snapsOf acts with
  | [] => false
  | first :: rest => go first rest

/-- every `tie` action names its choice among the tied, the choice is the first in tie order unless the verb says
    "prior stage", and the next status change is that candidate's; a single exclusion or surplus choice that had
    equals is preceded by a `tie` action naming them -/
def okC07ties (ctx : Ctx) (c2 : Ctx2) (acts : List (Act α)) : Bool :=
  let rec go (prev : Act α × Snap α) : List (Act α × Snap α) → Bool
    | [] => true
    | cur :: rest =>
      let tieOk :=
        if cur.1.tag == "tie" then
          match cur.1.subj with
          | chosen :: tied =>
            tied.length ≥ 2 && tied.contains chosen
            && (hasSub cur.1.verb "prior stage" || tied.all (fun t => tieOf c2 chosen ≤ tieOf c2 t))
            && (match rest.head? with
                | some nx => (nx.1.tag == "elect" || nx.1.tag == "defeat" || nx.1.tag == "unpend") && nx.1.subj == [chosen]
                | none => false)
          | [] => false
        else true
      -- a single exclusion among equals must follow a tie action that lists the equals
      let loggedOk :=
        if cur.1.tag == "defeat" && !(isRemaining cur.1) && !(isBatchVerb cur.1) && !(isUndeclVerb cur.1) then
          match cur.1.subj with
          | [cid] =>
            let equals : List Nat :=
              match ctx.method with
              | .wigm =>
                match voteOfSnap cur.2 cid with
                | some v => ((hopefulOf cur.2).filter (fun e => A.eq e.2.2.1 v)).map (·.1)
                | none => []
              | .qpq =>
                match quotOfSnap cur.2 cid with
                | some q => ((hopefulOf cur.2).filter (fun e => match e.2.2.2.2 with
                                                                  | some qe => A.eq qe q
                                                                  | none => false)).map (·.1)
                | none => []
              | .meek => []
            equals.isEmpty || (prev.1.tag == "tie" && equals.all (fun e => prev.1.subj.contains e) && prev.1.subj.head? == some cid)
          | _ => false
        else true
      tieOk && loggedOk && go cur rest
  match snapsOf acts with
  | [] => false
  | first :: rest => go first rest

/-- Scottish rule 49(2)/51(2): a tie is resolved by the most recent stage (the `round` snapshots so far, newest first)
    at which exactly one of the tied candidates is lowest (exclusion) or highest (surplus) among them; only if there
    is none, by lot, i.e. the declared tie order -/
def okC07scot (ctx : Ctx) (c2 : Ctx2) (acts : List (Act α)) : Bool :=
  let uniqueExtreme (lowest : Bool) (tied : List Nat) (r : Snap α) : Option Nat :=
    let vs := tied.filterMap (fun c => (voteOfSnap r c).map (fun v => (c, v)))
    match vs with
    | [] => none
    | x :: xs =>
      let ext := xs.foldl (fun m y => if (if lowest then A.ltRaw y.2 m.2 else A.ltRaw m.2 y.2) then y else m) x
      match vs.filter (fun y => rawEq A y.2 ext.2) with
      | [y] => some y.1
      | _ => none
  let rec go (rounds : List (Snap α)) : List (Act α × Snap α) → Bool
    | [] => true
    | (a, s) :: rest =>
      let rounds' := if a.tag == "round" then s :: rounds else rounds
      let ok :=
        if ctx.rule == "scotland" && a.tag == "tie" then
          match a.subj with
          | chosen :: tied =>
            let lowest := hasSub a.verb "defeat"
            match rounds'.findSome? (uniqueExtreme lowest tied) with
            | some c => hasSub a.verb "prior stage" && chosen == c
            | none => hasSub a.verb "by lot" && tied.all (fun t => tieOf c2 chosen ≤ tieOf c2 t)
          | [] => false
        else true
      ok && go rounds' rest
  go [] (snapsOf acts)

/-! ## C08: keep factors -/

/-- at the snapshots C08 names: hopeful kf = 1, defeated kf = 0 (the candidate being defeated by this very action
    excepted), elected 0 < kf ≤ 1 -/
def okC08kf (ctx : Ctx) (acts : List (Act α)) : Bool :=
  let rec go (prev : Act α × Snap α) : List (Act α × Snap α) → Bool
    | [] => true
    | cur :: rest =>
      let a := cur.1
      let named :=
        if ctx.rule == "meek-prf" then
          (a.tag == "begin" || a.tag == "elect" || a.tag == "tie" || a.tag == "end"
           || (a.tag == "defeat" && !(isRemaining a))) && !(a.tag == "elect" && isRemaining a)
        else a.tag == "iterate" || a.tag == "end"
      let ok := !named || cur.2.cs.all (fun e =>
        if e.2.1 == "W" then true else
        match e.2.2.2.1 with
        | none => false
        | some kf =>
          if e.2.1 == "H" then rawEq A kf A.one
          else if e.2.1 == "D" then (A.isZero kf || codeOf prev.2 e.1 == "H")
          else A.ltRaw A.zero kf && rawLe A kf A.one)
      ok && go cur rest
  match snapsOf acts with
  | [] => false
  | first :: rest => go first (first :: rest)

/-- conservation part of C08 (also C02 for the Meek family) -/
def okC08cons (ctx : Ctx) (acts : List (Act α)) : Bool :=
  let n := A.ofInt ctx.nballots
  (snapsOf acts).all (fun (a, s) =>
    let named :=
      if ctx.rule == "meek-prf" then
        (a.tag == "begin" || a.tag == "elect" || a.tag == "tie" || a.tag == "end"
         || (a.tag == "defeat" && !(isRemaining a))) && !(a.tag == "elect" && isRemaining a)
      else
        -- meek.py distributes the votes before every action it logs (`meek_identity`: every snapshot); the first-preference
        -- tallies shown at `begin` and at the opening of round 1 do not yet account for the rounding of equal-rank splits
        -- (nor do the snapshots of a count that ends before its first round)
        a.tag == "end" || (decide (a.round ≥ 1) && !(a.tag == "round" && a.round == 1))
    let live := s.cs.filter (fun e => e.2.1 != "W")
    let tot := A.add (A.sum (live.map (·.2.2.1))) s.x1
    !named || (rawEq A tot n && !(A.ltRaw s.x1 A.zero) && live.all (fun e => !(A.ltRaw e.2.2.1 A.zero))))

/-- exclusions happen only after an iteration that ended for convergence (omega, stable state, or a safe batch),
    and an iteration said to end for `omega` has surplus ≤ omega (meek-prf: < omega at the pre-exclusion snapshot) -/
def okC08timing (ctx : Ctx) (omega : α) (acts : List (Act α)) : Bool :=
  let rec go (lastIter : Option (Act α)) : List (Act α × Snap α) → Bool
    | [] => true
    | (a, s) :: rest =>
      let lastIter' := if a.tag == "round" then none else if a.tag == "iterate" then some a else lastIter
      let ok :=
        if a.tag == "iterate" then
          (a.verb != "Iterate (omega)" || A.le s.x2 omega)
        else if a.tag == "defeat" && !(isRemaining a) then
          if ctx.rule == "meek-prf" then
            (!(hasSub a.verb "surplus < omega") || A.lt s.x2 omega)
            && (hasSub a.verb "surplus < omega" || hasSub a.verb "stable surplus")
          else
            match lastIter with
            | some it => it.round == a.round && it.verb != "Iterate (elected)"
            | none => false
        else true
      ok && go lastIter' rest
  go none (snapsOf acts)

end Droop
