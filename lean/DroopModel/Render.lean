import DroopModel.Core
import DroopModel.Str
/-!
# ElectionRecord.dump() (record.py) with the rule hooks of electionmethods.py / qpq.py
-/
namespace Droop
variable {α : Type}

/-- full message of a 'round' / 'log' / 'iterate' action as it appears in the dump -/
def actMsg (strV : α → String) (name : Nat → String) (a : Act α) : String :=
  match a.val, a.subj with
  | some v, _ => a.verb ++ " (" ++ strV v ++ ")"
  | none, [] => a.verb
  | none, cs => a.verb ++ ": " ++ ", ".intercalate (cs.map name)

def dumpHeader (m : Method) (ecids : List Nat) : List String :=
  ["R", "Action", "Quota"] ++
  (match m with
   | .wigm => ["Non-Transferable"]
   | .meek => ["Votes", "Surplus", "Residual"]
   | .qpq => []) ++
  ecids.flatMap (fun cid =>
    [s!"{cid}.name", s!"{cid}.state"] ++
    (match m with
     | .wigm => [s!"{cid}.vote"]
     | .meek => [s!"{cid}.vote", s!"{cid}.kf"]
     | .qpq => [s!"{cid}.quotient"]))

def dumpRow (strV : α → String) (name : Nat → String) (m : Method) (ecids : List Nat) (a : Act α) : List String :=
  match a.snap with
  | none => [toString a.round, a.tag, actMsg strV name a]
  | some sn =>
    if a.tag == "round" || a.tag == "iterate" then [toString a.round, a.tag, actMsg strV name a]
    else
      [if a.tag == "end" then "X" else toString a.round, a.tag, strV sn.quota] ++
      (match m with
       | .wigm => [strV sn.x1]
       | .meek => [strV sn.votes, strV sn.x2, strV sn.x1]
       | .qpq => []) ++
      ecids.flatMap (fun cid =>
        match sn.cs.find? (fun e => e.1 == cid) with
        | some (_, code, v, kf, q) =>
          [name cid, code] ++
          (match m with
           | .wigm => [strV v]
           | .meek => [strV v, (kf.map strV).getD "None"]
           | .qpq => [(q.map strV).getD "None"])
        | none => [])

def dump (strV : α → String) (name : Nat → String) (m : Method) (ecids : List Nat) (acts : List (Act α)) : String :=
  String.join ((dumpHeader m ecids :: acts.map (dumpRow strV name m ecids)).map (fun r => "\t".intercalate r ++ "\n"))

end Droop
