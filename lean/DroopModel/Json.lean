import DroopModel.Report
import DroopModel.Blt
/-!
# ElectionRecord.json(): the "actions" array (record.py `json()`, `json.dumps(self, cls=ValueEncoder, sort_keys=True, indent=2)`)

The header keys (title, options, arithmetic text, candidate dictionary, ...) are text the count does not compute; the harness cuts
the array out of the real JSON.  Everything inside the array is computed here from the model's record: per action the keys in
sorted order (`cstate`, `msg`, the method's totals, `quota`, `round`, `tag`, `votes`), per candidate `code`, `kf`, `pending`,
`quotient`, `state`, `vote` as `Candidate.as_dict(rw=True)` emits them (withdrawn: `code` and `state` only; `pending` once the
candidate has been elected — under QPQ it stays after the restart un-elects), every value through `str()`, messages escaped as
`json.dumps` does with `ensure_ascii`.
-/
namespace Droop
variable {α : Type}

def hex4 (n : Nat) : String :=
  let d := "0123456789abcdef".toList
  String.ofList [d[(n / 4096) % 16]!, d[(n / 256) % 16]!, d[(n / 16) % 16]!, d[n % 16]!]

/-- `json.dumps` of a str with `ensure_ascii=True` -/
def jsonStr (s : String) : String :=
  "\"" ++ String.join (s.toList.map (fun c =>
    if c == '"' then "\\\"" else if c == '\\' then "\\\\" else if c == '\n' then "\\n" else if c == '\r' then "\\r"
    else if c == '\t' then "\\t" else if c.toNat == 8 then "\\b" else if c.toNat == 12 then "\\f"
    else if c.toNat < 32 || c.toNat > 126 && c.toNat < 160 && false then "\\u" ++ hex4 c.toNat
    else if c.toNat < 32 then "\\u" ++ hex4 c.toNat
    else if c.toNat < 128 then String.singleton c
    else if c.toNat < 65536 then "\\u" ++ hex4 c.toNat
    else
      let v := c.toNat - 65536
      "\\u" ++ hex4 (55296 + v / 1024) ++ "\\u" ++ hex4 (56320 + v % 1024))) ++ "\""

def stateOfCode (code : String) : String :=
  if code == "H" then "hopeful" else if code == "D" then "defeated" else if code == "W" then "withdrawn" else "elected"

/-- when `Candidate.as_dict(rw=True)` puts a key into the dictionary -/
inductive DCond
  | always                                 -- unconditionally
  | notWithdrawn                           -- inside `if self.state != 'withdrawn':`
  | notWithdrawnAndSet (attr : String)     -- ... and inside `if self.<attr> is not None:`
deriving DecidableEq, Repr

/-- `as_dict(rw=True)`: key, the attribute (or `code()`) it shows, and when — in source order (harness/gen_asdict.py regenerates this
    table from candidate.py and the kernel checks it equal on every C18 run) -/
def asDictTable : List (String × String × DCond) :=
  [("state", "state", .always), ("code", "code()", .always), ("vote", "vote", .notWithdrawn),
   ("kf", "kf", .notWithdrawnAndSet "kf"), ("quotient", "quotient", .notWithdrawnAndSet "quotient"),
   ("pending", "pending", .notWithdrawnAndSet "pending")]

def DCond.holds (isW : Bool) (isSet : String → Bool) : DCond → Bool
  | .always => true
  | .notWithdrawn => !isW
  | .notWithdrawnAndSet a => !isW && isSet a

/-- one candidate's entry; `ever` = the candidate has been elected at some point up to this snapshot (`pending` is then no longer None).
    The keys are those of `asDictTable` whose condition holds, sorted (`sort_keys=True`). -/
def jsonCand (strV : α → String) (ind : String) (ever : Bool) (e : Nat × String × α × Option α × Option α) : String :=
  let kv (k v : String) := ind ++ "  " ++ jsonStr k ++ ": " ++ v
  let isSet (a : String) : Bool := if a == "kf" then e.2.2.2.1.isSome else if a == "quotient" then e.2.2.2.2.isSome else if a == "pending" then ever else false
  let value (attr : String) : String :=
    if attr == "state" then jsonStr (stateOfCode e.2.1)
    else if attr == "code()" then jsonStr e.2.1
    else if attr == "vote" then jsonStr (strV e.2.2.1)
    else if attr == "kf" then (match e.2.2.2.1 with | some k => jsonStr (strV k) | none => "null")
    else if attr == "quotient" then (match e.2.2.2.2 with | some q => jsonStr (strV q) | none => "null")
    else if attr == "pending" then (if e.2.1 == "e" then "true" else "false")
    else "null"
  let items := ((asDictTable.filter (fun r => r.2.2.holds (e.2.1 == "W") isSet)).mergeSort (fun a b => a.1 ≤ b.1)).map
    (fun r => kv r.1 (value r.2.1))
  ind ++ jsonStr (toString e.1) ++ ": {\n" ++ ",\n".intercalate items ++ "\n" ++ ind ++ "}"

/-- record.py `action()`: every action has these keys (key, what it shows) ... -/
def actionBaseKeys : List (String × String) := [("tag", "tag"), ("msg", "msg"), ("round", "E.round")]
/-- ... a non-log action also these ... -/
def actionSnapKeys : List (String × String) := [("cstate", "C.cState()"), ("votes", "sum"), ("quota", "E.quota")]
/-- ... and the keys the rule's method adds (electionmethods.py `MethodMeek.action`, `MethodWIGM.action`; QPQ adds none).
    harness/gen_actions.py regenerates the three tables from the source; the kernel checks them equal on every C18 run. -/
def actionHookKeys : Method → List (String × String)
  | .meek => [("residual", "E.residual"), ("surplus", "E.surplus")]
  | .wigm => [("nt_votes", "E.exhausted"), ("surplus", "E.surplus")]
  | .qpq => [("votes", "E.votes")]            -- qpq.py overwrites the total with its own `E.votes`

def jsonAction (strV : α → String) (m : Method) (ever : List Nat) (msg : String) (a : Act α) : String :=
  let ind := "    "
  let kv (k v : String) := ind ++ "  " ++ jsonStr k ++ ": " ++ v
  let keys : List (String × String) := (match a.snap with
    | some _ => (actionHookKeys m).foldl (fun (d : List (String × String)) (e : String × String) => dictSet d e.1 e.2) (actionBaseKeys ++ actionSnapKeys)
    | none => actionBaseKeys).mergeSort (fun x y => x.1 ≤ y.1)
  let value (src : String) : String :=
    if src == "tag" then jsonStr a.tag
    else if src == "msg" then jsonStr msg
    else if src == "E.round" then toString a.round
    else match a.snap with
      | none => "null"
      | some sn =>
        if src == "C.cState()" then
          "{\n" ++ ",\n".intercalate ((sn.cs.mergeSort (fun x y => x.1 ≤ y.1)).map
            (fun e => jsonCand strV (ind ++ "    ") (ever.contains e.1) e)) ++ "\n" ++ ind ++ "  }"
        else if src == "sum" || src == "E.votes" then jsonStr (strV sn.votes)
        else if src == "E.quota" then jsonStr (strV sn.quota)
        else if src == "E.residual" || src == "E.exhausted" then jsonStr (strV sn.x1)
        else if src == "E.surplus" then jsonStr (strV sn.x2)
        else "null"
  ind ++ "{\n" ++ ",\n".intercalate (keys.map (fun k => kv k.1 (value k.2))) ++ "\n" ++ ind ++ "}"

/-- ids shown elected ("e" or "E") in the snapshot of an action -/
def electedIn (a : Act α) : List Nat :=
  match a.snap with
  | some sn => (sn.cs.filter (fun e => e.2.1 == "e" || e.2.1 == "E")).map (·.1)
  | none => []

/-- the array elements, oldest action first; `ever` accumulates who has been elected so far (the current action included) -/
def jsonActionsGo (strV : α → String) (m : Method) : List Nat → List String → List (Act α) → List String
  | _, [], _ => []
  | _, _, [] => []
  | ever, msg :: ms, a :: as =>
    let ever' := ever ++ electedIn a
    jsonAction strV m ever' msg a :: jsonActionsGo strV m ever' ms as

def jsonActions (strV : α → String) (m : Method) (msgs : List String) (acts : List (Act α)) : String :=
  if msgs.length != acts.length then "LEN-MISMATCH " ++ toString msgs.length ++ " " ++ toString acts.length
  else ",\n".intercalate (jsonActionsGo strV m [] msgs acts)

end Droop
