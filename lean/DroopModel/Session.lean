import DroopModel.Options
import DroopModel.Str
/-!
# The process-level state of the value classes (values/fixed.py, guarded.py, rational.py)

The three arithmetic classes keep their configuration in *class attributes*, which survive from one election to the
next inside a process. `initialize` is modelled as a state transformer that performs the same assignments in the same
order as the Python code — including the ones that happen before an exception is raised and the ones that are
conditional — so that "a count does not depend on what was counted before" (C20) is a statement, not a tautology.
`none` = attribute not (yet) assigned.
-/
namespace Droop

structure FixedSt where
  name : Option String := none
  precision : Option Int := none
  display : Option Int := none
  scale : Option Int := none
  scaled : Option Int := none
  scaledd : Option Int := none
  scaledr : Option Int := none
  epsilon : Option Int := none
  dfmt : Option Int := none          -- width of the fraction field of "%d.%0Nd"
  info : Option String := none
deriving Repr, BEq, DecidableEq

structure GuardedSt where
  precision : Option Int := none
  guard : Option Int := none
  display : Option Int := none
  scalep : Option Int := none
  scaleg : Option Int := none
  scale : Option Int := none
  scaledd : Option Int := none
  scaledr : Option Int := none
  scaled : Option Int := none
  scaledg : Option Int := none       -- assigned only when display > precision
  geps : Option Int := none
  maxDiff : Option Int := none
  minDiff : Option Int := none
  dfmtP : Option Int := none         -- "%d.%0Pd" or "%d.%0Pd_%0Gd": P
  dfmtG : Option Int := none         --                                 G (none: no guard field)
  info : Option String := none
  quasiExact : Bool := true
  exact : Bool := true
  epsilon : Option Int := none       -- assigned only when guard == 0
deriving Repr, BEq, DecidableEq

structure RationalSt where
  dp : Option Int := none
  dps : Option Int := none
  dfmt : Option Int := none
deriving Repr, BEq, DecidableEq

structure ClassState where
  fixed : FixedSt := {}
  guarded : GuardedSt := {}
  rational : RationalSt := {}
deriving Repr, BEq, DecidableEq

def ipow10 (n : Int) : Int := pow10 n.toNat

/-! ## attribute writes

`initialize` is modelled as the *list of class-attribute assignments* it performs, in program order, together with
its outcome; the state transformer applies that list. The list depends on the options only. -/

inductive FW
  | name (v : String) | precision (v : Int) | display (v : Int) | scale (v : Int) | scaled (v : Int) | scaledd (v : Int)
  | scaledr (v : Int) | epsilon (v : Int) | dfmt (v : Int) | info (v : String)
deriving Repr

def FixedSt.write (st : FixedSt) : FW → FixedSt
  | .name v => { st with name := some v }
  | .precision v => { st with precision := some v }
  | .display v => { st with display := some v }
  | .scale v => { st with scale := some v }
  | .scaled v => { st with scaled := some v }
  | .scaledd v => { st with scaledd := some v }
  | .scaledr v => { st with scaledr := some v }
  | .epsilon v => { st with epsilon := some v }
  | .dfmt v => { st with dfmt := some v }
  | .info v => { st with info := some v }

/-! ## Fixed.initialize -/
def fixedInfo (p d : Int) : String :=
  if p == 0 then "integer arithmetic"
  else if d != p then s!"fixed-point decimal arithmetic ({p} places, {d} displayed)"
  else s!"fixed-point decimal arithmetic ({p} places)"

def fixedTrace (o : Options) : List FW × Except OErr (Options × ArithCfg) :=
  let arithmetic := o.getopt "arithmetic"
  if !(arithmetic.pyEq (.s "fixed") || arithmetic.pyEq (.s "integer")) then ([], .error .usage) else
  match (if arithmetic.pyEq (.s "integer") then o.setopt "precision" (.i 0) (force := true)
         else (.ok (o, o.getopt "precision") : Except OErr (Options × OV))) with
  | .error e => ([], .error e)
  | .ok (o1, precision) =>
    let w1 := FW.name (if precision.pyEq (.i 0) then "integer" else "fixed")
    match pyInt precision with
    | .typeError => ([w1], .error (.crash "TypeError"))
    | .valueError => ([w1], .error .usage)
    | .ok p =>
      if p < 0 || toString p != precision.pyStr then ([w1, .precision p], .error .usage) else
      match (if (o1.getopt "display") matches .none then (o1.setopt "display" (.i p)).map (·.1)
             else (.ok o1 : Except OErr Options)) with
      | .error e => ([w1, .precision p], .error e)
      | .ok o2 =>
        match pyInt (o2.getopt "display") with
        | .typeError => ([w1, .precision p], .error (.crash "TypeError"))
        | .valueError => ([w1, .precision p], .error .usage)
        | .ok d0 =>
          ([w1, .precision p, .scale (ipow10 p), .display (if d0 < 0 || d0 > p then p else d0),
            .scaled (ipow10 (if d0 < 0 || d0 > p then p else d0)), .scaledd (ipow10 (p - (if d0 < 0 || d0 > p then p else d0))),
            .scaledr (ipow10 (p - (if d0 < 0 || d0 > p then p else d0)) / 2), .epsilon 1,
            .dfmt (if d0 < 0 || d0 > p then p else d0), .info (fixedInfo p (if d0 < 0 || d0 > p then p else d0))],
           .ok (o2, .fixed p.toNat (if d0 < 0 || d0 > p then p else d0).toNat))

def fixedInitS (o : Options) (st : FixedSt) : FixedSt × Except OErr (Options × ArithCfg) :=
  ((fixedTrace o).1.foldl FixedSt.write st, (fixedTrace o).2)

/-! ## Guarded.initialize -/
inductive GW
  | precision (v : Int) | guard (v : Int) | display (v : Int) | scalep (v : Int) | scaleg (v : Int) | scale (v : Int)
  | scaledd (v : Int) | scaledr (v : Int) | scaled (v : Int) | scaledg (v : Int) | geps (v : Int) | maxDiff (v : Int)
  | minDiff (v : Int) | dfmt (p : Int) (g : Option Int) | info (v : String) | quasiExact (v : Bool) | exact (v : Bool) | epsilon (v : Int)
deriving Repr

def GuardedSt.write (st : GuardedSt) : GW → GuardedSt
  | .precision v => { st with precision := some v }
  | .guard v => { st with guard := some v }
  | .display v => { st with display := some v }
  | .scalep v => { st with scalep := some v }
  | .scaleg v => { st with scaleg := some v }
  | .scale v => { st with scale := some v }
  | .scaledd v => { st with scaledd := some v }
  | .scaledr v => { st with scaledr := some v }
  | .scaled v => { st with scaled := some v }
  | .scaledg v => { st with scaledg := some v }
  | .geps v => { st with geps := some v }
  | .maxDiff v => { st with maxDiff := some v }
  | .minDiff v => { st with minDiff := some v }
  | .dfmt p g => { st with dfmtP := some p, dfmtG := g }
  | .info v => { st with info := some v }
  | .quasiExact v => { st with quasiExact := v }
  | .exact v => { st with exact := v }
  | .epsilon v => { st with epsilon := some v }

def guardedInfo (p g d : Int) : String :=
  if d != p then s!"guarded-precision fixed-point decimal arithmetic ({p}+{g} places; {d} displayed)"
  else s!"guarded-precision fixed-point decimal arithmetic ({p}+{g} places)"

/-- `int(x)`; assignment to the class attribute happens when int() succeeds, the range/format test afterwards -/
def strictStep (v : OV) : Option Int × Except OErr Nat :=
  match pyInt v with
  | .typeError => (none, .error (.crash "TypeError"))
  | .valueError => (none, .error .usage)
  | .ok n => (some n, if n < 0 || toString n != v.pyStr then .error .usage else .ok n.toNat)

def optW (f : Int → GW) : Option Int → List GW
  | some n => [f n]
  | none => []

/-- the assignments after the three option values have been read: everything below `cls.__scalep = ...` -/
def guardedTail (p g d0 : Nat) : List GW :=
  let d : Nat := if d0 > p + g then p + g else d0
  [.scalep (pow10 p), .scaleg (pow10 g), .scale (pow10 (p + g)), .display d, .scaledd (pow10 (g + p - d)),
   .scaledr (pow10 (g + p - d) / 2), .scaled (pow10 d)]
  ++ (if d > p then [.scaledg (pow10 (d - p))] else [])
  ++ [.geps (geps g), .maxDiff 0, .minDiff (pow10 (p + g) * 100),
      .dfmt (if d ≤ p then d else p) (if d ≤ p then none else some ((d : Int) - p)), .info (guardedInfo p g d)]
  ++ (if g == 0 then [.quasiExact false, .exact false, .epsilon 1] else [.quasiExact true, .exact true])

def guardedTrace (o : Options) : List GW × Except OErr (Options × ArithCfg) :=
  if !((o.getopt "arithmetic").pyEq (.s "guarded")) then ([], .error .usage) else
  let sp := strictStep (o.getopt "precision")
  match sp.2 with
  | .error e => (optW .precision sp.1, .error e)
  | .ok p =>
    match (if (o.getopt "guard") matches .none then (o.setopt "guard" (.i p)).map (·.1) else (.ok o : Except OErr Options)) with
    | .error e => (optW .precision sp.1, .error e)
    | .ok o1 =>
      let sg := strictStep (o1.getopt "guard")
      match sg.2 with
      | .error e => (optW .precision sp.1 ++ optW .guard sg.1, .error e)
      | .ok g =>
        match (if (o1.getopt "display") matches .none then (o1.setopt "display" (.i p)).map (·.1) else (.ok o1 : Except OErr Options)) with
        | .error e => (optW .precision sp.1 ++ optW .guard sg.1, .error e)
        | .ok o2 =>
          let sd := strictStep (o2.getopt "display")
          match sd.2 with
          | .error e => (optW .precision sp.1 ++ optW .guard sg.1 ++ optW .display sd.1, .error e)
          | .ok d0 =>
            ([.precision p, .guard g, .display d0] ++ guardedTail p g d0,
             .ok (o2, .guarded p g (if d0 > p + g then p + g else d0)))

def guardedInitS (o : Options) (st : GuardedSt) : GuardedSt × Except OErr (Options × ArithCfg) :=
  ((guardedTrace o).1.foldl GuardedSt.write st, (guardedTrace o).2)

/-! ## Rational.initialize -/
inductive RW | dp (v : Option Int) | dps (v : Option Int) | dfmt (v : Int)
deriving Repr

def RationalSt.write (st : RationalSt) : RW → RationalSt
  | .dp v => { st with dp := v }
  | .dps v => { st with dps := v }
  | .dfmt v => { st with dfmt := some v }

def rationalTrace (o : Options) : List RW × Except OErr (Options × ArithCfg) :=
  match (if (o.getopt "display") matches .none then (o.setopt "display" (.i 12)).map (·.1) else (.ok o : Except OErr Options)) with
  | .error e => ([], .error e)
  | .ok o1 =>
    match o1.getopt "display" with
    | .i n =>
      -- cls.dp = display ; cls._dps = 10 ** dp (a negative dp gives a float, then Fraction(1, float) raises TypeError)
      if n < 0 then ([.dp (some n), .dps none], .error (.crash "TypeError"))
      else ([.dp (some n), .dps (some (ipow10 n)), .dfmt n], .ok (o1, .rational n.toNat))
    | _ => ([.dp none], .error (.crash "TypeError"))     -- cls.dp holds the non-int value; 10 ** dp raises

def rationalInitS (o : Options) (st : RationalSt) : RationalSt × Except OErr (Options × ArithCfg) :=
  ((rationalTrace o).1.foldl RationalSt.write st, (rationalTrace o).2)

/-- values.ArithmeticClass(options) on the process state -/
def arithmeticClassS (o : Options) (cs : ClassState) : ClassState × Except OErr (Options × ArithCfg) :=
  match o.setopt "arithmetic" (.s "guarded") with
  | .error e => (cs, .error e)
  | .ok (o1, arithmetic) =>
    if arithmetic.pyEq (.s "rational") then
      ({ cs with rational := (rationalInitS o1 cs.rational).1 }, (rationalInitS o1 cs.rational).2)
    else if arithmetic.pyEq (.s "fixed") || arithmetic.pyEq (.s "integer") then
      ({ cs with fixed := (fixedInitS o1 cs.fixed).1 }, (fixedInitS o1 cs.fixed).2)
    else if arithmetic.pyEq (.s "guarded") then
      ({ cs with guarded := (guardedInitS o1 cs.guarded).1 }, (guardedInitS o1 cs.guarded).2)
    else (cs, .error .arithValues)

/-- Election.__init__ up to the arithmetic class, on the process state -/
def electionSetupS (cmd : Dict) (fileOpts : List String) (cs : ClassState) :
    ClassState × Except OErr (Options × RuleParams × ArithCfg) :=
  let o0 : Options := { cmd := cmd.map (fun e => (e.1, e.2.normalize)) }
  match Options.parse fileOpts with
  | .error e => (cs, .error e)
  | .ok fd =>
    let o1 : Options := { o0 with file := fd.map (fun e => (e.1, e.2.normalize)) }
    match o1.getopt "rule" with
    | .s rule =>
      if !(Options.ruleNames.contains rule) then (cs, .error .election) else
      match ruleOptions rule o1 with
      | .error e => (cs, .error e)
      | .ok (o2, rp) =>
        match arithmeticClassS o2 cs with
        | (cs', .ok (o3, cfg)) => (cs', .ok (o3, rp, cfg))
        | (cs', .error e) => (cs', .error e)
    | _ => (cs, .error .election)

/-- a history: elections constructed one after the other in one process -/
def runSession (cs : ClassState) : List (Dict × List String) → ClassState
  | [] => cs
  | (cmd, file) :: rest => runSession (electionSetupS cmd file cs).1 rest

/-! ## what the operations read -/

/-- Fixed.__str__ reading the class attributes; `none` = an attribute it needs was never assigned -/
def strFixedS (st : FixedSt) (v : Int) : Option String := do
  let p ← st.precision
  if p == 0 then pure (toString v) else
  let d ← st.display
  let scaled ← st.scaled
  let w ← st.dfmt
  let v1 ← if d < p then do
      let r ← st.scaledr
      let dd ← st.scaledd
      pure (pdiv (v + r) dd)
    else pure v
  pure (signStr v1 ++ fmt2 w.toNat (pdiv v1.natAbs scaled) (pmod v1.natAbs scaled))

/-- Guarded.__str__ reading the class attributes -/
def strGuardedS (st : GuardedSt) (v : Int) : Option String := do
  let p ← st.precision
  let d ← st.display
  let r ← st.scaledr
  let dd ← st.scaledd
  let sc ← st.scaled
  let wP ← st.dfmtP
  let gv0 := pdiv (v + r) dd
  let gv : Int := gv0.natAbs
  if d ≤ p then pure (signStr gv0 ++ fmt2 wP.toNat (pdiv gv sc) (pmod gv sc))
  else do
    let sg ← st.scaledg
    let wG ← st.dfmtG
    let gvp := pmod gv sc
    pure (signStr gv0 ++ toString (pdiv gv sc) ++ "." ++ zpad wP.toNat (pdiv gvp sg).toNat ++ "_" ++ zpad wG.toNat (pmod gvp sg).toNat)

end Droop
