import DroopProofs
/-! Property theorems, one file per property (Props/Cxx.lean); helper lemmas live in DroopProofs. -/
