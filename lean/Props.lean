import DroopProofs
import Props.C03
import Props.C04
import Props.C10
import Props.C14
import Props.C15
import Props.C20
