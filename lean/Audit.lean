import DroopProofs
open Droop
#print axioms pdiv_eq_floor
#print axioms fixed_mulV_floor
#print axioms fixed_divV_floor
#print axioms divmodRound_up
#print axioms fixed_cmp
#print axioms guarded_cmp_eq_iff
#print axioms guarded_g0_eq_fixed
#print axioms transferAll_ballots
#print axioms transferAll_voteOf
#print axioms transferAll_tally
#print axioms surplus_moved_le
#print axioms Inv.transferSurplus
#print axioms Inv.transferDefeated1
#print axioms wigmCount_inv
#print axioms wigmCount_appendOnly
#print axioms pySorted_perm
#print axioms Droop.wigm_conservation
#print axioms Droop.wigmCount_terminates
#print axioms Droop.wigm_loop_elected_le_seats
#print axioms Droop.wigm_seats_filled
#print axioms Droop.scot_conservation
#print axioms Droop.distributeVotes_sum
#print axioms Droop.wigm_loop_record_monotone
