import DroopProofs.InvInit
import DroopModel.Oracles

/-! # Last mile: the Boolean predicate the driver evaluates is implied by the invariant (C02 upper half, non-negativity) -/
namespace Droop
variable {α : Type} [CommRing α] [LinearOrder α] [IsStrictOrderedRing α] (A : Arith α)

/-- what the Boolean check needs from the arithmetic beyond `LawfulArith` -/
structure LawfulRaw (A : Arith α) : Prop where
  ltRaw_iff : ∀ a b, A.ltRaw a b = true ↔ a < b

theorem arith_sum_eq (hA : LawfulArith A) (l : List α) : A.sum l = l.sum := by
  unfold Arith.sum
  have : ∀ (acc : α), l.foldl A.add acc = acc + l.sum := by
    induction l with
    | nil => intro acc; simp
    | cons x xs ih => intro acc; simp only [List.foldl_cons, List.sum_cons, ih, hA.add_eq]; ring
  rw [this, hA.zero_eq, zero_add]

theorem snapUpperB_of_snapOK (hA : LawfulArith A) (hR : LawfulRaw A) (nb : Nat) (sn : Snap α)
    (h : SnapOK A nb sn) : snapUpperB A nb sn = true := by
  obtain ⟨h1, h2, h3⟩ := h
  unfold snapUpperB
  simp only [Bool.and_eq_true, Bool.not_eq_true', List.all_eq_true]
  refine ⟨⟨?_, ?_⟩, ?_⟩
  · rw [Bool.eq_false_iff]; intro hlt
    rw [hR.ltRaw_iff, arith_sum_eq A hA, hA.add_eq, hA.ofInt_eq] at hlt
    have : ((nb : Int) : α) = ((nb : Nat) : Int) := rfl
    linarith
  · intro e he
    rw [Bool.eq_false_iff]; intro hlt
    rw [hR.ltRaw_iff, hA.zero_eq] at hlt
    have := h2 e (List.mem_of_mem_filter he)
    linarith
  · rw [Bool.eq_false_iff]; intro hlt
    rw [hR.ltRaw_iff, hA.zero_eq] at hlt
    linarith

theorem recUpperB_of_recOK (hA : LawfulArith A) (hR : LawfulRaw A) (s : St α) (h : RecOK A s) :
    recUpperB A s.nballots s.acts = true := by
  unfold recUpperB
  rw [List.all_eq_true]
  intro a ha
  cases hs : a.snap with
  | none => rfl
  | some sn => exact snapUpperB_of_snapOK A hA hR _ sn (h a ha sn hs)

/-- **C02 (upper half + non-negativity) as the harness checks it**: for wigm / wigm-prf without batch
    exclusions the Boolean predicate evaluates to `true` on the complete record of every count. -/
theorem wigm_C02_upper_check (hA : LawfulArith A) (hR : LawfulRaw A) (o : WigmOpts) (ho : o.plain)
    (hex : o.prf = true → A.exact = false) (s0 t : St α) (h0 : Init A s0) (hq : 0 < wigmQuota A o s0)
    (h : wigmCount A o s0 = some t) :
    recUpperB A (t.logAct A "end" "Count Complete" []).nballots (t.logAct A "end" "Count Complete" []).acts = true :=
  recUpperB_of_recOK A hA hR _ (wigm_conservation A hA o ho hex s0 t h0 hq h).recOK

theorem fixed_lawfulRaw (p : Nat) : LawfulRaw (fixedArith p) := ⟨fun a b => by simp [fixedArith]⟩

end Droop
