import DroopProofs.InvSteps

/-! # Transfer of one defeated candidate preserves the bundle; Σ votes + exhausted is unchanged -/
namespace Droop
variable {α : Type} [CommRing α] [LinearOrder α] [IsStrictOrderedRing α] (A : Arith α)

/-- `x` has just been defeated: its ballots move on at unchanged value and its vote is set to zero. -/
theorem Inv.transferDefeated1 (hA : LawfulArith A) {s : St α} (h : Inv A s) (x : Cand α) (verb : String)
    (hx : x ∈ s.cands) (hns : ¬ x.inScope) (hnh : x.st ≠ .hopeful) (hI : x.vote = s.tally A x.cid) :
    Inv A (Droop.transferDefeated A s [x.cid] verb) := by
  unfold Droop.transferDefeated
  simp only [List.foldl_cons, List.foldl_nil]
  apply Inv.logAct
  have hr : ∀ b ∈ s.ballots, 0 ≤ id b.w := fun b hb => h.wpos b hb
  have hscope : ∀ c ∈ s.cands, c.inScope → c.cid ∉ [x.cid] := by
    intro c hc hs hmem
    have : c.cid = x.cid := by simpa using hmem
    have : c = x := nodup_cid_eq h.wf hc hx this
    rw [this] at hs; exact hns hs
  have hnc := h.transferAll_noCons A hA [x.cid] id hscope hr
  have hskel := transferAll_skel A s [x.cid] id
  have hx'ex : ∃ x' ∈ (transferAll A s [x.cid] id).cands, x'.skel = x.skel := by
    have : x.skel ∈ s.skel := List.mem_map.2 ⟨x, hx, rfl⟩
    rw [← hskel] at this
    obtain ⟨x', hx', hsk⟩ := List.mem_map.1 this
    exact ⟨x', hx', hsk⟩
  obtain ⟨x', hx'm, hx'sk⟩ := hx'ex
  have hx'cid : x'.cid = x.cid := skel_cid hx'sk
  have hx'vote : x'.vote = x.vote := by
    have h1 := voteOf_of_mem hnc.wf hx'm
    have h2 := voteOf_of_mem h.wf hx
    have h3 := transferAll_voteOf A (lawfulAdd_of hA) s h.bwf [x.cid] id x.cid
    have hz : (s.ballots.map (contrib A s [x.cid] id x.cid)).sum = 0 := by
      have : s.ballots.map (contrib A s [x.cid] id x.cid) = s.ballots.map (fun _ => (0 : α)) := by
        apply List.map_congr_left
        intro b _
        exact contrib_eq_zero_of_not_hopeful A s [x.cid] id x.cid b (isHopeful_false_of s h.wf x hx hnh)
      rw [this]; simp
    rw [hz, add_zero, h2] at h3
    rw [← h1, hx'cid]; exact h3
  have hns' : ∀ c ∈ (transferAll A s [x.cid] id).cands, c.cid = x.cid → ¬ c.inScope := by
    intro c hc hcid
    have : c = x' := nodup_cid_eq hnc.wf hc hx'm (hcid.trans hx'cid.symm)
    rw [this]
    have hst := skel_st hx'sk
    unfold Cand.inScope; rw [hst.1, hst.2]; exact hns
  have hfinal := hnc.setVote A x.cid A.zero (by rw [hA.zero_eq]) hns'
  have htot := transferAll_total A hA s h.wf h.bwf [x.cid] id
  have hmoved : (s.ballots.map (movedVal A s [x.cid] id)).sum = x.vote := by
    have : s.ballots.map (movedVal A s [x.cid] id)
        = s.ballots.map (fun b => if b.top = some x.cid then b.w * ((b.mult : Int) : α) else 0) := by
      apply List.map_congr_left
      intro b _
      have := movedVal_surplus A hA s x.cid id b
      simpa using this
    rw [this, ← tally_explicit A hA]; exact hI.symm
  have hsv := sumVotes_setVote (transferAll A s [x.cid] id) x.cid A.zero x' hnc.wf hx'm hx'cid
  exact
    { meth := hfinal.meth, recOK := hfinal.recOK,
      wf := hfinal.wf, bwf := hfinal.bwf, wpos := hfinal.wpos, vpos := hfinal.vpos, epos := hfinal.epos,
      qpos := hfinal.qpos, i1 := hfinal.i1, pq := hfinal.pq
      cons := by
        have hnb : ((transferAll A s [x.cid] id).setVote x.cid A.zero).nballots = s.nballots :=
          transferAll_nballots A s _ _
        rw [hnb]
        have hex : ((transferAll A s [x.cid] id).setVote x.cid A.zero).exhausted
            = (transferAll A s [x.cid] id).exhausted := rfl
        unfold St.total at htot ⊢
        rw [hex, hsv, hx'vote, hA.zero_eq]
        have hc := h.cons
        unfold St.total at hc
        linarith }

end Droop
