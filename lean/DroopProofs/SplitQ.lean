import DroopProofs.SplitB
import DroopProofs.PermBQpq

/-! # C10 for QPQ: splitting a ballot line `(m, r)` into `(m₁, r)` and `(m − m₁, r)` (and merging, read backwards)

QPQ treats the ballot list through per-ballot maps that do not look at the multiplier (`MultEq`: advance, reset, set the
contribution), through the tally fold, which adds multipliers and contribution × multiplier, and through the initial sum of the
multipliers of the non-exhausted ballots.  Both halves of a split line move together, and the additions are exact: `XQ_split`. -/
namespace Droop
variable {α : Type} [CommRing α] [LinearOrder α] [IsStrictOrderedRing α] (A : Arith α)

theorem multEq_mult {f : Ballot α → Ballot α} (hf : MultEq f) (b : Ballot α) : (f b).mult = b.mult := by
  have h := congrArg Ballot.mult (hf b b.mult)
  exact h

theorem upd_upd_same (s : St α) (cid : Nat) (f g : Cand α → Cand α) (hf : ∀ c, (f c).cid = c.cid) :
    (s.upd cid f).upd cid g = s.upd cid (g ∘ f) := by
  unfold St.upd
  simp only [List.map_map]
  congr 1
  apply List.map_congr_left
  intro c _
  simp only [Function.comp]
  by_cases h : (c.cid == cid) = true
  · have h' : ((f c).cid == cid) = true := by rw [hf]; exact h
    simp only [h, if_true, h']
  · simp only [h, Bool.false_eq_true, if_false]

theorem cast_split (b : Ballot α) (m1 : Nat) :
    (((min m1 b.mult : Nat) : Int) : α) + (((b.mult - min m1 b.mult : Nat) : Int) : α) = ((b.mult : Int) : α) := by
  have hle : min m1 b.mult ≤ b.mult := Nat.min_le_right _ _
  have h1 : ((min m1 b.mult : Nat) : Int) + ((b.mult - min m1 b.mult : Nat) : Int) = (b.mult : Int) := by omega
  rw [← Int.cast_add, h1]

/-- the two halves of a split line tally as the whole -/
theorem qTally_split (hA : LawfulArith A) (acc : QSt α) (b : Ballot α) (m1 : Nat) :
    (splitOne m1 b).foldl (qTally A) acc = qTally A acc b := by
  unfold splitOne
  simp only [List.foldl_cons, List.foldl_nil]
  unfold qTally
  have ht1 : ({ b with mult := min m1 b.mult } : Ballot α).top = b.top := rfl
  have ht2 : ({ b with mult := b.mult - min m1 b.mult } : Ballot α).top = b.top := rfl
  rw [ht1, ht2]
  have hc := cast_split b m1
  cases hb : b.top with
  | none =>
    simp only [hA.add_eq, hA.mulV_ofInt]
    congr 1
    rw [← hc]; ring
  | some c =>
    simp only
    rw [upd_upd_same acc.s c
      (fun x => { x with tc := A.add x.tc (A.mulV b.w (A.ofInt (min m1 b.mult : Nat))), vote := A.add x.vote (A.ofInt (min m1 b.mult : Nat)) })
      (fun x => { x with tc := A.add x.tc (A.mulV b.w (A.ofInt (b.mult - min m1 b.mult : Nat))), vote := A.add x.vote (A.ofInt (b.mult - min m1 b.mult : Nat)) })
      (fun _ => rfl)]
    congr 1
    · congr 1
      funext x
      simp only [Function.comp, hA.mulV_ofInt]
      simp only [hA.add_eq, hA.ofInt_eq]
      congr 1
      · rw [← hc]; ring
      · rw [← hc]; ring
    · simp only [hA.add_eq, hA.ofInt_eq]
      rw [← hc]; ring

/-- splitting one ballot line is a transformation the QPQ count commutes with -/
theorem XQ_split (hA : LawfulArith A) (i m1 : Nat) : XQ A (splitBallots (α := α) i m1) (splitViews i) := by
  refine { toXF := XF_split A hA i m1, mapB := ?_, tally := ?_, vaSum := ?_ }
  · intro f hf l
    unfold splitBallots splitOne
    rw [← List.map_take, ← List.map_drop, List.map_append]
    congr 1
    cases l.drop i with
    | nil => rfl
    | cons b r =>
      simp only [List.map_cons, List.cons_append, List.nil_append, List.map_nil]
      rw [multEq_mult hf b, hf b (min m1 b.mult), hf b (b.mult - min m1 b.mult)]
  · intro acc l
    unfold splitBallots
    conv_rhs => rw [← List.take_append_drop i l]
    rw [List.foldl_append, List.foldl_append]
    cases l.drop i with
    | nil => rfl
    | cons b r =>
      simp only [List.foldl_append, List.foldl_cons]
      rw [qTally_split A hA]
  · intro l
    unfold splitBallots
    conv_rhs => rw [← List.take_append_drop i l]
    rw [List.filter_append, List.filter_append, List.map_append, List.map_append, arith_sum_eq A hA, arith_sum_eq A hA,
      List.sum_append, List.sum_append]
    congr 1
    cases l.drop i with
    | nil => rfl
    | cons b r =>
      unfold splitOne
      have he1 : ({ b with mult := min m1 b.mult } : Ballot α).exhaustedB = b.exhaustedB := rfl
      have he2 : ({ b with mult := b.mult - min m1 b.mult } : Ballot α).exhaustedB = b.exhaustedB := rfl
      simp only [List.cons_append, List.nil_append, List.filter_cons, he1, he2]
      have hc := cast_split b m1
      by_cases hb : (!b.exhaustedB) = true
      · simp only [hb, if_true, List.map_cons, List.sum_cons, hA.ofInt_eq]
        rw [← hc]; ring
      · simp only [hb, Bool.false_eq_true, if_false]

end Droop
