import DroopProofs.Coalition
import DroopProofs.LowerRun

/-! # C05: the coalition invariant through the steps of the Gregory drivers

`CInv`: positions and resting places are sound, the coalition ballots have lost at most one quota (plus `u` per ballot) per
member whose surplus has been transferred — as long as a member is still hopeful — and at least `kk` members are hopeful or
elected.  Elections, surplus transfers and *single* exclusions (of a lowest candidate, in a round with no surplus pending
and nobody hopeful above the quota) preserve it. -/
namespace Droop
variable {α : Type} [CommRing α] [LinearOrder α] [IsStrictOrderedRing α] (A : Arith α)

structure CInv (S : List Nat) (m : Nat) (kk k : Nat) (u nV : α) (N : Nat) (s : St α) : Prop where
  pos : Pos s
  rest : RestX s []
  vm : Vmult S m s = nV
  len : s.cands.length = N
  d2 : 1 ≤ hopS S s → nV * A.one ≤ Vval A S m s + (doneS S s : α) * (s.quota + u * nV)
  alive : kk ≤ hopS S s + elS S s
  big : (k : α) * s.quota + (N : α) * (u * nV) < nV * A.one

variable {S : List Nat} {m : Nat} {kk k : Nat} {u nV : α} {N : Nat}

theorem CInv.of_same {s t : St α} (h : CInv A S m kk k u nV N s) (hc : t.cands = s.cands) (hb : t.ballots = s.ballots)
    (hq : t.quota = s.quota) : CInv A S m kk k u nV N t := by
  have hV : Vval A S m t = Vval A S m s := by unfold Vval; rw [hb]
  have hM : Vmult S m t = Vmult S m s := by unfold Vmult; rw [hb]
  have h1 : hopS S t = hopS S s := by unfold hopS; rw [hc]
  have h2 : elS S t = elS S s := by unfold elS; rw [hc]
  have h3 : doneS S t = doneS S s := by unfold doneS; rw [hc]
  have hsk : t.skel = s.skel := by unfold St.skel; rw [hc]
  exact ⟨h.pos.of_skel hb hsk, h.rest.of_skel hb hsk, by rw [hM]; exact h.vm, by rw [hc]; exact h.len,
    by rw [h1, hV, h3, hq]; exact h.d2, by rw [h1, h2]; exact h.alive, by rw [hq]; exact h.big⟩

theorem CInv.logAct {s : St α} (h : CInv A S m kk k u nV N s) (tag verb : String) (subj : List Nat) :
    CInv A S m kk k u nV N (s.logAct A tag verb subj) :=
  h.of_same A (logAct_cands A s tag verb subj) (logAct_ballots A s tag verb subj) (logAct_quota A s tag verb subj)

theorem CInv.newRound {s : St α} (h : CInv A S m kk k u nV N s) : CInv A S m kk k u nV N (s.newRound A) := by
  unfold St.newRound
  exact (h.of_same A (t := { s with round := s.round + 1 }) rfl rfl rfl).logAct A _ _ _

theorem CInv.setSurplus {s : St α} (h : CInv A S m kk k u nV N s) (v : α) : CInv A S m kk k u nV N (s.setSurplus v) :=
  h.of_same A rfl rfl rfl

theorem CInv.breakTie {s : St α} (h : CInv A S m kk k u nV N s) (tied : List (Cand α)) (verb : String) :
    CInv A S m kk k u nV N (Droop.breakTie A s tied verb).1 := by
  obtain ⟨e1, e2, _, e4, _⟩ := breakTie_frame A s tied verb
  exact h.of_same A e1 e2 e4

theorem CInv.scotBreakTie {s : St α} (h : CInv A S m kk k u nV N s) (tied : List (Cand α)) (lowest : Bool) (reason : String) :
    CInv A S m kk k u nV N (Droop.scotBreakTie A s tied lowest reason).1 := by
  obtain ⟨e1, e2, _, e4, _⟩ := scotBreakTie_frame A s tied lowest reason
  exact h.of_same A e1 e2 e4

/-! ## counting the coalition's candidates under an update of one candidate -/

theorem cnt_upd (p : Cand α → Bool) {s : St α} (hwf : s.WF) (a : Cand α) (ha : a ∈ s.cands) (f : Cand α → Cand α) :
    ((s.upd a.cid f).cands.filter p).length + (if p a then 1 else 0)
      = (s.cands.filter p).length + (if p (f a) then 1 else 0) := by
  unfold St.upd
  exact count_upd_unique p s.cands a f hwf ha

theorem isHopeful_upd_sub (s : St α) (cid : Nat) (f : Cand α → Cand α) (hcid : ∀ x, (f x).cid = x.cid)
    (hf : ∀ x, (f x).st = .hopeful → x.st = .hopeful) (c : Nat) (h : (s.upd cid f).isHopeful c = true) :
    s.isHopeful c = true := by
  obtain ⟨y, hy, hy1, hy2⟩ := isHopeful_iff.1 h
  obtain ⟨x, hx, rfl⟩ := mem_upd.1 hy
  by_cases hcc : (x.cid == cid) = true
  · simp only [hcc, if_true] at hy1 hy2
    exact isHopeful_iff.2 ⟨x, hx, (hcid x).symm.trans hy1, hf x hy2⟩
  · have hf' : (x.cid == cid) = false := by simpa using hcc
    simp only [hf', Bool.false_eq_true, if_false] at hy1 hy2
    exact isHopeful_iff.2 ⟨x, hx, hy1, hy2⟩

/-- a hopeful candidate is elected with its transfer pending -/
theorem CInv.elect (hA : LawfulArith A) {s : St α} (h : CInv A S m kk k u nV N s) (hI : Inv A s) (w : Cand α)
    (hw : w ∈ s.cands) (hh : w.st = .hopeful) (verb : String) :
    CInv A S m kk k u nV N (s.elect A w.cid verb true) := by
  unfold St.elect
  apply CInv.logAct
  set f : Cand α → Cand α := fun c => { c with st := .elected, pending := true } with hf
  have c1 := cnt_upd (fun c => S.contains c.cid && c.st == .hopeful) hI.wf w hw f
  have c2 := cnt_upd (fun c => S.contains c.cid && c.st == .elected) hI.wf w hw f
  have c3 := cnt_upd (fun c => S.contains c.cid && (c.st == .elected && !c.pending)) hI.wf w hw f
  simp only [hf, hh] at c1 c2 c3
  have e1 : hopS S (s.upd w.cid f) + (if S.contains w.cid then 1 else 0) = hopS S s := by
    unfold hopS; by_cases hS : S.contains w.cid = true <;> simp [hS] at c1 ⊢ <;> omega
  have e2 : elS S (s.upd w.cid f) = elS S s + (if S.contains w.cid then 1 else 0) := by
    unfold elS; by_cases hS : S.contains w.cid = true <;> simp [hS] at c2 ⊢ <;> omega
  have e3 : doneS S (s.upd w.cid f) = doneS S s := by
    unfold doneS; by_cases hS : S.contains w.cid = true <;> simp [hS] at c3 ⊢ <;> omega
  have hV : Vval A S m (s.upd w.cid f) = Vval A S m s := rfl
  refine ⟨?_, ?_, h.vm, ?_, ?_, ?_, h.big⟩
  · exact h.pos.of_sub rfl (isHopeful_upd_sub s w.cid f (fun _ => rfl) (fun x hx => by simp [hf] at hx))
  · apply h.rest.upd_keep w.cid f (fun _ => rfl)
    intro x _ _
    right; exact ⟨rfl, rfl⟩
  · unfold St.upd; simp only [List.length_map]; exact h.len
  · intro h1
    rw [hV, e3]
    apply h.d2
    by_cases hS : S.contains w.cid = true
    · simp only [hS, if_true] at e1; omega
    · simp only [hS, Bool.false_eq_true, if_false] at e1; omega
  · have := h.alive
    by_cases hS : S.contains w.cid = true
    · simp only [hS, if_true] at e1 e2; omega
    · simp only [hS, Bool.false_eq_true, if_false] at e1 e2; omega

theorem CInv.foldElect (hA : LawfulArith A) {s : St α} (h : CInv A S m kk k u nV N s) (hI : Inv A s) (ws : List (Cand α))
    (verb : Cand α → String) (hnd : (ws.map (·.cid)).Nodup)
    (hw : ∀ w ∈ ws, w ∈ s.cands ∧ w.st = .hopeful ∧ s.quota ≤ w.vote) :
    CInv A S m kk k u nV N (ws.foldl (fun acc c => acc.elect A c.cid (verb c) true) s) := by
  induction ws generalizing s with
  | nil => exact h
  | cons w ws ih =>
    simp only [List.foldl_cons]
    simp only [List.map_cons, List.nodup_cons, List.mem_map, not_exists, not_and] at hnd
    have hI1 : Inv A (s.elect A w.cid (verb w) true) :=
      hI.elect A w.cid _ true
        (fun c hc hcid => by
          have : c = w := nodup_cid_eq hI.wf hc (hw w (by simp)).1 hcid
          rw [this]; exact (hw w (by simp)).2.1)
        (fun c hc hcid _ => by
          have : c = w := nodup_cid_eq hI.wf hc (hw w (by simp)).1 hcid
          rw [this]; exact (hw w (by simp)).2.2)
    apply ih (h.elect A hA hI w (hw w (by simp)).1 (hw w (by simp)).2.1 _) hI1 hnd.2
    intro w' hw'
    obtain ⟨hc', hh', hq'⟩ := hw w' (by simp [hw'])
    have hne : w'.cid ≠ w.cid := fun e => hnd.1 w' hw' e
    refine ⟨mem_elect_of_ne A hc' w.cid _ true hne, hh', ?_⟩
    unfold St.elect; rw [logAct_quota]; exact hq'

theorem exists_hopeful_of_hopS {s : St α} (hh : 1 ≤ hopS S s) : ∃ x, x ∈ S ∧ s.isHopeful x = true := by
  unfold hopS at hh
  have hne : s.cands.filter (fun c => S.contains c.cid && c.st == .hopeful) ≠ [] := by
    intro e; rw [e] at hh; simp at hh
  obtain ⟨c, hc⟩ := List.exists_mem_of_ne_nil _ hne
  rw [List.mem_filter] at hc
  simp only [Bool.and_eq_true, List.contains_iff_mem, beq_iff_eq] at hc
  exact ⟨c.cid, hc.2.1, isHopeful_iff.2 ⟨c, hc.1, rfl, hc.2.2⟩⟩

theorem countsS_of_skel {s t : St α} (hsk : t.skel = s.skel) :
    hopS S t = hopS S s ∧ elS S t = elS S s ∧ doneS S t = doneS S s ∧ t.cands.length = s.cands.length := by
  have key : ∀ (p : Nat × Nat × Nat × Bool × CState × Bool → Bool) (u : St α),
      (u.cands.filter (fun c => p c.skel)).length = (u.skel.filter p).length := by
    intro p u
    unfold St.skel
    rw [List.filter_map, List.length_map]; rfl
  refine ⟨?_, ?_, ?_, ?_⟩
  · have a := key (fun k => S.contains k.1 && k.2.2.2.2.1 == .hopeful) t
    have b := key (fun k => S.contains k.1 && k.2.2.2.2.1 == .hopeful) s
    unfold hopS; unfold Cand.skel at a b; simp only at a b; rw [a, b, hsk]
  · have a := key (fun k => S.contains k.1 && k.2.2.2.2.1 == .elected) t
    have b := key (fun k => S.contains k.1 && k.2.2.2.2.1 == .elected) s
    unfold elS; unfold Cand.skel at a b; simp only at a b; rw [a, b, hsk]
  · have a := key (fun k => S.contains k.1 && (k.2.2.2.2.1 == .elected && !k.2.2.2.2.2)) t
    have b := key (fun k => S.contains k.1 && (k.2.2.2.2.1 == .elected && !k.2.2.2.2.2)) s
    unfold doneS; unfold Cand.skel at a b; simp only at a b; rw [a, b, hsk]
  · have := congrArg List.length hsk
    unfold St.skel at this; simpa using this

/-- `c.unpend(msg)` of an elected candidate followed by the transfer of its surplus -/
theorem CInv.unpendTransfer (hA : LawfulArith A) (hu : 0 ≤ u) (rew0 : α → α → α → α) (hlow : RewLower A u rew0)
    {s : St α} (h : CInv A S m kk k u nV N s) (hI : Inv A s) (hq1 : A.one ≤ s.quota)
    (hc : Cand α) (hcs : hc ∈ s.cands) (hce : hc.st = .elected) (hcp : hc.pending = true) (verb1 verb2 : String) :
    CInv A S m kk k u nV N (Droop.transferSurplus A (s.unpendLog A hc.cid verb1) hc rew0 verb2) := by
  set g : Cand α → Cand α := fun c => { c with pending := false } with hg
  have c1 := cnt_upd (fun c => S.contains c.cid && c.st == .hopeful) hI.wf hc hcs g
  have c2 := cnt_upd (fun c => S.contains c.cid && c.st == .elected) hI.wf hc hcs g
  have c3 := cnt_upd (fun c => S.contains c.cid && (c.st == .elected && !c.pending)) hI.wf hc hcs g
  simp only [hg, hce, hcp] at c1 c2 c3
  set s1 := s.unpendLog A hc.cid verb1 with hs1
  have s1c : s1.cands = (s.upd hc.cid g).cands := by rw [hs1]; unfold St.unpendLog; rw [logAct_cands]
  have s1b : s1.ballots = s.ballots := by rw [hs1]; unfold St.unpendLog; rw [logAct_ballots]; rfl
  have s1q : s1.quota = s.quota := by rw [hs1]; unfold St.unpendLog; rw [logAct_quota]; rfl
  have e1 : hopS S s1 = hopS S s := by
    unfold hopS; rw [s1c]; by_cases hS : S.contains hc.cid = true <;> simp [hS] at c1 ⊢ <;> omega
  have e2 : elS S s1 = elS S s := by
    unfold elS; rw [s1c]; by_cases hS : S.contains hc.cid = true <;> simp [hS] at c2 ⊢ <;> omega
  have e3 : doneS S s1 = doneS S s + (if S.contains hc.cid then 1 else 0) := by
    unfold doneS; rw [s1c]; by_cases hS : S.contains hc.cid = true <;> simp [hS] at c3 ⊢ <;> omega
  have p1 : Pos s1 := by
    apply h.pos.of_sub s1b
    intro c hcH
    have : (s.upd hc.cid g).isHopeful c = true := by unfold St.isHopeful at hcH ⊢; rw [← s1c]; exact hcH
    exact isHopeful_upd_sub s hc.cid g (fun _ => rfl) (fun x hx => hx) c this
  have r1 : RestX s1 [hc.cid] := by
    have := h.rest.upd hc.cid g
    intro b hb c hcT
    rw [s1b] at hb
    rcases this b hb c hcT with h1 | h1
    · left; unfold inScopeId at h1 ⊢; rw [s1c]; exact h1
    · right; exact h1
  -- the transfer
  unfold Droop.transferSurplus
  dsimp only
  set rew : α → α := fun w => rew0 w (A.sub hc.vote s1.quota) hc.vote with hrew
  set s2 := transferAll A s1 [hc.cid] rew with hs2
  have sk2 : s2.skel = s1.skel := transferAll_skel A s1 [hc.cid] rew
  have q2 : s2.quota = s1.quota := transferAll_quota A s1 [hc.cid] rew
  set s3 := s2.setVote hc.cid s2.quota with hs3
  have sk3 : s3.skel = s2.skel := by rw [hs3]; unfold St.setVote; simp
  have b3 : s3.ballots = s2.ballots := rfl
  have q3 : s3.quota = s2.quota := rfl
  apply CInv.logAct
  obtain ⟨k1, k2, k3, k4⟩ := countsS_of_skel (S := S) (sk3.trans sk2)
  have hV3 : Vval A S m s3 = Vval A S m s2 := by unfold Vval; rw [b3]
  have hM3 : Vmult S m s3 = Vmult S m s := by
    have : Vmult S m s3 = Vmult S m s2 := by unfold Vmult; rw [b3]
    rw [this, hs2, Vmult_transferAll]; unfold Vmult; rw [s1b]
  refine ⟨(p1.transferAll A [hc.cid] rew).of_skel b3 sk3, ((r1.transferAll A rew).of_skel b3 sk3), by rw [hM3]; exact h.vm, ?_, ?_, ?_, ?_⟩
  · rw [k4, s1c]; unfold St.upd; simp only [List.length_map]; exact h.len
  · intro hh
    rw [k1, e1] at hh
    have hD := h.d2 hh
    have hV1 : Vval A S m s1 = Vval A S m s := by unfold Vval; rw [s1b]
    have hM1 : Vmult S m s1 = nV := by rw [← h.vm]; unfold Vmult; rw [s1b]
    rw [hV3, k3, e3, q3, q2, s1q]
    have hT : hc.vote = s.tally A hc.cid := hI.i1 hc hcs (Or.inr ⟨hce, hcp⟩)
    have hqv : s.quota ≤ hc.vote := hI.pq hc hcs hce hcp
    by_cases hS : S.contains hc.cid = true
    · simp only [hS, if_true]
      have hsub : A.sub hc.vote s1.quota = hc.vote - s.quota := by rw [hA.sub_eq, s1q]
      have hX : (s1.ballots.map (fun b => if isVb S m b.rank && (b.top == some hc.cid) then b.w * ((b.mult : Int) : α) else 0)).sum
          ≤ hc.vote := by
        rw [hT, tally_explicit A hA, s1b]
        apply sum_le_sum'
        intro b hb
        by_cases ht : b.top = some hc.cid
        · simp only [ht, beq_self_eq_true, Bool.and_true, if_true]
          split
          · exact le_refl _
          · exact mul_nonneg (hI.wpos b hb) (by exact_mod_cast Nat.zero_le _)
        · have : (b.top == some hc.cid) = false := by simpa using ht
          simp only [this, Bool.and_false, Bool.false_eq_true, if_false, ht]; exact le_refl _
      have hb := Vval_surplus A S m hA u hu rew0 hlow s1 hc.cid (hc.vote - s.quota) hc.vote (sub_nonneg.2 hqv)
        (by linarith [hI.qpos]) (le_trans hq1 hqv) (fun b hb => hI.wpos b (by rw [← s1b]; exact hb)) hX
      rw [hrew, hsub] at hs2
      rw [← hs2, hV1, hM1] at hb
      push_cast
      have : hc.vote - (hc.vote - s.quota) = s.quota := by ring
      rw [this] at hb
      linarith
    · simp only [hS, Bool.false_eq_true, if_false, Nat.add_zero]
      obtain ⟨x, hxS, hxh⟩ := exists_hopeful_of_hopS hh
      have : Vval A S m s2 = Vval A S m s1 := by
        rw [hs2]
        apply Vval_transferAll_disjoint A S m hA
        intro b hb hv d hd
        obtain ⟨c0, hc0, hc0S⟩ := top_in_S S m h.pos b (by rw [← s1b]; exact hb) hv x hxS hxh
        rw [hd] at hc0
        have hdc : d = c0 := Option.some.inj hc0
        have hne : d ≠ hc.cid := by
          intro e
          rw [← e, hdc] at hS
          exact hS (by simpa using hc0S)
        simp [hne]
      rw [this, hV1]; exact hD
  · rw [k1, k2, e1, e2]; exact h.alive
  · rw [q3, q2, s1q]; exact h.big

/-- `c.defeat(msg)` of a hopeful candidate followed by the transfer of its papers at unchanged value; if the candidate
    belongs to the coalition, more than `k` of its members must still be hopeful or elected -/
theorem CInv.defeatTransfer1 (hA : LawfulArith A) {s : St α} (h : CInv A S m kk k u nV N s) (hI : Inv A s) (hkk : kk ≤ k)
    (lc : Cand α) (hlc : lc ∈ s.hopeful) (hsafe : S.contains lc.cid = true → k < hopS S s + elS S s) (verbD verbT : String) :
    CInv A S m kk k u nV N (transferDefeated A (s.defeat A lc.cid verbD) [lc.cid] verbT) := by
  obtain ⟨hcs, hch⟩ := mem_hopeful.1 hlc
  set g : Cand α → Cand α := fun c => { c with st := .defeated } with hg
  have c1 := cnt_upd (fun c => S.contains c.cid && c.st == .hopeful) hI.wf lc hcs g
  have c2 := cnt_upd (fun c => S.contains c.cid && c.st == .elected) hI.wf lc hcs g
  have c3 := cnt_upd (fun c => S.contains c.cid && (c.st == .elected && !c.pending)) hI.wf lc hcs g
  simp only [hg, hch] at c1 c2 c3
  set s1 := s.defeat A lc.cid verbD with hs1
  have s1c : s1.cands = (s.upd lc.cid g).cands := by rw [hs1]; unfold St.defeat; rw [logAct_cands]
  have s1b : s1.ballots = s.ballots := by rw [hs1]; unfold St.defeat; rw [logAct_ballots]; rfl
  have s1q : s1.quota = s.quota := by rw [hs1]; unfold St.defeat; rw [logAct_quota]; rfl
  have e1 : hopS S s1 + (if S.contains lc.cid then 1 else 0) = hopS S s := by
    unfold hopS; rw [s1c]; by_cases hS : S.contains lc.cid = true <;> simp [hS] at c1 ⊢ <;> omega
  have e2 : elS S s1 = elS S s := by
    unfold elS; rw [s1c]; by_cases hS : S.contains lc.cid = true <;> simp [hS] at c2 ⊢ <;> omega
  have e3 : doneS S s1 = doneS S s := by
    unfold doneS; rw [s1c]; by_cases hS : S.contains lc.cid = true <;> simp [hS] at c3 ⊢ <;> omega
  have p1 : Pos s1 := by
    apply h.pos.of_sub s1b
    intro c hcH
    have : (s.upd lc.cid g).isHopeful c = true := by unfold St.isHopeful at hcH ⊢; rw [← s1c]; exact hcH
    exact isHopeful_upd_sub s lc.cid g (fun _ => rfl) (fun x hx => by simp [hg] at hx) c this
  have r1 : RestX s1 [lc.cid] := by
    have := h.rest.upd lc.cid g
    intro b hb c hcT
    rw [s1b] at hb
    rcases this b hb c hcT with h1 | h1
    · left; unfold inScopeId at h1 ⊢; rw [s1c]; exact h1
    · right; exact h1
  unfold transferDefeated
  dsimp only
  set s2 := transferAll A s1 [lc.cid] id with hs2
  have sk2 : s2.skel = s1.skel := transferAll_skel A s1 [lc.cid] id
  have q2 : s2.quota = s1.quota := transferAll_quota A s1 [lc.cid] id
  apply CInv.logAct
  simp only [List.foldl_cons, List.foldl_nil]
  set s3 := s2.setVote lc.cid A.zero with hs3
  have sk3 : s3.skel = s2.skel := by rw [hs3]; unfold St.setVote; simp
  have b3 : s3.ballots = s2.ballots := rfl
  have q3 : s3.quota = s2.quota := rfl
  obtain ⟨k1, k2, k3, k4⟩ := countsS_of_skel (S := S) (sk3.trans sk2)
  have hV3 : Vval A S m s3 = Vval A S m s := by
    have : Vval A S m s3 = Vval A S m s2 := by unfold Vval; rw [b3]
    rw [this, hs2, Vval_transferAll_id A S m hA]; unfold Vval; rw [s1b]
  have hM3 : Vmult S m s3 = Vmult S m s := by
    have : Vmult S m s3 = Vmult S m s2 := by unfold Vmult; rw [b3]
    rw [this, hs2, Vmult_transferAll]; unfold Vmult; rw [s1b]
  refine ⟨(p1.transferAll A [lc.cid] id).of_skel b3 sk3, ((r1.transferAll A id).of_skel b3 sk3), by rw [hM3]; exact h.vm, ?_, ?_, ?_, ?_⟩
  · rw [k4, s1c]; unfold St.upd; simp only [List.length_map]; exact h.len
  · intro hh
    rw [k1] at hh
    have hh' : 1 ≤ hopS S s := by split at e1 <;> omega
    rw [hV3, k3, e3, q3, q2, s1q]
    exact h.d2 hh'
  · rw [k1, k2, e2]
    have := h.alive
    by_cases hS : S.contains lc.cid = true
    · simp only [hS, if_true] at e1
      have := hsafe hS
      omega
    · simp only [hS, Bool.false_eq_true, if_false] at e1
      omega
  · rw [q3, q2, s1q]; exact h.big

/-- after the election step every candidate still hopeful failed the quota test, with the tally it had before -/
theorem electWinners_rest_below (hasQ : St α → Cand α → Bool) (pend : St α → Cand α → Bool) (verb : St α → Cand α → String)
    {s : St α} (hwf : s.WF) :
    ∀ c ∈ (electWinners A hasQ pend verb s).hopeful, c ∈ s.hopeful ∧ hasQ s c = false := by
  unfold electWinners
  -- general statement about folding `elect` over a list of candidates of `s`
  have key : ∀ (ws : List (Cand α)) (t : St α), (∀ c ∈ t.hopeful, c ∈ s.hopeful ∧ (c ∈ ws ∨ hasQ s c = false)) →
      (∀ w ∈ ws, w ∈ s.hopeful) →
      ∀ c ∈ (ws.foldl (fun acc c => acc.elect A c.cid (verb s c) (pend s c)) t).hopeful, c ∈ s.hopeful ∧ hasQ s c = false := by
    intro ws
    induction ws with
    | nil =>
      intro t ht _ c hc
      obtain ⟨h1, h2⟩ := ht c hc
      rcases h2 with h2 | h2
      · cases h2
      · exact ⟨h1, h2⟩
    | cons w ws ih =>
      intro t ht hws c hc
      simp only [List.foldl_cons] at hc
      apply ih (t.elect A w.cid (verb s w) (pend s w)) ?_ (fun x hx => hws x (by simp [hx])) c hc
      intro c' hc'
      -- hopeful after electing `w`: hopeful before, and not `w`
      have hc'' := mem_hopeful.1 hc'
      unfold St.elect at hc''
      rw [logAct_cands] at hc''
      obtain ⟨x, hx, hxe⟩ := mem_upd.1 hc''.1
      by_cases hcc : (x.cid == w.cid) = true
      · simp only [hcc, if_true] at hxe
        rw [hxe] at hc''; simp at hc''
      · have hf : (x.cid == w.cid) = false := by simpa using hcc
        simp only [hf, Bool.false_eq_true, if_false] at hxe
        rw [hxe] at hc'' ⊢
        obtain ⟨h1, h2⟩ := ht x (mem_hopeful.2 ⟨hx, hc''.2⟩)
        refine ⟨h1, ?_⟩
        rcases h2 with h2 | h2
        · rcases List.mem_cons.1 h2 with h3 | h3
          · rw [h3] at hf; simp at hf
          · exact Or.inl h3
        · exact Or.inr h2
  apply key
  · intro c hc
    refine ⟨hc, ?_⟩
    by_cases hq : hasQ s c = true
    · left; rw [List.mem_filter]; exact ⟨(mem_pySorted _ _ _ _).2 hc, hq⟩
    · right; simpa using hq
  · intro w hw
    rw [List.mem_filter] at hw
    exact (mem_pySorted _ _ _ _).1 hw.1

end Droop
