import DroopProofs.DropWMeek
import DroopProofs.PermBPrf

/-! # C11 for meek-prf: a withdrawn candidate is an absent candidate

As for meek and warren: a withdrawn candidate never has a keep factor other than none or zero (`WDead`, an invariant of the whole
count given distinct candidate ids), so the distribution passes it by as it passes an id that is no candidate; everything else
reads the candidates through `hopeful` / `elected`, updates one candidate keeping its status, or elects / excludes a hopeful one.
No hypothesis on the arithmetic. -/
namespace Droop
variable {α : Type} [CommRing α] [LinearOrder α] [IsStrictOrderedRing α] (A : Arith α)

/-! ## the invariant through the primitives -/

theorem WDead.of_cands {s t : St α} (h : WDead A s) (hc : t.cands = s.cands) : WDead A t := by
  unfold WDead St.WF at *
  rw [hc]; exact h

theorem WDead.upd {s : St α} (h : WDead A s) (cid : Nat) (f : Cand α → Cand α) (hcid : ∀ c, (f c).cid = c.cid)
    (hok : ∀ c ∈ s.cands, c.cid = cid → (f c).st = .withdrawn → (c.st = .withdrawn ∧ (f c).kf = c.kf)) : WDead A (s.upd cid f) := by
  refine ⟨WF_upd h.1 cid f hcid, ?_⟩
  intro c' hc' hw
  obtain ⟨c, hc, rfl⟩ := mem_upd.1 hc'
  by_cases he : (c.cid == cid) = true
  · rw [if_pos he] at hw ⊢
    obtain ⟨hcw, hkf⟩ := hok c hc (by simpa using he) hw
    have := h.2 c hc hcw
    unfold Cand.noKeep at this ⊢
    rw [hkf]; exact this
  · rw [if_neg he] at hw ⊢; exact h.2 c hc hw

theorem WDead.logAct {s : St α} (h : WDead A s) (tag verb : String) (subj : List Nat) : WDead A (s.logAct A tag verb subj) :=
  h.of_cands A (logAct_cands A s tag verb subj)

theorem WDead.elect {s : St α} (h : WDead A s) (cid : Nat) (verb : String) (p : Bool) : WDead A (s.elect A cid verb p) := by
  unfold St.elect
  apply WDead.logAct
  exact h.upd A cid _ (fun _ => rfl) (fun c _ _ hw => by cases hw)

theorem WDead.defeat {s : St α} (h : WDead A s) (cid : Nat) (verb : String) : WDead A (s.defeat A cid verb) := by
  unfold St.defeat
  apply WDead.logAct
  exact h.upd A cid _ (fun _ => rfl) (fun c _ _ hw => by cases hw)

theorem WDead.foldElect {s : St α} (h : WDead A s) (ws : List (Cand α)) (verb : String) :
    WDead A (ws.foldl (fun acc c => acc.elect A c.cid verb false) s) := by
  induction ws generalizing s with
  | nil => exact h
  | cons w ws ih => simp only [List.foldl_cons]; exact ih (h.elect A w.cid verb false)

theorem WDead.setCrash {s : St α} (h : WDead A s) (k : String) : WDead A (s.setCrash k) := h.of_cands A (setCrash_cands s k)

theorem WDead.kfUpdate {s : St α} (h : WDead A s) (cap : Bool) : WDead A (Droop.kfUpdate A cap s) := by
  unfold Droop.kfUpdate
  have key : ∀ (l : List (Cand α)) (t : St α), WDead A t → (∀ c ∈ l, ∀ x ∈ t.cands, x.cid = c.cid → x.st ≠ .withdrawn) →
      WDead A (l.foldl (fun acc c =>
        match c.kf with
        | some kf =>
          if A.isZero c.vote then acc.setCrash "ZeroDivisionError"
          else acc.upd c.cid (fun x => { x with kf := some (kfCap A cap (A.div .up (A.mul .up kf acc.quota) c.vote)) })
        | none => acc.setCrash "TypeError") t) := by
    intro l
    induction l with
    | nil => intro t ht _; exact ht
    | cons c cs ih =>
      intro t ht hno
      simp only [List.foldl_cons]
      have hstep : ∀ (t' : St α), t'.cands.map (fun x => (x.cid, x.st)) = t.cands.map (fun x => (x.cid, x.st)) →
          ∀ c' ∈ cs, ∀ x ∈ t'.cands, x.cid = c'.cid → x.st ≠ .withdrawn := by
        intro t' hsig c' hc' x hx hxc
        have : (x.cid, x.st) ∈ t.cands.map (fun x => (x.cid, x.st)) := by rw [← hsig]; exact List.mem_map.2 ⟨x, hx, rfl⟩
        obtain ⟨y, hy, hye⟩ := List.mem_map.1 this
        have h1 : y.cid = x.cid := congrArg Prod.fst hye
        have h2 : y.st = x.st := congrArg Prod.snd hye
        rw [← h2]
        exact hno c' (List.mem_cons_of_mem _ hc') y hy (by rw [h1, hxc])
      cases hk : c.kf with
      | none =>
        simp only
        exact ih _ (ht.setCrash A _) (hstep _ (by rw [setCrash_cands]))
      | some kf =>
        simp only
        split
        · exact ih _ (ht.setCrash A _) (hstep _ (by rw [setCrash_cands]))
        · refine ih _ (ht.upd A c.cid _ (fun _ => rfl) ?_) (hstep _ ?_)
          · intro x hx hxc hw
            exact absurd hw (hno c (List.mem_cons_self ..) x hx hxc)
          · unfold St.upd
            rw [List.map_map]
            apply List.map_congr_left
            intro x _
            simp only [Function.comp]
            split <;> rfl
  apply key _ _ h
  intro c hc x hx hxc
  obtain ⟨hc1, hc2⟩ := List.mem_filter.1 hc
  have : x = c := cand_unique h.1 hc1 hx hxc
  rw [this]
  have : c.st = .elected := by simpa using hc2
  rw [this]; simp

/-! ## the distribution -/

theorem prfRankStep_dropW (mult : α) (acc : St α × α × α × Bool) (h : WDead A acc.1) (cid : Nat) :
    prfRankStep A mult (dropW acc.1, acc.2) cid
      = (dropW (prfRankStep A mult acc cid).1, (prfRankStep A mult acc cid).2)
    ∧ WDead A (prfRankStep A mult acc cid).1 := by
  unfold prfRankStep
  by_cases hstop : acc.2.2.2 = true
  · rw [if_pos hstop, if_pos hstop]; exact ⟨rfl, h⟩
  · rw [if_neg hstop, if_neg hstop]
    rcases kfOf_dropW A h cid with e | ⟨e, k, hk, hz⟩
    · rw [e]
      cases hkf : kfOf acc.1 cid with
      | none => exact ⟨rfl, h⟩
      | some kf =>
        by_cases hz : A.isZero kf = true
        · simp only [hz, if_true]; exact ⟨trivial, h⟩
        · simp only [hz, Bool.false_eq_true, if_false]
          exact ⟨by rw [dropW_addVote], h.addVote A cid _⟩
    · rw [e, hk]
      simp only [hz, if_true]
      exact ⟨trivial, h⟩

theorem foldl_prfRankStep_dropW (mult : α) (rank : List Nat) : ∀ (acc : St α × α × α × Bool), WDead A acc.1 →
    rank.foldl (prfRankStep A mult) (dropW acc.1, acc.2)
      = (dropW (rank.foldl (prfRankStep A mult) acc).1, (rank.foldl (prfRankStep A mult) acc).2)
    ∧ WDead A (rank.foldl (prfRankStep A mult) acc).1 := by
  induction rank with
  | nil => intro acc h; exact ⟨rfl, h⟩
  | cons c cs ih =>
    intro acc h
    simp only [List.foldl_cons]
    obtain ⟨e, h'⟩ := prfRankStep_dropW A mult acc h c
    rw [e]
    exact ih _ h'

theorem prfBallotStep_dropW (s : St α) (h : WDead A s) (b : Ballot α) :
    prfBallotStep A (dropW s) b = dropW (prfBallotStep A s b) ∧ WDead A (prfBallotStep A s b) := by
  unfold prfBallotStep
  obtain ⟨e, h'⟩ := foldl_prfRankStep_dropW A (A.ofInt b.mult) b.rank (s, A.one, A.ofInt b.mult, false) h
  simp only at e
  rw [e]
  exact ⟨rfl, h'⟩

theorem foldl_prfBallotStep_dropW (bs : List (Ballot α)) : ∀ (s : St α), WDead A s →
    bs.foldl (prfBallotStep A) (dropW s) = dropW (bs.foldl (prfBallotStep A) s) ∧ WDead A (bs.foldl (prfBallotStep A) s) := by
  induction bs with
  | nil => intro s h; exact ⟨rfl, h⟩
  | cons b bs ih =>
    intro s h
    simp only [List.foldl_cons]
    obtain ⟨e, h'⟩ := prfBallotStep_dropW A s h b
    rw [e]
    exact ih _ h'

theorem prfS2_dropW {s : St α} (h : WDead A s) : prfS2 A (dropW s) = dropW (prfS2 A s) ∧ WDead A (prfS2 A s) := by
  unfold prfS2
  have e1 : ({ zeroActiveVotes A (dropW s) with residual := A.zero } : St α) = dropW ({ zeroActiveVotes A s with residual := A.zero } : St α) := by
    rw [zeroActiveVotes_dropW]; rfl
  rw [e1]
  have hb : (dropW ({ zeroActiveVotes A s with residual := A.zero } : St α)).ballots = ({ zeroActiveVotes A s with residual := A.zero } : St α).ballots := rfl
  rw [hb]
  exact foldl_prfBallotStep_dropW A _ _ (WDead.startDist A h)

theorem prfS4_dropW {s : St α} (h : WDead A s) : prfS4 A (dropW s) = dropW (prfS4 A s) ∧ WDead A (prfS4 A s) := by
  obtain ⟨e, h2⟩ := prfS2_dropW A h
  unfold prfS4
  rw [e, activeVotes_dropW]
  exact ⟨rfl, h2.of_cands A rfl⟩

theorem prfWinners_dropW {s : St α} (h : WDead A s) : prfWinners A (dropW s) = prfWinners A s := by
  unfold prfWinners
  rw [(prfS4_dropW A h).1, hopeful_dropW]
  rfl

theorem prfS5_dropW {s : St α} (h : WDead A s) : prfS5 A (dropW s) = dropW (prfS5 A s) ∧ WDead A (prfS5 A s) := by
  obtain ⟨e4, h4⟩ := prfS4_dropW A h
  unfold prfS5
  rw [prfWinners_dropW A h, e4]
  refine ⟨(dropW_foldElect A (prfWinners A s) (fun _ => "Elect") (fun _ => false) h4.1
    (fun w hw => nonWId_of_hopeful (List.mem_filter.1 hw).1)).symm, h4.foldElect A _ _⟩

theorem prfS6_dropW {s : St α} (h : WDead A s) : prfS6 A (dropW s) = dropW (prfS6 A s) ∧ WDead A (prfS6 A s) := by
  obtain ⟨e5, h5⟩ := prfS5_dropW A h
  unfold prfS6
  rw [e5, elected_dropW]
  exact ⟨rfl, h5.of_cands A rfl⟩

theorem prfIterate_dropW (omega : α) : ∀ (fuel : Nat) (last : α) (s : St α), WDead A s →
    prfIterate A omega fuel last (dropW s) = (dropW (prfIterate A omega fuel last s).1, (prfIterate A omega fuel last s).2)
    ∧ WDead A (prfIterate A omega fuel last s).1 := by
  intro fuel
  induction fuel with
  | zero =>
    intro last s h
    refine ⟨?_, h.setCrash A _⟩
    show ((dropW s).setCrash "FUEL", PStatus.stable) = _
    rw [← dropW_setCrash]; rfl
  | succ n ih =>
    intro last s h
    obtain ⟨e6, h6⟩ := prfS6_dropW A h
    have hk := kfUpdate_dropW A false (prfS6 A s)
    rw [prfIterate_succ, prfIterate_succ, prfWinners_dropW A h, e6]
    by_cases h1 : (!(prfWinners A s).isEmpty) = true
    · rw [if_pos h1, if_pos h1]; exact ⟨rfl, h6⟩
    · rw [if_neg h1, if_neg h1]
      by_cases h2 : A.lt (prfS6 A s).surplus omega = true
      · rw [if_pos (show A.lt (dropW (prfS6 A s)).surplus omega = true from h2), if_pos h2]; exact ⟨rfl, h6⟩
      · rw [if_neg (show ¬ A.lt (dropW (prfS6 A s)).surplus omega = true from h2), if_neg h2]
        by_cases h3 : A.ge (prfS6 A s).surplus last = true
        · rw [if_pos (show A.ge (dropW (prfS6 A s)).surplus last = true from h3), if_pos h3]
          refine ⟨?_, h6.of_cands A rfl⟩
          rw [dropW_logMsg]; rfl
        · rw [if_neg (show ¬ A.ge (dropW (prfS6 A s)).surplus last = true from h3), if_neg h3, hk]
          by_cases h5 : (kfUpdate A false (prfS6 A s)).crash.isSome = true
          · rw [if_pos (show (dropW (kfUpdate A false (prfS6 A s))).crash.isSome = true from h5), if_pos h5]
            exact ⟨rfl, h6.kfUpdate A false⟩
          · rw [if_neg (show ¬ (dropW (kfUpdate A false (prfS6 A s))).crash.isSome = true from h5), if_neg h5]
            exact ih _ _ (h6.kfUpdate A false)


/-! ## one round -/

/-- what follows the iteration of a round -/
def prfAfter (r : St α × PStatus) : St α × Flow :=
  if r.1.crash.isSome then (r.1, .brk) else
  if r.2 == .elected then (r.1, .cont) else
  match r.1.hopeful with
  | [] => (r.1, .cont)
  | h :: hs =>
    match breakTie A r.1 (r.1.hopeful.filter (fun c => A.ge (A.add (A.vMin h.vote (hs.map (·.vote))) r.1.surplus) c.vote))
        "Break tie (defeat low candidate)" with
    | (s3, some lc) =>
      ((s3.defeat A lc.cid (if r.2 == .omega then "Defeat (surplus < omega)" else "Defeat (stable surplus)")).upd lc.cid
        (fun c => { c with vote := A.zero, kf := some A.zero }), .cont)
    | (s3, none) => (s3, .brk)

theorem prfBody_eq' (omega : α) (iterFuel : Nat) (s : St α) :
    prfBody A omega iterFuel s = prfAfter A (prfIterate A omega iterFuel (A.ofInt (s.newRound A).nballots) (s.newRound A)) := rfl

theorem WDead.breakTie {s : St α} (h : WDead A s) (tied : List (Cand α)) (verb : String) : WDead A (Droop.breakTie A s tied verb).1 :=
  h.of_cands A (breakTie_frame A s tied verb).1

theorem prfAfter_dropW (r : St α × PStatus) (h : WDead A r.1) :
    prfAfter A (dropW r.1, r.2) = (dropW (prfAfter A r).1, (prfAfter A r).2) ∧ WDead A (prfAfter A r).1 := by
  unfold prfAfter
  by_cases hc : r.1.crash.isSome = true
  · rw [if_pos (show (dropW r.1).crash.isSome = true from hc), if_pos hc]; exact ⟨rfl, h⟩
  · rw [if_neg (show ¬ (dropW r.1).crash.isSome = true from hc), if_neg hc]
    by_cases he : (r.2 == PStatus.elected) = true
    · rw [if_pos he, if_pos he]; exact ⟨rfl, h⟩
    · rw [if_neg he, if_neg he]
      simp only [hopeful_dropW]
      cases hh : r.1.hopeful with
      | nil => exact ⟨rfl, h⟩
      | cons hd hs =>
        simp only
        have hs' : (dropW r.1).surplus = r.1.surplus := rfl
        rw [hs', dropW_breakTie]
        have hfr := (breakTie_frame A r.1 ((hd :: hs).filter (fun c => A.ge (A.add (A.vMin hd.vote (hs.map (·.vote))) r.1.surplus) c.vote))
          "Break tie (defeat low candidate)").1
        have hmem := breakTie_mem A r.1 ((hd :: hs).filter (fun c => A.ge (A.add (A.vMin hd.vote (hs.map (·.vote))) r.1.surplus) c.vote))
          "Break tie (defeat low candidate)"
        have h3 := h.breakTie A ((hd :: hs).filter (fun c => A.ge (A.add (A.vMin hd.vote (hs.map (·.vote))) r.1.surplus) c.vote))
          "Break tie (defeat low candidate)"
        cases hb : Droop.breakTie A r.1 ((hd :: hs).filter (fun c => A.ge (A.add (A.vMin hd.vote (hs.map (·.vote))) r.1.surplus) c.vote))
            "Break tie (defeat low candidate)" with
        | mk s3 oc =>
          rw [hb] at hfr hmem h3
          simp only at hfr h3
          cases oc with
          | none => exact ⟨rfl, h3⟩
          | some lc =>
            simp only
            have hn : NonWId s3 lc.cid := by
              have : lc ∈ r.1.hopeful := by rw [hh]; exact (List.mem_filter.1 (hmem lc rfl)).1
              exact nonWId_of_cands (nonWId_of_hopeful this) hfr
            refine ⟨?_, ?_⟩
            · rw [← dropW_defeat A h3.1 hn, ← dropW_upd_keep (s3.defeat A lc.cid _) lc.cid (fun c => { c with vote := A.zero, kf := some A.zero }) (fun _ => rfl)]
            · exact (h3.defeat A lc.cid _).upd A lc.cid _ (fun _ => rfl) (fun c hc hcc hw => by
                exfalso
                -- a candidate carrying the id just excluded is not withdrawn
                have hwf := (h3.defeat A lc.cid (if (r.2 == PStatus.omega) = true then "Defeat (surplus < omega)" else "Defeat (stable surplus)")).1
                obtain ⟨x, hx, hxc, hxs⟩ := nonWId_defeat A hn lc.cid (if (r.2 == PStatus.omega) = true then "Defeat (surplus < omega)" else "Defeat (stable surplus)")
                have : x = c := cand_unique hwf hc hx (by rw [hxc, hcc])
                rw [this] at hxs
                exact hxs hw)

/-- **one round commutes with the deletion** -/
theorem prfBody_dropW (omega : α) (iterFuel : Nat) {s : St α} (h : WDead A s) :
    prfBody A omega iterFuel (dropW s) = (dropW (prfBody A omega iterFuel s).1, (prfBody A omega iterFuel s).2)
    ∧ WDead A (prfBody A omega iterFuel s).1 := by
  rw [prfBody_eq', prfBody_eq']
  have hn : (dropW s).newRound A = dropW (s.newRound A) := (dropW_newRound A s).symm
  have hnb : ((dropW s).newRound A).nballots = (s.newRound A).nballots := by rw [hn]; rfl
  have hw1 : WDead A (s.newRound A) := by
    unfold St.newRound
    exact WDead.logAct A (h.of_cands A (t := { s with round := s.round + 1 }) rfl) _ _ _
  obtain ⟨e, hr⟩ := prfIterate_dropW A omega iterFuel (A.ofInt (s.newRound A).nballots) (s.newRound A) hw1
  rw [hnb, hn, e]
  exact prfAfter_dropW A _ hr

/-! ## start, closing stage, whole count -/

theorem mfcStep_dropW (acc : St α) (b : Ballot α) : mfcStep A (dropW acc) b = dropW (mfcStep A acc b) := by
  unfold mfcStep
  cases b.top with
  | none => rfl
  | some c => exact (dropW_addVote A acc c _).symm

theorem WDead.mfcFold (bs : List (Ballot α)) : ∀ (s : St α), WDead A s → WDead A (bs.foldl (mfcStep A) s) := by
  induction bs with
  | nil => intro s h; exact h
  | cons b bs ih =>
    intro s h
    simp only [List.foldl_cons]
    apply ih
    unfold mfcStep
    cases b.top with
    | none => exact h
    | some c => exact h.addVote A c _

theorem prfS3_dropW (s0 : St α) : prfS3 A (dropW s0) = dropW (prfS3 A s0) := by
  unfold prfS3 dropW
  simp only
  congr 1
  rw [List.filter_map]
  congr 1
  apply List.filter_congr
  intro c _
  simp only [Function.comp, nonW]
  split <;> rfl

theorem WDead.prfS3 {s0 : St α} (h : WDead A s0) : WDead A (Droop.prfS3 A s0) := by
  unfold Droop.prfS3
  simp only
  refine ⟨?_, ?_⟩
  · unfold St.WF
    simp only [List.map_map]
    have : ((fun c : Cand α => c.cid) ∘ fun (c : Cand α) => if (c.st == CState.hopeful) = true then { c with kf := some A.one } else c)
        = fun c => c.cid := by
      funext c; simp only [Function.comp]; split <;> rfl
    rw [this]; exact h.1
  · intro c' hc' hw
    simp only at hc'
    obtain ⟨c, hc, rfl⟩ := List.mem_map.1 hc'
    by_cases hcond : (c.st == CState.hopeful) = true
    · rw [if_pos hcond] at hw
      have : c.st = .hopeful := by simpa using hcond
      simp only at hw
      rw [this] at hw; cases hw
    · rw [if_neg hcond] at hw ⊢; exact h.2 c hc hw

theorem prfStart_dropW (s0 : St α) : prfStart A (dropW s0) = dropW (prfStart A s0) := by
  rw [prfStart_eq, prfStart_eq, dropW_logAct, prfS3_dropW]
  have hb : (dropW (prfS3 A s0)).ballots = (prfS3 A s0).ballots := rfl
  rw [hb, foldl_dropW_comm (mfcStep A) (mfcStep_dropW A)]

theorem WDead.prfStart {s0 : St α} (h : WDead A s0) : WDead A (Droop.prfStart A s0) := by
  rw [prfStart_eq]
  exact WDead.logAct A ((h.prfS3 A).mfcFold A _ _) _ _ _

def prfFinStep (acc : St α) (c : Cand α) : St α :=
  if acc.elected.length < acc.seats then acc.elect A c.cid "Elect remaining" false
  else (acc.defeat A c.cid "Defeat remaining").upd c.cid (fun x => { x with kf := some A.zero, vote := A.zero })

theorem prfFinStep_dropW {s : St α} (h : WDead A s) (c : Cand α) (hn : NonWId s c.cid) :
    prfFinStep A (dropW s) c = dropW (prfFinStep A s c) ∧ WDead A (prfFinStep A s c)
    ∧ ∀ d, NonWId s d → NonWId (prfFinStep A s c) d := by
  unfold prfFinStep
  rw [elected_dropW]
  have hs : (dropW s).seats = s.seats := rfl
  rw [hs]
  split
  · exact ⟨(dropW_elect A h.1 hn _ _).symm, h.elect A _ _ _, fun d hd => nonWId_elect A hd _ _ _⟩
  · refine ⟨?_, ?_, ?_⟩
    · rw [← dropW_defeat A h.1 hn, ← dropW_upd_keep (s.defeat A c.cid _) c.cid (fun x => { x with kf := some A.zero, vote := A.zero }) (fun _ => rfl)]
    · exact (h.defeat A c.cid _).upd A c.cid _ (fun _ => rfl) (fun x hx hxc hw => by
        exfalso
        have hwf := (h.defeat A c.cid "Defeat remaining").1
        obtain ⟨y, hy, hyc, hys⟩ := nonWId_defeat A hn c.cid "Defeat remaining"
        have : y = x := cand_unique hwf hx hy (by rw [hyc, hxc])
        rw [this] at hys
        exact hys hw)
    · intro d hd
      exact nonWId_upd (nonWId_defeat A hd c.cid _) c.cid _ (fun _ => rfl) (fun _ hh => hh)

theorem foldFin_dropW (l : List (Cand α)) : ∀ (s : St α), WDead A s → (∀ c ∈ l, NonWId s c.cid) →
    l.foldl (prfFinStep A) (dropW s) = dropW (l.foldl (prfFinStep A) s) := by
  induction l with
  | nil => intro s _ _; rfl
  | cons c cs ih =>
    intro s h hn
    simp only [List.foldl_cons]
    obtain ⟨e, h', hk⟩ := prfFinStep_dropW A h c (hn c (List.mem_cons_self ..))
    rw [e]
    exact ih _ h' (fun c' hc' => hk _ (hn c' (List.mem_cons_of_mem _ hc')))

theorem prfFinish_eq' (s6 : St α) :
    prfFinish A s6 = if s6.crash.isSome then s6 else
      { s6.hopeful.foldl (prfFinStep A) s6 with
        votes := A.sum ((s6.hopeful.foldl (prfFinStep A) s6).elected.map (·.vote)),
        residual := A.sub (A.ofInt (s6.hopeful.foldl (prfFinStep A) s6).nballots) (A.sum ((s6.hopeful.foldl (prfFinStep A) s6).elected.map (·.vote))) } := rfl

theorem prfFinish_dropW {s6 : St α} (h : WDead A s6) : prfFinish A (dropW s6) = dropW (prfFinish A s6) := by
  rw [prfFinish_eq', prfFinish_eq']
  have hc : (dropW s6).crash = s6.crash := rfl
  rw [hc]
  split
  · rfl
  · rw [hopeful_dropW, foldFin_dropW A s6.hopeful s6 h (fun c hc => nonWId_of_hopeful hc), elected_dropW]
    rfl

/-- **C11, second clause, meek-prf**: whenever the count of the full state and the count of the state with the withdrawn candidates
    deleted both return, the second is the first with the withdrawn candidates deleted (record included) -/
theorem prf_dropW (iterFuel : Nat) (s0 t t' : St α) (h0 : WDead A s0)
    (h : prfCount A iterFuel s0 = some t) (h' : prfCount A iterFuel (dropW s0) = some t') : t' = dropW t := by
  rw [prfCount_eq] at h h'
  rw [prfStart_dropW] at h'
  cases hl : loopN stdGuard (prfBody A (A.divV (A.ofInt 1) (A.ofInt (10 ^ 6))) iterFuel) (2 * s0.cands.length + 3) (prfStart A s0) with
  | none => rw [hl] at h; cases h
  | some s6 =>
    rw [hl] at h
    cases hl' : loopN stdGuard (prfBody A (A.divV (A.ofInt 1) (A.ofInt (10 ^ 6))) iterFuel) (2 * (dropW s0).cands.length + 3)
        (dropW (prfStart A s0)) with
    | none => rw [hl'] at h'; cases h'
    | some s6' =>
      rw [hl'] at h'
      have ht : t = prfFinish A s6 := by simpa using h.symm
      have ht' : t' = prfFinish A s6' := by simpa using h'.symm
      have hlen : (dropW s0).cands.length ≤ s0.cands.length := List.length_filter_le _ _
      have h1 := loopN_fuel_mono stdGuard (prfBody A (A.divV (A.ofInt 1) (A.ofInt (10 ^ 6))) iterFuel) _ _ _ hl'
        (2 * s0.cands.length + 3) (by omega)
      have hP0 : WDead A (prfStart A s0) := h0.prfStart A
      have h2 := loopN_dropW (WDead A) stdGuard (prfBody A (A.divV (A.ofInt 1) (A.ofInt (10 ^ 6))) iterFuel)
        (fun s hs _ _ => (prfBody_dropW A _ iterFuel hs).2)
        (fun s => stdGuard_dropW s)
        (fun s hs => (prfBody_dropW A _ iterFuel hs).1)
        (2 * s0.cands.length + 3) (prfStart A s0) hP0
      rw [h1, hl] at h2
      have e6 : s6' = dropW s6 := by simpa using h2
      have h6 : WDead A s6 :=
        loopN_preserves (WDead A) stdGuard (prfBody A (A.divV (A.ofInt 1) (A.ofInt (10 ^ 6))) iterFuel)
          (fun s hs => (prfBody_dropW A _ iterFuel hs).2) _ _ _ hP0 hl
      rw [ht', ht, e6, prfFinish_dropW A h6]

end Droop
