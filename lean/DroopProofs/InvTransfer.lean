import DroopProofs.Inv
import DroopProofs.AppendOnly

/-! # The invariant bundle is preserved by surplus transfers and by transfers of defeated candidates -/
namespace Droop
variable {α : Type} [CommRing α] [LinearOrder α] [IsStrictOrderedRing α] (A : Arith α)

/-! ### more frame facts about transferAll -/
theorem transferBallot_frame (s : St α) (b : Ballot α) :
    (transferBallot A s b).1.quota = s.quota ∧ (transferBallot A s b).1.nballots = s.nballots := by
  unfold transferBallot; split <;> exact ⟨rfl, rfl⟩
theorem transferBallot_method (s : St α) (b : Ballot α) : (transferBallot A s b).1.method = s.method := by
  unfold transferBallot; split <;> rfl
theorem tstep_method (cids : List Nat) (rew : α → α) (acc : St α × List (Ballot α)) (b : Ballot α) :
    (tstep A cids rew acc b).1.method = acc.1.method := by
  unfold tstep; split
  · split
    · exact transferBallot_method A _ _
    · rfl
  · rfl
theorem foldl_tstep_method (cids : List Nat) (rew : α → α) (bs : List (Ballot α)) (acc : St α × List (Ballot α)) :
    (bs.foldl (tstep A cids rew) acc).1.method = acc.1.method := by
  induction bs generalizing acc with
  | nil => rfl
  | cons b bs ih => simp only [List.foldl_cons]; rw [ih, tstep_method]
theorem transferAll_method (s : St α) (cids : List Nat) (rew : α → α) : (transferAll A s cids rew).method = s.method := by
  have := foldl_tstep_method A cids rew s.ballots (s, []); simpa [transferAll] using this
theorem transferAll_acts (s : St α) (cids : List Nat) (rew : α → α) : (transferAll A s cids rew).acts = s.acts := by
  have := foldl_tstep_acts A cids rew s.ballots (s, []); simpa [transferAll] using this
theorem tstep_frame (cids : List Nat) (rew : α → α) (acc : St α × List (Ballot α)) (b : Ballot α) :
    (tstep A cids rew acc b).1.quota = acc.1.quota ∧ (tstep A cids rew acc b).1.nballots = acc.1.nballots := by
  unfold tstep; split
  · split
    · exact transferBallot_frame A _ _
    · exact ⟨rfl, rfl⟩
  · exact ⟨rfl, rfl⟩
theorem foldl_tstep_frame (cids : List Nat) (rew : α → α) (bs : List (Ballot α)) (acc : St α × List (Ballot α)) :
    (bs.foldl (tstep A cids rew) acc).1.quota = acc.1.quota ∧ (bs.foldl (tstep A cids rew) acc).1.nballots = acc.1.nballots := by
  induction bs generalizing acc with
  | nil => exact ⟨rfl, rfl⟩
  | cons b bs ih =>
    simp only [List.foldl_cons]
    have h1 := ih (tstep A cids rew acc b)
    have h2 := tstep_frame A cids rew acc b
    exact ⟨h1.1.trans h2.1, h1.2.trans h2.2⟩
theorem transferAll_quota (s : St α) (cids : List Nat) (rew : α → α) : (transferAll A s cids rew).quota = s.quota := by
  have := (foldl_tstep_frame A cids rew s.ballots (s, [])).1; simpa [transferAll] using this
theorem transferAll_nballots (s : St α) (cids : List Nat) (rew : α → α) : (transferAll A s cids rew).nballots = s.nballots := by
  have := (foldl_tstep_frame A cids rew s.ballots (s, [])).2; simpa [transferAll] using this

theorem nodup_cid_eq {l : List (Cand α)} (h : (l.map (·.cid)).Nodup) {a b : Cand α} (ha : a ∈ l) (hb : b ∈ l)
    (hab : a.cid = b.cid) : a = b := by
  induction l with
  | nil => simp at ha
  | cons x xs ih =>
    simp only [List.map_cons, List.nodup_cons, List.mem_map, not_exists, not_and] at h
    rcases List.mem_cons.mp ha with rfl | ha' <;> rcases List.mem_cons.mp hb with rfl | hb'
    · rfl
    · exact absurd hab.symm (h.1 b hb')
    · exact absurd hab (h.1 a ha')
    · exact ih h.2 ha' hb'

/-- under distinct ids, looking a member up by its id finds it -/
theorem voteOf_of_mem {s : St α} (hwf : s.WF) {c : Cand α} (hc : c ∈ s.cands) : s.voteOf c.cid = c.vote := by
  unfold St.voteOf St.cand?
  have hsome : (s.cands.find? (fun x => x.cid == c.cid)).isSome := by
    rw [List.find?_isSome]; exact ⟨c, hc, by simp⟩
  obtain ⟨x, hx⟩ := Option.isSome_iff_exists.1 hsome
  have hxm := List.mem_of_find?_eq_some hx
  have hxc : x.cid = c.cid := by have := List.find?_some hx; simpa using this
  have : x = c := nodup_cid_eq hwf hxm hc hxc
  rw [hx, this]

theorem mem_of_skel_eq {s t : St α} (h : t.skel = s.skel) {c' : Cand α} (hc' : c' ∈ t.cands) :
    ∃ c ∈ s.cands, c.skel = c'.skel := by
  have : c'.skel ∈ t.skel := List.mem_map.2 ⟨c', hc', rfl⟩
  rw [h] at this
  obtain ⟨c, hc, hsk⟩ := List.mem_map.1 this
  exact ⟨c, hc, hsk⟩

theorem skel_cid {c c' : Cand α} (h : c.skel = c'.skel) : c.cid = c'.cid := by
  unfold Cand.skel at h; exact (Prod.mk.inj h).1
theorem skel_st {c c' : Cand α} (h : c.skel = c'.skel) : c.st = c'.st ∧ c.pending = c'.pending := by
  unfold Cand.skel at h
  simp only [Prod.mk.injEq] at h
  exact ⟨h.2.2.2.2.1, h.2.2.2.2.2⟩

theorem contrib_nonneg (hA : LawfulArith A) (s : St α) (cids : List Nat) (rew : α → α) (d : Nat) (b : Ballot α)
    (hw : 0 ≤ rew b.w) : 0 ≤ contrib A s cids rew d b := by
  unfold contrib
  split
  · split
    · split
      · rw [bvote_eq A hA]
        have hm : (0 : α) ≤ (((moveBallot s cids rew b).mult : Int) : α) := by exact_mod_cast Nat.zero_le _
        have hwm : (moveBallot s cids rew b).w = rew b.w := by
          unfold moveBallot
          rename_i c hc hcon _
          have hmem : c ∈ cids := by simpa using hcon
          simp [hc, hmem, advanceTo_w]
        rw [hwm]; exact mul_nonneg hw hm
      · exact le_refl 0
    · exact le_refl 0
  · exact le_refl 0

theorem sum_nonneg' {β : Type} (l : List β) (f : β → α) (h : ∀ x ∈ l, 0 ≤ f x) : 0 ≤ (l.map f).sum := by
  induction l with
  | nil => simp
  | cons x xs ih =>
    simp only [List.map_cons, List.sum_cons]
    exact add_nonneg (h x (by simp)) (ih (fun y hy => h y (by simp [hy])))

end Droop
