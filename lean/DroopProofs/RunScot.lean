import DroopProofs.RunCommon
import DroopProofs.InvScot

/-! # The Scottish rule at run level: termination, seats, forward-only record (C01, C09)

The same four passes that `SeatsWigm`, `TerminateRun`, `FinalCount2` and `MonotoneRun` make over the wigm driver, made
over `scotBody`: every elected candidate holds a quota (`ElectedHoldQuota`), the record is monotone (`Mon`), the
measure `mu` drops at every stage, and hopeful + elected never falls below the seats. -/
namespace Droop
variable {α : Type} [CommRing α] [LinearOrder α] [IsStrictOrderedRing α] (A : Arith α)

/-! ## the Scottish tie-break leaves everything but the log and the crash flag alone -/
theorem frame_scotBreakTie (s : St α) (tied : List (Cand α)) (lowest : Bool) (reason : String) :
    Frame s (scotBreakTie A s tied lowest reason).1 := by
  unfold scotBreakTie
  split
  · exact frame_setCrash s _
  · exact Frame.refl s
  · dsimp only
    split
    · exact frame_logAct A _ _ _ _
    · exact frame_logAct A _ _ _ _

theorem ext_scotBreakTie (s : St α) (tied : List (Cand α)) (lowest : Bool) (reason : String) :
    Ext s (scotBreakTie A s tied lowest reason).1 := by
  unfold scotBreakTie
  split
  · exact ext_setCrash s _
  · exact Ext.refl s
  · dsimp only
    split
    · exact ext_logAct A _ _ _ _
    · exact ext_logAct A _ _ _ _

theorem Mon.scotBreakTie {s : St α} (h : Mon s) (tied : List (Cand α)) (lowest : Bool) (reason : String) :
    Mon (Droop.scotBreakTie A s tied lowest reason).1 := by
  unfold Droop.scotBreakTie
  split
  · exact h.setCrash _
  · exact h
  · dsimp only
    split
    · exact h.logAct A _ _ _
    · exact h.logAct A _ _ _

theorem EHQ.scotBreakTie {s : St α} (h : ElectedHoldQuota s) (tied : List (Cand α)) (lowest : Bool) (reason : String) :
    ElectedHoldQuota (Droop.scotBreakTie A s tied lowest reason).1 := by
  obtain ⟨h1, _, _, h4, _⟩ := scotBreakTie_frame A s tied lowest reason
  exact EHQ.of_same h h1 h4

theorem mu_scotBreakTie (s : St α) (tied : List (Cand α)) (lowest : Bool) (reason : String) :
    mu (scotBreakTie A s tied lowest reason).1 = mu s := by
  apply mu_of_skel; unfold St.skel; rw [(scotBreakTie_frame A s tied lowest reason).1]

theorem sumHE_scotBreakTie (s : St α) (tied : List (Cand α)) (lowest : Bool) (reason : String) :
    sumHE (scotBreakTie A s tied lowest reason).1 = sumHE s := by
  apply sumHE_of_skel; unfold St.skel; rw [(scotBreakTie_frame A s tied lowest reason).1]

/-- the candidate a prior stage singles out is one of the tied candidates' ids -/
theorem scotPrior_cid (cids : List Nat) (lowest : Bool) (cn : List (Cand α)) (c : Cand α)
    (h : scotPrior A cids lowest cn = some c) : c.cid ∈ cids := by
  unfold scotPrior at h
  dsimp only at h
  split at h
  · cases h
  · split at h
    · rename_i x hx
      cases h
      have hm : c ∈ [c] := by simp
      rw [← hx] at hm
      have hm2 := (List.mem_filter.1 hm).1
      have hm3 := (mem_pySorted _ _ _ _).1 hm2
      have := (List.mem_filter.1 hm3).2
      simpa using this
    · cases h

/-- the Scottish tie-break answers with a candidate unless it raises the crash flag -/
theorem scotBreakTie_none_crash (s : St α) (tied : List (Cand α)) (lowest : Bool) (reason : String)
    (h : (scotBreakTie A s tied lowest reason).2 = none) :
    (scotBreakTie A s tied lowest reason).1.crash.isSome = true := by
  cases tied with
  | nil =>
    unfold scotBreakTie St.setCrash
    dsimp only
    split <;> simp_all
  | cons x xs =>
    cases xs with
    | nil => unfold scotBreakTie at h; simp at h
    | cons y ys =>
      exfalso
      unfold scotBreakTie at h
      dsimp only at h
      split at h
      · rename_i cn0 hcn0
        dsimp only at h
        obtain ⟨cn, _, hpr⟩ := List.exists_of_findSome?_eq_some hcn0
        have hcid := scotPrior_cid A _ _ _ _ hpr
        obtain ⟨t, ht, hte⟩ := List.mem_map.1 hcid
        have : ((x :: y :: ys).find? (·.cid == cn0.cid)).isSome = true := by
          rw [List.find?_isSome]
          exact ⟨t, ht, by simp [hte]⟩
        rw [h] at this; simp at this
      · dsimp only at h
        have hp := (pySorted_perm (fun a b : Cand α => a.tie < b.tie) false (x :: y :: ys)).length_eq
        unfold byTieOrder at h
        cases hb : pySorted (fun a b : Cand α => a.tie < b.tie) false (x :: y :: ys) with
        | nil => rw [hb] at hp; simp at hp
        | cons z zs => rw [hb] at h; simp at h

/-! ## the two stage actions, in cases -/
theorem scotSurplusStep_cases (s : St α) :
    (maxVoteOf A s.pendingL = none ∧ scotSurplusStep A s = s) ∨
    ∃ tied : List (Cand α), (∀ c ∈ tied, c ∈ s.pendingL) ∧
      (((scotBreakTie A s tied false "largest surplus").2 = none
          ∧ scotSurplusStep A s = (scotBreakTie A s tied false "largest surplus").1) ∨
       (∃ hc, (scotBreakTie A s tied false "largest surplus").2 = some hc
          ∧ scotSurplusStep A s = transferSurplus A
              ((scotBreakTie A s tied false "largest surplus").1.unpendLog A hc.cid "Transfer high surplus") hc
              (rewMuldivDown A) "Surplus transferred")) := by
  unfold scotSurplusStep
  cases hm : maxVoteOf A s.pendingL with
  | none => left; exact ⟨rfl, rfl⟩
  | some hv =>
    right
    refine ⟨s.pendingL.filter (fun c => A.eq c.vote hv), fun c hc => (List.mem_filter.1 hc).1, ?_⟩
    dsimp only
    cases hb : scotBreakTie A s (s.pendingL.filter (fun c => A.eq c.vote hv)) false "largest surplus" with
    | mk s1 oc =>
      cases oc with
      | none => left; exact ⟨rfl, rfl⟩
      | some hc => right; exact ⟨hc, rfl, rfl⟩

theorem scotDefeatStep_cases (s : St α) :
    (minVoteOf A s.hopeful = none ∧ scotDefeatStep A s = s) ∨
    ∃ tied : List (Cand α), (∀ c ∈ tied, c ∈ s.hopeful) ∧
      (((scotBreakTie A s tied true "defeat low candidate").2 = none
          ∧ scotDefeatStep A s = (scotBreakTie A s tied true "defeat low candidate").1) ∨
       (∃ lc, (scotBreakTie A s tied true "defeat low candidate").2 = some lc
          ∧ scotDefeatStep A s = transferDefeated A
              ((scotBreakTie A s tied true "defeat low candidate").1.defeat A lc.cid "Defeat low candidate") [lc.cid]
              "Transfer defeated")) := by
  unfold scotDefeatStep
  cases hm : minVoteOf A s.hopeful with
  | none => left; exact ⟨rfl, rfl⟩
  | some lv =>
    right
    refine ⟨s.hopeful.filter (fun c => A.eq c.vote lv), fun c hc => (List.mem_filter.1 hc).1, ?_⟩
    dsimp only
    cases hb : scotBreakTie A s (s.hopeful.filter (fun c => A.eq c.vote lv)) true "defeat low candidate" with
    | mk s1 oc =>
      cases oc with
      | none => left; exact ⟨rfl, rfl⟩
      | some lc => right; exact ⟨lc, rfl, rfl⟩

/-- what the passes below need to know about the state after the tie-break -/
theorem scotBreakTie_picked {s : St α} (hI : Inv A s) (tied : List (Cand α)) (lowest : Bool) (reason : String) (c : Cand α)
    (h : (scotBreakTie A s tied lowest reason).2 = some c) (hsub : ∀ x ∈ tied, x ∈ s.cands) :
    c ∈ tied ∧ c ∈ (scotBreakTie A s tied lowest reason).1.cands
    ∧ ∀ c' ∈ (scotBreakTie A s tied lowest reason).1.cands, c'.cid = c.cid → c' = c := by
  have hm := scotBreakTie_mem A s tied lowest reason c h
  have e1 := (scotBreakTie_frame A s tied lowest reason).1
  have hc1 : c ∈ (scotBreakTie A s tied lowest reason).1.cands := by rw [e1]; exact hsub c hm
  exact ⟨hm, hc1, fun c' hc' hcid => nodup_cid_eq (hI.scotBreakTie A tied lowest reason).wf hc' hc1 hcid⟩

/-! ## every elected candidate holds a quota -/
theorem InvE.scotSurplusStep (hA : LawfulArith A) {s : St α} (h : InvE A s) : InvE A (Droop.scotSurplusStep A s) := by
  refine ⟨h.1.scotSurplusStep A hA, ?_⟩
  rcases scotSurplusStep_cases A s with ⟨_, e⟩ | ⟨tied, hsub, ⟨_, e⟩ | ⟨hc, hb, e⟩⟩
  · rw [e]; exact h.2
  · rw [e]; exact EHQ.scotBreakTie A h.2 _ _ _
  · rw [e]
    have hI1 := h.1.scotBreakTie A tied false "largest surplus"
    have hE1 := EHQ.scotBreakTie A h.2 tied false "largest surplus"
    obtain ⟨hcs, hce, hcp⟩ := mem_pendingL.1 (hsub hc (scotBreakTie_mem A s tied false _ hc hb))
    have e4 := (scotBreakTie_frame A s tied false "largest surplus").2.2.2.1
    have hq : ((scotBreakTie A s tied false "largest surplus").1.unpendLog A hc.cid "Transfer high surplus").quota ≤ hc.vote := by
      unfold St.unpendLog; rw [logAct_quota]
      show (scotBreakTie A s tied false "largest surplus").1.quota ≤ _
      rw [e4]
      exact h.1.pq hc hcs hce hcp
    exact EHQ.transferSurplus A hA (rewMuldivDown A) (rewMuldivDown_law A hA) (hI1.unpendLog A hc.cid _)
      (EHQ.unpendLog A hE1 hc.cid _) hc _ hq

theorem InvE.scotDefeatStep (hA : LawfulArith A) {s : St α} (h : InvE A s) : InvE A (Droop.scotDefeatStep A s) := by
  refine ⟨h.1.scotDefeatStep A hA, ?_⟩
  rcases scotDefeatStep_cases A s with ⟨_, e⟩ | ⟨tied, hsub, ⟨_, e⟩ | ⟨lc, hb, e⟩⟩
  · rw [e]; exact h.2
  · rw [e]; exact EHQ.scotBreakTie A h.2 _ _ _
  · rw [e]
    have hI1 := h.1.scotBreakTie A tied true "defeat low candidate"
    have hE1 := EHQ.scotBreakTie A h.2 tied true "defeat low candidate"
    obtain ⟨_, hcs1, _⟩ := scotBreakTie_picked A h.1 tied true _ lc hb (fun x hx => (mem_hopeful.1 (hsub x hx)).1)
    let x : Cand α := { lc with st := .defeated }
    have hx : x ∈ ((scotBreakTie A s tied true "defeat low candidate").1.defeat A lc.cid "Defeat low candidate").cands := by
      unfold St.defeat; rw [logAct_cands]
      exact mem_upd_of_eq (f := fun c => { c with st := .defeated }) hcs1 rfl
    exact EHQ.transferDefeated1 A hA (hI1.defeat A lc.cid _) (EHQ.defeat A hE1 lc.cid _) x _ hx (by simp [x])

/-! ## the record only moves forward -/
theorem InvM.scotSurplusStep (hA : LawfulArith A) {s : St α} (h : InvM A s) : InvM A (Droop.scotSurplusStep A s) := by
  refine ⟨h.1.scotSurplusStep A hA, ?_⟩
  rcases scotSurplusStep_cases A s with ⟨_, e⟩ | ⟨tied, hsub, ⟨_, e⟩ | ⟨hc, hb, e⟩⟩
  · rw [e]; exact h.2
  · rw [e]; exact h.2.scotBreakTie A _ _ _
  · rw [e]
    obtain ⟨hm, _, huniq⟩ := scotBreakTie_picked A h.1 tied false _ hc hb (fun x hx => (mem_pendingL.1 (hsub x hx)).1)
    obtain ⟨_, hce, _⟩ := mem_pendingL.1 (hsub hc hm)
    apply Mon.transferSurplus
    apply (h.2.scotBreakTie A tied false "largest surplus").unpendLog A
    intro c hc' hcid
    rw [huniq c hc' hcid]; exact hce

theorem InvM.scotDefeatStep (hA : LawfulArith A) {s : St α} (h : InvM A s) : InvM A (Droop.scotDefeatStep A s) := by
  refine ⟨h.1.scotDefeatStep A hA, ?_⟩
  rcases scotDefeatStep_cases A s with ⟨_, e⟩ | ⟨tied, hsub, ⟨_, e⟩ | ⟨lc, hb, e⟩⟩
  · rw [e]; exact h.2
  · rw [e]; exact h.2.scotBreakTie A _ _ _
  · rw [e]
    obtain ⟨hm, _, huniq⟩ := scotBreakTie_picked A h.1 tied true _ lc hb (fun x hx => (mem_hopeful.1 (hsub x hx)).1)
    obtain ⟨_, hch⟩ := mem_hopeful.1 (hsub lc hm)
    apply Mon.transferDefeated
    apply (h.2.scotBreakTie A tied true "defeat low candidate").defeat A
    intro c hc' hcid
    rw [huniq c hc' hcid]; exact hch

/-! ## frame, append-only log -/
theorem frame_scotSurplusStep (s : St α) : Frame s (scotSurplusStep A s) := by
  rcases scotSurplusStep_cases A s with ⟨_, e⟩ | ⟨tied, _, ⟨_, e⟩ | ⟨hc, _, e⟩⟩
  · rw [e]; exact Frame.refl s
  · rw [e]; exact frame_scotBreakTie A _ _ _ _
  · rw [e]
    exact (frame_scotBreakTie A _ _ _ _).trans ((frame_unpendLog A _ _ _).trans (frame_transferSurplus A _ _ _ _))

theorem frame_scotDefeatStep (s : St α) : Frame s (scotDefeatStep A s) := by
  rcases scotDefeatStep_cases A s with ⟨_, e⟩ | ⟨tied, _, ⟨_, e⟩ | ⟨lc, _, e⟩⟩
  · rw [e]; exact Frame.refl s
  · rw [e]; exact frame_scotBreakTie A _ _ _ _
  · rw [e]
    exact (frame_scotBreakTie A _ _ _ _).trans ((frame_defeat A _ _ _).trans (frame_transferDefeated A _ _ _))

theorem ext_scotSurplusStep (s : St α) : Ext s (scotSurplusStep A s) := by
  rcases scotSurplusStep_cases A s with ⟨_, e⟩ | ⟨tied, _, ⟨_, e⟩ | ⟨hc, _, e⟩⟩
  · rw [e]; exact Ext.refl s
  · rw [e]; exact ext_scotBreakTie A _ _ _ _
  · rw [e]
    exact (ext_scotBreakTie A _ _ _ _).trans ((ext_unpendLog A _ _ _).trans (ext_transferSurplus A _ _ _ _))

theorem ext_scotDefeatStep (s : St α) : Ext s (scotDefeatStep A s) := by
  rcases scotDefeatStep_cases A s with ⟨_, e⟩ | ⟨tied, _, ⟨_, e⟩ | ⟨lc, _, e⟩⟩
  · rw [e]; exact Ext.refl s
  · rw [e]; exact ext_scotBreakTie A _ _ _ _
  · rw [e]
    exact (ext_scotBreakTie A _ _ _ _).trans ((ext_defeat A _ _ _).trans (ext_transferDefeated A _ _ _))

/-! ## progress and the candidate counts -/
theorem scotSurplusStep_progress {s : St α} (hI : Inv A s) (hp : s.pendingL ≠ []) :
    mu (scotSurplusStep A s) < mu s ∨ (scotSurplusStep A s).crash.isSome = true := by
  rcases scotSurplusStep_cases A s with ⟨hn, _⟩ | ⟨tied, hsub, ⟨hb, e⟩ | ⟨hc, hb, e⟩⟩
  · obtain ⟨v, hv⟩ := maxVoteOf_isSome A s.pendingL hp
    rw [hv] at hn; cases hn
  · right; rw [e]; exact scotBreakTie_none_crash A _ _ _ _ hb
  · left; rw [e, mu_transferSurplus, ← mu_scotBreakTie A s tied false "largest surplus"]
    obtain ⟨hm, hcs1, _⟩ := scotBreakTie_picked A hI tied false _ hc hb (fun x hx => (mem_pendingL.1 (hsub x hx)).1)
    obtain ⟨_, hce, hcp⟩ := mem_pendingL.1 (hsub hc hm)
    exact mu_unpendLog_lt A _ hc _ (hI.scotBreakTie A tied false _).wf hcs1 hce hcp

theorem scotDefeatStep_progress {s : St α} (hI : Inv A s) (hh : s.hopeful ≠ []) :
    mu (scotDefeatStep A s) < mu s ∨ (scotDefeatStep A s).crash.isSome = true := by
  rcases scotDefeatStep_cases A s with ⟨hn, _⟩ | ⟨tied, hsub, ⟨hb, e⟩ | ⟨lc, hb, e⟩⟩
  · obtain ⟨v, hv⟩ := minVoteOf_isSome A s.hopeful hh
    rw [hv] at hn; cases hn
  · right; rw [e]; exact scotBreakTie_none_crash A _ _ _ _ hb
  · left; rw [e, mu_transferDefeated, ← mu_scotBreakTie A s tied true "defeat low candidate"]
    obtain ⟨hm, hcs1, _⟩ := scotBreakTie_picked A hI tied true _ lc hb (fun x hx => (mem_hopeful.1 (hsub x hx)).1)
    obtain ⟨_, hch⟩ := mem_hopeful.1 (hsub lc hm)
    exact mu_defeat_lt A _ lc _ (hI.scotBreakTie A tied true _).wf hcs1 hch

theorem sumHE_scotSurplusStep (s : St α) : sumHE (scotSurplusStep A s) = sumHE s := by
  rcases scotSurplusStep_cases A s with ⟨_, e⟩ | ⟨tied, _, ⟨_, e⟩ | ⟨hc, _, e⟩⟩
  · rw [e]
  · rw [e]; exact sumHE_scotBreakTie A _ _ _ _
  · rw [e, sumHE_transferSurplus, ← sumHE_scotBreakTie A s tied false "largest surplus"]
    have := counts_unpendLog A (scotBreakTie A s tied false "largest surplus").1 hc.cid "Transfer high surplus"
    unfold sumHE; omega

theorem sumHE_scotDefeatStep {s : St α} (hI : Inv A s) : sumHE s ≤ sumHE (scotDefeatStep A s) + 1 := by
  rcases scotDefeatStep_cases A s with ⟨_, e⟩ | ⟨tied, hsub, ⟨_, e⟩ | ⟨lc, hb, e⟩⟩
  · rw [e]; omega
  · rw [e, sumHE_scotBreakTie]; omega
  · rw [e, sumHE_transferDefeated, ← sumHE_scotBreakTie A s tied true "defeat low candidate"]
    obtain ⟨hm, hcs1, _⟩ := scotBreakTie_picked A hI tied true _ lc hb (fun x hx => (mem_hopeful.1 (hsub x hx)).1)
    obtain ⟨_, hch⟩ := mem_hopeful.1 (hsub lc hm)
    have := counts_defeat A _ lc "Defeat low candidate" (hI.scotBreakTie A tied true _).wf hcs1 hch
    unfold sumHE; omega

/-! ## the election step -/
theorem electWinners_list (hasQ : St α → Cand α → Bool) {s : St α} (hwf : s.WF)
    (hsound : ∀ c, hasQ s c = true → s.quota ≤ c.vote) :
    (((byVote A true s.hopeful).filter (hasQ s)).map (·.cid)).Nodup
    ∧ ∀ w ∈ (byVote A true s.hopeful).filter (hasQ s), w ∈ s.cands ∧ w.st = .hopeful ∧ s.quota ≤ w.vote := by
  refine ⟨?_, ?_⟩
  · have hp : ((byVote A true s.hopeful).map (·.cid)).Perm (s.hopeful.map (·.cid)) := (pySorted_perm _ _ _).map _
    have hnd : ((byVote A true s.hopeful).map (·.cid)).Nodup := hp.nodup_iff.2 (hopeful_cids_nodup hwf)
    exact List.Nodup.sublist (List.Sublist.map _ List.filter_sublist) hnd
  · intro w hw
    rw [List.mem_filter] at hw
    have hm : w ∈ s.hopeful := (mem_pySorted _ _ _ _).1 hw.1
    obtain ⟨hc, hh⟩ := mem_hopeful.1 hm
    exact ⟨hc, hh, hsound w hw.2⟩

theorem InvM.electWinners {s : St α} (h : InvM A s) (hasQ : St α → Cand α → Bool) (pend : St α → Cand α → Bool)
    (verb : St α → Cand α → String) (hsound : ∀ c, hasQ s c = true → s.quota ≤ c.vote) :
    InvM A (Droop.electWinners A hasQ pend verb s) := by
  unfold Droop.electWinners
  obtain ⟨hnd, hw⟩ := electWinners_list A hasQ h.1.wf hsound
  exact h.foldElect A _ (verb s) (pend s) hnd (fun w hw' => ⟨(hw w hw').1, (hw w hw').2.1, fun _ => (hw w hw').2.2⟩)

theorem sumHE_electWinners {s : St α} (hI : Inv A s) (hasQ : St α → Cand α → Bool) (pend : St α → Cand α → Bool)
    (verb : St α → Cand α → String) (hsound : ∀ c, hasQ s c = true → s.quota ≤ c.vote) :
    sumHE (electWinners A hasQ pend verb s) = sumHE s := by
  unfold electWinners
  obtain ⟨hnd, hw⟩ := electWinners_list A hasQ hI.wf hsound
  exact sumHE_foldElect A hI _ (verb s) (pend s) hnd (fun w hw' => ⟨(hw w hw').1, (hw w hw').2.1, fun _ => (hw w hw').2.2⟩)

/-! ## one round of the Scottish driver -/

/-- loop invariant of the Scottish driver -/
def ScotInv (s : St α) : Prop := InvE A s ∧ Mon s ∧ DroopQuota A s ∧ s.seats ≤ sumHE s

theorem scot_not_complete {s : St α} (h : scotCountComplete s = false) : s.seats < sumHE s ∧ 0 < nHop s := by
  unfold scotCountComplete St.seatsLeft at h
  simp only [Bool.or_eq_false_iff, decide_eq_false_iff_not, not_le] at h
  unfold sumHE nHop nEl
  omega

theorem scotFinish_fst (s : St α) : (scotFinish s).1 = s := by unfold scotFinish; split <;> rfl
theorem scotFinish_brk (s : St α) (h : (scotFinish s).2 = .brk) : scotCountComplete s = true := by
  unfold scotFinish at h; split at h
  · assumption
  · cases h

theorem scotBody_spec (hA : LawfulArith A) (hex : A.exact = false) {s : St α} (h : ScotInv A s) :
    ScotInv A (scotBody A s).1 ∧ Frame s (scotBody A s).1 ∧ Ext s (scotBody A s).1
    ∧ ((scotBody A s).2 = .cont → mu (scotBody A s).1 < mu s ∨ (scotBody A s).1.crash.isSome = true)
    ∧ ((scotBody A s).2 = .brk → scotCountComplete (scotBody A s).1 = true) := by
  obtain ⟨hIE, hM, hD, hJ⟩ := h
  have hsound : ∀ c, hasQuotaGE A s c = true → s.quota ≤ c.vote := fun c hc => hasQuotaGE_sound A hA hex s c hc
  -- the election step
  have hIE1 : InvE A (scotElect A s) := by unfold scotElect; exact hIE.electWinners A _ _ _ hsound
  have hM1 : Mon (scotElect A s) := by
    unfold scotElect; exact (InvM.electWinners A ⟨hIE.1, hM⟩ _ _ _ hsound).2
  have hF1 : Frame s (scotElect A s) := by unfold scotElect; exact frame_electWinners A _ _ _ s
  have hX1 : Ext s (scotElect A s) := by unfold scotElect; exact ext_electWinners A _ _ _ s
  have hmu1 : mu (scotElect A s) ≤ mu s := by unfold scotElect; exact mu_electWinners_le A hIE.1 _ _ _ hsound
  have hS1 : sumHE (scotElect A s) = sumHE s := by unfold scotElect; exact sumHE_electWinners A hIE.1 _ _ _ hsound
  have hD1 : DroopQuota A (scotElect A s) := hD.of_frame A hF1
  unfold scotBody
  by_cases hcomp : scotCountComplete (scotElect A s) = true
  · rw [if_pos hcomp]
    refine ⟨⟨hIE1, hM1, hD1, ?_⟩, hF1, hX1, ?_, fun _ => hcomp⟩
    · show (scotElect A s).seats ≤ sumHE (scotElect A s)
      rw [hS1, hF1.2.1]; exact hJ
    · intro hc; cases hc
  · have hcomp' : scotCountComplete (scotElect A s) = false := by simpa using hcomp
    simp only [hcomp', Bool.false_eq_true, if_false]
    obtain ⟨hgt, _⟩ := scot_not_complete hcomp'
    -- the new round
    set s2 := scotRound A (scotElect A s) with hs2
    have hIE2 : InvE A s2 := by
      rw [hs2]; unfold scotRound
      exact ⟨(hIE1.1.newRound A).setSurplus A _, EHQ.setSurplus (EHQ.newRound A hIE1.2) _⟩
    have hM2 : Mon s2 := by rw [hs2]; unfold scotRound; exact (hM1.newRound A).setSurplus _
    have hF2 : Frame s s2 := by
      rw [hs2]; unfold scotRound; exact hF1.trans ((frame_newRound A _).trans (frame_setSurplus _ _))
    have hX2 : Ext s s2 := by
      rw [hs2]; unfold scotRound; exact hX1.trans ((ext_newRound A _).trans (ext_setSurplus _ _))
    have hmu2 : mu s2 ≤ mu s := by
      rw [hs2]; unfold scotRound; rw [mu_setSurplus, mu_newRound]; exact hmu1
    have hS2 : sumHE s2 = sumHE s := by
      rw [hs2]; unfold scotRound; rw [sumHE_setSurplus, sumHE_newRound]; exact hS1
    have hD2 : DroopQuota A s2 := hD.of_frame A hF2
    have hseats2 : s2.seats = s.seats := hF2.2.1
    have hgt2 : s2.seats < sumHE s2 := by rw [hS2, hseats2, ← hS1, ← hF1.2.1]; exact hgt
    have hel2 : nEl s2 ≤ s2.seats := elected_le_seats A hIE2.1 hIE2.2 hD2
    unfold scotStage
    by_cases hp : s2.pendingL.isEmpty = false
    · -- a surplus is transferred
      simp only [hp, Bool.not_false, if_true]
      have hp' : s2.pendingL ≠ [] := by intro e; rw [e] at hp; simp at hp
      refine ⟨⟨hIE2.scotSurplusStep A hA, (InvM.scotSurplusStep A hA ⟨hIE2.1, hM2⟩).2,
        hD2.of_frame A (frame_scotSurplusStep A s2), ?_⟩, hF2.trans (frame_scotSurplusStep A s2),
        hX2.trans (ext_scotSurplusStep A s2), ?_, fun hc => by cases hc⟩
      · rw [sumHE_scotSurplusStep, (frame_scotSurplusStep A s2).2.1]; omega
      · intro _
        rcases scotSurplusStep_progress A hIE2.1 hp' with hlt | hcr
        · left; omega
        · right; exact hcr
    · have hp' : s2.pendingL.isEmpty = true := by simpa using hp
      simp only [hp', Bool.not_true, Bool.false_eq_true, if_false]
      have hhne : s2.hopeful ≠ [] := by
        intro e
        have : nHop s2 = 0 := by unfold nHop; rw [e]; rfl
        unfold sumHE at hgt2; omega
      have hh : s2.hopeful.isEmpty = false := by
        cases hl : s2.hopeful with
        | nil => exact absurd hl hhne
        | cons x xs => rfl
      simp only [hh, Bool.not_false, if_true]
      rw [scotFinish_fst]
      have hFd := frame_scotDefeatStep A s2
      refine ⟨⟨hIE2.scotDefeatStep A hA, (InvM.scotDefeatStep A hA ⟨hIE2.1, hM2⟩).2, hD2.of_frame A hFd, ?_⟩,
        hF2.trans hFd, hX2.trans (ext_scotDefeatStep A s2), ?_, scotFinish_brk _⟩
      · have := sumHE_scotDefeatStep A hIE2.1
        rw [hFd.2.1]; omega
      · intro _
        rcases scotDefeatStep_progress A hIE2.1 hhne with hlt | hcr
        · left; omega
        · right; exact hcr

/-! ## the whole count -/
theorem scotInit_skel (s0 : St α) : (scotInit A s0).skel = s0.skel := by
  unfold scotInit St.skel; rw [logAct_cands]
  show ((firstCount A (s0.setQuota _)).setExhausted A.zero).skel = _
  rw [firstCount_eq]
  exact (foldl_fcStep_skel A _ _)

theorem fcStep_seats (s : St α) (b : Ballot α) : (fcStep A s b).seats = s.seats := by
  unfold fcStep; split <;> rfl

theorem foldl_fcStep_seats (bs : List (Ballot α)) (s : St α) : (bs.foldl (fcStep A) s).seats = s.seats := by
  induction bs generalizing s with
  | nil => rfl
  | cons b bs ih => simp only [List.foldl_cons]; rw [ih, fcStep_seats]

theorem scotInit_frame (s0 : St α) :
    (scotInit A s0).nballots = s0.nballots ∧ (scotInit A s0).seats = s0.seats
    ∧ (scotInit A s0).quota = A.ofInt (pdiv s0.nballots (s0.seats + 1) + 1) := by
  unfold scotInit
  rw [logAct_seats, logAct_quota, (logAct_frame A _ _ _ _).2.2.2.2]
  show (firstCount A _).nballots = _ ∧ (firstCount A _).seats = _ ∧ (firstCount A _).quota = _
  rw [firstCount_eq]
  obtain ⟨_, _, f3, f4, _, _⟩ := foldl_fcStep_frame A (s0.setQuota (A.ofInt (pdiv s0.nballots (s0.seats + 1) + 1))).ballots
    (s0.setQuota (A.ofInt (pdiv s0.nballots (s0.seats + 1) + 1)))
  exact ⟨f4, foldl_fcStep_seats A _ _, f3⟩

theorem scotInit_acts (s0 : St α) (h : s0.acts = []) :
    Mon (scotInit A s0) := by
  unfold scotInit
  apply Mon.logAct
  apply Mon.of_noActs
  show (firstCount A _).acts = []
  rw [firstCount_acts]; exact h

/-- what the Scottish rule is handed: `Init`, nobody elected yet, at least as many candidates standing as seats -/
structure ScotStart (s0 : St α) : Prop where
  init : Init A s0
  quota_pos : 0 < A.ofInt (pdiv s0.nballots (s0.seats + 1) + 1)
  fresh : ∀ c ∈ s0.cands, c.st ≠ .elected
  enough : s0.seats ≤ nHop s0

theorem integer_droopQuota (hA : LawfulArith A) (n seats : Nat) :
    ((n : Int) : α) * A.one < ((seats + 1 : Nat) : α) * A.ofInt (pdiv n (seats + 1) + 1) := by
  rw [hA.ofInt_eq]
  have hk : (0 : Int) < ((seats + 1 : Nat) : Int) := by exact_mod_cast Nat.succ_pos seats
  have hlt : (n : Int) < ((seats + 1 : Nat) : Int) * (pdiv n (seats + 1) + 1) := by
    unfold pdiv
    rw [Int.fdiv_eq_ediv_of_nonneg _ (le_of_lt (by exact_mod_cast Nat.succ_pos seats))]
    have := Int.lt_ediv_add_one_mul_self (n : Int) hk
    push_cast at this ⊢
    linarith
  have hcast : ((n : Int) : α) < (((seats + 1 : Nat) : Int) : α) * ((pdiv n (seats + 1) + 1 : Int) : α) := by
    rw [← Int.cast_mul]; exact Int.cast_lt.2 hlt
  have h1 := hA.one_pos
  have : ((n : Int) : α) * A.one < ((((seats + 1 : Nat) : Int) : α) * ((pdiv n (seats + 1) + 1 : Int) : α)) * A.one :=
    mul_lt_mul_of_pos_right hcast h1
  calc ((n : Int) : α) * A.one < _ := this
    _ = ((seats + 1 : Nat) : α) * (((pdiv n (seats + 1) + 1 : Int) : α) * A.one) := by push_cast; ring

theorem ScotStart.inv (hA : LawfulArith A) {s0 : St α} (h : ScotStart A s0) : ScotInv A (scotInit A s0) := by
  have hsk := scotInit_skel A s0
  have hI := Inv.scotInit A hA h.init h.quota_pos
  refine ⟨⟨hI, ?_⟩, scotInit_acts A s0 h.init.noActs, ?_, ?_⟩
  · apply EHQ.of_noElected
    intro c hc
    obtain ⟨c0, hc0, hcs⟩ := mem_of_skel_eq hsk hc
    rw [← (skel_st hcs).1]; exact h.fresh c0 hc0
  · unfold DroopQuota
    obtain ⟨e1, e2, e3⟩ := scotInit_frame A s0
    rw [e1, e2, e3]
    exact integer_droopQuota A hA s0.nballots s0.seats
  · rw [(scotInit_frame A s0).2.1, sumHE_of_skel hsk]; unfold sumHE; have := h.enough; omega

/-- **C01 (termination), Scottish rule**: for every input satisfying `ScotStart` and every lawful inexact arithmetic the
    count returns — the fuelled loop of the model never runs out of fuel. -/
theorem scotCount_terminates (hA : LawfulArith A) (hex : A.exact = false) (s0 : St α) (h0 : ScotStart A s0) :
    ∃ t, scotCount A s0 = some t := by
  have hinit := h0.inv A hA
  have hfuel : mu (scotInit A s0) + 2 ≤ 2 * s0.cands.length + 3 := by
    have := mu_le_two_mul (scotInit A s0)
    have hl := congrArg List.length (scotInit_skel A s0)
    unfold St.skel at hl; simp only [List.length_map] at hl
    omega
  obtain ⟨t, ht⟩ := loopN_total' (ScotInv A) (fun _ => true) (scotBody A)
    (fun s hs _ => (scotBody_spec A hA hex hs).1)
    (fun s hs _ hc => (scotBody_spec A hA hex hs).2.2.2.1 hc)
    (2 * s0.cands.length + 3) (scotInit A s0) hinit (by omega) (Or.inr hfuel)
  exact ⟨scotEpilogue A t, by unfold scotCount; rw [ht]⟩

/-- the Scottish epilogue: pending flags dropped, then every remaining hopeful candidate elected (if they all fit) or
    defeated -/
theorem scotEpilogue_spec {s : St α} (hg : Good A s) :
    Good A (scotEpilogue A s) ∧ Ext s (scotEpilogue A s) ∧ (scotEpilogue A s).crash = s.crash
    ∧ (scotEpilogue A s).seats = s.seats ∧ nHop (scotEpilogue A s) = 0
    ∧ (scotCountComplete s = true → nEl s ≤ s.seats → s.seats ≤ sumHE s → nEl (scotEpilogue A s) = s.seats) := by
  have hg5 := hg.foldUnpend A
  obtain ⟨u1, u2, u3⟩ := counts_foldUnpend s.pendingL s
  have hx5 : Ext s (s.pendingL.foldl (fun acc c => acc.unpendSilent c.cid) s) :=
    ext_foldl (fun (acc : St α) (c : Cand α) => acc.unpendSilent c.cid) (fun t c => ext_unpendSilent t c.cid) _ _
  have hc5 := crash_foldUnpend s.pendingL s
  unfold scotEpilogue
  dsimp only
  generalize s.pendingL.foldl (fun acc c => acc.unpendSilent c.cid) s = s5 at *
  by_cases hfit : ((s5.hopeful.length : Int) ≤ s5.seatsLeft)
  · simp only [hfit, decide_true, if_true]
    obtain ⟨hg6, a6, b6, f6, x6, c6, _⟩ := foldElectAll A hg5 s5.hopeful "Elect remaining candidates"
      (hopeful_cids_nodup hg5.1.wf) (fun w hw => mem_hopeful.1 hw)
    generalize s5.hopeful.foldl (fun acc c => acc.elect A c.cid "Elect remaining candidates" false) s5 = s6 at *
    obtain ⟨hg7, a7, b7, f7, x7, c7, _⟩ := foldDefeatAll A hg6 s6.hopeful "Defeat remaining candidates"
      (hopeful_cids_nodup hg6.1.wf) (fun w hw => mem_hopeful.1 hw)
    refine ⟨hg7, hx5.trans (x6.trans x7), by rw [c7, c6, hc5], by rw [f7.2.1, f6.2.1, u3], ?_, ?_⟩
    · unfold nHop at a7 ⊢; omega
    · intro _ hle hge
      unfold St.seatsLeft at hfit
      unfold sumHE at hge
      unfold nHop nEl at *
      omega
  · simp only [hfit, decide_false, Bool.false_eq_true, if_false]
    obtain ⟨hg7, a7, b7, f7, x7, c7, _⟩ := foldDefeatAll A hg5 s5.hopeful "Defeat remaining candidates"
      (hopeful_cids_nodup hg5.1.wf) (fun w hw => mem_hopeful.1 hw)
    refine ⟨hg7, hx5.trans x7, by rw [c7, hc5], by rw [f7.2.1, u3], ?_, ?_⟩
    · unfold nHop at a7 ⊢; omega
    · intro hcomp hle hge
      unfold scotCountComplete at hcomp
      simp only [Bool.or_eq_true, decide_eq_true_eq] at hcomp
      unfold St.seatsLeft at hfit hcomp
      unfold sumHE at hge
      unfold nHop nEl at *
      omega

theorem ext_scotBody (s : St α) : Ext s (scotBody A s).1 := by
  have hX1 : Ext s (scotElect A s) := by unfold scotElect; exact ext_electWinners A _ _ _ s
  unfold scotBody
  split
  · exact hX1
  · have hX2 : Ext s (scotRound A (scotElect A s)) := by
      unfold scotRound; exact hX1.trans ((ext_newRound A _).trans (ext_setSurplus _ _))
    unfold scotStage
    split
    · exact hX2.trans (ext_scotSurplusStep A _)
    · split
      · rw [scotFinish_fst]; exact hX2.trans (ext_scotDefeatStep A _)
      · rw [scotFinish_fst]; exact hX2

/-- the facts about the state the Scottish main loop stops in -/
theorem scot_loop_exit (hA : LawfulArith A) (hex : A.exact = false) (s0 s4 : St α) (h0 : ScotStart A s0)
    (hl : loopN (fun _ => true) (scotBody A) (2 * s0.cands.length + 3) (scotInit A s0) = some s4) :
    ScotInv A s4 ∧ Ext (scotInit A s0) s4 ∧ (s4.crash = none → scotCountComplete s4 = true) := by
  have hinit := h0.inv A hA
  have hP := loopN_preserves (ScotInv A) (fun _ => true) (scotBody A)
    (fun s hs => (scotBody_spec A hA hex hs).1) _ _ _ hinit hl
  have hX := ext_loopN (fun _ => true) (scotBody A) (ext_scotBody A) _ _ _ hl
  refine ⟨hP, hX, ?_⟩
  intro hcr
  rcases loopN_exit (ScotInv A) (fun _ => true) (scotBody A) (fun s hs _ => (scotBody_spec A hA hex hs).1)
    _ _ _ hinit hl with h | h | ⟨s', hs', _, hb⟩
  · rw [hcr] at h; simp at h
  · simp at h
  · have := (scotBody_spec A hA hex hs').2.2.2.2
    rw [hb] at this
    exact this rfl

/-- **C01, Scottish rule**: the count returns; unless the crash flag is up, exactly `seats` candidates are elected and
    nobody is left hopeful — every candidate who is not withdrawn is elected or defeated. -/
theorem scot_seats_filled (hA : LawfulArith A) (hex : A.exact = false) (s0 : St α) (h0 : ScotStart A s0) :
    ∃ t, scotCount A s0 = some t ∧ (t.crash = none → nEl t = t.seats ∧ nHop t = 0) := by
  obtain ⟨t, ht⟩ := scotCount_terminates A hA hex s0 h0
  refine ⟨t, ht, ?_⟩
  intro hcr
  unfold scotCount at ht
  cases hl : loopN (fun _ => true) (scotBody A) (2 * s0.cands.length + 3) (scotInit A s0) with
  | none => rw [hl] at ht; cases ht
  | some s4 =>
    rw [hl] at ht; cases ht
    obtain ⟨⟨hIE, hM, hD, hJ⟩, _, hcomp⟩ := scot_loop_exit A hA hex s0 s4 h0 hl
    obtain ⟨_, _, e3, e4, e5, e6⟩ := scotEpilogue_spec A (s := s4) ⟨hIE.1, hM⟩
    rw [e3] at hcr
    exact ⟨by rw [e4]; exact e6 (hcomp hcr) (elected_le_seats A hIE.1 hIE.2 hD) hJ, e5⟩

/-- **C09, Scottish rule**: in the record of the whole count — main loop and epilogue — statuses only move forward, and
    when the main loop stops the elected do not exceed the seats. -/
theorem scot_record_monotone (hA : LawfulArith A) (hex : A.exact = false) (s0 t : St α) (h0 : ScotStart A s0)
    (h : scotCount A s0 = some t) : Mon t ∧ Ext s0 t := by
  unfold scotCount at h
  cases hl : loopN (fun _ => true) (scotBody A) (2 * s0.cands.length + 3) (scotInit A s0) with
  | none => rw [hl] at h; cases h
  | some s4 =>
    rw [hl] at h; cases h
    obtain ⟨⟨hIE, hM, _, _⟩, hX, _⟩ := scot_loop_exit A hA hex s0 s4 h0 hl
    obtain ⟨hg, hx, _⟩ := scotEpilogue_spec A (s := s4) ⟨hIE.1, hM⟩
    refine ⟨hg.2, Ext.trans ?_ (hX.trans hx)⟩
    unfold scotInit
    refine Ext.trans (Ext.of_acts_eq ?_) (ext_logAct A _ _ _ _)
    show (firstCount A _).acts = _
    rw [firstCount_acts]; rfl

theorem scot_loop_elected_le_seats (hA : LawfulArith A) (hex : A.exact = false) (s0 s4 : St α) (h0 : ScotStart A s0)
    (hl : loopN (fun _ => true) (scotBody A) (2 * s0.cands.length + 3) (scotInit A s0) = some s4) :
    s4.elected.length ≤ s4.seats := by
  obtain ⟨⟨hIE, _, hD, _⟩, _, _⟩ := scot_loop_exit A hA hex s0 s4 h0 hl
  exact elected_le_seats A hIE.1 hIE.2 hD

end Droop
