import DroopModel.Meek
import DroopProofs.Conserve

/-! # Meek / Warren distribution: votes credited plus residual equal the ballots, unconditionally (C08, C02) -/
namespace Droop
variable {α : Type} [CommRing α] [LinearOrder α] [IsStrictOrderedRing α] (A : Arith α)

/-- inner fold over one ballot's ranking: (Σ votes) + (the ballot's running residual) is constant -/
theorem distRankStep_sum (hA : LawfulArith A) (warren : Bool) (mult : α) (acc : St α × α × α × Bool) (cid : Nat)
    (hwf : acc.1.WF) :
    (distRankStep A warren mult acc cid).1.sumVotes + (distRankStep A warren mult acc cid).2.2.1
      = acc.1.sumVotes + acc.2.2.1
    ∧ (distRankStep A warren mult acc cid).1.skel = acc.1.skel
    ∧ (distRankStep A warren mult acc cid).1.residual = acc.1.residual := by
  unfold distRankStep
  split
  · exact ⟨rfl, rfl, rfl⟩
  · cases hk : kfOf acc.1 cid with
    | none => exact ⟨rfl, rfl, rfl⟩
    | some kf =>
      simp only
      split
      · exact ⟨rfl, rfl, rfl⟩
      · have hsome : (acc.1.cand? cid).isSome := by
          unfold kfOf at hk
          cases hc : acc.1.cand? cid with
          | none => rw [hc] at hk; cases hk
          | some c => rfl
        refine ⟨?_, addVote_skel A _ _ _, rfl⟩
        simp only
        rw [sumVotes_addVote A hA _ _ _ hwf hsome, hA.sub_eq]
        ring

theorem foldl_distRankStep_sum (hA : LawfulArith A) (warren : Bool) (mult : α) (rank : List Nat)
    (acc : St α × α × α × Bool) (hwf : acc.1.WF) :
    (rank.foldl (distRankStep A warren mult) acc).1.sumVotes + (rank.foldl (distRankStep A warren mult) acc).2.2.1
      = acc.1.sumVotes + acc.2.2.1
    ∧ (rank.foldl (distRankStep A warren mult) acc).1.skel = acc.1.skel
    ∧ (rank.foldl (distRankStep A warren mult) acc).1.residual = acc.1.residual := by
  induction rank generalizing acc with
  | nil => exact ⟨rfl, rfl, rfl⟩
  | cons c cs ih =>
    simp only [List.foldl_cons]
    obtain ⟨h1, h2, h3⟩ := distRankStep_sum A hA warren mult acc c hwf
    obtain ⟨g1, g2, g3⟩ := ih (distRankStep A warren mult acc c) (WF_of_skel h2.symm hwf)
    exact ⟨g1.trans h1, g2.trans h2, g3.trans h3⟩

/-- one ballot: Σ votes + residual grows by exactly the ballot's multiplier -/
theorem distBallotStep_sum (hA : LawfulArith A) (warren : Bool) (s : St α) (b : Ballot α) (hwf : s.WF) :
    (distBallotStep A warren s b).sumVotes + (distBallotStep A warren s b).residual
      = s.sumVotes + s.residual + A.ofInt b.mult
    ∧ (distBallotStep A warren s b).skel = s.skel := by
  unfold distBallotStep
  obtain ⟨h1, h2, h3⟩ := foldl_distRankStep_sum A hA warren (A.ofInt b.mult) b.rank (s, A.one, A.ofInt b.mult, false) hwf
  refine ⟨?_, h2⟩
  simp only at h1 h3 ⊢
  show (List.foldl (distRankStep A warren (A.ofInt ↑b.mult)) (s, A.one, A.ofInt ↑b.mult, false) b.rank).1.sumVotes
      + A.add (List.foldl (distRankStep A warren (A.ofInt ↑b.mult)) (s, A.one, A.ofInt ↑b.mult, false) b.rank).1.residual
              (List.foldl (distRankStep A warren (A.ofInt ↑b.mult)) (s, A.one, A.ofInt ↑b.mult, false) b.rank).2.2.1
      = _
  rw [hA.add_eq, h3]
  linarith

theorem foldl_distBallotStep_sum (hA : LawfulArith A) (warren : Bool) (bs : List (Ballot α)) (s : St α) (hwf : s.WF) :
    (bs.foldl (distBallotStep A warren) s).sumVotes + (bs.foldl (distBallotStep A warren) s).residual
      = s.sumVotes + s.residual + (bs.map (fun b => A.ofInt b.mult)).sum
    ∧ (bs.foldl (distBallotStep A warren) s).skel = s.skel := by
  induction bs generalizing s with
  | nil => simp
  | cons b bs ih =>
    simp only [List.foldl_cons, List.map_cons, List.sum_cons]
    obtain ⟨h1, h2⟩ := distBallotStep_sum A hA warren s b hwf
    obtain ⟨g1, g2⟩ := ih (distBallotStep A warren s b) (WF_of_skel h2.symm hwf)
    exact ⟨by rw [g1, h1]; ring, g2.trans h2⟩

theorem startDist_skel (s : St α) : (startDist A s).skel = s.skel := by
  unfold startDist zeroActiveVotes St.setResidual St.skel
  simp only [List.map_map]
  apply List.map_congr_left
  intro c _
  simp only [Function.comp]
  split <;> rfl

theorem distStrict_ballotsEq (warren : Bool) (s : St α) : (distStrict A warren s).ballotsEq = s.ballotsEq := by
  unfold distStrict
  have : ∀ (bs : List (Ballot α)) (t : St α), (bs.foldl (distBallotStep A warren) t).ballotsEq = t.ballotsEq := by
    intro bs; induction bs with
    | nil => intro t; rfl
    | cons b bs ih =>
      intro t; simp only [List.foldl_cons]; rw [ih]
      unfold distBallotStep
      have : ∀ (rank : List Nat) (acc : St α × α × α × Bool),
          (rank.foldl (distRankStep A warren (A.ofInt b.mult)) acc).1.ballotsEq = acc.1.ballotsEq := by
        intro rank; induction rank with
        | nil => intro acc; rfl
        | cons c cs ih2 =>
          intro acc; simp only [List.foldl_cons]; rw [ih2]
          unfold distRankStep
          split
          · rfl
          · split
            · split <;> rfl
            · rfl
      exact this _ _
  exact this _ _

/-- **after a Meek/Warren distribution over strict ballots: votes credited + residual = the tallies that were
    not zeroed + the number of ballots** — whatever the keep factors are (no hypothesis on kf, precision, omega). -/
theorem distributeVotes_sum (hA : LawfulArith A) (warren : Bool) (s : St α) (hwf : s.WF) (hq : s.ballotsEq = []) :
    (distributeVotes A warren s).sumVotes + (distributeVotes A warren s).residual
      = (startDist A s).sumVotes + (s.ballots.map (fun b => A.ofInt b.mult)).sum := by
  unfold distributeVotes
  have hwf1 : (startDist A s).WF := WF_of_skel (startDist_skel A s).symm hwf
  have hb : (startDist A s).ballots = s.ballots := rfl
  have hbe : (distStrict A warren (startDist A s)).ballotsEq = [] := by
    rw [distStrict_ballotsEq]; exact hq
  have heq : distEqual A warren (distStrict A warren (startDist A s)) = distStrict A warren (startDist A s) := by
    unfold distEqual; rw [hbe]; rfl
  rw [heq]
  obtain ⟨h1, _⟩ := foldl_distBallotStep_sum A hA warren (startDist A s).ballots (startDist A s) hwf1
  unfold distStrict
  rw [h1, hb]
  have hr : (startDist A s).residual = A.zero := rfl
  rw [hr, hA.zero_eq]; ring

end Droop
