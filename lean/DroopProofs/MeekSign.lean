import DroopProofs.MeekRun
import DroopProofs.OracleBridge

/-! # Meek / Warren: nothing is negative, keep factors stay in [0, 1] (C08, second clause; strict ballots)

`KState`: every tally is ≥ 0, every keep factor lies in [0, 1], residual and quota are ≥ 0. `RecK`: every snapshot of the record
shows that. Proved for the whole driver (`meek_sign`), from the laws `LawfulMeek` of the arithmetic (all of them proved for
fixed-point arithmetic in `fixed_lawfulMeek`): rounding a product down never goes negative and never exceeds the product, the
two parts `w·kf` and `w·(1−kf)` of a weight together do not exceed `w`, `<` and `>=` mean what they say.
The cap of `meek.py` on the updated keep factor (fix F13) is what keeps the upper bound. -/
namespace Droop
variable {α : Type} [CommRing α] [LinearOrder α] [IsStrictOrderedRing α] (A : Arith α)

structure LawfulMeek : Prop where
  mulDown_nonneg : ∀ a b : α, 0 ≤ a → 0 ≤ b → 0 ≤ A.mul .down a b
  mulDown_split : ∀ w k : α, 0 ≤ w → 0 ≤ k → k ≤ A.one → A.mul .down w k + A.mul .down w (A.one - k) ≤ w
  lt_sound : ∀ a b : α, A.lt a b = true → a < b
  mulUp_nonneg : ∀ a b : α, 0 ≤ a → 0 ≤ b → 0 ≤ A.mul .up a b
  divUp_nonneg : ∀ a b : α, 0 ≤ a → 0 < b → 0 ≤ A.div .up a b
  divV_nonneg : ∀ a b : α, 0 ≤ a → 0 < b → 0 ≤ A.divV a b
  ge_false : ∀ a b : α, A.ge a b = false → a < b
  isZero_iff : ∀ a : α, A.isZero a = true ↔ a = 0
  eps_nonneg : 0 ≤ A.eps

def CandOK (s : St α) : Prop := ∀ c ∈ s.cands, 0 ≤ c.vote ∧ ∀ k, c.kf = some k → 0 ≤ k ∧ k ≤ A.one

structure KState (s : St α) : Prop where
  cok : CandOK A s
  rnn : 0 ≤ s.residual
  qnn : 0 ≤ s.quota

def SnapK (sn : Snap α) : Prop :=
  (∀ e ∈ sn.cs, 0 ≤ e.2.2.1 ∧ ∀ k, e.2.2.2.1 = some k → 0 ≤ k ∧ k ≤ A.one) ∧ 0 ≤ sn.x1

def RecK (s : St α) : Prop := ∀ a ∈ s.acts, ∀ sn, a.snap = some sn → SnapK A sn

def KInv (s : St α) : Prop := KState A s ∧ RecK A s

/-! ## one ballot -/
theorem keepWeight_facts (hA : LawfulArith A) (hM : LawfulMeek A) (warren : Bool) (kf w : α) (hk0 : 0 ≤ kf) (hk1 : kf ≤ A.one)
    (hw : 0 ≤ w) :
    0 ≤ (keepWeight A warren kf w).1 ∧ 0 ≤ (keepWeight A warren kf w).2
    ∧ (keepWeight A warren kf w).1 + (keepWeight A warren kf w).2 ≤ w := by
  unfold keepWeight
  cases warren with
  | true =>
    simp only [if_true, hA.sub_eq]
    by_cases hlt : A.lt kf w = true
    · simp only [hlt, if_true]
      have := hM.lt_sound kf w hlt
      refine ⟨hk0, by linarith, by linarith⟩
    · simp only [hlt, Bool.false_eq_true, if_false]
      refine ⟨hw, by linarith, by linarith⟩
  | false =>
    simp only [Bool.false_eq_true, if_false, hA.sub_eq]
    have h1 : 0 ≤ A.one - kf := by linarith
    exact ⟨hM.mulDown_nonneg w kf hw hk0, hM.mulDown_nonneg w _ hw h1, hM.mulDown_split w kf hw hk0 hk1⟩

theorem candOK_addVote (hA : LawfulArith A) {s : St α} (h : CandOK A s) (cid : Nat) (v : α) (hv : 0 ≤ v) :
    CandOK A (s.addVote A cid v) := by
  intro c' hc'
  unfold St.addVote at hc'
  obtain ⟨c, hc, rfl⟩ := mem_upd.1 hc'
  by_cases he : (c.cid == cid) = true
  · simp only [he, if_true, hA.add_eq]
    exact ⟨add_nonneg (h c hc).1 hv, (h c hc).2⟩
  · have hne : (c.cid == cid) = false := by simpa using he
    simp only [hne, Bool.false_eq_true, if_false]
    exact h c hc

/-- the running state of one ballot's descent: tallies fine, weight left ≥ 0, and the value not yet handed out covers it -/
def RankOK (m : Nat) (acc : St α × α × α × Bool) : Prop :=
  CandOK A acc.1 ∧ 0 ≤ acc.2.1 ∧ acc.2.1 * ((m : Int) : α) ≤ acc.2.2.1

theorem distRankStep_sign (hA : LawfulArith A) (hM : LawfulMeek A) (warren : Bool) (m : Nat) (acc : St α × α × α × Bool)
    (cid : Nat) (h : RankOK A m acc) :
    RankOK A m (distRankStep A warren (A.ofInt m) acc cid)
    ∧ (distRankStep A warren (A.ofInt m) acc cid).1.residual = acc.1.residual
    ∧ (distRankStep A warren (A.ofInt m) acc cid).1.quota = acc.1.quota := by
  unfold distRankStep
  split
  · exact ⟨h, rfl, rfl⟩
  · cases hkf : kfOf acc.1 cid with
    | none => exact ⟨h, rfl, rfl⟩
    | some kf =>
      simp only
      split
      · exact ⟨h, rfl, rfl⟩
      · obtain ⟨hc, hw, hres⟩ := h
        have hrange : 0 ≤ kf ∧ kf ≤ A.one := by
          unfold kfOf at hkf
          cases hcd : acc.1.cand? cid with
          | none => rw [hcd] at hkf; cases hkf
          | some c =>
            rw [hcd] at hkf
            exact (hc c (cand?_some_mem hcd).1).2 kf hkf
        obtain ⟨k1, k2, k3⟩ := keepWeight_facts A hA hM warren kf acc.2.1 hrange.1 hrange.2 hw
        have hm : (0 : α) ≤ ((m : Int) : α) := by exact_mod_cast Nat.zero_le m
        have hkv : A.mulV (keepWeight A warren kf acc.2.1).1 (A.ofInt m) = (keepWeight A warren kf acc.2.1).1 * ((m : Int) : α) :=
          hA.mulV_ofInt _ _
        refine ⟨⟨?_, k2, ?_⟩, rfl, rfl⟩
        · apply candOK_addVote A hA hc
          rw [hkv]; exact mul_nonneg k1 hm
        · show (keepWeight A warren kf acc.2.1).2 * ((m : Int) : α) ≤ A.sub acc.2.2.1 _
          rw [hA.sub_eq, hkv]
          nlinarith

theorem foldl_distRankStep_sign (hA : LawfulArith A) (hM : LawfulMeek A) (warren : Bool) (m : Nat) (rank : List Nat)
    (acc : St α × α × α × Bool) (h : RankOK A m acc) :
    RankOK A m (rank.foldl (distRankStep A warren (A.ofInt m)) acc)
    ∧ (rank.foldl (distRankStep A warren (A.ofInt m)) acc).1.residual = acc.1.residual
    ∧ (rank.foldl (distRankStep A warren (A.ofInt m)) acc).1.quota = acc.1.quota := by
  induction rank generalizing acc with
  | nil => exact ⟨h, rfl, rfl⟩
  | cons c cs ih =>
    simp only [List.foldl_cons]
    obtain ⟨a1, a2, a3⟩ := distRankStep_sign A hA hM warren m acc c h
    obtain ⟨b1, b2, b3⟩ := ih _ a1
    exact ⟨b1, b2.trans a2, b3.trans a3⟩

theorem distBallotStep_sign (hA : LawfulArith A) (hM : LawfulMeek A) (warren : Bool) {s : St α} (h : KState A s) (b : Ballot α) :
    KState A (distBallotStep A warren s b) := by
  unfold distBallotStep
  have hm : (0 : α) ≤ ((b.mult : Int) : α) := by exact_mod_cast Nat.zero_le b.mult
  have h0 : RankOK A b.mult (s, A.one, A.ofInt b.mult, false) := by
    refine ⟨h.cok, le_of_lt hA.one_pos, ?_⟩
    show A.one * _ ≤ A.ofInt b.mult
    rw [hA.ofInt_eq]; linarith [mul_comm A.one (((b.mult : Nat) : Int) : α)]
  obtain ⟨⟨c1, c2, c3⟩, r1, r2⟩ := foldl_distRankStep_sign A hA hM warren b.mult b.rank _ h0
  refine ⟨c1, ?_, ?_⟩
  · show 0 ≤ A.add _ _
    rw [hA.add_eq, r1]
    have : 0 ≤ (b.rank.foldl (distRankStep A warren (A.ofInt b.mult)) (s, A.one, A.ofInt b.mult, false)).2.2.1 :=
      le_trans (mul_nonneg c2 hm) c3
    exact add_nonneg h.rnn this
  · show 0 ≤ (b.rank.foldl (distRankStep A warren (A.ofInt b.mult)) (s, A.one, A.ofInt b.mult, false)).1.quota
    rw [r2]; exact h.qnn

theorem distributeVotes_sign (hA : LawfulArith A) (hM : LawfulMeek A) (warren : Bool) {s : St α} (h : KState A s)
    (hq : s.ballotsEq = []) : KState A (distributeVotes A warren s) := by
  unfold distributeVotes
  have hstart : KState A (startDist A s) := by
    unfold startDist zeroActiveVotes St.setResidual
    refine ⟨?_, by rw [hA.zero_eq], h.qnn⟩
    intro c' hc'
    obtain ⟨c, hc, rfl⟩ := List.mem_map.1 hc'
    split
    · exact ⟨by rw [hA.zero_eq], (h.cok c hc).2⟩
    · exact h.cok c hc
  have hstrict : KState A (distStrict A warren (startDist A s)) := by
    unfold distStrict
    have : ∀ (bs : List (Ballot α)) (t : St α), KState A t → KState A (bs.foldl (distBallotStep A warren) t) := by
      intro bs; induction bs with
      | nil => intro t ht; exact ht
      | cons b bs ih => intro t ht; simp only [List.foldl_cons]; exact ih _ (distBallotStep_sign A hA hM warren ht b)
    exact this _ _ hstart
  unfold distEqual
  have heq : (distStrict A warren (startDist A s)).ballotsEq = [] := by
    rw [distStrict_ballotsEq]; exact hq
  rw [heq]; exact hstrict

/-! ## the bookkeeping primitives -/
theorem KInv.of_same {s t : St α} (h : KInv A s) (hc : t.cands = s.cands) (hr : t.residual = s.residual)
    (hq : t.quota = s.quota) (ha : t.acts = s.acts) : KInv A t :=
  ⟨⟨by unfold CandOK; rw [hc]; exact h.1.cok, by rw [hr]; exact h.1.rnn, by rw [hq]; exact h.1.qnn⟩,
   by unfold RecK; rw [ha]; exact h.2⟩

theorem snapK_mkSnap {s : St α} (h : KState A s) (hm : s.method = .meek) : SnapK A (s.mkSnap A) := by
  unfold SnapK St.mkSnap
  refine ⟨?_, ?_⟩
  · intro e he
    obtain ⟨c, hc, rfl⟩ := List.mem_map.1 he
    exact h.cok c hc
  · simp only [hm, beq_self_eq_true, if_true]; exact h.rnn

theorem KInv.logAct {s : St α} (h : KInv A s) (hm : s.method = .meek) (tag verb : String) (subj : List Nat) :
    KInv A (s.logAct A tag verb subj) := by
  have hfr : (s.logAct A tag verb subj).cands = s.cands ∧ (s.logAct A tag verb subj).residual = s.residual
      ∧ (s.logAct A tag verb subj).quota = s.quota := by
    unfold St.logAct; simp only; split <;> exact ⟨rfl, rfl, rfl⟩
  obtain ⟨e1, e2, e3⟩ := hfr
  refine ⟨⟨by unfold CandOK; rw [e1]; exact h.1.cok, by rw [e2]; exact h.1.rnn, by rw [e3]; exact h.1.qnn⟩, ?_⟩
  intro a ha sn hsn
  unfold St.logAct at ha
  simp only at ha
  split at ha
  · rcases List.mem_cons.mp ha with rfl | ha'
    · simp only at hsn
      have : sn = St.mkSnap A { s with rounds := s.rounds ++ [s.cands] } := (Option.some.inj hsn).symm
      rw [this]
      exact snapK_mkSnap A (s := { s with rounds := s.rounds ++ [s.cands] }) ⟨h.1.cok, h.1.rnn, h.1.qnn⟩ hm
    · exact h.2 a ha' sn hsn
  · rcases List.mem_cons.mp ha with rfl | ha'
    · simp only at hsn
      have : sn = St.mkSnap A s := (Option.some.inj hsn).symm
      rw [this]; exact snapK_mkSnap A h.1 hm
    · exact h.2 a ha' sn hsn

theorem KInv.logMsg {s : St α} (h : KInv A s) (verb : String) (subj : List Nat) (v : Option α) : KInv A (s.logMsg verb subj v) := by
  refine ⟨⟨h.1.cok, h.1.rnn, h.1.qnn⟩, ?_⟩
  intro a ha sn hsn
  unfold St.logMsg at ha
  rcases List.mem_cons.mp ha with rfl | ha'
  · simp at hsn
  · exact h.2 a ha' sn hsn

theorem KInv.newRound {s : St α} (h : KInv A s) (hm : s.method = .meek) : KInv A (s.newRound A) := by
  unfold St.newRound
  exact (h.of_same A (t := { s with round := s.round + 1 }) rfl rfl rfl rfl).logAct A hm _ _ _

theorem KInv.setCrash {s : St α} (h : KInv A s) (k : String) : KInv A (s.setCrash k) := by
  unfold St.setCrash; split
  · exact h
  · exact h.of_same A rfl rfl rfl rfl

theorem KInv.upd_status {s : St α} (h : KInv A s) (cid : Nat) (f : Cand α → Cand α)
    (hf : ∀ c, (f c).vote = c.vote ∧ (f c).kf = c.kf) : KInv A (s.upd cid f) := by
  refine ⟨⟨?_, h.1.rnn, h.1.qnn⟩, h.2⟩
  intro c' hc'
  obtain ⟨c, hc, rfl⟩ := mem_upd.1 hc'
  split
  · rw [(hf c).1, (hf c).2]; exact h.1.cok c hc
  · exact h.1.cok c hc

theorem meth_logAct (s : St α) (tag verb : String) (subj : List Nat) : (s.logAct A tag verb subj).method = s.method := by
  unfold St.logAct; simp only; split <;> rfl

theorem KInv.elect {s : St α} (h : KInv A s) (hm : s.method = .meek) (cid : Nat) (verb : String) (p : Bool) :
    KInv A (s.elect A cid verb p) := by
  unfold St.elect
  exact (h.upd_status A cid (fun c => { c with st := .elected, pending := p }) (fun _ => ⟨rfl, rfl⟩)).logAct A hm _ _ _

theorem KInv.foldElect {s : St α} (h : KInv A s) (hm : s.method = .meek) (ws : List (Cand α)) (verb : String) :
    KInv A (ws.foldl (fun acc c => acc.elect A c.cid verb false) s)
    ∧ (ws.foldl (fun acc c => acc.elect A c.cid verb false) s).method = .meek := by
  induction ws generalizing s with
  | nil => exact ⟨h, hm⟩
  | cons w ws ih =>
    simp only [List.foldl_cons]
    apply ih (h.elect A hm w.cid verb false)
    unfold St.elect; rw [meth_logAct]; exact hm

theorem KInv.breakTie {s : St α} (h : KInv A s) (hm : s.method = .meek) (tied : List (Cand α)) (verb : String) :
    KInv A (Droop.breakTie A s tied verb).1 := by
  unfold Droop.breakTie
  split
  · exact h.setCrash A _
  · exact h
  · exact h.logAct A hm _ _ _

/-! ## the steps of a round -/
theorem activeVotes_nonneg (hA : LawfulArith A) {s : St α} (h : CandOK A s) : 0 ≤ activeVotes A s := by
  unfold activeVotes
  rw [arith_sum_eq A hA]
  apply List.sum_nonneg
  intro x hx
  obtain ⟨c, hc, rfl⟩ := List.mem_map.1 hx
  have hcm : c ∈ s.cands := by
    rcases List.mem_append.1 hc with h1 | h1
    · exact (mem_hopeful.1 h1).1
    · unfold St.elected at h1; exact (List.mem_filter.1 h1).1
  exact (h c hcm).1

theorem meekQuota_nonneg (hA : LawfulArith A) (hM : LawfulMeek A) (s : St α) (hv : 0 ≤ s.votes) : 0 ≤ meekQuota A s := by
  unfold meekQuota
  have hden : (0 : α) < A.ofInt ((s.seats : Int) + 1) := by
    rw [hA.ofInt_eq]
    have : (0 : α) < (((s.seats : Int) + 1 : Int) : α) := by exact_mod_cast Nat.succ_pos s.seats
    exact mul_pos this hA.one_pos
  have hd := hM.divV_nonneg s.votes _ hv hden
  split
  · exact hd
  · rw [hA.add_eq]; exact add_nonneg hd hM.eps_nonneg

/-- the invariant threaded through the driver: the identity bundle and the sign bundle -/
def MK (s : St α) : Prop := MInv A s ∧ KInv A s

theorem MK.distribute (hA : LawfulArith A) (hM : LawfulMeek A) (warren : Bool) {s : St α} (hp : MPre A s) (hk : KInv A s) :
    MK A (distributeVotes A warren s) := by
  refine ⟨hp.distribute A hA warren, distributeVotes_sign A hA hM warren hk.1 hp.noEq, ?_⟩
  have := (distributeVotes_frame A warren s hp.noEq).2.2.2.2
  unfold RecK; rw [this]; exact hk.2

theorem MK.meekIterCore (hA : LawfulArith A) (hM : LawfulMeek A) (o : MeekOpts) {s : St α} (h : MK A s) :
    MK A (Droop.meekIterCore A o s) := by
  refine ⟨h.1.meekIterCore A hA o, ?_⟩
  unfold Droop.meekIterCore
  dsimp only
  obtain ⟨hm1, hk1⟩ := MK.distribute A hA hM o.warren h.1.toMPre h.2
  have hav := activeVotes_nonneg A hA hk1.1.cok
  generalize distributeVotes A o.warren s = d at *
  have hk2 : KInv A (d.setVotes (activeVotes A d)) := hk1.of_same A rfl rfl rfl rfl
  have hq : 0 ≤ meekQuota A (d.setVotes (activeVotes A d)) := meekQuota_nonneg A hA hM _ hav
  have hk3 : KInv A ((d.setVotes (activeVotes A d)).setQuota (meekQuota A (d.setVotes (activeVotes A d)))) :=
    ⟨⟨hk2.1.cok, hk2.1.rnn, hq⟩, hk2.2⟩
  have hm3 : ((d.setVotes (activeVotes A d)).setQuota (meekQuota A (d.setVotes (activeVotes A d)))).method = .meek := hm1.meth
  have hk4 := (hk3.foldElect A hm3 (meekWinners A ((d.setVotes (activeVotes A d)).setQuota (meekQuota A (d.setVotes (activeVotes A d))))) "Elect").1
  exact hk4.of_same A rfl rfl rfl rfl

theorem KInv.kfFold (hA : LawfulArith A) (hM : LawfulMeek A) (l : List (Cand α)) {s : St α} (h : KInv A s)
    (hl : ∀ c ∈ l, 0 ≤ c.vote ∧ ∀ k, c.kf = some k → 0 ≤ k ∧ k ≤ A.one) : KInv A (l.foldl (kfStep A true) s) := by
  induction l generalizing s with
  | nil => exact h
  | cons c cs ih =>
    simp only [List.foldl_cons]
    apply ih _ (fun c' hc' => hl c' (by simp [hc']))
    unfold kfStep
    split
    · rename_i kf hkf
      split
      · exact h.setCrash A _
      · rename_i hnz
        obtain ⟨hv, hk⟩ := hl c (by simp)
        obtain ⟨hk0, _⟩ := hk kf hkf
        have hvpos : 0 < c.vote := by
          rcases lt_or_eq_of_le hv with h1 | h1
          · exact h1
          · exfalso; apply hnz; rw [hM.isZero_iff]; exact h1.symm
        have hnn : 0 ≤ A.div .up (A.mul .up kf s.quota) c.vote :=
          hM.divUp_nonneg _ _ (hM.mulUp_nonneg kf s.quota hk0 h.1.qnn) hvpos
        have hcap : 0 ≤ kfCap A true (A.div .up (A.mul .up kf s.quota) c.vote)
            ∧ kfCap A true (A.div .up (A.mul .up kf s.quota) c.vote) ≤ A.one := by
          unfold kfCap
          by_cases hge : A.ge (A.div .up (A.mul .up kf s.quota) c.vote) A.one = true
          · simp only [hge, Bool.and_self, if_true]
            exact ⟨le_of_lt hA.one_pos, le_refl _⟩
          · have hf : A.ge (A.div .up (A.mul .up kf s.quota) c.vote) A.one = false := by simpa using hge
            simp only [hf, Bool.and_false, Bool.false_eq_true, if_false]
            exact ⟨hnn, le_of_lt (hM.ge_false _ _ hf)⟩
        refine ⟨⟨?_, h.1.rnn, h.1.qnn⟩, h.2⟩
        intro c' hc'
        obtain ⟨c0, hc0, rfl⟩ := mem_upd.1 hc'
        split
        · refine ⟨(h.1.cok c0 hc0).1, ?_⟩
          intro k hk'
          simp only [Option.some.injEq] at hk'
          rw [← hk']; exact hcap
        · exact h.1.cok c0 hc0
    · exact h.setCrash A _

theorem MK.kfUpdate (hA : LawfulArith A) (hM : LawfulMeek A) {s : St α} (h : MK A s) : MK A (Droop.kfUpdate A true s) := by
  refine ⟨h.1.kfUpdate A true, ?_⟩
  rw [kfUpdate_eq]
  apply h.2.kfFold A hA hM
  intro c hc
  unfold St.elected at hc
  exact h.2.1.cok c (List.mem_filter.1 hc).1

theorem MK.logAct {s : St α} (h : MK A s) (tag verb : String) (subj : List Nat) : MK A (s.logAct A tag verb subj) :=
  ⟨h.1.logAct A _ _ _, h.2.logAct A h.1.meth _ _ _⟩

theorem MK.meekIterate (hA : LawfulArith A) (hM : LawfulMeek A) (o : MeekOpts) (omega : α) :
    ∀ (fuel : Nat) (last : α) (s : St α), MK A s → MK A (Droop.meekIterate A o omega fuel last s).1 := by
  intro fuel
  induction fuel with
  | zero => intro last s h; exact h
  | succ n ih =>
    intro last s h
    unfold Droop.meekIterate
    have hc := h.meekIterCore A hA hM o
    repeat' split
    all_goals first
      | exact hc
      | exact ⟨hc.1.logMsg A _ _ _, hc.2.logMsg A _ _ _⟩
      | exact hc.kfUpdate A hA hM
      | exact ih _ _ (hc.kfUpdate A hA hM)

theorem MK.meekDefeatOne (hA : LawfulArith A) (hM : LawfulMeek A) (hz : A.isZero A.zero = true) (o : MeekOpts) {s : St α}
    (h : MK A s) (cid : Nat) (verb : String) : MK A (Droop.meekDefeatOne A o s cid verb) := by
  unfold Droop.meekDefeatOne
  apply MK.distribute A hA hM o.warren (h.1.defeatZero A hA hz cid verb)
  -- sign facts of the state with the candidate marked defeated, keep factor and tally zeroed
  have hd : KInv A (s.defeat A cid verb) := by
    unfold St.defeat
    exact (h.2.upd_status A cid (fun c => { c with st := .defeated }) (fun _ => ⟨rfl, rfl⟩)).logAct A h.1.meth _ _ _
  refine ⟨⟨?_, hd.1.rnn, hd.1.qnn⟩, hd.2⟩
  intro c' hc'
  obtain ⟨c, hc, rfl⟩ := mem_upd.1 hc'
  split
  · refine ⟨by rw [hA.zero_eq], ?_⟩
    intro k hk
    simp only [Option.some.injEq] at hk
    rw [← hk, hA.zero_eq]
    exact ⟨le_refl _, le_of_lt hA.one_pos⟩
  · exact hd.1.cok c hc

theorem MK.meekDefeatBatch (hA : LawfulArith A) (hM : LawfulMeek A) (hz : A.isZero A.zero = true) (o : MeekOpts) {s : St α}
    (h : MK A s) (cids : List Nat) : MK A (Droop.meekDefeatBatch A o s cids) := by
  unfold Droop.meekDefeatBatch
  generalize byBallotOrder (s.cands.filter (fun c => cids.contains c.cid)) = l
  induction l generalizing s with
  | nil => exact h
  | cons c cs ih => simp only [List.foldl_cons]; exact ih (h.meekDefeatOne A hA hM hz o c.cid _)

theorem MK.meekDefeatLow (hA : LawfulArith A) (hM : LawfulMeek A) (hz : A.isZero A.zero = true) (o : MeekOpts) {s : St α}
    (h : MK A s) (b : Bool) : MK A (Droop.meekDefeatLow A o s b).1 := by
  unfold Droop.meekDefeatLow
  split
  · exact h
  · rename_i hd hs _
    have hbt : MK A (Droop.breakTie A s (s.hopeful.filter (fun c => A.ge (A.add (A.vMin hd.vote (hs.map (·.vote))) s.surplus) c.vote))
        "Break tie (defeat)").1 := ⟨h.1.breakTie A _ _, h.2.breakTie A h.1.meth _ _⟩
    cases hb : Droop.breakTie A s (s.hopeful.filter (fun c => A.ge (A.add (A.vMin hd.vote (hs.map (·.vote))) s.surplus) c.vote)) "Break tie (defeat)" with
    | mk s3 oc =>
      rw [hb] at hbt
      cases oc with
      | none => exact hbt
      | some lc => exact hbt.meekDefeatOne A hA hM hz o lc.cid _

theorem MK.meekAfterIterate (hA : LawfulArith A) (hM : LawfulMeek A) (hz : A.isZero A.zero = true) (o : MeekOpts)
    (r : St α × IStatus) (h : MK A r.1) : MK A (Droop.meekAfterIterate A o r).1 := by
  unfold Droop.meekAfterIterate
  split
  · exact ⟨h.1.setCrash A _, h.2.setCrash A _⟩
  · exact h
  · exact h.logAct A _ _ _
  · exact (h.logAct A _ _ _).meekDefeatBatch A hA hM hz o _
  · exact (h.logAct A _ _ _).meekDefeatLow A hA hM hz o _
  · exact (h.logAct A _ _ _).meekDefeatLow A hA hM hz o _

theorem MK.meekBody (hA : LawfulArith A) (hM : LawfulMeek A) (hz : A.isZero A.zero = true) (o : MeekOpts) (omega : α)
    (fuel : Nat) {s : St α} (h : MK A s) : MK A (Droop.meekBody A o omega fuel s).1 := by
  unfold Droop.meekBody
  exact MK.meekAfterIterate A hA hM hz o _
    (MK.meekIterate A hA hM o omega fuel _ _ ⟨h.1.newRound A, h.2.newRound A h.1.meth⟩)

theorem MK.meekRemainingStep (hA : LawfulArith A) (hM : LawfulMeek A) (hz : A.isZero A.zero = true) (o : MeekOpts) {s : St α}
    (h : MK A s) (c : Cand α) : MK A (Droop.meekRemainingStep A o s c) := by
  unfold Droop.meekRemainingStep
  split
  · exact MK.distribute A hA hM o.warren (h.1.elect A c.cid _ false).toMPre (h.2.elect A h.1.meth c.cid _ false)
  · exact h.meekDefeatOne A hA hM hz o c.cid _

theorem MK.foldRemaining (hA : LawfulArith A) (hM : LawfulMeek A) (hz : A.isZero A.zero = true) (o : MeekOpts)
    (l : List (Cand α)) {s : St α} (h : MK A s) : MK A (l.foldl (Droop.meekRemainingStep A o) s) := by
  induction l generalizing s with
  | nil => exact h
  | cons c cs ih => simp only [List.foldl_cons]; exact ih (h.meekRemainingStep A hA hM hz o c)

/-- **Meek / Warren, run level (strict ballots)**: if the bundles hold when the main loop is entered they hold when it exits
    and after the remaining candidates have been elected or defeated — so every snapshot logged on the way shows
    votes + residual = ballots, no negative tally or residual, and every keep factor in [0, 1] -/
theorem meek_loop_sign (hA : LawfulArith A) (hM : LawfulMeek A) (hz : A.isZero A.zero = true) (o : MeekOpts) (omega : α)
    (iterFuel fuel : Nat) (s t : St α) (h : MK A s)
    (hl : loopN (fun s => !meekCountComplete s) (meekBody A o omega iterFuel) fuel s = some t) :
    MK A t ∧ MK A (t.hopeful.foldl (meekRemainingStep A o) t) := by
  have ht : MK A t :=
    loopN_preserves (MK A) _ (meekBody A o omega iterFuel) (fun s hs => hs.meekBody A hA hM hz o omega iterFuel) _ _ _ h hl
  exact ⟨ht, ht.foldRemaining A hA hM hz o _⟩

/-! ## the start of the count -/
theorem KInv.meekInit (hA : LawfulArith A) (hM : LawfulMeek A) {s0 : St α} (h0 : MInit A s0) : KInv A (Droop.meekInit A s0) := by
  unfold Droop.meekInit
  set s3 : St α := ((s0.setVotes (A.ofInt s0.nballots)).setQuota (meekQuota A (s0.setVotes (A.ofInt s0.nballots)))).initKf A.one with hs3
  have hq3 : s3.ballotsEq = [] := h0.noEq
  rw [meekFirstCount_eq A s3 hq3]
  have hn : (0 : α) ≤ A.ofInt s0.nballots := by
    rw [hA.ofInt_eq]
    exact mul_nonneg (by exact_mod_cast Nat.zero_le s0.nballots) (le_of_lt hA.one_pos)
  have hk3 : KState A s3 := by
    refine ⟨?_, ?_, ?_⟩
    · intro c' hc'
      obtain ⟨c, hc, rfl⟩ := List.mem_map.1 (show c' ∈ s0.cands.map _ from hc')
      obtain ⟨hv, hkf, _⟩ := h0.fresh c hc
      split
      · refine ⟨by rw [hv], ?_⟩
        intro k hk; simp only [Option.some.injEq] at hk; rw [← hk]
        exact ⟨le_of_lt hA.one_pos, le_refl _⟩
      · refine ⟨by rw [hv], ?_⟩
        intro k hk; rw [hkf] at hk; cases hk
    · show 0 ≤ s0.residual; rw [h0.residual0]
    · show 0 ≤ meekQuota A (s0.setVotes (A.ofInt s0.nballots))
      exact meekQuota_nonneg A hA hM _ hn
  have hfold : ∀ (bs : List (Ballot α)) (t : St α), KState A t → t.acts = [] →
      KState A (bs.foldl (mfcStep A) t) ∧ (bs.foldl (mfcStep A) t).acts = [] ∧ (bs.foldl (mfcStep A) t).method = t.method := by
    intro bs; induction bs with
    | nil => intro t ht ha; exact ⟨ht, ha, rfl⟩
    | cons b bs ih =>
      intro t ht ha
      simp only [List.foldl_cons]
      have hstep : KState A (mfcStep A t b) ∧ (mfcStep A t b).acts = [] ∧ (mfcStep A t b).method = t.method := by
        unfold mfcStep
        split
        · refine ⟨⟨candOK_addVote A hA ht.cok _ _ ?_, ht.rnn, ht.qnn⟩, ha, rfl⟩
          rw [hA.ofInt_eq]
          exact mul_nonneg (by exact_mod_cast Nat.zero_le b.mult) (le_of_lt hA.one_pos)
        · exact ⟨ht, ha, rfl⟩
      obtain ⟨a1, a2, a3⟩ := ih _ hstep.1 hstep.2.1
      exact ⟨a1, a2, a3.trans hstep.2.2⟩
  obtain ⟨k1, k2, k3⟩ := hfold s3.ballots s3 hk3 h0.noActs
  apply KInv.logAct A ⟨k1, by unfold RecK; rw [k2]; intro a ha; cases ha⟩ (k3.trans h0.meth)

/-- **C08 for meek and warren on strict ballots, from the start of the count**: every snapshot of the record up to the last
    exclusion or election shows votes + residual = ballots exactly, no negative tally, no negative residual, and every keep
    factor between 0 and 1 -/
theorem meek_sign (hA : LawfulArith A) (hM : LawfulMeek A) (hz : A.isZero A.zero = true) (o : MeekOpts) (omega : α)
    (iterFuel fuel : Nat) (s0 t : St α) (h0 : MInit A s0)
    (hl : loopN (fun s => !meekCountComplete s) (meekBody A o omega iterFuel) fuel (meekInit A s0) = some t) :
    RecM A (t.hopeful.foldl (meekRemainingStep A o) t) ∧ RecK A (t.hopeful.foldl (meekRemainingStep A o) t)
    ∧ KState A (t.hopeful.foldl (meekRemainingStep A o) t) := by
  have := (meek_loop_sign A hA hM hz o omega iterFuel fuel _ t ⟨MInv.meekInit A hA h0, KInv.meekInit A hA hM h0⟩ hl).2
  exact ⟨this.1.recM, this.2.2, this.2.1⟩

/-! ## fixed-point arithmetic satisfies the laws -/
theorem fixed_lawfulMeek (p : Nat) : LawfulMeek (fixedArith p) := by
  have hS := pow10_pos p
  have hdm : ∀ (r : Round) (n d : Int), 0 ≤ n → 0 < d → 0 ≤ divmodRound r n d := by
    intro r n d hn hd
    have hd0 : (d == 0) = false := by simp; exact ne_of_gt hd
    have hq : 0 ≤ pdiv n d := pdiv_nonneg n d hn hd
    unfold divmodRound
    simp only [hd0, Bool.false_eq_true, if_false]
    split <;> omega
  refine
    { mulDown_nonneg := ?_, mulDown_split := ?_, lt_sound := ?_, mulUp_nonneg := ?_, divUp_nonneg := ?_, divV_nonneg := ?_,
      ge_false := ?_, isZero_iff := ?_, eps_nonneg := by show (0 : Int) ≤ 1; omega }
  · intro a b ha hb
    exact hdm .down (a * b) (pow10 p) (mul_nonneg ha hb) hS
  · intro w k hw hk0 hk1
    have hS0 : (pow10 p == 0) = false := by simp; exact ne_of_gt hS
    show divmodRound .down (w * k) (pow10 p) + divmodRound .down (w * (pow10 p - k)) (pow10 p) ≤ w
    simp only [divmodRound, hS0, Bool.false_eq_true, if_false]
    simp
    have h1 := pdiv_mul_le (w * k) (pow10 p) hS
    have h2 := pdiv_mul_le (w * (pow10 p - k)) (pow10 p) hS
    have : (pdiv (w * k) (pow10 p) + pdiv (w * (pow10 p - k)) (pow10 p)) * pow10 p ≤ w * pow10 p := by nlinarith
    exact le_of_mul_le_mul_right this hS
  · intro a b h
    have h' : decide (intCmp a b < 0) = true := h
    by_contra hge
    have hn : ¬ a < b := hge
    unfold intCmp at h'
    simp only [hn, if_false] at h'
    by_cases he : (a == b) = true
    · simp [he] at h'
    · simp [he] at h'
  · intro a b ha hb
    exact hdm .up (a * b) (pow10 p) (mul_nonneg ha hb) hS
  · intro a b ha hb
    exact hdm .up (a * pow10 p) b (mul_nonneg ha (le_of_lt hS)) hb
  · intro a b ha hb
    have hb0 : (b == 0) = false := by simp; exact ne_of_gt hb
    show 0 ≤ (if (b == 0) = true then 0 else pdiv (a * pow10 p) b)
    simp only [hb0, Bool.false_eq_true, if_false]
    exact pdiv_nonneg _ _ (mul_nonneg ha (le_of_lt hS)) hb
  · intro a b h
    have h' : decide (intCmp a b ≥ 0) = false := h
    unfold intCmp at h'
    by_contra hge
    have hn : ¬ a < b := hge
    simp only [hn, if_false] at h'
    by_cases he : (a == b) = true
    · simp [he] at h'
    · simp [he] at h'
  · intro a
    show (a == 0) = true ↔ a = 0
    simp

end Droop
