import DroopProofs.QpqSeats
import DroopProofs.MeekRun
import DroopProofs.LawfulMore

/-! # What the QPQ tally leaves in the decision state, for every lawful arithmetic

For every hopeful candidate `c` of the state a round's decision is taken in: `c.vote` is the number of ballots standing with `c`
(in units of the arithmetic), `c.tc` the contributions of those ballots, `c.quotient` the quotient of the two as the rule computes
it; the active total is the number of ballots standing with anybody, the exhausted total the contributions of the others. -/
namespace Droop
variable {α : Type} [CommRing α] [LinearOrder α] [IsStrictOrderedRing α] (A : Arith α)

def topWg (bs : List (Ballot α)) (k : Nat) : α := (bs.map (fun b => if b.top = some k then b.w * ((b.mult : Int) : α) else 0)).sum
def topMg (bs : List (Ballot α)) (k : Nat) : α :=
  (bs.map (fun b => if b.top = some k then ((b.mult : Int) : α) * A.one else 0)).sum
def activeMg (bs : List (Ballot α)) : α := (bs.map (fun b => if b.top = none then 0 else ((b.mult : Int) : α) * A.one)).sum
def exhWg (bs : List (Ballot α)) : α := (bs.map (fun b => if b.top = none then b.w * ((b.mult : Int) : α) else 0)).sum

theorem qTally_ballots_gen (acc : QSt α) (b : Ballot α) : (qTally A acc b).s.ballots = acc.s.ballots := by
  unfold qTally; split <;> rfl

theorem foldl_qTally_ballots_gen (bs : List (Ballot α)) (acc : QSt α) : (bs.foldl (qTally A) acc).s.ballots = acc.s.ballots := by
  induction bs generalizing acc with
  | nil => rfl
  | cons b bs ih => simp only [List.foldl_cons]; rw [ih, qTally_ballots_gen]

theorem qTally_cand_gen (hA : LawfulArith A) (acc : QSt α) (b : Ballot α) (k : Nat) (x : Cand α) (h : acc.s.cand? k = some x) :
    (qTally A acc b).s.cand? k
      = some { x with tc := x.tc + (if b.top = some k then b.w * ((b.mult : Int) : α) else 0),
                      vote := x.vote + (if b.top = some k then ((b.mult : Int) : α) * A.one else 0) } := by
  have hxk : x.cid = k := (cand?_some_mem h).2
  unfold qTally
  cases hb : b.top with
  | none =>
    simp only
    rw [h]
    simp
  | some c =>
    simp only
    rw [cand?_upd acc.s c k (fun x => { x with tc := A.add x.tc (A.mulV b.w (A.ofInt b.mult)),
                                               vote := A.add x.vote (A.ofInt b.mult) }) (fun _ => rfl), h]
    simp only [Option.map_some, Option.some.injEq]
    by_cases hck : c = k
    · subst hck
      simp only [hxk, beq_self_eq_true, if_true, hA.mulV_ofInt]
      simp only [hA.add_eq, hA.ofInt_eq]
    · have h1 : (x.cid == c) = false := by rw [hxk]; simpa using fun e => hck e.symm
      have h2 : ¬ (some c = some k) := fun e => hck (Option.some.inj e)
      simp only [h1, Bool.false_eq_true, if_false, h2, hck, add_zero]

theorem qTally_totals_gen (hA : LawfulArith A) (acc : QSt α) (b : Ballot α) :
    (qTally A acc b).va = acc.va + (if b.top = none then 0 else ((b.mult : Int) : α) * A.one)
    ∧ (qTally A acc b).tx = acc.tx + (if b.top = none then b.w * ((b.mult : Int) : α) else 0) := by
  unfold qTally
  cases hb : b.top with
  | none => simp only [if_true, add_zero, hA.add_eq, hA.mulV_ofInt]; exact ⟨trivial, trivial⟩
  | some c =>
    have : ¬ (some c = (none : Option Nat)) := by simp
    simp only [this, if_false, add_zero, hA.add_eq, hA.ofInt_eq]; exact ⟨trivial, trivial⟩

theorem foldl_qTally_cand_gen (hA : LawfulArith A) (bs : List (Ballot α)) : ∀ (acc : QSt α) (k : Nat) (x : Cand α),
    acc.s.cand? k = some x →
    (bs.foldl (qTally A) acc).s.cand? k = some { x with tc := x.tc + topWg bs k, vote := x.vote + topMg A bs k } := by
  induction bs with
  | nil =>
    intro acc k x h
    simp only [List.foldl_nil, topWg, topMg, List.map_nil, List.sum_nil, add_zero]
    exact h
  | cons b bs ih =>
    intro acc k x h
    simp only [List.foldl_cons]
    rw [ih _ k _ (qTally_cand_gen A hA acc b k x h)]
    simp only [topWg, topMg, List.map_cons, List.sum_cons, Option.some.injEq]
    congr 1 <;> ring

theorem foldl_qTally_totals_gen (hA : LawfulArith A) (bs : List (Ballot α)) : ∀ (acc : QSt α),
    (bs.foldl (qTally A) acc).va = acc.va + activeMg A bs ∧ (bs.foldl (qTally A) acc).tx = acc.tx + exhWg bs := by
  induction bs with
  | nil => intro acc; simp [activeMg, exhWg]
  | cons b bs ih =>
    intro acc
    simp only [List.foldl_cons]
    obtain ⟨a1, a2⟩ := ih (qTally A acc b)
    obtain ⟨b1, b2⟩ := qTally_totals_gen A hA acc b
    rw [a1, a2, b1, b2]
    simp only [activeMg, exhWg, List.map_cons, List.sum_cons]
    constructor <;> ring

theorem qR5_ballots_gen (q : QSt α) : (qR5 A q).ballots = (qR2 A q).ballots := by
  have h4 : (qR4 A q).ballots = (qR2 A q).ballots := by
    show (qQ1 A q).s.ballots = _
    unfold qQ1
    rw [foldl_qTally_ballots_gen]
    rfl
  unfold qR5
  split
  · rw [(setCrash_frame _ _).2.1]; exact h4
  · exact h4

/-- every hopeful candidate of the decision state carries the figures of the ballots standing with it -/
theorem qR5_figures_gen (hA : LawfulArith A) (q : QSt α) (hwf : q.s.WF) (c : Cand α) (hc : c ∈ (qR5 A q).hopeful) :
    c.vote = topMg A (qR2 A q).ballots c.cid ∧ c.tc = topWg (qR2 A q).ballots c.cid
      ∧ c.quotient = some (A.divV c.vote (A.add A.one c.tc)) := by
  have hc4 : c ∈ (qR4 A q).cands ∧ c.st = .hopeful := by
    have := mem_hopeful.1 hc
    have e : (qR5 A q).cands = (qR4 A q).cands := by
      unfold qR5
      split
      · exact setCrash_cands _ _
      · rfl
    rw [e] at this; exact this
  obtain ⟨hc4m, hch⟩ := hc4
  unfold qR4 at hc4m
  simp only at hc4m
  obtain ⟨c0, hc0, hce⟩ := List.mem_map.1 hc4m
  have hwf2 : (qR2 A q).WF := (qR2_fwd A q).WF hwf
  have h3sig : stsig (qR3 A q) = stsig (qR2 A q) := by
    unfold qR3
    exact stsig_mapKeep (qR2 A q) _ (fun c => by split <;> exact ⟨rfl, rfl⟩)
  have hwf3 : (qR3 A q).WF := WF_of_stsig h3sig hwf2
  have hq1sig : stsig (qQ1 A q).s = stsig (qR3 A q) :=
    (foldl_qTally_stsig A (qR3 A q).ballots { s := qR3 A q, va := A.zero, tx := A.zero, restart := false }).1
  have hwfq : (qQ1 A q).s.WF := WF_of_stsig hq1sig hwf3
  have hfind : (qQ1 A q).s.cand? c0.cid = some c0 := cand?_of_mem hwfq hc0
  have hex3 : ((qR3 A q).cand? c0.cid).isSome := by
    rw [cand?_isSome_iff]
    have hid : (qR3 A q).cands.map (·.cid) = (qQ1 A q).s.cands.map (·.cid) := by
      rw [← stsig_ids, ← stsig_ids, hq1sig]
    have : c0.cid ∈ (qR3 A q).cands.map (·.cid) := by rw [hid]; exact List.mem_map.2 ⟨c0, hc0, rfl⟩
    obtain ⟨x, hx, hxc⟩ := List.mem_map.1 this
    exact ⟨x, hx, hxc⟩
  cases hx3 : (qR3 A q).cand? c0.cid with
  | none => rw [hx3] at hex3; cases hex3
  | some x =>
    have hfold := foldl_qTally_cand_gen A hA (qR3 A q).ballots { s := qR3 A q, va := A.zero, tx := A.zero, restart := false } c0.cid x hx3
    have hq : (qQ1 A q).s = ((qR3 A q).ballots.foldl (qTally A) { s := qR3 A q, va := A.zero, tx := A.zero, restart := false }).s := rfl
    rw [hq, hfold] at hfind
    have hc0eq : c0 = { x with tc := x.tc + topWg (qR3 A q).ballots c0.cid, vote := x.vote + topMg A (qR3 A q).ballots c0.cid } :=
      (Option.some.inj hfind).symm
    have hb3 : (qR3 A q).ballots = (qR2 A q).ballots := rfl
    have hc0h : c0.st = .hopeful := by
      by_cases h0 : (c0.st == CState.hopeful) = true
      · simpa using h0
      · rw [if_neg h0] at hce; rw [← hce] at hch; exact hch
    have hxh : x.st = .hopeful := by rw [hc0eq] at hc0h; exact hc0h
    have hxz : x.vote = 0 ∧ x.tc = 0 := by
      obtain ⟨hxm, _⟩ := cand?_some_mem hx3
      unfold qR3 at hxm
      simp only at hxm
      obtain ⟨y, _, hye⟩ := List.mem_map.1 hxm
      by_cases hy : (y.st == CState.hopeful) = true
      · rw [if_pos hy] at hye; rw [← hye]; exact ⟨hA.zero_eq, hA.zero_eq⟩
      · rw [if_neg hy] at hye; rw [← hye] at hxh; exact absurd (by simpa using hxh) hy
    have h0 : (c0.st == CState.hopeful) = true := by rw [hc0h]; rfl
    rw [if_pos h0] at hce
    have hv : c0.vote = topMg A (qR2 A q).ballots c0.cid := by
      have e : c0.vote = x.vote + topMg A (qR3 A q).ballots c0.cid := congrArg Cand.vote hc0eq
      rw [e, hxz.1, hb3]; ring
    have ht : c0.tc = topWg (qR2 A q).ballots c0.cid := by
      have e : c0.tc = x.tc + topWg (qR3 A q).ballots c0.cid := congrArg Cand.tc hc0eq
      rw [e, hxz.2, hb3]; ring
    rw [← hce]
    exact ⟨hv, ht, rfl⟩

/-- the quota of the decision state -/
theorem qR5_quota_gen (hA : LawfulArith A) (q : QSt α) :
    (qR5 A q).quota = A.divV (activeMg A (qR2 A q).ballots) (A.sub (A.ofInt (1 + (qR2 A q).seats)) (exhWg (qR2 A q).ballots)) := by
  have htot := foldl_qTally_totals_gen A hA (qR3 A q).ballots { s := qR3 A q, va := A.zero, tx := A.zero, restart := false }
  have hva : (qQ1 A q).va = activeMg A (qR2 A q).ballots := by
    show ((qR3 A q).ballots.foldl (qTally A) _).va = _
    rw [htot.1]; simp only [hA.zero_eq, zero_add]; rfl
  have htx : (qQ1 A q).tx = exhWg (qR2 A q).ballots := by
    show ((qR3 A q).ballots.foldl (qTally A) _).tx = _
    rw [htot.2]; simp only [hA.zero_eq, zero_add]; rfl
  have hs4 : (qR4 A q).seats = (qR2 A q).seats := by
    show (qQ1 A q).s.seats = _
    unfold qQ1
    rw [foldl_qTally_seats]
    rfl
  have hq : (qpqQuota A { qQ1 A q with s := qR4 A q }).1
      = A.divV (activeMg A (qR2 A q).ballots) (A.sub (A.ofInt (1 + (qR2 A q).seats)) (exhWg (qR2 A q).ballots)) := by
    unfold qpqQuota
    simp only
    rw [hva, htx, hs4]
  unfold qR5
  split
  · rw [(setCrash_frame _ _).2.2.2.1]; exact hq
  · exact hq

end Droop
