import DroopProofs.InvScot

/-! # Transfer of a batch of defeated candidates preserves the bundle; Σ votes + exhausted is unchanged -/
namespace Droop
variable {α : Type} [CommRing α] [LinearOrder α] [IsStrictOrderedRing α] (A : Arith α)

/-- value moved when the ballots of all of `cids` move at unchanged weight, split by source candidate -/
theorem movedVal_id (hA : LawfulArith A) (s : St α) (cids : List Nat) (b : Ballot α) :
    movedVal A s cids id b = match b.top with
      | some c => if c ∈ cids then b.w * ((b.mult : Int) : α) else 0
      | none => 0 := by
  unfold movedVal moveBallot
  cases htop : b.top with
  | none => rfl
  | some c =>
    by_cases hc : c ∈ cids
    · simp [hc, bvote_eq A hA, advanceTo_w, advanceTo_mult]
    · simp [hc]

theorem sum_by_source (l : List (Ballot α)) (f : Ballot α → α) (cids : List Nat) (hnd : cids.Nodup) :
    (l.map (fun b => match b.top with
                     | some c => if c ∈ cids then f b else 0
                     | none => 0)).sum
      = (cids.map (fun cid => (l.map (fun b => if b.top = some cid then f b else 0)).sum)).sum := by
  induction cids with
  | nil =>
    simp only [List.not_mem_nil, if_false, List.map_nil, List.sum_nil]
    induction l with
    | nil => simp
    | cons b bs ih => simp only [List.map_cons, List.sum_cons, ih]; split <;> simp
  | cons c cs ih =>
    simp only [List.nodup_cons] at hnd
    simp only [List.map_cons, List.sum_cons]
    rw [← ih hnd.2, ← sum_map_add']
    congr 1
    apply List.map_congr_left
    intro b _
    cases htop : b.top with
    | none => simp
    | some d =>
      by_cases hdc : d = c
      · subst hdc
        simp [hnd.1]
      · have : ¬ (some d = some c) := by simpa using hdc
        simp [hdc, this]

/-- setting to zero, one after another, the votes of distinct candidates outside the scope -/
theorem InvNoCons.foldSetZero (hA : LawfulArith A) {s : St α} (h : InvNoCons A s) (cids : List Nat)
    (hns : ∀ cid ∈ cids, ∀ c ∈ s.cands, c.cid = cid → ¬ c.inScope) :
    InvNoCons A (cids.foldl (fun acc c => acc.setVote c A.zero) s) := by
  induction cids generalizing s with
  | nil => exact h
  | cons c cs ih =>
    simp only [List.foldl_cons]
    have h1 := h.setVote A c A.zero (by rw [hA.zero_eq]) (hns c (by simp))
    apply ih h1
    intro cid hcid c' hc' hcc
    obtain ⟨c0, hc0, rfl⟩ := mem_upd.1 hc'
    by_cases he : (c0.cid == c) = true
    · simp only [he, if_true] at hcc ⊢
      have := hns cid (by simp [hcid]) c0 hc0 hcc
      intro hs; exact this hs
    · have hf : (c0.cid == c) = false := by simpa using he
      simp only [hf, Bool.false_eq_true, if_false] at hcc ⊢
      exact hns cid (by simp [hcid]) c0 hc0 hcc

theorem sumVotes_foldSetZero (hA : LawfulArith A) (s : St α) (hwf : s.WF) (cids : List Nat) (hnd : cids.Nodup)
    (hex : ∀ cid ∈ cids, ∃ x ∈ s.cands, x.cid = cid) :
    (cids.foldl (fun acc c => acc.setVote c A.zero) s).sumVotes
      = s.sumVotes - (cids.map (fun cid => s.voteOf cid)).sum := by
  induction cids generalizing s with
  | nil => simp
  | cons c cs ih =>
    simp only [List.foldl_cons, List.map_cons, List.sum_cons]
    simp only [List.nodup_cons] at hnd
    obtain ⟨x, hx, hxc⟩ := hex c (by simp)
    have hsk : (s.setVote c A.zero).skel = s.skel := setVote_skel s c _
    have hwf1 : (s.setVote c A.zero).WF := WF_of_skel hsk.symm hwf
    rw [ih (s.setVote c A.zero) hwf1 hnd.2]
    · have hv : s.voteOf c = x.vote := by rw [← hxc]; exact voteOf_of_mem hwf hx
      have hrest : cs.map (fun cid => (s.setVote c A.zero).voteOf cid) = cs.map (fun cid => s.voteOf cid) := by
        apply List.map_congr_left
        intro cid hcid
        have hne : cid ≠ c := fun e => hnd.1 (e ▸ hcid)
        unfold St.voteOf
        have : (s.setVote c A.zero).cand? cid = (s.cand? cid).map (fun y => if y.cid == c then { y with vote := A.zero } else y) :=
          cand?_upd s c cid (fun y => { y with vote := A.zero }) (fun _ => rfl)
        rw [this]
        cases hf : s.cand? cid with
        | none => rfl
        | some y =>
          have hy : y.cid = cid := by
            unfold St.cand? at hf
            have := List.find?_some hf; simpa using this
          have hne' : ¬ y.cid = c := by rw [hy]; exact hne
          simp [hne']
      rw [sumVotes_setVote s c A.zero x hwf hx hxc, hrest, hv, hA.zero_eq]; ring
    · intro cid hcid
      obtain ⟨y, hy, hyc⟩ := hex cid (by simp [hcid])
      have hne : y.cid ≠ c := by rw [hyc]; exact fun e => hnd.1 (e ▸ hcid)
      exact ⟨y, mem_upd_of_ne hy hne, hyc⟩

/-- **a batch of just-defeated candidates**: their ballots move on at unchanged value, their votes are zeroed;
    the bundle is preserved and Σ votes + exhausted does not change. -/
def defeatedCore (s : St α) (cids : List Nat) : St α :=
  cids.foldl (fun acc c => acc.setVote c A.zero) (transferAll A s cids id)

theorem transferDefeated_eq (s : St α) (cids : List Nat) (verb : String) :
    transferDefeated A s cids verb = (defeatedCore A s cids).logAct A "transfer" verb cids := rfl

/-- the state of an exclusion transfer just before it is logged -/
theorem Inv.defeatedCore (hA : LawfulArith A) {s : St α} (h : Inv A s) (cids : List Nat)
    (hnd : cids.Nodup)
    (hx : ∀ cid ∈ cids, ∃ x ∈ s.cands, x.cid = cid ∧ ¬ x.inScope ∧ x.st ≠ .hopeful ∧ x.vote = s.tally A cid) :
    Inv A (Droop.defeatedCore A s cids) := by
  unfold Droop.defeatedCore
  have hr : ∀ b ∈ s.ballots, 0 ≤ id b.w := fun b hb => h.wpos b hb
  have hscope : ∀ c ∈ s.cands, c.inScope → c.cid ∉ cids := by
    intro c hc hs hmem
    obtain ⟨x, hxm, hxc, hns, _, _⟩ := hx c.cid hmem
    have : c = x := nodup_cid_eq h.wf hc hxm hxc.symm
    rw [this] at hs; exact hns hs
  have hnc := h.transferAll_noCons A hA cids id hscope hr
  have hskel := transferAll_skel A s cids id
  -- votes of the batch members are untouched by the transfer
  have hvote : ∀ cid ∈ cids, (transferAll A s cids id).voteOf cid = s.voteOf cid := by
    intro cid hcid
    obtain ⟨x, hxm, hxc, _, hnh, _⟩ := hx cid hcid
    have h3 := transferAll_voteOf A (lawfulAdd_of hA) s h.bwf cids id cid
    have hz : (s.ballots.map (contrib A s cids id cid)).sum = 0 := by
      have : s.ballots.map (contrib A s cids id cid) = s.ballots.map (fun _ => (0 : α)) := by
        apply List.map_congr_left
        intro b _
        rw [← hxc]
        exact contrib_eq_zero_of_not_hopeful A s cids id x.cid b (isHopeful_false_of s h.wf x hxm hnh)
      rw [this]; simp
    rw [hz, add_zero] at h3; exact h3
  have hns' : ∀ cid ∈ cids, ∀ c ∈ (transferAll A s cids id).cands, c.cid = cid → ¬ c.inScope := by
    intro cid hcid c hc hcc
    obtain ⟨x, hxm, hxc, hns, _, _⟩ := hx cid hcid
    obtain ⟨c0, hc0, hsk⟩ := mem_of_skel_eq hskel hc
    have : c0 = x := nodup_cid_eq h.wf hc0 hxm ((skel_cid hsk).trans (hcc.trans hxc.symm))
    have hst := skel_st hsk
    unfold Cand.inScope; rw [← hst.1, ← hst.2, this]; exact hns
  have hfinal := hnc.foldSetZero A hA cids hns'
  have htot := transferAll_total A hA s h.wf h.bwf cids id
  have hex' : ∀ cid ∈ cids, ∃ x ∈ (transferAll A s cids id).cands, x.cid = cid := by
    intro cid hcid
    obtain ⟨x, hxm, hxc, _⟩ := hx cid hcid
    have : x.skel ∈ s.skel := List.mem_map.2 ⟨x, hxm, rfl⟩
    rw [← hskel] at this
    obtain ⟨x', hx', hsk⟩ := List.mem_map.1 this
    exact ⟨x', hx', (skel_cid hsk).trans hxc⟩
  have hsv := sumVotes_foldSetZero A hA (transferAll A s cids id) hnc.wf cids hnd hex'
  -- Σ moved = Σ over the batch of tallies = Σ over the batch of votes
  have hmoved : (s.ballots.map (movedVal A s cids id)).sum = (cids.map (fun cid => s.voteOf cid)).sum := by
    have e1 : s.ballots.map (movedVal A s cids id) = s.ballots.map (fun b => match b.top with
        | some c => if c ∈ cids then b.w * ((b.mult : Int) : α) else 0
        | none => 0) := List.map_congr_left (fun b _ => movedVal_id A hA s cids b)
    rw [e1, sum_by_source s.ballots (fun b => b.w * ((b.mult : Int) : α)) cids hnd]
    congr 1
    apply List.map_congr_left
    intro cid hcid
    obtain ⟨x, hxm, hxc, _, _, hI⟩ := hx cid hcid
    rw [← tally_explicit A hA, ← hI, ← hxc]
    exact (voteOf_of_mem h.wf hxm).symm
  have hvs : (cids.map (fun cid => (transferAll A s cids id).voteOf cid)).sum = (cids.map (fun cid => s.voteOf cid)).sum := by
    congr 1; exact List.map_congr_left (fun cid hcid => hvote cid hcid)
  have hfr : ∀ (l : List Nat) (u : St α), (l.foldl (fun acc c => acc.setVote c A.zero) u).exhausted = u.exhausted
      ∧ (l.foldl (fun acc c => acc.setVote c A.zero) u).nballots = u.nballots := by
    intro l; induction l with
    | nil => intro u; exact ⟨rfl, rfl⟩
    | cons c cs ih => intro u; simp only [List.foldl_cons]; exact ih _
  exact
    { meth := hfinal.meth, recOK := hfinal.recOK,
      wf := hfinal.wf, bwf := hfinal.bwf, wpos := hfinal.wpos, vpos := hfinal.vpos, epos := hfinal.epos,
      qpos := hfinal.qpos, i1 := hfinal.i1, pq := hfinal.pq
      cons := by
        rw [(hfr cids _).2, transferAll_nballots]
        unfold St.total at htot ⊢
        rw [(hfr cids _).1, hsv, hvs]
        have hc := h.cons
        unfold St.total at hc
        linarith }

theorem Inv.transferDefeatedMany (hA : LawfulArith A) {s : St α} (h : Inv A s) (cids : List Nat) (verb : String)
    (hnd : cids.Nodup)
    (hx : ∀ cid ∈ cids, ∃ x ∈ s.cands, x.cid = cid ∧ ¬ x.inScope ∧ x.st ≠ .hopeful ∧ x.vote = s.tally A cid) :
    Inv A (Droop.transferDefeated A s cids verb) := by
  rw [transferDefeated_eq]
  exact (h.defeatedCore A hA cids hnd hx).logAct A _ _ _

end Droop
