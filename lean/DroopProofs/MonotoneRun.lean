import DroopProofs.Monotone

/-! # Run level: in the record of wigm / wigm-prf (non-batch) statuses only ever move forward (C09, first clause) -/
namespace Droop
variable {α : Type} [CommRing α] [LinearOrder α] [IsStrictOrderedRing α] (A : Arith α)

/-- loop invariant: the conservation bundle together with the monotone-record invariant -/
def InvM (s : St α) : Prop := Inv A s ∧ Mon s

theorem Mon.newRound {s : St α} (h : Mon s) : Mon (s.newRound A) := by
  unfold St.newRound
  exact Mon.logAct A (Mon.of_skel (t := { s with round := s.round + 1 }) h rfl rfl rfl) _ _ _

theorem Mon.setCrash {s : St α} (h : Mon s) (k : String) : Mon (s.setCrash k) := by
  unfold St.setCrash; split
  · exact h
  · exact Mon.of_skel h rfl rfl rfl

theorem Mon.breakTie {s : St α} (h : Mon s) (tied : List (Cand α)) (verb : String) :
    Mon (Droop.breakTie A s tied verb).1 := by
  unfold Droop.breakTie
  split
  · exact h.setCrash _
  · exact h
  · exact h.logAct A _ _ _

theorem Mon.transferAll {s : St α} (h : Mon s) (cids : List Nat) (rew : α → α) : Mon (transferAll A s cids rew) :=
  Mon.of_skel h (transferAll_skel A s cids rew) (transferAll_method A s cids rew) (transferAll_acts A s cids rew)

theorem Mon.setVote {s : St α} (h : Mon s) (cid : Nat) (v : α) : Mon (s.setVote cid v) :=
  Mon.of_skel h (setVote_skel s cid v) rfl rfl

theorem Mon.transferSurplus {s : St α} (h : Mon s) (hc : Cand α) (rew : α → α → α → α) (verb : String) :
    Mon (Droop.transferSurplus A s hc rew verb) := by
  unfold Droop.transferSurplus; dsimp only
  exact Mon.logAct A ((h.transferAll A _ _).setVote _ _) _ _ _

theorem Mon.foldSetVote (l : List Nat) {s : St α} (h : Mon s) : Mon (l.foldl (fun acc c => acc.setVote c A.zero) s) := by
  induction l generalizing s with
  | nil => exact h
  | cons c cs ih => simp only [List.foldl_cons]; exact ih (h.setVote c _)

theorem Mon.transferDefeated {s : St α} (h : Mon s) (cids : List Nat) (verb : String) :
    Mon (Droop.transferDefeated A s cids verb) := by
  unfold Droop.transferDefeated; dsimp only
  exact Mon.logAct A (Mon.foldSetVote A cids (h.transferAll A _ _)) _ _ _

theorem Mon.unpendLog {s : St α} (h : Mon s) (cid : Nat) (verb : String)
    (hel : ∀ c ∈ s.cands, c.cid = cid → c.st = .elected) : Mon (s.unpendLog A cid verb) := by
  unfold St.unpendLog
  exact Mon.logAct A (h.unpend cid hel) _ _ _

theorem InvM.foldElect {s : St α} (h : InvM A s) (ws : List (Cand α)) (verb : Cand α → String) (pend : Cand α → Bool)
    (hnd : (ws.map (·.cid)).Nodup)
    (hw : ∀ w ∈ ws, w ∈ s.cands ∧ w.st = .hopeful ∧ (pend w = true → s.quota ≤ w.vote)) :
    InvM A (ws.foldl (fun acc c => acc.elect A c.cid (verb c) (pend c)) s) := by
  induction ws generalizing s with
  | nil => exact h
  | cons w ws ih =>
    simp only [List.foldl_cons]
    simp only [List.map_cons, List.nodup_cons, List.mem_map, not_exists, not_and] at hnd
    obtain ⟨hwm, hwh, hwq⟩ := hw w (by simp)
    have huniq : ∀ c ∈ s.cands, c.cid = w.cid → c = w := fun c hc hcid => nodup_cid_eq h.1.wf hc hwm hcid
    have h1 : InvM A (s.elect A w.cid (verb w) (pend w)) := by
      refine ⟨?_, ?_⟩
      · apply h.1.elect A
        · intro c hc hcid; rw [huniq c hc hcid]; exact hwh
        · intro c hc hcid hp; rw [huniq c hc hcid]; exact hwq hp
      · apply h.2.elect A
        intro c hc hcid; rw [huniq c hc hcid]; exact hwh
    apply ih h1 hnd.2
    intro w' hw'
    obtain ⟨hm, hh, hq⟩ := hw w' (by simp [hw'])
    have hne : w'.cid ≠ w.cid := fun e => hnd.1 w' hw' e
    refine ⟨?_, hh, ?_⟩
    · unfold St.elect; rw [logAct_cands]; exact mem_upd_of_ne hm hne
    · intro hp; unfold St.elect; rw [logAct_quota]; exact hq hp

theorem InvM.wigmElect (hA : LawfulArith A) (o : WigmOpts) (hex : o.prf = true → A.exact = false) {s : St α}
    (h : InvM A s) : InvM A (Droop.wigmElect A o s) := by
  unfold Droop.wigmElect Droop.electWinners
  apply h.foldElect A
  · have hp : ((byVote A true s.hopeful).map (·.cid)).Perm (s.hopeful.map (·.cid)) := (pySorted_perm _ _ _).map _
    have hnd : ((byVote A true s.hopeful).map (·.cid)).Nodup := hp.nodup_iff.2 (hopeful_cids_nodup h.1.wf)
    exact List.Nodup.sublist (List.Sublist.map _ List.filter_sublist) hnd
  · intro w hw
    rw [List.mem_filter] at hw
    have hm : w ∈ s.hopeful := (mem_pySorted _ _ _ _).1 hw.1
    obtain ⟨hc, hh⟩ := mem_hopeful.1 hm
    refine ⟨hc, hh, fun _ => ?_⟩
    by_cases hp : o.prf = true
    · have := hw.2; simp only [hp, if_true] at this; exact hasQuotaGE_sound A hA (hex hp) s w this
    · have := hw.2; simp only [hp] at this; exact hasQuotaX_sound A hA s w this

theorem InvM.wigmSurplusStep (hA : LawfulArith A) {s : St α} (h : InvM A s) : InvM A (Droop.wigmSurplusStep A s) := by
  refine ⟨h.1.wigmSurplusStep A hA, ?_⟩
  unfold Droop.wigmSurplusStep
  cases hm : maxVoteOf A s.pendingL with
  | none => exact h.2
  | some hv =>
    simp only
    have hM1 := h.2.breakTie A (s.pendingL.filter (fun c => A.eq c.vote hv)) "Break tie (surplus)"
    have hI1 := h.1.breakTie A (s.pendingL.filter (fun c => A.eq c.vote hv)) "Break tie (surplus)"
    have hfr := breakTie_frame A s (s.pendingL.filter (fun c => A.eq c.vote hv)) "Break tie (surplus)"
    have hmem := breakTie_mem A s (s.pendingL.filter (fun c => A.eq c.vote hv)) "Break tie (surplus)"
    cases hb : Droop.breakTie A s (s.pendingL.filter (fun c => A.eq c.vote hv)) "Break tie (surplus)" with
    | mk s1 oc =>
      rw [hb] at hM1 hI1 hfr hmem
      cases oc with
      | none => exact hM1
      | some hc =>
        simp only
        have hcm := hmem hc rfl
        rw [List.mem_filter] at hcm
        obtain ⟨hcs, hce, _⟩ := mem_pendingL.1 hcm.1
        have hcs1 : hc ∈ s1.cands := by have := hfr.1; simp only at this; rw [this]; exact hcs
        apply Mon.transferSurplus
        apply hM1.unpendLog A
        intro c hc' hcid
        have : c = hc := nodup_cid_eq hI1.wf hc' hcs1 hcid
        rw [this]; exact hce

theorem InvM.wigmDefeatStep1 (hA : LawfulArith A) (o : WigmOpts) (hz : o.batchZero = false) {s : St α} (h : InvM A s) :
    InvM A (Droop.wigmDefeatStep A o s) := by
  refine ⟨h.1.wigmDefeatStep1 A hA o hz, ?_⟩
  unfold Droop.wigmDefeatStep
  cases hm : minVoteOf A s.hopeful with
  | none => exact h.2
  | some lv =>
    simp only [hz, Bool.and_false, Bool.false_and, Bool.false_eq_true, if_false]
    have hM1 := h.2.breakTie A (s.hopeful.filter (fun c => A.eq c.vote lv)) "Break tie (defeat)"
    have hI1 := h.1.breakTie A (s.hopeful.filter (fun c => A.eq c.vote lv)) "Break tie (defeat)"
    have hfr := breakTie_frame A s (s.hopeful.filter (fun c => A.eq c.vote lv)) "Break tie (defeat)"
    have hmem := breakTie_mem A s (s.hopeful.filter (fun c => A.eq c.vote lv)) "Break tie (defeat)"
    cases hb : Droop.breakTie A s (s.hopeful.filter (fun c => A.eq c.vote lv)) "Break tie (defeat)" with
    | mk s1 oc =>
      rw [hb] at hM1 hI1 hfr hmem
      cases oc with
      | none => exact hM1
      | some lc =>
        simp only
        have hcm := hmem lc rfl
        rw [List.mem_filter] at hcm
        obtain ⟨hcs, hch⟩ := mem_hopeful.1 hcm.1
        have hcs1 : lc ∈ s1.cands := by have := hfr.1; simp only at this; rw [this]; exact hcs
        apply Mon.transferDefeated
        apply hM1.defeat A
        intro c hc' hcid
        have : c = lc := nodup_cid_eq hI1.wf hc' hcs1 hcid
        rw [this]; exact hch

theorem InvM.wigmBody (hA : LawfulArith A) (o : WigmOpts) (ho : o.plain) (hex : o.prf = true → A.exact = false)
    {s : St α} (h : InvM A s) : InvM A (Droop.wigmBody A o s).1 := by
  unfold Droop.wigmBody
  have h1 : InvM A (s.newRound A) := ⟨h.1.newRound A, h.2.newRound A⟩
  have h2 := h1.wigmElect A hA o hex
  unfold Droop.wigmAfterElect
  have hsure : wigmSure A o (Droop.wigmElect A o (s.newRound A)) = [] := by unfold wigmSure; simp [ho.2]
  simp only [hsure, List.isEmpty_nil, Bool.not_true, Bool.false_eq_true, if_false]
  split
  · exact h2.wigmSurplusStep A hA
  · split
    · exact h2.wigmDefeatStep1 A hA o ho.1
    · exact h2

/-- **C09 (status only moves forward), wigm / wigm-prf without batch exclusions**: when the main loop stops, the
    record is monotone — between any two consecutive snapshots every candidate's status is unchanged or moves
    hopeful → elected(-pending) → elected, or hopeful → defeated; withdrawn candidates never change. -/
theorem wigm_loop_record_monotone (hA : LawfulArith A) (o : WigmOpts) (ho : o.plain)
    (hex : o.prf = true → A.exact = false) (s0 s4 : St α) (hinit : InvM A (wigmInit A o s0))
    (hl : loopN stdGuard (wigmBody A o) (2 * s0.cands.length + 3) (wigmInit A o s0) = some s4) :
    RecMon (snaps s4.acts) :=
  (loopN_preserves (InvM A) stdGuard (wigmBody A o) (fun s hs => hs.wigmBody A hA o ho hex) _ _ _ hinit hl).2.1

end Droop
