import DroopProofs.QpqSeats
import DroopProofs.GuardedLaws

/-! # C07 for QPQ: who a round elects and who it excludes

QPQ works in guarded arithmetic, whose `<`, `==`, `>` have a tolerance (`geps g` stored units: half a unit of the declared
precision).  Python's `max` / `min` over such values return a value no other value is `>` / `<` than; the candidate chosen is one
whose quotient `==` that value.  In stored units: the candidate elected has a quotient above the quota by at least the tolerance,
and no hopeful candidate's quotient exceeds it by `2·geps − 1` or more (so, with no guard digits, by anything at all); the
candidate excluded is the mirror image, and is excluded only when no quotient is above the quota. -/
namespace Droop

theorem guarded_lt_iff (p g : Nat) (a b : Int) : (guardedArith p g).lt a b = true ↔ a + geps g ≤ b := by
  have hg := geps_pos g
  have habs : ((a - b).natAbs : Int) = |a - b| := Int.natCast_natAbs (a - b)
  simp only [Arith.lt, guardedArith, guardedCmp, habs, decide_eq_true_eq]
  by_cases h1 : |a - b| < geps g
  · simp only [h1, if_true]
    have := abs_lt.1 h1
    constructor
    · intro h; omega
    · intro h; omega
  · simp only [h1, if_false]
    have h1' : geps g ≤ |a - b| := not_lt.1 h1
    by_cases h2 : a > b
    · simp only [h2, if_true]
      constructor
      · intro h; omega
      · intro h; omega
    · simp only [h2, if_false]
      have : |a - b| = b - a := by rw [abs_sub_comm]; exact abs_of_nonneg (by omega)
      constructor
      · intro _; omega
      · intro _; omega

theorem guarded_gt_iff (p g : Nat) (a b : Int) : (guardedArith p g).gt a b = true ↔ b + geps g ≤ a := by
  have hg := geps_pos g
  have habs : ((a - b).natAbs : Int) = |a - b| := Int.natCast_natAbs (a - b)
  simp only [Arith.gt, guardedArith, guardedCmp, habs, decide_eq_true_eq]
  by_cases h1 : |a - b| < geps g
  · simp only [h1, if_true]
    have := abs_lt.1 h1
    constructor
    · intro h; omega
    · intro h; omega
  · simp only [h1, if_false]
    have h1' : geps g ≤ |a - b| := not_lt.1 h1
    by_cases h2 : a > b
    · simp only [h2, if_true]
      have : |a - b| = a - b := abs_of_nonneg (by omega)
      constructor
      · intro _; omega
      · intro _; omega
    · simp only [h2, if_false]
      constructor
      · intro h; omega
      · intro h; omega

theorem guarded_eq_iff (p g : Nat) (a b : Int) : (guardedArith p g).eq a b = true ↔ |a - b| < geps g := by
  have hg := geps_pos g
  have habs : ((a - b).natAbs : Int) = |a - b| := Int.natCast_natAbs (a - b)
  simp only [Arith.eq, guardedArith, guardedCmp, habs, beq_iff_eq]
  by_cases h1 : |a - b| < geps g
  · simp [h1]
  · simp only [h1, if_false]
    by_cases h2 : a > b <;> simp [h2]

/-- Python's `min` under the guarded `<`: a member of the list that no member is `<` than -/
theorem guarded_pyMin (p g : Nat) : ∀ (l : List Int) (x : Int),
    (guardedArith p g).pyMin x l ≤ x ∧ (guardedArith p g).pyMin x l ∈ x :: l
    ∧ ∀ y ∈ l, (guardedArith p g).pyMin x l < y + geps g := by
  intro l
  induction l with
  | nil => intro x; exact ⟨le_refl _, by simp [Arith.pyMin], fun y hy => by cases hy⟩
  | cons a as ih =>
    intro x
    have hg := geps_pos g
    have hstep : (guardedArith p g).pyMin x (a :: as)
        = (guardedArith p g).pyMin (if (guardedArith p g).lt a x then a else x) as := by
      unfold Arith.pyMin; rfl
    rw [hstep]
    obtain ⟨h1, h2, h3⟩ := ih (if (guardedArith p g).lt a x then a else x)
    by_cases hl : (guardedArith p g).lt a x = true
    · rw [if_pos hl] at h1 h2 h3 ⊢
      have := (guarded_lt_iff p g a x).1 hl
      refine ⟨by omega, ?_, ?_⟩
      · rcases List.mem_cons.1 h2 with e | e
        · rw [e]; simp
        · exact List.mem_cons_of_mem _ (List.mem_cons_of_mem _ e)
      · intro y hy
        rcases List.mem_cons.1 hy with e | e
        · rw [e]; omega
        · exact h3 y e
    · rw [if_neg hl] at h1 h2 h3 ⊢
      have : ¬ a + geps g ≤ x := fun h => hl ((guarded_lt_iff p g a x).2 h)
      refine ⟨h1, ?_, ?_⟩
      · rcases List.mem_cons.1 h2 with e | e
        · rw [e]; simp
        · exact List.mem_cons_of_mem _ (List.mem_cons_of_mem _ e)
      · intro y hy
        rcases List.mem_cons.1 hy with e | e
        · rw [e]; omega
        · exact h3 y e

/-- Python's `max` under the guarded `>` -/
theorem guarded_pyMax (p g : Nat) : ∀ (l : List Int) (x : Int),
    x ≤ (guardedArith p g).pyMax x l ∧ (guardedArith p g).pyMax x l ∈ x :: l
    ∧ ∀ y ∈ l, y < (guardedArith p g).pyMax x l + geps g := by
  intro l
  induction l with
  | nil => intro x; exact ⟨le_refl _, by simp [Arith.pyMax], fun y hy => by cases hy⟩
  | cons a as ih =>
    intro x
    have hg := geps_pos g
    have hstep : (guardedArith p g).pyMax x (a :: as)
        = (guardedArith p g).pyMax (if (guardedArith p g).gt a x then a else x) as := by
      unfold Arith.pyMax; rfl
    rw [hstep]
    obtain ⟨h1, h2, h3⟩ := ih (if (guardedArith p g).gt a x then a else x)
    by_cases hl : (guardedArith p g).gt a x = true
    · rw [if_pos hl] at h1 h2 h3 ⊢
      have := (guarded_gt_iff p g a x).1 hl
      refine ⟨by omega, ?_, ?_⟩
      · rcases List.mem_cons.1 h2 with e | e
        · rw [e]; simp
        · exact List.mem_cons_of_mem _ (List.mem_cons_of_mem _ e)
      · intro y hy
        rcases List.mem_cons.1 hy with e | e
        · rw [e]; omega
        · exact h3 y e
    · rw [if_neg hl] at h1 h2 h3 ⊢
      have : ¬ x + geps g ≤ a := fun h => hl ((guarded_gt_iff p g a x).2 h)
      refine ⟨h1, ?_, ?_⟩
      · rcases List.mem_cons.1 h2 with e | e
        · rw [e]; simp
        · exact List.mem_cons_of_mem _ (List.mem_cons_of_mem _ e)
      · intro y hy
        rcases List.mem_cons.1 hy with e | e
        · rw [e]; omega
        · exact h3 y e

theorem mem_stsig_upd {s : St Int} {a : Cand Int} (ha : a ∈ s.cands) (f : Cand Int → Cand Int) (st' : CState)
    (hf : ∀ c, (f c).cid = c.cid ∧ (f c).st = st') : (a.cid, st') ∈ stsig (s.upd a.cid f) := by
  unfold stsig St.upd
  rw [List.map_map]
  refine List.mem_map.2 ⟨a, ha, ?_⟩
  simp only [Function.comp, beq_self_eq_true, if_true]
  rw [(hf a).1, (hf a).2]

/-- **the decision of a QPQ round** (guarded arithmetic, any precision and guard).  A round that continues either
    * elects a hopeful candidate `c`: `c`'s stored quotient is above the quota, and no hopeful quotient exceeds `c`'s by
      `2·geps − 1` stored units or more; no restart is ordered; or
    * excludes a hopeful candidate `c`: no hopeful quotient is above the quota by the tolerance, and `c`'s quotient exceeds no
      hopeful quotient by `2·geps − 1` or more; a restart is ordered. -/
theorem qpq_round_decision (p g : Nat) (q1 : QSt Int) (s5 : St Int) (hr1 : q1.restart = false)
    (h : (qDecide (guardedArith p g) q1 s5).2 = .cont) :
    (∃ c ∈ s5.hopeful, (c.cid, CState.elected) ∈ stsig (qDecide (guardedArith p g) q1 s5).1.s
        ∧ (qDecide (guardedArith p g) q1 s5).1.restart = false
        ∧ s5.quota < qQuot (guardedArith p g) c
        ∧ ∀ d ∈ s5.hopeful, qQuot (guardedArith p g) d + 2 ≤ qQuot (guardedArith p g) c + 2 * geps g)
    ∨ (∃ c ∈ s5.hopeful, (c.cid, CState.defeated) ∈ stsig (qDecide (guardedArith p g) q1 s5).1.s
        ∧ (qDecide (guardedArith p g) q1 s5).1.restart = true
        ∧ (∀ d ∈ s5.hopeful, qQuot (guardedArith p g) d < s5.quota + 2 * geps g - 1)
        ∧ ∀ d ∈ s5.hopeful, qQuot (guardedArith p g) c + 2 ≤ qQuot (guardedArith p g) d + 2 * geps g) := by
  have hgp := geps_pos g
  unfold qDecide at h ⊢
  cases hh : s5.hopeful with
  | nil => rw [hh] at h; cases h
  | cons hd hs =>
    rw [hh] at h
    simp only at h ⊢
    obtain ⟨mx1, mx2, mx3⟩ := guarded_pyMax p g (hs.map (qQuot (guardedArith p g))) (qQuot (guardedArith p g) hd)
    obtain ⟨mn1, mn2, mn3⟩ := guarded_pyMin p g (hs.map (qQuot (guardedArith p g))) (qQuot (guardedArith p g) hd)
    have hall_max : ∀ d ∈ hd :: hs, qQuot (guardedArith p g) d
        < (guardedArith p g).pyMax (qQuot (guardedArith p g) hd) (hs.map (qQuot (guardedArith p g))) + geps g := by
      intro d hdm
      rcases List.mem_cons.1 hdm with e | e
      · rw [e]; omega
      · exact mx3 _ (List.mem_map.2 ⟨d, e, rfl⟩)
    have hall_min : ∀ d ∈ hd :: hs, (guardedArith p g).pyMin (qQuot (guardedArith p g) hd) (hs.map (qQuot (guardedArith p g)))
        < qQuot (guardedArith p g) d + geps g := by
      intro d hdm
      rcases List.mem_cons.1 hdm with e | e
      · rw [e]; omega
      · exact mn3 _ (List.mem_map.2 ⟨d, e, rfl⟩)
    by_cases hg : (guardedArith p g).gt ((guardedArith p g).pyMax (qQuot (guardedArith p g) hd) (hs.map (qQuot (guardedArith p g)))) s5.quota = true
    · rw [if_pos hg] at h ⊢
      have hgq := (guarded_gt_iff p g _ _).1 hg
      have hfr := (breakTie_frame (guardedArith p g) s5 (List.filter (fun c => (guardedArith p g).eq (qQuot (guardedArith p g) c)
        ((guardedArith p g).pyMax (qQuot (guardedArith p g) hd) (hs.map (qQuot (guardedArith p g))))) (hd :: hs))
        "Break tie by lot (largest quotient)").1
      have hmem := breakTie_mem (guardedArith p g) s5 (List.filter (fun c => (guardedArith p g).eq (qQuot (guardedArith p g) c)
        ((guardedArith p g).pyMax (qQuot (guardedArith p g) hd) (hs.map (qQuot (guardedArith p g))))) (hd :: hs))
        "Break tie by lot (largest quotient)"
      cases hb : breakTie (guardedArith p g) s5 (List.filter (fun c => (guardedArith p g).eq (qQuot (guardedArith p g) c)
          ((guardedArith p g).pyMax (qQuot (guardedArith p g) hd) (hs.map (qQuot (guardedArith p g))))) (hd :: hs))
          "Break tie by lot (largest quotient)" with
      | mk s6 oc =>
        rw [hb] at h hfr hmem
        simp only at hfr
        cases oc with
        | none => cases h
        | some hc =>
          simp only
          left
          obtain ⟨hcm, hce⟩ := List.mem_filter.1 (hmem hc rfl)
          have hce' := abs_lt.1 ((guarded_eq_iff p g _ _).1 hce)
          have hc6 : hc ∈ s6.cands := by
            rw [hfr]; exact (mem_hopeful.1 (by rw [hh]; exact hcm)).1
          refine ⟨hc, hcm, ?_, hr1, by omega, ?_⟩
          · rw [stsig_logAct]
            have e1 : stsig (mapBallots (qElected (guardedArith p g) s6 hc) (fun (b : Ballot Int) =>
                if b.top == some hc.cid then qAdvance (qElected (guardedArith p g) s6 hc)
                  { b with w := (guardedArith p g).divV (guardedArith p g).one (qQuot (guardedArith p g) hc) } else b))
                = stsig (qElected (guardedArith p g) s6 hc) := stsig_of_cands rfl
            rw [e1]
            have e2 : stsig (qElected (guardedArith p g) s6 hc) = stsig (s6.elect (guardedArith p g) hc.cid "Elect high quotient" false) := by
              unfold qElected
              split
              · exact stsig_setCrash _ _
              · rfl
            rw [e2]
            unfold St.elect
            rw [stsig_logAct]
            exact mem_stsig_upd hc6 _ _ (fun c => ⟨rfl, rfl⟩)
          · intro d hdm
            have := hall_max d hdm
            omega
    · rw [if_neg hg] at h ⊢
      have hgq : ¬ s5.quota + geps g ≤ (guardedArith p g).pyMax (qQuot (guardedArith p g) hd) (hs.map (qQuot (guardedArith p g))) :=
        fun hx => hg ((guarded_gt_iff p g _ _).2 hx)
      have hfr := (breakTie_frame (guardedArith p g) s5 (List.filter (fun c => (guardedArith p g).eq (qQuot (guardedArith p g) c)
        ((guardedArith p g).pyMin (qQuot (guardedArith p g) hd) (hs.map (qQuot (guardedArith p g))))) (hd :: hs))
        "Break tie by lot (smallest quotient)").1
      have hmem := breakTie_mem (guardedArith p g) s5 (List.filter (fun c => (guardedArith p g).eq (qQuot (guardedArith p g) c)
        ((guardedArith p g).pyMin (qQuot (guardedArith p g) hd) (hs.map (qQuot (guardedArith p g))))) (hd :: hs))
        "Break tie by lot (smallest quotient)"
      cases hb : breakTie (guardedArith p g) s5 (List.filter (fun c => (guardedArith p g).eq (qQuot (guardedArith p g) c)
          ((guardedArith p g).pyMin (qQuot (guardedArith p g) hd) (hs.map (qQuot (guardedArith p g))))) (hd :: hs))
          "Break tie by lot (smallest quotient)" with
      | mk s6 oc =>
        rw [hb] at h hfr hmem
        simp only at hfr
        cases oc with
        | none => cases h
        | some lc =>
          simp only
          right
          obtain ⟨lcm, lce⟩ := List.mem_filter.1 (hmem lc rfl)
          have lce' := abs_lt.1 ((guarded_eq_iff p g _ _).1 lce)
          have lc6 : lc ∈ s6.cands := by
            rw [hfr]; exact (mem_hopeful.1 (by rw [hh]; exact lcm)).1
          refine ⟨lc, lcm, ?_, trivial, ?_, ?_⟩
          · rw [stsig_logAct]
            have e1 : stsig (mapBallots (s6.defeat (guardedArith p g) lc.cid "Defeat low quotient") (fun (b : Ballot Int) =>
                if b.top == some lc.cid then qAdvance (s6.defeat (guardedArith p g) lc.cid "Defeat low quotient") b else b))
                = stsig (s6.defeat (guardedArith p g) lc.cid "Defeat low quotient") := stsig_of_cands rfl
            rw [e1]
            unfold St.defeat
            rw [stsig_logAct]
            exact mem_stsig_upd lc6 _ _ (fun c => ⟨rfl, rfl⟩)
          · intro d hdm
            have := hall_max d hdm
            omega
          · intro d hdm
            have := hall_min d hdm
            omega

end Droop
