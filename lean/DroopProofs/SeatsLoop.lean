import DroopProofs.SeatsRun

/-! # quota / seats / ballots are constant through a wigm round; elected ≤ seats at every loop state -/
namespace Droop
variable {α : Type} [CommRing α] [LinearOrder α] [IsStrictOrderedRing α] (A : Arith α)

/-- the three numbers the Droop condition reads do not change -/
def Frame (s t : St α) : Prop := t.quota = s.quota ∧ t.seats = s.seats ∧ t.nballots = s.nballots

theorem Frame.refl (s : St α) : Frame s s := ⟨rfl, rfl, rfl⟩
theorem Frame.trans {s t u : St α} (h1 : Frame s t) (h2 : Frame t u) : Frame s u :=
  ⟨h2.1.trans h1.1, h2.2.1.trans h1.2.1, h2.2.2.trans h1.2.2⟩

theorem frame_logAct (s : St α) (tag verb : String) (subj : List Nat) : Frame s (s.logAct A tag verb subj) := by
  unfold Frame St.logAct; simp only; split <;> exact ⟨rfl, rfl, rfl⟩
theorem frame_upd (s : St α) (cid : Nat) (f : Cand α → Cand α) : Frame s (s.upd cid f) := ⟨rfl, rfl, rfl⟩
theorem frame_newRound (s : St α) : Frame s (s.newRound A) := by
  unfold St.newRound
  exact Frame.trans (t := { s with round := s.round + 1 }) ⟨rfl, rfl, rfl⟩ (frame_logAct A _ _ _ _)
theorem frame_elect (s : St α) (cid : Nat) (verb : String) (p : Bool) : Frame s (s.elect A cid verb p) := by
  unfold St.elect; exact Frame.trans (frame_upd s cid _) (frame_logAct A _ _ _ _)
theorem frame_defeat (s : St α) (cid : Nat) (verb : String) : Frame s (s.defeat A cid verb) := by
  unfold St.defeat; exact Frame.trans (frame_upd s cid _) (frame_logAct A _ _ _ _)
theorem frame_unpendLog (s : St α) (cid : Nat) (verb : String) : Frame s (s.unpendLog A cid verb) := by
  unfold St.unpendLog; exact Frame.trans (frame_upd s cid _) (frame_logAct A _ _ _ _)
theorem frame_setCrash (s : St α) (k : String) : Frame s (s.setCrash k) := by
  unfold St.setCrash; split <;> exact ⟨rfl, rfl, rfl⟩

theorem transferBallot_seats (s : St α) (b : Ballot α) : (transferBallot A s b).1.seats = s.seats := by
  unfold transferBallot; split <;> rfl
theorem tstep_seats (cids : List Nat) (rew : α → α) (acc : St α × List (Ballot α)) (b : Ballot α) :
    (tstep A cids rew acc b).1.seats = acc.1.seats := by
  unfold tstep; split
  · split
    · exact transferBallot_seats A _ _
    · rfl
  · rfl
theorem foldl_tstep_seats (cids : List Nat) (rew : α → α) (bs : List (Ballot α)) (acc : St α × List (Ballot α)) :
    (bs.foldl (tstep A cids rew) acc).1.seats = acc.1.seats := by
  induction bs generalizing acc with
  | nil => rfl
  | cons b bs ih => simp only [List.foldl_cons]; rw [ih, tstep_seats]
theorem frame_transferAll (s : St α) (cids : List Nat) (rew : α → α) : Frame s (transferAll A s cids rew) := by
  refine ⟨transferAll_quota A s cids rew, ?_, transferAll_nballots A s cids rew⟩
  have := foldl_tstep_seats A cids rew s.ballots (s, []); simpa [transferAll] using this

theorem frame_foldl {β : Type} (f : St α → β → St α) (hf : ∀ s x, Frame s (f s x)) (l : List β) (s : St α) :
    Frame s (l.foldl f s) := by
  induction l generalizing s with
  | nil => exact Frame.refl s
  | cons x xs ih => exact Frame.trans (hf s x) (ih _)

theorem frame_breakTie (s : St α) (tied : List (Cand α)) (verb : String) : Frame s (breakTie A s tied verb).1 := by
  unfold breakTie
  split
  · exact frame_setCrash s _
  · exact Frame.refl s
  · exact frame_logAct A _ _ _ _

theorem frame_transferSurplus (s : St α) (hc : Cand α) (rew : α → α → α → α) (verb : String) :
    Frame s (transferSurplus A s hc rew verb) := by
  unfold transferSurplus
  dsimp only
  exact Frame.trans (frame_transferAll A s [hc.cid] _) (Frame.trans (frame_upd _ _ _) (frame_logAct A _ _ _ _))

theorem frame_transferDefeated (s : St α) (cids : List Nat) (verb : String) :
    Frame s (transferDefeated A s cids verb) := by
  unfold transferDefeated
  dsimp only
  refine Frame.trans (frame_transferAll A s cids id) (Frame.trans ?_ (frame_logAct A _ _ _ _))
  exact frame_foldl _ (fun (acc : St α) (c : Nat) => frame_upd acc c _) _ _

theorem frame_electWinners (hasQ : St α → Cand α → Bool) (pend : St α → Cand α → Bool)
    (verb : St α → Cand α → String) (s : St α) : Frame s (electWinners A hasQ pend verb s) := by
  unfold electWinners
  exact frame_foldl _ (fun (acc : St α) (c : Cand α) => frame_elect A acc c.cid _ _) _ s

theorem frame_wigmSurplusStep (s : St α) : Frame s (wigmSurplusStep A s) := by
  unfold wigmSurplusStep
  cases hm : maxVoteOf A s.pendingL with
  | none => exact Frame.refl s
  | some hv =>
    simp only
    have hbt := frame_breakTie A s (s.pendingL.filter (fun c => A.eq c.vote hv)) "Break tie (surplus)"
    cases hb : breakTie A s (s.pendingL.filter (fun c => A.eq c.vote hv)) "Break tie (surplus)" with
    | mk s1 oc =>
      rw [hb] at hbt
      cases oc with
      | none => exact hbt
      | some hc => exact Frame.trans hbt (Frame.trans (frame_unpendLog A _ _ _) (frame_transferSurplus A _ _ _ _))

theorem frame_wigmDefeatStep (o : WigmOpts) (s : St α) : Frame s (wigmDefeatStep A o s) := by
  unfold wigmDefeatStep
  cases hm : minVoteOf A s.hopeful with
  | none => exact Frame.refl s
  | some lv =>
    simp only
    split
    · exact Frame.trans (frame_foldl _ (fun (acc : St α) (c : Cand α) => frame_defeat A acc c.cid _) _ _)
        (frame_foldl _ (fun (acc : St α) (c : Cand α) => frame_transferDefeated A acc _ _) _ _)
    · have hbt := frame_breakTie A s (s.hopeful.filter (fun c => A.eq c.vote lv)) "Break tie (defeat)"
      cases hb : breakTie A s (s.hopeful.filter (fun c => A.eq c.vote lv)) "Break tie (defeat)" with
      | mk s1 oc =>
        rw [hb] at hbt
        cases oc with
        | none => exact hbt
        | some lc => exact Frame.trans hbt (Frame.trans (frame_defeat A _ _ _) (frame_transferDefeated A _ _ _))

theorem frame_wigmBatchStep (s : St α) (sure : List (Cand α)) : Frame s (wigmBatchStep A s sure).1 := by
  have hds : Frame s (wigmDefeatSure A s sure) := by
    unfold wigmDefeatSure
    exact frame_foldl _ (fun (acc : St α) (c : Cand α) => frame_defeat A acc c.cid _) _ _
  unfold wigmBatchStep
  split
  · exact hds
  · exact Frame.trans hds (frame_transferDefeated A _ _ _)

theorem frame_wigmElect (o : WigmOpts) (s : St α) : Frame s (wigmElect A o s) := by
  unfold wigmElect; exact frame_electWinners A _ _ _ s

theorem frame_wigmAfterElect (o : WigmOpts) (s : St α) : Frame s (wigmAfterElect A o s).1 := by
  unfold wigmAfterElect
  split
  · exact frame_wigmBatchStep A _ _
  · split
    · exact frame_wigmSurplusStep A _
    · split
      · exact frame_wigmDefeatStep A o _
      · exact Frame.refl _

theorem frame_wigmBody (o : WigmOpts) (s : St α) : Frame s (wigmBody A o s).1 := by
  unfold wigmBody
  exact Frame.trans (Frame.trans (frame_newRound A s) (frame_wigmElect A o _)) (frame_wigmAfterElect A o _)

theorem DroopQuota.of_frame {s t : St α} (h : DroopQuota A s) (f : Frame s t) : DroopQuota A t := by
  unfold DroopQuota at *; rw [f.1, f.2.1, f.2.2]; exact h

end Droop
