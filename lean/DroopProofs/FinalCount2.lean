import DroopProofs.FinalCount

/-! # wigm / wigm-prf (non-batch): the count ends with exactly `seats` elected and nobody left hopeful -/
namespace Droop
variable {α : Type} [CommRing α] [LinearOrder α] [IsStrictOrderedRing α] (A : Arith α)

/-- like `loopN_preserves`, but the body may use the loop guard; also reports why the loop stopped -/
theorem loopN_preserves_guard (P : St α → Prop) (guard : St α → Bool) (body : St α → St α × Flow)
    (hb : ∀ s, P s → guard s = true → P (body s).1) :
    ∀ (fuel : Nat) (s t : St α), P s → loopN guard body fuel s = some t → P t := by
  intro fuel
  induction fuel with
  | zero => intro s t _ h; simp [loopN] at h
  | succ n ih =>
    intro s t hP h
    unfold loopN at h
    by_cases hc : s.crash.isSome = true
    · simp [hc] at h; cases h; exact hP
    · by_cases hg : guard s = true
      · simp only [hc, hg, if_true] at h
        have hbs := hb s hP hg
        cases hbody : body s with
        | mk s' fl =>
          rw [hbody] at h hbs
          cases fl with
          | cont => exact ih _ _ hbs h
          | brk => simp at h; cases h; exact hbs
      · simp [hc, hg] at h; cases h; exact hP

/-- when the plain wigm loop returns without the crash flag, the guard is false -/
theorem loopN_exit_guard (guard : St α → Bool) (body : St α → St α × Flow) (hnb : ∀ s, (body s).2 = .cont) :
    ∀ (fuel : Nat) (s t : St α), loopN guard body fuel s = some t → t.crash = none → guard t = false := by
  intro fuel
  induction fuel with
  | zero => intro s t h; simp [loopN] at h
  | succ n ih =>
    intro s t h hcr
    unfold loopN at h
    by_cases hc : s.crash.isSome = true
    · simp [hc] at h; cases h; rw [hcr] at hc; simp at hc
    · by_cases hg : guard s = true
      · simp only [hc, hg, if_true] at h
        have hcont := hnb s
        cases hbody : body s with
        | mk s' fl =>
          rw [hbody] at h hcont
          simp only at hcont
          subst hcont
          exact ih _ _ h hcr
      · simp [hc, hg] at h; cases h; simpa using hg

theorem wigmBody_cont (o : WigmOpts) (ho : o.plain) (s : St α) : (wigmBody A o s).2 = .cont := by
  unfold wigmBody wigmAfterElect
  have hsure : wigmSure A o (wigmElect A o (s.newRound A)) = [] := by unfold wigmSure; simp [ho.2]
  simp only [hsure, List.isEmpty_nil, Bool.not_true, Bool.false_eq_true, if_false]
  split
  · rfl
  · split <;> rfl

/-- the epilogue's elect-or-defeat fold: ends with no hopefuls and exactly `seats` elected -/
theorem foldRemaining_counts {s : St α} (hI : Inv A s) (ws : List (Cand α))
    (hnd : (ws.map (·.cid)).Nodup) (hw : ∀ w ∈ ws, w ∈ s.cands ∧ w.st = .hopeful)
    (hlen : ws.length = nHop s) (hfill : nEl s = s.seats ∨ nHop s + nEl s = s.seats) :
    let t := ws.foldl (fun acc c =>
      if acc.elected.length < acc.seats then acc.elect A c.cid "Elect remaining" false
      else acc.defeat A c.cid "Defeat remaining") s
    nHop t = 0 ∧ nEl t = t.seats := by
  induction ws generalizing s with
  | nil =>
    simp only [List.foldl_nil]
    simp only [List.length_nil] at hlen
    rcases hfill with h | h
    · exact ⟨hlen.symm, h⟩
    · exact ⟨hlen.symm, by omega⟩
  | cons w ws ih =>
    simp only [List.foldl_cons]
    simp only [List.map_cons, List.nodup_cons, List.mem_map, not_exists, not_and] at hnd
    obtain ⟨hwm, hwh⟩ := hw w (by simp)
    simp only [List.length_cons] at hlen
    have hrest : ∀ (t : St α), (∀ c ∈ s.cands, c.cid ≠ w.cid → c ∈ t.cands) →
        ∀ w' ∈ ws, w' ∈ t.cands ∧ w'.st = .hopeful := by
      intro t ht w' hw'
      obtain ⟨hm, hh⟩ := hw w' (by simp [hw'])
      exact ⟨ht w' hm (fun e => hnd.1 w' hw' e), hh⟩
    by_cases hlt : s.elected.length < s.seats
    · simp only [hlt, if_true]
      have h1 : Inv A (s.elect A w.cid "Elect remaining" false) := by
        apply hI.elect A
        · intro c hc hcid
          have : c = w := nodup_cid_eq hI.wf hc hwm hcid
          rw [this]; exact hwh
        · intro c _ _ hp; cases hp
      have hc := counts_elect A s w "Elect remaining" false hI.wf hwm hwh
      have hseats : (s.elect A w.cid "Elect remaining" false).seats = s.seats := (frame_elect A s w.cid _ _).2.1
      apply ih h1 hnd.2
      · apply hrest
        intro c hc' hne
        unfold St.elect; rw [logAct_cands]; exact mem_upd_of_ne hc' hne
      · omega
      · rw [hseats]
        have hlt' : nEl s < s.seats := hlt
        rcases hfill with h | h
        · omega
        · right; omega
    · simp only [hlt, if_false]
      have h1 : Inv A (s.defeat A w.cid "Defeat remaining") := hI.defeat A w.cid _
      have hc := counts_defeat A s w "Defeat remaining" hI.wf hwm hwh
      have hseats : (s.defeat A w.cid "Defeat remaining").seats = s.seats := (frame_defeat A s w.cid _).2.1
      apply ih h1 hnd.2
      · apply hrest
        intro c hc' hne
        unfold St.defeat; rw [logAct_cands]; exact mem_upd_of_ne hc' hne
      · omega
      · rw [hseats]
        have hge : s.seats ≤ nEl s := Nat.le_of_not_lt hlt
        rcases hfill with h | h
        · left; omega
        · left; omega

theorem counts_foldUnpend (l : List (Cand α)) (s : St α) :
    nHop (l.foldl (fun acc c => acc.unpendSilent c.cid) s) = nHop s
    ∧ nEl (l.foldl (fun acc c => acc.unpendSilent c.cid) s) = nEl s
    ∧ (l.foldl (fun acc c => acc.unpendSilent c.cid) s).seats = s.seats := by
  induction l generalizing s with
  | nil => exact ⟨rfl, rfl, rfl⟩
  | cons c cs ih =>
    simp only [List.foldl_cons]
    obtain ⟨a1, a2, a3⟩ := ih (s.unpendSilent c.cid)
    have := counts_unpendSilent s c.cid
    exact ⟨a1.trans this.1, a2.trans this.2, a3⟩

/-- **C01 for wigm / wigm-prf without batch exclusions**: the count returns; if it did not crash, exactly
    `seats` candidates are elected and no candidate is left hopeful. -/
theorem wigm_seats_filled (hA : LawfulArith A) (o : WigmOpts) (ho : o.plain) (hex : o.prf = true → A.exact = false)
    (s0 : St α) (h0 : Init A s0) (hq : 0 < wigmQuota A o s0)
    (hE : ElectedHoldQuota (wigmInit A o s0)) (hD : DroopQuota A (wigmInit A o s0))
    (hJ : (wigmInit A o s0).seats ≤ sumHE (wigmInit A o s0)) :
    ∃ t, wigmCount A o s0 = some t ∧ (t.crash = none → nEl t = t.seats ∧ nHop t = 0) := by
  obtain ⟨t, ht⟩ := wigmCount_terminates A hA o ho hex s0 h0 hq
  refine ⟨t, ht, ?_⟩
  intro hcr
  unfold wigmCount at ht
  cases hl : loopN stdGuard (wigmBody A o) (2 * s0.cands.length + 3) (wigmInit A o s0) with
  | none => rw [hl] at ht; cases ht
  | some s4 =>
    rw [hl] at ht; cases ht
    have hinit := Inv.wigmInit A hA o h0 hq
    -- loop invariants at the exit state
    have hP := loopN_preserves_guard (fun s => (InvE A s ∧ DroopQuota A s) ∧ s.seats ≤ sumHE s) stdGuard (wigmBody A o)
      (fun s hs hg => ⟨⟨hs.1.1.wigmBody A hA o ho hex, hs.1.2.of_frame A (frame_wigmBody A o s)⟩,
                      J1_wigmBody A hA o ho hex hs.1.1.1 (guard_strict s hg)⟩)
      _ _ _ ⟨⟨⟨hinit, hE⟩, hD⟩, hJ⟩ hl
    obtain ⟨⟨hIE, hDQ⟩, hJ1⟩ := hP
    have hJ2 : nEl s4 ≤ s4.seats := elected_le_seats A hIE.1 hIE.2 hDQ
    -- the crash flag of the final state is that of the exit state
    have hcr4 : s4.crash = none := by
      have hfr : ∀ (u : St α), (epilogueElectOrDefeat A u).crash = u.crash := by
        intro u
        unfold epilogueElectOrDefeat
        have e1 : ∀ (l : List (Cand α)) (v : St α), (l.foldl (fun acc c => acc.unpendSilent c.cid) v).crash = v.crash := by
          intro l; induction l with
          | nil => intro v; rfl
          | cons c cs ih => intro v; simp only [List.foldl_cons]; rw [ih]; rfl
        have e2 : ∀ (l : List (Cand α)) (v : St α), (l.foldl (fun acc c =>
            if acc.elected.length < acc.seats then acc.elect A c.cid "Elect remaining" false
            else acc.defeat A c.cid "Defeat remaining") v).crash = v.crash := by
          intro l; induction l with
          | nil => intro v; rfl
          | cons c cs ih =>
            intro v; simp only [List.foldl_cons]; rw [ih]
            have hlog : ∀ (x : St α) tag verb subj, (x.logAct A tag verb subj).crash = x.crash := by
              intro x tag verb subj; unfold St.logAct; simp only; split <;> rfl
            split
            · unfold St.elect; rw [hlog]; rfl
            · unfold St.defeat; rw [hlog]; rfl
        rw [e2, e1]
      rw [hfr] at hcr; exact hcr
    have hguard := loopN_exit_guard stdGuard (wigmBody A o) (wigmBody_cont A o ho) _ _ _ hl hcr4
    -- exit analysis
    have hfill : nEl s4 = s4.seats ∨ nHop s4 + nEl s4 = s4.seats := by
      unfold stdGuard St.seatsLeft at hguard
      simp only [Bool.and_eq_false_iff, decide_eq_false_iff_not, not_lt] at hguard
      unfold sumHE at hJ1
      unfold nHop nEl at *
      rcases hguard with h | h
      · right; omega
      · left; omega
    -- epilogue
    unfold epilogueElectOrDefeat
    obtain ⟨u1, u2, u3⟩ := counts_foldUnpend s4.pendingL s4
    have hIu := hIE.1.foldUnpend A s4.pendingL
    have := foldRemaining_counts A hIu (s4.pendingL.foldl (fun acc c => acc.unpendSilent c.cid) s4).hopeful
      (hopeful_cids_nodup hIu.wf) (fun w hw => mem_hopeful.1 hw) rfl (by rw [u1, u2, u3]; exact hfill)
    exact ⟨this.2, this.1⟩

end Droop
