import DroopProofs.Tally

/-! # I1 is preserved by transferAll: tallies equal ballot values for candidates not being transferred from -/
namespace Droop
variable {α : Type} [AddCommGroup α] (A : Arith α)

/-- value of the ballots standing to the credit of candidate `d` -/
def St.tally (s : St α) (d : Nat) : α :=
  (s.ballots.map (fun b => if b.top = some d then bvote A b else 0)).sum

theorem sum_map_add' {β : Type} (l : List β) (f g : β → α) :
    (l.map (fun x => f x + g x)).sum = (l.map f).sum + (l.map g).sum := by
  induction l with
  | nil => simp
  | cons x xs ih => simp only [List.map_cons, List.sum_cons, ih]; abel

/-- pointwise: the moved ballot's credit to `d` = what it contributed + what it already credited -/
theorem moved_credit (s : St α) (cids : List Nat) (rew : α → α) (d : Nat) (hd : cids.contains d = false) (b : Ballot α) :
    (if (moveBallot s cids rew b).top = some d then bvote A (moveBallot s cids rew b) else 0)
      = contrib A s cids rew d b + (if b.top = some d then bvote A b else 0) := by
  unfold contrib
  cases htop : b.top with
  | none =>
    have : moveBallot s cids rew b = b := by unfold moveBallot; rw [htop]
    simp [this, htop]
  | some c =>
    have hdm : d ∉ cids := by simpa using hd
    by_cases hc : c ∈ cids
    · have hcd : c ≠ d := by
        intro e; subst e; exact hdm hc
      simp [hc, hcd]
    · have hmv : moveBallot s cids rew b = b := by
        unfold moveBallot; rw [htop]; simp [hc]
      simp [hmv, htop, hc]

/-- **I1 preserved**: if the tally invariant holds for `d` before, and `d` is not one of the candidates
    whose ballots are being moved, it holds after `transferAll`. -/
theorem transferAll_tally (hA : LawfulAdd A) (s : St α) (hwf : BallotsWF s) (cids : List Nat) (rew : α → α)
    (d : Nat) (hd : cids.contains d = false) (hI : s.voteOf d = s.tally A d) :
    (transferAll A s cids rew).voteOf d = (transferAll A s cids rew).tally A d := by
  rw [transferAll_voteOf A hA s hwf cids rew d]
  unfold St.tally
  rw [transferAll_ballots, List.map_map]
  have : ((fun b => if b.top = some d then bvote A b else 0) ∘ moveBallot s cids rew)
       = (fun b => contrib A s cids rew d b + (if b.top = some d then bvote A b else 0)) := by
    funext b; exact moved_credit A s cids rew d hd b
  rw [this, sum_map_add']
  unfold St.tally at hI
  rw [hI]; abel

end Droop
