import DroopProofs.InvBatch

/-! # CfER (cfer, cfer-batch): every round preserves the bundle -/
namespace Droop
variable {α : Type} [CommRing α] [LinearOrder α] [IsStrictOrderedRing α] (A : Arith α)

/-- electing without a pending transfer takes the candidate out of the scope of the tally invariant: no precondition -/
theorem Inv.electNP {s : St α} (h : Inv A s) (cid : Nat) (verb : String) : Inv A (s.elect A cid verb false) := by
  unfold St.elect
  apply Inv.logAct
  refine Inv.upd_status A h cid _ ?_ ?_ ?_
  · intro c; exact ⟨rfl, rfl⟩
  · intro c _ _ hs
    rcases hs with hs | ⟨_, hp⟩
    · simp at hs
    · simp at hp
  · intro c _ _ _ hp; simp at hp

theorem Inv.foldElectNP {s : St α} (h : Inv A s) (ws : List (Cand α)) (verb : String) :
    Inv A (ws.foldl (fun acc c => acc.elect A c.cid verb false) s) := by
  induction ws generalizing s with
  | nil => exact h
  | cons w ws ih => simp only [List.foldl_cons]; exact ih (h.electNP A w.cid verb)

theorem Inv.cferInit (hA : LawfulArith A) {s0 : St α} (h0 : Init A s0)
    (hq : 0 < A.add (A.divV (A.ofInt s0.nballots) (A.ofInt (s0.seats + 1))) A.eps) : Inv A (Droop.cferInit A s0) := by
  unfold Droop.cferInit; exact Inv.init A hA _ h0 hq

theorem Inv.cferElectAll {s : St α} (h : Inv A s) : Inv A (Droop.cferElectAll A s).1 := by
  unfold Droop.cferElectAll; exact h.foldElectNP A _ _

theorem Inv.cferElect (hA : LawfulArith A) (hex : A.exact = false) {s : St α} (h : Inv A s) : Inv A (Droop.cferElect A s) := by
  unfold Droop.cferElect
  apply h.electWinners A
  intro c hc
  exact hasQuotaGE_sound A hA hex s c hc

theorem Inv.cferSeatsFull {s : St α} (h : Inv A s) : Inv A (Droop.cferSeatsFull A s).1 := by
  unfold Droop.cferSeatsFull
  exact (h.foldUnpend A s.pendingL).foldDefeat A _ _

/-- what the exclusion steps hand to `cferFinishDefeats`: candidates already marked defeated whose tallies are still
    the value of their ballots -/
def JustDefeated (s : St α) (cids : List Nat) : Prop :=
  cids.Nodup ∧ ∀ cid ∈ cids, ∃ x ∈ s.cands, x.cid = cid ∧ ¬ x.inScope ∧ x.st ≠ .hopeful ∧ x.vote = s.tally A cid

theorem Inv.cferFinishDefeats (hA : LawfulArith A) {s : St α} (h : Inv A s) (defeats : List (Cand α))
    (hj : JustDefeated A s (defeats.map (·.cid))) : Inv A (Droop.cferFinishDefeats A s defeats).1 := by
  unfold Droop.cferFinishDefeats
  split
  · exact (h.foldElectNP A _ _).foldElectNP A _ _
  · exact h.transferDefeatedMany A hA _ _ hj.1 hj.2

/-- defeating distinct hopefuls (in any order) leaves them "just defeated" -/
theorem justDefeated_foldDefeat {s : St α} (h : Inv A s) (ws ws' : List (Cand α)) (verbD : String)
    (hperm : ws'.Perm ws) (hnd : (ws.map (·.cid)).Nodup) (hw : ∀ w ∈ ws, w ∈ s.hopeful) :
    JustDefeated A (ws'.foldl (fun acc c => acc.defeat A c.cid verbD) s) (ws.map (·.cid)) := by
  refine ⟨hnd, ?_⟩
  intro cid hcid
  obtain ⟨w, hwm, rfl⟩ := List.mem_map.1 hcid
  have hwc := mem_hopeful.1 (hw w hwm)
  have hnd' : (ws'.map (·.cid)).Nodup := (hperm.map _).nodup_iff.2 hnd
  have hmem := foldDefeat_mem A ws' verbD s hnd' (fun w' hw' => (mem_hopeful.1 (hw w' (hperm.subset hw'))).1) w (hperm.symm.subset hwm)
  refine ⟨_, hmem, rfl, ?_, ?_, ?_⟩
  · intro hs; rcases hs with hs | ⟨hs, _⟩ <;> simp at hs
  · simp
  · have e1 : (ws'.foldl (fun acc c => acc.defeat A c.cid verbD) s).tally A w.cid = s.tally A w.cid := by
      unfold St.tally; rw [foldDefeat_ballots]
    show w.vote = _
    rw [e1]
    exact h.i1 w hwc.1 (Or.inl hwc.2)

theorem Inv.cferDefeatBatch (hA : LawfulArith A) {s : St α} (h : Inv A s) (defeats : List (Cand α))
    (hsub : ∀ w ∈ defeats, w ∈ s.hopeful) (hnd : (defeats.map (·.cid)).Nodup) :
    Inv A (Droop.cferDefeatBatch A s defeats).1 := by
  unfold Droop.cferDefeatBatch
  apply Inv.cferFinishDefeats A hA (h.foldDefeat A _ _)
  exact justDefeated_foldDefeat A h defeats (byBallotOrder defeats) _ (pySorted_perm _ _ _) hnd hsub

theorem Inv.cferDefeatLow (hA : LawfulArith A) {s : St α} (h : Inv A s) : Inv A (Droop.cferDefeatLow A s).1 := by
  unfold Droop.cferDefeatLow
  cases hm : minVoteOf A s.hopeful with
  | none => exact h.setCrash A _
  | some lv =>
    simp only
    have hI1 := h.breakTie A (s.hopeful.filter (fun c => A.eq c.vote lv)) "Break tie (defeat)"
    have hfr := breakTie_frame A s (s.hopeful.filter (fun c => A.eq c.vote lv)) "Break tie (defeat)"
    have hmem := breakTie_mem A s (s.hopeful.filter (fun c => A.eq c.vote lv)) "Break tie (defeat)"
    cases hb : Droop.breakTie A s (s.hopeful.filter (fun c => A.eq c.vote lv)) "Break tie (defeat)" with
    | mk s1 oc =>
      rw [hb] at hI1 hfr hmem
      cases oc with
      | none => exact hI1
      | some lc =>
        simp only
        have hcm := hmem lc rfl
        rw [List.mem_filter] at hcm
        obtain ⟨hcs, hch⟩ := mem_hopeful.1 hcm.1
        obtain ⟨e1, e2, e3, e4, e5⟩ := hfr
        have hl1 : lc ∈ s1.hopeful := by
          apply mem_hopeful.2
          simp only at e1; rw [e1]; exact ⟨hcs, hch⟩
        have := justDefeated_foldDefeat A hI1 [lc] [lc] "Defeat" (List.Perm.refl _) (by simp) (by intro w hw; simp at hw; rw [hw]; exact hl1)
        simp only [List.foldl_cons, List.foldl_nil, List.map_cons, List.map_nil] at this
        exact Inv.cferFinishDefeats A hA (hI1.defeat A lc.cid "Defeat") [lc] this

end Droop

namespace Droop
variable {α : Type} [CommRing α] [LinearOrder α] [IsStrictOrderedRing α] (A : Arith α)

theorem transferSurplus_skel (s : St α) (hc : Cand α) (rew : α → α → α → α) (verb : String) :
    (transferSurplus A s hc rew verb).skel = s.skel := by
  unfold transferSurplus
  dsimp only
  unfold St.skel
  rw [logAct_cands]
  show ((transferAll A s [hc.cid] _).setVote hc.cid _).skel = s.skel
  rw [setVote_skel, transferAll_skel]

theorem cand?_mem {s : St α} {cid : Nat} {c : Cand α} (h : s.cand? cid = some c) : c ∈ s.cands ∧ c.cid = cid := by
  unfold St.cand? at h
  exact ⟨List.mem_of_find?_eq_some h, by have := List.find?_some h; simpa using this⟩

/-- the remaining pending candidates are still elected-with-transfer-pending -/
def StillPending (s : St α) (rem : List (Cand α)) : Prop :=
  ∀ c ∈ rem, ∃ x ∈ s.cands, x.cid = c.cid ∧ x.st = .elected ∧ x.pending = true

theorem Inv.cferSurplusOne (hA : LawfulArith A) {s : St α} (h : Inv A s) (c : Cand α)
    (hp : ∃ x ∈ s.cands, x.cid = c.cid ∧ x.st = .elected ∧ x.pending = true) :
    Inv A (Droop.cferSurplusOne A s c) ∧ (Droop.cferSurplusOne A s c).skel = (s.unpendLog A c.cid "Transfer surplus").skel := by
  unfold Droop.cferSurplusOne
  obtain ⟨x, hxm, hxc, hxe, hxp⟩ := hp
  cases hf : s.cand? c.cid with
  | none =>
    exfalso
    have := (cand?_isSome_iff s c.cid).2 ⟨x, hxm, hxc⟩
    rw [hf] at this; cases this
  | some cur =>
    simp only
    obtain ⟨hcm, hcc⟩ := cand?_mem hf
    have hcx : cur = x := nodup_cid_eq h.wf hcm hxm (hcc.trans hxc.symm)
    subst hcx
    refine ⟨?_, transferSurplus_skel A _ _ _ _⟩
    have h2 := h.unpendLog A c.cid "Transfer surplus"
    let y : Cand α := { cur with pending := false }
    have hy : y ∈ (s.unpendLog A c.cid "Transfer surplus").cands := by
      unfold St.unpendLog; rw [logAct_cands]
      exact mem_upd_of_eq (f := fun c => { c with pending := false }) hcm hcc
    rw [transferSurplus_congr A _ cur y (rewMulDiv A) _ rfl rfl]
    apply h2.transferSurplus A hA (rewMulDiv A) (rewMulDiv_law A hA) y _ hy
    · intro hs
      rcases hs with hs | ⟨_, hp'⟩
      · have : y.st = .elected := hxe
        rw [this] at hs; cases hs
      · simp [y] at hp'
    · have : y.st = .elected := hxe
      rw [this]; intro hh; cases hh
    · have ht : (s.unpendLog A c.cid "Transfer surplus").tally A y.cid = s.tally A cur.cid := by
        unfold St.tally St.unpendLog
        rw [logAct_ballots]; rfl
      rw [ht]
      exact h.i1 cur hcm (Or.inr ⟨hxe, hxp⟩)
    · have hq : (s.unpendLog A c.cid "Transfer surplus").quota = s.quota := by
        unfold St.unpendLog; rw [logAct_quota]; rfl
      rw [hq]
      exact h.pq cur hcm hxe hxp

theorem stillPending_step {s t : St α} (c : Cand α) (rem : List (Cand α))
    (hsk : t.skel = (s.unpendLog A c.cid "Transfer surplus").skel)
    (hne : ∀ c' ∈ rem, c'.cid ≠ c.cid) (hp : StillPending s rem) : StillPending t rem := by
  intro c' hc'
  obtain ⟨x, hxm, hxc, hxe, hxp⟩ := hp c' hc'
  have hx1 : x ∈ (s.unpendLog A c.cid "Transfer surplus").cands := by
    unfold St.unpendLog; rw [logAct_cands]
    exact mem_upd_of_ne hxm (by rw [hxc]; exact hne c' hc')
  have : x.skel ∈ (s.unpendLog A c.cid "Transfer surplus").skel := List.mem_map.2 ⟨x, hx1, rfl⟩
  rw [← hsk] at this
  obtain ⟨x', hx', hsk'⟩ := List.mem_map.1 this
  have hst := skel_st hsk'
  exact ⟨x', hx', (skel_cid hsk').trans hxc, hst.1.trans hxe, hst.2.trans hxp⟩

theorem Inv.foldSurplus (hA : LawfulArith A) (rem : List (Cand α)) {s : St α} (h : Inv A s)
    (hnd : (rem.map (·.cid)).Nodup) (hp : StillPending s rem) : Inv A (rem.foldl (Droop.cferSurplusOne A) s) := by
  induction rem generalizing s with
  | nil => exact h
  | cons c cs ih =>
    simp only [List.foldl_cons]
    simp only [List.map_cons, List.nodup_cons, List.mem_map, not_exists, not_and] at hnd
    obtain ⟨h1, hsk⟩ := h.cferSurplusOne A hA c (hp c (by simp))
    apply ih h1 hnd.2
    exact stillPending_step A c cs hsk (fun c' hc' e => hnd.1 c' hc' e) (fun c' hc' => hp c' (by simp [hc']))

theorem pendingL_cids_nodup {s : St α} (hwf : s.WF) : (s.pendingL.map (·.cid)).Nodup := by
  unfold St.pendingL
  exact List.Nodup.sublist (List.Sublist.map _ List.filter_sublist) hwf

theorem Inv.cferSurplusAll (hA : LawfulArith A) {s : St α} (h : Inv A s) : Inv A (Droop.cferSurplusAll A s) := by
  unfold Droop.cferSurplusAll
  apply h.foldSurplus A hA s.pendingL (pendingL_cids_nodup h.wf)
  intro c hc
  obtain ⟨a, b, d⟩ := mem_pendingL.1 hc
  exact ⟨c, a, rfl, b, d⟩

end Droop

namespace Droop
variable {α : Type} [CommRing α] [LinearOrder α] [IsStrictOrderedRing α] (A : Arith α)

/-- the CfER batch search returns its current best or a prefix of the vote-sorted hopefuls -/
theorem cferBatch_go_sublist (s : St α) (surplus : α) (cands : List (Cand α)) (nE : Nat) (top : Option (Cand α)) :
    ∀ (fuel t : Nat) (best : List (Cand α)), best.Sublist cands →
      (cferBatch.go A s surplus cands nE top t fuel best).Sublist cands := by
  intro fuel
  induction fuel with
  | zero => intro t best hb; unfold cferBatch.go; exact hb
  | succ n ih =>
    intro t best hb
    unfold cferBatch.go
    dsimp only
    split
    · exact hb
    · split
      · split
        · exact hb
        · split
          · exact ih _ _ hb
          · split
            · exact ih _ _ (List.take_sublist _ _)
            · exact ih _ _ hb
      · exact hb

theorem cferBatch_sublist (s : St α) : (cferBatch A s).Sublist (byVote A false s.hopeful) := by
  unfold cferBatch
  exact cferBatch_go_sublist A s _ _ _ _ _ _ _ (List.nil_sublist _)

theorem cferBatch_hopeful (s : St α) : ∀ w ∈ cferBatch A s, w ∈ s.hopeful := by
  intro w hw
  exact (mem_pySorted _ _ _ _).1 ((cferBatch_sublist A s).subset hw)

theorem cferBatch_nodup (s : St α) (hwf : s.WF) : ((cferBatch A s).map (·.cid)).Nodup := by
  apply List.Nodup.sublist ((cferBatch_sublist A s).map _)
  have hp : ((byVote A false s.hopeful).map (·.cid)).Perm (s.hopeful.map (·.cid)) := (pySorted_perm _ _ _).map _
  exact hp.nodup_iff.2 (hopeful_cids_nodup hwf)

theorem Inv.cferAfterElect (hA : LawfulArith A) (batch : Bool) {s : St α} (h : Inv A s) :
    Inv A (Droop.cferAfterElect A batch s).1 := by
  unfold Droop.cferAfterElect
  split
  · exact h.cferSeatsFull A
  · cases batch
    · simp only [Bool.false_eq_true, if_false, List.isEmpty_nil, Bool.not_true]
      split
      · exact h.cferSurplusAll A hA
      · exact h.cferDefeatLow A hA
    · simp only [if_true]
      split
      · exact h.cferDefeatBatch A hA _ (cferBatch_hopeful A s) (cferBatch_nodup A s h.wf)
      · split
        · exact h.cferSurplusAll A hA
        · exact h.cferDefeatLow A hA

theorem Inv.cferBody (hA : LawfulArith A) (hex : A.exact = false) (batch : Bool) {s : St α} (h : Inv A s) :
    Inv A (Droop.cferBody A batch s).1 := by
  unfold Droop.cferBody
  split
  · exact (h.newRound A).cferElectAll A
  · exact ((h.newRound A).cferElect A hA hex).cferAfterElect A hA batch

/-- **CfER (cfer and cfer-batch): conservation, non-negativity and the tally invariant hold in the final state and in
    every snapshot of the record, for every input** -/
theorem cfer_conservation (hA : LawfulArith A) (hex : A.exact = false) (batch : Bool) (s0 t : St α) (h0 : Init A s0)
    (hq : 0 < A.add (A.divV (A.ofInt s0.nballots) (A.ofInt (s0.seats + 1))) A.eps) (h : cferCount A batch s0 = some t) :
    Inv A (t.logAct A "end" "Count Complete" []) := by
  unfold cferCount at h
  have h4 : Inv A t :=
    loopN_preserves (Inv A) (fun _ => true) (cferBody A batch) (fun s hs => hs.cferBody A hA hex batch) _ _ _
      (Inv.cferInit A hA h0 hq) h
  exact h4.logAct A _ _ _

end Droop
