import DroopProofs.RunCommon

/-! # Once the record shows a candidate elected, the final state has that candidate elected

A consequence of the forward-only record (`Mon`) and the append-only log (`Ext`) that holds for every rule whose run
satisfies them: if some state `s` on the way has, as its newest snapshot, one in which every entry of candidate `w` carries
an elected code, then in any later state `t` (later = its log extends the log of `s`) with `Mon t`, a candidate with id `w`
exists and is elected.  Used by C05 (the majority candidate elected in round 1 is the winner at the end). -/
namespace Droop
variable {α : Type} [CommRing α] [LinearOrder α] [IsStrictOrderedRing α] (A : Arith α)

def AllEl (w : Nat) (sn : Snap α) : Prop := ∀ e ∈ sn.cs, e.1 = w → (e.2.1 = "e" ∨ e.2.1 = "E")
def HasC (w : Nat) (sn : Snap α) : Prop := ∃ e ∈ sn.cs, e.1 = w

theorem fwd_from_elected {a b : String} (ha : a = "e" ∨ a = "E") (h : fwd a b = true) : b = "e" ∨ b = "E" := by
  unfold fwd at h
  rcases ha with rfl | rfl
  · simp only [Bool.or_eq_true, beq_iff_eq, Bool.and_eq_true] at h
    rcases h with (h | h) | h
    · left; exact h.symm
    · exact absurd h.1 (by decide)
    · right; exact h.2
  · simp only [Bool.or_eq_true, beq_iff_eq, Bool.and_eq_true] at h
    rcases h with (h | h) | h
    · right; exact h.symm
    · exact absurd h.1 (by decide)
    · exact absurd h.1 (by decide)

theorem SnapStep.allEl {old new : Snap α} (h : SnapStep old new) {w : Nat} (ho : AllEl w old) : AllEl w new := by
  intro e' he' hw
  obtain ⟨e, he, h1, h2⟩ := h.1 e' he'
  exact fwd_from_elected (ho e he (h1.trans hw)) h2

theorem SnapStep.hasC {old new : Snap α} (h : SnapStep old new) {w : Nat} (ho : HasC w old) : HasC w new := by
  obtain ⟨e, he, hw⟩ := ho
  obtain ⟨e', he', h1⟩ := h.2 e he
  exact ⟨e', he', h1.trans hw⟩

/-- in a forward-only record (newest first), what an older snapshot shows as elected the newest one shows as elected -/
theorem RecMon.head_of_mem {w : Nat} : ∀ (tl : List (Snap α)) (hd old : Snap α), RecMon (hd :: tl) → old ∈ hd :: tl →
    AllEl w old → HasC w old → AllEl w hd ∧ HasC w hd := by
  intro tl
  induction tl with
  | nil =>
    intro hd old _ hmem h1 h2
    simp only [List.mem_singleton] at hmem
    subst hmem; exact ⟨h1, h2⟩
  | cons h2 tl ih =>
    intro hd old hrm hmem ha hc
    rcases List.mem_cons.1 hmem with rfl | hmem'
    · exact ⟨ha, hc⟩
    · obtain ⟨hstep, hrest⟩ := hrm
      obtain ⟨a2, c2⟩ := ih h2 old hrest hmem' ha hc
      exact ⟨hstep.allEl a2, hstep.hasC c2⟩

theorem snaps_suffix {s t : St α} (h : Ext s t) : snaps s.acts <:+ snaps t.acts := by
  unfold snaps; exact List.IsSuffix.filterMap _ h

/-- **sticky election**: `s` earlier than `t`, the newest snapshot of `s` shows `w` (present and) elected, the record of
    `t` is forward-only and its newest snapshot is behind `t`: then `t` has a candidate `w`, and it is elected -/
theorem elected_sticky {s t : St α} (hMt : Mon t) (hx : Ext s t) {w : Nat} (sn : Snap α)
    (hs : (snaps s.acts).head? = some sn) (hAll : AllEl w sn) (hHas : HasC w sn) :
    ∃ x ∈ t.cands, x.cid = w ∧ x.st = .elected := by
  have hsuf := snaps_suffix hx
  have hmem : sn ∈ snaps t.acts := by
    apply hsuf.subset
    cases hl : snaps s.acts with
    | nil => rw [hl] at hs; cases hs
    | cons a l => rw [hl] at hs; simp only [List.head?_cons, Option.some.injEq] at hs; rw [hs]; simp
  cases hl : snaps t.acts with
  | nil => rw [hl] at hmem; cases hmem
  | cons hd tl =>
    rw [hl] at hmem
    have hrm : RecMon (hd :: tl) := by have := hMt.1; rw [hl] at this; exact this
    obtain ⟨ha, hc⟩ := RecMon.head_of_mem tl hd sn hrm hmem hAll hHas
    have hb := hMt.2 hd (by rw [hl]; rfl)
    obtain ⟨e, he, hew⟩ := hc
    obtain ⟨x, hx', hxe⟩ := hb.2 e he
    refine ⟨x, hx', hxe.trans hew, ?_⟩
    obtain ⟨e2, he2, h1, _, h3⟩ := hb.1 x hx'
    have hcode := fwd_from_elected (ha e2 he2 (h1.trans (hxe.trans hew))) h3
    unfold Cand.code at hcode
    cases hst : x.st with
    | elected => rfl
    | hopeful => rw [hst] at hcode; simp at hcode
    | defeated => rw [hst] at hcode; simp at hcode
    | withdrawn => rw [hst] at hcode; simp at hcode

/-! ## the newest snapshot after a logged action is the snapshot of the state itself -/

theorem mkSnap_logAct (s : St α) (tag verb : String) (subj : List Nat) :
    (s.logAct A tag verb subj).mkSnap A = s.mkSnap A := by
  unfold St.logAct; simp only; split <;> rfl

theorem head_snap_logAct (s : St α) (tag verb : String) (subj : List Nat) :
    (snaps (s.logAct A tag verb subj).acts).head? = some (s.mkSnap A) := by
  unfold St.logAct snaps; simp only; split <;> rfl

theorem head_snap_elect (s : St α) (cid : Nat) (verb : String) (p : Bool) :
    (snaps (s.elect A cid verb p).acts).head? = some ((s.elect A cid verb p).mkSnap A) := by
  unfold St.elect; rw [head_snap_logAct, mkSnap_logAct]

theorem head_snap_foldElect (ws : List (Cand α)) (hne : ws ≠ []) (verb : Cand α → String) (pend : Cand α → Bool) (s : St α) :
    (snaps (ws.foldl (fun acc x => acc.elect A x.cid (verb x) (pend x)) s).acts).head?
      = some ((ws.foldl (fun acc x => acc.elect A x.cid (verb x) (pend x)) s).mkSnap A) := by
  induction ws generalizing s with
  | nil => exact absurd rfl hne
  | cons x xs ih =>
    simp only [List.foldl_cons]
    cases xs with
    | nil => simp only [List.foldl_nil]; exact head_snap_elect A s x.cid _ _
    | cons y ys => exact ih (by simp) _

/-- the snapshot of a state in which every candidate with id `w` is elected, and one exists -/
theorem allEl_mkSnap {s : St α} {w : Nat} (h : ∀ c ∈ s.cands, c.cid = w → c.st = .elected) : AllEl w (s.mkSnap A) := by
  intro e he hw
  unfold St.mkSnap at he
  obtain ⟨c, hc, rfl⟩ := List.mem_map.1 he
  have := h c hc hw
  simp only [Cand.code, this]
  split
  · left; rfl
  · right; rfl

theorem hasC_mkSnap {s : St α} {w : Nat} (h : ∃ c ∈ s.cands, c.cid = w) : HasC w (s.mkSnap A) := by
  obtain ⟨c, hc, hw⟩ := h
  refine ⟨(c.cid, c.code s.method, c.vote, c.kf, c.quotient), ?_, hw⟩
  unfold St.mkSnap
  exact List.mem_map.2 ⟨c, hc, rfl⟩

end Droop
