import DroopProofs.FixedLaws
import Mathlib.Tactic.IntervalCases

/-! # C13: Guarded comparison law; guard = 0 is Fixed -/
namespace Droop

theorem geps_pos (g : Nat) : 0 < geps g := by
  unfold geps
  split
  · omega
  · have : 0 ≤ pow10 g / 2 := Int.ediv_nonneg (le_of_lt (pow10_pos g)) (by omega)
    rename_i h
    have hne : pow10 g / 2 ≠ 0 := by simpa using h
    omega

/-- `x < geps g ↔ 2x < 10^g` : "less than half a unit of the declared precision" (for every g, also g = 0) -/
theorem lt_geps_iff (g : Nat) (x : Int) (hx : 0 ≤ x) : x < geps g ↔ 2 * x < pow10 g := by
  unfold geps
  cases g with
  | zero =>
    have : pow10 0 = 1 := by simp [pow10]
    simp [this]; omega
  | succ n =>
    have h10 : pow10 (n+1) = 10 * pow10 n := by simp [pow10, pow_succ, mul_comm]
    have hp := pow10_pos n
    have hdiv : pow10 (n+1) / 2 = 5 * pow10 n := by rw [h10]; omega
    rw [hdiv]
    have hne : (5 * pow10 n == 0) = false := by
      simp only [beq_eq_false_iff_ne, ne_eq]; omega
    simp only [hne, Bool.false_eq_true, if_false]
    rw [h10]
    constructor <;> intro h <;> omega

/-- tolerance law: equal exactly when the stored values differ by less than half a unit of precision -/
theorem guarded_cmp_eq_iff (g : Nat) (a b : Int) : guardedCmp g a b = 0 ↔ 2 * |a - b| < pow10 g := by
  have habs : ((a - b).natAbs : Int) = |a - b| := Int.natCast_natAbs (a - b)
  unfold guardedCmp
  simp only [habs]
  rw [← lt_geps_iff g _ (abs_nonneg _)]
  by_cases h : |a - b| < geps g
  · simp [h]
  · simp [h]; split <;> omega

/-- otherwise the order of the stored values -/
theorem guarded_cmp_order (g : Nat) (a b : Int) (h : ¬ 2 * |a - b| < pow10 g) :
    (guardedCmp g a b = 1 ↔ a > b) ∧ (guardedCmp g a b = -1 ↔ a < b) := by
  have habs : ((a - b).natAbs : Int) = |a - b| := Int.natCast_natAbs (a - b)
  have h' : ¬ |a - b| < geps g := by rwa [lt_geps_iff g _ (abs_nonneg _)]
  have hne : a ≠ b := by
    intro e; subst e
    apply h'; simp [geps_pos]
  unfold guardedCmp
  simp only [habs, h', if_false]
  constructor <;> constructor <;> intro hh <;> (try split at hh) <;> (try split) <;> omega

/-- exactly one of <, ==, > -/
theorem guarded_trichotomy (g : Nat) (a b : Int) :
    guardedCmp g a b = -1 ∨ guardedCmp g a b = 0 ∨ guardedCmp g a b = 1 := by
  unfold guardedCmp
  simp only
  split
  · right; left; rfl
  · split
    · right; right; rfl
    · left; rfl

/-- with no guard digits the comparison is the exact one -/
theorem guarded_cmp_g0 (a b : Int) : guardedCmp 0 a b = intCmp a b := by
  have habs : ((a - b).natAbs : Int) = |a - b| := Int.natCast_natAbs (a - b)
  have hg : geps 0 = 1 := by simp [geps, pow10]
  unfold guardedCmp intCmp
  simp only [habs, hg]
  by_cases h1 : a < b
  · have : ¬ |a - b| < 1 := by rw [abs_lt]; omega
    have h2 : ¬ a > b := by omega
    simp [h1, this, h2]
  · by_cases h2 : a = b
    · subst h2; simp
    · have : ¬ |a - b| < 1 := by rw [abs_lt]; omega
      have h3 : a > b := by omega
      simp [h1, h2, this, h3]

/-- guard = 0: every operation of Guarded is the operation of Fixed (only the class name differs) -/
theorem guarded_g0_eq_fixed (p : Nat) :
    guardedArith p 0 = { fixedArith p with name := "guarded" } := by
  unfold guardedArith fixedArith
  simp only [Nat.add_zero, beq_self_eq_true, if_true, bne_self_eq_false]
  congr 1
  funext a b
  exact guarded_cmp_g0 a b

end Droop
