import DroopProofs.FixedLaws
import Mathlib.Tactic.IntervalCases

/-! # C13: Guarded comparison law; guard = 0 is Fixed -/
namespace Droop

theorem geps_pos (g : Nat) : 0 < geps g := by
  unfold geps
  split
  · omega
  · have : 0 ≤ pow10 g / 2 := Int.ediv_nonneg (le_of_lt (pow10_pos g)) (by omega)
    rename_i h
    have hne : pow10 g / 2 ≠ 0 := by simpa using h
    omega

/-- `x < geps g ↔ 2x < 10^g` : "less than half a unit of the declared precision" (for every g, also g = 0) -/
theorem lt_geps_iff (g : Nat) (x : Int) (hx : 0 ≤ x) : x < geps g ↔ 2 * x < pow10 g := by
  unfold geps
  cases g with
  | zero =>
    have : pow10 0 = 1 := by simp [pow10]
    simp [this]; omega
  | succ n =>
    have h10 : pow10 (n+1) = 10 * pow10 n := by simp [pow10, pow_succ, mul_comm]
    have hp := pow10_pos n
    have hdiv : pow10 (n+1) / 2 = 5 * pow10 n := by rw [h10]; omega
    rw [hdiv]
    have hne : (5 * pow10 n == 0) = false := by
      simp only [beq_eq_false_iff_ne, ne_eq]; omega
    simp only [hne, Bool.false_eq_true, if_false]
    rw [h10]
    constructor <;> intro h <;> omega

/-- tolerance law: equal exactly when the stored values differ by less than half a unit of precision -/
theorem guarded_cmp_eq_iff (g : Nat) (a b : Int) : guardedCmp g a b = 0 ↔ 2 * |a - b| < pow10 g := by
  have habs : ((a - b).natAbs : Int) = |a - b| := Int.natCast_natAbs (a - b)
  unfold guardedCmp
  simp only [habs]
  rw [← lt_geps_iff g _ (abs_nonneg _)]
  by_cases h : |a - b| < geps g
  · simp [h]
  · simp [h]; split <;> omega

/-- otherwise the order of the stored values -/
theorem guarded_cmp_order (g : Nat) (a b : Int) (h : ¬ 2 * |a - b| < pow10 g) :
    (guardedCmp g a b = 1 ↔ a > b) ∧ (guardedCmp g a b = -1 ↔ a < b) := by
  have habs : ((a - b).natAbs : Int) = |a - b| := Int.natCast_natAbs (a - b)
  have h' : ¬ |a - b| < geps g := by rwa [lt_geps_iff g _ (abs_nonneg _)]
  have hne : a ≠ b := by
    intro e; subst e
    apply h'; simp [geps_pos]
  unfold guardedCmp
  simp only [habs, h', if_false]
  constructor <;> constructor <;> intro hh <;> (try split at hh) <;> (try split) <;> omega

/-- exactly one of <, ==, > -/
theorem guarded_trichotomy (g : Nat) (a b : Int) :
    guardedCmp g a b = -1 ∨ guardedCmp g a b = 0 ∨ guardedCmp g a b = 1 := by
  unfold guardedCmp
  simp only
  split
  · right; left; rfl
  · split
    · right; right; rfl
    · left; rfl

/-- with no guard digits the comparison is the exact one -/
theorem guarded_cmp_g0 (a b : Int) : guardedCmp 0 a b = intCmp a b := by
  have habs : ((a - b).natAbs : Int) = |a - b| := Int.natCast_natAbs (a - b)
  have hg : geps 0 = 1 := by simp [geps, pow10]
  unfold guardedCmp intCmp
  simp only [habs, hg]
  by_cases h1 : a < b
  · have : ¬ |a - b| < 1 := by rw [abs_lt]; omega
    have h2 : ¬ a > b := by omega
    simp [h1, this, h2]
  · by_cases h2 : a = b
    · subst h2; simp
    · have : ¬ |a - b| < 1 := by rw [abs_lt]; omega
      have h3 : a > b := by omega
      simp [h1, h2, this, h3]

/-- guard = 0: every operation of Guarded is the operation of Fixed (only the class name differs) -/
theorem guarded_g0_eq_fixed (p : Nat) :
    guardedArith p 0 = { fixedArith p with name := "guarded" } := by
  unfold guardedArith fixedArith
  simp only [Nat.add_zero, beq_self_eq_true, if_true, bne_self_eq_false]
  congr 1
  funext a b
  exact guarded_cmp_g0 a b

/-! ## the comparison statistics (third clause of C13, at the level of the comparisons themselves)

`statsRun g s pairs` is what `Guarded.maxDiff` / `Guarded.minDiff` hold after the comparisons `pairs`.  They bound every
comparison made: a pair that compared equal differs by at most `maxDiff`; a pair that compared unequal differs by at least
`minDiff`.  In particular, when `maxDiff = 0` after a count, every comparison the count made had the outcome an exact comparison
of the stored values has (`stats_clear_exact`). -/

theorem statsStep_max_mono (g : Nat) (s : CmpStats) (ab : Int × Int) : s.maxDiff ≤ (statsStep g s ab).maxDiff := by
  unfold statsStep; simp only; split <;> omega

theorem statsStep_min_anti (g : Nat) (s : CmpStats) (ab : Int × Int) : (statsStep g s ab).minDiff ≤ s.minDiff := by
  unfold statsStep; simp only; split <;> omega

theorem statsRun_max_mono (g : Nat) (s : CmpStats) (l : List (Int × Int)) : s.maxDiff ≤ (statsRun g s l).maxDiff := by
  unfold statsRun
  induction l generalizing s with
  | nil => exact le_refl _
  | cons x xs ih => simp only [List.foldl_cons]; exact le_trans (statsStep_max_mono g s x) (ih _)

theorem statsRun_min_anti (g : Nat) (s : CmpStats) (l : List (Int × Int)) : (statsRun g s l).minDiff ≤ s.minDiff := by
  unfold statsRun
  induction l generalizing s with
  | nil => exact le_refl _
  | cons x xs ih => simp only [List.foldl_cons]; exact le_trans (ih _) (statsStep_min_anti g s x)

/-- every pair that compared equal differs by at most `maxDiff` -/
theorem stats_maxDiff_bounds (g : Nat) (s : CmpStats) (l : List (Int × Int)) (ab : Int × Int) (hm : ab ∈ l)
    (he : guardedCmp g ab.1 ab.2 = 0) : |ab.1 - ab.2| ≤ (statsRun g s l).maxDiff := by
  have habs : ((ab.1 - ab.2).natAbs : Int) = |ab.1 - ab.2| := Int.natCast_natAbs _
  induction l generalizing s with
  | nil => cases hm
  | cons x xs ih =>
    have hrun : statsRun g s (x :: xs) = statsRun g (statsStep g s x) xs := rfl
    rw [hrun]
    rcases List.mem_cons.1 hm with rfl | hin
    · refine le_trans ?_ (statsRun_max_mono g _ xs)
      have hlt : |ab.1 - ab.2| < geps g := by
        rw [lt_geps_iff g _ (abs_nonneg _)]; exact (guarded_cmp_eq_iff g _ _).1 he
      unfold statsStep
      simp only [habs]
      split <;> omega
    · exact ih _ hin

/-- every pair that compared unequal differs by at least `minDiff` -/
theorem stats_minDiff_bounds (g : Nat) (s : CmpStats) (l : List (Int × Int)) (ab : Int × Int) (hm : ab ∈ l)
    (he : guardedCmp g ab.1 ab.2 ≠ 0) : (statsRun g s l).minDiff ≤ |ab.1 - ab.2| := by
  have habs : ((ab.1 - ab.2).natAbs : Int) = |ab.1 - ab.2| := Int.natCast_natAbs _
  induction l generalizing s with
  | nil => cases hm
  | cons x xs ih =>
    have hrun : statsRun g s (x :: xs) = statsRun g (statsStep g s x) xs := rfl
    rw [hrun]
    rcases List.mem_cons.1 hm with rfl | hin
    · refine le_trans (statsRun_min_anti g _ xs) ?_
      have hge : ¬ |ab.1 - ab.2| < geps g := by
        rw [lt_geps_iff g _ (abs_nonneg _)]; intro h; exact he ((guarded_cmp_eq_iff g _ _).2 h)
      unfold statsStep
      simp only [habs]
      split <;> omega
    · exact ih _ hin

/-- **clear statistics: every comparison was exact.**  If `maxDiff` is still 0 after the comparisons `l` (from the state
    `Guarded.initialize` leaves), each of them had the outcome of the exact comparison of the stored values -/
theorem stats_clear_exact (p g : Nat) (l : List (Int × Int)) (h0 : (statsRun g (statsInit p g) l).maxDiff = 0)
    (ab : Int × Int) (hm : ab ∈ l) : guardedCmp g ab.1 ab.2 = intCmp ab.1 ab.2 := by
  by_cases he : guardedCmp g ab.1 ab.2 = 0
  · have hb := stats_maxDiff_bounds g (statsInit p g) l ab hm he
    rw [h0] at hb
    have : ab.1 = ab.2 := by
      have := abs_nonneg (ab.1 - ab.2)
      have h0' : |ab.1 - ab.2| = 0 := le_antisymm hb this
      have := abs_eq_zero.1 h0'
      omega
    rw [he, this]; unfold intCmp; simp
  · have hno : ¬ 2 * |ab.1 - ab.2| < pow10 g := fun h => he ((guarded_cmp_eq_iff g _ _).2 h)
    obtain ⟨h1, h2⟩ := guarded_cmp_order g ab.1 ab.2 hno
    rcases guarded_trichotomy g ab.1 ab.2 with hc | hc | hc
    · have := h2.1 hc; rw [hc]; unfold intCmp; simp [this]
    · exact absurd hc he
    · have := h1.1 hc; rw [hc]; unfold intCmp
      have h3 : ¬ ab.1 < ab.2 := by omega
      have h4 : ¬ ab.1 = ab.2 := by omega
      simp [h3, h4]

/-- non-vacuity: a sequence with a sub-tolerance difference is recorded whichever operand is larger -/
example : (statsRun 4 (statsInit 2 4) [(100, 3434), (7, 7), (90000, 10)]).maxDiff = 3334 := by decide
example : (statsRun 4 (statsInit 2 4) [(7, 7), (90000, 10)]).maxDiff = 0 := by decide

end Droop
