import DroopModel.Core
import Mathlib.Data.List.Perm.Basic

/-! # The model of Python's `sorted` returns a permutation of its input -/
namespace Droop
variable {β : Type}

theorem binInsertAll_perm (lt : β → β → Bool) (sorted xs : List β) :
    (binInsertAll lt sorted xs).Perm (sorted ++ xs) := by
  induction xs generalizing sorted with
  | nil => simp [binInsertAll]
  | cons x xs ih =>
    unfold binInsertAll
    refine (ih _).trans ?_
    have hpos : insertPos lt sorted x ≤ sorted.length := by unfold insertPos; exact Nat.min_le_right _ _
    have h1 : (sorted.insertIdx (insertPos lt sorted x) x).Perm (x :: sorted) := List.perm_insertIdx x sorted hpos
    refine (List.Perm.append_right xs h1).trans ?_
    simp only [List.cons_append]
    exact (List.perm_middle).symm

theorem pySortAsc_perm (lt : β → β → Bool) (l : List β) : (pySortAsc lt l).Perm l := by
  unfold pySortAsc
  split
  · exact List.Perm.refl _
  · exact List.Perm.refl _
  · rename_i x y rest
    split
    · refine (binInsertAll_perm lt _ _).trans ?_
      refine (List.Perm.append_right _ (List.reverse_perm _)).trans ?_
      rw [List.take_append_drop]
    · refine (binInsertAll_perm lt _ _).trans ?_
      rw [List.take_append_drop]

theorem pySorted_perm (lt : β → β → Bool) (rev : Bool) (l : List β) : (pySorted lt rev l).Perm l := by
  unfold pySorted
  split
  · exact (List.reverse_perm _).trans ((pySortAsc_perm lt _).trans (List.reverse_perm _))
  · exact pySortAsc_perm lt l

theorem mem_pySorted (lt : β → β → Bool) (rev : Bool) (l : List β) (x : β) : x ∈ pySorted lt rev l ↔ x ∈ l :=
  (pySorted_perm lt rev l).mem_iff

end Droop
