import DroopProofs.Terminate

/-! # wigm / wigm-prf never run out of fuel: C01 "the count terminates", non-batch variants -/
namespace Droop
variable {α : Type} [CommRing α] [LinearOrder α] [IsStrictOrderedRing α] (A : Arith α)

theorem guard_hopeful_ne (s : St α) (h : stdGuard s = true) : s.hopeful ≠ [] := by
  unfold stdGuard at h
  simp only [Bool.and_eq_true, decide_eq_true_eq] at h
  intro hn
  rw [hn] at h
  simp only [List.length_nil] at h
  omega

theorem wigmBody_progress (hA : LawfulArith A) (o : WigmOpts) (ho : o.plain) (hex : o.prf = true → A.exact = false)
    {s : St α} (hI : Inv A s) (hg : stdGuard s = true) :
    mu (wigmBody A o s).1 < mu s ∨ (wigmBody A o s).1.crash.isSome = true := by
  unfold wigmBody
  have hI1 := hI.newRound A
  have hI2 := hI1.wigmElect A hA o hex
  have hmu2 : mu (wigmElect A o (s.newRound A)) ≤ mu s := by
    rw [← mu_newRound A s]
    unfold wigmElect
    apply mu_electWinners_le A hI1
    intro c hc
    by_cases hp : o.prf = true
    · simp only [hp, if_true] at hc; exact hasQuotaGE_sound A hA (hex hp) _ c hc
    · simp only [hp] at hc; exact hasQuotaX_sound A hA _ c hc
  unfold wigmAfterElect
  have hsure : wigmSure A o (wigmElect A o (s.newRound A)) = [] := by unfold wigmSure; simp [ho.2]
  simp only [hsure, List.isEmpty_nil, Bool.not_true, Bool.false_eq_true, if_false]
  split
  · rename_i hp
    have hp' : (wigmElect A o (s.newRound A)).pendingL ≠ [] := by
      intro e; rw [e] at hp; simp at hp
    rcases wigmSurplusStep_progress A hI2 hp' with h | h
    · left; exact Nat.lt_of_lt_of_le h hmu2
    · right; exact h
  · split
    · rename_i _ hh
      have hh' : (wigmElect A o (s.newRound A)).hopeful ≠ [] := by
        intro e; rw [e] at hh; simp at hh
      rcases wigmDefeatStep_progress A o ho.1 hI2 hh' with h | h
      · left; exact Nat.lt_of_lt_of_le h hmu2
      · right; exact h
    · -- impossible: a hopeful candidate existed, and electing only turns hopefuls into pending
      rename_i hp hh
      exfalso
      have hne := guard_hopeful_ne s hg
      obtain ⟨c, hc⟩ := List.exists_mem_of_ne_nil _ hne
      obtain ⟨hcm, hch⟩ := mem_hopeful.1 hc
      have hstart : ∃ c' ∈ (s.newRound A).cands, c'.cid = c.cid ∧ c'.active := by
        refine ⟨c, ?_, rfl, Or.inl hch⟩
        unfold St.newRound; rw [logAct_cands]; exact hcm
      have := active_foldElect A
        ((byVote A true (s.newRound A).hopeful).filter ((if o.prf then hasQuotaGE A else hasQuotaX A) (s.newRound A)))
        (fun _ => "Elect, transfer pending") (s.newRound A) c.cid hstart
      obtain ⟨c', hc'm, _, hact⟩ := this
      have hmem : c' ∈ (wigmElect A o (s.newRound A)).cands := hc'm
      rcases hact with hho | ⟨hel, hpe⟩
      · have : c' ∈ (wigmElect A o (s.newRound A)).hopeful := mem_hopeful.2 ⟨hmem, hho⟩
        have hnil : (wigmElect A o (s.newRound A)).hopeful = [] := by
          cases hl : (wigmElect A o (s.newRound A)).hopeful with
          | nil => rfl
          | cons x xs => rw [hl] at hh; simp at hh
        rw [hnil] at this; simp at this
      · have : c' ∈ (wigmElect A o (s.newRound A)).pendingL := mem_pendingL.2 ⟨hmem, hel, hpe⟩
        have hnil : (wigmElect A o (s.newRound A)).pendingL = [] := by
          cases hl : (wigmElect A o (s.newRound A)).pendingL with
          | nil => rfl
          | cons x xs => rw [hl] at hp; simp at hp
        rw [hnil] at this; simp at this

/-- a loop whose body makes progress (measure drops or crash flag raised) and preserves `P` does not run out of fuel -/
theorem loopN_total (P : St α → Prop) (guard : St α → Bool) (body : St α → St α × Flow)
    (hP : ∀ s, P s → P (body s).1)
    (hprog : ∀ s, P s → guard s = true → mu (body s).1 < mu s ∨ (body s).1.crash.isSome = true) :
    ∀ (fuel : Nat) (s : St α), P s → 1 ≤ fuel → (s.crash.isSome = true ∨ mu s + 2 ≤ fuel) →
      ∃ t, loopN guard body fuel s = some t := by
  intro fuel
  induction fuel with
  | zero => intro s _ h1 _; omega
  | succ n ih =>
    intro s hPs _ hm
    unfold loopN
    by_cases hc : s.crash.isSome = true
    · exact ⟨s, by simp [hc]⟩
    · have hmu : mu s + 2 ≤ n + 1 := by
        rcases hm with h | h
        · exact absurd h hc
        · exact h
      by_cases hg : guard s = true
      · simp only [hc, hg, if_true]
        have hP' := hP s hPs
        have hpr := hprog s hPs hg
        cases hbody : body s with
        | mk s' fl =>
          rw [hbody] at hP' hpr
          cases fl with
          | brk => exact ⟨s', rfl⟩
          | cont =>
            apply ih s' hP' (by omega)
            rcases hpr with h | h
            · right; simp only at h; omega
            · left; exact h
      · exact ⟨s, by simp [hc, hg]⟩

theorem mu_le_two_mul (s : St α) : mu s ≤ 2 * s.cands.length := by
  rw [mu_eq]
  induction s.cands with
  | nil => simp
  | cons c cs ih =>
    simp only [List.map_cons, List.sum_cons, List.length_cons]
    have : rk c ≤ 2 := by
      unfold rk rkSkel; split
      · omega
      · split <;> omega
      · omega
    omega

theorem wigmInit_cands_length (o : WigmOpts) (s0 : St α) : (wigmInit A o s0).cands.length = s0.cands.length := by
  have : (wigmInit A o s0).skel = s0.skel := by
    unfold wigmInit
    unfold St.skel; rw [logAct_cands]
    show ((firstCount A (s0.setQuota (wigmQuota A o s0))).setExhausted A.zero).skel = _
    rw [firstCount_eq]
    exact (foldl_fcStep_skel A _ _)
  have h2 := congrArg List.length this
  unfold St.skel at h2; simpa using h2

/-- **C01 (termination), wigm / wigm-prf without batch exclusions**: for every input satisfying `Init` and every
    lawful arithmetic, the count returns (the model never answers `outOfFuel`). -/
theorem wigmCount_terminates (hA : LawfulArith A) (o : WigmOpts) (ho : o.plain) (hex : o.prf = true → A.exact = false)
    (s0 : St α) (h0 : Init A s0) (hq : 0 < wigmQuota A o s0) : ∃ t, wigmCount A o s0 = some t := by
  have hinit := Inv.wigmInit A hA o h0 hq
  have hfuel : mu (wigmInit A o s0) + 2 ≤ 2 * s0.cands.length + 3 := by
    have := mu_le_two_mul (wigmInit A o s0)
    rw [wigmInit_cands_length] at this
    omega
  obtain ⟨t, ht⟩ := loopN_total (Inv A) stdGuard (wigmBody A o)
    (fun s hs => hs.wigmBody A hA o ho hex)
    (fun s hs hg => wigmBody_progress A hA o ho hex hs hg)
    (2 * s0.cands.length + 3) (wigmInit A o s0) hinit (by omega) (Or.inr hfuel)
  exact ⟨epilogueElectOrDefeat A t, by unfold wigmCount; rw [ht]⟩

end Droop
