import DroopProofs.InvInit

/-! # J2: inside the main loop the elected never exceed the seats (the quota argument) -/
namespace Droop
variable {α : Type} [CommRing α] [LinearOrder α] [IsStrictOrderedRing α] (A : Arith α)

/-- every elected candidate (pending or not) holds at least a quota -/
def ElectedHoldQuota (s : St α) : Prop := ∀ c ∈ s.cands, c.st = .elected → s.quota ≤ c.vote

/-- the Droop condition on the quota: one more than `seats` quotas exceed the ballots -/
def DroopQuota (s : St α) : Prop := ((s.nballots : Int) : α) * A.one < ((s.seats + 1 : Nat) : α) * s.quota

theorem sum_ge_card_mul (l : List (Cand α)) (q : α) (h : ∀ c ∈ l, q ≤ c.vote) :
    (l.length : α) * q ≤ (l.map (·.vote)).sum := by
  induction l with
  | nil => simp
  | cons x xs ih =>
    simp only [List.length_cons, List.map_cons, List.sum_cons]
    have := ih (fun c hc => h c (by simp [hc]))
    have hx := h x (by simp)
    push_cast
    linarith

/-- **at most `seats` candidates can hold a quota** -/
theorem elected_le_seats {s : St α} (h : Inv A s) (he : ElectedHoldQuota s) (hd : DroopQuota A s) :
    s.elected.length ≤ s.seats := by
  by_contra hlt
  have hgt : s.seats + 1 ≤ s.elected.length := by omega
  have h1 : (s.elected.length : α) * s.quota ≤ (s.elected.map (·.vote)).sum := by
    apply sum_ge_card_mul
    intro c hc
    unfold St.elected at hc
    rw [List.mem_filter] at hc
    exact he c hc.1 (by simpa using hc.2)
  have h2 : (s.elected.map (·.vote)).sum ≤ s.sumVotes := by
    unfold St.elected St.sumVotes
    exact sum_filter_le s.cands _ (·.vote) h.vpos
  have h3 : s.sumVotes ≤ ((s.nballots : Int) : α) * A.one := by
    have := h.cons; unfold St.total at this
    linarith [h.epos]
  have h4 : ((s.seats + 1 : Nat) : α) * s.quota ≤ (s.elected.length : α) * s.quota := by
    apply mul_le_mul_of_nonneg_right _ (le_of_lt h.qpos)
    exact_mod_cast hgt
  unfold DroopQuota at hd
  linarith

/-- the Fixed-point quota `⌊n·S/(s+1)⌋ + 1` units satisfies the Droop condition -/
theorem fixed_droopQuota (p : Nat) (n seats : Nat) :
    ((n : Int)) * pow10 p < ((seats + 1 : Nat) : Int) * (pdiv ((n : Int) * pow10 p * pow10 p) (((seats + 1 : Nat) : Int) * pow10 p) + 1) := by
  have hS := pow10_pos p
  have hk : (0 : Int) < ((seats + 1 : Nat) : Int) := by exact_mod_cast Nat.succ_pos seats
  have hden : (0 : Int) < ((seats + 1 : Nat) : Int) * pow10 p := mul_pos hk hS
  unfold pdiv
  rw [Int.fdiv_eq_ediv_of_nonneg _ (le_of_lt hden)]
  have hlt := Int.lt_ediv_add_one_mul_self ((n : Int) * pow10 p * pow10 p) hden
  -- n·S·S < (q+1)·((s+1)·S)  ⇒  n·S < (s+1)·(q+1)
  have : (n : Int) * pow10 p * pow10 p < (((seats + 1 : Nat) : Int) * ((n : Int) * pow10 p * pow10 p / (((seats + 1 : Nat) : Int) * pow10 p) + 1)) * pow10 p := by
    nlinarith
  exact lt_of_mul_lt_mul_right this (le_of_lt hS)

end Droop
