import DroopProofs.InvInit

/-! # The Scottish rule: every stage preserves the bundle; conservation and tally invariants at run level -/
namespace Droop
variable {α : Type} [CommRing α] [LinearOrder α] [IsStrictOrderedRing α] (A : Arith α)

theorem scotBreakTie_frame (s : St α) (tied : List (Cand α)) (lowest : Bool) (reason : String) :
    (scotBreakTie A s tied lowest reason).1.cands = s.cands ∧ (scotBreakTie A s tied lowest reason).1.ballots = s.ballots
    ∧ (scotBreakTie A s tied lowest reason).1.exhausted = s.exhausted ∧ (scotBreakTie A s tied lowest reason).1.quota = s.quota
    ∧ (scotBreakTie A s tied lowest reason).1.nballots = s.nballots := by
  unfold scotBreakTie
  split
  · exact setCrash_frame s _
  · exact ⟨rfl, rfl, rfl, rfl, rfl⟩
  · dsimp only
    split
    · exact logAct_frame A s _ _ _
    · exact logAct_frame A s _ _ _

theorem Inv.scotBreakTie {s : St α} (h : Inv A s) (tied : List (Cand α)) (lowest : Bool) (reason : String) :
    Inv A (Droop.scotBreakTie A s tied lowest reason).1 := by
  unfold Droop.scotBreakTie
  split
  · exact h.setCrash A _
  · exact h
  · dsimp only
    split
    · exact h.logAct A _ _ _
    · exact h.logAct A _ _ _

theorem scotBreakTie_mem (s : St α) (tied : List (Cand α)) (lowest : Bool) (reason : String) (c : Cand α)
    (h : (scotBreakTie A s tied lowest reason).2 = some c) : c ∈ tied := by
  unfold scotBreakTie at h
  split at h
  · cases h
  · cases h; simp
  · dsimp only at h
    split at h
    · exact List.mem_of_find?_eq_some h
    · have : c ∈ byTieOrder tied := List.mem_of_head? h
      exact (mem_pySorted _ _ _ _).1 this

theorem Inv.setSurplus {s : St α} (h : Inv A s) (v : α) : Inv A (s.setSurplus v) :=
  h.of_same A rfl rfl rfl rfl rfl rfl rfl

theorem Inv.scotSurplusStep (hA : LawfulArith A) {s : St α} (h : Inv A s) : Inv A (Droop.scotSurplusStep A s) := by
  unfold Droop.scotSurplusStep
  cases hm : maxVoteOf A s.pendingL with
  | none => exact h
  | some hv =>
    simp only
    have hI1 := h.scotBreakTie A (s.pendingL.filter (fun c => A.eq c.vote hv)) false "largest surplus"
    have hfr := scotBreakTie_frame A s (s.pendingL.filter (fun c => A.eq c.vote hv)) false "largest surplus"
    have hmem := scotBreakTie_mem A s (s.pendingL.filter (fun c => A.eq c.vote hv)) false "largest surplus"
    cases hb : Droop.scotBreakTie A s (s.pendingL.filter (fun c => A.eq c.vote hv)) false "largest surplus" with
    | mk s1 oc =>
      rw [hb] at hI1 hfr hmem
      cases oc with
      | none => exact hI1
      | some hc =>
        simp only
        have hcm := hmem hc rfl
        rw [List.mem_filter] at hcm
        obtain ⟨hcs, hce, hcp⟩ := mem_pendingL.1 hcm.1
        obtain ⟨e1, e2, e3, e4, e5⟩ := hfr
        have hcs1 : hc ∈ s1.cands := by simp only at e1; rw [e1]; exact hcs
        have h2 := hI1.unpendLog A hc.cid "Transfer high surplus"
        let x : Cand α := { hc with pending := false }
        have hx : x ∈ (s1.unpendLog A hc.cid "Transfer high surplus").cands := by
          unfold St.unpendLog; rw [logAct_cands]
          exact mem_upd_of_eq (f := fun c => { c with pending := false }) hcs1 rfl
        rw [transferSurplus_congr A _ hc x (rewMuldivDown A) _ rfl rfl]
        apply h2.transferSurplus A hA (rewMuldivDown A) (rewMuldivDown_law A hA) x _ hx
        · intro hs
          rcases hs with hs | ⟨_, hp⟩
          · have : x.st = .elected := hce
            rw [this] at hs; cases hs
          · simp [x] at hp
        · have : x.st = .elected := hce
          rw [this]; intro hh; cases hh
        · have ht : (s1.unpendLog A hc.cid "Transfer high surplus").tally A x.cid = s.tally A hc.cid := by
            unfold St.tally St.unpendLog
            rw [logAct_ballots]
            show (List.map _ s1.ballots).sum = _
            simp only at e2; rw [e2]
          rw [ht]
          exact h.i1 hc hcs (Or.inr ⟨hce, hcp⟩)
        · have hq : (s1.unpendLog A hc.cid "Transfer high surplus").quota = s.quota := by
            unfold St.unpendLog; rw [logAct_quota]; simp only at e4; exact e4
          rw [hq]
          exact h.pq hc hcs hce hcp

theorem Inv.scotDefeatStep (hA : LawfulArith A) {s : St α} (h : Inv A s) : Inv A (Droop.scotDefeatStep A s) := by
  unfold Droop.scotDefeatStep
  cases hm : minVoteOf A s.hopeful with
  | none => exact h
  | some lv =>
    simp only
    have hI1 := h.scotBreakTie A (s.hopeful.filter (fun c => A.eq c.vote lv)) true "defeat low candidate"
    have hfr := scotBreakTie_frame A s (s.hopeful.filter (fun c => A.eq c.vote lv)) true "defeat low candidate"
    have hmem := scotBreakTie_mem A s (s.hopeful.filter (fun c => A.eq c.vote lv)) true "defeat low candidate"
    cases hb : Droop.scotBreakTie A s (s.hopeful.filter (fun c => A.eq c.vote lv)) true "defeat low candidate" with
    | mk s1 oc =>
      rw [hb] at hI1 hfr hmem
      cases oc with
      | none => exact hI1
      | some lc =>
        simp only
        have hcm := hmem lc rfl
        rw [List.mem_filter] at hcm
        obtain ⟨hcs, hch⟩ := mem_hopeful.1 hcm.1
        obtain ⟨e1, e2, e3, e4, e5⟩ := hfr
        have hcs1 : lc ∈ s1.cands := by simp only at e1; rw [e1]; exact hcs
        have h2 := hI1.defeat A lc.cid "Defeat low candidate"
        let x : Cand α := { lc with st := .defeated }
        have hx : x ∈ (s1.defeat A lc.cid "Defeat low candidate").cands := by
          unfold St.defeat; rw [logAct_cands]
          exact mem_upd_of_eq (f := fun c => { c with st := .defeated }) hcs1 rfl
        exact h2.transferDefeated1 A hA x "Transfer defeated" hx
          (by intro hs; rcases hs with hs | ⟨hs, _⟩ <;> simp [x] at hs)
          (by simp [x])
          (by
            have ht : (s1.defeat A lc.cid "Defeat low candidate").tally A x.cid = s.tally A lc.cid := by
              unfold St.tally St.defeat
              rw [logAct_ballots]
              show (List.map _ s1.ballots).sum = _
              simp only at e2; rw [e2]
            rw [ht]
            exact h.i1 lc hcs (Or.inl hch))

theorem Inv.scotElect (hA : LawfulArith A) (hex : A.exact = false) {s : St α} (h : Inv A s) : Inv A (Droop.scotElect A s) := by
  unfold Droop.scotElect
  apply h.electWinners A
  intro c hc
  exact hasQuotaGE_sound A hA hex s c hc

theorem Inv.scotBody (hA : LawfulArith A) (hex : A.exact = false) {s : St α} (h : Inv A s) :
    Inv A (Droop.scotBody A s).1 := by
  unfold Droop.scotBody
  have h1 := h.scotElect A hA hex
  split
  · exact h1
  · have h2 : Inv A (scotRound A (Droop.scotElect A s)) := by
      unfold scotRound; exact (h1.newRound A).setSurplus A _
    unfold scotStage
    split
    · exact h2.scotSurplusStep A hA
    · split
      · unfold scotFinish; split <;> exact h2.scotDefeatStep A hA
      · unfold scotFinish; split <;> exact h2

theorem Inv.foldElectRemaining {s : St α} (h : Inv A s) (ws : List (Cand α)) (verb : String)
    (hnd : (ws.map (·.cid)).Nodup) (hw : ∀ w ∈ ws, w ∈ s.cands ∧ w.st = .hopeful) :
    Inv A (ws.foldl (fun acc c => acc.elect A c.cid verb false) s) := by
  apply h.foldElect A ws (fun _ => verb) (fun _ => false) hnd
  intro w hw'
  obtain ⟨a, b⟩ := hw w hw'
  exact ⟨a, b, fun hp => by cases hp⟩

theorem Inv.foldDefeat {s : St α} (h : Inv A s) (ws : List (Cand α)) (verb : String) :
    Inv A (ws.foldl (fun acc c => acc.defeat A c.cid verb) s) := by
  induction ws generalizing s with
  | nil => exact h
  | cons w ws ih => simp only [List.foldl_cons]; exact ih (h.defeat A w.cid verb)

theorem Inv.scotEpilogue {s : St α} (h : Inv A s) : Inv A (Droop.scotEpilogue A s) := by
  unfold Droop.scotEpilogue
  dsimp only
  have h5 := h.foldUnpend A s.pendingL
  apply Inv.foldDefeat
  split
  · exact h5.foldElectRemaining A _ _ (hopeful_cids_nodup h5.wf) (fun w hw => mem_hopeful.1 hw)
  · exact h5

/-- **Scottish rule (fixed-point arithmetic): conservation, non-negativity and the tally invariant hold in the
    final state and in every snapshot of the record, for every input.** -/
theorem scot_conservation (hA : LawfulArith A) (hex : A.exact = false) (s0 t : St α) (h0 : Init A s0)
    (hq : 0 < A.ofInt (pdiv s0.nballots (s0.seats + 1) + 1)) (h : scotCount A s0 = some t) :
    Inv A (t.logAct A "end" "Count Complete" []) := by
  unfold scotCount at h
  cases hl : loopN (fun _ => true) (scotBody A) (2 * s0.cands.length + 3) (scotInit A s0) with
  | none => rw [hl] at h; cases h
  | some s4 =>
    rw [hl] at h; cases h
    have h4 : Inv A s4 :=
      loopN_preserves (Inv A) (fun _ => true) (scotBody A) (fun s hs => hs.scotBody A hA hex) _ _ _
        (Inv.scotInit A hA h0 hq) hl
    exact (h4.scotEpilogue A).logAct A _ _ _

end Droop
