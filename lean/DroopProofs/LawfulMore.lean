import DroopProofs.Lawful
import DroopProofs.GuardedLaws
import Mathlib.Tactic.FieldSimp

/-! # The Guarded and Rational arithmetics are lawful too -/
namespace Droop

theorem guarded_lawful (p g : Nat) : LawfulArith (guardedArith p g) := by
  have hS := pow10_pos (p + g)
  refine
    { add_eq := fun _ _ => rfl, sub_eq := fun _ _ => rfl, zero_eq := rfl, one_pos := hS,
      ofInt_eq := fun n => by simp [guardedArith],
      mulV_ofInt := ?_, rew_nonneg := ?_, rew_le := ?_, muldiv_nonneg := ?_, muldiv_le := ?_,
      ge_sound := ?_, gt_sound := ?_ }
  · intro w m
    show pdiv (w * (m * pow10 (p + g))) (pow10 (p + g)) = w * m
    rw [← mul_assoc]; exact pdiv_mul_cancel _ _ hS
  · intro w s v hw hs hv
    have hv0 : (v == 0) = false := by simp; exact ne_of_gt hv
    show 0 ≤ (if (v == 0) = true then 0 else pdiv (pdiv (w * s) (pow10 (p + g)) * pow10 (p + g)) v)
    simp only [hv0, Bool.false_eq_true, if_false]
    exact pdiv_nonneg _ _ (mul_nonneg (pdiv_nonneg _ _ (mul_nonneg hw hs) hS) (le_of_lt hS)) hv
  · intro w s v hw hs hv
    have hv0 : (v == 0) = false := by simp; exact ne_of_gt hv
    show (if (v == 0) = true then 0 else pdiv (pdiv (w * s) (pow10 (p + g)) * pow10 (p + g)) v) * v ≤ w * s
    simp only [hv0, Bool.false_eq_true, if_false]
    exact le_trans (pdiv_mul_le _ _ hv) (pdiv_mul_le _ _ hS)
  · intro w s v hw hs hv
    have hv0 : (v == 0) = false := by simp; exact ne_of_gt hv
    show 0 ≤ divmodRound (if g == 0 then Round.down else Round.down) (w * s) v
    simp only [ite_self, divmodRound, hv0, Bool.false_eq_true, if_false]
    simp
    exact pdiv_nonneg _ _ (mul_nonneg hw hs) hv
  · intro w s v hw hs hv
    have hv0 : (v == 0) = false := by simp; exact ne_of_gt hv
    show divmodRound (if g == 0 then Round.down else Round.down) (w * s) v * v ≤ w * s
    simp only [ite_self, divmodRound, hv0, Bool.false_eq_true, if_false]
    simp
    exact pdiv_mul_le _ _ hv
  · intro a b hex h
    have hg : g = 0 := by
      simp only [guardedArith] at hex
      simpa using hex
    subst hg
    simp only [Arith.ge, guardedArith, guarded_cmp_g0, intCmp] at h
    by_contra hlt
    have : a < b := by omega
    simp [this] at h
  · intro a b h
    simp only [Arith.gt, guardedArith, guardedCmp] at h
    by_contra hle
    split at h
    · simp at h
    · by_cases hab : a > b
      · exact hle hab
      · simp [hab] at h

theorem rational_lawful : LawfulArith rationalArith := by
  refine
    { add_eq := fun _ _ => rfl, sub_eq := fun _ _ => rfl, zero_eq := rfl, one_pos := by simp [rationalArith],
      ofInt_eq := fun n => by simp [rationalArith],
      mulV_ofInt := fun w m => rfl, rew_nonneg := ?_, rew_le := ?_, muldiv_nonneg := ?_, muldiv_le := ?_,
      ge_sound := ?_, gt_sound := ?_ }
  · intro w s v hw hs hv
    have hv0 : (v == 0) = false := by simp; exact ne_of_gt hv
    show 0 ≤ (if (v == 0) = true then 0 else w * s / v)
    simp only [hv0, Bool.false_eq_true, if_false]
    exact div_nonneg (mul_nonneg hw hs) (le_of_lt hv)
  · intro w s v hw hs hv
    have hv0 : (v == 0) = false := by simp; exact ne_of_gt hv
    show (if (v == 0) = true then 0 else w * s / v) * v ≤ w * s
    simp only [hv0, Bool.false_eq_true, if_false]
    rw [div_mul_cancel₀ _ (ne_of_gt hv)]
  · intro w s v hw hs hv
    have hv0 : (v == 0) = false := by simp; exact ne_of_gt hv
    show 0 ≤ (if (v == 0) = true then 0 else w * s / v)
    simp only [hv0, Bool.false_eq_true, if_false]
    exact div_nonneg (mul_nonneg hw hs) (le_of_lt hv)
  · intro w s v hw hs hv
    have hv0 : (v == 0) = false := by simp; exact ne_of_gt hv
    show (if (v == 0) = true then 0 else w * s / v) * v ≤ w * s
    simp only [hv0, Bool.false_eq_true, if_false]
    rw [div_mul_cancel₀ _ (ne_of_gt hv)]
  · intro a b hex _
    simp [rationalArith] at hex
  · intro a b h
    simp only [Arith.gt, rationalArith, ratCmp] at h
    by_contra hle
    have hle' : a ≤ b := not_lt.1 hle
    by_cases h1 : a < b
    · simp [h1] at h
    · have hab : a = b := le_antisymm hle' (not_lt.1 h1)
      simp [hab] at h

end Droop
