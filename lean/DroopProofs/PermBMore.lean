import DroopProofs.PermBWigm
import DroopProofs.OracleBridge

/-! # C10, scotland / cfer / cfer-batch: reordering the ballot lines commutes with the count -/
namespace Droop
variable {α : Type} [CommRing α] [LinearOrder α] [IsStrictOrderedRing α] (A : Arith α)
variable {π : ∀ {β : Type}, List β → List β}

section
variable (hA : LawfulArith A) (hπ : NatPerm π)
include hA hπ

/-! ## scotland -/

omit hA in
theorem permB_scotBreakTie (s : St α) (tied : List (Cand α)) (lowest : Bool) (reason : String) :
    scotBreakTie A (permB π s) tied lowest reason
      = (permB π (scotBreakTie A s tied lowest reason).1, (scotBreakTie A s tied lowest reason).2) := by
  unfold scotBreakTie
  match tied with
  | [] => simp only; rw [permB_setCrash]
  | [c] => rfl
  | c :: d :: r =>
    simp only
    have hr : (permB π s).rounds = s.rounds := rfl
    rw [hr, round_permB]
    cases ((s.rounds.take s.round).reverse).findSome? (scotPrior A (List.map (fun x => x.cid) (c :: d :: r)) lowest) with
    | some cn0 => simp only; rw [permB_logAct A hπ]
    | none => simp only; rw [permB_logAct A hπ]

omit hA in
theorem permB_scotElect (s : St α) : permB π (scotElect A s) = scotElect A (permB π s) := by
  unfold scotElect electWinners
  have hq : hasQuotaGE A (permB π s) = hasQuotaGE A s := by funext c; rfl
  rw [hq]
  exact permB_foldElect A hπ _ (fun _ => "Elect, transfer pending") (fun _ => true) s

theorem permB_scotSurplusStep (s : St α) : permB π (scotSurplusStep A s) = scotSurplusStep A (permB π s) := by
  unfold scotSurplusStep
  dsimp only [pendingL_permB]
  cases hm : maxVoteOf A s.pendingL with
  | none => rfl
  | some hv =>
    simp only
    rw [permB_scotBreakTie A hπ]
    cases hb : scotBreakTie A s (s.pendingL.filter (fun c => A.eq c.vote hv)) false "largest surplus" with
    | mk s1 oc =>
      cases oc with
      | none => rfl
      | some hc => simp only; rw [permB_transferSurplus A hA hπ, permB_unpendLog A hπ]

theorem permB_scotDefeatStep (s : St α) : permB π (scotDefeatStep A s) = scotDefeatStep A (permB π s) := by
  unfold scotDefeatStep
  dsimp only [hopeful_permB]
  cases hm : minVoteOf A s.hopeful with
  | none => rfl
  | some lv =>
    simp only
    rw [permB_scotBreakTie A hπ]
    cases hb : scotBreakTie A s (s.hopeful.filter (fun c => A.eq c.vote lv)) true "defeat low candidate" with
    | mk s1 oc =>
      cases oc with
      | none => rfl
      | some lc => simp only; rw [permB_transferDefeated A hA hπ, permB_defeat A hπ]

omit hA hπ in
theorem scotCountComplete_permB (s : St α) : scotCountComplete (permB π s) = scotCountComplete s := rfl

omit hA in
theorem permB_scotRound (s : St α) : permB π (scotRound A s) = scotRound A (permB π s) := by
  unfold scotRound
  rw [← permB_newRound A hπ]
  rfl

theorem permB_scotBody (s : St α) : scotBody A (permB π s) = (permB π (scotBody A s).1, (scotBody A s).2) := by
  unfold scotBody
  rw [← permB_scotElect A hπ]
  by_cases hc : scotCountComplete (scotElect A s) = true
  · rw [if_pos (show scotCountComplete (permB π (scotElect A s)) = true from hc), if_pos hc]
  · rw [if_neg (show ¬ scotCountComplete (permB π (scotElect A s)) = true from hc), if_neg hc, ← permB_scotRound A hπ]
    generalize scotRound A (scotElect A s) = s2
    unfold scotStage
    by_cases h2 : (!s2.pendingL.isEmpty) = true
    · rw [if_pos (show (!(permB π s2).pendingL.isEmpty) = true from h2), if_pos h2]
      simp only; rw [permB_scotSurplusStep A hA hπ]
    · rw [if_neg (show ¬ (!(permB π s2).pendingL.isEmpty) = true from h2), if_neg h2]
      by_cases h3 : (!s2.hopeful.isEmpty) = true
      · rw [if_pos (show (!(permB π s2).hopeful.isEmpty) = true from h3), if_pos h3, ← permB_scotDefeatStep A hA hπ]
        unfold scotFinish
        by_cases h4 : scotCountComplete (scotDefeatStep A s2) = true
        · rw [if_pos (show scotCountComplete (permB π (scotDefeatStep A s2)) = true from h4), if_pos h4]
        · rw [if_neg (show ¬ scotCountComplete (permB π (scotDefeatStep A s2)) = true from h4), if_neg h4]
      · rw [if_neg (show ¬ (!(permB π s2).hopeful.isEmpty) = true from h3), if_neg h3]
        unfold scotFinish
        by_cases h4 : scotCountComplete s2 = true
        · rw [if_pos (show scotCountComplete (permB π s2) = true from h4), if_pos h4]
        · rw [if_neg (show ¬ scotCountComplete (permB π s2) = true from h4), if_neg h4]

omit hA in
theorem permB_scotEpilogue (s : St α) : permB π (scotEpilogue A s) = scotEpilogue A (permB π s) := by
  unfold scotEpilogue
  dsimp only [pendingL_permB]
  rw [← permB_foldUnpend]
  generalize s.pendingL.foldl (fun acc c => acc.unpendSilent c.cid) s = s5
  by_cases hf : decide ((s5.hopeful.length : Int) ≤ s5.seatsLeft) = true
  · rw [if_pos (show decide (((permB π s5).hopeful.length : Int) ≤ (permB π s5).seatsLeft) = true from hf), if_pos hf]
    have h6 : permB π (s5.hopeful.foldl (fun acc c => acc.elect A c.cid "Elect remaining candidates" false) s5)
        = (permB π s5).hopeful.foldl (fun acc c => acc.elect A c.cid "Elect remaining candidates" false) (permB π s5) :=
      permB_foldElect A hπ _ (fun _ => "Elect remaining candidates") (fun _ => false) s5
    rw [← h6]
    exact permB_foldDefeat A hπ _ (fun _ => "Defeat remaining candidates") _
  · rw [if_neg (show ¬ decide (((permB π s5).hopeful.length : Int) ≤ (permB π s5).seatsLeft) = true from hf), if_neg hf]
    exact permB_foldDefeat A hπ _ (fun _ => "Defeat remaining candidates") _

theorem permB_scotInit (s0 : St α) : permB π (scotInit A s0) = scotInit A (permB π s0) := by
  unfold scotInit
  rw [permB_logAct A hπ]
  have : permB π ((firstCount A (s0.setQuota (A.ofInt (pdiv s0.nballots (s0.seats + 1) + 1)))).setExhausted A.zero)
      = (permB π (firstCount A (s0.setQuota (A.ofInt (pdiv s0.nballots (s0.seats + 1) + 1))))).setExhausted A.zero := rfl
  rw [this, permB_firstCount A hA hπ]
  rfl

/-- **C10, Scottish rule** -/
theorem scot_permB (s0 : St α) : scotCount A (permB π s0) = (scotCount A s0).map (permB π) := by
  unfold scotCount
  have hlen : (permB π s0).cands.length = s0.cands.length := rfl
  rw [hlen, ← permB_scotInit A hA hπ, loopN_permB (fun _ => true) (scotBody A) (fun _ => rfl) (permB_scotBody A hA hπ)]
  cases loopN (fun _ => true) (scotBody A) (2 * s0.cands.length + 3) (scotInit A s0) with
  | none => rfl
  | some s4 => simp only [Option.map_some]; rw [permB_scotEpilogue A hπ]

/-! ## cfer, cfer-batch -/

theorem permB_cferFinishDefeats (s : St α) (defeats : List (Cand α)) :
    cferFinishDefeats A (permB π s) defeats = (permB π (cferFinishDefeats A s defeats).1, (cferFinishDefeats A s defeats).2) := by
  unfold cferFinishDefeats
  by_cases h : s.hopeful.length + s.elected.length ≤ s.seats
  · rw [if_pos (show (permB π s).hopeful.length + (permB π s).elected.length ≤ (permB π s).seats from h), if_pos h]
    simp only
    have h1 : permB π (s.pendingL.foldl (fun acc c => acc.elect A c.cid "Elect pending" false) s)
        = (permB π s).pendingL.foldl (fun acc c => acc.elect A c.cid "Elect pending" false) (permB π s) :=
      permB_foldElect A hπ s.pendingL (fun _ => "Elect pending") (fun _ => false) s
    rw [← h1]
    exact (permB_foldElect A hπ _ (fun _ => "Elect remaining") (fun _ => false) _).symm ▸ rfl
  · rw [if_neg (show ¬ (permB π s).hopeful.length + (permB π s).elected.length ≤ (permB π s).seats from h), if_neg h]
    simp only; rw [permB_transferDefeated A hA hπ]

omit hA in
theorem permB_cferElect (s : St α) : permB π (cferElect A s) = cferElect A (permB π s) := by
  unfold cferElect electWinners
  have hq : hasQuotaGE A (permB π s) = hasQuotaGE A s := by funext c; rfl
  rw [hq]
  exact permB_foldElect A hπ _ (fun c => if A.gt c.vote s.quota then "Elect, transfer pending" else "Elect")
    (fun c => A.gt c.vote s.quota) s

omit hA in
theorem permB_cferSeatsFull (s : St α) :
    cferSeatsFull A (permB π s) = (permB π (cferSeatsFull A s).1, (cferSeatsFull A s).2) := by
  unfold cferSeatsFull
  dsimp only [pendingL_permB]
  rw [← permB_foldUnpend]
  have := permB_foldDefeat A hπ (s.pendingL.foldl (fun acc c => acc.unpendSilent c.cid) s).hopeful (fun _ => "Defeat remaining")
    (s.pendingL.foldl (fun acc c => acc.unpendSilent c.cid) s)
  rw [this]
  rfl

omit hA hπ in
theorem cferBatch_go_permB (s : St α) (surplus : α) (cands : List (Cand α)) (nEl : Nat) (top : Option (Cand α)) :
    ∀ (fuel t : Nat) (best : List (Cand α)),
      cferBatch.go A (permB π s) surplus cands nEl top t fuel best = cferBatch.go A s surplus cands nEl top t fuel best := by
  intro fuel
  induction fuel with
  | zero => intro t best; rfl
  | succ n ih =>
    intro t best
    unfold cferBatch.go
    simp only [seats_permB, quota_permB, ih]

omit hA hπ in
theorem cferBatch_permB (s : St α) : cferBatch A (permB π s) = cferBatch A s := by
  unfold cferBatch
  exact cferBatch_go_permB A s _ _ _ _ _ _ _

theorem permB_cferSurplusOne (s : St α) (c : Cand α) : permB π (cferSurplusOne A s c) = cferSurplusOne A (permB π s) c := by
  unfold cferSurplusOne
  have hc : (permB π s).cand? c.cid = s.cand? c.cid := rfl
  rw [hc]
  cases s.cand? c.cid with
  | none => rfl
  | some cur => simp only; rw [permB_transferSurplus A hA hπ, permB_unpendLog A hπ]

theorem permB_cferSurplusAll (s : St α) : permB π (cferSurplusAll A s) = cferSurplusAll A (permB π s) := by
  unfold cferSurplusAll
  dsimp only [pendingL_permB]
  generalize s.pendingL = l
  induction l generalizing s with
  | nil => rfl
  | cons c cs ih => simp only [List.foldl_cons]; rw [ih, permB_cferSurplusOne A hA hπ]

theorem permB_cferDefeatLow (s : St α) :
    cferDefeatLow A (permB π s) = (permB π (cferDefeatLow A s).1, (cferDefeatLow A s).2) := by
  unfold cferDefeatLow
  dsimp only [hopeful_permB]
  cases hm : minVoteOf A s.hopeful with
  | none => simp only; rw [permB_setCrash]
  | some lv =>
    simp only
    rw [permB_breakTie A hπ]
    cases hb : breakTie A s (s.hopeful.filter (fun c => A.eq c.vote lv)) "Break tie (defeat)" with
    | mk s1 oc =>
      cases oc with
      | none => rfl
      | some lc => simp only; rw [← permB_defeat A hπ]; exact permB_cferFinishDefeats A hA hπ _ [lc]

theorem permB_cferAfterElect (batch : Bool) (s : St α) :
    cferAfterElect A batch (permB π s) = (permB π (cferAfterElect A batch s).1, (cferAfterElect A batch s).2) := by
  unfold cferAfterElect
  have hb : cferBatch A (permB π s) = cferBatch A s := cferBatch_permB A s
  by_cases h1 : s.elected.length ≥ s.seats
  · rw [if_pos (show (permB π s).elected.length ≥ (permB π s).seats from h1), if_pos h1]; exact permB_cferSeatsFull A hπ s
  · rw [if_neg (show ¬ (permB π s).elected.length ≥ (permB π s).seats from h1), if_neg h1]
    by_cases h2 : (!(if batch then cferBatch A s else []).isEmpty) = true
    · rw [hb, if_pos h2, if_pos h2]
      unfold cferDefeatBatch
      have hd := permB_foldDefeat A hπ (byBallotOrder (if batch then cferBatch A s else [])) (fun _ => "Defeat batch") s
      rw [← hd]
      exact permB_cferFinishDefeats A hA hπ _ _
    · rw [hb, if_neg h2, if_neg h2]
      by_cases h3 : (!s.pendingL.isEmpty) = true
      · rw [if_pos (show (!(permB π s).pendingL.isEmpty) = true from h3), if_pos h3]
        simp only; rw [permB_cferSurplusAll A hA hπ]
      · rw [if_neg (show ¬ (!(permB π s).pendingL.isEmpty) = true from h3), if_neg h3]
        exact permB_cferDefeatLow A hA hπ s

theorem permB_cferBody (batch : Bool) (s : St α) :
    cferBody A batch (permB π s) = (permB π (cferBody A batch s).1, (cferBody A batch s).2) := by
  unfold cferBody
  rw [← permB_newRound A hπ]
  generalize s.newRound A = s1
  by_cases h : (s1.round == 1 && decide (s1.hopeful.length ≤ s1.seats)) = true
  · rw [if_pos (show ((permB π s1).round == 1 && decide ((permB π s1).hopeful.length ≤ (permB π s1).seats)) = true from h), if_pos h]
    unfold cferElectAll
    simp only
    rw [permB_foldElect A hπ s1.hopeful (fun _ => "Elect all") (fun _ => false) s1]
    rfl
  · rw [if_neg (show ¬ ((permB π s1).round == 1 && decide ((permB π s1).hopeful.length ≤ (permB π s1).seats)) = true from h), if_neg h,
      ← permB_cferElect A hπ]
    exact permB_cferAfterElect A hA hπ batch _

theorem permB_gInit (q : α) (s0 : St α) : permB π (gInit A q s0) = gInit A q (permB π s0) := by
  unfold gInit
  rw [permB_logAct A hπ]
  have : permB π ((firstCount A (s0.setQuota q)).setExhausted A.zero) = (permB π (firstCount A (s0.setQuota q))).setExhausted A.zero := rfl
  rw [this, permB_firstCount A hA hπ]
  rfl

/-- **C10, cfer / cfer-batch** -/
theorem cfer_permB (batch : Bool) (s0 : St α) : cferCount A batch (permB π s0) = (cferCount A batch s0).map (permB π) := by
  unfold cferCount
  have hlen : (permB π s0).cands.length = s0.cands.length := rfl
  have hi : cferInit A (permB π s0) = permB π (cferInit A s0) := by
    rw [cferInit_eq, cferInit_eq, permB_gInit A hA hπ]; rfl
  rw [hlen, hi]
  exact loopN_permB (fun _ => true) (cferBody A batch) (fun _ => rfl) (permB_cferBody A hA hπ batch) _ _

/-! ## mpls -/

omit hA hπ in
theorem mplsSurplusAll_permB (s : St α) (d : Bool) : mplsSurplusAll A (permB π s) d = mplsSurplusAll A s d := rfl

omit hA hπ in
theorem mplsCertainLosers_go_permB (s : St α) (surplus : α) (sorted : List (Cand α)) (maxDefeat : Int) :
    ∀ (fuel cx : Nat) (vote : α) (losers : List (Cand α)),
      mplsCertainLosers.go A surplus sorted maxDefeat cx fuel vote losers
        = mplsCertainLosers.go A surplus sorted maxDefeat cx fuel vote losers := fun _ _ _ _ => rfl

omit hA hπ in
theorem mplsCertainLosers_permB (s : St α) (surplus : α) : mplsCertainLosers A (permB π s) surplus = mplsCertainLosers A s surplus := rfl

omit hA in
theorem permB_mplsLogTransfer (s : St α) (verb : String) (subj : List Nat) :
    permB π (mplsLogTransfer A s verb subj) = mplsLogTransfer A (permB π s) verb subj := by
  unfold mplsLogTransfer
  rw [permB_logAct A hπ]
  rfl

omit hA in
theorem permB_mplsCountVotes (s : St α) : permB π (mplsCountVotes A s) = mplsCountVotes A (permB π s) := by
  unfold mplsCountVotes
  rw [permB_logAct A hπ]
  rfl

theorem mplsDefeatSet_permB (s : St α) : mplsDefeatSet A (permB π s) = mplsDefeatSet A s := by
  have hsum : A.sum (((π s.ballots).filter (fun b => match b.top with
                                           | some c => s.isUndeclared c
                                           | none => false)).map (bvote A))
      = A.sum ((s.ballots.filter (fun b => match b.top with
                                           | some c => s.isUndeclared c
                                           | none => false)).map (bvote A)) := by
    rw [arith_sum_eq A hA, arith_sum_eq A hA]
    exact (((hπ.perm s.ballots).filter _).map _).sum_eq
  have e : mplsDefeatSet A (permB π s) =
      (if s.round == 2 then s.hopeful.filter (·.undeclared) else []) ++
      (mplsCertainLosers A s (A.add s.surplus
          (if s.round == 2 then
            A.sum (((π s.ballots).filter (fun b => match b.top with
                                               | some c => s.isUndeclared c
                                               | none => false)).map (bvote A))
           else A.zero))).filter
        (fun c => !(if s.round == 2 then s.hopeful.filter (·.undeclared) else []).any (fun u => u.cid == c.cid)) := rfl
  rw [e, hsum]
  rfl

theorem permB_mplsDefeatMany (s : St α) (l : List (Cand α)) :
    mplsDefeatMany A (permB π s) l = (permB π (mplsDefeatMany A s l).1, (mplsDefeatMany A s l).2) := by
  unfold mplsDefeatMany
  simp only
  rw [permB_mplsLogTransfer A hπ, permB_foldSetZero, permB_transferAll A hA hπ]
  have := permB_foldDefeat A hπ l mplsDefeatVerb s
  rw [this]

theorem permB_mplsElectSurplus (s : St α) (hwq : List (Cand α)) (hv : α) :
    mplsElectSurplus A (permB π s) hwq hv = (permB π (mplsElectSurplus A s hwq hv).1, (mplsElectSurplus A s hwq hv).2) := by
  unfold mplsElectSurplus
  rw [permB_breakTie A hπ]
  cases hb : breakTie A s (hwq.filter (fun c => A.eq c.vote hv)) "Break tie (largest surplus)" with
  | mk s3 oc =>
    cases oc with
    | none => rfl
    | some hc =>
      simp only
      rw [permB_mplsLogTransfer A hπ, permB_setVote, permB_transferAll A hA hπ, permB_elect A hπ]
      have hq : (transferAll A (s3.elect A hc.cid "Elect" false) [hc.cid]
            (fun w => rewMulDiv A w (A.sub hc.vote (s3.elect A hc.cid "Elect" false).quota) hc.vote)).quota
          = (transferAll A ((permB π s3).elect A hc.cid "Elect" false) [hc.cid]
            (fun w => rewMulDiv A w (A.sub hc.vote ((permB π s3).elect A hc.cid "Elect" false).quota) hc.vote)).quota := by
        rw [transferAll_quota, transferAll_quota]
        unfold St.elect; rw [logAct_quota, logAct_quota]; rfl
      rw [hq]
      have hq2 : (s3.elect A hc.cid "Elect" false).quota = ((permB π s3).elect A hc.cid "Elect" false).quota := by
        unfold St.elect; rw [logAct_quota, logAct_quota]; rfl
      rw [hq2]

theorem permB_mplsDefeatLow (s : St α) : permB π (mplsDefeatLow A s) = mplsDefeatLow A (permB π s) := by
  unfold mplsDefeatLow
  by_cases h : decide ((s.hopeful.length : Int) > s.seatsLeft) = true
  · rw [if_pos h, if_pos (show decide (((permB π s).hopeful.length : Int) > (permB π s).seatsLeft) = true from h)]
    dsimp only [hopeful_permB]
    cases hm : minVoteOf A s.hopeful with
    | none => rfl
    | some lv =>
      simp only
      rw [permB_breakTie A hπ]
      cases hb : breakTie A s (s.hopeful.filter (fun c => A.eq c.vote lv)) "Break tie (defeat low candidate)" with
      | mk s3 oc =>
        cases oc with
        | none => rfl
        | some lc =>
          simp only
          rw [← permB_defeat A hπ]
          generalize s3.defeat A lc.cid "Defeat low candidate" = s4
          unfold mplsAfterDefeatLow
          by_cases h4 : decide ((s4.hopeful.length : Int) > s4.seatsLeft) = true
          · rw [if_pos h4, if_pos (show decide (((permB π s4).hopeful.length : Int) > (permB π s4).seatsLeft) = true from h4),
              permB_mplsLogTransfer A hπ, permB_setVote, permB_transferAll A hA hπ]
          · rw [if_neg h4, if_neg (show ¬ decide (((permB π s4).hopeful.length : Int) > (permB π s4).seatsLeft) = true from h4)]
  · rw [if_neg h, if_neg (show ¬ decide (((permB π s).hopeful.length : Int) > (permB π s).seatsLeft) = true from h)]

theorem permB_mplsRound (s : St α) : mplsRound A (permB π s) = (permB π (mplsRound A s).1, (mplsRound A s).2) := by
  unfold mplsRound
  rw [mplsDefeatSet_permB A hA hπ]
  by_cases h1 : (!(mplsDefeatSet A s).isEmpty) = true
  · rw [if_pos h1, if_pos h1]; exact permB_mplsDefeatMany A hA hπ s _
  · rw [if_neg h1, if_neg h1]
    have hq : hasQuotaGE A (permB π s) = hasQuotaGE A s := by funext c; rfl
    dsimp only [hopeful_permB]
    rw [hq]
    cases (byVote A true s.hopeful).filter (hasQuotaGE A s) with
    | cons h hs => simp only; exact permB_mplsElectSurplus A hA hπ s _ _
    | nil =>
      simp only
      rw [← permB_mplsDefeatLow A hA hπ]
      unfold mplsFinish
      by_cases h2 : decide (((mplsDefeatLow A s).hopeful.length : Int) ≤ (mplsDefeatLow A s).seatsLeft) = true
      · rw [if_pos h2, if_pos (show decide (((permB π (mplsDefeatLow A s)).hopeful.length : Int) ≤ (permB π (mplsDefeatLow A s)).seatsLeft) = true from h2)]
      · rw [if_neg h2, if_neg (show ¬ decide (((permB π (mplsDefeatLow A s)).hopeful.length : Int) ≤ (permB π (mplsDefeatLow A s)).seatsLeft) = true from h2)]

theorem permB_mplsBody (s : St α) : mplsBody A (permB π s) = (permB π (mplsBody A s).1, (mplsBody A s).2) := by
  unfold mplsBody
  rw [← permB_mplsCountVotes A hπ]
  generalize mplsCountVotes A s = sc
  have hat : mplsAtThreshold A (permB π sc) = mplsAtThreshold A sc := rfl
  rw [hat]
  by_cases h : sc.elected.length + (mplsAtThreshold A sc).length ≥ sc.seats
  · rw [if_pos h, if_pos (show (permB π sc).elected.length + (mplsAtThreshold A sc).length ≥ (permB π sc).seats from h)]
    unfold mplsElectThreshold
    rw [hat]
    simp only
    rw [permB_foldElect A hπ _ (fun _ => "Candidate at threshold") (fun _ => false) sc]
  · rw [if_neg h, if_neg (show ¬ (permB π sc).elected.length + (mplsAtThreshold A sc).length ≥ (permB π sc).seats from h),
      ← permB_newRound A hπ]
    exact permB_mplsRound A hA hπ _

omit hA in
theorem permB_mplsEpilogue (s : St α) : permB π (mplsEpilogue A s) = mplsEpilogue A (permB π s) := by
  unfold mplsEpilogue
  by_cases hf : decide ((s.hopeful.length : Int) ≤ s.seatsLeft) = true
  · simp only [if_pos hf, if_pos (show decide (((permB π s).hopeful.length : Int) ≤ (permB π s).seatsLeft) = true from hf)]
    have h6 : permB π (s.hopeful.foldl (fun acc c => acc.elect A c.cid "Elect remaining candidates" false) s)
        = (permB π s).hopeful.foldl (fun acc c => acc.elect A c.cid "Elect remaining candidates" false) (permB π s) :=
      permB_foldElect A hπ _ (fun _ => "Elect remaining candidates") (fun _ => false) s
    rw [← h6]
    exact permB_foldDefeat A hπ _ (fun _ => "Defeat remaining candidates") _
  · simp only [if_neg hf, if_neg (show ¬ decide (((permB π s).hopeful.length : Int) ≤ (permB π s).seatsLeft) = true from hf)]
    exact permB_foldDefeat A hπ _ (fun _ => "Defeat remaining candidates") _

theorem permB_mplsInit (s0 : St α) : permB π (mplsInit A s0) = mplsInit A (permB π s0) := by
  unfold mplsInit
  rw [permB_newRound A hπ]
  have : permB π ((firstCount A (s0.setQuota (A.ofInt (pdiv s0.nballots (s0.seats + 1) + 1)))).setExhausted A.zero)
      = (permB π (firstCount A (s0.setQuota (A.ofInt (pdiv s0.nballots (s0.seats + 1) + 1))))).setExhausted A.zero := rfl
  rw [this, permB_firstCount A hA hπ]
  rfl

/-- **C10, Minneapolis rule** -/
theorem mpls_permB (s0 : St α) : mplsCount A (permB π s0) = (mplsCount A s0).map (permB π) := by
  unfold mplsCount
  have hlen : (permB π s0).cands.length = s0.cands.length := rfl
  rw [hlen, ← permB_mplsInit A hA hπ, loopN_permB (fun _ => true) (mplsBody A) (fun _ => rfl) (permB_mplsBody A hA hπ)]
  cases loopN (fun _ => true) (mplsBody A) (2 * s0.cands.length + 4) (mplsInit A s0) with
  | none => rfl
  | some s4 => simp only [Option.map_some]; rw [permB_mplsEpilogue A hπ]

end

end Droop
