import DroopProofs.PermBWigm
import DroopProofs.OracleBridge

/-! # C10, scotland / cfer / cfer-batch: reordering the ballot lines commutes with the count -/
namespace Droop
variable {α : Type} [CommRing α] [LinearOrder α] [IsStrictOrderedRing α] (A : Arith α)
variable {fb : List (Ballot α) → List (Ballot α)} {fw : List (Nat × α) → List (Nat × α)}

section
variable (hA : LawfulArith A) (hx : XF A fb fw)
include hA hx

/-! ## scotland -/

omit hA in
theorem xB_scotBreakTie (s : St α) (tied : List (Cand α)) (lowest : Bool) (reason : String) :
    scotBreakTie A (xB fb fw s) tied lowest reason
      = (xB fb fw (scotBreakTie A s tied lowest reason).1, (scotBreakTie A s tied lowest reason).2) := by
  unfold scotBreakTie
  match tied with
  | [] => simp only; rw [xB_setCrash]
  | [c] => rfl
  | c :: d :: r =>
    simp only
    have hr : (xB fb fw s).rounds = s.rounds := rfl
    rw [hr, round_xB]
    cases ((s.rounds.take s.round).reverse).findSome? (scotPrior A (List.map (fun x => x.cid) (c :: d :: r)) lowest) with
    | some cn0 => simp only; rw [xB_logAct A hx]
    | none => simp only; rw [xB_logAct A hx]

omit hA in
theorem xB_scotElect (s : St α) : xB fb fw (scotElect A s) = scotElect A (xB fb fw s) := by
  unfold scotElect electWinners
  have hq : hasQuotaGE A (xB fb fw s) = hasQuotaGE A s := by funext c; rfl
  rw [hq]
  exact xB_foldElect A hx _ (fun _ => "Elect, transfer pending") (fun _ => true) s

theorem xB_scotSurplusStep (s : St α) : xB fb fw (scotSurplusStep A s) = scotSurplusStep A (xB fb fw s) := by
  unfold scotSurplusStep
  dsimp only [pendingL_xB]
  cases hm : maxVoteOf A s.pendingL with
  | none => rfl
  | some hv =>
    simp only
    rw [xB_scotBreakTie A hx]
    cases hb : scotBreakTie A s (s.pendingL.filter (fun c => A.eq c.vote hv)) false "largest surplus" with
    | mk s1 oc =>
      cases oc with
      | none => rfl
      | some hc => simp only; rw [xB_transferSurplus A hA hx, xB_unpendLog A hx]

theorem xB_scotDefeatStep (s : St α) : xB fb fw (scotDefeatStep A s) = scotDefeatStep A (xB fb fw s) := by
  unfold scotDefeatStep
  dsimp only [hopeful_xB]
  cases hm : minVoteOf A s.hopeful with
  | none => rfl
  | some lv =>
    simp only
    rw [xB_scotBreakTie A hx]
    cases hb : scotBreakTie A s (s.hopeful.filter (fun c => A.eq c.vote lv)) true "defeat low candidate" with
    | mk s1 oc =>
      cases oc with
      | none => rfl
      | some lc => simp only; rw [xB_transferDefeated A hA hx, xB_defeat A hx]

omit hA hx in
theorem scotCountComplete_xB (s : St α) : scotCountComplete (xB fb fw s) = scotCountComplete s := rfl

omit hA in
theorem xB_scotRound (s : St α) : xB fb fw (scotRound A s) = scotRound A (xB fb fw s) := by
  unfold scotRound
  rw [← xB_newRound A hx]
  rfl

theorem xB_scotBody (s : St α) : scotBody A (xB fb fw s) = (xB fb fw (scotBody A s).1, (scotBody A s).2) := by
  unfold scotBody
  rw [← xB_scotElect A hx]
  by_cases hc : scotCountComplete (scotElect A s) = true
  · rw [if_pos (show scotCountComplete (xB fb fw (scotElect A s)) = true from hc), if_pos hc]
  · rw [if_neg (show ¬ scotCountComplete (xB fb fw (scotElect A s)) = true from hc), if_neg hc, ← xB_scotRound A hx]
    generalize scotRound A (scotElect A s) = s2
    unfold scotStage
    by_cases h2 : (!s2.pendingL.isEmpty) = true
    · rw [if_pos (show (!(xB fb fw s2).pendingL.isEmpty) = true from h2), if_pos h2]
      simp only; rw [xB_scotSurplusStep A hA hx]
    · rw [if_neg (show ¬ (!(xB fb fw s2).pendingL.isEmpty) = true from h2), if_neg h2]
      by_cases h3 : (!s2.hopeful.isEmpty) = true
      · rw [if_pos (show (!(xB fb fw s2).hopeful.isEmpty) = true from h3), if_pos h3, ← xB_scotDefeatStep A hA hx]
        unfold scotFinish
        by_cases h4 : scotCountComplete (scotDefeatStep A s2) = true
        · rw [if_pos (show scotCountComplete (xB fb fw (scotDefeatStep A s2)) = true from h4), if_pos h4]
        · rw [if_neg (show ¬ scotCountComplete (xB fb fw (scotDefeatStep A s2)) = true from h4), if_neg h4]
      · rw [if_neg (show ¬ (!(xB fb fw s2).hopeful.isEmpty) = true from h3), if_neg h3]
        unfold scotFinish
        by_cases h4 : scotCountComplete s2 = true
        · rw [if_pos (show scotCountComplete (xB fb fw s2) = true from h4), if_pos h4]
        · rw [if_neg (show ¬ scotCountComplete (xB fb fw s2) = true from h4), if_neg h4]

omit hA in
theorem xB_scotEpilogue (s : St α) : xB fb fw (scotEpilogue A s) = scotEpilogue A (xB fb fw s) := by
  unfold scotEpilogue
  dsimp only [pendingL_xB]
  rw [← xB_foldUnpend]
  generalize s.pendingL.foldl (fun acc c => acc.unpendSilent c.cid) s = s5
  by_cases hf : decide ((s5.hopeful.length : Int) ≤ s5.seatsLeft) = true
  · rw [if_pos (show decide (((xB fb fw s5).hopeful.length : Int) ≤ (xB fb fw s5).seatsLeft) = true from hf), if_pos hf]
    have h6 : xB fb fw (s5.hopeful.foldl (fun acc c => acc.elect A c.cid "Elect remaining candidates" false) s5)
        = (xB fb fw s5).hopeful.foldl (fun acc c => acc.elect A c.cid "Elect remaining candidates" false) (xB fb fw s5) :=
      xB_foldElect A hx _ (fun _ => "Elect remaining candidates") (fun _ => false) s5
    rw [← h6]
    exact xB_foldDefeat A hx _ (fun _ => "Defeat remaining candidates") _
  · rw [if_neg (show ¬ decide (((xB fb fw s5).hopeful.length : Int) ≤ (xB fb fw s5).seatsLeft) = true from hf), if_neg hf]
    exact xB_foldDefeat A hx _ (fun _ => "Defeat remaining candidates") _

theorem xB_scotInit (s0 : St α) : xB fb fw (scotInit A s0) = scotInit A (xB fb fw s0) := by
  unfold scotInit
  rw [xB_logAct A hx]
  have : xB fb fw ((firstCount A (s0.setQuota (A.ofInt (pdiv s0.nballots (s0.seats + 1) + 1)))).setExhausted A.zero)
      = (xB fb fw (firstCount A (s0.setQuota (A.ofInt (pdiv s0.nballots (s0.seats + 1) + 1))))).setExhausted A.zero := rfl
  rw [this, xB_firstCount A hA hx]
  rfl

/-- **C10, Scottish rule** -/
theorem scot_xB (s0 : St α) : scotCount A (xB fb fw s0) = (scotCount A s0).map (xB fb fw) := by
  unfold scotCount
  have hlen : (xB fb fw s0).cands.length = s0.cands.length := rfl
  rw [hlen, ← xB_scotInit A hA hx, loopN_xB (fun _ => true) (scotBody A) (fun _ => rfl) (xB_scotBody A hA hx)]
  cases loopN (fun _ => true) (scotBody A) (2 * s0.cands.length + 3) (scotInit A s0) with
  | none => rfl
  | some s4 => simp only [Option.map_some]; rw [xB_scotEpilogue A hx]

/-! ## cfer, cfer-batch -/

theorem xB_cferFinishDefeats (s : St α) (defeats : List (Cand α)) :
    cferFinishDefeats A (xB fb fw s) defeats = (xB fb fw (cferFinishDefeats A s defeats).1, (cferFinishDefeats A s defeats).2) := by
  unfold cferFinishDefeats
  by_cases h : s.hopeful.length + s.elected.length ≤ s.seats
  · rw [if_pos (show (xB fb fw s).hopeful.length + (xB fb fw s).elected.length ≤ (xB fb fw s).seats from h), if_pos h]
    simp only
    have h1 : xB fb fw (s.pendingL.foldl (fun acc c => acc.elect A c.cid "Elect pending" false) s)
        = (xB fb fw s).pendingL.foldl (fun acc c => acc.elect A c.cid "Elect pending" false) (xB fb fw s) :=
      xB_foldElect A hx s.pendingL (fun _ => "Elect pending") (fun _ => false) s
    rw [← h1]
    exact (xB_foldElect A hx _ (fun _ => "Elect remaining") (fun _ => false) _).symm ▸ rfl
  · rw [if_neg (show ¬ (xB fb fw s).hopeful.length + (xB fb fw s).elected.length ≤ (xB fb fw s).seats from h), if_neg h]
    simp only; rw [xB_transferDefeated A hA hx]

omit hA in
theorem xB_cferElect (s : St α) : xB fb fw (cferElect A s) = cferElect A (xB fb fw s) := by
  unfold cferElect electWinners
  have hq : hasQuotaGE A (xB fb fw s) = hasQuotaGE A s := by funext c; rfl
  rw [hq]
  exact xB_foldElect A hx _ (fun c => if A.gt c.vote s.quota then "Elect, transfer pending" else "Elect")
    (fun c => A.gt c.vote s.quota) s

omit hA in
theorem xB_cferSeatsFull (s : St α) :
    cferSeatsFull A (xB fb fw s) = (xB fb fw (cferSeatsFull A s).1, (cferSeatsFull A s).2) := by
  unfold cferSeatsFull
  dsimp only [pendingL_xB]
  rw [← xB_foldUnpend]
  have := xB_foldDefeat A hx (s.pendingL.foldl (fun acc c => acc.unpendSilent c.cid) s).hopeful (fun _ => "Defeat remaining")
    (s.pendingL.foldl (fun acc c => acc.unpendSilent c.cid) s)
  rw [this]
  rfl

omit hA hx in
theorem cferBatch_go_xB (s : St α) (surplus : α) (cands : List (Cand α)) (nEl : Nat) (top : Option (Cand α)) :
    ∀ (fuel t : Nat) (best : List (Cand α)),
      cferBatch.go A (xB fb fw s) surplus cands nEl top t fuel best = cferBatch.go A s surplus cands nEl top t fuel best := by
  intro fuel
  induction fuel with
  | zero => intro t best; rfl
  | succ n ih =>
    intro t best
    unfold cferBatch.go
    simp only [seats_xB, quota_xB, ih]

omit hA hx in
theorem cferBatch_xB (s : St α) : cferBatch A (xB fb fw s) = cferBatch A s := by
  unfold cferBatch
  exact cferBatch_go_xB A s _ _ _ _ _ _ _

theorem xB_cferSurplusOne (s : St α) (c : Cand α) : xB fb fw (cferSurplusOne A s c) = cferSurplusOne A (xB fb fw s) c := by
  unfold cferSurplusOne
  have hc : (xB fb fw s).cand? c.cid = s.cand? c.cid := rfl
  rw [hc]
  cases s.cand? c.cid with
  | none => rfl
  | some cur => simp only; rw [xB_transferSurplus A hA hx, xB_unpendLog A hx]

theorem xB_cferSurplusAll (s : St α) : xB fb fw (cferSurplusAll A s) = cferSurplusAll A (xB fb fw s) := by
  unfold cferSurplusAll
  dsimp only [pendingL_xB]
  generalize s.pendingL = l
  induction l generalizing s with
  | nil => rfl
  | cons c cs ih => simp only [List.foldl_cons]; rw [ih, xB_cferSurplusOne A hA hx]

theorem xB_cferDefeatLow (s : St α) :
    cferDefeatLow A (xB fb fw s) = (xB fb fw (cferDefeatLow A s).1, (cferDefeatLow A s).2) := by
  unfold cferDefeatLow
  dsimp only [hopeful_xB]
  cases hm : minVoteOf A s.hopeful with
  | none => simp only; rw [xB_setCrash]
  | some lv =>
    simp only
    rw [xB_breakTie A hx]
    cases hb : breakTie A s (s.hopeful.filter (fun c => A.eq c.vote lv)) "Break tie (defeat)" with
    | mk s1 oc =>
      cases oc with
      | none => rfl
      | some lc => simp only; rw [← xB_defeat A hx]; exact xB_cferFinishDefeats A hA hx _ [lc]

theorem xB_cferAfterElect (batch : Bool) (s : St α) :
    cferAfterElect A batch (xB fb fw s) = (xB fb fw (cferAfterElect A batch s).1, (cferAfterElect A batch s).2) := by
  unfold cferAfterElect
  have hb : cferBatch A (xB fb fw s) = cferBatch A s := cferBatch_xB A s
  by_cases h1 : s.elected.length ≥ s.seats
  · rw [if_pos (show (xB fb fw s).elected.length ≥ (xB fb fw s).seats from h1), if_pos h1]; exact xB_cferSeatsFull A hx s
  · rw [if_neg (show ¬ (xB fb fw s).elected.length ≥ (xB fb fw s).seats from h1), if_neg h1]
    by_cases h2 : (!(if batch then cferBatch A s else []).isEmpty) = true
    · rw [hb, if_pos h2, if_pos h2]
      unfold cferDefeatBatch
      have hd := xB_foldDefeat A hx (byBallotOrder (if batch then cferBatch A s else [])) (fun _ => "Defeat batch") s
      rw [← hd]
      exact xB_cferFinishDefeats A hA hx _ _
    · rw [hb, if_neg h2, if_neg h2]
      by_cases h3 : (!s.pendingL.isEmpty) = true
      · rw [if_pos (show (!(xB fb fw s).pendingL.isEmpty) = true from h3), if_pos h3]
        simp only; rw [xB_cferSurplusAll A hA hx]
      · rw [if_neg (show ¬ (!(xB fb fw s).pendingL.isEmpty) = true from h3), if_neg h3]
        exact xB_cferDefeatLow A hA hx s

theorem xB_cferBody (batch : Bool) (s : St α) :
    cferBody A batch (xB fb fw s) = (xB fb fw (cferBody A batch s).1, (cferBody A batch s).2) := by
  unfold cferBody
  rw [← xB_newRound A hx]
  generalize s.newRound A = s1
  by_cases h : (s1.round == 1 && decide (s1.hopeful.length ≤ s1.seats)) = true
  · rw [if_pos (show ((xB fb fw s1).round == 1 && decide ((xB fb fw s1).hopeful.length ≤ (xB fb fw s1).seats)) = true from h), if_pos h]
    unfold cferElectAll
    simp only
    rw [xB_foldElect A hx s1.hopeful (fun _ => "Elect all") (fun _ => false) s1]
    rfl
  · rw [if_neg (show ¬ ((xB fb fw s1).round == 1 && decide ((xB fb fw s1).hopeful.length ≤ (xB fb fw s1).seats)) = true from h), if_neg h,
      ← xB_cferElect A hx]
    exact xB_cferAfterElect A hA hx batch _

theorem xB_gInit (q : α) (s0 : St α) : xB fb fw (gInit A q s0) = gInit A q (xB fb fw s0) := by
  unfold gInit
  rw [xB_logAct A hx]
  have : xB fb fw ((firstCount A (s0.setQuota q)).setExhausted A.zero) = (xB fb fw (firstCount A (s0.setQuota q))).setExhausted A.zero := rfl
  rw [this, xB_firstCount A hA hx]
  rfl

/-- **C10, cfer / cfer-batch** -/
theorem cfer_xB (batch : Bool) (s0 : St α) : cferCount A batch (xB fb fw s0) = (cferCount A batch s0).map (xB fb fw) := by
  unfold cferCount
  have hlen : (xB fb fw s0).cands.length = s0.cands.length := rfl
  have hi : cferInit A (xB fb fw s0) = xB fb fw (cferInit A s0) := by
    rw [cferInit_eq, cferInit_eq, xB_gInit A hA hx]; rfl
  rw [hlen, hi]
  exact loopN_xB (fun _ => true) (cferBody A batch) (fun _ => rfl) (xB_cferBody A hA hx batch) _ _

/-! ## mpls -/

omit hA hx in
theorem mplsSurplusAll_xB (s : St α) (d : Bool) : mplsSurplusAll A (xB fb fw s) d = mplsSurplusAll A s d := rfl

omit hA hx in
theorem mplsCertainLosers_go_xB (s : St α) (surplus : α) (sorted : List (Cand α)) (maxDefeat : Int) :
    ∀ (fuel cx : Nat) (vote : α) (losers : List (Cand α)),
      mplsCertainLosers.go A surplus sorted maxDefeat cx fuel vote losers
        = mplsCertainLosers.go A surplus sorted maxDefeat cx fuel vote losers := fun _ _ _ _ => rfl

omit hA hx in
theorem mplsCertainLosers_xB (s : St α) (surplus : α) : mplsCertainLosers A (xB fb fw s) surplus = mplsCertainLosers A s surplus := rfl

omit hA in
theorem xB_mplsLogTransfer (s : St α) (verb : String) (subj : List Nat) :
    xB fb fw (mplsLogTransfer A s verb subj) = mplsLogTransfer A (xB fb fw s) verb subj := by
  unfold mplsLogTransfer
  rw [xB_logAct A hx]
  rfl

omit hA in
theorem xB_mplsCountVotes (s : St α) : xB fb fw (mplsCountVotes A s) = mplsCountVotes A (xB fb fw s) := by
  unfold mplsCountVotes
  rw [xB_logAct A hx]
  rfl

theorem mplsDefeatSet_xB (s : St α) : mplsDefeatSet A (xB fb fw s) = mplsDefeatSet A s := by
  have hsum : A.sum (((fb s.ballots).filter (fun b => match b.top with
                                           | some c => s.isUndeclared c
                                           | none => false)).map (bvote A))
      = A.sum ((s.ballots.filter (fun b => match b.top with
                                           | some c => s.isUndeclared c
                                           | none => false)).map (bvote A)) :=
    hx.usum _ (fun b m => rfl) s.ballots
  have e : mplsDefeatSet A (xB fb fw s) =
      (if s.round == 2 then s.hopeful.filter (·.undeclared) else []) ++
      (mplsCertainLosers A s (A.add s.surplus
          (if s.round == 2 then
            A.sum (((fb s.ballots).filter (fun b => match b.top with
                                               | some c => s.isUndeclared c
                                               | none => false)).map (bvote A))
           else A.zero))).filter
        (fun c => !(if s.round == 2 then s.hopeful.filter (·.undeclared) else []).any (fun u => u.cid == c.cid)) := rfl
  rw [e, hsum]
  rfl

theorem xB_mplsDefeatMany (s : St α) (l : List (Cand α)) :
    mplsDefeatMany A (xB fb fw s) l = (xB fb fw (mplsDefeatMany A s l).1, (mplsDefeatMany A s l).2) := by
  unfold mplsDefeatMany
  simp only
  rw [xB_mplsLogTransfer A hx, xB_foldSetZero, xB_transferAll A hA hx]
  have := xB_foldDefeat A hx l mplsDefeatVerb s
  rw [this]

theorem xB_mplsElectSurplus (s : St α) (hwq : List (Cand α)) (hv : α) :
    mplsElectSurplus A (xB fb fw s) hwq hv = (xB fb fw (mplsElectSurplus A s hwq hv).1, (mplsElectSurplus A s hwq hv).2) := by
  unfold mplsElectSurplus
  rw [xB_breakTie A hx]
  cases hb : breakTie A s (hwq.filter (fun c => A.eq c.vote hv)) "Break tie (largest surplus)" with
  | mk s3 oc =>
    cases oc with
    | none => rfl
    | some hc =>
      simp only
      rw [xB_mplsLogTransfer A hx, xB_setVote, xB_transferAll A hA hx, xB_elect A hx]
      have hq : (transferAll A (s3.elect A hc.cid "Elect" false) [hc.cid]
            (fun w => rewMulDiv A w (A.sub hc.vote (s3.elect A hc.cid "Elect" false).quota) hc.vote)).quota
          = (transferAll A ((xB fb fw s3).elect A hc.cid "Elect" false) [hc.cid]
            (fun w => rewMulDiv A w (A.sub hc.vote ((xB fb fw s3).elect A hc.cid "Elect" false).quota) hc.vote)).quota := by
        rw [transferAll_quota, transferAll_quota]
        unfold St.elect; rw [logAct_quota, logAct_quota]; rfl
      rw [hq]
      have hq2 : (s3.elect A hc.cid "Elect" false).quota = ((xB fb fw s3).elect A hc.cid "Elect" false).quota := by
        unfold St.elect; rw [logAct_quota, logAct_quota]; rfl
      rw [hq2]

theorem xB_mplsDefeatLow (s : St α) : xB fb fw (mplsDefeatLow A s) = mplsDefeatLow A (xB fb fw s) := by
  unfold mplsDefeatLow
  by_cases h : decide ((s.hopeful.length : Int) > s.seatsLeft) = true
  · rw [if_pos h, if_pos (show decide (((xB fb fw s).hopeful.length : Int) > (xB fb fw s).seatsLeft) = true from h)]
    dsimp only [hopeful_xB]
    cases hm : minVoteOf A s.hopeful with
    | none => rfl
    | some lv =>
      simp only
      rw [xB_breakTie A hx]
      cases hb : breakTie A s (s.hopeful.filter (fun c => A.eq c.vote lv)) "Break tie (defeat low candidate)" with
      | mk s3 oc =>
        cases oc with
        | none => rfl
        | some lc =>
          simp only
          rw [← xB_defeat A hx]
          generalize s3.defeat A lc.cid "Defeat low candidate" = s4
          unfold mplsAfterDefeatLow
          by_cases h4 : decide ((s4.hopeful.length : Int) > s4.seatsLeft) = true
          · rw [if_pos h4, if_pos (show decide (((xB fb fw s4).hopeful.length : Int) > (xB fb fw s4).seatsLeft) = true from h4),
              xB_mplsLogTransfer A hx, xB_setVote, xB_transferAll A hA hx]
          · rw [if_neg h4, if_neg (show ¬ decide (((xB fb fw s4).hopeful.length : Int) > (xB fb fw s4).seatsLeft) = true from h4)]
  · rw [if_neg h, if_neg (show ¬ decide (((xB fb fw s).hopeful.length : Int) > (xB fb fw s).seatsLeft) = true from h)]

theorem xB_mplsRound (s : St α) : mplsRound A (xB fb fw s) = (xB fb fw (mplsRound A s).1, (mplsRound A s).2) := by
  unfold mplsRound
  rw [mplsDefeatSet_xB A hA hx]
  by_cases h1 : (!(mplsDefeatSet A s).isEmpty) = true
  · rw [if_pos h1, if_pos h1]; exact xB_mplsDefeatMany A hA hx s _
  · rw [if_neg h1, if_neg h1]
    have hq : hasQuotaGE A (xB fb fw s) = hasQuotaGE A s := by funext c; rfl
    dsimp only [hopeful_xB]
    rw [hq]
    cases (byVote A true s.hopeful).filter (hasQuotaGE A s) with
    | cons h hs => simp only; exact xB_mplsElectSurplus A hA hx s _ _
    | nil =>
      simp only
      rw [← xB_mplsDefeatLow A hA hx]
      unfold mplsFinish
      by_cases h2 : decide (((mplsDefeatLow A s).hopeful.length : Int) ≤ (mplsDefeatLow A s).seatsLeft) = true
      · rw [if_pos h2, if_pos (show decide (((xB fb fw (mplsDefeatLow A s)).hopeful.length : Int) ≤ (xB fb fw (mplsDefeatLow A s)).seatsLeft) = true from h2)]
      · rw [if_neg h2, if_neg (show ¬ decide (((xB fb fw (mplsDefeatLow A s)).hopeful.length : Int) ≤ (xB fb fw (mplsDefeatLow A s)).seatsLeft) = true from h2)]

theorem xB_mplsBody (s : St α) : mplsBody A (xB fb fw s) = (xB fb fw (mplsBody A s).1, (mplsBody A s).2) := by
  unfold mplsBody
  rw [← xB_mplsCountVotes A hx]
  generalize mplsCountVotes A s = sc
  have hat : mplsAtThreshold A (xB fb fw sc) = mplsAtThreshold A sc := rfl
  rw [hat]
  by_cases h : sc.elected.length + (mplsAtThreshold A sc).length ≥ sc.seats
  · rw [if_pos h, if_pos (show (xB fb fw sc).elected.length + (mplsAtThreshold A sc).length ≥ (xB fb fw sc).seats from h)]
    unfold mplsElectThreshold
    rw [hat]
    simp only
    rw [xB_foldElect A hx _ (fun _ => "Candidate at threshold") (fun _ => false) sc]
  · rw [if_neg h, if_neg (show ¬ (xB fb fw sc).elected.length + (mplsAtThreshold A sc).length ≥ (xB fb fw sc).seats from h),
      ← xB_newRound A hx]
    exact xB_mplsRound A hA hx _

omit hA in
theorem xB_mplsEpilogue (s : St α) : xB fb fw (mplsEpilogue A s) = mplsEpilogue A (xB fb fw s) := by
  unfold mplsEpilogue
  by_cases hf : decide ((s.hopeful.length : Int) ≤ s.seatsLeft) = true
  · simp only [if_pos hf, if_pos (show decide (((xB fb fw s).hopeful.length : Int) ≤ (xB fb fw s).seatsLeft) = true from hf)]
    have h6 : xB fb fw (s.hopeful.foldl (fun acc c => acc.elect A c.cid "Elect remaining candidates" false) s)
        = (xB fb fw s).hopeful.foldl (fun acc c => acc.elect A c.cid "Elect remaining candidates" false) (xB fb fw s) :=
      xB_foldElect A hx _ (fun _ => "Elect remaining candidates") (fun _ => false) s
    rw [← h6]
    exact xB_foldDefeat A hx _ (fun _ => "Defeat remaining candidates") _
  · simp only [if_neg hf, if_neg (show ¬ decide (((xB fb fw s).hopeful.length : Int) ≤ (xB fb fw s).seatsLeft) = true from hf)]
    exact xB_foldDefeat A hx _ (fun _ => "Defeat remaining candidates") _

theorem xB_mplsInit (s0 : St α) : xB fb fw (mplsInit A s0) = mplsInit A (xB fb fw s0) := by
  unfold mplsInit
  rw [xB_newRound A hx]
  have : xB fb fw ((firstCount A (s0.setQuota (A.ofInt (pdiv s0.nballots (s0.seats + 1) + 1)))).setExhausted A.zero)
      = (xB fb fw (firstCount A (s0.setQuota (A.ofInt (pdiv s0.nballots (s0.seats + 1) + 1))))).setExhausted A.zero := rfl
  rw [this, xB_firstCount A hA hx]
  rfl

/-- **C10, Minneapolis rule** -/
theorem mpls_xB (s0 : St α) : mplsCount A (xB fb fw s0) = (mplsCount A s0).map (xB fb fw) := by
  unfold mplsCount
  have hlen : (xB fb fw s0).cands.length = s0.cands.length := rfl
  rw [hlen, ← xB_mplsInit A hA hx, loopN_xB (fun _ => true) (mplsBody A) (fun _ => rfl) (xB_mplsBody A hA hx)]
  cases loopN (fun _ => true) (mplsBody A) (2 * s0.cands.length + 4) (mplsInit A s0) with
  | none => rfl
  | some s4 => simp only [Option.map_some]; rw [xB_mplsEpilogue A hx]

end


theorem scot_permB {α : Type} [CommRing α] [LinearOrder α] [IsStrictOrderedRing α] (A : Arith α) (hA : LawfulArith A)
    {π : ∀ {β : Type}, List β → List β} (hπ : NatPerm π) (s0 : St α) :
    scotCount A (permB π s0) = (scotCount A s0).map (permB π) := scot_xB A hA (XF_of_natPerm A hA hπ) s0

theorem cfer_permB {α : Type} [CommRing α] [LinearOrder α] [IsStrictOrderedRing α] (A : Arith α) (hA : LawfulArith A)
    {π : ∀ {β : Type}, List β → List β} (hπ : NatPerm π) (batch : Bool) (s0 : St α) :
    cferCount A batch (permB π s0) = (cferCount A batch s0).map (permB π) := cfer_xB A hA (XF_of_natPerm A hA hπ) batch s0

theorem mpls_permB {α : Type} [CommRing α] [LinearOrder α] [IsStrictOrderedRing α] (A : Arith α) (hA : LawfulArith A)
    {π : ∀ {β : Type}, List β → List β} (hπ : NatPerm π) (s0 : St α) :
    mplsCount A (permB π s0) = (mplsCount A s0).map (permB π) := mpls_xB A hA (XF_of_natPerm A hA hπ) s0

end Droop
