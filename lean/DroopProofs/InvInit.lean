import DroopProofs.InvWigmRun

/-! # The bundle holds when the main loop is entered -/
namespace Droop
variable {α : Type} [CommRing α] [LinearOrder α] [IsStrictOrderedRing α] (A : Arith α)

/-- what `Election.__init__` + `Election.count()` hand to a Gregory rule -/
structure Init (s : St α) : Prop where
  meth : s.method = .wigm
  noActs : s.acts = []
  wf : s.WF
  bwf : BallotsWF s
  votes0 : ∀ c ∈ s.cands, c.vote = 0
  noPending : ∀ c ∈ s.cands, c.pending = false
  ballots0 : ∀ b ∈ s.ballots, b.idx = 0 ∧ b.w = A.one ∧ b.rank ≠ []
  nb : ((s.nballots : Int) : α) = (s.ballots.map (fun b => ((b.mult : Int) : α))).sum

def fcStep (s : St α) (b : Ballot α) : St α :=
  match b.top with
  | some c => s.addVote A c (bvote A b)
  | none => s

theorem firstCount_eq (s : St α) : firstCount A s = s.ballots.foldl (fcStep A) s := rfl

theorem fcStep_skel (s : St α) (b : Ballot α) : (fcStep A s b).skel = s.skel := by
  unfold fcStep; split
  · simp
  · rfl

theorem foldl_fcStep_skel (bs : List (Ballot α)) (s : St α) : (bs.foldl (fcStep A) s).skel = s.skel := by
  induction bs generalizing s with
  | nil => rfl
  | cons b bs ih => simp only [List.foldl_cons]; rw [ih, fcStep_skel]

theorem fcStep_frame (s : St α) (b : Ballot α) :
    (fcStep A s b).ballots = s.ballots ∧ (fcStep A s b).exhausted = s.exhausted ∧ (fcStep A s b).quota = s.quota
    ∧ (fcStep A s b).nballots = s.nballots ∧ (fcStep A s b).method = s.method ∧ (fcStep A s b).acts = s.acts := by
  unfold fcStep; split <;> exact ⟨rfl, rfl, rfl, rfl, rfl, rfl⟩

theorem foldl_fcStep_frame (bs : List (Ballot α)) (s : St α) :
    (bs.foldl (fcStep A) s).ballots = s.ballots ∧ (bs.foldl (fcStep A) s).exhausted = s.exhausted
    ∧ (bs.foldl (fcStep A) s).quota = s.quota ∧ (bs.foldl (fcStep A) s).nballots = s.nballots
    ∧ (bs.foldl (fcStep A) s).method = s.method ∧ (bs.foldl (fcStep A) s).acts = s.acts := by
  induction bs generalizing s with
  | nil => exact ⟨rfl, rfl, rfl, rfl, rfl, rfl⟩
  | cons b bs ih =>
    simp only [List.foldl_cons]
    obtain ⟨a1, a2, a3, a4, a5, a6⟩ := ih (fcStep A s b)
    obtain ⟨b1, b2, b3, b4, b5, b6⟩ := fcStep_frame A s b
    exact ⟨a1.trans b1, a2.trans b2, a3.trans b3, a4.trans b4, a5.trans b5, a6.trans b6⟩

/-- votes after the first count: old vote + value of the ballots whose first preference is `d` -/
theorem foldl_fcStep_voteOf (hA : LawfulArith A) (s0 : St α) (d : Nat) (bs : List (Ballot α)) (s : St α)
    (hsk : s.skel = s0.skel) (hb : ∀ b ∈ bs, ∀ cid ∈ b.rank, (s0.cand? cid).isSome) :
    (bs.foldl (fcStep A) s).voteOf d = s.voteOf d + (bs.map (fun b => if b.top = some d then bvote A b else 0)).sum := by
  induction bs generalizing s with
  | nil => simp
  | cons b bs ih =>
    simp only [List.foldl_cons, List.map_cons, List.sum_cons]
    rw [ih _ (by rw [fcStep_skel]; exact hsk) (fun b' hb' => hb b' (by simp [hb']))]
    have : (fcStep A s b).voteOf d = s.voteOf d + (if b.top = some d then bvote A b else 0) := by
      unfold fcStep
      cases htop : b.top with
      | none => simp
      | some c =>
        have hsome : (s.cand? c).isSome := by
          rw [cand?_isSome_of_skel hsk]; exact hb b (by simp) c (top_mem_rank b c htop)
        simp only
        rw [voteOf_addVote A (lawfulAdd_of hA) s c d _ hsome]
        by_cases hcd : c = d <;> simp [hcd]
    rw [this]; ring

theorem foldl_fcStep_sumVotes (hA : LawfulArith A) (s0 : St α) (hwf : s0.WF) (bs : List (Ballot α)) (s : St α)
    (hsk : s.skel = s0.skel) (hb : ∀ b ∈ bs, (∀ cid ∈ b.rank, (s0.cand? cid).isSome) ∧ b.top ≠ none) :
    (bs.foldl (fcStep A) s).sumVotes = s.sumVotes + (bs.map (bvote A)).sum := by
  induction bs generalizing s with
  | nil => simp
  | cons b bs ih =>
    simp only [List.foldl_cons, List.map_cons, List.sum_cons]
    rw [ih _ (by rw [fcStep_skel]; exact hsk) (fun b' hb' => hb b' (by simp [hb']))]
    have : (fcStep A s b).sumVotes = s.sumVotes + bvote A b := by
      unfold fcStep
      obtain ⟨hr, hne⟩ := hb b (by simp)
      cases htop : b.top with
      | none => exact absurd htop hne
      | some c =>
        have hsome : (s.cand? c).isSome := by
          rw [cand?_isSome_of_skel hsk]; exact hr c (top_mem_rank b c htop)
        exact sumVotes_addVote A hA s c _ (WF_of_skel hsk.symm hwf) hsome
    rw [this]; ring

/-- **the bundle holds after quota calculation, first count and `begin`** -/
theorem Inv.initCore (hA : LawfulArith A) (q : α) {s0 : St α} (h0 : Init A s0) (hq : 0 < q) :
    Inv A ((firstCount A (s0.setQuota q)).setExhausted A.zero) := by
  set s1 : St α := s0.setQuota q with hs1
  have hsk1 : s1.skel = s0.skel := rfl
  rw [firstCount_eq]
  obtain ⟨f1, f2, f3, f4, f5, f6⟩ := foldl_fcStep_frame A s1.ballots s1
  have hskel : (s1.ballots.foldl (fcStep A) s1).skel = s0.skel := (foldl_fcStep_skel A _ _).trans hsk1
  have hwf : (s1.ballots.foldl (fcStep A) s1).WF := WF_of_skel hskel.symm h0.wf
  have hbw : ∀ b ∈ s1.ballots, ∀ cid ∈ b.rank, (s0.cand? cid).isSome := h0.bwf
  have htop : ∀ b ∈ s0.ballots, b.top ≠ none := by
    intro b hb
    obtain ⟨hi, _, hne⟩ := h0.ballots0 b hb
    unfold Ballot.top; rw [hi]
    cases hr : b.rank with
    | nil => exact absurd hr hne
    | cons x xs => simp
  have hvote : ∀ d, (s1.ballots.foldl (fcStep A) s1).voteOf d = s0.tally A d := by
    intro d
    rw [foldl_fcStep_voteOf A hA s0 d s1.ballots s1 hsk1 hbw]
    have h0v : s1.voteOf d = 0 := by
      unfold St.voteOf
      cases hc : s1.cand? d with
      | none => rfl
      | some c =>
        have : c ∈ s0.cands := List.mem_of_find?_eq_some hc
        exact h0.votes0 c this
    rw [h0v, zero_add]; rfl
  have hw1 : ∀ b ∈ s0.ballots, bvote A b = ((b.mult : Int) : α) * A.one := by
    intro b hb
    rw [bvote_eq A hA, (h0.ballots0 b hb).2.1]; ring
  have hbpos : ∀ b ∈ s0.ballots, 0 ≤ bvote A b := by
    intro b hb; rw [hw1 b hb]
    exact mul_nonneg (by exact_mod_cast Nat.zero_le _) (le_of_lt hA.one_pos)
  have hsum : (s1.ballots.foldl (fcStep A) s1).sumVotes = ((s0.nballots : Int) : α) * A.one := by
    rw [foldl_fcStep_sumVotes A hA s0 h0.wf s1.ballots s1 hsk1 (fun b hb => ⟨hbw b hb, htop b hb⟩)]
    have hz : s1.sumVotes = 0 := by
      unfold St.sumVotes
      have : s1.cands.map (·.vote) = s1.cands.map (fun _ => (0 : α)) :=
        List.map_congr_left (fun c hc => h0.votes0 c hc)
      rw [this]; simp
    rw [hz, zero_add, h0.nb]
    have : s1.ballots.map (bvote A) = s0.ballots.map (fun b => ((b.mult : Int) : α) * A.one) :=
      List.map_congr_left (fun b hb => hw1 b hb)
    rw [this]
    clear this
    induction s0.ballots with
    | nil => simp
    | cons b bs ih => simp only [List.map_cons, List.sum_cons, ih]; ring
  -- assemble
  set t : St α := (s1.ballots.foldl (fcStep A) s1).setExhausted A.zero with ht
  have htc : t.cands = (s1.ballots.foldl (fcStep A) s1).cands := rfl
  have htb : t.ballots = s0.ballots := f1
  have mem_t : ∀ c' ∈ t.cands, ∃ c ∈ s0.cands, c.skel = c'.skel := by
    intro c' hc'; exact mem_of_skel_eq hskel hc'
  exact
    { meth := by show (s1.ballots.foldl (fcStep A) s1).method = _; rw [f5]; exact h0.meth
      recOK := by
        intro a ha
        have : t.acts = [] := by show (s1.ballots.foldl (fcStep A) s1).acts = _; rw [f6]; exact h0.noActs
        rw [this] at ha; simp at ha
      wf := hwf
      bwf := by
        intro b hb cid hcid
        rw [htb] at hb
        show ((s1.ballots.foldl (fcStep A) s1).cand? cid).isSome
        rw [cand?_isSome_of_skel hskel]; exact h0.bwf b hb cid hcid
      wpos := by
        intro b hb; rw [htb] at hb
        rw [(h0.ballots0 b hb).2.1]; exact le_of_lt hA.one_pos
      vpos := by
        intro c' hc'
        have := voteOf_of_mem hwf hc'
        rw [← this, hvote]
        unfold St.tally
        apply sum_nonneg'
        intro b hb; split
        · exact hbpos b hb
        · exact le_refl 0
      epos := by show 0 ≤ A.zero; rw [hA.zero_eq]
      qpos := by show 0 < (s1.ballots.foldl (fcStep A) s1).quota; rw [f3]; exact hq
      i1 := by
        intro c' hc' _
        have := voteOf_of_mem hwf hc'
        rw [← this, hvote]
        unfold St.tally; rw [htb]
      pq := by
        intro c' hc' _ hp
        obtain ⟨c, hc, hsk⟩ := mem_t c' hc'
        have := (skel_st hsk).2
        rw [h0.noPending c hc] at this
        rw [← this] at hp; cases hp
      cons := by
        show (s1.ballots.foldl (fcStep A) s1).sumVotes + A.zero ≤ ((t.nballots : Int) : α) * A.one
        have : t.nballots = s0.nballots := f4
        rw [this, hsum, hA.zero_eq, add_zero] }

/-- **the bundle holds after quota calculation, first count and `begin`** -/
theorem Inv.init (hA : LawfulArith A) (q : α) {s0 : St α} (h0 : Init A s0) (hq : 0 < q) :
    Inv A (((firstCount A (s0.setQuota q)).setExhausted A.zero).logAct A "begin" "Begin Count" []) :=
  (Inv.initCore A hA q h0 hq).logAct A _ _ _

theorem Inv.wigmInit (hA : LawfulArith A) (o : WigmOpts) {s0 : St α} (h0 : Init A s0)
    (hq : 0 < wigmQuota A o s0) : Inv A (Droop.wigmInit A o s0) := by
  unfold Droop.wigmInit; exact Inv.init A hA _ h0 hq

theorem Inv.scotInit (hA : LawfulArith A) {s0 : St α} (h0 : Init A s0)
    (hq : 0 < A.ofInt (pdiv s0.nballots (s0.seats + 1) + 1)) : Inv A (Droop.scotInit A s0) := by
  unfold Droop.scotInit; exact Inv.init A hA _ h0 hq

/-- **C02 (upper half) and C06 (I1) for wigm / wigm-prf without batch exclusions, for every input and every lawful
    arithmetic**: in the final state — and, through `recOK`, in every snapshot logged on the way — the tallies
    of non-withdrawn candidates plus the non-transferable total never exceed the ballots, nothing is negative,
    and every continuing candidate's tally is the value of the ballots standing to their credit. -/
theorem wigm_conservation (hA : LawfulArith A) (o : WigmOpts) (ho : o.plain) (hex : o.prf = true → A.exact = false)
    (s0 t : St α) (h0 : Init A s0) (hq : 0 < wigmQuota A o s0) (h : wigmCount A o s0 = some t) :
    Inv A (t.logAct A "end" "Count Complete" []) :=
  (wigmCount_inv A hA o ho hex s0 t (Inv.wigmInit A hA o h0 hq) h).logAct A _ _ _

end Droop
