import DroopProofs.MajorityRun
import DroopProofs.PrfFirst
/-!
# The log is append-only — for every rule that did not have the run-level statement yet

`wigmCount_appendOnly`, `meek_record_appendOnly` and `qpq_record_appendOnly` exist; here are the Scottish rule, CfER (both
configurations), Minneapolis and meek-prf. None of them needs any hypothesis about the start state or the arithmetic: every step of
every count either leaves the log alone or puts one more action in front of it (`Ext s t` = the log of `s` is a suffix of the
newest-first log of `t`). This is the fact C19 ("an interrupted count shows a prefix of the uninterrupted one") and C18 rest on.
-/
namespace Droop
variable {α : Type} [CommRing α] [LinearOrder α] [IsStrictOrderedRing α] (A : Arith α)

omit [CommRing α] [LinearOrder α] [IsStrictOrderedRing α] in
theorem gregoryInit_acts (q : α) (s0 : St α) : ((firstCount A (s0.setQuota q)).setExhausted A.zero).acts = s0.acts := by
  show (firstCount A (s0.setQuota q)).acts = s0.acts
  rw [firstCount_acts]; rfl

/-! ## Scottish rule -/
theorem ext_scotInit (s0 : St α) : Ext s0 (scotInit A s0) := by
  unfold scotInit
  exact Ext.trans (Ext.of_acts_eq (gregoryInit_acts A _ s0)) (ext_logAct A _ _ _ _)

theorem scotCount_appendOnly (s0 t : St α) (h : scotCount A s0 = some t) : Ext s0 t := by
  unfold scotCount at h
  cases hl : loopN (fun _ => true) (scotBody A) (2 * s0.cands.length + 3) (scotInit A s0) with
  | none => rw [hl] at h; cases h
  | some s4 =>
    rw [hl] at h
    cases h
    exact (ext_scotInit A s0).trans ((ext_loopN (fun _ => true) (scotBody A) (ext_scotBody A) _ _ _ hl).trans (ext_scotEpilogue A s4))

/-! ## CfER -/
theorem ext_cferInit (s0 : St α) : Ext s0 (cferInit A s0) := by
  unfold cferInit
  exact Ext.trans (Ext.of_acts_eq (gregoryInit_acts A _ s0)) (ext_logAct A _ _ _ _)

theorem ext_cferBody (batch : Bool) (s : St α) : Ext s (cferBody A batch s).1 := by
  unfold cferBody
  split
  · unfold cferElectAll
    exact (ext_newRound A s).trans (ext_foldl _ (fun (acc : St α) (c : Cand α) => ext_elect A acc c.cid _ _) _ _)
  · refine (ext_newRound A s).trans (Ext.trans ?_ (ext_cferAfterElect A batch _))
    unfold cferElect
    exact ext_electWinners A _ _ _ _

theorem cferCount_appendOnly (batch : Bool) (s0 t : St α) (h : cferCount A batch s0 = some t) : Ext s0 t := by
  unfold cferCount at h
  exact (ext_cferInit A s0).trans (ext_loopN (fun _ => true) (cferBody A batch) (ext_cferBody A batch) _ _ _ h)

/-! ## Minneapolis -/
theorem ext_mplsInit (s0 : St α) : Ext s0 (mplsInit A s0) := by
  unfold mplsInit
  exact Ext.trans (Ext.of_acts_eq (gregoryInit_acts A _ s0)) (ext_newRound A _)

theorem ext_mplsCountVotes (s : St α) : Ext s (mplsCountVotes A s) := by
  unfold mplsCountVotes
  exact (ext_setSurplus _ _).trans (ext_logAct A _ _ _ _)

theorem ext_mplsLogTransfer (s : St α) (verb : String) (subj : List Nat) : Ext s (mplsLogTransfer A s verb subj) := by
  unfold mplsLogTransfer
  exact (ext_setSurplus _ _).trans (ext_logAct A _ _ _ _)

theorem ext_mplsDefeatMany (s : St α) (l : List (Cand α)) : Ext s (mplsDefeatMany A s l).1 := by
  unfold mplsDefeatMany
  refine Ext.trans ?_ (ext_mplsLogTransfer A _ _ _)
  refine Ext.trans ?_ (ext_foldl _ (fun (acc : St α) (c : Nat) => ext_setVote acc c _) _ _)
  exact (ext_foldl _ (fun (acc : St α) (c : Cand α) => ext_defeat A acc c.cid _) _ _).trans (ext_transferAll A _ _ _)

theorem ext_mplsElectSurplus (s : St α) (hwq : List (Cand α)) (hv : α) : Ext s (mplsElectSurplus A s hwq hv).1 := by
  unfold mplsElectSurplus
  split
  · rename_i s3 hc heq
    have h1 : Ext s s3 := by
      have := ext_breakTie A s (hwq.filter (fun c => A.eq c.vote hv)) "Break tie (largest surplus)"
      rw [heq] at this; exact this
    refine h1.trans (Ext.trans ?_ (ext_mplsLogTransfer A _ _ _))
    exact (ext_elect A s3 _ _ _).trans ((ext_transferAll A _ _ _).trans (ext_setVote _ _ _))
  · rename_i s3 heq
    have := ext_breakTie A s (hwq.filter (fun c => A.eq c.vote hv)) "Break tie (largest surplus)"
    rw [heq] at this; exact this

theorem ext_mplsAfterDefeatLow (s4 : St α) (lc : Cand α) : Ext s4 (mplsAfterDefeatLow A s4 lc) := by
  unfold mplsAfterDefeatLow
  split
  · exact ((ext_transferAll A _ _ _).trans (ext_setVote _ _ _)).trans (ext_mplsLogTransfer A _ _ _)
  · exact Ext.refl _

theorem ext_mplsDefeatLow (s : St α) : Ext s (mplsDefeatLow A s) := by
  unfold mplsDefeatLow
  split
  · split
    · exact Ext.refl _
    · rename_i lv _
      split
      · rename_i s3 lc heq
        have h1 : Ext s s3 := by
          have := ext_breakTie A s (s.hopeful.filter (fun c => A.eq c.vote lv)) "Break tie (defeat low candidate)"
          rw [heq] at this; exact this
        exact h1.trans ((ext_defeat A _ _ _).trans (ext_mplsAfterDefeatLow A _ _))
      · rename_i s3 heq
        have := ext_breakTie A s (s.hopeful.filter (fun c => A.eq c.vote lv)) "Break tie (defeat low candidate)"
        rw [heq] at this; exact this
  · exact Ext.refl _

omit [CommRing α] [LinearOrder α] [IsStrictOrderedRing α] in
theorem mplsFinish_fst (s : St α) : (mplsFinish s).1 = s := by
  unfold mplsFinish; split <;> rfl

theorem ext_mplsRound (s : St α) : Ext s (mplsRound A s).1 := by
  unfold mplsRound
  split
  · exact ext_mplsDefeatMany A s _
  · split
    · exact ext_mplsElectSurplus A s _ _
    · rw [mplsFinish_fst]; exact ext_mplsDefeatLow A s

theorem ext_mplsBody (s : St α) : Ext s (mplsBody A s).1 := by
  unfold mplsBody
  split
  · unfold mplsElectThreshold
    exact (ext_mplsCountVotes A s).trans (ext_foldl _ (fun (acc : St α) (c : Cand α) => ext_elect A acc c.cid _ _) _ _)
  · exact (ext_mplsCountVotes A s).trans ((ext_newRound A _).trans (ext_mplsRound A _))

theorem mplsCount_appendOnly (s0 t : St α) (h : mplsCount A s0 = some t) : Ext s0 t := by
  unfold mplsCount at h
  cases hl : loopN (fun _ => true) (mplsBody A) (2 * s0.cands.length + 4) (mplsInit A s0) with
  | none => rw [hl] at h; cases h
  | some s4 =>
    rw [hl] at h
    cases h
    exact (ext_mplsInit A s0).trans ((ext_loopN (fun _ => true) (mplsBody A) (ext_mplsBody A) _ _ _ hl).trans (ext_mplsEpilogue A s4))

/-! ## meek-prf (fixed-point arithmetic, the rule's own) -/
theorem ext_prfStart (s0 : St α) : Ext s0 (prfStart A s0) := by
  rw [prfStart_eq]
  refine Ext.trans (Ext.of_acts_eq ?_) (ext_logAct A _ _ _ _)
  rw [foldl_mfcStep_acts]; rfl

theorem prfCount_appendOnly (p iterFuel : Nat) (s0 t : St Int) (h : prfCount (fixedArith p) iterFuel s0 = some t) : Ext s0 t := by
  rw [prfCount_eq] at h
  cases hl : loopN stdGuard (prfBody (fixedArith p) ((fixedArith p).divV ((fixedArith p).ofInt 1) ((fixedArith p).ofInt (10 ^ 6))) iterFuel)
      (2 * s0.cands.length + 3) (prfStart (fixedArith p) s0) with
  | none => rw [hl] at h; cases h
  | some s6 =>
    rw [hl] at h
    cases h
    exact (ext_prfStart (fixedArith p) s0).trans
      ((ext_loopN stdGuard _ (fun s => ext_prfBody p _ iterFuel s) _ _ _ hl).trans (ext_prfFinish p s6))

end Droop
