import DroopModel.Options

/-! # C17: precedence of the four option layers; statutory rules cannot be reconfigured -/
namespace Droop
open Options

/-- precedence, stated outright: forced, else caller's, else ballot file's, else the rule's default -/
theorem getopt_precedence (o : Options) (k : String) :
    o.getopt k =
      match o.force.find? (·.1 == k) with
      | some e => e.2
      | none => match o.cmd.find? (·.1 == k) with
        | some e => e.2
        | none => match o.file.find? (·.1 == k) with
          | some e => e.2
          | none => match o.dflt.find? (·.1 == k) with
            | some e => e.2
            | none => .none := by
  unfold Options.getopt Options.layer
  cases o.force.find? (·.1 == k) <;> cases o.cmd.find? (·.1 == k) <;> cases o.file.find? (·.1 == k)
    <;> cases o.dflt.find? (·.1 == k) <;> rfl

/-- the value of a key held in the `force` layer -/
def forced (o : Options) (k : String) (v : OV) : Prop := o.force.find? (·.1 == k) = some (k, v)

theorem getopt_of_forced {o : Options} {k : String} {v : OV} (h : forced o k v) : o.getopt k = v := by
  rw [getopt_precedence]; unfold forced at h; rw [h]

theorem find_map_key (l : Dict) (f : String × OV → String × OV) (hf : ∀ e, (f e).1 = e.1) (k' : String) :
    (l.map f).find? (·.1 == k') = (l.find? (·.1 == k')).map f := by
  induction l with
  | nil => rfl
  | cons e es ih =>
    simp only [List.map_cons, List.find?_cons, hf]
    split
    · rfl
    · exact ih

theorem find_append_of_none (l m : Dict) (k : String) (h : l.find? (·.1 == k) = none) :
    (l ++ m).find? (·.1 == k) = m.find? (·.1 == k) := by
  induction l with
  | nil => rfl
  | cons e es ih =>
    simp only [List.find?_cons] at h
    split at h
    · cases h
    · rename_i he
      simp only [List.cons_append, List.find?_cons, he]
      exact ih h

theorem any_false_find_none (l : Dict) (k : String) (h : ¬ (l.any (·.1 == k)) = true) : l.find? (·.1 == k) = none := by
  induction l with
  | nil => rfl
  | cons e es ih =>
    simp only [List.any_cons, Bool.or_eq_true, not_or, Bool.not_eq_true] at h
    simp only [List.find?_cons, h.1]
    exact ih (by simp [h.2])

theorem any_true_find_some (l : Dict) (k : String) (h : (l.any (·.1 == k)) = true) :
    ∃ e, l.find? (·.1 == k) = some e ∧ e.1 = k := by
  induction l with
  | nil => simp at h
  | cons e es ih =>
    simp only [List.find?_cons]
    by_cases he : (e.1 == k) = true
    · exact ⟨e, by simp [he], by simpa using he⟩
    · simp only [List.any_cons, Bool.or_eq_true] at h
      rcases h with h | h
      · exact absurd h he
      · simp only [Bool.not_eq_true] at he
        simp only [he]; exact ih h

theorem find_dictSet_same (d : Dict) (k : String) (v : OV) : (dictSet d k v).find? (·.1 == k) = some (k, v) := by
  unfold dictSet
  split
  · rename_i h
    rw [find_map_key d (fun e => if e.1 == k then (k, v) else e) (by intro e; split <;> simp_all) k]
    obtain ⟨e, he, hk⟩ := any_true_find_some d k h
    rw [he]; simp [hk]
  · rename_i h
    rw [find_append_of_none _ _ _ (any_false_find_none d k h)]
    simp

theorem find_dictSet_other (d : Dict) (k k' : String) (v : OV) (hne : k' ≠ k) :
    (dictSet d k v).find? (·.1 == k') = d.find? (·.1 == k') := by
  unfold dictSet
  split
  · rw [find_map_key d (fun e => if e.1 == k then (k, v) else e) (by intro e; split <;> simp_all) k']
    cases hf : d.find? (·.1 == k') with
    | none => rfl
    | some e =>
      have hek : e.1 = k' := by have := List.find?_some hf; simpa using this
      have hne' : ¬ e.1 = k := by rw [hek]; exact hne
      simp [hne']
  · have hkk : ((k, v).1 == k') = false := by simp; exact fun h => hne h.symm
    cases hf : d.find? (·.1 == k') with
    | none => rw [find_append_of_none _ _ _ hf]; simp [hkk]
    | some e => rw [List.find?_append, hf]; rfl

/-- `setopt … force=True` makes the key forced to the normalised default and keeps other forced keys -/
theorem setopt_force (o : Options) (k : String) (v : OV) :
    ∃ o', o.setopt k v (force := true) = .ok (o', v.normalize) ∧ forced o' k v.normalize
      ∧ ∀ k' w, k' ≠ k → forced o k' w → forced o' k' w := by
  have hf : forced ({ o with dflt := setDefault o.dflt k v.normalize, force := dictSet o.force k v.normalize } : Options)
      k v.normalize := find_dictSet_same _ k _
  refine ⟨{ o with dflt := setDefault o.dflt k v.normalize, force := dictSet o.force k v.normalize }, ?_, hf, ?_⟩
  · unfold Options.setopt
    simp only [List.isEmpty_nil, if_true]
    rw [getopt_of_forced hf]
  · intro k' w hne hfw
    unfold forced at hfw ⊢
    simp only
    rw [find_dictSet_other _ k k' _ hne]; exact hfw

/-- a non-forcing `setopt` leaves the forced layer alone, and returns the forced value if there is one -/
theorem setopt_keeps (o : Options) (k : String) (d : OV) (allowed : List OV) (o' : Options) (r : OV)
    (h : o.setopt k d (allowed := allowed) = .ok (o', r)) : o'.force = o.force := by
  unfold Options.setopt at h
  simp only [Bool.false_eq_true, if_false] at h
  split at h
  · cases h; rfl
  · split at h
    · cases h; rfl
    · cases h

theorem setopt_forced_value (o : Options) (k : String) (d v : OV) (hf : forced o k v) :
    ∃ o', o.setopt k d = .ok (o', v) ∧ o'.force = o.force := by
  have : forced ({ o with dflt := setDefault o.dflt k d.normalize } : Options) k v := hf
  refine ⟨{ o with dflt := setDefault o.dflt k d.normalize }, ?_, rfl⟩
  unfold Options.setopt
  simp only [Bool.false_eq_true, if_false, List.isEmpty_nil, if_true]
  rw [getopt_of_forced this]

/-- after `forceFixed o p`: arithmetic, precision, display are forced to fixed / p / p whatever `o` contains -/
theorem forceFixed_spec (o : Options) (p : Nat) :
    ∃ o', forceFixed o p = .ok o' ∧ forced o' "arithmetic" (.s "fixed") ∧ forced o' "precision" (.i p)
      ∧ forced o' "display" (.i p) := by
  unfold forceFixed
  obtain ⟨o1, h1, f1, _⟩ := setopt_force o "arithmetic" (.s "fixed")
  obtain ⟨o2, h2, f2, k2⟩ := setopt_force o1 "precision" (.i p)
  obtain ⟨o3, h3, f3, k3⟩ := setopt_force o2 "display" (.i p)
  have hn1 : (OV.s "fixed").normalize = .s "fixed" := by
    unfold OV.normalize; simp [isDigits, digitVal?, ndZeros]
  refine ⟨o3, ?_, ?_, ?_, ?_⟩
  · simp only [h1, h2, h3, bind, Except.bind, pure, Except.pure]
  · rw [hn1] at f1
    exact k3 _ _ (by decide) (k2 _ _ (by decide) f1)
  · exact k3 _ _ (by decide) f2
  · exact f3

end Droop

namespace Droop
open Options

theorem forced_of_force_eq {o o' : Options} (h : o'.force = o.force) {k : String} {v : OV} (hf : forced o k v) :
    forced o' k v := by unfold forced at *; rw [h]; exact hf

/-- **statutory immunity (fixed-point rules)**: whatever the caller or the ballot file put in any layer, once the
    rule has forced `arithmetic=fixed, precision=p, display=p` the arithmetic class is configured as fixed/p/p. -/
theorem statutory_fixed_config (o : Options) (p : Nat) :
    ∃ o', (forceFixed o p >>= arithmeticClass) = .ok (o', .fixed p p) := by
  obtain ⟨o1, h1, fa, fp, fd⟩ := forceFixed_spec o p
  obtain ⟨o2, h2, hforce⟩ := setopt_forced_value o1 "arithmetic" (.s "guarded") (.s "fixed") fa
  have fa2 := forced_of_force_eq hforce fa
  have fp2 := forced_of_force_eq hforce fp
  have fd2 := forced_of_force_eq hforce fd
  refine ⟨o2, ?_⟩
  rw [h1]
  show arithmeticClass o1 = _
  unfold arithmeticClass
  simp only [h2, bind, Except.bind]
  have e1 : (OV.s "fixed").pyEq (.s "rational") = false := by decide
  have e2 : (OV.s "fixed").pyEq (.s "fixed") = true := by decide
  have e3 : (OV.s "fixed").pyEq (.s "integer") = false := by decide
  simp only [e1, e2, Bool.false_eq_true, if_false, Bool.true_or, if_true]
  unfold fixedInitialize
  simp only [getopt_of_forced fa2, getopt_of_forced fp2, getopt_of_forced fd2, e2, e3, Bool.true_or, Bool.not_true,
    Bool.false_eq_true, if_false, bind, Except.bind, pure, Except.pure]
  have hs : strictNat (.i (p : Int)) = .ok p := by
    unfold strictNat pyInt OV.pyStr
    simp
  simp only [hs]
  unfold pyInt
  simp

end Droop
