import DroopProofs.PermBPrf
import DroopModel.Qpq

/-! # C10 for QPQ: the order of the ballot lines does not matter

QPQ reads the ballot list in three ways: it maps a per-ballot function over it (restart, and the advance after an election or an
exclusion), it folds `qTally` over it (additions to the active total, the exhausted total and the candidates' tallies and
contributions — they commute), and it sums the multipliers of the non-exhausted ballots once at the start.  Everything else is
decided from the candidate list. -/
namespace Droop
variable {α : Type} [CommRing α] [LinearOrder α] [IsStrictOrderedRing α] (A : Arith α)

/-! ## `qpqBody` in named stages -/

def qR1 (q : QSt α) : St α := q.s.newRound A

def unElect (s1 : St α) : St α :=
  { s1 with cands := s1.cands.map (fun (c : Cand α) => if c.st == .elected then { c with st := .hopeful } else c) }

def mapBallots (s : St α) (g : Ballot α → Ballot α) : St α := { s with ballots := s.ballots.map g }

def qRestart (s1 : St α) : St α :=
  mapBallots (unElect s1) (fun (b : Ballot α) => qAdvance (unElect s1) { b with idx := 0, w := A.zero, residual := A.zero })

def qR2 (q : QSt α) : St α := if q.restart then qRestart A (qR1 A q) else qR1 A q

def qR3 (q : QSt α) : St α :=
  { qR2 A q with cands := (qR2 A q).cands.map (fun (c : Cand α) => if c.st == .hopeful then { c with vote := A.zero, tc := A.zero } else c) }

def qQ1 (q : QSt α) : QSt α := (qR3 A q).ballots.foldl (qTally A) { s := qR3 A q, va := A.zero, tx := A.zero, restart := false }

def qR4 (q : QSt α) : St α :=
  { (qQ1 A q).s with cands := (qQ1 A q).s.cands.map (fun (c : Cand α) =>
      if c.st == .hopeful then { c with quotient := some (A.divV c.vote (A.add A.one c.tc)) } else c) }

def qR5 (q : QSt α) : St α :=
  if (qpqQuota A { qQ1 A q with s := qR4 A q }).2 then
    ({ qR4 A q with quota := (qpqQuota A { qQ1 A q with s := qR4 A q }).1 } : St α).setCrash "ZeroDivisionError"
  else { qR4 A q with quota := (qpqQuota A { qQ1 A q with s := qR4 A q }).1 }

def qQuot (c : Cand α) : α := c.quotient.getD A.zero

/-- the state after the election of `hc` (a zero quotient is the implementation's ZeroDivisionError) -/
def qElected (s6 : St α) (hc : Cand α) : St α :=
  if A.isZero (qQuot A hc) then (s6.elect A hc.cid "Elect high quotient" false).setCrash "ZeroDivisionError"
  else s6.elect A hc.cid "Elect high quotient" false

def qDecide (q1 : QSt α) (s5 : St α) : QSt α × Flow :=
  match s5.hopeful with
  | [] => ({ q1 with s := s5.setCrash "ValueError" }, .brk)
  | h :: hs =>
    if A.gt (A.pyMax (qQuot A h) (hs.map (qQuot A))) s5.quota then
      match breakTie A s5 (s5.hopeful.filter (fun c => A.eq (qQuot A c) (A.pyMax (qQuot A h) (hs.map (qQuot A)))))
          "Break tie by lot (largest quotient)" with
      | (s6, some hc) =>
        ({ q1 with s := (mapBallots (qElected A s6 hc) (fun (b : Ballot α) =>
                if b.top == some hc.cid then qAdvance (qElected A s6 hc) { b with w := A.divV A.one (qQuot A hc) } else b)).logAct A "transfer" "Transfer elected" [hc.cid] }, .cont)
      | (s6, none) => ({ q1 with s := s6 }, .brk)
    else
      match breakTie A s5 (s5.hopeful.filter (fun c => A.eq (qQuot A c) (A.pyMin (qQuot A h) (hs.map (qQuot A)))))
          "Break tie by lot (smallest quotient)" with
      | (s6, some lc) =>
        ({ q1 with s := (mapBallots (s6.defeat A lc.cid "Defeat low quotient") (fun (b : Ballot α) =>
                if b.top == some lc.cid then qAdvance (s6.defeat A lc.cid "Defeat low quotient") b else b)).logAct A "transfer" "Transfer defeated" [lc.cid], restart := true }, .cont)
      | (s6, none) => ({ q1 with s := s6 }, .brk)

theorem qpqBody_eq (q : QSt α) : qpqBody A q = qDecide A (qQ1 A q) (qR5 A q) := by
  unfold qpqBody
  rfl

/-! ## the tally fold -/

theorem qTally_comm (hA : LawfulArith A) (acc : QSt α) (b b' : Ballot α) :
    qTally A (qTally A acc b) b' = qTally A (qTally A acc b') b := by
  unfold qTally
  cases hb : b.top with
  | none =>
    cases hb' : b'.top with
    | none =>
      simp only
      congr 1
      simp only [hA.add_eq]; ring
    | some c' => rfl
  | some c =>
    cases hb' : b'.top with
    | none => rfl
    | some c' =>
      simp only
      congr 1
      · unfold St.upd
        simp only [List.map_map]
        congr 1
        apply List.map_congr_left
        intro x _
        simp only [Function.comp]
        by_cases h1 : (x.cid == c) = true <;> by_cases h2 : (x.cid == c') = true <;>
          simp only [h1, h2, if_true, Bool.false_eq_true, if_false, hA.add_eq]
        · congr 1 <;> ring
      · simp only [hA.add_eq]; ring

theorem foldl_qTally_perm (hA : LawfulArith A) {l l' : List (Ballot α)} (hp : l'.Perm l) (acc : QSt α) :
    l'.foldl (qTally A) acc = l.foldl (qTally A) acc :=
  hp.foldl_eq' (fun x _ y _ z => qTally_comm A hA z x y) acc

/-! ## the interface, `xQ`, and the stages -/

/-- a per-ballot function that does not look at the multiplier -/
def MultEq (f : Ballot α → Ballot α) : Prop := ∀ (b : Ballot α) (m : Nat), f { b with mult := m } = { f b with mult := m }

theorem qAdvance_setMult (s : St α) (b : Ballot α) (m : Nat) : qAdvance s { b with mult := m } = { qAdvance s b with mult := m } := by
  unfold qAdvance advanceTo
  simp only
  cases (b.rank.drop b.idx).findIdx? (fun cid => s.isHopeful cid) <;> rfl

theorem multEq_reset (s : St α) (z : α) : MultEq (fun (b : Ballot α) => qAdvance s { b with idx := 0, w := z, residual := z }) := by
  intro b m
  exact qAdvance_setMult s { b with idx := 0, w := z, residual := z } m

theorem multEq_advW (s : St α) (cid : Nat) (nw : α) :
    MultEq (fun (b : Ballot α) => if b.top == some cid then qAdvance s { b with w := nw } else b) := by
  intro b m
  have ht : ({ b with mult := m } : Ballot α).top = b.top := rfl
  simp only [ht]
  split
  · exact qAdvance_setMult s { b with w := nw } m
  · rfl

theorem multEq_adv (s : St α) (cid : Nat) : MultEq (fun (b : Ballot α) => if b.top == some cid then qAdvance s b else b) := by
  intro b m
  have ht : ({ b with mult := m } : Ballot α).top = b.top := rfl
  simp only [ht]
  split
  · exact qAdvance_setMult s b m
  · rfl

theorem multEq_setW (z : α) : MultEq (fun (b : Ballot α) => { b with w := z }) := fun _ _ => rfl

structure XQ (fb : List (Ballot α) → List (Ballot α)) (fw : List (Nat × α) → List (Nat × α)) : Prop extends XF A fb fw where
  mapB : ∀ (f : Ballot α → Ballot α), MultEq f → ∀ (l : List (Ballot α)), fb (l.map f) = (fb l).map f
  tally : ∀ (acc : QSt α) (l : List (Ballot α)), (fb l).foldl (qTally A) acc = l.foldl (qTally A) acc
  vaSum : ∀ l : List (Ballot α), A.sum (((fb l).filter (fun b => !b.exhaustedB)).map (fun b => A.ofInt b.mult))
    = A.sum ((l.filter (fun b => !b.exhaustedB)).map (fun b => A.ofInt b.mult))

variable {fb : List (Ballot α) → List (Ballot α)} {fw : List (Nat × α) → List (Nat × α)}

def xQ (fb : List (Ballot α) → List (Ballot α)) (fw : List (Nat × α) → List (Nat × α)) (q : QSt α) : QSt α :=
  { q with s := xB fb fw q.s }

theorem xB_mapBallots (hx : XQ A fb fw) (s : St α) (g : Ballot α → Ballot α) (hg : MultEq g) :
    xB fb fw (mapBallots s g) = mapBallots (xB fb fw s) g := by
  unfold mapBallots xB
  simp only [hx.mapB g hg]

theorem xB_qRestart (hx : XQ A fb fw) (s1 : St α) : qRestart A (xB fb fw s1) = xB fb fw (qRestart A s1) := by
  unfold qRestart
  rw [xB_mapBallots A hx _ _ (multEq_reset (unElect s1) A.zero)]
  rfl

theorem qTally_xQ (acc : QSt α) (b : Ballot α) : qTally A (xQ fb fw acc) b = xQ fb fw (qTally A acc b) := by
  unfold qTally xQ
  cases b.top <;> rfl

theorem foldl_qTally_xQ (bs : List (Ballot α)) (acc : QSt α) :
    bs.foldl (qTally A) (xQ fb fw acc) = xQ fb fw (bs.foldl (qTally A) acc) := by
  induction bs generalizing acc with
  | nil => rfl
  | cons b bs ih => simp only [List.foldl_cons]; rw [qTally_xQ, ih]

theorem xB_qR1 (hx : XQ A fb fw) (q : QSt α) : qR1 A (xQ fb fw q) = xB fb fw (qR1 A q) := by
  unfold qR1
  exact (xB_newRound A hx.toXF q.s).symm

theorem xB_qR2 (hx : XQ A fb fw) (q : QSt α) : qR2 A (xQ fb fw q) = xB fb fw (qR2 A q) := by
  unfold qR2
  rw [xB_qR1 A hx]
  have hr : (xQ fb fw q).restart = q.restart := rfl
  rw [hr]
  by_cases h : q.restart = true
  · rw [if_pos h, if_pos h, xB_qRestart A hx]
  · rw [if_neg h, if_neg h]

theorem xB_qR3 (hx : XQ A fb fw) (q : QSt α) : qR3 A (xQ fb fw q) = xB fb fw (qR3 A q) := by
  unfold qR3
  rw [xB_qR2 A hx]
  rfl

theorem xQ_qQ1 (hx : XQ A fb fw) (q : QSt α) : qQ1 A (xQ fb fw q) = xQ fb fw (qQ1 A q) := by
  unfold qQ1
  rw [xB_qR3 A hx, ballots_xB, hx.tally]
  exact foldl_qTally_xQ A _ { s := qR3 A q, va := A.zero, tx := A.zero, restart := false }

theorem xB_qR4 (hx : XQ A fb fw) (q : QSt α) : qR4 A (xQ fb fw q) = xB fb fw (qR4 A q) := by
  unfold qR4
  rw [xQ_qQ1 A hx]
  rfl

theorem xB_qR5 (hx : XQ A fb fw) (q : QSt α) : qR5 A (xQ fb fw q) = xB fb fw (qR5 A q) := by
  unfold qR5
  rw [xB_qR4 A hx, xQ_qQ1 A hx]
  have hq : qpqQuota A { xQ fb fw (qQ1 A q) with s := xB fb fw (qR4 A q) } = qpqQuota A { qQ1 A q with s := qR4 A q } := rfl
  rw [hq]
  by_cases h : (qpqQuota A { qQ1 A q with s := qR4 A q }).2 = true
  · simp only [h, if_true]
    rw [xB_setCrash]
    rfl
  · simp only [h, Bool.false_eq_true, if_false]
    rfl

theorem qAdvance_xB (s : St α) : qAdvance (xB fb fw s) = qAdvance s := rfl

theorem xB_qElected (hx : XQ A fb fw) (s6 : St α) (hc : Cand α) : qElected A (xB fb fw s6) hc = xB fb fw (qElected A s6 hc) := by
  unfold qElected
  by_cases hz : A.isZero (qQuot A hc) = true
  · rw [if_pos hz, if_pos hz, ← xB_elect A hx.toXF, xB_setCrash]
  · rw [if_neg hz, if_neg hz, xB_elect A hx.toXF]

theorem xQ_qDecide (hx : XQ A fb fw) (q1 : QSt α) (s5 : St α) :
    qDecide A (xQ fb fw q1) (xB fb fw s5) = (xQ fb fw (qDecide A q1 s5).1, (qDecide A q1 s5).2) := by
  unfold qDecide
  simp only [hopeful_xB, quota_xB]
  cases hh : s5.hopeful with
  | nil =>
    simp only
    rw [← xB_setCrash]
    rfl
  | cons h hs =>
    simp only
    by_cases hg : A.gt (A.pyMax (qQuot A h) (hs.map (qQuot A))) s5.quota = true
    · simp only [hg, if_true]
      rw [xB_breakTie A hx.toXF]
      cases hb : breakTie A s5 (List.filter (fun c => A.eq (qQuot A c) (A.pyMax (qQuot A h) (hs.map (qQuot A)))) (h :: hs))
          "Break tie by lot (largest quotient)" with
      | mk s6 oc =>
        cases oc with
        | none => rfl
        | some hc =>
          simp only
          rw [xB_qElected A hx, qAdvance_xB, ← xB_mapBallots A hx _ _ (multEq_advW (qElected A s6 hc) hc.cid (A.divV A.one (qQuot A hc))), ← xB_logAct A hx.toXF]
          rfl
    · simp only [hg, Bool.false_eq_true, if_false]
      rw [xB_breakTie A hx.toXF]
      cases hb : breakTie A s5 (List.filter (fun c => A.eq (qQuot A c) (A.pyMin (qQuot A h) (hs.map (qQuot A)))) (h :: hs))
          "Break tie by lot (smallest quotient)" with
      | mk s6 oc =>
        cases oc with
        | none => rfl
        | some lc =>
          simp only
          rw [← xB_defeat A hx.toXF, qAdvance_xB, ← xB_mapBallots A hx _ _ (multEq_adv (s6.defeat A lc.cid "Defeat low quotient") lc.cid), ← xB_logAct A hx.toXF]
          rfl

theorem xQ_qpqBody (hx : XQ A fb fw) (q : QSt α) :
    qpqBody A (xQ fb fw q) = (xQ fb fw (qpqBody A q).1, (qpqBody A q).2) := by
  rw [qpqBody_eq, qpqBody_eq, xQ_qQ1 A hx, xB_qR5 A hx]
  exact xQ_qDecide A hx _ _

theorem xQ_qpqLoop (hx : XQ A fb fw) :
    ∀ (fuel : Nat) (q : QSt α), qpqLoop A fuel (xQ fb fw q) = (qpqLoop A fuel q).map (xQ fb fw) := by
  intro fuel
  induction fuel with
  | zero => intro q; rfl
  | succ n ih =>
    intro q
    unfold qpqLoop
    have hc : (xQ fb fw q).s.crash = q.s.crash := rfl
    have hcc : qpqCountComplete (xQ fb fw q).s = qpqCountComplete q.s := rfl
    rw [hc, hcc, xQ_qpqBody A hx]
    by_cases h1 : q.s.crash.isSome = true
    · simp only [h1, if_true, Option.map_some]
    · simp only [h1, Bool.false_eq_true, if_false]
      by_cases h2 : (!qpqCountComplete q.s) = true
      · simp only [h2, if_true]
        cases hb : qpqBody A q with
        | mk q' fl =>
          cases fl with
          | cont => simp only; exact ih q'
          | brk => rfl
      · simp only [h2, Bool.false_eq_true, if_false, Option.map_some]

/-! ## the whole count -/

def qS1 (s0 : St α) : St α :=
  { s0 with cands := s0.cands.map (fun (c : Cand α) =>
      if c.st == .hopeful then { c with tc := A.zero, quotient := some A.zero } else c) }

def qVA (s0 : St α) : α := A.sum (((qS1 A s0).ballots.filter (fun b => !b.exhaustedB)).map (fun b => A.ofInt b.mult))

def qpqStart (s0 : St α) : QSt α :=
  { s := (mapBallots { qS1 A s0 with quota := (qpqQuota A { s := qS1 A s0, va := qVA A s0, tx := A.zero, restart := true }).1 }
            (fun (b : Ballot α) => { b with w := A.zero })).logAct A "begin" "Begin Count" []
    va := qVA A s0, tx := A.zero, restart := true }

def qpqFinish (q : QSt α) : St α :=
  if q.s.crash.isSome then q.s else
  let s4 := if decide ((q.s.hopeful.length : Int) ≤ q.s.seatsLeft) then
              q.s.hopeful.foldl (fun acc c => acc.elect A c.cid "Elect remaining candidates" false) q.s
            else q.s
  s4.hopeful.foldl (fun acc c => acc.defeat A c.cid "Defeat remaining candidates") s4

theorem qpqCount_eq (s0 : St α) :
    qpqCount A s0 = (qpqLoop A (s0.cands.length * (s0.cands.length + 2) + 3) (qpqStart A s0)).map (qpqFinish A) := by
  have h : qpqCount A s0 = match qpqLoop A (s0.cands.length * (s0.cands.length + 2) + 3) (qpqStart A s0) with
      | none => none
      | some q => some (qpqFinish A q) := by
    unfold qpqCount
    show (match qpqLoop A (s0.cands.length * (s0.cands.length + 2) + 3) (qpqStart A s0) with
      | none => none
      | some q => _) = _
    cases qpqLoop A (s0.cands.length * (s0.cands.length + 2) + 3) (qpqStart A s0) with
    | none => rfl
    | some q =>
      simp only
      unfold qpqFinish
      split <;> rfl
  rw [h]
  cases qpqLoop A (s0.cands.length * (s0.cands.length + 2) + 3) (qpqStart A s0) <;> rfl

theorem qVA_xB (hx : XQ A fb fw) (s0 : St α) : qVA A (xB fb fw s0) = qVA A s0 := by
  unfold qVA
  exact hx.vaSum s0.ballots

theorem xQ_qpqStart (hx : XQ A fb fw) (s0 : St α) : qpqStart A (xB fb fw s0) = xQ fb fw (qpqStart A s0) := by
  unfold qpqStart xQ
  rw [qVA_xB A hx]
  dsimp only
  rw [xB_logAct A hx.toXF, xB_mapBallots A hx _ _ (multEq_setW A.zero)]
  rfl

theorem xB_qpqFinish (hx : XQ A fb fw) (q : QSt α) : qpqFinish A (xQ fb fw q) = xB fb fw (qpqFinish A q) := by
  unfold qpqFinish
  have hs : (xQ fb fw q).s = xB fb fw q.s := rfl
  rw [hs]
  by_cases hc : q.s.crash.isSome = true
  · rw [if_pos (show (xB fb fw q.s).crash.isSome = true from hc), if_pos hc]
  · rw [if_neg (show ¬ (xB fb fw q.s).crash.isSome = true from hc), if_neg hc]
    have h4 : (if decide (((xB fb fw q.s).hopeful.length : Int) ≤ (xB fb fw q.s).seatsLeft) = true then
          (xB fb fw q.s).hopeful.foldl (fun acc c => acc.elect A c.cid "Elect remaining candidates" false) (xB fb fw q.s)
        else xB fb fw q.s)
        = xB fb fw (if decide ((q.s.hopeful.length : Int) ≤ q.s.seatsLeft) = true then
          q.s.hopeful.foldl (fun acc c => acc.elect A c.cid "Elect remaining candidates" false) q.s
        else q.s) := by
      by_cases hd : decide ((q.s.hopeful.length : Int) ≤ q.s.seatsLeft) = true
      · rw [if_pos (show decide (((xB fb fw q.s).hopeful.length : Int) ≤ (xB fb fw q.s).seatsLeft) = true from hd), if_pos hd, hopeful_xB]
        exact (xB_foldElect A hx.toXF _ (fun _ => "Elect remaining candidates") (fun _ => false) q.s).symm
      · rw [if_neg (show ¬ decide (((xB fb fw q.s).hopeful.length : Int) ≤ (xB fb fw q.s).seatsLeft) = true from hd), if_neg hd]
    dsimp only
    rw [h4]
    generalize (if decide ((q.s.hopeful.length : Int) ≤ q.s.seatsLeft) = true then
          q.s.hopeful.foldl (fun acc c => acc.elect A c.cid "Elect remaining candidates" false) q.s
        else q.s) = s4
    rw [hopeful_xB]
    exact (xB_foldDefeat A hx.toXF _ (fun _ => "Defeat remaining candidates") s4).symm

/-- **C10 for QPQ, run level**: no hypothesis on the state -/
theorem qpq_xB (hx : XQ A fb fw) (s0 : St α) : qpqCount A (xB fb fw s0) = (qpqCount A s0).map (xB fb fw) := by
  rw [qpqCount_eq, qpqCount_eq]
  have hlen : (xB fb fw s0).cands.length = s0.cands.length := rfl
  rw [hlen, xQ_qpqStart A hx, xQ_qpqLoop A hx]
  cases qpqLoop A (s0.cands.length * (s0.cands.length + 2) + 3) (qpqStart A s0) with
  | none => rfl
  | some q => simp only [Option.map_some]; rw [xB_qpqFinish A hx]

theorem XQ_of_natPerm (hA : LawfulArith A) {π : ∀ {β : Type}, List β → List β} (hπ : NatPerm π) :
    XQ A (π (β := Ballot α)) (π (β := Nat × α)) :=
  { toXF := XF_of_natPerm A hA hπ
    mapB := fun f _ l => hπ.nat f l
    tally := fun acc l => foldl_qTally_perm A hA (hπ.perm l) acc
    vaSum := fun l => by
      rw [arith_sum_eq A hA, arith_sum_eq A hA]
      exact (((hπ.perm l).filter _).map _).sum_eq }

end Droop
