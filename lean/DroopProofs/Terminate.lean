import DroopProofs.Measure

/-! # wigm / wigm-prf: every round makes progress, so the fuelled loop never runs out of fuel -/
namespace Droop
variable {α : Type} [CommRing α] [LinearOrder α] [IsStrictOrderedRing α] (A : Arith α)

def Cand.active (c : Cand α) : Prop := c.st = .hopeful ∨ (c.st = .elected ∧ c.pending = true)

/-- an active candidate stays active (under its id) while others are elected with transfer pending -/
theorem active_foldElect (ws : List (Cand α)) (verb : Cand α → String) (s : St α) (cid : Nat)
    (h : ∃ c ∈ s.cands, c.cid = cid ∧ c.active) :
    ∃ c ∈ (ws.foldl (fun acc c => acc.elect A c.cid (verb c) true) s).cands, c.cid = cid ∧ c.active := by
  induction ws generalizing s with
  | nil => exact h
  | cons w ws ih =>
    simp only [List.foldl_cons]
    apply ih
    obtain ⟨c, hc, hcid, hact⟩ := h
    unfold St.elect; rw [logAct_cands]
    by_cases he : c.cid = w.cid
    · refine ⟨_, mem_upd_of_eq (f := fun x => { x with st := .elected, pending := true }) hc he, hcid, ?_⟩
      exact Or.inr ⟨rfl, rfl⟩
    · exact ⟨c, mem_upd_of_ne hc he, hcid, hact⟩

theorem mu_foldElect_le {s : St α} (hI : Inv A s) (ws : List (Cand α)) (verb : Cand α → String) (pend : Cand α → Bool)
    (hnd : (ws.map (·.cid)).Nodup)
    (hw : ∀ w ∈ ws, w ∈ s.cands ∧ w.st = .hopeful ∧ (pend w = true → s.quota ≤ w.vote)) :
    mu (ws.foldl (fun acc c => acc.elect A c.cid (verb c) (pend c)) s) ≤ mu s := by
  induction ws generalizing s with
  | nil => exact Nat.le_refl _
  | cons w ws ih =>
    simp only [List.foldl_cons]
    simp only [List.map_cons, List.nodup_cons, List.mem_map, not_exists, not_and] at hnd
    obtain ⟨hwm, hwh, hwq⟩ := hw w (by simp)
    have huniq : ∀ c ∈ s.cands, c.cid = w.cid → c = w := fun c hc hcid => nodup_cid_eq hI.wf hc hwm hcid
    have h1 : Inv A (s.elect A w.cid (verb w) (pend w)) := by
      apply hI.elect A
      · intro c hc hcid; rw [huniq c hc hcid]; exact hwh
      · intro c hc hcid hp; rw [huniq c hc hcid]; exact hwq hp
    have hlt := mu_elect_lt A s w (verb w) (pend w) hI.wf hwm hwh
    refine Nat.le_trans (ih h1 hnd.2 ?_) (Nat.le_of_lt hlt)
    intro w' hw'
    obtain ⟨hm, hh, hq⟩ := hw w' (by simp [hw'])
    have hne : w'.cid ≠ w.cid := fun e => hnd.1 w' hw' e
    refine ⟨?_, hh, ?_⟩
    · unfold St.elect; rw [logAct_cands]; exact mem_upd_of_ne hm hne
    · intro hp; unfold St.elect; rw [logAct_quota]; exact hq hp

theorem mu_electWinners_le {s : St α} (hI : Inv A s) (hasQ : St α → Cand α → Bool) (pend : St α → Cand α → Bool)
    (verb : St α → Cand α → String) (hsound : ∀ c, hasQ s c = true → s.quota ≤ c.vote) :
    mu (electWinners A hasQ pend verb s) ≤ mu s := by
  unfold electWinners
  apply mu_foldElect_le A hI _ (verb s) (pend s)
  · have hp : ((byVote A true s.hopeful).map (·.cid)).Perm (s.hopeful.map (·.cid)) := (pySorted_perm _ _ _).map _
    have hnd : ((byVote A true s.hopeful).map (·.cid)).Nodup := hp.nodup_iff.2 (hopeful_cids_nodup hI.wf)
    exact List.Nodup.sublist (List.Sublist.map _ List.filter_sublist) hnd
  · intro w hw
    rw [List.mem_filter] at hw
    have hm : w ∈ s.hopeful := (mem_pySorted _ _ _ _).1 hw.1
    obtain ⟨hc, hh⟩ := mem_hopeful.1 hm
    exact ⟨hc, hh, fun _ => hsound w hw.2⟩

theorem maxVoteOf_isSome (l : List (Cand α)) (h : l ≠ []) : ∃ v, maxVoteOf A l = some v := by
  cases l with
  | nil => exact absurd rfl h
  | cons c cs => exact ⟨_, rfl⟩
theorem minVoteOf_isSome (l : List (Cand α)) (h : l ≠ []) : ∃ v, minVoteOf A l = some v := by
  cases l with
  | nil => exact absurd rfl h
  | cons c cs => exact ⟨_, rfl⟩

theorem breakTie_none_crash (s : St α) (tied : List (Cand α)) (verb : String)
    (h : (breakTie A s tied verb).2 = none) : (breakTie A s tied verb).1.crash.isSome = true := by
  unfold breakTie at h ⊢
  split
  · unfold St.setCrash; split <;> simp_all
  · simp at h
  · rename_i hne1 hne2
    simp only at h
    cases htied : tied with
    | nil => exact absurd htied hne1
    | cons x xs =>
      have : (byTieOrder tied) ≠ [] := by
        intro hnil
        have hp := (pySorted_perm (fun a b : Cand α => a.tie < b.tie) false tied).length_eq
        unfold byTieOrder at hnil
        rw [hnil, htied] at hp; simp at hp
      cases hb : byTieOrder tied with
      | nil => exact absurd hb this
      | cons y ys => rw [hb] at h; simp at h

/-- the surplus step makes progress: the measure drops, or the crash flag is raised -/
theorem wigmSurplusStep_progress {s : St α} (hI : Inv A s) (hp : s.pendingL ≠ []) :
    mu (wigmSurplusStep A s) < mu s ∨ (wigmSurplusStep A s).crash.isSome = true := by
  unfold wigmSurplusStep
  obtain ⟨hv, hm⟩ := maxVoteOf_isSome A s.pendingL hp
  rw [hm]; simp only
  have hmu := mu_breakTie A s (s.pendingL.filter (fun c => A.eq c.vote hv)) "Break tie (surplus)"
  have hfr := breakTie_frame A s (s.pendingL.filter (fun c => A.eq c.vote hv)) "Break tie (surplus)"
  have hmem := breakTie_mem A s (s.pendingL.filter (fun c => A.eq c.vote hv)) "Break tie (surplus)"
  have hnone := breakTie_none_crash A s (s.pendingL.filter (fun c => A.eq c.vote hv)) "Break tie (surplus)"
  have hI1 := hI.breakTie A (s.pendingL.filter (fun c => A.eq c.vote hv)) "Break tie (surplus)"
  cases hb : breakTie A s (s.pendingL.filter (fun c => A.eq c.vote hv)) "Break tie (surplus)" with
  | mk s1 oc =>
    rw [hb] at hmu hfr hmem hnone hI1
    cases oc with
    | none => right; exact hnone rfl
    | some hc =>
      left
      simp only
      have hcm := hmem hc rfl
      rw [List.mem_filter] at hcm
      obtain ⟨hcs, hce, hcp⟩ := mem_pendingL.1 hcm.1
      have hcs1 : hc ∈ s1.cands := by have := hfr.1; simp only at this; rw [this]; exact hcs
      rw [mu_transferSurplus]
      simp only at hmu
      rw [← hmu]
      exact mu_unpendLog_lt A s1 hc _ hI1.wf hcs1 hce hcp

theorem wigmDefeatStep_progress (o : WigmOpts) (hz : o.batchZero = false) {s : St α} (hI : Inv A s)
    (hh : s.hopeful ≠ []) :
    mu (wigmDefeatStep A o s) < mu s ∨ (wigmDefeatStep A o s).crash.isSome = true := by
  unfold wigmDefeatStep
  obtain ⟨lv, hm⟩ := minVoteOf_isSome A s.hopeful hh
  rw [hm]; simp only [hz, Bool.and_false, Bool.false_and, Bool.false_eq_true, if_false]
  have hmu := mu_breakTie A s (s.hopeful.filter (fun c => A.eq c.vote lv)) "Break tie (defeat)"
  have hfr := breakTie_frame A s (s.hopeful.filter (fun c => A.eq c.vote lv)) "Break tie (defeat)"
  have hmem := breakTie_mem A s (s.hopeful.filter (fun c => A.eq c.vote lv)) "Break tie (defeat)"
  have hnone := breakTie_none_crash A s (s.hopeful.filter (fun c => A.eq c.vote lv)) "Break tie (defeat)"
  have hI1 := hI.breakTie A (s.hopeful.filter (fun c => A.eq c.vote lv)) "Break tie (defeat)"
  cases hb : breakTie A s (s.hopeful.filter (fun c => A.eq c.vote lv)) "Break tie (defeat)" with
  | mk s1 oc =>
    rw [hb] at hmu hfr hmem hnone hI1
    cases oc with
    | none => right; exact hnone rfl
    | some lc =>
      left
      simp only
      have hcm := hmem lc rfl
      rw [List.mem_filter] at hcm
      obtain ⟨hcs, hch⟩ := mem_hopeful.1 hcm.1
      have hcs1 : lc ∈ s1.cands := by have := hfr.1; simp only at this; rw [this]; exact hcs
      rw [mu_transferDefeated]
      simp only at hmu
      rw [← hmu]
      exact mu_defeat_lt A s1 lc _ hI1.wf hcs1 hch

end Droop
