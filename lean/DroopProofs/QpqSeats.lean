import DroopProofs.QpqMon

/-! # C01 / C09 for QPQ: the elected never exceed the seats, exclusions never leave too few, and a count that returns without
the crash flag has filled every seat and left nobody hopeful

`qpqLoop` runs a round only while a seat is open and more candidates are hopeful than seats are open.  A round elects at most one
candidate (after possibly un-electing everybody), so the elected stay within the seats; it excludes a candidate only in such a
state, so hopeful + elected stay at or above the seats.  When the loop stops on its guard either every seat is filled, or the
hopefuls fit the open seats and `qpqFinish` elects them all.  A round that breaks off raises the crash flag. -/
namespace Droop
variable {α : Type} [CommRing α] [LinearOrder α] [IsStrictOrderedRing α] (A : Arith α)

/-! ## seats and the crash flag through the stages -/

theorem qTally_seats (acc : QSt α) (b : Ballot α) : (qTally A acc b).s.seats = acc.s.seats := by
  unfold qTally; split <;> rfl

theorem foldl_qTally_seats (bs : List (Ballot α)) (acc : QSt α) : (bs.foldl (qTally A) acc).s.seats = acc.s.seats := by
  induction bs generalizing acc with
  | nil => rfl
  | cons b bs ih => simp only [List.foldl_cons]; rw [ih, qTally_seats]

theorem qR2_seats (q : QSt α) : (qR2 A q).seats = q.s.seats := by
  have h1 : (qR1 A q).seats = q.s.seats := by unfold qR1; exact (frame_newRound A q.s).2.1
  unfold qR2
  split
  · exact h1
  · exact h1

theorem qR5_seats (q : QSt α) : (qR5 A q).seats = q.s.seats := by
  have h4 : (qR4 A q).seats = q.s.seats := by
    show (qQ1 A q).s.seats = q.s.seats
    unfold qQ1
    rw [foldl_qTally_seats]
    exact qR2_seats A q
  unfold qR5
  split
  · rw [(frame_setCrash _ _).2.1]; exact h4
  · exact h4

theorem qElected_seats (s6 : St α) (hc : Cand α) : (qElected A s6 hc).seats = s6.seats := by
  unfold qElected
  split
  · rw [(frame_setCrash _ _).2.1]; exact (frame_elect A s6 _ _ _).2.1
  · exact (frame_elect A s6 _ _ _).2.1

theorem qDecide_seats (q1 : QSt α) (s5 : St α) : (qDecide A q1 s5).1.s.seats = s5.seats := by
  unfold qDecide
  cases hh : s5.hopeful with
  | nil =>
    simp only
    exact (frame_setCrash _ _).2.1
  | cons hd hs =>
    simp only
    by_cases hg : A.gt (A.pyMax (qQuot A hd) (hs.map (qQuot A))) s5.quota = true
    · rw [if_pos hg]
      have hf := (frame_breakTie A s5 (List.filter (fun c => A.eq (qQuot A c) (A.pyMax (qQuot A hd) (hs.map (qQuot A)))) (hd :: hs))
        "Break tie by lot (largest quotient)").2.1
      cases hb : breakTie A s5 (List.filter (fun c => A.eq (qQuot A c) (A.pyMax (qQuot A hd) (hs.map (qQuot A)))) (hd :: hs))
          "Break tie by lot (largest quotient)" with
      | mk s6 oc =>
        rw [hb] at hf
        cases oc with
        | none => exact hf
        | some hc =>
          simp only
          rw [logAct_seats]
          show (qElected A s6 hc).seats = s5.seats
          rw [qElected_seats]; exact hf
    · rw [if_neg hg]
      have hf := (frame_breakTie A s5 (List.filter (fun c => A.eq (qQuot A c) (A.pyMin (qQuot A hd) (hs.map (qQuot A)))) (hd :: hs))
        "Break tie by lot (smallest quotient)").2.1
      cases hb : breakTie A s5 (List.filter (fun c => A.eq (qQuot A c) (A.pyMin (qQuot A hd) (hs.map (qQuot A)))) (hd :: hs))
          "Break tie by lot (smallest quotient)" with
      | mk s6 oc =>
        rw [hb] at hf
        cases oc with
        | none => exact hf
        | some lc =>
          simp only
          rw [logAct_seats]
          show (s6.defeat A lc.cid "Defeat low quotient").seats = s5.seats
          rw [(frame_defeat A s6 _ _).2.1]; exact hf

theorem qpqBody_seats (q : QSt α) : (qpqBody A q).1.s.seats = q.s.seats := by
  rw [qpqBody_eq, qDecide_seats, qR5_seats]

/-- a round that breaks off has raised the crash flag, and changed no status since the decision state -/
theorem qDecide_brk (q1 : QSt α) (s5 : St α) (h : (qDecide A q1 s5).2 = .brk) :
    (qDecide A q1 s5).1.s.crash.isSome = true ∧ stsig (qDecide A q1 s5).1.s = stsig s5 := by
  unfold qDecide at h ⊢
  cases hh : s5.hopeful with
  | nil =>
    simp only
    exact ⟨setCrash_isSome _ _, stsig_setCrash _ _⟩
  | cons hd hs =>
    rw [hh] at h
    simp only at h ⊢
    by_cases hg : A.gt (A.pyMax (qQuot A hd) (hs.map (qQuot A))) s5.quota = true
    · rw [if_pos hg] at h ⊢
      have hn := breakTie_none_crash A s5 (List.filter (fun c => A.eq (qQuot A c) (A.pyMax (qQuot A hd) (hs.map (qQuot A)))) (hd :: hs))
        "Break tie by lot (largest quotient)"
      have hfr := (breakTie_frame A s5 (List.filter (fun c => A.eq (qQuot A c) (A.pyMax (qQuot A hd) (hs.map (qQuot A)))) (hd :: hs))
        "Break tie by lot (largest quotient)").1
      cases hb : breakTie A s5 (List.filter (fun c => A.eq (qQuot A c) (A.pyMax (qQuot A hd) (hs.map (qQuot A)))) (hd :: hs))
          "Break tie by lot (largest quotient)" with
      | mk s6 oc =>
        rw [hb] at h hn hfr
        cases oc with
        | none => exact ⟨hn rfl, stsig_of_cands hfr⟩
        | some hc => cases h
    · rw [if_neg hg] at h ⊢
      have hn := breakTie_none_crash A s5 (List.filter (fun c => A.eq (qQuot A c) (A.pyMin (qQuot A hd) (hs.map (qQuot A)))) (hd :: hs))
        "Break tie by lot (smallest quotient)"
      have hfr := (breakTie_frame A s5 (List.filter (fun c => A.eq (qQuot A c) (A.pyMin (qQuot A hd) (hs.map (qQuot A)))) (hd :: hs))
        "Break tie by lot (smallest quotient)").1
      cases hb : breakTie A s5 (List.filter (fun c => A.eq (qQuot A c) (A.pyMin (qQuot A hd) (hs.map (qQuot A)))) (hd :: hs))
          "Break tie by lot (smallest quotient)" with
      | mk s6 oc =>
        rw [hb] at h hn hfr
        cases oc with
        | none => exact ⟨hn rfl, stsig_of_cands hfr⟩
        | some lc => cases h

/-! ## the round invariant -/

/-- distinct ids; the elected fit the seats; hopeful + elected can still fill them -/
def QSeats (n : Nat) (s : St α) : Prop := s.WF ∧ s.seats = n ∧ nEl s ≤ n ∧ n ≤ nHop s + nEl s

theorem not_complete {s : St α} (h : qpqCountComplete s = false) : nEl s < s.seats ∧ s.seats < nHop s + nEl s := by
  unfold qpqCountComplete St.seatsLeft at h
  simp only [Bool.or_eq_false_iff, decide_eq_false_iff_not, not_le] at h
  unfold nEl nHop
  omega

theorem complete_cases {s : St α} (h : qpqCountComplete s = true) : s.seats ≤ nEl s ∨ nHop s + nEl s ≤ s.seats := by
  unfold qpqCountComplete St.seatsLeft at h
  simp only [Bool.or_eq_true, decide_eq_true_eq] at h
  unfold nEl nHop
  omega

theorem qpqBody_QSeats (n : Nat) (q : QSt α) (hP : QSeats n q.s) (hg : qpqCountComplete q.s = false) :
    QSeats n (qpqBody A q).1.s ∧ ((qpqBody A q).2 = .brk → (qpqBody A q).1.s.crash.isSome = true) := by
  obtain ⟨hwf, hs, hle, hge⟩ := hP
  obtain ⟨g1, g2⟩ := not_complete hg
  have hfw := qpqBody_fwd A q hwf
  have hwf' : (qpqBody A q).1.s.WF := hfw.WF hwf
  have hseats := qpqBody_seats A q
  have h5 : stsig (qR5 A q) = stsig (qR2 A q) := (qR5_stsig A q).1
  have hwf5 : (qR5 A q).WF := WF_of_stsig h5 ((qR2_fwd A q).WF hwf)
  have hc2 := qR2_counts A q
  have hH5 : nHop (qR5 A q) = nHop (qR2 A q) := nHop_of_stsig h5
  have hE5 : nEl (qR5 A q) = nEl (qR2 A q) := nEl_of_stsig h5
  have hsum : nHop (qR2 A q) + nEl (qR2 A q) = nHop q.s + nEl q.s ∧ nEl (qR2 A q) ≤ nEl q.s := by
    cases hr : q.restart with
    | true => obtain ⟨a, b⟩ := hc2.1 hr; omega
    | false => obtain ⟨a, b⟩ := hc2.2.1 hr; omega
  rw [qpqBody_eq] at hwf' hseats ⊢
  cases hfl : (qDecide A (qQ1 A q) (qR5 A q)).2 with
  | cont =>
    have hd := qDecide_cont A (qQ1 A q) (qR5 A q) hwf5 (qR5_stsig A q).2 hfl
    refine ⟨⟨hwf', by rw [hseats, hs], ?_, ?_⟩, fun h => by cases h⟩
    · rcases hd.2 with ⟨_, a, b⟩ | ⟨_, a, b⟩ <;> omega
    · rcases hd.2 with ⟨_, a, b⟩ | ⟨_, a, b⟩ <;> omega
  | brk =>
    obtain ⟨hcr, hsig⟩ := qDecide_brk A (qQ1 A q) (qR5 A q) hfl
    have a := nHop_of_stsig hsig
    have b := nEl_of_stsig hsig
    refine ⟨⟨hwf', by rw [hseats, hs], by omega, by omega⟩, fun _ => hcr⟩

/-- what the loop returns: the invariant holds, and either the crash flag is up or the loop stopped on its guard -/
theorem qpqLoop_exit (n : Nat) : ∀ (fuel : Nat) (q r : QSt α), QSeats n q.s → qpqLoop A fuel q = some r →
    QSeats n r.s ∧ (r.s.crash.isSome = true ∨ qpqCountComplete r.s = true) := by
  intro fuel
  induction fuel with
  | zero => intro q r _ h; cases h
  | succ k ih =>
    intro q r hP h
    unfold qpqLoop at h
    by_cases hc : q.s.crash.isSome = true
    · rw [if_pos hc] at h; cases h; exact ⟨hP, Or.inl hc⟩
    · rw [if_neg hc] at h
      by_cases hg : qpqCountComplete q.s = true
      · simp only [hg, Bool.not_true, Bool.false_eq_true, if_false] at h
        cases h; exact ⟨hP, Or.inr hg⟩
      · have hg' : qpqCountComplete q.s = false := by simpa using hg
        simp only [hg', Bool.not_false, if_true] at h
        obtain ⟨hP', hbrk⟩ := qpqBody_QSeats A n q hP hg'
        cases hq : qpqBody A q with
        | mk q' fl =>
          rw [hq] at h hP' hbrk
          cases fl with
          | cont => exact ih q' r hP' h
          | brk => cases h; exact ⟨hP', Or.inl (hbrk rfl)⟩

/-! ## the closing folds -/

theorem qFoldElectAll {s : St α} (hwf : s.WF) (ws : List (Cand α)) (verb : String)
    (hnd : (ws.map (·.cid)).Nodup) (hw : ∀ w ∈ ws, w ∈ s.cands ∧ w.st = .hopeful) :
    let t := ws.foldl (fun acc c => acc.elect A c.cid verb false) s
    t.WF ∧ nHop t + ws.length = nHop s ∧ nEl t = nEl s + ws.length ∧ t.seats = s.seats ∧ t.crash = s.crash := by
  have := foldl_hopefuls
    (fun n t => t.WF ∧ nHop t + (ws.length - n) = nHop s ∧ nEl t = nEl s + (ws.length - n) ∧ n ≤ ws.length
      ∧ t.seats = s.seats ∧ t.crash = s.crash)
    (fun acc c => acc.elect A c.cid verb false)
    (by
      intro n t w hP hwm hwh
      obtain ⟨hg, a, b, hn, hf, hcr⟩ := hP
      have hc := counts_elect A t w verb false hg hwm hwh
      refine ⟨⟨WF_elect A hg _ _ _, by omega, by omega, by omega,
        ((frame_elect A t w.cid verb false).2.1).trans hf, (crash_elect A t w.cid verb false).trans hcr⟩, ?_⟩
      intro c hc' hne
      exact mem_elect_of_ne A hc' _ _ _ hne)
    ws hnd hw ⟨hwf, by omega, by omega, Nat.le_refl _, rfl, rfl⟩
  obtain ⟨hg, a, b, _, hf, hcr⟩ := this
  exact ⟨hg, by omega, by omega, hf, hcr⟩

theorem qFoldDefeatAll {s : St α} (hwf : s.WF) (ws : List (Cand α)) (verb : String)
    (hnd : (ws.map (·.cid)).Nodup) (hw : ∀ w ∈ ws, w ∈ s.cands ∧ w.st = .hopeful) :
    let t := ws.foldl (fun acc c => acc.defeat A c.cid verb) s
    t.WF ∧ nHop t + ws.length = nHop s ∧ nEl t = nEl s ∧ t.seats = s.seats ∧ t.crash = s.crash := by
  have := foldl_hopefuls
    (fun n t => t.WF ∧ nHop t + (ws.length - n) = nHop s ∧ nEl t = nEl s ∧ n ≤ ws.length
      ∧ t.seats = s.seats ∧ t.crash = s.crash)
    (fun acc c => acc.defeat A c.cid verb)
    (by
      intro n t w hP hwm hwh
      obtain ⟨hg, a, b, hn, hf, hcr⟩ := hP
      have hc := counts_defeat A t w verb hg hwm hwh
      refine ⟨⟨WF_defeat A hg _ _, by omega, by omega, by omega,
        ((frame_defeat A t w.cid verb).2.1).trans hf, (crash_defeat A t w.cid verb).trans hcr⟩, ?_⟩
      intro c hc' hne
      exact mem_defeat_of_ne A hc' _ _ hne)
    ws hnd hw ⟨hwf, by omega, rfl, Nat.le_refl _, rfl, rfl⟩
  obtain ⟨hg, a, b, _, hf, hcr⟩ := this
  exact ⟨hg, by omega, b, hf, hcr⟩

theorem hopeful_members (s : St α) : ∀ w ∈ s.hopeful, w ∈ s.cands ∧ w.st = .hopeful := fun _ hw => mem_hopeful.1 hw

/-- the closing stage: the elected still fit the seats; without the crash flag every seat is filled and nobody is hopeful -/
theorem qpqFinish_counts (n : Nat) (q : QSt α) (hP : QSeats n q.s) (hex : q.s.crash.isSome = true ∨ qpqCountComplete q.s = true) :
    nEl (qpqFinish A q) ≤ n ∧ (qpqFinish A q).seats = n
    ∧ ((qpqFinish A q).crash = none → nEl (qpqFinish A q) = n ∧ nHop (qpqFinish A q) = 0) := by
  obtain ⟨hwf, hs, hle, hge⟩ := hP
  unfold qpqFinish
  by_cases hc : q.s.crash.isSome = true
  · rw [if_pos hc]
    refine ⟨hle, hs, fun h => ?_⟩
    rw [h] at hc; cases hc
  · rw [if_neg hc]
    have hcomp : qpqCountComplete q.s = true := by
      rcases hex with h | h
      · exact absurd h hc
      · exact h
    simp only
    by_cases hfit : ((q.s.hopeful.length : Int) ≤ q.s.seatsLeft)
    · rw [if_pos (by simpa using hfit)]
      obtain ⟨w1, a1, b1, f1, c1⟩ := qFoldElectAll A hwf q.s.hopeful "Elect remaining candidates" (hopeful_cids_nodup hwf) (hopeful_members q.s)
      obtain ⟨w2, a2, b2, f2, c2⟩ := qFoldDefeatAll A w1 (St.hopeful (q.s.hopeful.foldl (fun acc c => acc.elect A c.cid "Elect remaining candidates" false) q.s))
        "Defeat remaining candidates" (hopeful_cids_nodup w1) (hopeful_members _)
      have hfit' : nHop q.s + nEl q.s ≤ q.s.seats := by
        unfold St.seatsLeft at hfit; unfold nHop nEl; omega
      have hl : q.s.hopeful.length = nHop q.s := rfl
      refine ⟨by omega, by rw [f2, f1, hs], fun _ => ⟨by omega, ?_⟩⟩
      have : (St.hopeful (q.s.hopeful.foldl (fun acc c => acc.elect A c.cid "Elect remaining candidates" false) q.s)).length
          = nHop (q.s.hopeful.foldl (fun acc c => acc.elect A c.cid "Elect remaining candidates" false) q.s) := rfl
      omega
    · rw [if_neg (by simpa using hfit)]
      obtain ⟨w2, a2, b2, f2, c2⟩ := qFoldDefeatAll A hwf q.s.hopeful "Defeat remaining candidates" (hopeful_cids_nodup hwf) (hopeful_members q.s)
      have hfull : q.s.seats ≤ nEl q.s := by
        rcases complete_cases hcomp with h | h
        · exact h
        · exfalso; apply hfit; unfold St.seatsLeft; unfold nHop nEl at h; omega
      have hl : q.s.hopeful.length = nHop q.s := rfl
      exact ⟨by omega, by rw [f2, hs], fun _ => ⟨by omega, by omega⟩⟩

/-- **C01 / C09 for QPQ.**  From a start state with distinct ids, nobody elected and at least as many hopeful candidates as
    seats: the state the count returns has at most `seats` elected; if the crash flag is not up, exactly `seats` are elected and
    no candidate is left hopeful. -/
theorem qpqCount_seats (s0 t : St α) (hwf : s0.WF) (h0 : nEl s0 = 0) (hen : s0.seats ≤ nHop s0) (h : qpqCount A s0 = some t) :
    nEl t ≤ s0.seats ∧ t.seats = s0.seats ∧ (t.crash = none → nEl t = s0.seats ∧ nHop t = 0) := by
  rw [qpqCount_eq] at h
  cases hl : qpqLoop A (s0.cands.length * (s0.cands.length + 2) + 3) (qpqStart A s0) with
  | none => rw [hl] at h; cases h
  | some r =>
    rw [hl] at h
    simp only [Option.map_some, Option.some.injEq] at h
    subst h
    have hs := qpqStart_stsig A s0
    have hseats : (qpqStart A s0).s.seats = s0.seats := by
      unfold qpqStart
      simp only
      rw [logAct_seats]
      rfl
    have hP0 : QSeats s0.seats (qpqStart A s0).s :=
      ⟨WF_of_stsig hs hwf, hseats, by rw [nEl_of_stsig hs]; omega, by rw [nHop_of_stsig hs, nEl_of_stsig hs]; omega⟩
    obtain ⟨hP, hex⟩ := qpqLoop_exit A s0.seats _ _ _ hP0 hl
    exact qpqFinish_counts A s0.seats r hP hex

/-- inside the loop too: every state a round ends in has at most `seats` elected and enough candidates left -/
theorem qpqLoop_round_seats (n : Nat) (q : QSt α) (hP : QSeats n q.s) (hg : qpqCountComplete q.s = false) :
    nEl (qpqBody A q).1.s ≤ n ∧ n ≤ nHop (qpqBody A q).1.s + nEl (qpqBody A q).1.s :=
  let h := (qpqBody_QSeats A n q hP hg).1
  ⟨h.2.2.1, h.2.2.2⟩

end Droop
