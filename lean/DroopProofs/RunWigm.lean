import DroopProofs.RunCfer

/-! # wigm, wigm-prf and wigm-prf-batch at run level (every configuration except `defeat_batch=zero`)

Termination, seats and the forward-only record, batch exclusions of sure losers included. The earlier theorems
(`wigmCount_terminates`, `wigm_seats_filled`, `wigm_loop_record_monotone`) cover the non-batch configurations only. -/
namespace Droop
variable {α : Type} [CommRing α] [LinearOrder α] [IsStrictOrderedRing α] (A : Arith α)

/-! ## the sure-loser search never takes more candidates than can be spared -/
theorem scanGroups_bound (surplus : α) (maxDefeat : Int) :
    ∀ (suffix pre : List (List (Cand α))) (vote : α) (maxg : Option Nat),
      (∀ m, maxg = some m → (((pre ++ suffix).take (m + 1)).flatten.length : Int) ≤ maxDefeat) →
      ∀ m, scanGroups A surplus maxDefeat suffix pre.length pre.flatten.length vote maxg = some m →
        (((pre ++ suffix).take (m + 1)).flatten.length : Int) ≤ maxDefeat := by
  intro suffix
  induction suffix with
  | nil => intro pre vote maxg h m hm; unfold scanGroups at hm; exact h m hm
  | cons grp tl ih =>
    intro pre vote maxg h m hm
    cases tl with
    | nil => unfold scanGroups at hm; exact h m hm
    | cons nxt rest =>
      unfold scanGroups at hm
      by_cases hgt : ((pre.flatten.length + grp.length : Nat) : Int) > maxDefeat
      · rw [if_pos hgt] at hm; exact h m hm
      · rw [if_neg hgt] at hm
        dsimp only at hm
        have e1 : (pre ++ [grp]).length = pre.length + 1 := by simp
        have e2 : (pre ++ [grp]).flatten.length = pre.flatten.length + grp.length := by simp
        have e3 : pre ++ grp :: nxt :: rest = (pre ++ [grp]) ++ nxt :: rest := by simp
        rw [← e1, ← e2] at hm
        rw [e3]
        apply ih (pre ++ [grp]) _ _ _ m hm
        intro m' hm'
        have htake : (((pre ++ [grp]) ++ nxt :: rest).take (pre.length + 1)) = pre ++ [grp] := by
          rw [← e1]; exact List.take_left
        have hthis : ((((pre ++ [grp]) ++ nxt :: rest).take (pre.length + 1)).flatten.length : Int) ≤ maxDefeat := by
          rw [htake, e2]; omega
        cases hn : nxt.head? with
        | none =>
          rw [hn] at hm'; dsimp only at hm'
          rw [← e3]; exact h m' hm'
        | some c0 =>
          rw [hn] at hm'; dsimp only at hm'
          split at hm'
          · cases hm'; exact hthis
          · rw [← e3]; exact h m' hm'

theorem batchDefeatGroups_bound (s : St α) (surplus : α) :
    ((batchDefeatGroups A s surplus).length : Int) ≤ (s.hopeful.length : Int) - s.seatsLeft
    ∨ batchDefeatGroups A s surplus = [] := by
  unfold batchDefeatGroups
  dsimp only
  split
  · rename_i g hg
    left
    have := scanGroups_bound A surplus ((s.hopeful.length : Int) - s.seatsLeft)
      (sortedGroups A surplus (byVote A false s.hopeful)) [] A.zero none (by intro m hm; cases hm) g
      (by simpa using hg)
    simpa using this
  · right; rfl

/-! ## the batch step -/
def WigmInv (s : St α) : Prop := InvE A s ∧ Mon s ∧ DroopQuota A s ∧ s.seats ≤ sumHE s

theorem wigmBatchStep_spec (hA : LawfulArith A) {s : St α} (hE : InvE A s) (hM : Mon s) (sure : List (Cand α))
    (hsub : ∀ w ∈ sure, w ∈ s.hopeful) (hnd : (sure.map (·.cid)).Nodup) (hne : sure ≠ [])
    (hb : (sure.length : Int) ≤ (s.hopeful.length : Int) - s.seatsLeft) (hle : nEl s ≤ s.seats) :
    InvE A (wigmBatchStep A s sure).1 ∧ Mon (wigmBatchStep A s sure).1 ∧ Frame s (wigmBatchStep A s sure).1
    ∧ Ext s (wigmBatchStep A s sure).1 ∧ (wigmBatchStep A s sure).1.seats ≤ sumHE (wigmBatchStep A s sure).1
    ∧ mu (wigmBatchStep A s sure).1 < mu s
    ∧ ((wigmBatchStep A s sure).2 = .brk →
        ((wigmBatchStep A s sure).1.hopeful.length : Int) ≤ (wigmBatchStep A s sure).1.seatsLeft) := by
  have hI := hE.1.wigmBatchStep A hA sure hsub hnd
  unfold wigmBatchStep at hI ⊢
  unfold wigmDefeatSure at hI ⊢
  obtain ⟨a1, a2, a3, a4, a5, a6, a7, a8, _, a10⟩ := defeatMany_spec A hE hM sure (byBallotOrder sure) "Defeat sure loser"
    (pySorted_perm _ _ _) hnd hsub
  generalize (byBallotOrder sure).foldl (fun acc c => acc.defeat A c.cid "Defeat sure loser") s = s1 at *
  have hpos : 0 < sure.length := List.length_pos_of_ne_nil hne
  have hge : s1.seats ≤ sumHE s1 := by
    rw [a7.2.1]; unfold sumHE St.seatsLeft nHop nEl at *; omega
  by_cases hfin : ((s1.hopeful.length : Int) ≤ s1.seatsLeft)
  · have hd : decide ((s1.hopeful.length : Int) ≤ s1.seatsLeft) = true := by simpa using hfin
    rw [if_pos hd] at hI ⊢
    dsimp only
    exact ⟨a1, a2, a7, a8, hge, by omega, fun _ => hfin⟩
  · have hd : ¬ (decide ((s1.hopeful.length : Int) ≤ s1.seatsLeft) = true) := by simpa using hfin
    rw [if_neg hd] at hI ⊢
    dsimp only at hI ⊢
    refine ⟨⟨hI, EHQ.transferDefeated A hA a1.1 a1.2 _ _ a4⟩, Mon.transferDefeated A a2 _ _,
      a7.trans (frame_transferDefeated A _ _ _), a8.trans (ext_transferDefeated A _ _ _), ?_, ?_, ?_⟩
    · rw [(frame_transferDefeated A _ _ _).2.1, sumHE_transferDefeated]; exact hge
    · rw [mu_transferDefeated]; omega
    · intro hc; cases hc

/-! ## one round -/
theorem wigmBody_spec (hA : LawfulArith A) (o : WigmOpts) (hz : o.batchZero = false) (hex : o.prf = true → A.exact = false)
    {s : St α} (h : WigmInv A s) (hg : stdGuard s = true) :
    WigmInv A (wigmBody A o s).1
    ∧ ((wigmBody A o s).2 = .cont → mu (wigmBody A o s).1 < mu s ∨ (wigmBody A o s).1.crash.isSome = true)
    ∧ ((wigmBody A o s).2 = .brk → ((wigmBody A o s).1.hopeful.length : Int) ≤ (wigmBody A o s).1.seatsLeft) := by
  obtain ⟨hE, hM, hD, hJ⟩ := h
  have hgt := guard_strict s hg
  have hE1 : InvE A (s.newRound A) := ⟨hE.1.newRound A, EHQ.newRound A hE.2⟩
  have hM1 := hM.newRound A
  have hsound : ∀ c, (if o.prf then hasQuotaGE A else hasQuotaX A) (s.newRound A) c = true → (s.newRound A).quota ≤ c.vote := by
    intro c hc
    by_cases hp : o.prf = true
    · simp only [hp, if_true] at hc; exact hasQuotaGE_sound A hA (hex hp) _ c hc
    · simp only [hp] at hc; exact hasQuotaX_sound A hA _ c hc
  have hE2 : InvE A (wigmElect A o (s.newRound A)) := by unfold wigmElect; exact hE1.electWinners A _ _ _ hsound
  have hM2 : Mon (wigmElect A o (s.newRound A)) := by
    unfold wigmElect; exact (InvM.electWinners A ⟨hE1.1, hM1⟩ _ _ _ hsound).2
  have hF2 : Frame s (wigmElect A o (s.newRound A)) := (frame_newRound A s).trans (frame_wigmElect A o _)
  have hmu2 : mu (wigmElect A o (s.newRound A)) ≤ mu s := by
    rw [← mu_newRound A s]; unfold wigmElect; exact mu_electWinners_le A hE1.1 _ _ _ hsound
  have hS2 : sumHE (wigmElect A o (s.newRound A)) = sumHE s := by
    rw [← sumHE_newRound A s]; unfold wigmElect; exact sumHE_electWinners A hE1.1 _ _ _ hsound
  have hD2 : DroopQuota A (wigmElect A o (s.newRound A)) := hD.of_frame A hF2
  have hel2 : nEl (wigmElect A o (s.newRound A)) ≤ (wigmElect A o (s.newRound A)).seats := elected_le_seats A hE2.1 hE2.2 hD2
  have hgt2 : (wigmElect A o (s.newRound A)).seats < sumHE (wigmElect A o (s.newRound A)) := by rw [hF2.2.1, hS2]; exact hgt
  unfold wigmBody
  generalize wigmElect A o (s.newRound A) = s2 at *
  unfold wigmAfterElect
  by_cases hsure : (wigmSure A o s2).isEmpty = false
  · simp only [hsure, Bool.not_false, if_true]
    have hne : wigmSure A o s2 ≠ [] := by intro e; rw [e] at hsure; simp at hsure
    have hsub : ∀ w ∈ wigmSure A o s2, w ∈ s2.hopeful := by
      intro w hw; unfold wigmSure at hw; split at hw
      · exact batchDefeatGroups_hopeful A s2 _ w hw
      · cases hw
    have hnd : ((wigmSure A o s2).map (·.cid)).Nodup := by
      unfold wigmSure; split
      · exact batchDefeatGroups_nodup A s2 hE2.1.wf _
      · simp
    have hb : ((wigmSure A o s2).length : Int) ≤ (s2.hopeful.length : Int) - s2.seatsLeft := by
      unfold wigmSure at hne ⊢
      by_cases hpb : o.prfBatch = true
      · simp only [hpb, if_true] at hne ⊢
        rcases batchDefeatGroups_bound A s2 (A.sum (s2.pendingL.map (fun c => A.sub c.vote s2.quota))) with h | h
        · exact h
        · exact absurd h hne
      · simp only [hpb, Bool.false_eq_true, if_false] at hne
        exact absurd rfl hne
    obtain ⟨b1, b2, b3, _, b5, b6, b7⟩ := wigmBatchStep_spec A hA hE2 hM2 _ hsub hnd hne hb hel2
    exact ⟨⟨b1, b2, hD2.of_frame A b3, b5⟩, fun _ => Or.inl (by omega), b7⟩
  · have hsure' : (wigmSure A o s2).isEmpty = true := by simpa using hsure
    simp only [hsure', Bool.not_true, Bool.false_eq_true, if_false]
    by_cases hp : s2.pendingL.isEmpty = false
    · simp only [hp, Bool.not_false, if_true]
      have hp' : s2.pendingL ≠ [] := by intro e; rw [e] at hp; simp at hp
      refine ⟨⟨hE2.wigmSurplusStep A hA, (InvM.wigmSurplusStep A hA ⟨hE2.1, hM2⟩).2,
        hD2.of_frame A (frame_wigmSurplusStep A s2), ?_⟩, ?_, fun hc => by cases hc⟩
      · rw [(frame_wigmSurplusStep A s2).2.1, sumHE_wigmSurplusStep]; omega
      · intro _
        rcases wigmSurplusStep_progress A hE2.1 hp' with hlt | hcr
        · left; omega
        · right; exact hcr
    · have hp' : s2.pendingL.isEmpty = true := by simpa using hp
      simp only [hp', Bool.not_true, Bool.false_eq_true, if_false]
      have hhne : s2.hopeful ≠ [] := by
        intro e
        have : nHop s2 = 0 := by unfold nHop; rw [e]; rfl
        unfold sumHE at hgt2; omega
      have hh : s2.hopeful.isEmpty = false := by
        cases hl : s2.hopeful with
        | nil => exact absurd hl hhne
        | cons x xs => rfl
      simp only [hh, Bool.not_false, if_true]
      refine ⟨⟨hE2.wigmDefeatStep1 A hA o hz, (InvM.wigmDefeatStep1 A hA o hz ⟨hE2.1, hM2⟩).2,
        hD2.of_frame A (frame_wigmDefeatStep A o s2), ?_⟩, ?_, fun hc => by cases hc⟩
      · have := sumHE_wigmDefeatStep A o hz hE2.1
        rw [(frame_wigmDefeatStep A o s2).2.1]; omega
      · intro _
        rcases wigmDefeatStep_progress A o hz hE2.1 hhne with hlt | hcr
        · left; omega
        · right; exact hcr

/-! ## the epilogue and the whole count -/
theorem epilogue_good {s : St α} (hg : Good A s) : Good A (epilogueElectOrDefeat A s) := by
  unfold epilogueElectOrDefeat
  dsimp only
  have hg5 := hg.foldUnpend A
  generalize s.pendingL.foldl (fun acc c => acc.unpendSilent c.cid) s = s5 at *
  exact foldl_hopefuls (fun _ t => Good A t)
    (fun acc c => if acc.elected.length < acc.seats then acc.elect A c.cid "Elect remaining" false
      else acc.defeat A c.cid "Defeat remaining")
    (by
      intro n t w hP hwm hwh
      split
      · exact ⟨hP.elect A w _ false hwm hwh (fun hp => by cases hp), fun c hc hne => mem_elect_of_ne A hc _ _ _ hne⟩
      · exact ⟨hP.defeat A w _ hwm hwh, fun c hc hne => mem_defeat_of_ne A hc _ _ hne⟩)
    s5.hopeful (hopeful_cids_nodup hg5.1.wf) (fun w hw => mem_hopeful.1 hw) hg5

theorem epilogue_crash (s : St α) : (epilogueElectOrDefeat A s).crash = s.crash := by
  unfold epilogueElectOrDefeat
  dsimp only
  rw [← crash_foldUnpend s.pendingL s]
  generalize s.pendingL.foldl (fun acc c => acc.unpendSilent c.cid) s = s5
  have : ∀ (l : List (Cand α)) (v : St α), (l.foldl (fun acc c =>
      if acc.elected.length < acc.seats then acc.elect A c.cid "Elect remaining" false
      else acc.defeat A c.cid "Defeat remaining") v).crash = v.crash := by
    intro l; induction l with
    | nil => intro v; rfl
    | cons c cs ih =>
      intro v; simp only [List.foldl_cons]; rw [ih]
      split
      · exact crash_elect A v c.cid _ _
      · exact crash_defeat A v c.cid _
  exact this _ _

theorem wigmInit_eq (o : WigmOpts) (s0 : St α) : wigmInit A o s0 = gInit A (wigmQuota A o s0) s0 := rfl

theorem WigmInv.init (hA : LawfulArith A) (o : WigmOpts) {s0 : St α} (h : GStart A (wigmQuota A o s0) s0) :
    WigmInv A (wigmInit A o s0) := by
  rw [wigmInit_eq]
  obtain ⟨a1, a2, a3, _, a5, a6, _, _⟩ := h.facts A hA
  exact ⟨a1, a2, a3, by unfold sumHE; omega⟩

/-- **C01 (termination)** for wigm / wigm-prf / wigm-prf-batch, every configuration except `defeat_batch=zero` -/
theorem wigmCount_terminates' (hA : LawfulArith A) (o : WigmOpts) (hz : o.batchZero = false)
    (hex : o.prf = true → A.exact = false) (s0 : St α) (h0 : GStart A (wigmQuota A o s0) s0) :
    ∃ t, wigmCount A o s0 = some t := by
  have hinit := WigmInv.init A hA o h0
  have hlen : (wigmInit A o s0).cands.length = s0.cands.length := by rw [wigmInit_eq]; exact (h0.facts A hA).2.2.2.2.2.2.1
  have hfuel : mu (wigmInit A o s0) + 2 ≤ 2 * s0.cands.length + 3 := by
    have := mu_le_two_mul (wigmInit A o s0); omega
  obtain ⟨t, ht⟩ := loopN_total' (WigmInv A) stdGuard (wigmBody A o)
    (fun s hs hg => (wigmBody_spec A hA o hz hex hs hg).1)
    (fun s hs hg hc => (wigmBody_spec A hA o hz hex hs hg).2.1 hc)
    (2 * s0.cands.length + 3) (wigmInit A o s0) hinit (by omega) (Or.inr hfuel)
  exact ⟨epilogueElectOrDefeat A t, by unfold wigmCount; rw [ht]⟩

/-- **C01 / C09** for the same configurations: the record of the whole count is forward-only and append-only, and unless the
    crash flag is up exactly `seats` candidates are elected and nobody is left hopeful -/
theorem wigm_result (hA : LawfulArith A) (o : WigmOpts) (hz : o.batchZero = false) (hex : o.prf = true → A.exact = false)
    (s0 t : St α) (h0 : GStart A (wigmQuota A o s0) s0) (h : wigmCount A o s0 = some t) :
    Mon t ∧ Ext s0 t ∧ (t.crash = none → nEl t = t.seats ∧ nHop t = 0) := by
  have hinit := WigmInv.init A hA o h0
  unfold wigmCount at h
  cases hl : loopN stdGuard (wigmBody A o) (2 * s0.cands.length + 3) (wigmInit A o s0) with
  | none => rw [hl] at h; cases h
  | some s4 =>
    rw [hl] at h; cases h
    have hP := loopN_preserves_guard (WigmInv A) stdGuard (wigmBody A o)
      (fun s hs hg => (wigmBody_spec A hA o hz hex hs hg).1) _ _ _ hinit hl
    obtain ⟨hE, hM, hD, hJ⟩ := hP
    have hX : Ext s0 s4 := by
      have h1 : Ext s0 (wigmInit A o s0) := by rw [wigmInit_eq]; exact (h0.facts A hA).2.2.2.2.2.2.2
      exact h1.trans (ext_loopN stdGuard (wigmBody A o) (ext_wigmBody A o) _ _ _ hl)
    refine ⟨(epilogue_good A ⟨hE.1, hM⟩).2, hX.trans (ext_epilogue A s4), ?_⟩
    intro hcr
    rw [epilogue_crash] at hcr
    have hel : nEl s4 ≤ s4.seats := elected_le_seats A hE.1 hE.2 hD
    have hfill : nEl s4 = s4.seats ∨ nHop s4 + nEl s4 = s4.seats := by
      rcases loopN_exit (WigmInv A) stdGuard (wigmBody A o) (fun s hs hg => (wigmBody_spec A hA o hz hex hs hg).1)
        _ _ _ hinit hl with hc | hgf | ⟨s', hs', hg', hb⟩
      · rw [hcr] at hc; simp at hc
      · unfold stdGuard St.seatsLeft at hgf
        simp only [Bool.and_eq_false_iff, decide_eq_false_iff_not, not_lt] at hgf
        unfold sumHE at hJ
        unfold nHop nEl at *
        rcases hgf with h | h
        · right; omega
        · left; omega
      · have := (wigmBody_spec A hA o hz hex hs' hg').2.2
        rw [hb] at this
        have hfin := this rfl
        dsimp only at hfin
        unfold St.seatsLeft at hfin
        unfold sumHE at hJ
        unfold nHop nEl at *
        right; omega
    unfold epilogueElectOrDefeat
    obtain ⟨u1, u2, u3⟩ := counts_foldUnpend s4.pendingL s4
    have hIu := hE.1.foldUnpend A s4.pendingL
    have := foldRemaining_counts A hIu (s4.pendingL.foldl (fun acc c => acc.unpendSilent c.cid) s4).hopeful
      (hopeful_cids_nodup hIu.wf) (fun w hw => mem_hopeful.1 hw) rfl (by rw [u1, u2, u3]; exact hfill)
    exact ⟨this.2, this.1⟩

end Droop
