import DroopProofs.LowerRun
import DroopProofs.RunMpls
import DroopProofs.RunZero
import DroopProofs.RunScot
import DroopModel.Driver

/-!
# The state the driver builds from a parsed case meets the hypotheses of the run-level theorems

`initState A c` (`DroopModel/Driver.lean`) is the state the compiled driver hands to the rule for *every* correspondence
input.  `caseOK c` is a decidable check on the case, printed by the driver for every input.  Here: `caseOK c` implies
`Init`, the freshness / enough-candidates / round-0 side conditions of `GStart` and `ScotStart`, and the `noW` field of
`LStart`; so the theorems about `wigmCount`, `scotCount`, `cferCount`, `mplsCount` apply to exactly the runs that the
correspondence check compares with the implementation.
-/
namespace Droop
variable {α : Type} [CommRing α] [LinearOrder α] [IsStrictOrderedRing α] (A : Arith α)

structure CaseOK (c : Case) : Prop where
  nodup : (c.cands.map (·.1)).Nodup
  ballots : ∀ b ∈ c.ballots, b.2 ≠ [] ∧ ∀ cid ∈ b.2, ∃ k ∈ c.cands, k.1 = cid ∧ k.2.2.1 = false
  nb : c.nballots = (c.ballots.map (·.1)).sum
  enough : c.seats ≤ (c.cands.filter (fun k => !k.2.2.1)).length
  noEq : c.ballotsEq = []

theorem caseOK_iff (c : Case) : caseOK c = true → CaseOK c := by
  intro h
  unfold caseOK at h
  simp only [Bool.and_eq_true, decide_eq_true_eq, List.all_eq_true, beq_iff_eq, List.isEmpty_iff,
    Bool.not_eq_true', List.any_eq_true] at h
  obtain ⟨⟨⟨⟨h1, h2⟩, h3⟩, h4⟩, h5⟩ := h
  refine ⟨h1, ?_, h3, ?_, h5⟩
  · intro b hb
    obtain ⟨hne, hall⟩ := h2 b hb
    refine ⟨by intro h0; simp [h0] at hne, ?_⟩
    intro cid hcid
    obtain ⟨k, hk, hkc⟩ := hall cid hcid
    obtain ⟨k1, k2, k3, k4⟩ := k
    exact ⟨_, hk, hkc.1, hkc.2⟩
  · convert h4 using 3

theorem initState_cids (c : Case) : (initState A c).cands.map (·.cid) = c.cands.map (·.1) := by
  unfold initState
  simp only [List.map_map]
  apply List.map_congr_left
  rintro ⟨a, b, d, e⟩ _
  rfl

theorem mem_initState_cands {c : Case} {x : Cand α} (hx : x ∈ (initState A c).cands) :
    ∃ k ∈ c.cands, x.cid = k.1 ∧ x.st = (if k.2.2.1 then .withdrawn else .hopeful) ∧ x.vote = A.zero ∧ x.pending = false
      ∧ x.undeclared = k.2.2.2 ∧ x.kf = none := by
  unfold initState at hx
  simp only [List.mem_map] at hx
  obtain ⟨⟨a, b, d, e⟩, hk, rfl⟩ := hx
  exact ⟨_, hk, rfl, rfl, rfl, rfl, rfl, rfl⟩

theorem initState_cand_of {c : Case} {k : Nat × Nat × Bool × Bool} (hk : k ∈ c.cands) :
    ∃ x ∈ (initState A c).cands, x.cid = k.1 ∧ x.st = (if k.2.2.1 then .withdrawn else .hopeful) := by
  obtain ⟨a, b, d, e⟩ := k
  refine ⟨{ cid := a, order := a, tie := b, undeclared := e, st := if d then .withdrawn else .hopeful, pending := false,
            vote := A.zero, kf := none, quotient := none, tc := A.zero }, ?_, rfl, rfl⟩
  unfold initState
  simp only [List.mem_map]
  exact ⟨_, hk, rfl⟩

theorem mem_initState_ballots {c : Case} {b : Ballot α} (hb : b ∈ (initState A c).ballots) :
    ∃ k ∈ c.ballots, b.mult = k.1 ∧ b.rank = k.2 ∧ b.idx = 0 ∧ b.w = A.one := by
  unfold initState at hb
  simp only [List.mem_map] at hb
  obtain ⟨⟨m, r⟩, hk, rfl⟩ := hb
  exact ⟨_, hk, rfl, rfl, rfl, rfl⟩

theorem cast_sum_nat (l : List Nat) : (((l.sum : Nat) : Int) : α) = (l.map (fun (m : Nat) => ((m : Int) : α))).sum := by
  induction l with
  | nil => simp
  | cons a l ih => simp only [List.sum_cons, List.map_cons, Nat.cast_add, Int.cast_add, ih]

theorem initState_init (hA : LawfulArith A) (c : Case) (hm : methodOf c.rule = .wigm) (hok : CaseOK c) :
    Init A (initState A c) := by
  refine ⟨hm, rfl, ?_, ?_, ?_, ?_, ?_, ?_⟩
  · unfold St.WF; rw [initState_cids]; exact hok.nodup
  · intro b hb cid hcid
    obtain ⟨k, hk, _, hr, _, _⟩ := mem_initState_ballots A hb
    rw [hr] at hcid
    obtain ⟨kc, hkc, hkcid, _⟩ := (hok.ballots k hk).2 cid hcid
    obtain ⟨x, hx, hxc, _⟩ := initState_cand_of A hkc
    unfold St.cand?
    rw [List.find?_isSome]
    exact ⟨x, hx, by simp [hxc, hkcid]⟩
  · intro x hx
    obtain ⟨k, _, _, _, hv, _⟩ := mem_initState_cands A hx
    rw [hv, hA.zero_eq]
  · intro x hx
    obtain ⟨k, _, _, _, _, hp, _⟩ := mem_initState_cands A hx
    exact hp
  · intro b hb
    obtain ⟨k, hk, _, hr, hi, hw⟩ := mem_initState_ballots A hb
    exact ⟨hi, hw, by rw [hr]; exact (hok.ballots k hk).1⟩
  · show (((c.nballots : Nat) : Int) : α) = _
    rw [hok.nb, cast_sum_nat]
    unfold initState
    simp only [List.map_map]
    rfl

theorem initState_fresh (c : Case) : ∀ x ∈ (initState A c).cands, x.st ≠ .elected := by
  intro x hx
  obtain ⟨k, _, _, hs, _⟩ := mem_initState_cands A hx
  rw [hs]; split <;> simp

theorem initState_nHop (c : Case) : nHop (initState A c) = (c.cands.filter (fun k => !k.2.2.1)).length := by
  unfold nHop St.hopeful initState
  simp only [List.filter_map, List.length_map]
  congr 1
  apply List.filter_congr
  rintro ⟨a, b, d, e⟩ _
  cases d <;> simp

theorem initState_enough (c : Case) (hok : CaseOK c) : (initState A c).seats ≤ nHop (initState A c) := by
  rw [initState_nHop]; exact hok.enough

theorem initState_noW (c : Case) (hok : CaseOK c) :
    ∀ b ∈ (initState A c).ballots, ∀ x ∈ (initState A c).cands, x.st = .withdrawn → b.top ≠ some x.cid := by
  intro b hb x hx hw htop
  obtain ⟨k, hk, _, hr, hi, _⟩ := mem_initState_ballots A hb
  obtain ⟨kx, hkx, hxc, hxs, _⟩ := mem_initState_cands A hx
  unfold Ballot.top at htop
  rw [hr, hi] at htop
  have hmem : x.cid ∈ k.2 := List.mem_of_getElem? htop
  obtain ⟨k2, hk2, hk2c, hk2w⟩ := (hok.ballots k hk).2 _ hmem
  -- two entries with the same id are the same entry
  have hsame : k2 = kx := by
    have hnd := hok.nodup
    have := List.inj_on_of_nodup_map hnd hk2 hkx (by rw [hk2c, hxc])
    exact this
  rw [hsame] at hk2w
  rw [hk2w] at hxs
  simp at hxs
  rw [hxs] at hw
  cases hw

theorem initState_noUnd (c : Case) (h : ∀ k ∈ c.cands, k.2.2.2 = false) : NoUnd (initState A c) := by
  intro x hx
  obtain ⟨k, hk, _, _, _, _, hu, _⟩ := mem_initState_cands A hx
  rw [hu]; exact h k hk

end Droop
