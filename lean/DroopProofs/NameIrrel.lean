import DroopProofs.GuardedLaws
import DroopModel

/-! # C13, second clause at run level: with zero guard digits every count is the fixed-point count

`guarded_g0_eq_fixed`: the dictionary of Guarded with guard = 0 is the dictionary of Fixed with another `name`.  No rule reads the
name of its arithmetic — except the integer-arithmetic test of meek / warren, which neither name triggers for a precision of at
least one digit.  `rename_*`: every count function returns the same state for a renamed dictionary. -/
namespace Droop
variable {α : Type} (A : Arith α)

def Arith.rename (x : String) : Arith α := { A with name := x }

theorem scanGroups_rename (x : String) (sp : α) (md : Int) :
    ∀ (l : List (List (Cand α))) (g n : Nat) (v : α) (mg : Option Nat),
      scanGroups (A.rename x) sp md l g n v mg = scanGroups A sp md l g n v mg := by
  intro l
  induction l with
  | nil => intro g n v mg; unfold scanGroups; rfl
  | cons grp rest ih =>
    intro g n v mg
    cases rest with
    | nil => unfold scanGroups; rfl
    | cons nxt rest' =>
      unfold scanGroups
      simp only
      split
      · rfl
      · exact ih _ _ _ _

theorem batchDefeatGroups_rename (x : String) (s : St α) (sp : α) :
    batchDefeatGroups (A.rename x) s sp = batchDefeatGroups A s sp := by
  unfold batchDefeatGroups
  simp only [scanGroups_rename]
  rfl

theorem wigmBody_rename (x : String) (o : WigmOpts) (s : St α) : wigmBody (A.rename x) o s = wigmBody A o s := by
  unfold wigmBody wigmAfterElect wigmSure
  simp only [batchDefeatGroups_rename]
  rfl

theorem wigmCount_rename (x : String) (o : WigmOpts) (s0 : St α) : wigmCount (A.rename x) o s0 = wigmCount A o s0 := by
  unfold wigmCount
  have hb : wigmBody (A.rename x) o = wigmBody A o := funext (wigmBody_rename A x o)
  rw [hb]
  rfl

theorem scotCount_rename (x : String) (s0 : St α) : scotCount (A.rename x) s0 = scotCount A s0 := rfl

theorem guarded_g0_rename (p : Nat) : guardedArith p 0 = (fixedArith p).rename "guarded" := guarded_g0_eq_fixed p

/-! ## meek and warren -/

theorem distEq_rename (x : String) (w : Bool) (mult : α) (cset : List Nat) :
    ∀ (l : List (List Nat)) (weight : α) (acc : St α × α),
      distEq (A.rename x) w mult cset l weight acc = distEq A w mult cset l weight acc := by
  intro l
  induction l with
  | nil => intro weight acc; unfold distEq; rfl
  | cons grp rest ih =>
    intro weight acc
    unfold distEq
    simp only [ih]
    rfl

theorem distributeVotes_rename (x : String) (w : Bool) (s : St α) :
    distributeVotes (A.rename x) w s = distributeVotes A w s := by
  unfold distributeVotes distEqual distStrict
  have h1 : distBallotStep (A.rename x) w = distBallotStep A w := rfl
  have h2 : distEqBallotStep (A.rename x) w = distEqBallotStep A w := by
    funext t b
    unfold distEqBallotStep
    simp only [distEq_rename]
    rfl
  rw [h1, h2]
  rfl

theorem meekIterCore_rename (x : String) (o : MeekOpts) (s : St α) : meekIterCore (A.rename x) o s = meekIterCore A o s := by
  unfold meekIterCore
  simp only [distributeVotes_rename]
  rfl

theorem meekIterElected_rename (x : String) (o : MeekOpts) (s : St α) :
    meekIterElected (A.rename x) o s = meekIterElected A o s := by
  unfold meekIterElected
  simp only [distributeVotes_rename]
  rfl

theorem meekIterate_rename (x : String) (o : MeekOpts) (omega : α) :
    ∀ (fuel : Nat) (last : α) (s : St α), meekIterate (A.rename x) o omega fuel last s = meekIterate A o omega fuel last s := by
  intro fuel
  induction fuel with
  | zero => intro last s; rfl
  | succ n ih =>
    intro last s
    unfold meekIterate
    simp only [meekIterCore_rename, meekIterElected_rename, batchDefeatGroups_rename, ih]
    rfl

theorem meekDefeatOne_rename (x : String) (o : MeekOpts) (s : St α) (cid : Nat) (verb : String) :
    meekDefeatOne (A.rename x) o s cid verb = meekDefeatOne A o s cid verb := by
  unfold meekDefeatOne
  rw [distributeVotes_rename]
  rfl

theorem meekBody_rename (x : String) (o : MeekOpts) (omega : α) (n : Nat) (s : St α) :
    meekBody (A.rename x) o omega n s = meekBody A o omega n s := by
  unfold meekBody meekAfterIterate meekDefeatLow meekDefeatBatch
  simp only [meekIterate_rename, meekDefeatOne_rename]
  rfl

theorem meekEpilogue_rename (x : String) (o : MeekOpts) (s : St α) : meekEpilogue (A.rename x) o s = meekEpilogue A o s := by
  unfold meekEpilogue
  have h : meekRemainingStep (A.rename x) o = meekRemainingStep A o := by
    funext acc c
    unfold meekRemainingStep
    simp only [distributeVotes_rename, meekDefeatOne_rename]
    rfl
  rw [h]
  rfl

theorem meekCount_rename (x : String) (hx : (x == "integer") = false) (hn : (A.name == "integer") = false) (o : MeekOpts) (n : Nat)
    (s0 : St α) : meekCount (A.rename x) o n s0 = meekCount A o n s0 := by
  unfold meekCount
  have hnx : ((A.rename x).name == "integer") = false := hx
  rw [hnx, hn]
  simp only [Bool.false_eq_true, if_false]
  have hb : ∀ om, meekBody (A.rename x) o om n = meekBody A o om n := fun om => funext (meekBody_rename A x o om n)
  have hi : meekInit (A.rename x) s0 = meekInit A s0 := rfl
  have hom : (A.rename x).divV (A.rename x).one ((A.rename x).ofInt (10 ^ o.omega10)) = A.divV A.one (A.ofInt (10 ^ o.omega10)) := rfl
  rw [hom, hb, hi]
  cases loopN (fun s => !meekCountComplete s) (meekBody A o (A.divV A.one (A.ofInt (10 ^ o.omega10))) n) (2 * s0.cands.length + 3)
      (meekInit A s0) with
  | none => rfl
  | some s7 => simp only; rw [meekEpilogue_rename]

end Droop
