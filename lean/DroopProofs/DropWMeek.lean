import DroopProofs.DropWWigm
import DroopProofs.MeekMon
import DroopProofs.DropWQpq

/-! # C11 for meek and warren (strict rankings): a withdrawn candidate is an absent candidate

`dropW` commutes with a Meek distribution because a withdrawn candidate keeps nothing (no keep factor, or a zero one): the ballot
passes it by exactly as it passes an id that is not a candidate at all.  Everything else reads the candidates through `hopeful` /
`elected`, or updates one candidate keeping its status, or elects / excludes a hopeful one. -/
namespace Droop
variable {α : Type} [CommRing α] [LinearOrder α] [IsStrictOrderedRing α] (A : Arith α)

/-- distinct ids, and withdrawn candidates keep nothing -/
def WDead (s : St α) : Prop := s.WF ∧ ∀ c ∈ s.cands, c.st = .withdrawn → c.noKeep A

theorem WDead.of_MInv {s : St α} (h : MInv A s) : WDead A s := ⟨h.wf, fun c hc hw => (h.dead c hc (Or.inr hw)).2⟩

/-- the keep factor read in the reduced state: the same, or none where the full state has none or a zero one -/
theorem kfOf_dropW {s : St α} (h : WDead A s) (cid : Nat) :
    kfOf (dropW s) cid = kfOf s cid
    ∨ (kfOf (dropW s) cid = none ∧ ∃ k, kfOf s cid = some k ∧ A.isZero k = true) := by
  have hwfd : (dropW s).WF := WF_dropW' h.1
  unfold kfOf
  cases hf : s.cand? cid with
  | none =>
    left
    cases hd : (dropW s).cand? cid with
    | none => rfl
    | some d =>
      obtain ⟨hdm, hdc⟩ := cand?_some_mem hd
      have : d ∈ s.cands := (List.mem_filter.1 hdm).1
      have := (cand?_isSome_iff s cid).2 ⟨d, this, hdc⟩
      rw [hf] at this; cases this
  | some c =>
    obtain ⟨hcm, hcc⟩ := cand?_some_mem hf
    by_cases hw : c.st = .withdrawn
    · have hnone : (dropW s).cand? cid = none := by
        cases hd : (dropW s).cand? cid with
        | none => rfl
        | some d =>
          obtain ⟨hdm, hdc⟩ := cand?_some_mem hd
          obtain ⟨hdm', hdn⟩ := List.mem_filter.1 hdm
          have : d = c := cand_unique h.1 hcm hdm' (by rw [hdc, hcc])
          rw [this] at hdn
          unfold nonW at hdn; rw [hw] at hdn; cases hdn
      rw [hnone]
      rcases h.2 c hcm hw with hk | ⟨k, hk, hz⟩
      · left; exact hk.symm
      · right; exact ⟨rfl, k, hk, hz⟩
    · left
      have hcd : c ∈ (dropW s).cands := List.mem_filter.2 ⟨hcm, by unfold nonW; simpa using hw⟩
      have := cand?_of_mem hwfd hcd
      rw [hcc] at this
      rw [this]

theorem WDead.addVote {s : St α} (h : WDead A s) (cid : Nat) (v : α) : WDead A (s.addVote A cid v) := by
  refine ⟨WF_upd h.1 cid _ (fun _ => rfl), ?_⟩
  intro c' hc' hw
  unfold St.addVote at hc'
  obtain ⟨c, hc, rfl⟩ := mem_upd.1 hc'
  by_cases he : (c.cid == cid) = true
  · rw [if_pos he] at hw ⊢; exact h.2 c hc hw
  · rw [if_neg he] at hw ⊢; exact h.2 c hc hw

theorem distRankStep_dropW (w : Bool) (mult : α) (acc : St α × α × α × Bool) (h : WDead A acc.1) (cid : Nat) :
    distRankStep A w mult (dropW acc.1, acc.2) cid
      = (dropW (distRankStep A w mult acc cid).1, (distRankStep A w mult acc cid).2)
    ∧ WDead A (distRankStep A w mult acc cid).1 := by
  unfold distRankStep
  by_cases hstop : acc.2.2.2 = true
  · rw [if_pos hstop, if_pos hstop]; exact ⟨rfl, h⟩
  · rw [if_neg hstop, if_neg hstop]
    rcases kfOf_dropW A h cid with e | ⟨e, k, hk, hz⟩
    · rw [e]
      cases hkf : kfOf acc.1 cid with
      | none => exact ⟨rfl, h⟩
      | some kf =>
        by_cases hz : A.isZero kf = true
        · simp only [hz, if_true]; exact ⟨trivial, h⟩
        · simp only [hz, Bool.false_eq_true, if_false]
          exact ⟨by rw [dropW_addVote], h.addVote A cid _⟩
    · rw [e, hk]
      simp only [hz, if_true]
      exact ⟨trivial, h⟩

theorem foldl_distRankStep_dropW (w : Bool) (mult : α) (rank : List Nat) : ∀ (acc : St α × α × α × Bool), WDead A acc.1 →
    rank.foldl (distRankStep A w mult) (dropW acc.1, acc.2)
      = (dropW (rank.foldl (distRankStep A w mult) acc).1, (rank.foldl (distRankStep A w mult) acc).2)
    ∧ WDead A (rank.foldl (distRankStep A w mult) acc).1 := by
  induction rank with
  | nil => intro acc h; exact ⟨rfl, h⟩
  | cons c cs ih =>
    intro acc h
    simp only [List.foldl_cons]
    obtain ⟨e, h'⟩ := distRankStep_dropW A w mult acc h c
    rw [e]
    exact ih _ h'

theorem WDead.setResidual {s : St α} (h : WDead A s) (r : α) : WDead A ({ s with residual := r } : St α) := h

theorem distBallotStep_dropW (w : Bool) (s : St α) (h : WDead A s) (b : Ballot α) :
    distBallotStep A w (dropW s) b = dropW (distBallotStep A w s b) ∧ WDead A (distBallotStep A w s b) := by
  unfold distBallotStep
  obtain ⟨e, h'⟩ := foldl_distRankStep_dropW A w (A.ofInt b.mult) b.rank (s, A.one, A.ofInt b.mult, false) h
  simp only at e
  rw [e]
  exact ⟨rfl, h'⟩

theorem foldl_distBallotStep_dropW (w : Bool) (bs : List (Ballot α)) : ∀ (s : St α), WDead A s →
    bs.foldl (distBallotStep A w) (dropW s) = dropW (bs.foldl (distBallotStep A w) s) ∧ WDead A (bs.foldl (distBallotStep A w) s) := by
  induction bs with
  | nil => intro s h; exact ⟨rfl, h⟩
  | cons b bs ih =>
    intro s h
    simp only [List.foldl_cons]
    obtain ⟨e, h'⟩ := distBallotStep_dropW A w s h b
    rw [e]
    exact ih _ h'

theorem distStrict_dropW (w : Bool) (s : St α) (h : WDead A s) :
    distStrict A w (dropW s) = dropW (distStrict A w s) ∧ WDead A (distStrict A w s) := by
  unfold distStrict
  have hb : (dropW s).ballots = s.ballots := rfl
  rw [hb]
  exact foldl_distBallotStep_dropW A w s.ballots s h

theorem WDead.startDist {s : St α} (h : WDead A s) : WDead A (Droop.startDist A s) := by
  unfold Droop.startDist zeroActiveVotes St.setResidual
  refine ⟨?_, ?_⟩
  · unfold St.WF at *
    simp only [List.map_map]
    have : ((fun c : Cand α => c.cid) ∘ fun c => if (c.st == CState.hopeful || c.st == CState.elected) = true then { c with vote := A.zero } else c)
        = fun c => c.cid := by
      funext c; simp only [Function.comp]; split <;> rfl
    rw [this]; exact h.1
  · intro c' hc' hw
    simp only at hc'
    obtain ⟨c, hc, rfl⟩ := List.mem_map.1 hc'
    by_cases hcond : (c.st == CState.hopeful || c.st == CState.elected) = true
    · rw [if_pos hcond] at hw ⊢; exact h.2 c hc hw
    · rw [if_neg hcond] at hw ⊢; exact h.2 c hc hw

theorem zeroActiveVotes_dropW (s : St α) : zeroActiveVotes A (dropW s) = dropW (zeroActiveVotes A s) :=
  (dropW_mapCands s (fun c => if c.st == .hopeful || c.st == .elected then { c with vote := A.zero } else c)
    (fun c => by unfold nonW; split <;> rfl)).symm

theorem startDist_dropW (s : St α) : startDist A (dropW s) = dropW (startDist A s) := by
  unfold startDist
  rw [zeroActiveVotes_dropW]
  rfl

theorem distributeVotes_dropW (w : Bool) (s : St α) (h : WDead A s) (hq : s.ballotsEq = []) :
    distributeVotes A w (dropW s) = dropW (distributeVotes A w s) := by
  unfold distributeVotes
  rw [startDist_dropW]
  obtain ⟨e, _⟩ := distStrict_dropW A w (startDist A s) (h.startDist A)
  rw [e]
  have hbe : (distStrict A w (startDist A s)).ballotsEq = [] := by rw [distStrict_ballotsEq]; exact hq
  unfold distEqual
  have : (dropW (distStrict A w (startDist A s))).ballotsEq = (distStrict A w (startDist A s)).ballotsEq := rfl
  rw [this, hbe]
  rfl


/-! ## one iteration -/

theorem activeVotes_dropW (s : St α) : activeVotes A (dropW s) = activeVotes A s := by
  unfold activeVotes; rw [hopeful_dropW, elected_dropW]

theorem meekQuota_dropW (s : St α) : meekQuota A (dropW s) = meekQuota A s := rfl

theorem meekWinners_dropW (s : St α) : meekWinners A (dropW s) = meekWinners A s := by
  unfold meekWinners; rw [hopeful_dropW]; rfl

theorem WF_distributeVotes (hA : LawfulArith A) (w : Bool) {s : St α} (hwf : s.WF) (hq : s.ballotsEq = []) :
    (distributeVotes A w s).WF := WF_of_skel (distributeVotes_skel A w s hwf hq hA).symm hwf

/-- the state of an iteration after the quota has been recomputed -/
def iterS3 (o : MeekOpts) (s : St α) : St α :=
  ((distributeVotes A o.warren s).setVotes (activeVotes A (distributeVotes A o.warren s))).setQuota
      (meekQuota A ((distributeVotes A o.warren s).setVotes (activeVotes A (distributeVotes A o.warren s))))

def iterS4 (o : MeekOpts) (s : St α) : St α :=
  (meekWinners A (iterS3 A o s)).foldl (fun acc c => acc.elect A c.cid "Elect" false) (iterS3 A o s)

theorem meekIterCore_eq' (o : MeekOpts) (s : St α) :
    meekIterCore A o s = (iterS4 A o s).setSurplus
      (if A.lt (A.sum ((iterS4 A o s).elected.map (fun c => A.sub c.vote (iterS4 A o s).quota))) A.zero then A.zero
       else A.sum ((iterS4 A o s).elected.map (fun c => A.sub c.vote (iterS4 A o s).quota))) := rfl

theorem meekIterElected_eq' (o : MeekOpts) (s : St α) : meekIterElected A o s = !(meekWinners A (iterS3 A o s)).isEmpty := rfl

theorem iterS3_dropW (o : MeekOpts) {s : St α} (hI : MInv A s) : iterS3 A o (dropW s) = dropW (iterS3 A o s) := by
  unfold iterS3
  rw [distributeVotes_dropW A o.warren s (WDead.of_MInv A hI) hI.noEq, activeVotes_dropW]
  rfl

theorem WF_iterS3 (hA : LawfulArith A) (o : MeekOpts) {s : St α} (hI : MInv A s) : (iterS3 A o s).WF := by
  have := WF_distributeVotes A hA o.warren hI.wf hI.noEq
  exact this

theorem iterS4_dropW (hA : LawfulArith A) (o : MeekOpts) {s : St α} (hI : MInv A s) : iterS4 A o (dropW s) = dropW (iterS4 A o s) := by
  unfold iterS4
  rw [iterS3_dropW A o hI, meekWinners_dropW]
  exact (dropW_foldElect A (meekWinners A (iterS3 A o s)) (fun _ => "Elect") (fun _ => false) (WF_iterS3 A hA o hI)
    (fun w hw => nonWId_of_hopeful (List.mem_filter.1 hw).1)).symm

theorem meekIterCore_dropW (hA : LawfulArith A) (o : MeekOpts) {s : St α} (hI : MInv A s) :
    meekIterCore A o (dropW s) = dropW (meekIterCore A o s) := by
  rw [meekIterCore_eq', meekIterCore_eq', iterS4_dropW A hA o hI, elected_dropW]
  rfl

theorem meekIterElected_dropW (o : MeekOpts) {s : St α} (hI : MInv A s) : meekIterElected A o (dropW s) = meekIterElected A o s := by
  rw [meekIterElected_eq', meekIterElected_eq', iterS3_dropW A o hI, meekWinners_dropW]

theorem kfUpdate_dropW (cap : Bool) (s : St α) : kfUpdate A cap (dropW s) = dropW (kfUpdate A cap s) := by
  unfold kfUpdate
  rw [elected_dropW]
  generalize s.elected = l
  induction l generalizing s with
  | nil => rfl
  | cons c cs ih =>
    simp only [List.foldl_cons]
    cases hk : c.kf with
    | none =>
      simp only
      rw [← dropW_setCrash]; exact ih _
    | some kf =>
      simp only [quota_dropW]
      split
      · rw [← dropW_setCrash]; exact ih _
      · rw [← dropW_upd_keep s c.cid (fun x => { x with kf := some (kfCap A cap (A.div .up (A.mul .up kf s.quota) c.vote)) }) (fun _ => rfl)]; exact ih _


theorem WDead.of_MPre {s : St α} (h : MPre A s) : WDead A s := ⟨h.wf, fun c hc hw => (h.dead c hc (Or.inr hw)).2⟩

theorem batchDefeatGroups_dropW (s : St α) (sp : α) : batchDefeatGroups A (dropW s) sp = batchDefeatGroups A s sp := by
  unfold batchDefeatGroups
  simp only [hopeful_dropW, seatsLeft_dropW]

/-- **the iteration of a round commutes with the deletion** -/
theorem meekIterate_dropW (hA : LawfulArith A) (o : MeekOpts) (omega : α) :
    ∀ (fuel : Nat) (last : α) (s : St α), MInv A s →
      meekIterate A o omega fuel last (dropW s)
        = (dropW (meekIterate A o omega fuel last s).1, (meekIterate A o omega fuel last s).2) := by
  intro fuel
  induction fuel with
  | zero => intro last s _; rfl
  | succ n ih =>
    intro last s hI
    have hc := meekIterCore_dropW A hA o hI
    have hIc : MInv A (meekIterCore A o s) := MInv.meekIterCore A hA o hI
    have hk := kfUpdate_dropW A true (meekIterCore A o s)
    have hb := batchDefeatGroups_dropW A (meekIterCore A o s) (meekIterCore A o s).surplus
    unfold meekIterate
    rw [meekIterElected_dropW A o hI, hc]
    by_cases h1 : meekIterElected A o s = true
    · rw [if_pos h1, if_pos h1]
    · rw [if_neg h1, if_neg h1]
      by_cases h2 : A.le (meekIterCore A o s).surplus omega = true
      · rw [if_pos (show A.le (dropW (meekIterCore A o s)).surplus omega = true from h2), if_pos h2]
      · rw [if_neg (show ¬ A.le (dropW (meekIterCore A o s)).surplus omega = true from h2), if_neg h2]
        by_cases h3 : A.ge (meekIterCore A o s).surplus last = true
        · rw [if_pos (show A.ge (dropW (meekIterCore A o s)).surplus last = true from h3), if_pos h3]
          rw [dropW_logMsg]; rfl
        · rw [if_neg (show ¬ A.ge (dropW (meekIterCore A o s)).surplus last = true from h3), if_neg h3]
          have hb' : (if o.batchSafe = true then batchDefeatGroups A (dropW (meekIterCore A o s)) (dropW (meekIterCore A o s)).surplus else [])
              = (if o.batchSafe = true then batchDefeatGroups A (meekIterCore A o s) (meekIterCore A o s).surplus else []) := by
            split
            · exact hb
            · rfl
          rw [hb']
          by_cases h4 : (!(if o.batchSafe = true then batchDefeatGroups A (meekIterCore A o s) (meekIterCore A o s).surplus else []).isEmpty) = true
          · rw [if_pos h4, if_pos h4]
          · rw [if_neg h4, if_neg h4, hk]
            by_cases h5 : (kfUpdate A true (meekIterCore A o s)).crash.isSome = true
            · rw [if_pos (show (dropW (kfUpdate A true (meekIterCore A o s))).crash.isSome = true from h5), if_pos h5]
            · rw [if_neg (show ¬ (dropW (kfUpdate A true (meekIterCore A o s))).crash.isSome = true from h5), if_neg h5]
              exact ih _ _ (MInv.kfUpdate A true hIc)

/-! ## exclusions -/

theorem meekDefeatOne_dropW (hA : LawfulArith A) (hz : A.isZero A.zero = true) (o : MeekOpts) {s : St α} (hI : MInv A s)
    (cid : Nat) (verb : String) (hn : NonWId s cid) :
    meekDefeatOne A o (dropW s) cid verb = dropW (meekDefeatOne A o s cid verb) := by
  unfold meekDefeatOne
  have hpre := hI.defeatZero A hA hz cid verb
  rw [← dropW_defeat A hI.wf hn, ← dropW_upd_keep (s.defeat A cid verb) cid (fun c => { c with kf := some A.zero, vote := A.zero }) (fun _ => rfl)]
  exact distributeVotes_dropW A o.warren _ (WDead.of_MPre A hpre) hpre.noEq


theorem nonWId_meekDefeatOne (hA : LawfulArith A) (hz : A.isZero A.zero = true) (o : MeekOpts) {s : St α} (hI : MInv A s)
    (cid : Nat) (verb : String) {d : Nat} (hn : NonWId s d) : NonWId (meekDefeatOne A o s cid verb) d := by
  unfold meekDefeatOne
  have hpre := hI.defeatZero A hA hz cid verb
  have h1 : NonWId ((s.defeat A cid verb).upd cid (fun c => { c with kf := some A.zero, vote := A.zero })) d :=
    nonWId_upd (nonWId_defeat A hn cid verb) cid _ (fun _ => rfl) (fun _ h => h)
  exact nonWId_of_skel h1 (distributeVotes_skel A o.warren _ hpre.wf hpre.noEq hA)

theorem foldDefeatOne_dropW (hA : LawfulArith A) (hz : A.isZero A.zero = true) (o : MeekOpts) (verb : String) (l : List (Cand α)) :
    ∀ (s : St α), MInv A s → (∀ c ∈ l, NonWId s c.cid) →
      l.foldl (fun acc c => meekDefeatOne A o acc c.cid verb) (dropW s)
        = dropW (l.foldl (fun acc c => meekDefeatOne A o acc c.cid verb) s) := by
  induction l with
  | nil => intro s _ _; rfl
  | cons c cs ih =>
    intro s hI hn
    simp only [List.foldl_cons]
    rw [meekDefeatOne_dropW A hA hz o hI c.cid verb (hn c (List.mem_cons_self ..))]
    exact ih _ (hI.meekDefeatOne A hA hz o c.cid verb)
      (fun c' hc' => nonWId_meekDefeatOne A hA hz o hI c.cid verb (hn c' (List.mem_cons_of_mem _ hc')))

theorem meekDefeatBatch_dropW (hA : LawfulArith A) (hz : A.isZero A.zero = true) (o : MeekOpts) {s : St α} (hI : MInv A s)
    (cids : List Nat) (hc : ∀ i ∈ cids, ∃ w ∈ s.hopeful, w.cid = i) :
    meekDefeatBatch A o (dropW s) cids = dropW (meekDefeatBatch A o s cids) := by
  unfold meekDefeatBatch
  have hmem : ∀ c ∈ s.cands, cids.contains c.cid = true → c ∈ s.hopeful := by
    intro c hcm hcc
    obtain ⟨w, hw, hwc⟩ := hc c.cid (by simpa using hcc)
    obtain ⟨hw1, _⟩ := mem_hopeful.1 hw
    have : w = c := cand_unique hI.wf hcm hw1 hwc
    rw [← this]; exact hw
  have hl : (dropW s).cands.filter (fun c => cids.contains c.cid) = s.cands.filter (fun c => cids.contains c.cid) := by
    show (s.cands.filter nonW).filter _ = _
    rw [List.filter_filter]
    apply List.filter_congr
    intro c hcm
    by_cases hp : cids.contains c.cid = true
    · have := (mem_hopeful.1 (hmem c hcm hp)).2
      rw [hp]; simp [nonW, this]
    · have hp' : cids.contains c.cid = false := by simpa using hp
      rw [hp']; simp
  rw [hl]
  apply foldDefeatOne_dropW A hA hz o _ _ s hI
  intro c hcl
  have := (mem_pySorted _ _ _ _).1 hcl
  obtain ⟨hcm, hcc⟩ := List.mem_filter.1 this
  exact nonWId_of_hopeful (hmem c hcm hcc)

theorem meekDefeatLow_dropW (hA : LawfulArith A) (hz : A.isZero A.zero = true) (o : MeekOpts) {s : St α} (hI : MInv A s) (b : Bool) :
    meekDefeatLow A o (dropW s) b = (dropW (meekDefeatLow A o s b).1, (meekDefeatLow A o s b).2) := by
  unfold meekDefeatLow
  rw [hopeful_dropW]
  cases hh : s.hopeful with
  | nil => rfl
  | cons hd hs =>
    simp only
    have hs' : (dropW s).surplus = s.surplus := rfl
    rw [hs', dropW_breakTie]
    have hfr := (breakTie_frame A s ((hd :: hs).filter (fun c => A.ge (A.add (A.vMin hd.vote (hs.map (·.vote))) s.surplus) c.vote))
      "Break tie (defeat)").1
    have hmem := breakTie_mem A s ((hd :: hs).filter (fun c => A.ge (A.add (A.vMin hd.vote (hs.map (·.vote))) s.surplus) c.vote))
      "Break tie (defeat)"
    have hI3 := hI.breakTie A ((hd :: hs).filter (fun c => A.ge (A.add (A.vMin hd.vote (hs.map (·.vote))) s.surplus) c.vote))
      "Break tie (defeat)"
    cases hb : breakTie A s ((hd :: hs).filter (fun c => A.ge (A.add (A.vMin hd.vote (hs.map (·.vote))) s.surplus) c.vote))
        "Break tie (defeat)" with
    | mk s3 oc =>
      rw [hb] at hfr hmem hI3
      simp only at hfr hI3
      cases oc with
      | none => rfl
      | some lc =>
        simp only
        have hn : NonWId s3 lc.cid := by
          have : lc ∈ s.hopeful := by rw [hh]; exact (List.mem_filter.1 (hmem lc rfl)).1
          exact nonWId_of_cands (nonWId_of_hopeful this) hfr
        rw [meekDefeatOne_dropW A hA hz o hI3 lc.cid _ hn]

theorem meekAfterIterate_dropW (hA : LawfulArith A) (hz : A.isZero A.zero = true) (o : MeekOpts) (r : St α × IStatus)
    (hI : MInv A r.1) (hbatch : ∀ cids, r.2 = .batch cids → ∀ i ∈ cids, ∃ w ∈ r.1.hopeful, w.cid = i) :
    meekAfterIterate A o (dropW r.1, r.2) = (dropW (meekAfterIterate A o r).1, (meekAfterIterate A o r).2) := by
  unfold meekAfterIterate
  cases hr : r.2 with
  | fuel => simp only; rw [dropW_setCrash]
  | crash => rfl
  | elected => simp only; rw [dropW_logAct]
  | omega =>
    simp only
    rw [← dropW_logAct]
    exact meekDefeatLow_dropW A hA hz o (hI.logAct A _ _ _) true
  | stable =>
    simp only
    rw [← dropW_logAct]
    exact meekDefeatLow_dropW A hA hz o (hI.logAct A _ _ _) false
  | batch cids =>
    simp only
    rw [← dropW_logAct]
    rw [meekDefeatBatch_dropW A hA hz o (hI.logAct A _ _ _) cids]
    intro i hi
    obtain ⟨w, hw, hwc⟩ := hbatch cids hr i hi
    refine ⟨w, ?_, hwc⟩
    unfold St.hopeful at hw ⊢
    rw [logAct_cands]; exact hw

/-- **one round commutes with the deletion** -/
theorem meekBody_dropW (hA : LawfulArith A) (hz : A.isZero A.zero = true) (o : MeekOpts) (omega : α) (fuel : Nat) {s : St α}
    (hI : MInv A s) :
    meekBody A o omega fuel (dropW s) = (dropW (meekBody A o omega fuel s).1, (meekBody A o omega fuel s).2) := by
  unfold meekBody
  have hn : (dropW s).newRound A = dropW (s.newRound A) := (dropW_newRound A s).symm
  have hnb : ((dropW s).newRound A).nballots = (s.newRound A).nballots := by rw [hn]; rfl
  rw [hnb, hn, meekIterate_dropW A hA o omega fuel _ _ (hI.newRound A)]
  exact meekAfterIterate_dropW A hA hz o _ (MInv.meekIterate A hA o omega fuel _ _ (hI.newRound A))
    (fun cids hc => meekIterate_batch A o omega fuel _ _ cids hc)


/-! ## start, closing stage, whole count -/

theorem foldl_dropW_comm {β : Type} (f : St α → β → St α) (hf : ∀ acc b, f (dropW acc) b = dropW (f acc b)) (l : List β) :
    ∀ s, l.foldl f (dropW s) = dropW (l.foldl f s) := by
  induction l with
  | nil => intro s; rfl
  | cons b bs ih => intro s; simp only [List.foldl_cons]; rw [hf, ih]

theorem meekFirstCount_dropW (s : St α) : meekFirstCount A (dropW s) = dropW (meekFirstCount A s) := by
  unfold meekFirstCount
  have hb : (dropW s).ballots = s.ballots := rfl
  have hbe : (dropW s).ballotsEq = s.ballotsEq := rfl
  rw [hb, hbe]
  have key : ∀ (f : St α → Ballot α → St α), (∀ acc b, f (dropW acc) b = dropW (f acc b)) →
      List.foldl f (dropW s) s.ballots = dropW (List.foldl f s s.ballots) := fun f hf => foldl_dropW_comm f hf s.ballots s
  rw [key]
  · apply foldl_dropW_comm
    intro acc b
    cases b.rank.head? with
    | none => rfl
    | some grp =>
      simp only
      exact foldl_dropW_comm (fun (acc2 : St α) (cid : Nat) =>
        acc2.addVote A cid (A.mulV (A.divV A.one (A.ofInt grp.length)) (A.ofInt b.mult)))
        (fun acc2 cid => (dropW_addVote A acc2 cid _).symm) grp acc
  · intro acc b
    cases b.top with
    | none => rfl
    | some c => exact (dropW_addVote A acc c _).symm

theorem initKf_dropW (s : St α) (one : α) : (dropW s).initKf one = dropW (s.initKf one) :=
  (dropW_mapCands s (fun (c : Cand α) => if c.st == .hopeful then { c with kf := some one } else c)
    (fun c => by unfold nonW; split <;> rfl)).symm

theorem meekInit_dropW (s0 : St α) : meekInit A (dropW s0) = dropW (meekInit A s0) := by
  unfold meekInit
  rw [dropW_logAct, ← meekFirstCount_dropW, ← initKf_dropW]
  rfl

theorem nonWId_distributeVotes (hA : LawfulArith A) (w : Bool) {s : St α} (hwf : s.WF) (hq : s.ballotsEq = []) {d : Nat}
    (hn : NonWId s d) : NonWId (distributeVotes A w s) d :=
  nonWId_of_skel hn (distributeVotes_skel A w s hwf hq hA)

theorem meekRemainingStep_dropW (hA : LawfulArith A) (hz : A.isZero A.zero = true) (o : MeekOpts) {s : St α} (hI : MInv A s)
    (c : Cand α) (hn : NonWId s c.cid) :
    meekRemainingStep A o (dropW s) c = dropW (meekRemainingStep A o s c) := by
  unfold meekRemainingStep
  rw [elected_dropW]
  have hs : (dropW s).seats = s.seats := rfl
  rw [hs]
  split
  · rw [← dropW_elect A hI.wf hn]
    have hpre := (hI.elect A c.cid "Elect remaining" false).toMPre
    exact distributeVotes_dropW A o.warren _ (WDead.of_MPre A hpre) hpre.noEq
  · exact meekDefeatOne_dropW A hA hz o hI c.cid _ hn

theorem nonWId_meekRemainingStep (hA : LawfulArith A) (hz : A.isZero A.zero = true) (o : MeekOpts) {s : St α} (hI : MInv A s)
    (c : Cand α) {d : Nat} (hn : NonWId s d) : NonWId (meekRemainingStep A o s c) d := by
  unfold meekRemainingStep
  split
  · have hpre := (hI.elect A c.cid "Elect remaining" false).toMPre
    exact nonWId_distributeVotes A hA o.warren hpre.wf hpre.noEq (nonWId_elect A hn c.cid _ _)
  · exact nonWId_meekDefeatOne A hA hz o hI c.cid _ hn

theorem foldRemaining_dropW (hA : LawfulArith A) (hz : A.isZero A.zero = true) (o : MeekOpts) (l : List (Cand α)) :
    ∀ (s : St α), MInv A s → (∀ c ∈ l, NonWId s c.cid) →
      l.foldl (meekRemainingStep A o) (dropW s) = dropW (l.foldl (meekRemainingStep A o) s) := by
  induction l with
  | nil => intro s _ _; rfl
  | cons c cs ih =>
    intro s hI hn
    simp only [List.foldl_cons]
    rw [meekRemainingStep_dropW A hA hz o hI c (hn c (List.mem_cons_self ..))]
    exact ih _ (hI.meekRemainingStep A hA hz o c)
      (fun c' hc' => nonWId_meekRemainingStep A hA hz o hI c (hn c' (List.mem_cons_of_mem _ hc')))

theorem meekFinal_dropW (s : St α) : meekFinal A (dropW s) = dropW (meekFinal A s) := by
  unfold meekFinal
  rw [elected_dropW]
  rfl

theorem meekEpilogue_dropW (hA : LawfulArith A) (hz : A.isZero A.zero = true) (o : MeekOpts) {s : St α} (hI : MInv A s) :
    meekEpilogue A o (dropW s) = dropW (meekEpilogue A o s) := by
  unfold meekEpilogue
  have hc : (dropW s).crash = s.crash := rfl
  rw [hc]
  split
  · rfl
  · rw [hopeful_dropW, foldRemaining_dropW A hA hz o s.hopeful s hI (fun c hc => nonWId_of_hopeful hc), meekFinal_dropW]

theorem meekCountComplete_dropW (s : St α) : meekCountComplete (dropW s) = meekCountComplete s := by
  unfold meekCountComplete
  rw [hopeful_dropW, seatsLeft_dropW]

/-- **C11, second clause, meek and warren (strict rankings)**: counting the profile with the withdrawn candidates deleted gives
    exactly the state (record included) obtained by deleting them from the count of the full profile -/
theorem meek_dropW (hA : LawfulArith A) (hz : A.isZero A.zero = true) (o : MeekOpts) (iterFuel : Nat) (s0 t t' : St α)
    (h0 : MInit A s0) (h : meekCount A o iterFuel s0 = some t) (h' : meekCount A o iterFuel (dropW s0) = some t') :
    t' = dropW t := by
  unfold meekCount at h h'
  by_cases hn : (A.name == "integer") = true
  · rw [if_pos hn] at h h'
    rw [← Option.some.inj h, ← Option.some.inj h', dropW_setCrash]
  · rw [if_neg hn] at h h'
    have hI0 : MInv A (meekInit A s0) := MInv.meekInit A hA h0
    rw [meekInit_dropW] at h'
    cases hl : loopN (fun s => !meekCountComplete s) (meekBody A o (A.divV A.one (A.ofInt (10 ^ o.omega10))) iterFuel)
        (2 * s0.cands.length + 3) (meekInit A s0) with
    | none => rw [hl] at h; cases h
    | some s7 =>
      rw [hl] at h
      cases hl' : loopN (fun s => !meekCountComplete s) (meekBody A o (A.divV A.one (A.ofInt (10 ^ o.omega10))) iterFuel)
          (2 * (dropW s0).cands.length + 3) (dropW (meekInit A s0)) with
      | none => rw [hl'] at h'; cases h'
      | some s7' =>
        rw [hl'] at h'
        have ht : t = meekEpilogue A o s7 := (Option.some.inj h).symm
        have ht' : t' = meekEpilogue A o s7' := (Option.some.inj h').symm
        have hlen : (dropW s0).cands.length ≤ s0.cands.length := List.length_filter_le _ _
        have h1 := loopN_fuel_mono (fun s => !meekCountComplete s) (meekBody A o (A.divV A.one (A.ofInt (10 ^ o.omega10))) iterFuel)
          _ _ _ hl' (2 * s0.cands.length + 3) (by omega)
        have h2 := loopN_dropW (MInv A) (fun s => !meekCountComplete s) (meekBody A o (A.divV A.one (A.ofInt (10 ^ o.omega10))) iterFuel)
          (fun s hs _ _ => MInv.meekBody A hA hz o _ iterFuel hs)
          (fun s => by simp only [meekCountComplete_dropW])
          (fun s hs => meekBody_dropW A hA hz o _ iterFuel hs)
          (2 * s0.cands.length + 3) (meekInit A s0) hI0
        rw [h1, hl] at h2
        have e7 : s7' = dropW s7 := by simpa using h2
        have hI7 : MInv A s7 := (meek_loop_identity A hA hz o _ iterFuel _ _ _ hI0 hl).1
        rw [ht', ht, e7, meekEpilogue_dropW A hA hz o hI7]

end Droop
