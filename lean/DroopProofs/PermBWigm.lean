import DroopProofs.PermB

/-! # C10, wigm / wigm-prf / wigm-prf-batch (every configuration): reordering the ballot lines reorders the ballot list of the
returned state and the ballot views in its log, and changes nothing else -/
namespace Droop
variable {α : Type} [CommRing α] [LinearOrder α] [IsStrictOrderedRing α] (A : Arith α)
variable {π : ∀ {β : Type}, List β → List β}

section
variable (hA : LawfulArith A) (hπ : NatPerm π)
include hA hπ

theorem permB_wigmElect (o : WigmOpts) (s : St α) : permB π (wigmElect A o s) = wigmElect A o (permB π s) := by
  unfold wigmElect electWinners
  have hq : (if o.prf then hasQuotaGE A else hasQuotaX A) (permB π s) = (if o.prf then hasQuotaGE A else hasQuotaX A) s := by
    funext c; split <;> rfl
  rw [hq]
  exact permB_foldElect A hπ _ (fun _ => "Elect, transfer pending") (fun _ => true) s

theorem permB_wigmSurplusStep (s : St α) : permB π (wigmSurplusStep A s) = wigmSurplusStep A (permB π s) := by
  unfold wigmSurplusStep
  dsimp only [pendingL_permB]
  cases hm : maxVoteOf A s.pendingL with
  | none => rfl
  | some hv =>
    simp only
    rw [permB_breakTie A hπ]
    cases hb : breakTie A s (s.pendingL.filter (fun c => A.eq c.vote hv)) "Break tie (surplus)" with
    | mk s1 oc =>
      cases oc with
      | none => rfl
      | some hc => simp only; rw [permB_transferSurplus A hA hπ, permB_unpendLog A hπ]

theorem permB_foldTransferDefeated1 (l : List (Cand α)) (verb : String) (s : St α) :
    permB π (l.foldl (fun acc c => transferDefeated A acc [c.cid] verb) s)
      = l.foldl (fun acc c => transferDefeated A acc [c.cid] verb) (permB π s) := by
  induction l generalizing s with
  | nil => rfl
  | cons c cs ih => simp only [List.foldl_cons]; rw [ih, permB_transferDefeated A hA hπ]

omit hA hπ in
/-- `wigmDefeatStep` with the selectors read from `s0` and the operations applied to `s` -/
theorem wigmDefeatStep_on (o : WigmOpts) (s0 s : St α) (hh : s.hopeful = s0.hopeful) (hl : s.seatsLeft = s0.seatsLeft) :
    wigmDefeatStep A o s =
      match minVoteOf A s0.hopeful with
      | none => s
      | some lv =>
        if A.eq lv A.zero && o.batchZero
            && decide (((s0.hopeful.filter (fun c => A.eq c.vote lv)).length : Int) ≤ (s0.hopeful.length : Int) - s0.seatsLeft) then
          (s0.hopeful.filter (fun c => A.eq c.vote lv)).foldl (fun acc c => transferDefeated A acc [c.cid] "Transfer defeated")
            ((s0.hopeful.filter (fun c => A.eq c.vote lv)).foldl (fun acc c => acc.defeat A c.cid "Defeat batch(zero)") s)
        else
          match breakTie A s (s0.hopeful.filter (fun c => A.eq c.vote lv)) "Break tie (defeat)" with
          | (s1, some lc) => transferDefeated A (s1.defeat A lc.cid "Defeat") [lc.cid] "Transfer defeated"
          | (s1, none) => s1 := by
  unfold wigmDefeatStep
  rw [hh, hl]
  cases minVoteOf A s0.hopeful <;> rfl

theorem permB_wigmDefeatStep (o : WigmOpts) (s : St α) : permB π (wigmDefeatStep A o s) = wigmDefeatStep A o (permB π s) := by
  rw [wigmDefeatStep_on A o s s rfl rfl, wigmDefeatStep_on A o s (permB π s) rfl rfl]
  cases hm : minVoteOf A s.hopeful with
  | none => rfl
  | some lv =>
    simp only
    by_cases hz : (A.eq lv A.zero && o.batchZero && decide (((s.hopeful.filter (fun c => A.eq c.vote lv)).length : Int) ≤ (s.hopeful.length : Int) - s.seatsLeft)) = true
    · rw [if_pos hz, if_pos hz, permB_foldTransferDefeated1 A hA hπ]
      congr 1
      exact permB_foldDefeat A hπ _ (fun _ => "Defeat batch(zero)") s
    · rw [if_neg hz, if_neg hz, permB_breakTie A hπ]
      cases hb : breakTie A s (s.hopeful.filter (fun c => A.eq c.vote lv)) "Break tie (defeat)" with
      | mk s1 oc =>
        cases oc with
        | none => rfl
        | some lc => simp only; rw [permB_transferDefeated A hA hπ, permB_defeat A hπ]

omit hA hπ in
theorem wigmSure_permB (o : WigmOpts) (s : St α) : wigmSure A o (permB π s) = wigmSure A o s := rfl

theorem permB_wigmBatchStep (s : St α) (sure : List (Cand α)) :
    (wigmBatchStep A (permB π s) sure) = (permB π (wigmBatchStep A s sure).1, (wigmBatchStep A s sure).2) := by
  unfold wigmBatchStep
  have h1 : wigmDefeatSure A (permB π s) sure = permB π (wigmDefeatSure A s sure) := by
    unfold wigmDefeatSure; exact (permB_foldDefeat A hπ _ (fun _ => "Defeat sure loser") s).symm
  rw [h1]
  by_cases hb : decide (((wigmDefeatSure A s sure).hopeful.length : Int) ≤ (wigmDefeatSure A s sure).seatsLeft) = true
  · rw [if_pos (show decide (((permB π (wigmDefeatSure A s sure)).hopeful.length : Int)
        ≤ (permB π (wigmDefeatSure A s sure)).seatsLeft) = true from hb), if_pos hb]
  · rw [if_neg (show ¬ decide (((permB π (wigmDefeatSure A s sure)).hopeful.length : Int)
        ≤ (permB π (wigmDefeatSure A s sure)).seatsLeft) = true from hb), if_neg hb]
    simp only; rw [permB_transferDefeated A hA hπ]

theorem permB_wigmAfterElect (o : WigmOpts) (s : St α) :
    wigmAfterElect A o (permB π s) = (permB π (wigmAfterElect A o s).1, (wigmAfterElect A o s).2) := by
  unfold wigmAfterElect
  by_cases h1 : (!(wigmSure A o s).isEmpty) = true
  · rw [if_pos (show (!(wigmSure A o (permB π s)).isEmpty) = true from h1), if_pos h1]
    exact permB_wigmBatchStep A hA hπ s _
  · rw [if_neg (show ¬ (!(wigmSure A o (permB π s)).isEmpty) = true from h1), if_neg h1]
    by_cases h2 : (!s.pendingL.isEmpty) = true
    · rw [if_pos (show (!(permB π s).pendingL.isEmpty) = true from h2), if_pos h2]
      simp only; rw [permB_wigmSurplusStep A hA hπ]
    · rw [if_neg (show ¬ (!(permB π s).pendingL.isEmpty) = true from h2), if_neg h2]
      by_cases h3 : (!s.hopeful.isEmpty) = true
      · rw [if_pos (show (!(permB π s).hopeful.isEmpty) = true from h3), if_pos h3]
        simp only; rw [permB_wigmDefeatStep A hA hπ]
      · rw [if_neg (show ¬ (!(permB π s).hopeful.isEmpty) = true from h3), if_neg h3]

theorem permB_wigmBody (o : WigmOpts) (s : St α) :
    wigmBody A o (permB π s) = (permB π (wigmBody A o s).1, (wigmBody A o s).2) := by
  unfold wigmBody
  rw [← permB_newRound A hπ, ← permB_wigmElect A hA hπ]
  exact permB_wigmAfterElect A hA hπ o _

omit hA hπ in
theorem stdGuard_permB (s : St α) : stdGuard (permB π s) = stdGuard s := rfl

omit hA hπ in
/-- the fuelled loop commutes with the reordering when the body does -/
theorem loopN_permB (guard : St α → Bool) (body : St α → St α × Flow)
    (hg : ∀ s, guard (permB π s) = guard s)
    (hb : ∀ s, body (permB π s) = (permB π (body s).1, (body s).2)) :
    ∀ (fuel : Nat) (s : St α), loopN guard body fuel (permB π s) = (loopN guard body fuel s).map (permB π) := by
  intro fuel
  induction fuel with
  | zero => intro s; rfl
  | succ n ih =>
    intro s
    unfold loopN
    simp only [crash_permB, hg]
    by_cases hc : s.crash.isSome = true
    · simp [hc]
    · simp only [hc, Bool.false_eq_true, if_false]
      by_cases hgs : guard s = true
      · simp only [hgs, if_true]
        rw [hb s]
        cases hbody : body s with
        | mk s' fl =>
          cases fl with
          | cont => simp only; exact ih s'
          | brk => rfl
      · simp [hgs]

theorem permB_epilogue (s : St α) : permB π (epilogueElectOrDefeat A s) = epilogueElectOrDefeat A (permB π s) := by
  unfold epilogueElectOrDefeat
  dsimp only
  simp only [pendingL_permB]
  rw [← permB_foldUnpend]
  generalize s.pendingL.foldl (fun acc c => acc.unpendSilent c.cid) s = s5
  simp only [hopeful_permB]
  have key : ∀ (l : List (Cand α)) (t : St α),
      permB π (l.foldl (fun acc c => if acc.elected.length < acc.seats then acc.elect A c.cid "Elect remaining" false
          else acc.defeat A c.cid "Defeat remaining") t)
        = l.foldl (fun acc c => if acc.elected.length < acc.seats then acc.elect A c.cid "Elect remaining" false
          else acc.defeat A c.cid "Defeat remaining") (permB π t) := by
    intro l
    induction l with
    | nil => intro t; rfl
    | cons w ws ih =>
      intro t
      simp only [List.foldl_cons, elected_permB, seats_permB]
      by_cases hlt : t.elected.length < t.seats
      · simp only [hlt, if_true]; rw [ih, permB_elect A hπ]
      · simp only [hlt, if_false]; rw [ih, permB_defeat A hπ]
  exact key _ _

theorem permB_wigmInit (o : WigmOpts) (s0 : St α) : permB π (wigmInit A o s0) = wigmInit A o (permB π s0) := by
  unfold wigmInit
  rw [permB_logAct A hπ]
  have : permB π ((firstCount A (s0.setQuota (wigmQuota A o s0))).setExhausted A.zero)
      = (permB π (firstCount A (s0.setQuota (wigmQuota A o s0)))).setExhausted A.zero := rfl
  rw [this, permB_firstCount A hA hπ]
  rfl

/-- **C10, wigm / wigm-prf / wigm-prf-batch (every configuration)**: the count of the profile with its ballot lines rearranged
    is the count of the profile, with the ballot list and the logged ballot views rearranged the same way — every action, tally,
    quota and total is the same -/
theorem wigm_permB (o : WigmOpts) (s0 : St α) :
    wigmCount A o (permB π s0) = (wigmCount A o s0).map (permB π) := by
  unfold wigmCount
  have hlen : (permB π s0).cands.length = s0.cands.length := rfl
  rw [hlen, ← permB_wigmInit A hA hπ, loopN_permB stdGuard (wigmBody A o) stdGuard_permB (permB_wigmBody A hA hπ o)]
  cases loopN stdGuard (wigmBody A o) (2 * s0.cands.length + 3) (wigmInit A o s0) with
  | none => rfl
  | some s4 => simp only [Option.map_some]; rw [permB_epilogue A hA hπ]

end

end Droop
