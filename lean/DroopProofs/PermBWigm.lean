import DroopProofs.PermB

/-! # C10, wigm / wigm-prf / wigm-prf-batch (every configuration): reordering the ballot lines reorders the ballot list of the
returned state and the ballot views in its log, and changes nothing else -/
namespace Droop
variable {α : Type} [CommRing α] [LinearOrder α] [IsStrictOrderedRing α] (A : Arith α)
variable {fb : List (Ballot α) → List (Ballot α)} {fw : List (Nat × α) → List (Nat × α)}

section
variable (hA : LawfulArith A) (hx : XF A fb fw)
include hA hx

theorem xB_wigmElect (o : WigmOpts) (s : St α) : xB fb fw (wigmElect A o s) = wigmElect A o (xB fb fw s) := by
  unfold wigmElect electWinners
  have hq : (if o.prf then hasQuotaGE A else hasQuotaX A) (xB fb fw s) = (if o.prf then hasQuotaGE A else hasQuotaX A) s := by
    funext c; split <;> rfl
  rw [hq]
  exact xB_foldElect A hx _ (fun _ => "Elect, transfer pending") (fun _ => true) s

theorem xB_wigmSurplusStep (s : St α) : xB fb fw (wigmSurplusStep A s) = wigmSurplusStep A (xB fb fw s) := by
  unfold wigmSurplusStep
  dsimp only [pendingL_xB]
  cases hm : maxVoteOf A s.pendingL with
  | none => rfl
  | some hv =>
    simp only
    rw [xB_breakTie A hx]
    cases hb : breakTie A s (s.pendingL.filter (fun c => A.eq c.vote hv)) "Break tie (surplus)" with
    | mk s1 oc =>
      cases oc with
      | none => rfl
      | some hc => simp only; rw [xB_transferSurplus A hA hx, xB_unpendLog A hx]

theorem xB_foldTransferDefeated1 (l : List (Cand α)) (verb : String) (s : St α) :
    xB fb fw (l.foldl (fun acc c => transferDefeated A acc [c.cid] verb) s)
      = l.foldl (fun acc c => transferDefeated A acc [c.cid] verb) (xB fb fw s) := by
  induction l generalizing s with
  | nil => rfl
  | cons c cs ih => simp only [List.foldl_cons]; rw [ih, xB_transferDefeated A hA hx]

omit hA hx in
/-- `wigmDefeatStep` with the selectors read from `s0` and the operations applied to `s` -/
theorem wigmDefeatStep_on (o : WigmOpts) (s0 s : St α) (hh : s.hopeful = s0.hopeful) (hl : s.seatsLeft = s0.seatsLeft) :
    wigmDefeatStep A o s =
      match minVoteOf A s0.hopeful with
      | none => s
      | some lv =>
        if A.eq lv A.zero && o.batchZero
            && decide (((s0.hopeful.filter (fun c => A.eq c.vote lv)).length : Int) ≤ (s0.hopeful.length : Int) - s0.seatsLeft) then
          (s0.hopeful.filter (fun c => A.eq c.vote lv)).foldl (fun acc c => transferDefeated A acc [c.cid] "Transfer defeated")
            ((s0.hopeful.filter (fun c => A.eq c.vote lv)).foldl (fun acc c => acc.defeat A c.cid "Defeat batch(zero)") s)
        else
          match breakTie A s (s0.hopeful.filter (fun c => A.eq c.vote lv)) "Break tie (defeat)" with
          | (s1, some lc) => transferDefeated A (s1.defeat A lc.cid "Defeat") [lc.cid] "Transfer defeated"
          | (s1, none) => s1 := by
  unfold wigmDefeatStep
  rw [hh, hl]
  cases minVoteOf A s0.hopeful <;> rfl

theorem xB_wigmDefeatStep (o : WigmOpts) (s : St α) : xB fb fw (wigmDefeatStep A o s) = wigmDefeatStep A o (xB fb fw s) := by
  rw [wigmDefeatStep_on A o s s rfl rfl, wigmDefeatStep_on A o s (xB fb fw s) rfl rfl]
  cases hm : minVoteOf A s.hopeful with
  | none => rfl
  | some lv =>
    simp only
    by_cases hz : (A.eq lv A.zero && o.batchZero && decide (((s.hopeful.filter (fun c => A.eq c.vote lv)).length : Int) ≤ (s.hopeful.length : Int) - s.seatsLeft)) = true
    · rw [if_pos hz, if_pos hz, xB_foldTransferDefeated1 A hA hx]
      congr 1
      exact xB_foldDefeat A hx _ (fun _ => "Defeat batch(zero)") s
    · rw [if_neg hz, if_neg hz, xB_breakTie A hx]
      cases hb : breakTie A s (s.hopeful.filter (fun c => A.eq c.vote lv)) "Break tie (defeat)" with
      | mk s1 oc =>
        cases oc with
        | none => rfl
        | some lc => simp only; rw [xB_transferDefeated A hA hx, xB_defeat A hx]

omit hA hx in
theorem wigmSure_xB (o : WigmOpts) (s : St α) : wigmSure A o (xB fb fw s) = wigmSure A o s := rfl

theorem xB_wigmBatchStep (s : St α) (sure : List (Cand α)) :
    (wigmBatchStep A (xB fb fw s) sure) = (xB fb fw (wigmBatchStep A s sure).1, (wigmBatchStep A s sure).2) := by
  unfold wigmBatchStep
  have h1 : wigmDefeatSure A (xB fb fw s) sure = xB fb fw (wigmDefeatSure A s sure) := by
    unfold wigmDefeatSure; exact (xB_foldDefeat A hx _ (fun _ => "Defeat sure loser") s).symm
  rw [h1]
  by_cases hb : decide (((wigmDefeatSure A s sure).hopeful.length : Int) ≤ (wigmDefeatSure A s sure).seatsLeft) = true
  · rw [if_pos (show decide (((xB fb fw (wigmDefeatSure A s sure)).hopeful.length : Int)
        ≤ (xB fb fw (wigmDefeatSure A s sure)).seatsLeft) = true from hb), if_pos hb]
  · rw [if_neg (show ¬ decide (((xB fb fw (wigmDefeatSure A s sure)).hopeful.length : Int)
        ≤ (xB fb fw (wigmDefeatSure A s sure)).seatsLeft) = true from hb), if_neg hb]
    simp only; rw [xB_transferDefeated A hA hx]

theorem xB_wigmAfterElect (o : WigmOpts) (s : St α) :
    wigmAfterElect A o (xB fb fw s) = (xB fb fw (wigmAfterElect A o s).1, (wigmAfterElect A o s).2) := by
  unfold wigmAfterElect
  by_cases h1 : (!(wigmSure A o s).isEmpty) = true
  · rw [if_pos (show (!(wigmSure A o (xB fb fw s)).isEmpty) = true from h1), if_pos h1]
    exact xB_wigmBatchStep A hA hx s _
  · rw [if_neg (show ¬ (!(wigmSure A o (xB fb fw s)).isEmpty) = true from h1), if_neg h1]
    by_cases h2 : (!s.pendingL.isEmpty) = true
    · rw [if_pos (show (!(xB fb fw s).pendingL.isEmpty) = true from h2), if_pos h2]
      simp only; rw [xB_wigmSurplusStep A hA hx]
    · rw [if_neg (show ¬ (!(xB fb fw s).pendingL.isEmpty) = true from h2), if_neg h2]
      by_cases h3 : (!s.hopeful.isEmpty) = true
      · rw [if_pos (show (!(xB fb fw s).hopeful.isEmpty) = true from h3), if_pos h3]
        simp only; rw [xB_wigmDefeatStep A hA hx]
      · rw [if_neg (show ¬ (!(xB fb fw s).hopeful.isEmpty) = true from h3), if_neg h3]

theorem xB_wigmBody (o : WigmOpts) (s : St α) :
    wigmBody A o (xB fb fw s) = (xB fb fw (wigmBody A o s).1, (wigmBody A o s).2) := by
  unfold wigmBody
  rw [← xB_newRound A hx, ← xB_wigmElect A hA hx]
  exact xB_wigmAfterElect A hA hx o _

omit hA hx in
theorem stdGuard_xB (s : St α) : stdGuard (xB fb fw s) = stdGuard s := rfl

omit hA hx in
/-- the fuelled loop commutes with the reordering when the body does -/
theorem loopN_xB (guard : St α → Bool) (body : St α → St α × Flow)
    (hg : ∀ s, guard (xB fb fw s) = guard s)
    (hb : ∀ s, body (xB fb fw s) = (xB fb fw (body s).1, (body s).2)) :
    ∀ (fuel : Nat) (s : St α), loopN guard body fuel (xB fb fw s) = (loopN guard body fuel s).map (xB fb fw) := by
  intro fuel
  induction fuel with
  | zero => intro s; rfl
  | succ n ih =>
    intro s
    unfold loopN
    simp only [crash_xB, hg]
    by_cases hc : s.crash.isSome = true
    · simp [hc]
    · simp only [hc, Bool.false_eq_true, if_false]
      by_cases hgs : guard s = true
      · simp only [hgs, if_true]
        rw [hb s]
        cases hbody : body s with
        | mk s' fl =>
          cases fl with
          | cont => simp only; exact ih s'
          | brk => rfl
      · simp [hgs]

theorem xB_epilogue (s : St α) : xB fb fw (epilogueElectOrDefeat A s) = epilogueElectOrDefeat A (xB fb fw s) := by
  unfold epilogueElectOrDefeat
  dsimp only
  simp only [pendingL_xB]
  rw [← xB_foldUnpend]
  generalize s.pendingL.foldl (fun acc c => acc.unpendSilent c.cid) s = s5
  simp only [hopeful_xB]
  have key : ∀ (l : List (Cand α)) (t : St α),
      xB fb fw (l.foldl (fun acc c => if acc.elected.length < acc.seats then acc.elect A c.cid "Elect remaining" false
          else acc.defeat A c.cid "Defeat remaining") t)
        = l.foldl (fun acc c => if acc.elected.length < acc.seats then acc.elect A c.cid "Elect remaining" false
          else acc.defeat A c.cid "Defeat remaining") (xB fb fw t) := by
    intro l
    induction l with
    | nil => intro t; rfl
    | cons w ws ih =>
      intro t
      simp only [List.foldl_cons, elected_xB, seats_xB]
      by_cases hlt : t.elected.length < t.seats
      · simp only [hlt, if_true]; rw [ih, xB_elect A hx]
      · simp only [hlt, if_false]; rw [ih, xB_defeat A hx]
  exact key _ _

theorem xB_wigmInit (o : WigmOpts) (s0 : St α) : xB fb fw (wigmInit A o s0) = wigmInit A o (xB fb fw s0) := by
  unfold wigmInit
  rw [xB_logAct A hx]
  have : xB fb fw ((firstCount A (s0.setQuota (wigmQuota A o s0))).setExhausted A.zero)
      = (xB fb fw (firstCount A (s0.setQuota (wigmQuota A o s0)))).setExhausted A.zero := rfl
  rw [this, xB_firstCount A hA hx]
  rfl

/-- **C10, wigm / wigm-prf / wigm-prf-batch (every configuration)**: the count of the profile with its ballot lines rearranged
    is the count of the profile, with the ballot list and the logged ballot views rearranged the same way — every action, tally,
    quota and total is the same -/
theorem wigm_xB (o : WigmOpts) (s0 : St α) :
    wigmCount A o (xB fb fw s0) = (wigmCount A o s0).map (xB fb fw) := by
  unfold wigmCount
  have hlen : (xB fb fw s0).cands.length = s0.cands.length := rfl
  rw [hlen, ← xB_wigmInit A hA hx, loopN_xB stdGuard (wigmBody A o) stdGuard_xB (xB_wigmBody A hA hx o)]
  cases loopN stdGuard (wigmBody A o) (2 * s0.cands.length + 3) (wigmInit A o s0) with
  | none => rfl
  | some s4 => simp only [Option.map_some]; rw [xB_epilogue A hA hx]

end


/-- reordering the ballot lines by a natural permutation (the instance used by `Props/C10Run.lean`) -/
theorem wigm_permB {α : Type} [CommRing α] [LinearOrder α] [IsStrictOrderedRing α] (A : Arith α) (hA : LawfulArith A)
    {π : ∀ {β : Type}, List β → List β} (hπ : NatPerm π) (o : WigmOpts) (s0 : St α) :
    wigmCount A o (permB π s0) = (wigmCount A o s0).map (permB π) :=
  wigm_xB A hA (XF_of_natPerm A hA hπ) o s0

end Droop
