import DroopProofs.MeekMon
import DroopProofs.PermBPrf
import DroopProofs.PrfDist

/-! # C09 for meek-prf: the record only moves forward, the log only grows

The reference rule's driver in the named stages of `PermBPrf.lean` (`prfS2` … `prfS6`, `prfStart`, `prfFinish`).  Distribution,
totals, quota and keep-factor updates leave ids and statuses alone; elections address hopeful candidates (the winners are a
filter of the hopeful list), the exclusion addresses the hopeful candidate the tie-break returned.  The only invariant carried
along is that candidate ids are distinct. -/
namespace Droop
variable {α : Type} [CommRing α] [LinearOrder α] [IsStrictOrderedRing α] (A : Arith α)

theorem zeroRes_skel (s : St α) : ({ zeroActiveVotes A s with residual := A.zero } : St α).skel = s.skel := by
  unfold zeroActiveVotes St.skel
  simp only [List.map_map]
  apply List.map_congr_left
  intro c _
  simp only [Function.comp]
  split <;> rfl

theorem prfRankStep_am (mult : α) (a : St α × α × α × Bool) (cid : Nat) :
    (prfRankStep A mult a cid).1.acts = a.1.acts ∧ (prfRankStep A mult a cid).1.method = a.1.method := by
  unfold prfRankStep
  split
  · exact ⟨rfl, rfl⟩
  · split
    · split
      · exact ⟨rfl, rfl⟩
      · exact ⟨rfl, rfl⟩
    · exact ⟨rfl, rfl⟩

theorem foldRankPrf_am (mult : α) (rank : List Nat) (a : St α × α × α × Bool) :
    (rank.foldl (prfRankStep A mult) a).1.acts = a.1.acts ∧ (rank.foldl (prfRankStep A mult) a).1.method = a.1.method := by
  induction rank generalizing a with
  | nil => exact ⟨rfl, rfl⟩
  | cons c cs ih =>
    simp only [List.foldl_cons]
    obtain ⟨h1, h2⟩ := ih (prfRankStep A mult a c)
    obtain ⟨g1, g2⟩ := prfRankStep_am A mult a c
    exact ⟨h1.trans g1, h2.trans g2⟩

theorem prfBallotStep_am (s : St α) (b : Ballot α) :
    (prfBallotStep A s b).acts = s.acts ∧ (prfBallotStep A s b).method = s.method := by
  unfold prfBallotStep
  exact foldRankPrf_am A (A.ofInt b.mult) b.rank (s, A.one, A.ofInt b.mult, false)

theorem foldl_prfBallotStep_am (bs : List (Ballot α)) (s : St α) :
    (bs.foldl (prfBallotStep A) s).acts = s.acts ∧ (bs.foldl (prfBallotStep A) s).method = s.method := by
  induction bs generalizing s with
  | nil => exact ⟨rfl, rfl⟩
  | cons b bs ih =>
    simp only [List.foldl_cons]
    obtain ⟨h1, h2⟩ := ih (prfBallotStep A s b)
    obtain ⟨g1, g2⟩ := prfBallotStep_am A s b
    exact ⟨h1.trans g1, h2.trans g2⟩

theorem prfS2_skel (hA : LawfulArith A) (s : St α) (hwf : s.WF) : (prfS2 A s).skel = s.skel := by
  unfold prfS2
  have hsk := zeroRes_skel A s
  have hwf1 : ({ zeroActiveVotes A s with residual := A.zero } : St α).WF := WF_of_skel hsk.symm hwf
  exact ((foldl_prfBallotStep_sum A hA _ _ hwf1).2).trans hsk

theorem prfS2_am (s : St α) : (prfS2 A s).acts = s.acts ∧ (prfS2 A s).method = s.method := by
  unfold prfS2
  exact foldl_prfBallotStep_am A _ _

theorem prfS4_skel (hA : LawfulArith A) (s : St α) (hwf : s.WF) : (prfS4 A s).skel = s.skel := by
  unfold prfS4; exact prfS2_skel A hA s hwf

theorem Mon.prfS4 (hA : LawfulArith A) {s : St α} (h : Mon s) (hwf : s.WF) : Mon (Droop.prfS4 A s) := by
  have h2 : Mon (prfS2 A s) := Mon.of_skel h (prfS2_skel A hA s hwf) (prfS2_am A s).2 (prfS2_am A s).1
  unfold Droop.prfS4
  exact Mon.of_skel h2 rfl rfl rfl

theorem WF_foldElectC (ws : List (Cand α)) (verb : String) {s : St α} (hwf : s.WF) :
    (ws.foldl (fun acc c => acc.elect A c.cid verb false) s).WF := by
  induction ws generalizing s with
  | nil => exact hwf
  | cons w ws ih => simp only [List.foldl_cons]; exact ih (WF_elect A hwf _ _ _)

theorem Mon.prfS6 (hA : LawfulArith A) {s : St α} (h : Mon s) (hwf : s.WF) : Mon (Droop.prfS6 A s) ∧ (Droop.prfS6 A s).WF := by
  have h4 := h.prfS4 A hA hwf
  have hwf4 : (Droop.prfS4 A s).WF := WF_of_skel (prfS4_skel A hA s hwf).symm hwf
  have h5 : Mon (prfS5 A s) := by
    unfold prfS5
    apply Mon.foldElectNP A h4
    intro i hi c hc hci
    obtain ⟨w, hw, rfl⟩ := List.mem_map.1 hi
    unfold prfWinners at hw
    have hwh := mem_hopeful.1 (List.mem_filter.1 hw).1
    left
    have : c = w := nodup_cid_eq hwf4 hc hwh.1 hci
    rw [this]; exact hwh.2
  have hwf5 : (prfS5 A s).WF := by unfold prfS5; exact WF_foldElectC A _ _ hwf4
  unfold Droop.prfS6
  exact ⟨Mon.of_skel h5 rfl rfl rfl, hwf5⟩

theorem WF_kfUpdate (cap : Bool) {s : St α} (hwf : s.WF) : (kfUpdate A cap s).WF := by
  rw [kfUpdate_eq]
  generalize s.elected = l
  induction l generalizing s with
  | nil => exact hwf
  | cons c cs ih =>
    simp only [List.foldl_cons]
    apply ih
    unfold kfStep
    split
    · split
      · unfold St.WF; rw [setCrash_cands]; exact hwf
      · exact WF_of_skel (upd_kf_skel s c.cid _).symm hwf
    · unfold St.WF; rw [setCrash_cands]; exact hwf

theorem Mon.prfIterate (hA : LawfulArith A) (omega : α) :
    ∀ (fuel : Nat) (last : α) (s : St α), Mon s → s.WF →
      Mon (Droop.prfIterate A omega fuel last s).1 ∧ (Droop.prfIterate A omega fuel last s).1.WF := by
  intro fuel
  induction fuel with
  | zero =>
    intro last s h hwf
    show Mon (s.setCrash "FUEL") ∧ (s.setCrash "FUEL").WF
    exact ⟨h.setCrash _, by unfold St.WF; rw [setCrash_cands]; exact hwf⟩
  | succ n ih =>
    intro last s h hwf
    rw [prfIterate_succ]
    obtain ⟨h6, hwf6⟩ := h.prfS6 A hA hwf
    repeat' split
    all_goals first
      | exact ⟨h6, hwf6⟩
      | exact ⟨h6.logMsg _ _ _, hwf6⟩
      | exact ⟨h6.kfUpdate A false, WF_kfUpdate A false hwf6⟩
      | exact ih _ _ (h6.kfUpdate A false) (WF_kfUpdate A false hwf6)

theorem Mon.prfBody (hA : LawfulArith A) (omega : α) (iterFuel : Nat) {s : St α} (h : Mon s) (hwf : s.WF) :
    Mon (Droop.prfBody A omega iterFuel s).1 ∧ (Droop.prfBody A omega iterFuel s).1.WF := by
  unfold Droop.prfBody
  simp only
  have hwfr : (s.newRound A).WF := by unfold St.WF St.newRound; rw [logAct_cands]; exact hwf
  obtain ⟨hr, hwr⟩ := Mon.prfIterate A hA omega iterFuel (A.ofInt (s.newRound A).nballots) _ (h.newRound A) hwfr
  generalize Droop.prfIterate A omega iterFuel (A.ofInt (s.newRound A).nballots) (s.newRound A) = r at hr hwr
  obtain ⟨t, st⟩ := r
  simp only at hr hwr ⊢
  split
  · exact ⟨hr, hwr⟩
  · split
    · exact ⟨hr, hwr⟩
    · split
      · exact ⟨hr, hwr⟩
      · rename_i hd hs hh
        have hbt := hr.breakTie A (t.hopeful.filter (fun c => A.ge (A.add (A.vMin hd.vote (hs.map (·.vote))) t.surplus) c.vote))
          "Break tie (defeat low candidate)"
        have hfr := (breakTie_frame A t (t.hopeful.filter (fun c => A.ge (A.add (A.vMin hd.vote (hs.map (·.vote))) t.surplus) c.vote))
          "Break tie (defeat low candidate)").1
        have hmem := breakTie_mem A t (t.hopeful.filter (fun c => A.ge (A.add (A.vMin hd.vote (hs.map (·.vote))) t.surplus) c.vote))
          "Break tie (defeat low candidate)"
        rw [hh]
        cases hb : Droop.breakTie A t (List.filter (fun c => A.ge (A.add (A.vMin hd.vote (hs.map (·.vote))) t.surplus) c.vote) (hd :: hs))
            "Break tie (defeat low candidate)" with
        | mk s3 oc =>
          rw [hh, hb] at hbt hfr hmem
          simp only at hfr
          have hwf3 : s3.WF := by unfold St.WF; rw [hfr]; exact hwr
          cases oc with
          | none => exact ⟨hbt, hwf3⟩
          | some lc =>
            simp only
            have hlc : lc ∈ t.hopeful := by
              have := (List.mem_filter.1 (hmem lc rfl)).1
              rw [← hh] at this; exact this
            obtain ⟨hls, hlh⟩ := mem_hopeful.1 hlc
            have hd' := hbt.defeat A lc.cid (if (st == PStatus.omega) = true then "Defeat (surplus < omega)" else "Defeat (stable surplus)")
              (fun c hc hcc => by
                rw [hfr] at hc
                have : c = lc := nodup_cid_eq hwr hc hls hcc
                rw [this]; exact hlh)
            have hsk : ((s3.defeat A lc.cid (if (st == PStatus.omega) = true then "Defeat (surplus < omega)" else "Defeat (stable surplus)")).upd lc.cid
                (fun c => { c with vote := A.zero, kf := some A.zero })).skel
                = (s3.defeat A lc.cid (if (st == PStatus.omega) = true then "Defeat (surplus < omega)" else "Defeat (stable surplus)")).skel := by
              unfold St.skel St.upd
              simp only [List.map_map]
              apply List.map_congr_left
              intro c _
              simp only [Function.comp]
              split <;> rfl
            exact ⟨Mon.of_skel hd' hsk rfl rfl, WF_of_skel hsk.symm (WF_defeat A hwf3 _ _)⟩

theorem hop_other_upd {t : St α} (cid : Nat) (f : Cand α → Cand α) (hcid : ∀ c, (f c).cid = c.cid) (i : Nat) (hne : i ≠ cid)
    (hh : ∀ c ∈ t.cands, c.cid = i → c.st = .hopeful) : ∀ c ∈ (t.upd cid f).cands, c.cid = i → c.st = .hopeful := by
  intro c' hc' hci
  obtain ⟨c, hc, rfl⟩ := mem_upd.1 hc'
  by_cases he : (c.cid == cid) = true
  · rw [if_pos he] at hci
    have h0 : c.cid = cid := by simpa using he
    exact absurd ((hcid c).symm.trans hci ▸ h0 ▸ rfl : i = cid) hne
  · rw [if_neg he] at hci ⊢
    exact hh c hc hci

/-- the step of the final loop of `prfCount` -/
def prfFinishStep (acc : St α) (c : Cand α) : St α :=
  if acc.elected.length < acc.seats then acc.elect A c.cid "Elect remaining" false
  else (acc.defeat A c.cid "Defeat remaining").upd c.cid (fun x => { x with kf := some A.zero, vote := A.zero })

theorem prfFinishStep_other (t : St α) (w : Cand α) (i : Nat) (hne : i ≠ w.cid)
    (hh : ∀ c ∈ t.cands, c.cid = i → c.st = .hopeful) : ∀ c ∈ (prfFinishStep A t w).cands, c.cid = i → c.st = .hopeful := by
  unfold prfFinishStep
  split
  · unfold St.elect
    rw [logAct_cands]
    exact hop_other_upd w.cid (fun c => { c with st := .elected, pending := false }) (fun _ => rfl) i hne hh
  · apply hop_other_upd w.cid (fun x => { x with kf := some A.zero, vote := A.zero }) (fun _ => rfl) i hne
    unfold St.defeat
    rw [logAct_cands]
    exact hop_other_upd w.cid (fun c => { c with st := .defeated }) (fun _ => rfl) i hne hh

theorem Mon.prfFinishStep {t : St α} (h : Mon t) (hwf : t.WF) (w : Cand α) (hh : ∀ c ∈ t.cands, c.cid = w.cid → c.st = .hopeful) :
    Mon (Droop.prfFinishStep A t w) ∧ (Droop.prfFinishStep A t w).WF := by
  unfold Droop.prfFinishStep
  split
  · exact ⟨h.electNP A w.cid _ (fun c hc hcc => Or.inl (hh c hc hcc)), WF_elect A hwf _ _ _⟩
  · have hd := h.defeat A w.cid "Defeat remaining" hh
    have hsk : ((t.defeat A w.cid "Defeat remaining").upd w.cid (fun x => { x with kf := some A.zero, vote := A.zero })).skel
        = (t.defeat A w.cid "Defeat remaining").skel := by
      unfold St.skel St.upd
      simp only [List.map_map]
      apply List.map_congr_left
      intro c _
      simp only [Function.comp]
      split <;> rfl
    exact ⟨Mon.of_skel hd hsk rfl rfl, WF_of_skel hsk.symm (WF_defeat A hwf _ _)⟩

theorem Mon.prfFinishFold (l : List (Cand α)) (hnd : (l.map (·.cid)).Nodup) {t : St α} (h : Mon t) (hwf : t.WF)
    (hh : ∀ w ∈ l, ∀ c ∈ t.cands, c.cid = w.cid → c.st = .hopeful) : Mon (l.foldl (Droop.prfFinishStep A) t) := by
  induction l generalizing t with
  | nil => exact h
  | cons w ws ih =>
    simp only [List.foldl_cons]
    simp only [List.map_cons, List.nodup_cons] at hnd
    obtain ⟨h1, hwf1⟩ := h.prfFinishStep A hwf w (hh w (by simp))
    apply ih hnd.2 h1 hwf1
    intro w' hw'
    exact prfFinishStep_other A t w w'.cid (fun e => hnd.1 (e ▸ List.mem_map.2 ⟨w', hw', rfl⟩)) (hh w' (by simp [hw']))

theorem prfFinish_eq (s6 : St α) :
    prfFinish A s6 = if s6.crash.isSome then s6 else
      { s6.hopeful.foldl (prfFinishStep A) s6 with
        votes := A.sum ((s6.hopeful.foldl (prfFinishStep A) s6).elected.map (·.vote))
        residual := A.sub (A.ofInt (s6.hopeful.foldl (prfFinishStep A) s6).nballots)
          (A.sum ((s6.hopeful.foldl (prfFinishStep A) s6).elected.map (·.vote))) } := rfl

theorem Mon.prfFinish {s6 : St α} (h : Mon s6) (hwf : s6.WF) : Mon (Droop.prfFinish A s6) := by
  rw [prfFinish_eq]
  split
  · exact h
  · apply Mon.of_skel _ rfl rfl rfl
    apply Mon.prfFinishFold A _ _ h hwf
    · intro w hw c hc hcc
      obtain ⟨hws, hwh⟩ := mem_hopeful.1 hw
      have : c = w := nodup_cid_eq hwf hc hws hcc
      rw [this]; exact hwh
    · unfold St.hopeful
      exact List.Nodup.sublist (List.Sublist.map _ List.filter_sublist) hwf

theorem prfS3_cands_cid (s0 : St α) : (prfS3 A s0).cands.map (·.cid) = s0.cands.map (·.cid) := by
  unfold prfS3
  simp only [List.map_map]
  apply List.map_congr_left
  intro c _
  simp only [Function.comp]
  split <;> rfl

theorem foldl_mfcStep_cid (bs : List (Ballot α)) (s : St α) :
    (bs.foldl (mfcStep A) s).cands.map (·.cid) = s.cands.map (·.cid) := by
  have e : ∀ (u : St α), u.cands.map (·.cid) = u.skel.map (·.1) := by
    intro u; unfold St.skel; simp [Cand.skel]
  induction bs generalizing s with
  | nil => rfl
  | cons b bs ih =>
    simp only [List.foldl_cons]
    rw [ih]
    unfold mfcStep
    cases b.top with
    | none => rfl
    | some c => simp only; rw [e, e, addVote_skel]

theorem Mon.prfStart {s0 : St α} (hacts : s0.acts = []) (hwf : s0.WF) : Mon (Droop.prfStart A s0) ∧ (Droop.prfStart A s0).WF := by
  rw [prfStart_eq]
  refine ⟨?_, ?_⟩
  · apply Mon.logAct
    apply Mon.of_noActs
    rw [foldl_mfcStep_acts]
    exact hacts
  · unfold St.WF
    rw [logAct_cands, foldl_mfcStep_cid, prfS3_cands_cid]
    exact hwf

/-- **C09 for meek-prf, run level**: whatever the count returns, its record is forward-only; the only thing asked of the start
    state is distinct candidate ids and an empty log -/
theorem prf_record_monotone (hA : LawfulArith A) (iterFuel : Nat) (s0 t : St α) (hacts : s0.acts = []) (hwf : s0.WF)
    (h : prfCount A iterFuel s0 = some t) : Mon t := by
  rw [prfCount_eq] at h
  cases hl : loopN stdGuard (prfBody A (A.divV (A.ofInt 1) (A.ofInt (10 ^ 6))) iterFuel) (2 * s0.cands.length + 3) (prfStart A s0) with
  | none => rw [hl] at h; cases h
  | some s6 =>
    rw [hl] at h
    have ht : t = prfFinish A s6 := (Option.some.inj h).symm
    obtain ⟨hm0, hw0⟩ := Mon.prfStart A hacts hwf
    have hP := loopN_preserves (fun s => Mon s ∧ s.WF) stdGuard (prfBody A (A.divV (A.ofInt 1) (A.ofInt (10 ^ 6))) iterFuel)
      (fun s hs => Mon.prfBody A hA _ iterFuel hs.1 hs.2) _ _ _ ⟨hm0, hw0⟩ hl
    rw [ht]
    exact hP.1.prfFinish A hP.2

end Droop
