import DroopProofs.Lower
import DroopProofs.InvMpls

/-! # C02, lower half, at run level: wigm family (no zero batch), Scottish rule, CfER -/
namespace Droop
variable {α : Type} [CommRing α] [LinearOrder α] [IsStrictOrderedRing α] (A : Arith α)

/-! ## the start -/
structure LStart (q : α) (s0 : St α) : Prop where
  init : Init A s0
  q1 : A.one ≤ q
  /-- the reader removes withdrawn candidates from every ballot -/
  noW : ∀ b ∈ s0.ballots, ∀ c ∈ s0.cands, c.st = .withdrawn → b.top ≠ some c.cid

/-- the state after the quota is set and the first preferences are counted (nothing logged yet) -/
theorem LInv.initCore (hA : LawfulArith A) (u : α) {q : α} {s0 : St α} (h : LStart A q s0) :
    LInv A u ((firstCount A (s0.setQuota q)).setExhausted A.zero)
    ∧ ((firstCount A (s0.setQuota q)).setExhausted A.zero).method = .wigm := by
  have h0 := h.init
  set s1 : St α := s0.setQuota q with hs1
  have hsk1 : s1.skel = s0.skel := rfl
  have hcore : ((firstCount A s1).setExhausted A.zero).method = .wigm
      ∧ (∀ c ∈ ((firstCount A s1).setExhausted A.zero).cands, c.st = .withdrawn → c.vote = 0)
      ∧ ((((firstCount A s1).setExhausted A.zero).nballots : Int) : α)
          = (((firstCount A s1).setExhausted A.zero).ballots.map (fun b => ((b.mult : Int) : α))).sum
      ∧ A.one ≤ ((firstCount A s1).setExhausted A.zero).quota
      ∧ ((firstCount A s1).setExhausted A.zero).acts = []
      ∧ ((firstCount A s1).setExhausted A.zero).total
          = ((((firstCount A s1).setExhausted A.zero).nballots : Int) : α) * A.one := by
    rw [firstCount_eq]
    obtain ⟨f1, f2, f3, f4, f5, f6⟩ := foldl_fcStep_frame A s1.ballots s1
    have hskel : (s1.ballots.foldl (fcStep A) s1).skel = s0.skel := (foldl_fcStep_skel A _ _).trans hsk1
    have hwf : (s1.ballots.foldl (fcStep A) s1).WF := WF_of_skel hskel.symm h0.wf
    have hbw : ∀ b ∈ s1.ballots, ∀ cid ∈ b.rank, (s0.cand? cid).isSome := h0.bwf
    have htop : ∀ b ∈ s0.ballots, b.top ≠ none := by
      intro b hb
      obtain ⟨hi, _, hne⟩ := h0.ballots0 b hb
      unfold Ballot.top; rw [hi]
      cases hr : b.rank with
      | nil => exact absurd hr hne
      | cons x xs => simp
    have hvote : ∀ d, (s1.ballots.foldl (fcStep A) s1).voteOf d = s0.tally A d := by
      intro d
      rw [foldl_fcStep_voteOf A hA s0 d s1.ballots s1 hsk1 hbw]
      have h0v : s1.voteOf d = 0 := by
        unfold St.voteOf
        cases hc : s1.cand? d with
        | none => rfl
        | some c =>
          have : c ∈ s0.cands := List.mem_of_find?_eq_some hc
          exact h0.votes0 c this
      rw [h0v, zero_add]; rfl
    have hw1 : ∀ b ∈ s0.ballots, bvote A b = ((b.mult : Int) : α) * A.one := by
      intro b hb
      rw [bvote_eq A hA, (h0.ballots0 b hb).2.1]; ring
    have hsum : (s1.ballots.foldl (fcStep A) s1).sumVotes = ((s0.nballots : Int) : α) * A.one := by
      rw [foldl_fcStep_sumVotes A hA s0 h0.wf s1.ballots s1 hsk1 (fun b hb => ⟨hbw b hb, htop b hb⟩)]
      have hz : s1.sumVotes = 0 := by
        unfold St.sumVotes
        have : s1.cands.map (·.vote) = s1.cands.map (fun _ => (0 : α)) :=
          List.map_congr_left (fun c hc => h0.votes0 c hc)
        rw [this]; simp
      rw [hz, zero_add, h0.nb]
      have : s1.ballots.map (bvote A) = s0.ballots.map (fun b => ((b.mult : Int) : α) * A.one) :=
        List.map_congr_left (fun b hb => hw1 b hb)
      rw [this]
      clear this
      induction s0.ballots with
      | nil => simp
      | cons b bs ih => simp only [List.map_cons, List.sum_cons, ih]; ring
    refine ⟨f5.trans h0.meth, ?_, ?_, ?_, ?_, ?_⟩
    · intro c' hc' hst
      obtain ⟨c, hc, hsk⟩ := mem_of_skel_eq hskel hc'
      have hcst : c.st = .withdrawn := (skel_st hsk).1.trans hst
      have h1 := voteOf_of_mem hwf hc'
      rw [← h1, hvote]
      unfold St.tally
      have : s0.ballots.map (fun b => if b.top = some c'.cid then bvote A b else 0) = s0.ballots.map (fun _ => (0 : α)) := by
        apply List.map_congr_left
        intro b hb
        have := h.noW b hb c hc hcst
        rw [skel_cid hsk] at this
        simp [this]
      rw [this]; simp
    · have e1 : ((s1.ballots.foldl (fcStep A) s1).setExhausted A.zero).nballots = s0.nballots := f4
      have e2 : ((s1.ballots.foldl (fcStep A) s1).setExhausted A.zero).ballots = s0.ballots := f1
      rw [e1, e2]; exact h0.nb
    · show A.one ≤ (s1.ballots.foldl (fcStep A) s1).quota
      rw [f3]; exact h.q1
    · show (s1.ballots.foldl (fcStep A) s1).acts = []
      rw [f6]; exact h0.noActs
    · have e1 : ((s1.ballots.foldl (fcStep A) s1).setExhausted A.zero).nballots = s0.nballots := f4
      rw [e1]
      show (s1.ballots.foldl (fcStep A) s1).sumVotes + A.zero = _
      rw [hsum, hA.zero_eq, add_zero]
  obtain ⟨c0, c1, c2, c3, c4, c5⟩ := hcore
  refine ⟨⟨c1, c2, c3, ?_, ?_, by rw [c4]; intro a ha; cases ha⟩, c0⟩
  · rw [c5, c4]; simp [nST]
  · intro l a hsuf
    rw [c4] at hsuf
    have := List.IsSuffix.length_le hsuf
    simp at this

theorem LInv.gInit (hA : LawfulArith A) (u : α) {q : α} {s0 : St α} (h : LStart A q s0) : LInv A u (gInit A q s0) := by
  obtain ⟨hc, hm⟩ := LInv.initCore A hA u h
  unfold Droop.gInit
  exact hc.logAct A u hm _ _ _ (by decide)

/-- the conservation bundle together with the lower bound -/
def InvL (u : α) (s : St α) : Prop := Inv A s ∧ LInv A u s

theorem InvL.logAct (u : α) {s : St α} (h : InvL A u s) (tag verb : String) (subj : List Nat)
    (hns : isSTs tag verb = false) : InvL A u (s.logAct A tag verb subj) :=
  ⟨h.1.logAct A _ _ _, h.2.logAct A u h.1.meth _ _ _ hns⟩

/-! ## Scottish rule -/
section scot
variable (hA : LawfulArith A) (u : α) (hu : 0 ≤ u) (hlow : RewLower A u (rewMuldivDown A))
include hA hu hlow

theorem InvL.scotSurplusStep {s : St α} (h : InvL A u s) : InvL A u (Droop.scotSurplusStep A s) := by
  refine ⟨h.1.scotSurplusStep A hA, ?_⟩
  rcases scotSurplusStep_cases A s with ⟨_, e⟩ | ⟨tied, hsub, ⟨_, e⟩ | ⟨hc, hb, e⟩⟩
  · rw [e]; exact h.2
  · rw [e]; exact h.2.scotBreakTie A u h.1.meth _ _ _
  · rw [e]
    obtain ⟨hm, hcs1, _⟩ := scotBreakTie_picked A h.1 tied false _ hc hb (fun x hx => (mem_pendingL.1 (hsub x hx)).1)
    obtain ⟨_, hce, hcp⟩ := mem_pendingL.1 (hsub hc hm)
    exact LInv.unpendTransfer A hA u hu _ hlow (h.1.scotBreakTie A tied false _) (h.2.scotBreakTie A u h.1.meth tied false _)
      hc hcs1 hce hcp _ _ (by decide)

theorem InvL.scotDefeatStep {s : St α} (h : InvL A u s) : InvL A u (Droop.scotDefeatStep A s) := by
  refine ⟨h.1.scotDefeatStep A hA, ?_⟩
  rcases scotDefeatStep_cases A s with ⟨_, e⟩ | ⟨tied, hsub, ⟨_, e⟩ | ⟨lc, hb, e⟩⟩
  · rw [e]; exact h.2
  · rw [e]; exact h.2.scotBreakTie A u h.1.meth _ _ _
  · rw [e]
    obtain ⟨hm, hcs1, _⟩ := scotBreakTie_picked A h.1 tied true _ lc hb (fun x hx => (mem_hopeful.1 (hsub x hx)).1)
    obtain ⟨_, hch⟩ := mem_hopeful.1 (hsub lc hm)
    exact LInv.defeatTransfer1 A hA u (h.1.scotBreakTie A tied true _) (h.2.scotBreakTie A u h.1.meth tied true _) lc
      (mem_hopeful.2 ⟨hcs1, hch⟩) _ _ (by decide)

theorem InvL.scotBody (hex : A.exact = false) {s : St α} (h : InvL A u s) : InvL A u (Droop.scotBody A s).1 := by
  have h1 : InvL A u (scotElect A s) := by
    refine ⟨h.1.scotElect A hA hex, ?_⟩
    unfold scotElect; exact h.2.electWinners A u h.1.meth _ _ _
  unfold Droop.scotBody
  split
  · exact h1
  · have h2 : InvL A u (scotRound A (scotElect A s)) := by
      unfold scotRound
      exact ⟨(h1.1.newRound A).setSurplus A _, (h1.2.newRound A u h1.1.meth).setSurplus A u _⟩
    unfold scotStage
    split
    · exact InvL.scotSurplusStep A hA u hu hlow h2
    · split
      · rw [scotFinish_fst]; exact InvL.scotDefeatStep A hA u hu hlow h2
      · rw [scotFinish_fst]; exact h2

omit hu hlow in
theorem InvL.scotEpilogue {s : St α} (h : InvL A u s) : InvL A u (Droop.scotEpilogue A s) := by
  refine ⟨h.1.scotEpilogue A, ?_⟩
  unfold Droop.scotEpilogue
  dsimp only
  have h5 := h.2.foldUnpend A u s.pendingL
  have hm5 : (s.pendingL.foldl (fun acc c => acc.unpendSilent c.cid) s).method = .wigm := (h.1.foldUnpend A s.pendingL).meth
  generalize s.pendingL.foldl (fun acc c => acc.unpendSilent c.cid) s = s5 at *
  split
  · have h6 := h5.foldElect A u hm5 s5.hopeful (fun _ => "Elect remaining candidates") (fun _ => false)
    exact (h6.1.foldDefeat A u h6.2 _ _).1
  · exact (h5.foldDefeat A u hm5 _ _).1

/-- **C02, lower half, Scottish rule**: in the final state and in every snapshot of the record — the closing `end` action
    included — the tallies plus the non-transferable total fall short of the ballots by at most `u` per ballot per surplus
    transfer logged up to that point -/
theorem scot_lower (hex : A.exact = false) (s0 t : St α) (h0 : Init A s0)
    (hl0 : LStart A (A.ofInt (pdiv s0.nballots (s0.seats + 1) + 1)) s0)
    (hq : 0 < A.ofInt (pdiv s0.nballots (s0.seats + 1) + 1)) (h : scotCount A s0 = some t) :
    LInv A u (t.logAct A "end" "Count Complete" []) := by
  unfold scotCount at h
  cases hl : loopN (fun _ => true) (scotBody A) (2 * s0.cands.length + 3) (scotInit A s0) with
  | none => rw [hl] at h; cases h
  | some s4 =>
    rw [hl] at h; cases h
    have hinit : InvL A u (scotInit A s0) := ⟨Inv.scotInit A hA h0 hq, LInv.gInit A hA u hl0⟩
    have h4 : InvL A u s4 :=
      loopN_preserves (InvL A u) (fun _ => true) (scotBody A) (fun s hs => InvL.scotBody A hA u hu hlow hex hs) _ _ _ hinit hl
    exact ((InvL.scotEpilogue A hA u h4).logAct A u _ _ _ (by decide)).2

end scot

/-! ## wigm, wigm-prf, wigm-prf-batch (no zero batch) -/
theorem wigmSurplusStep_cases (s : St α) :
    (maxVoteOf A s.pendingL = none ∧ wigmSurplusStep A s = s) ∨
    ∃ tied : List (Cand α), (∀ c ∈ tied, c ∈ s.pendingL) ∧
      (((breakTie A s tied "Break tie (surplus)").2 = none
          ∧ wigmSurplusStep A s = (breakTie A s tied "Break tie (surplus)").1) ∨
       (∃ hc, (breakTie A s tied "Break tie (surplus)").2 = some hc
          ∧ wigmSurplusStep A s = transferSurplus A
              ((breakTie A s tied "Break tie (surplus)").1.unpendLog A hc.cid "Transfer high surplus") hc
              (rewMulDiv A) "Surplus transferred")) := by
  unfold wigmSurplusStep
  cases hm : maxVoteOf A s.pendingL with
  | none => left; exact ⟨rfl, rfl⟩
  | some hv =>
    right
    refine ⟨s.pendingL.filter (fun c => A.eq c.vote hv), fun c hc => (List.mem_filter.1 hc).1, ?_⟩
    dsimp only
    cases hb : breakTie A s (s.pendingL.filter (fun c => A.eq c.vote hv)) "Break tie (surplus)" with
    | mk s1 oc =>
      cases oc with
      | none => left; exact ⟨rfl, rfl⟩
      | some hc => right; exact ⟨hc, rfl, rfl⟩

theorem wigmDefeatStep_cases (o : WigmOpts) (hz : o.batchZero = false) (s : St α) :
    (minVoteOf A s.hopeful = none ∧ wigmDefeatStep A o s = s) ∨
    ∃ tied : List (Cand α), (∀ c ∈ tied, c ∈ s.hopeful) ∧
      (((breakTie A s tied "Break tie (defeat)").2 = none
          ∧ wigmDefeatStep A o s = (breakTie A s tied "Break tie (defeat)").1) ∨
       (∃ lc, (breakTie A s tied "Break tie (defeat)").2 = some lc
          ∧ wigmDefeatStep A o s = transferDefeated A
              ((breakTie A s tied "Break tie (defeat)").1.defeat A lc.cid "Defeat") [lc.cid] "Transfer defeated")) := by
  unfold wigmDefeatStep
  cases hm : minVoteOf A s.hopeful with
  | none => left; exact ⟨rfl, rfl⟩
  | some lv =>
    right
    refine ⟨s.hopeful.filter (fun c => A.eq c.vote lv), fun c hc => (List.mem_filter.1 hc).1, ?_⟩
    simp only [hz, Bool.and_false, Bool.false_and, Bool.false_eq_true, if_false]
    cases hb : breakTie A s (s.hopeful.filter (fun c => A.eq c.vote lv)) "Break tie (defeat)" with
    | mk s1 oc =>
      cases oc with
      | none => left; exact ⟨rfl, rfl⟩
      | some lc => right; exact ⟨lc, rfl, rfl⟩

theorem breakTie_picked {s : St α} (tied : List (Cand α)) (verb : String) (c : Cand α)
    (h : (breakTie A s tied verb).2 = some c) (hsub : ∀ x ∈ tied, x ∈ s.cands) :
    c ∈ tied ∧ c ∈ (breakTie A s tied verb).1.cands := by
  have hm := breakTie_mem A s tied verb c h
  have e1 := (breakTie_frame A s tied verb).1
  exact ⟨hm, by rw [e1]; exact hsub c hm⟩

section wigm
variable (hA : LawfulArith A) (u : α) (hu : 0 ≤ u) (hlow : RewLower A u (rewMulDiv A))
include hA hu hlow

theorem InvL.wigmSurplusStep {s : St α} (h : InvL A u s) : InvL A u (Droop.wigmSurplusStep A s) := by
  refine ⟨h.1.wigmSurplusStep A hA, ?_⟩
  rcases wigmSurplusStep_cases A s with ⟨_, e⟩ | ⟨tied, hsub, ⟨_, e⟩ | ⟨hc, hb, e⟩⟩
  · rw [e]; exact h.2
  · rw [e]; exact h.2.breakTie A u h.1.meth _ _
  · rw [e]
    obtain ⟨hm, hcs1⟩ := breakTie_picked A tied _ hc hb (fun x hx => (mem_pendingL.1 (hsub x hx)).1)
    obtain ⟨_, hce, hcp⟩ := mem_pendingL.1 (hsub hc hm)
    exact LInv.unpendTransfer A hA u hu _ hlow (h.1.breakTie A tied _) (h.2.breakTie A u h.1.meth tied _)
      hc hcs1 hce hcp _ _ (by decide)

omit hu hlow in
theorem InvL.wigmDefeatStep1 (o : WigmOpts) (hz : o.batchZero = false) {s : St α} (h : InvL A u s) :
    InvL A u (Droop.wigmDefeatStep A o s) := by
  refine ⟨h.1.wigmDefeatStep1 A hA o hz, ?_⟩
  rcases wigmDefeatStep_cases A o hz s with ⟨_, e⟩ | ⟨tied, hsub, ⟨_, e⟩ | ⟨lc, hb, e⟩⟩
  · rw [e]; exact h.2
  · rw [e]; exact h.2.breakTie A u h.1.meth _ _
  · rw [e]
    obtain ⟨hm, hcs1⟩ := breakTie_picked A tied _ lc hb (fun x hx => (mem_hopeful.1 (hsub x hx)).1)
    obtain ⟨_, hch⟩ := mem_hopeful.1 (hsub lc hm)
    exact LInv.defeatTransfer1 A hA u (h.1.breakTie A tied _) (h.2.breakTie A u h.1.meth tied _) lc
      (mem_hopeful.2 ⟨hcs1, hch⟩) _ _ (by decide)

omit hu hlow in
theorem InvL.wigmBatchStep {s : St α} (h : InvL A u s) (sure : List (Cand α))
    (hsub : ∀ w ∈ sure, w ∈ s.hopeful) (hnd : (sure.map (·.cid)).Nodup) :
    InvL A u (Droop.wigmBatchStep A s sure).1 := by
  refine ⟨h.1.wigmBatchStep A hA sure hsub hnd, ?_⟩
  unfold Droop.wigmBatchStep
  split
  · unfold wigmDefeatSure; exact (h.2.foldDefeat A u h.1.meth _ _).1
  · unfold wigmDefeatSure
    exact LInv.defeatManyThenTransfer A hA u h.1 h.2 sure (byBallotOrder sure) _ _ (by decide) (pySorted_perm _ _ _) hnd hsub

theorem InvL.wigmBody (o : WigmOpts) (hz : o.batchZero = false) (hex : o.prf = true → A.exact = false)
    {s : St α} (h : InvL A u s) : InvL A u (Droop.wigmBody A o s).1 := by
  have h2 : InvL A u (wigmElect A o (s.newRound A)) := by
    refine ⟨(h.1.newRound A).wigmElect A hA o hex, ?_⟩
    unfold wigmElect
    exact (h.2.newRound A u h.1.meth).electWinners A u (h.1.newRound A).meth _ _ _
  unfold Droop.wigmBody
  generalize wigmElect A o (s.newRound A) = s2 at *
  unfold Droop.wigmAfterElect
  split
  · apply InvL.wigmBatchStep A hA u h2
    · intro w hw
      unfold wigmSure at hw
      split at hw
      · exact batchDefeatGroups_hopeful A s2 _ w hw
      · cases hw
    · unfold wigmSure
      split
      · exact batchDefeatGroups_nodup A s2 h2.1.wf _
      · simp
  · split
    · exact InvL.wigmSurplusStep A hA u hu hlow h2
    · split
      · exact InvL.wigmDefeatStep1 A hA u o hz h2
      · exact h2

omit hu hlow in
theorem InvL.epilogue {s : St α} (h : InvL A u s) : InvL A u (epilogueElectOrDefeat A s) := by
  refine ⟨h.1.epilogue A, ?_⟩
  unfold epilogueElectOrDefeat
  dsimp only
  have h5 := h.2.foldUnpend A u s.pendingL
  have hm5 : (s.pendingL.foldl (fun acc c => acc.unpendSilent c.cid) s).method = .wigm := (h.1.foldUnpend A s.pendingL).meth
  generalize s.pendingL.foldl (fun acc c => acc.unpendSilent c.cid) s = s5 at *
  have key : ∀ (l : List (Cand α)) (v : St α), LInv A u v → v.method = .wigm →
      LInv A u (l.foldl (fun acc c =>
        if acc.elected.length < acc.seats then acc.elect A c.cid "Elect remaining" false
        else acc.defeat A c.cid "Defeat remaining") v) := by
    intro l; induction l with
    | nil => intro v hv _; exact hv
    | cons c cs ih =>
      intro v hv hmv; simp only [List.foldl_cons]
      split
      · apply ih _ (hv.elect A u hmv c.cid _ _)
        unfold St.elect St.logAct; simp only; split <;> exact hmv
      · apply ih _ (hv.defeat A u hmv c.cid _)
        unfold St.defeat St.logAct; simp only; split <;> exact hmv
  exact key _ _ h5 hm5

/-- **C02, lower half, wigm / wigm-prf / wigm-prf-batch** (every configuration except `defeat_batch=zero`) -/
theorem wigm_lower (o : WigmOpts) (hz : o.batchZero = false) (hex : o.prf = true → A.exact = false)
    (s0 t : St α) (h0 : Init A s0) (hl0 : LStart A (wigmQuota A o s0) s0) (hq : 0 < wigmQuota A o s0)
    (h : wigmCount A o s0 = some t) : LInv A u (t.logAct A "end" "Count Complete" []) := by
  unfold wigmCount at h
  cases hl : loopN stdGuard (wigmBody A o) (2 * s0.cands.length + 3) (wigmInit A o s0) with
  | none => rw [hl] at h; cases h
  | some s4 =>
    rw [hl] at h; cases h
    have hinit : InvL A u (wigmInit A o s0) := ⟨Inv.wigmInit A hA o h0 hq, LInv.gInit A hA u hl0⟩
    have h4 : InvL A u s4 :=
      loopN_preserves (InvL A u) stdGuard (wigmBody A o) (fun s hs => InvL.wigmBody A hA u hu hlow o hz hex hs) _ _ _ hinit hl
    exact ((InvL.epilogue A hA u h4).logAct A u _ _ _ (by decide)).2

end wigm

/-! ## CfER -/
section cfer
variable (hA : LawfulArith A) (u : α) (hu : 0 ≤ u) (hlow : RewLower A u (rewMulDiv A))
include hA hu hlow

omit hu hlow in
theorem InvL.cferFinishDefeats {s : St α} (h : InvL A u s) (defeats : List (Cand α))
    (hj : JustDefeated A s (defeats.map (·.cid))) : InvL A u (Droop.cferFinishDefeats A s defeats).1 := by
  refine ⟨h.1.cferFinishDefeats A hA defeats hj, ?_⟩
  unfold Droop.cferFinishDefeats
  split
  · dsimp only
    have h1 := h.2.foldElect A u h.1.meth s.pendingL (fun _ => "Elect pending") (fun _ => false)
    exact (h1.1.foldElect A u h1.2 _ (fun _ => "Elect remaining") (fun _ => false)).1
  · exact LInv.transferDefeatedMany A hA u h.1 h.2 _ _ (by decide) hj.1 hj.2

omit hu hlow in
theorem InvL.cferDefeatBatch {s : St α} (h : InvL A u s) (defeats : List (Cand α))
    (hsub : ∀ w ∈ defeats, w ∈ s.hopeful) (hnd : (defeats.map (·.cid)).Nodup) :
    InvL A u (Droop.cferDefeatBatch A s defeats).1 := by
  unfold Droop.cferDefeatBatch
  apply InvL.cferFinishDefeats A hA u ⟨h.1.foldDefeat A _ _, (h.2.foldDefeat A u h.1.meth _ _).1⟩
  exact justDefeated_foldDefeat A h.1 defeats (byBallotOrder defeats) _ (pySorted_perm _ _ _) hnd hsub

omit hu hlow in
theorem InvL.cferDefeatLow {s : St α} (h : InvL A u s) : InvL A u (Droop.cferDefeatLow A s).1 := by
  rcases cferDefeatLow_cases A s with ⟨_, e⟩ | ⟨tied, hsub, ⟨_, e⟩ | ⟨lc, hb, e⟩⟩
  · rw [e]; exact ⟨h.1.setCrash A _, h.2.setCrash A u _⟩
  · rw [e]; exact ⟨h.1.breakTie A _ _, h.2.breakTie A u h.1.meth _ _⟩
  · rw [e]
    obtain ⟨hm, hcs1⟩ := breakTie_picked A tied _ lc hb (fun x hx => (mem_hopeful.1 (hsub x hx)).1)
    obtain ⟨_, hch⟩ := mem_hopeful.1 (hsub lc hm)
    have hI1 := h.1.breakTie A tied "Break tie (defeat)"
    have hL1 := h.2.breakTie A u h.1.meth tied "Break tie (defeat)"
    have hl1 : lc ∈ (breakTie A s tied "Break tie (defeat)").1.hopeful := mem_hopeful.2 ⟨hcs1, hch⟩
    have hj := justDefeated_foldDefeat A hI1 [lc] [lc] "Defeat" (List.Perm.refl _) (by simp)
      (by intro w hw; simp at hw; rw [hw]; exact hl1)
    simp only [List.foldl_cons, List.foldl_nil, List.map_cons, List.map_nil] at hj
    exact InvL.cferFinishDefeats A hA u ⟨hI1.defeat A lc.cid "Defeat", hL1.defeat A u hI1.meth lc.cid "Defeat"⟩ [lc] hj

theorem InvL.cferSurplusOne {s : St α} (h : InvL A u s) (c : Cand α)
    (hp : ∃ x ∈ s.cands, x.cid = c.cid ∧ x.st = .elected ∧ x.pending = true) :
    InvL A u (Droop.cferSurplusOne A s c) ∧ (Droop.cferSurplusOne A s c).skel = (s.unpendLog A c.cid "Transfer surplus").skel := by
  obtain ⟨hI, hsk⟩ := h.1.cferSurplusOne A hA c hp
  refine ⟨⟨hI, ?_⟩, hsk⟩
  obtain ⟨x, hxm, hxc, hxe, hxp⟩ := hp
  rw [cferSurplusOne_eq A h.1.wf c x hxm hxc, ← hxc]
  exact LInv.unpendTransfer A hA u hu _ hlow h.1 h.2 x hxm hxe hxp _ _ (by decide)

theorem InvL.foldSurplus (rem : List (Cand α)) {s : St α} (h : InvL A u s)
    (hnd : (rem.map (·.cid)).Nodup) (hp : StillPending s rem) : InvL A u (rem.foldl (Droop.cferSurplusOne A) s) := by
  induction rem generalizing s with
  | nil => exact h
  | cons c cs ih =>
    simp only [List.foldl_cons]
    simp only [List.map_cons, List.nodup_cons, List.mem_map, not_exists, not_and] at hnd
    obtain ⟨h1, hsk⟩ := InvL.cferSurplusOne A hA u hu hlow h c (hp c (by simp))
    apply ih h1 hnd.2
    exact stillPending_step A c cs hsk (fun c' hc' e => hnd.1 c' hc' e) (fun c' hc' => hp c' (by simp [hc']))

theorem InvL.cferAfterElect (batch : Bool) {s : St α} (h : InvL A u s) : InvL A u (Droop.cferAfterElect A batch s).1 := by
  have hfull : InvL A u (cferSeatsFull A s).1 := by
    refine ⟨h.1.cferSeatsFull A, ?_⟩
    unfold cferSeatsFull
    dsimp only
    have h5 := h.2.foldUnpend A u s.pendingL
    have hm5 : (s.pendingL.foldl (fun acc c => acc.unpendSilent c.cid) s).method = .wigm := (h.1.foldUnpend A s.pendingL).meth
    exact (h5.foldDefeat A u hm5 _ _).1
  have hsur : InvL A u (cferSurplusAll A s) := by
    unfold cferSurplusAll
    apply InvL.foldSurplus A hA u hu hlow s.pendingL h (pendingL_cids_nodup h.1.wf)
    intro c hc
    obtain ⟨a, b, d⟩ := mem_pendingL.1 hc
    exact ⟨c, a, rfl, b, d⟩
  unfold Droop.cferAfterElect
  repeat' split
  all_goals first
    | exact hfull
    | exact hsur
    | exact InvL.cferDefeatLow A hA u h
    | exact InvL.cferDefeatBatch A hA u h _ (cferBatch_hopeful A s) (cferBatch_nodup A s h.1.wf)
    | exact InvL.cferDefeatBatch A hA u h [] (by intro w hw; cases hw) (by simp)

theorem InvL.cferBody (hex : A.exact = false) (batch : Bool) {s : St α} (h : InvL A u s) :
    InvL A u (Droop.cferBody A batch s).1 := by
  have h1 : InvL A u (s.newRound A) := ⟨h.1.newRound A, h.2.newRound A u h.1.meth⟩
  unfold Droop.cferBody
  split
  · refine ⟨h1.1.cferElectAll A, ?_⟩
    unfold cferElectAll
    exact (h1.2.foldElect A u h1.1.meth _ (fun _ => "Elect all") (fun _ => false)).1
  · apply InvL.cferAfterElect A hA u hu hlow batch
    refine ⟨h1.1.cferElect A hA hex, ?_⟩
    unfold cferElect
    exact h1.2.electWinners A u h1.1.meth _ _ _

/-- **C02, lower half, cfer and cfer-batch** -/
theorem cfer_lower (hex : A.exact = false) (batch : Bool) (s0 t : St α) (h0 : Init A s0)
    (hl0 : LStart A (cferQuota A s0) s0) (hq : 0 < cferQuota A s0) (h : cferCount A batch s0 = some t) :
    LInv A u (t.logAct A "end" "Count Complete" []) := by
  unfold cferCount at h
  have hinit : InvL A u (cferInit A s0) := ⟨Inv.cferInit A hA h0 hq, LInv.gInit A hA u hl0⟩
  have h4 : InvL A u t :=
    loopN_preserves (InvL A u) (fun _ => true) (cferBody A batch)
      (fun s hs => InvL.cferBody A hA u hu hlow hex batch hs) _ _ _ hinit h
  exact (h4.logAct A u _ _ _ (by decide)).2

end cfer

/-! ## Minneapolis -/
section mpls
variable (hA : LawfulArith A) (u : α) (hu : 0 ≤ u) (hlow : RewLower A u (rewMulDiv A))
include hA hu hlow

omit hA hu hlow in
theorem LInv.foldDefeatV {s : St α} (h : LInv A u s) (hm : s.method = .wigm) (ws : List (Cand α)) (verb : Cand α → String) :
    LInv A u (ws.foldl (fun acc c => acc.defeat A c.cid (verb c)) s) := by
  induction ws generalizing s with
  | nil => exact h
  | cons w ws ih =>
    simp only [List.foldl_cons]
    apply ih (h.defeat A u hm w.cid _)
    unfold St.defeat St.logAct; simp only; split <;> exact hm

omit hA hu hlow in
/-- `mplsLogTransfer` of an exclusion: the reporting surplus is set, then a non-surplus `transfer` action is logged -/
theorem LInv.mplsLogTransferD {s : St α} (h : LInv A u s) (hm : s.method = .wigm) (subj : List Nat) :
    LInv A u (Droop.mplsLogTransfer A s "Transfer defeated" subj) := by
  unfold Droop.mplsLogTransfer
  exact (h.setSurplus A u (mplsSurplusAll A s false)).logAct A u hm "transfer" "Transfer defeated" subj (by decide)

omit hu hlow in
theorem InvL.mplsDefeatMany {s : St α} (h : InvL A u s) (l : List (Cand α))
    (hsub : ∀ w ∈ l, w ∈ s.hopeful) (hnd : (l.map (·.cid)).Nodup) : InvL A u (Droop.mplsDefeatMany A s l).1 := by
  refine ⟨h.1.mplsDefeatMany A hA l hsub hnd, ?_⟩
  unfold Droop.mplsDefeatMany
  have hj := justDefeated_foldDefeatV A h.1 l mplsDefeatVerb hnd hsub
  obtain ⟨hc, hm⟩ := LInv.defeatedCore A hA u (h.1.foldDefeatV A l mplsDefeatVerb)
    (LInv.foldDefeatV A u h.2 h.1.meth l mplsDefeatVerb) _ hj.1 hj.2
  exact LInv.mplsLogTransferD A u hc hm _

theorem InvL.mplsElectSurplus (hex : A.exact = false) {s : St α} (h : InvL A u s) (hwq : List (Cand α)) (hv : α)
    (hsub : ∀ w ∈ hwq, w ∈ s.hopeful ∧ hasQuotaGE A s w = true) : InvL A u (Droop.mplsElectSurplus A s hwq hv).1 := by
  refine ⟨h.1.mplsElectSurplus A hA hex hwq hv hsub, ?_⟩
  unfold Droop.mplsElectSurplus
  have hI1 := h.1.breakTie A (hwq.filter (fun c => A.eq c.vote hv)) "Break tie (largest surplus)"
  have hL1 := h.2.breakTie A u h.1.meth (hwq.filter (fun c => A.eq c.vote hv)) "Break tie (largest surplus)"
  have hfr := breakTie_frame A s (hwq.filter (fun c => A.eq c.vote hv)) "Break tie (largest surplus)"
  have hmem := breakTie_mem A s (hwq.filter (fun c => A.eq c.vote hv)) "Break tie (largest surplus)"
  cases hb : Droop.breakTie A s (hwq.filter (fun c => A.eq c.vote hv)) "Break tie (largest surplus)" with
  | mk s3 oc =>
    rw [hb] at hI1 hL1 hfr hmem
    cases oc with
    | none => exact hL1
    | some hc =>
      simp only
      have hcm := hmem hc rfl
      rw [List.mem_filter] at hcm
      obtain ⟨hch, hcq⟩ := hsub hc hcm.1
      obtain ⟨hcs, hchop⟩ := mem_hopeful.1 hch
      obtain ⟨e1, e2, e3, e4, e5⟩ := hfr
      have hcs3 : hc ∈ s3.cands := by simp only at e1; rw [e1]; exact hcs
      have h4 := hI1.electNP A hc.cid "Elect"
      have hL4 := hL1.elect A u hI1.meth hc.cid "Elect" false
      let x : Cand α := { hc with st := .elected, pending := false }
      have hx : x ∈ (s3.elect A hc.cid "Elect" false).cands := by
        unfold St.elect; rw [logAct_cands]
        exact mem_upd_of_eq (f := fun c => { c with st := .elected, pending := false }) hcs3 rfl
      have hcore : Droop.surplusCore A (s3.elect A hc.cid "Elect" false) hc (rewMulDiv A) =
          Droop.surplusCore A (s3.elect A hc.cid "Elect" false) x (rewMulDiv A) := surplusCore_congr A _ hc x _ rfl rfl
      show LInv A u (Droop.mplsLogTransfer A (Droop.surplusCore A (s3.elect A hc.cid "Elect" false) hc (rewMulDiv A))
        "Transfer surplus" [hc.cid])
      rw [hcore]
      have hpre := LInv.surplusCore_pre A hA u hu (rewMulDiv A) hlow h4 hL4 x hx (by simp [x]) (by simp [x])
        (by
          have ht : (s3.elect A hc.cid "Elect" false).tally A x.cid = s.tally A hc.cid := by
            unfold St.tally St.elect
            rw [logAct_ballots]
            show (List.map _ s3.ballots).sum = _
            simp only at e2; rw [e2]
          rw [ht]
          exact h.1.i1 hc hcs (Or.inl hchop))
        (by
          have hq : (s3.elect A hc.cid "Elect" false).quota = s.quota := by
            unfold St.elect; rw [logAct_quota]; simp only at e4; exact e4
          rw [hq]
          exact hasQuotaGE_sound A hA hex s hc hcq)
      obtain ⟨c0, c1, c2, c3, c4, c4s, c5⟩ := hpre
      unfold Droop.mplsLogTransfer
      generalize Droop.surplusCore A (s3.elect A hc.cid "Elect" false) x (rewMulDiv A) = core at *
      have hst : isSTs "transfer" "Transfer surplus" = true := by decide
      exact LInv.logAct' A u (s := core.setSurplus (mplsSurplusAll A core false)) c0 c1 c2 c3 c4 c4s
        "transfer" "Transfer surplus" [hc.cid] (by simp only [hst, if_true]; exact c5)

omit hu hlow in
theorem InvL.mplsDefeatLow {s : St α} (h : InvL A u s) : InvL A u (Droop.mplsDefeatLow A s) := by
  refine ⟨h.1.mplsDefeatLow A hA, ?_⟩
  unfold Droop.mplsDefeatLow
  split
  · cases hm : minVoteOf A s.hopeful with
    | none => exact h.2
    | some lv =>
      simp only
      have hI1 := h.1.breakTie A (s.hopeful.filter (fun c => A.eq c.vote lv)) "Break tie (defeat low candidate)"
      have hL1 := h.2.breakTie A u h.1.meth (s.hopeful.filter (fun c => A.eq c.vote lv)) "Break tie (defeat low candidate)"
      have hfr := breakTie_frame A s (s.hopeful.filter (fun c => A.eq c.vote lv)) "Break tie (defeat low candidate)"
      have hmem := breakTie_mem A s (s.hopeful.filter (fun c => A.eq c.vote lv)) "Break tie (defeat low candidate)"
      cases hb : Droop.breakTie A s (s.hopeful.filter (fun c => A.eq c.vote lv)) "Break tie (defeat low candidate)" with
      | mk s1 oc =>
        rw [hb] at hI1 hL1 hfr hmem
        cases oc with
        | none => exact hL1
        | some lc =>
          simp only
          have hcm := hmem lc rfl
          rw [List.mem_filter] at hcm
          obtain ⟨hcs, hch⟩ := mem_hopeful.1 hcm.1
          obtain ⟨e1, e2, e3, e4, e5⟩ := hfr
          have hl1 : lc ∈ s1.hopeful := by
            apply mem_hopeful.2
            simp only at e1; rw [e1]; exact ⟨hcs, hch⟩
          unfold mplsAfterDefeatLow
          split
          · have hj := justDefeated_foldDefeat A hI1 [lc] [lc] "Defeat low candidate" (List.Perm.refl _) (by simp)
              (by intro w hw; simp at hw; rw [hw]; exact hl1)
            simp only [List.foldl_cons, List.foldl_nil, List.map_cons, List.map_nil] at hj
            obtain ⟨hc, hmc⟩ := LInv.defeatedCore A hA u (hI1.defeat A lc.cid "Defeat low candidate")
              (hL1.defeat A u hI1.meth lc.cid "Defeat low candidate") [lc.cid] hj.1 hj.2
            exact LInv.mplsLogTransferD A u hc hmc _
          · exact hL1.defeat A u hI1.meth lc.cid _
  · exact h.2

theorem InvL.mplsRound (hex : A.exact = false) {s : St α} (h : InvL A u s) : InvL A u (Droop.mplsRound A s).1 := by
  unfold Droop.mplsRound
  split
  · exact InvL.mplsDefeatMany A hA u h _ (mplsDefeatSet_hopeful A s) (mplsDefeatSet_nodup A s h.1.wf)
  · split
    · rename_i hd hs heq
      apply InvL.mplsElectSurplus A hA u hu hlow hex h
      intro w hw
      have : w ∈ (byVote A true s.hopeful).filter (hasQuotaGE A s) := by rw [heq]; exact hw
      rw [List.mem_filter] at this
      exact ⟨(mem_pySorted _ _ _ _).1 this.1, this.2⟩
    · unfold mplsFinish
      split <;> exact InvL.mplsDefeatLow A hA u h

theorem InvL.mplsBody (hex : A.exact = false) {s : St α} (h : InvL A u s) : InvL A u (Droop.mplsBody A s).1 := by
  have hcv : InvL A u (mplsCountVotes A s) := by
    refine ⟨h.1.mplsCountVotes A, ?_⟩
    unfold mplsCountVotes
    exact (h.2.setSurplus A u (mplsSurplusAll A s true)).logAct A u h.1.meth "count" "Count Votes" [] (by decide)
  unfold Droop.mplsBody
  split
  · refine ⟨hcv.1.mplsElectThreshold A, ?_⟩
    unfold mplsElectThreshold
    exact (hcv.2.foldElect A u hcv.1.meth _ (fun _ => "Candidate at threshold") (fun _ => false)).1
  · exact InvL.mplsRound A hA u hu hlow hex ⟨hcv.1.newRound A, hcv.2.newRound A u hcv.1.meth⟩

omit hu hlow in
theorem InvL.mplsEpilogue {s : St α} (h : InvL A u s) : InvL A u (Droop.mplsEpilogue A s) := by
  refine ⟨h.1.mplsEpilogue A, ?_⟩
  unfold Droop.mplsEpilogue
  split
  · have h6 := h.2.foldElect A u h.1.meth s.hopeful (fun _ => "Elect remaining candidates") (fun _ => false)
    exact (h6.1.foldDefeat A u h6.2 _ _).1
  · exact (h.2.foldDefeat A u h.1.meth _ _).1

/-- **C02, lower half, Minneapolis** -/
theorem mpls_lower (hex : A.exact = false) (s0 t : St α) (h0 : Init A s0)
    (hl0 : LStart A (A.ofInt (pdiv s0.nballots (s0.seats + 1) + 1)) s0)
    (hq : 0 < A.ofInt (pdiv s0.nballots (s0.seats + 1) + 1)) (h : mplsCount A s0 = some t) :
    LInv A u (t.logAct A "end" "Count Complete" []) := by
  unfold mplsCount at h
  cases hl : loopN (fun _ => true) (mplsBody A) (2 * s0.cands.length + 4) (mplsInit A s0) with
  | none => rw [hl] at h; cases h
  | some s4 =>
    rw [hl] at h; cases h
    obtain ⟨hc, hm⟩ := LInv.initCore A hA u hl0
    have hinit : InvL A u (mplsInit A s0) := by
      refine ⟨Inv.mplsInit A hA h0 hq, ?_⟩
      unfold mplsInit
      exact hc.newRound A u hm
    have h4 : InvL A u s4 :=
      loopN_preserves (InvL A u) (fun _ => true) (mplsBody A) (fun s hs => InvL.mplsBody A hA u hu hlow hex hs) _ _ _ hinit hl
    exact ((InvL.mplsEpilogue A hA u h4).logAct A u _ _ _ (by decide)).2

end mpls

end Droop
