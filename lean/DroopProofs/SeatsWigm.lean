import DroopProofs.SeatsLoop

/-! # wigm / wigm-prf: at every state of the main loop the elected do not exceed the seats -/
namespace Droop
variable {α : Type} [CommRing α] [LinearOrder α] [IsStrictOrderedRing α] (A : Arith α)

/-- loop invariant: the bundle, plus every elected candidate holds a quota -/
def InvE (s : St α) : Prop := Inv A s ∧ ElectedHoldQuota s

theorem InvE.foldElect {s : St α} (h : InvE A s) (ws : List (Cand α)) (verb : Cand α → String) (pend : Cand α → Bool)
    (hnd : (ws.map (·.cid)).Nodup)
    (hw : ∀ w ∈ ws, w ∈ s.cands ∧ w.st = .hopeful ∧ s.quota ≤ w.vote) :
    InvE A (ws.foldl (fun acc c => acc.elect A c.cid (verb c) (pend c)) s) := by
  induction ws generalizing s with
  | nil => exact h
  | cons w ws ih =>
    simp only [List.foldl_cons]
    simp only [List.map_cons, List.nodup_cons, List.mem_map, not_exists, not_and] at hnd
    obtain ⟨hwm, hwh, hwq⟩ := hw w (by simp)
    have huniq : ∀ c ∈ s.cands, c.cid = w.cid → c = w := fun c hc hcid => nodup_cid_eq h.1.wf hc hwm hcid
    have h1 : InvE A (s.elect A w.cid (verb w) (pend w)) := by
      refine ⟨?_, ?_⟩
      · apply h.1.elect A
        · intro c hc hcid; rw [huniq c hc hcid]; exact hwh
        · intro c hc hcid _; rw [huniq c hc hcid]; exact hwq
      · apply EHQ.elect A h.2
        intro c hc hcid; rw [huniq c hc hcid]; exact hwq
    apply ih h1 hnd.2
    intro w' hw'
    obtain ⟨hm, hh, hq⟩ := hw w' (by simp [hw'])
    have hne : w'.cid ≠ w.cid := fun e => hnd.1 w' hw' e
    refine ⟨?_, hh, ?_⟩
    · unfold St.elect; rw [logAct_cands]; exact mem_upd_of_ne hm hne
    · unfold St.elect; rw [logAct_quota]; exact hq

theorem InvE.electWinners {s : St α} (h : InvE A s) (hasQ : St α → Cand α → Bool) (pend : St α → Cand α → Bool)
    (verb : St α → Cand α → String) (hsound : ∀ c, hasQ s c = true → s.quota ≤ c.vote) :
    InvE A (Droop.electWinners A hasQ pend verb s) := by
  unfold Droop.electWinners
  apply h.foldElect A _ (verb s) (pend s)
  · have hp : ((byVote A true s.hopeful).map (·.cid)).Perm (s.hopeful.map (·.cid)) :=
      (pySorted_perm _ _ _).map _
    have hnd : ((byVote A true s.hopeful).map (·.cid)).Nodup := hp.nodup_iff.2 (hopeful_cids_nodup h.1.wf)
    exact List.Nodup.sublist (List.Sublist.map _ List.filter_sublist) hnd
  · intro w hw
    rw [List.mem_filter] at hw
    have hm : w ∈ s.hopeful := (mem_pySorted _ _ _ _).1 hw.1
    obtain ⟨hc, hh⟩ := mem_hopeful.1 hm
    exact ⟨hc, hh, hsound w hw.2⟩

theorem InvE.wigmSurplusStep (hA : LawfulArith A) {s : St α} (h : InvE A s) : InvE A (Droop.wigmSurplusStep A s) := by
  refine ⟨h.1.wigmSurplusStep A hA, ?_⟩
  unfold Droop.wigmSurplusStep
  cases hm : maxVoteOf A s.pendingL with
  | none => exact h.2
  | some hv =>
    simp only
    have hI1 := h.1.breakTie A (s.pendingL.filter (fun c => A.eq c.vote hv)) "Break tie (surplus)"
    have hE1 := EHQ.breakTie A h.2 (s.pendingL.filter (fun c => A.eq c.vote hv)) "Break tie (surplus)"
    have hfr := breakTie_frame A s (s.pendingL.filter (fun c => A.eq c.vote hv)) "Break tie (surplus)"
    have hmem := breakTie_mem A s (s.pendingL.filter (fun c => A.eq c.vote hv)) "Break tie (surplus)"
    cases hb : Droop.breakTie A s (s.pendingL.filter (fun c => A.eq c.vote hv)) "Break tie (surplus)" with
    | mk s1 oc =>
      rw [hb] at hI1 hE1 hfr hmem
      cases oc with
      | none => exact hE1
      | some hc =>
        simp only
        have hcm := hmem hc rfl
        rw [List.mem_filter] at hcm
        obtain ⟨hcs, hce, hcp⟩ := mem_pendingL.1 hcm.1
        obtain ⟨_, _, _, e4, _⟩ := hfr
        have hq : (s1.unpendLog A hc.cid "Transfer high surplus").quota ≤ hc.vote := by
          unfold St.unpendLog; rw [logAct_quota]; simp only at e4
          show s1.quota ≤ _; rw [e4]
          exact h.1.pq hc hcs hce hcp
        exact EHQ.transferSurplus A hA (rewMulDiv A) (rewMulDiv_law A hA) (hI1.unpendLog A hc.cid _) (EHQ.unpendLog A hE1 hc.cid _) hc _ hq

theorem InvE.wigmDefeatStep1 (hA : LawfulArith A) (o : WigmOpts) (hz : o.batchZero = false) {s : St α} (h : InvE A s) :
    InvE A (Droop.wigmDefeatStep A o s) := by
  refine ⟨h.1.wigmDefeatStep1 A hA o hz, ?_⟩
  unfold Droop.wigmDefeatStep
  cases hm : minVoteOf A s.hopeful with
  | none => exact h.2
  | some lv =>
    simp only [hz, Bool.and_false, Bool.false_and, Bool.false_eq_true, if_false]
    have hI1 := h.1.breakTie A (s.hopeful.filter (fun c => A.eq c.vote lv)) "Break tie (defeat)"
    have hE1 := EHQ.breakTie A h.2 (s.hopeful.filter (fun c => A.eq c.vote lv)) "Break tie (defeat)"
    have hfr := breakTie_frame A s (s.hopeful.filter (fun c => A.eq c.vote lv)) "Break tie (defeat)"
    have hmem := breakTie_mem A s (s.hopeful.filter (fun c => A.eq c.vote lv)) "Break tie (defeat)"
    cases hb : Droop.breakTie A s (s.hopeful.filter (fun c => A.eq c.vote lv)) "Break tie (defeat)" with
    | mk s1 oc =>
      rw [hb] at hI1 hE1 hfr hmem
      cases oc with
      | none => exact hE1
      | some lc =>
        simp only
        have hcm := hmem lc rfl
        rw [List.mem_filter] at hcm
        obtain ⟨hcs, hch⟩ := mem_hopeful.1 hcm.1
        obtain ⟨e1, _, _, _, _⟩ := hfr
        have hcs1 : lc ∈ s1.cands := by simp only at e1; rw [e1]; exact hcs
        let x : Cand α := { lc with st := .defeated }
        have hx : x ∈ (s1.defeat A lc.cid "Defeat").cands := by
          unfold St.defeat; rw [logAct_cands]
          exact mem_upd_of_eq (f := fun c => { c with st := .defeated }) hcs1 rfl
        exact EHQ.transferDefeated1 A hA (hI1.defeat A lc.cid _) (EHQ.defeat A hE1 lc.cid _) x _ hx (by simp [x])

theorem InvE.wigmBody (hA : LawfulArith A) (o : WigmOpts) (ho : o.plain) (hex : o.prf = true → A.exact = false)
    {s : St α} (h : InvE A s) : InvE A (Droop.wigmBody A o s).1 := by
  unfold Droop.wigmBody
  have h1 : InvE A (s.newRound A) := ⟨h.1.newRound A, EHQ.newRound A h.2⟩
  have h2 : InvE A (wigmElect A o (s.newRound A)) := by
    unfold wigmElect
    apply h1.electWinners A
    intro c hc
    by_cases hp : o.prf = true
    · simp only [hp, if_true] at hc
      exact hasQuotaGE_sound A hA (hex hp) _ c hc
    · simp only [hp] at hc
      exact hasQuotaX_sound A hA _ c hc
  unfold Droop.wigmAfterElect
  have hsure : wigmSure A o (wigmElect A o (s.newRound A)) = [] := by unfold wigmSure; simp [ho.2]
  simp only [hsure, List.isEmpty_nil, Bool.not_true, Bool.false_eq_true, if_false]
  split
  · exact h2.wigmSurplusStep A hA
  · split
    · exact h2.wigmDefeatStep1 A hA o ho.1
    · exact h2

/-- **C09 (seats never over-committed), wigm / wigm-prf without batch exclusions**: whenever the main loop
    stops, the elected do not exceed the seats — for every input and lawful arithmetic whose quota satisfies the
    Droop condition. -/
theorem wigm_loop_elected_le_seats (hA : LawfulArith A) (o : WigmOpts) (ho : o.plain)
    (hex : o.prf = true → A.exact = false) (s0 s4 : St α)
    (hinit : InvE A (wigmInit A o s0)) (hd : DroopQuota A (wigmInit A o s0))
    (hl : loopN stdGuard (wigmBody A o) (2 * s0.cands.length + 3) (wigmInit A o s0) = some s4) :
    s4.elected.length ≤ s4.seats := by
  have hP := loopN_preserves (fun s => InvE A s ∧ DroopQuota A s) stdGuard (wigmBody A o)
    (fun s hs => ⟨hs.1.wigmBody A hA o ho hex, hs.2.of_frame A (frame_wigmBody A o s)⟩) _ _ _ ⟨hinit, hd⟩ hl
  exact elected_le_seats A hP.1.1 hP.1.2 hP.2

end Droop
