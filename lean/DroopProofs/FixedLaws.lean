import DroopProofs.PyInt

/-! # C12: Fixed arithmetic computes the exact result rounded toward minus infinity (or one unit up) -/
namespace Droop
open Int

/-- the rational number denoted by a Fixed value with `_value = a` at precision `p` -/
def toRatF (p : Nat) (a : Int) : ℚ := (a : ℚ) / (pow10 p : ℚ)

theorem pow10_ne_zero (p : Nat) : (pow10 p : ℚ) ≠ 0 := by
  have := pow10_pos p
  exact_mod_cast (ne_of_gt this)

theorem pow10_posQ (p : Nat) : (0 : ℚ) < (pow10 p : ℚ) := by exact_mod_cast pow10_pos p

theorem fixed_ofInt (p : Nat) (n : Int) : toRatF p ((fixedArith p).ofInt n) = n := by
  simp only [fixedArith, toRatF]
  push_cast
  exact mul_div_cancel_right₀ _ (pow10_ne_zero p)

theorem fixed_add (p : Nat) (a b : Int) : toRatF p ((fixedArith p).add a b) = toRatF p a + toRatF p b := by
  simp [fixedArith, toRatF]; ring

theorem fixed_sub (p : Nat) (a b : Int) : toRatF p ((fixedArith p).sub a b) = toRatF p a - toRatF p b := by
  simp [fixedArith, toRatF]; ring

/-- `a * b` : exact product rounded down to p places -/
theorem fixed_mulV_floor (p : Nat) (a b : Int) :
    (fixedArith p).mulV a b = ⌊toRatF p a * toRatF p b * (pow10 p : ℚ)⌋ := by
  have h := pdiv_eq_floor (a * b) (pow10 p) (ne_of_gt (pow10_pos p))
  simp only [fixedArith]
  rw [h]
  congr 1
  unfold toRatF
  have := pow10_ne_zero p
  push_cast
  field_simp

/-- `a / b` : exact quotient rounded down to p places -/
theorem fixed_divV_floor (p : Nat) (a b : Int) (hb : b ≠ 0) :
    (fixedArith p).divV a b = ⌊toRatF p a / toRatF p b * (pow10 p : ℚ)⌋ := by
  have h := pdiv_eq_floor (a * pow10 p) b hb
  simp only [fixedArith, beq_iff_eq, hb, if_false]
  rw [h]
  congr 1
  unfold toRatF
  have := pow10_ne_zero p
  have hbq : (b : ℚ) ≠ 0 := by exact_mod_cast hb
  push_cast
  field_simp

/-- rounding requested explicitly: down = floor; up = floor, plus one unit iff the result is inexact -/
theorem divmodRound_down (num den : Int) (hd : den ≠ 0) :
    divmodRound .down num den = ⌊(num : ℚ) / (den : ℚ)⌋ := by
  simp [divmodRound, hd, pdiv_eq_floor num den hd]

theorem divmodRound_up (num den : Int) (hd : den ≠ 0) :
    divmodRound .up num den =
      if ((⌊(num : ℚ) / (den : ℚ)⌋ : ℤ) : ℚ) = (num : ℚ) / (den : ℚ) then ⌊(num : ℚ) / (den : ℚ)⌋
      else ⌊(num : ℚ) / (den : ℚ)⌋ + 1 := by
  have hz := pmod_eq_zero_iff num den hd
  rw [pdiv_eq_floor num den hd] at hz
  by_cases h : pmod num den = 0
  · have := hz.1 h
    simp [divmodRound, hd, h, this, pdiv_eq_floor num den hd]
  · have hne : ¬ ((⌊(num : ℚ) / (den : ℚ)⌋ : ℤ) : ℚ) = (num : ℚ) / (den : ℚ) := fun e => h (hz.2 e)
    simp [divmodRound, hd, h, hne, pdiv_eq_floor num den hd]

/-- comparisons agree with the exact values -/
theorem fixed_cmp (p : Nat) (a b : Int) :
    ((fixedArith p).cmp a b = -1 ↔ toRatF p a < toRatF p b) ∧
    ((fixedArith p).cmp a b = 0 ↔ toRatF p a = toRatF p b) ∧
    ((fixedArith p).cmp a b = 1 ↔ toRatF p a > toRatF p b) := by
  have hp := pow10_posQ p
  have key : ∀ x y : Int, toRatF p x < toRatF p y ↔ x < y := by
    intro x y; unfold toRatF
    rw [div_lt_div_iff_of_pos_right hp]; exact_mod_cast Iff.rfl
  have keq : ∀ x y : Int, toRatF p x = toRatF p y ↔ x = y := by
    intro x y; unfold toRatF
    rw [div_left_inj' (ne_of_gt hp)]; exact_mod_cast Iff.rfl
  simp only [fixedArith, intCmp, gt_iff_lt]
  rw [key, keq, key]
  refine ⟨?_, ?_, ?_⟩ <;> by_cases h1 : a < b <;> by_cases h2 : a = b <;> simp [h1, h2] <;> omega

end Droop
