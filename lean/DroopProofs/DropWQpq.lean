import DroopProofs.QpqSeats
import DroopProofs.DropW

/-! # C11 for QPQ: a withdrawn candidate is an absent candidate

`dropW` (delete the withdrawn candidates from the candidate list and from every snapshot) commutes with every stage of a QPQ
round, with the start and with the closing stage: the statuses are read through `hopeful` / `elected` / `isHopeful`, which are
blind to withdrawn candidates; the maps over the candidate list keep a withdrawn candidate withdrawn; the tally touches candidates
through updates that keep the status; elections and exclusions address hopeful candidates. -/
namespace Droop
variable {α : Type} [CommRing α] [LinearOrder α] [IsStrictOrderedRing α] (A : Arith α)

def dropQ (q : QSt α) : QSt α := { q with s := dropW q.s }

/-- a map over the candidate list that keeps "withdrawn or not" commutes with the deletion -/
theorem dropW_mapCands (s : St α) (f : Cand α → Cand α) (hf : ∀ c, nonW (f c) = nonW c) :
    dropW ({ s with cands := s.cands.map f } : St α) = { dropW s with cands := (dropW s).cands.map f } := by
  unfold dropW
  simp only
  congr 1
  rw [List.filter_map]
  congr 1
  apply List.filter_congr
  intro c _
  simp only [Function.comp, hf]

theorem dropW_mapBallots (s : St α) (g : Ballot α → Ballot α) : dropW (mapBallots s g) = mapBallots (dropW s) g := rfl

theorem qAdvance_dropW (s : St α) : qAdvance (dropW s) = qAdvance s := by
  funext b
  unfold qAdvance
  rw [isHopeful_fun_dropW]

theorem dropW_unElect (s : St α) : dropW (unElect s) = unElect (dropW s) := by
  unfold unElect
  exact dropW_mapCands s _ (fun c => by
    unfold nonW
    by_cases h : (c.st == CState.elected) = true
    · rw [if_pos h]
      have : c.st = .elected := by simpa using h
      rw [this]; rfl
    · rw [if_neg h])

theorem dropW_qR1 (q : QSt α) : dropW (qR1 A q) = qR1 A (dropQ q) := by
  unfold qR1; exact dropW_newRound A q.s

theorem dropW_qRestart (s : St α) : dropW (qRestart A s) = qRestart A (dropW s) := by
  have e : qAdvance (unElect (dropW s)) = qAdvance (unElect s) := by rw [← dropW_unElect, qAdvance_dropW]
  unfold qRestart
  rw [dropW_mapBallots, dropW_unElect, e]

theorem dropW_qR2 (q : QSt α) : dropW (qR2 A q) = qR2 A (dropQ q) := by
  unfold qR2
  have : (dropQ q).restart = q.restart := rfl
  rw [this]
  split
  · rw [dropW_qRestart, dropW_qR1]
  · exact dropW_qR1 A q

theorem dropW_qR3 (q : QSt α) : dropW (qR3 A q) = qR3 A (dropQ q) := by
  unfold qR3
  rw [dropW_mapCands _ _ (fun c => by unfold nonW; split <;> rfl), dropW_qR2]

theorem qTally_dropQ (acc : QSt α) (b : Ballot α) : qTally A (dropQ acc) b = dropQ (qTally A acc b) := by
  unfold qTally dropQ
  split
  · rfl
  · simp only
    rw [dropW_upd_keep acc.s _ (fun x => { x with tc := A.add x.tc (A.mulV b.w (A.ofInt b.mult)), vote := A.add x.vote (A.ofInt b.mult) }) (fun _ => rfl)]

theorem foldl_qTally_dropQ (bs : List (Ballot α)) (acc : QSt α) :
    bs.foldl (qTally A) (dropQ acc) = dropQ (bs.foldl (qTally A) acc) := by
  induction bs generalizing acc with
  | nil => rfl
  | cons b bs ih => simp only [List.foldl_cons]; rw [qTally_dropQ, ih]

theorem dropQ_qQ1 (q : QSt α) : dropQ (qQ1 A q) = qQ1 A (dropQ q) := by
  unfold qQ1
  rw [← dropW_qR3]
  have hb : (dropW (qR3 A q)).ballots = (qR3 A q).ballots := rfl
  rw [hb]
  exact (foldl_qTally_dropQ A (qR3 A q).ballots { s := qR3 A q, va := A.zero, tx := A.zero, restart := false }).symm

theorem dropW_qR4 (q : QSt α) : dropW (qR4 A q) = qR4 A (dropQ q) := by
  unfold qR4
  rw [dropW_mapCands _ _ (fun c => by unfold nonW; split <;> rfl), ← dropQ_qQ1]
  rfl

theorem dropW_qR5 (q : QSt α) : dropW (qR5 A q) = qR5 A (dropQ q) := by
  have h4 := dropW_qR4 A q
  have hq : qpqQuota A { qQ1 A (dropQ q) with s := qR4 A (dropQ q) } = qpqQuota A { qQ1 A q with s := qR4 A q } := by
    unfold qpqQuota
    rw [← dropQ_qQ1, ← h4]
    rfl
  unfold qR5
  rw [hq]
  split
  · rw [dropW_setCrash, ← h4]; rfl
  · rw [← h4]; rfl

theorem dropW_qElected {s6 : St α} (hwf : s6.WF) (hc : Cand α) (h : NonWId s6 hc.cid) :
    dropW (qElected A s6 hc) = qElected A (dropW s6) hc := by
  unfold qElected
  split
  · rw [dropW_setCrash, dropW_elect A hwf h]
  · exact dropW_elect A hwf h _ _

theorem qDecide_dropW (q1 : QSt α) (s5 : St α) (hwf : s5.WF) :
    qDecide A (dropQ q1) (dropW s5) = (dropQ (qDecide A q1 s5).1, (qDecide A q1 s5).2) := by
  unfold qDecide
  rw [hopeful_dropW]
  cases hh : s5.hopeful with
  | nil =>
    simp only
    rw [← dropW_setCrash]; rfl
  | cons hd hs =>
    simp only
    by_cases hg : A.gt (A.pyMax (qQuot A hd) (hs.map (qQuot A))) s5.quota = true
    · rw [if_pos (show A.gt (A.pyMax (qQuot A hd) (hs.map (qQuot A))) (dropW s5).quota = true from hg), if_pos hg]
      rw [dropW_breakTie]
      have hfr := (breakTie_frame A s5 (List.filter (fun c => A.eq (qQuot A c) (A.pyMax (qQuot A hd) (hs.map (qQuot A)))) (hd :: hs))
        "Break tie by lot (largest quotient)").1
      have hmem := breakTie_mem A s5 (List.filter (fun c => A.eq (qQuot A c) (A.pyMax (qQuot A hd) (hs.map (qQuot A)))) (hd :: hs))
        "Break tie by lot (largest quotient)"
      cases hb : breakTie A s5 (List.filter (fun c => A.eq (qQuot A c) (A.pyMax (qQuot A hd) (hs.map (qQuot A)))) (hd :: hs))
          "Break tie by lot (largest quotient)" with
      | mk s6 oc =>
        rw [hb] at hfr hmem
        simp only at hfr
        cases oc with
        | none => rfl
        | some hc =>
          simp only
          have hwf6 : s6.WF := by unfold St.WF; rw [hfr]; exact hwf
          have hn6 : NonWId s6 hc.cid := by
            have : hc ∈ s5.hopeful := by rw [hh]; exact (List.mem_filter.1 (hmem hc rfl)).1
            exact nonWId_of_cands (nonWId_of_hopeful this) hfr
          unfold dropQ
          simp only
          have e : qAdvance (qElected A (dropW s6) hc) = qAdvance (qElected A s6 hc) := by
            rw [← dropW_qElected A hwf6 hc hn6, qAdvance_dropW]
          rw [dropW_logAct, dropW_mapBallots, dropW_qElected A hwf6 hc hn6, e]
    · rw [if_neg (show ¬ A.gt (A.pyMax (qQuot A hd) (hs.map (qQuot A))) (dropW s5).quota = true from hg), if_neg hg]
      rw [dropW_breakTie]
      have hfr := (breakTie_frame A s5 (List.filter (fun c => A.eq (qQuot A c) (A.pyMin (qQuot A hd) (hs.map (qQuot A)))) (hd :: hs))
        "Break tie by lot (smallest quotient)").1
      have hmem := breakTie_mem A s5 (List.filter (fun c => A.eq (qQuot A c) (A.pyMin (qQuot A hd) (hs.map (qQuot A)))) (hd :: hs))
        "Break tie by lot (smallest quotient)"
      cases hb : breakTie A s5 (List.filter (fun c => A.eq (qQuot A c) (A.pyMin (qQuot A hd) (hs.map (qQuot A)))) (hd :: hs))
          "Break tie by lot (smallest quotient)" with
      | mk s6 oc =>
        rw [hb] at hfr hmem
        simp only at hfr
        cases oc with
        | none => rfl
        | some lc =>
          simp only
          have hwf6 : s6.WF := by unfold St.WF; rw [hfr]; exact hwf
          have hn6 : NonWId s6 lc.cid := by
            have : lc ∈ s5.hopeful := by rw [hh]; exact (List.mem_filter.1 (hmem lc rfl)).1
            exact nonWId_of_cands (nonWId_of_hopeful this) hfr
          unfold dropQ
          simp only
          have e : qAdvance ((dropW s6).defeat A lc.cid "Defeat low quotient") = qAdvance (s6.defeat A lc.cid "Defeat low quotient") := by
            rw [← dropW_defeat A hwf6 hn6, qAdvance_dropW]
          rw [dropW_logAct, dropW_mapBallots, dropW_defeat A hwf6 hn6, e]

/-- **one round commutes with the deletion** -/
theorem qpqBody_dropQ (q : QSt α) (hwf : q.s.WF) :
    qpqBody A (dropQ q) = (dropQ (qpqBody A q).1, (qpqBody A q).2) := by
  rw [qpqBody_eq, qpqBody_eq, ← dropQ_qQ1, ← dropW_qR5]
  have h5 : stsig (qR5 A q) = stsig (qR2 A q) := (qR5_stsig A q).1
  exact qDecide_dropW A (qQ1 A q) (qR5 A q) (WF_of_stsig h5 ((qR2_fwd A q).WF hwf))

theorem complete_dropW (s : St α) : qpqCountComplete (dropW s) = qpqCountComplete s := by
  unfold qpqCountComplete
  rw [hopeful_dropW, seatsLeft_dropW]

theorem qpqLoop_dropQ : ∀ (fuel : Nat) (q : QSt α), q.s.WF → qpqLoop A fuel (dropQ q) = (qpqLoop A fuel q).map dropQ := by
  intro fuel
  induction fuel with
  | zero => intro q _; rfl
  | succ n ih =>
    intro q hwf
    unfold qpqLoop
    have hc : (dropQ q).s.crash = q.s.crash := rfl
    have hg : qpqCountComplete (dropQ q).s = qpqCountComplete q.s := complete_dropW q.s
    rw [hc, hg]
    split
    · rfl
    · split
      · rw [qpqBody_dropQ A q hwf]
        have hwf' : (qpqBody A q).1.s.WF := (qpqBody_fwd A q hwf).WF hwf
        cases hq : qpqBody A q with
        | mk q' fl =>
          rw [hq] at hwf'
          cases fl with
          | cont => exact ih q' hwf'
          | brk => rfl
      · rfl

theorem dropW_qS1 (s0 : St α) : dropW (qS1 A s0) = qS1 A (dropW s0) := by
  unfold qS1
  exact dropW_mapCands s0 _ (fun c => by unfold nonW; split <;> rfl)

theorem dropQ_qpqStart (s0 : St α) : dropQ (qpqStart A s0) = qpqStart A (dropW s0) := by
  have hva : qVA A (dropW s0) = qVA A s0 := by unfold qVA; rw [← dropW_qS1]; rfl
  unfold qpqStart dropQ
  simp only
  rw [hva, dropW_logAct, dropW_mapBallots]
  have hq : (qpqQuota A { s := qS1 A (dropW s0), va := qVA A s0, tx := A.zero, restart := true }).1
      = (qpqQuota A { s := qS1 A s0, va := qVA A s0, tx := A.zero, restart := true }).1 := by
    unfold qpqQuota
    rw [← dropW_qS1]; rfl
  rw [hq, ← dropW_qS1]
  rfl

theorem dropW_qpqFinish (q : QSt α) (hwf : q.s.WF) : dropW (qpqFinish A q) = qpqFinish A (dropQ q) := by
  unfold qpqFinish
  have hc : (dropQ q).s.crash = q.s.crash := rfl
  rw [hc]
  split
  · rfl
  · simp only
    have hh : (dropQ q).s.hopeful = q.s.hopeful := hopeful_dropW q.s
    have hl : (dropQ q).s.seatsLeft = q.s.seatsLeft := seatsLeft_dropW q.s
    rw [hh, hl]
    have h4 : dropW (if decide ((q.s.hopeful.length : Int) ≤ q.s.seatsLeft) then
                q.s.hopeful.foldl (fun acc c => acc.elect A c.cid "Elect remaining candidates" false) q.s else q.s)
        = (if decide ((q.s.hopeful.length : Int) ≤ q.s.seatsLeft) then
                q.s.hopeful.foldl (fun acc c => acc.elect A c.cid "Elect remaining candidates" false) (dropQ q).s else (dropQ q).s) := by
      split
      · exact dropW_foldElect A q.s.hopeful (fun _ => "Elect remaining candidates") (fun _ => false) hwf
          (fun w hw => nonWId_of_hopeful hw)
      · rfl
    rw [← h4]
    have hwf4 : (if decide ((q.s.hopeful.length : Int) ≤ q.s.seatsLeft) then
                q.s.hopeful.foldl (fun acc c => acc.elect A c.cid "Elect remaining candidates" false) q.s else q.s).WF := by
      split
      · exact (foldElect_fwd A true _ _ _ (allHop_hopeful hwf)).WF hwf
      · exact hwf
    rw [hopeful_dropW]
    exact dropW_foldDefeat A _ (fun _ => "Defeat remaining candidates") hwf4 (fun w hw => nonWId_of_hopeful hw)

/-- **C11 for QPQ**: counting the state with the withdrawn candidates deleted gives the count of the full state with the
    withdrawn candidates deleted — from the candidate list and from every snapshot of the record -/
theorem qpq_dropW_fuel (s0 : St α) (hwf : s0.WF) (fuel : Nat) :
    (qpqLoop A fuel (qpqStart A (dropW s0))).map (qpqFinish A) = ((qpqLoop A fuel (qpqStart A s0)).map (qpqFinish A)).map dropW := by
  rw [← dropQ_qpqStart]
  have hwf1 : (qpqStart A s0).s.WF := WF_of_stsig (qpqStart_stsig A s0) hwf
  rw [qpqLoop_dropQ A fuel _ hwf1]
  cases hl : qpqLoop A fuel (qpqStart A s0) with
  | none => rfl
  | some r =>
    simp only [Option.map_some]
    have hwfr : r.s.WF := (qpqLoop_fwd A fuel _ r hwf1 hl).WF hwf1
    rw [dropW_qpqFinish A r hwfr]

theorem qpqLoop_succ : ∀ (fuel : Nat) (q r : QSt α), qpqLoop A fuel q = some r → qpqLoop A (fuel + 1) q = some r := by
  intro fuel
  induction fuel with
  | zero => intro q r h; cases h
  | succ n ih =>
    intro q r h
    unfold qpqLoop at h ⊢
    split
    · rename_i hc; rw [if_pos hc] at h; exact h
    · rename_i hc
      rw [if_neg hc] at h
      split
      · rename_i hg
        rw [if_pos hg] at h
        cases hq : qpqBody A q with
        | mk q' fl =>
          rw [hq] at h
          cases fl with
          | cont => exact ih q' r h
          | brk => exact h
      · rename_i hg; rw [if_neg hg] at h; exact h

theorem qpqLoop_le (f f' : Nat) (hle : f' ≤ f) (q r : QSt α) (h : qpqLoop A f' q = some r) : qpqLoop A f q = some r := by
  obtain ⟨k, rfl⟩ := Nat.exists_eq_add_of_le hle
  induction k with
  | zero => exact h
  | succ k ih => exact qpqLoop_succ A _ q r (ih (Nat.le_add_right _ _))

theorem WF_dropW' {s : St α} (hwf : s.WF) : (dropW s).WF := by
  unfold St.WF dropW at *
  exact List.Nodup.sublist ((List.filter_sublist).map _) hwf

/-- **C11 for QPQ**: counting the state with the withdrawn candidates deleted gives the count of the full state with the
    withdrawn candidates deleted — from the candidate list and from every snapshot of the record -/
theorem qpq_dropW (s0 : St α) (hwf : s0.WF) : qpqCount A (dropW s0) = (qpqCount A s0).map dropW := by
  have hwfd : (dropW s0).WF := WF_dropW' hwf
  obtain ⟨t', ht'⟩ := qpqCount_terminates A (dropW s0) hwfd
  rw [ht']
  rw [qpqCount_eq] at ht' ⊢
  have hlen : (dropW s0).cands.length ≤ s0.cands.length := by
    unfold dropW; exact List.length_filter_le _ _
  have hfuel : (dropW s0).cands.length * ((dropW s0).cands.length + 2) + 3 ≤ s0.cands.length * (s0.cands.length + 2) + 3 := by
    have := Nat.mul_le_mul hlen (Nat.add_le_add_right hlen 2)
    omega
  cases hl : qpqLoop A ((dropW s0).cands.length * ((dropW s0).cands.length + 2) + 3) (qpqStart A (dropW s0)) with
  | none => rw [hl] at ht'; cases ht'
  | some r' =>
    rw [hl] at ht'
    have hbig := qpqLoop_le A _ _ hfuel _ r' hl
    have := qpq_dropW_fuel A s0 hwf (s0.cands.length * (s0.cands.length + 2) + 3)
    rw [hbig] at this
    rw [← this]
    exact ht'.symm

end Droop
