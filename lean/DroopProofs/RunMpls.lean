import DroopProofs.RunWigm
import DroopProofs.InvMpls

/-! # Minneapolis at run level, for profiles without undeclared write-ins: termination, seats, forward-only record

With undeclared write-ins the ordinance's round 2 removes candidates regardless of the seats, and a profile with fewer declared
candidates than seats ends in `postCheck` (known finding F7); the theorems here take `NoUnd`. -/
namespace Droop
variable {α : Type} [CommRing α] [LinearOrder α] [IsStrictOrderedRing α] (A : Arith α)

/-! ## no undeclared write-ins: a property of the candidate list that no step changes -/
def NoUnd (s : St α) : Prop := ∀ c ∈ s.cands, c.undeclared = false

theorem NoUnd.of_skel {s t : St α} (h : NoUnd s) (hsk : t.skel = s.skel) : NoUnd t := by
  intro c hc
  obtain ⟨c0, hc0, hsk0⟩ := mem_of_skel_eq hsk hc
  have : c0.undeclared = c.undeclared := by
    unfold Cand.skel at hsk0; simp only [Prod.mk.injEq] at hsk0; exact hsk0.2.2.2.1
  rw [← this]; exact h c0 hc0

theorem NoUnd.of_cands {s t : St α} (h : NoUnd s) (hc : t.cands = s.cands) : NoUnd t := by
  intro c hc'; rw [hc] at hc'; exact h c hc'

theorem NoUnd.upd {s : St α} (h : NoUnd s) (cid : Nat) (f : Cand α → Cand α) (hf : ∀ c, (f c).undeclared = c.undeclared) :
    NoUnd (s.upd cid f) := by
  intro c' hc'
  obtain ⟨c, hc, rfl⟩ := mem_upd.1 hc'
  split
  · rw [hf]; exact h c hc
  · exact h c hc

theorem NoUnd.logAct {s : St α} (h : NoUnd s) (tag verb : String) (subj : List Nat) : NoUnd (s.logAct A tag verb subj) :=
  h.of_cands (logAct_cands A s tag verb subj)

theorem NoUnd.elect {s : St α} (h : NoUnd s) (cid : Nat) (verb : String) (p : Bool) : NoUnd (s.elect A cid verb p) := by
  unfold St.elect
  exact (h.upd cid (fun c => { c with st := .elected, pending := p }) (fun _ => rfl)).logAct A _ _ _

theorem NoUnd.defeat {s : St α} (h : NoUnd s) (cid : Nat) (verb : String) : NoUnd (s.defeat A cid verb) := by
  unfold St.defeat
  exact (h.upd cid (fun c => { c with st := .defeated }) (fun _ => rfl)).logAct A _ _ _

theorem NoUnd.foldl {β : Type} (f : St α → β → St α) (hf : ∀ s x, NoUnd s → NoUnd (f s x)) (l : List β) {s : St α}
    (h : NoUnd s) : NoUnd (l.foldl f s) := by
  induction l generalizing s with
  | nil => exact h
  | cons x xs ih => simp only [List.foldl_cons]; exact ih (hf s x h)

theorem foldl_congr_mem {β : Type} (f g : St α → β → St α) (l : List β) (s : St α)
    (h : ∀ x ∈ l, ∀ acc, f acc x = g acc x) : l.foldl f s = l.foldl g s := by
  induction l generalizing s with
  | nil => rfl
  | cons x xs ih =>
    simp only [List.foldl_cons]
    rw [h x (by simp) s]
    exact ih _ (fun y hy acc => h y (by simp [hy]) acc)

/-! ## the certain-loser search leaves enough candidates -/
theorem mplsCertainLosers_go_bound (surplus : α) (sorted : List (Cand α)) (maxDefeat : Int) :
    ∀ (fuel cx : Nat) (vote : α) (losers : List (Cand α)), (losers = [] ∨ (losers.length : Int) ≤ maxDefeat) →
      (mplsCertainLosers.go A surplus sorted maxDefeat cx fuel vote losers = []
        ∨ ((mplsCertainLosers.go A surplus sorted maxDefeat cx fuel vote losers).length : Int) ≤ maxDefeat) := by
  intro fuel
  induction fuel with
  | zero => intro cx vote losers hl; unfold mplsCertainLosers.go; exact hl
  | succ n ih =>
    intro cx vote losers hl
    unfold mplsCertainLosers.go
    dsimp only
    split
    · exact hl
    · rename_i hlt
      split
      · split
        · exact hl
        · rename_i hmax
          apply ih
          split
          · right
            have : (sorted.take (cx + 1)).length = cx + 1 := by rw [List.length_take]; omega
            rw [this]; omega
          · exact hl
      · exact hl

theorem mplsDefeatSet_bound {s : St α} (hnu : NoUnd s) (hne : mplsDefeatSet A s ≠ []) :
    ((mplsDefeatSet A s).length : Int) ≤ (s.hopeful.length : Int) - s.seatsLeft := by
  have hund : s.hopeful.filter (·.undeclared) = [] := by
    rw [List.filter_eq_nil_iff]
    intro c hc
    have := hnu c (mem_hopeful.1 hc).1
    simp [this]
  unfold mplsDefeatSet at hne ⊢
  simp only [hund, ite_self, List.nil_append, List.any_nil, Bool.not_false, List.filter_true] at hne ⊢
  generalize (A.add s.surplus (if (s.round == 2) = true then
      A.sum ((s.ballots.filter (fun b => match b.top with
                                         | some c => s.isUndeclared c
                                         | none => false)).map (bvote A)) else A.zero)) = sp at hne ⊢
  unfold mplsCertainLosers at hne ⊢
  dsimp only at hne ⊢
  have hlen := (pySorted_perm (fun a b : Cand α => a.order < b.order) false
    (mplsCertainLosers.go A sp (byVote A false s.hopeful) ((s.hopeful.length : Int) - s.seatsLeft) 0
      (byVote A false s.hopeful).length A.zero [])).length_eq
  unfold byBallotOrder at hne ⊢
  rcases mplsCertainLosers_go_bound A sp (byVote A false s.hopeful) ((s.hopeful.length : Int) - s.seatsLeft)
    (byVote A false s.hopeful).length 0 A.zero [] (Or.inl rfl) with h | h
  · exfalso; apply hne; rw [h]; rfl
  · rw [hlen]; exact h

/-! ## the three ways mpls wraps a transfer: core, reporting surplus, log -/

/-- a bundle of the state facts that the run-level argument threads through every step -/
structure Step (s t : St α) : Prop where
  ehq : ElectedHoldQuota s → ElectedHoldQuota t
  mon : Mon s → Mon t
  frame : Frame s t
  ext : Ext s t
  mu : mu t = mu s
  sumHE : sumHE t = sumHE s
  nound : NoUnd s → NoUnd t
  crash : t.crash = s.crash

theorem Step.trans {s t r : St α} (h1 : Step s t) (h2 : Step t r) : Step s r :=
  ⟨fun h => h2.ehq (h1.ehq h), fun h => h2.mon (h1.mon h), h1.frame.trans h2.frame, h1.ext.trans h2.ext,
   h2.mu.trans h1.mu, h2.sumHE.trans h1.sumHE, fun h => h2.nound (h1.nound h), h2.crash.trans h1.crash⟩

theorem step_logAct (s : St α) (tag verb : String) (subj : List Nat) : Step s (s.logAct A tag verb subj) :=
  ⟨fun h => EHQ.logAct A h _ _ _, fun h => h.logAct A _ _ _, frame_logAct A s _ _ _, ext_logAct A s _ _ _,
   mu_logAct A s _ _ _, sumHE_logAct A s _ _ _, fun h => h.logAct A _ _ _, crash_logAct A s _ _ _⟩

theorem step_setSurplus (s : St α) (v : α) : Step s (s.setSurplus v) :=
  ⟨fun h => EHQ.setSurplus h v, fun h => h.setSurplus v, frame_setSurplus s v, ext_setSurplus s v,
   mu_setSurplus s v, sumHE_setSurplus s v, fun h => h.of_cands rfl, rfl⟩

theorem step_newRound (s : St α) : Step s (s.newRound A) :=
  ⟨fun h => EHQ.newRound A h, fun h => h.newRound A, frame_newRound A s, ext_newRound A s,
   mu_newRound A s, sumHE_newRound A s, fun h => by
     unfold St.newRound
     exact (NoUnd.of_cands (t := { s with round := s.round + 1 }) h rfl).logAct A _ _ _,
   by unfold St.newRound; rw [crash_logAct]⟩

theorem step_mplsLogTransfer (s : St α) (verb : String) (subj : List Nat) : Step s (mplsLogTransfer A s verb subj) := by
  unfold mplsLogTransfer
  exact (step_setSurplus s _).trans (step_logAct A _ _ _ _)

theorem step_mplsCountVotes (s : St α) : Step s (mplsCountVotes A s) := by
  unfold mplsCountVotes
  exact (step_setSurplus s _).trans (step_logAct A _ _ _ _)

theorem crash_transferAll (s : St α) (cids : List Nat) (rew : α → α) : (transferAll A s cids rew).crash = s.crash := by
  have key : ∀ (bs : List (Ballot α)) (acc : St α × List (Ballot α)), (bs.foldl (tstep A cids rew) acc).1.crash = acc.1.crash := by
    intro bs; induction bs with
    | nil => intro acc; rfl
    | cons b bs ih =>
      intro acc; simp only [List.foldl_cons]; rw [ih]
      unfold tstep; split
      · split
        · unfold transferBallot; split <;> rfl
        · rfl
      · rfl
  have := key s.ballots (s, []); simpa [transferAll] using this

/-- the exclusion core: ballots of not-elected candidates `cids` moved on, their tallies zeroed -/
theorem step_defeatedCore (hA : LawfulArith A) {s : St α} (hI : Inv A s) (cids : List Nat)
    (hne : ∀ cid ∈ cids, ∀ c ∈ s.cands, c.cid = cid → c.st ≠ .elected) : Step s (defeatedCore A s cids) := by
  unfold defeatedCore
  have hsk : (cids.foldl (fun acc c => acc.setVote c A.zero) (transferAll A s cids id)).skel = s.skel := by
    have : ∀ (l : List Nat) (t : St α), (l.foldl (fun acc c => acc.setVote c A.zero) t).skel = t.skel := by
      intro l; induction l with
      | nil => intro t; rfl
      | cons c cs ih => intro t; simp only [List.foldl_cons]; rw [ih, setVote_skel]
    rw [this, transferAll_skel]
  refine ⟨?_, ?_, ?_, ?_, ?_, ?_, fun h => h.of_skel hsk, ?_⟩
  · intro h
    apply EHQ.foldSetVote A cids (EHQ.transferAll A hA hI h cids id (fun b hb => hI.wpos b hb))
    intro cid hcid
    exact nonElected_of_skel (transferAll_skel A s cids id) (hne cid hcid)
  · intro h; exact Mon.foldSetVote A cids (h.transferAll A _ _)
  · exact (frame_transferAll A s cids id).trans
      (frame_foldl (fun (acc : St α) (c : Nat) => acc.setVote c A.zero) (fun _ _ => ⟨rfl, rfl, rfl⟩) cids _)
  · exact (ext_transferAll A s cids id).trans
      (ext_foldl (fun (acc : St α) (c : Nat) => acc.setVote c A.zero) (fun t c => ext_setVote t c _) cids _)
  · rw [mu_foldl_setVote, mu_transferAll]
  · rw [sumHE_foldl_setVote]; exact sumHE_of_skel (transferAll_skel A s cids id)
  · have : ∀ (l : List Nat) (t : St α), (l.foldl (fun acc c => acc.setVote c A.zero) t).crash = t.crash := by
      intro l; induction l with
      | nil => intro t; rfl
      | cons c cs ih => intro t; simp only [List.foldl_cons]; rw [ih]; rfl
    rw [this, crash_transferAll]

/-- the surplus core: ballots of `x` re-weighted and moved on, `x`'s tally set to the quota it holds -/
theorem step_surplusCore (hA : LawfulArith A) (rew0 : α → α → α → α) (hrew0 : RewLaw rew0) {s : St α} (hI : Inv A s)
    (x : Cand α) (hq : s.quota ≤ x.vote) : Step s (surplusCore A s x rew0) := by
  unfold surplusCore
  simp only [hA.sub_eq]
  have hv : 0 < x.vote := lt_of_lt_of_le hI.qpos hq
  have hsur : 0 ≤ x.vote - s.quota := sub_nonneg.2 hq
  have hr : ∀ b ∈ s.ballots, 0 ≤ rew0 b.w (x.vote - s.quota) x.vote :=
    fun b hb => (hrew0 b.w _ _ (hI.wpos b hb) hsur hv).1
  have hsk : ((transferAll A s [x.cid] (fun w => rew0 w (x.vote - s.quota) x.vote)).setVote x.cid
      (transferAll A s [x.cid] (fun w => rew0 w (x.vote - s.quota) x.vote)).quota).skel = s.skel := by
    rw [setVote_skel, transferAll_skel]
  refine ⟨?_, ?_, ?_, ?_, ?_, ?_, fun h => h.of_skel hsk, ?_⟩
  · intro h
    have := EHQ.transferAll_setVote A hA hI h [x.cid] (fun w => rew0 w (x.vote - s.quota) x.vote) hr x.cid s.quota (le_refl _)
    rw [transferAll_quota]; exact this
  · intro h; exact (h.transferAll A _ _).setVote _ _
  · exact (frame_transferAll A s _ _).trans ⟨rfl, rfl, rfl⟩
  · exact (ext_transferAll A s _ _).trans (ext_setVote _ _ _)
  · exact (mu_of_skel (setVote_skel _ _ _)).trans (mu_transferAll A s _ _)
  · exact (sumHE_of_skel (setVote_skel _ _ _)).trans (sumHE_of_skel (transferAll_skel A s _ _))
  · show (transferAll A s _ _).crash = _
    exact crash_transferAll A s _ _

/-! ## the steps of a Minneapolis round -/
def MplsInv (s : St α) : Prop := InvE A s ∧ Mon s ∧ DroopQuota A s ∧ s.seats ≤ sumHE s ∧ NoUnd s

theorem mplsDefeatMany_spec (hA : LawfulArith A) {s : St α} (h : MplsInv A s) (l : List (Cand α))
    (hsub : ∀ w ∈ l, w ∈ s.hopeful) (hnd : (l.map (·.cid)).Nodup) (hne : l ≠ [])
    (hb : (l.length : Int) ≤ (s.hopeful.length : Int) - s.seatsLeft) (hle : nEl s ≤ s.seats) :
    MplsInv A (mplsDefeatMany A s l).1 ∧ Ext s (mplsDefeatMany A s l).1 ∧ mu (mplsDefeatMany A s l).1 < mu s := by
  obtain ⟨hE, hM, hD, hJ, hNU⟩ := h
  have hI := hE.1.mplsDefeatMany A hA l hsub hnd
  unfold mplsDefeatMany at hI ⊢
  have hfold : l.foldl (fun acc c => acc.defeat A c.cid (mplsDefeatVerb c)) s
      = l.foldl (fun acc c => acc.defeat A c.cid "Defeat certain loser") s := by
    apply foldl_congr_mem
    intro c hc acc
    have : c.undeclared = false := hNU c (mem_hopeful.1 (hsub c hc)).1
    unfold mplsDefeatVerb; rw [this]; rfl
  rw [hfold] at hI ⊢
  obtain ⟨a1, a2, _, a4, a5, a6, a7, a8, _, a10⟩ := defeatMany_spec A hE hM l l "Defeat certain loser"
    (List.Perm.refl _) hnd hsub
  have hnu1 : NoUnd (l.foldl (fun acc c => acc.defeat A c.cid "Defeat certain loser") s) :=
    NoUnd.foldl (fun (acc : St α) (c : Cand α) => acc.defeat A c.cid "Defeat certain loser")
      (fun t c ht => ht.defeat A c.cid _) l hNU
  generalize l.foldl (fun acc c => acc.defeat A c.cid "Defeat certain loser") s = s1 at *
  have hst := (step_defeatedCore A hA a1.1 (l.map (·.cid)) a4).trans (step_mplsLogTransfer A _ "Transfer defeated" (l.map (·.cid)))
  dsimp only at hI ⊢
  unfold defeatedCore at hst
  have hpos : 0 < l.length := List.length_pos_of_ne_nil hne
  refine ⟨⟨⟨hI, hst.ehq a1.2⟩, hst.mon a2, hD.of_frame A (a7.trans hst.frame), ?_, hst.nound hnu1⟩,
    a8.trans hst.ext, ?_⟩
  · rw [hst.frame.2.1, hst.sumHE, a7.2.1]
    unfold sumHE St.seatsLeft nHop nEl at *; omega
  · rw [hst.mu]; omega

theorem mplsElectSurplus_spec (hA : LawfulArith A) (hex : A.exact = false) {s : St α} (h : MplsInv A s)
    (hwq : List (Cand α)) (hv : α) (hsub : ∀ w ∈ hwq, w ∈ s.hopeful ∧ hasQuotaGE A s w = true) :
    MplsInv A (mplsElectSurplus A s hwq hv).1 ∧ Ext s (mplsElectSurplus A s hwq hv).1
    ∧ ((mplsElectSurplus A s hwq hv).2 = .cont → mu (mplsElectSurplus A s hwq hv).1 < mu s)
    ∧ ((mplsElectSurplus A s hwq hv).2 = .brk → (mplsElectSurplus A s hwq hv).1.crash.isSome = true) := by
  obtain ⟨hE, hM, hD, hJ, hNU⟩ := h
  have hI := hE.1.mplsElectSurplus A hA hex hwq hv hsub
  unfold mplsElectSurplus at hI ⊢
  have hI1 := hE.1.breakTie A (hwq.filter (fun c => A.eq c.vote hv)) "Break tie (largest surplus)"
  have hE1 := EHQ.breakTie A hE.2 (hwq.filter (fun c => A.eq c.vote hv)) "Break tie (largest surplus)"
  have hM1 := hM.breakTie A (hwq.filter (fun c => A.eq c.vote hv)) "Break tie (largest surplus)"
  have hF1 := frame_breakTie A s (hwq.filter (fun c => A.eq c.vote hv)) "Break tie (largest surplus)"
  have hX1 := ext_breakTie A s (hwq.filter (fun c => A.eq c.vote hv)) "Break tie (largest surplus)"
  have hmu1 := mu_breakTie A s (hwq.filter (fun c => A.eq c.vote hv)) "Break tie (largest surplus)"
  have hS1 := sumHE_breakTie A s (hwq.filter (fun c => A.eq c.vote hv)) "Break tie (largest surplus)"
  have hfr := breakTie_frame A s (hwq.filter (fun c => A.eq c.vote hv)) "Break tie (largest surplus)"
  have hmem := breakTie_mem A s (hwq.filter (fun c => A.eq c.vote hv)) "Break tie (largest surplus)"
  have hnone := breakTie_none_crash A s (hwq.filter (fun c => A.eq c.vote hv)) "Break tie (largest surplus)"
  have hNU1 : NoUnd (breakTie A s (hwq.filter (fun c => A.eq c.vote hv)) "Break tie (largest surplus)").1 :=
    hNU.of_cands hfr.1
  cases hb : Droop.breakTie A s (hwq.filter (fun c => A.eq c.vote hv)) "Break tie (largest surplus)" with
  | mk s3 oc =>
    rw [hb] at hI hI1 hE1 hM1 hF1 hX1 hmu1 hS1 hfr hmem hnone hNU1
    dsimp only at hI1 hE1 hM1 hF1 hX1 hmu1 hS1 hNU1
    cases oc with
    | none =>
      dsimp only at hI ⊢
      refine ⟨⟨⟨hI1, hE1⟩, hM1, hD.of_frame A hF1, ?_, hNU1⟩, hX1, ?_, fun _ => hnone rfl⟩
      · rw [hF1.2.1, hS1]; exact hJ
      · intro hc; cases hc
    | some hc =>
      dsimp only at hI ⊢
      have hcm := hmem hc rfl
      rw [List.mem_filter] at hcm
      obtain ⟨hch, hcq⟩ := hsub hc hcm.1
      obtain ⟨hcs, hchop⟩ := mem_hopeful.1 hch
      obtain ⟨e1, e2, e3, e4, e5⟩ := hfr
      have hcs3 : hc ∈ s3.cands := by simp only at e1; rw [e1]; exact hcs
      have hq3 : s3.quota ≤ hc.vote := by
        simp only at e4; rw [e4]; exact hasQuotaGE_sound A hA hex s hc hcq
      have huniq : ∀ c ∈ s3.cands, c.cid = hc.cid → c = hc := fun c hc' hcc => nodup_cid_eq hI1.wf hc' hcs3 hcc
      -- elect (no transfer pending)
      have h4I := hI1.electNP A hc.cid "Elect"
      have h4E : ElectedHoldQuota (s3.elect A hc.cid "Elect" false) :=
        EHQ.elect A hE1 hc.cid "Elect" false (fun c hc' hcc => by rw [huniq c hc' hcc]; exact hq3)
      have h4M : Mon (s3.elect A hc.cid "Elect" false) :=
        hM1.elect A hc.cid "Elect" false (fun c hc' hcc => by rw [huniq c hc' hcc]; exact hchop)
      have hcnt := counts_elect A s3 hc "Elect" false hI1.wf hcs3 hchop
      have hmu4 := mu_elect_lt A s3 hc "Elect" false hI1.wf hcs3 hchop
      have hq4 : (s3.elect A hc.cid "Elect" false).quota ≤ hc.vote := by
        unfold St.elect; rw [logAct_quota]; exact hq3
      have hst := (step_surplusCore A hA (rewMulDiv A) (rewMulDiv_law A hA) h4I hc hq4).trans
        (step_mplsLogTransfer A _ "Transfer surplus" [hc.cid])
      unfold surplusCore at hst
      refine ⟨⟨⟨hI, hst.ehq h4E⟩, hst.mon h4M,
        hD.of_frame A (hF1.trans ((frame_elect A s3 hc.cid "Elect" false).trans hst.frame)), ?_,
        hst.nound (hNU1.elect A hc.cid "Elect" false)⟩,
        hX1.trans ((ext_elect A s3 hc.cid "Elect" false).trans hst.ext), ?_, ?_⟩
      · rw [hst.frame.2.1, hst.sumHE, (frame_elect A s3 hc.cid "Elect" false).2.1, hF1.2.1]
        unfold sumHE at hS1 hJ ⊢; omega
      · intro _; rw [hst.mu]; omega
      · intro hc'; cases hc'

theorem mplsDefeatLow_spec (hA : LawfulArith A) {s : St α} (h : MplsInv A s) :
    MplsInv A (mplsDefeatLow A s) ∧ Ext s (mplsDefeatLow A s)
    ∧ ((s.hopeful.length : Int) > s.seatsLeft → mu (mplsDefeatLow A s) < mu s ∨ (mplsDefeatLow A s).crash.isSome = true)
    ∧ (¬ ((s.hopeful.length : Int) > s.seatsLeft) → mplsDefeatLow A s = s) := by
  obtain ⟨hE, hM, hD, hJ, hNU⟩ := h
  have hI := hE.1.mplsDefeatLow A hA
  have hel : nEl s ≤ s.seats := elected_le_seats A hE.1 hE.2 hD
  unfold mplsDefeatLow at hI ⊢
  by_cases hg : ((s.hopeful.length : Int) > s.seatsLeft)
  · have hd : decide ((s.hopeful.length : Int) > s.seatsLeft) = true := by simpa using hg
    rw [if_pos hd] at hI ⊢
    have hhne : s.hopeful ≠ [] := by
      intro e; rw [e] at hg; unfold St.seatsLeft at hg; unfold nEl at hel; simp at hg; omega
    obtain ⟨lv, hm⟩ := minVoteOf_isSome A s.hopeful hhne
    rw [hm] at hI ⊢
    dsimp only at hI ⊢
    have hI1 := hE.1.breakTie A (s.hopeful.filter (fun c => A.eq c.vote lv)) "Break tie (defeat low candidate)"
    have hE1 := EHQ.breakTie A hE.2 (s.hopeful.filter (fun c => A.eq c.vote lv)) "Break tie (defeat low candidate)"
    have hM1 := hM.breakTie A (s.hopeful.filter (fun c => A.eq c.vote lv)) "Break tie (defeat low candidate)"
    have hF1 := frame_breakTie A s (s.hopeful.filter (fun c => A.eq c.vote lv)) "Break tie (defeat low candidate)"
    have hX1 := ext_breakTie A s (s.hopeful.filter (fun c => A.eq c.vote lv)) "Break tie (defeat low candidate)"
    have hmu1 := mu_breakTie A s (s.hopeful.filter (fun c => A.eq c.vote lv)) "Break tie (defeat low candidate)"
    have hS1 := sumHE_breakTie A s (s.hopeful.filter (fun c => A.eq c.vote lv)) "Break tie (defeat low candidate)"
    have hfr := breakTie_frame A s (s.hopeful.filter (fun c => A.eq c.vote lv)) "Break tie (defeat low candidate)"
    have hmem := breakTie_mem A s (s.hopeful.filter (fun c => A.eq c.vote lv)) "Break tie (defeat low candidate)"
    have hnone := breakTie_none_crash A s (s.hopeful.filter (fun c => A.eq c.vote lv)) "Break tie (defeat low candidate)"
    have hNU1 : NoUnd (breakTie A s (s.hopeful.filter (fun c => A.eq c.vote lv)) "Break tie (defeat low candidate)").1 :=
      hNU.of_cands hfr.1
    cases hb : Droop.breakTie A s (s.hopeful.filter (fun c => A.eq c.vote lv)) "Break tie (defeat low candidate)" with
    | mk s1 oc =>
      rw [hb] at hI hI1 hE1 hM1 hF1 hX1 hmu1 hS1 hfr hmem hnone hNU1
      dsimp only at hI1 hE1 hM1 hF1 hX1 hmu1 hS1 hNU1
      cases oc with
      | none =>
        dsimp only at hI ⊢
        refine ⟨⟨⟨hI1, hE1⟩, hM1, hD.of_frame A hF1, ?_, hNU1⟩, hX1, fun _ => Or.inr (hnone rfl), fun hn => absurd hg hn⟩
        rw [hF1.2.1, hS1]; exact hJ
      | some lc =>
        dsimp only at hI ⊢
        have hcm := hmem lc rfl
        rw [List.mem_filter] at hcm
        obtain ⟨hcs, hch⟩ := mem_hopeful.1 hcm.1
        obtain ⟨e1, e2, e3, e4, e5⟩ := hfr
        have hcs1 : lc ∈ s1.cands := by simp only at e1; rw [e1]; exact hcs
        have h4I := hI1.defeat A lc.cid "Defeat low candidate"
        have h4E := EHQ.defeat A hE1 lc.cid "Defeat low candidate"
        have h4M : Mon (s1.defeat A lc.cid "Defeat low candidate") :=
          hM1.defeat A lc.cid _ (fun c hc' hcc => by rw [nodup_cid_eq hI1.wf hc' hcs1 hcc]; exact hch)
        have hcnt := counts_defeat A s1 lc "Defeat low candidate" hI1.wf hcs1 hch
        have hmu4 := mu_defeat_lt A s1 lc "Defeat low candidate" hI1.wf hcs1 hch
        have hF4 := frame_defeat A s1 lc.cid "Defeat low candidate"
        have hX4 := ext_defeat A s1 lc.cid "Defeat low candidate"
        have hNU4 := hNU1.defeat A lc.cid "Defeat low candidate"
        have hJ4 : (s1.defeat A lc.cid "Defeat low candidate").seats ≤ sumHE (s1.defeat A lc.cid "Defeat low candidate") := by
          rw [hF4.2.1, hF1.2.1]
          unfold St.seatsLeft at hg
          unfold sumHE nHop nEl at *
          omega
        unfold mplsAfterDefeatLow at hI ⊢
        split
        · -- the ballots move on
          have hne4 : ∀ cid ∈ [lc.cid], ∀ c ∈ (s1.defeat A lc.cid "Defeat low candidate").cands, c.cid = cid → c.st ≠ .elected := by
            intro cid hcid c hc' hcc
            simp at hcid; subst hcid
            unfold St.defeat at hc'; rw [logAct_cands] at hc'
            obtain ⟨c0, hc0, rfl⟩ := mem_upd.1 hc'
            by_cases hc0c : (c0.cid == lc.cid) = true
            · simp [hc0c]
            · have hf : (c0.cid == lc.cid) = false := by simpa using hc0c
              simp only [hf, Bool.false_eq_true, if_false] at hcc
              simp [hcc] at hf
          have hst := (step_defeatedCore A hA h4I [lc.cid] hne4).trans (step_mplsLogTransfer A _ "Transfer defeated" [lc.cid])
          unfold defeatedCore at hst
          simp only [List.foldl_cons, List.foldl_nil] at hst
          rename_i hif
          rw [if_pos hif] at hI
          refine ⟨⟨⟨hI, hst.ehq h4E⟩, hst.mon h4M, hD.of_frame A (hF1.trans (hF4.trans hst.frame)), ?_, hst.nound hNU4⟩,
            hX1.trans (hX4.trans hst.ext), fun _ => Or.inl ?_, fun hn => absurd hg hn⟩
          · rw [hst.frame.2.1, hst.sumHE]; exact hJ4
          · rw [hst.mu]; omega
        · rename_i hif
          rw [if_neg hif] at hI
          refine ⟨⟨⟨hI, h4E⟩, h4M, hD.of_frame A (hF1.trans hF4), hJ4, hNU4⟩, hX1.trans hX4, fun _ => Or.inl (by omega),
            fun hn => absurd hg hn⟩
  · have hd : ¬ (decide ((s.hopeful.length : Int) > s.seatsLeft) = true) := by simpa using hg
    rw [if_neg hd] at hI ⊢
    exact ⟨⟨hE, hM, hD, hJ, hNU⟩, Ext.refl s, fun hgt => absurd hgt hg, fun _ => rfl⟩

/-- how a round that breaks leaves the count: crashed, all seats taken, or no more hopefuls than open seats -/
def MplsFin (t : St α) : Prop :=
  t.crash.isSome = true ∨ nEl t = t.seats ∨ (t.hopeful.length : Int) ≤ t.seatsLeft

theorem mplsRound_spec (hA : LawfulArith A) (hex : A.exact = false) {s : St α} (h : MplsInv A s) :
    MplsInv A (mplsRound A s).1 ∧ Ext s (mplsRound A s).1
    ∧ ((mplsRound A s).2 = .cont → mu (mplsRound A s).1 < mu s ∨ (mplsRound A s).1.crash.isSome = true)
    ∧ ((mplsRound A s).2 = .brk → MplsFin (mplsRound A s).1) := by
  have hel : nEl s ≤ s.seats := elected_le_seats A h.1.1 h.1.2 h.2.2.1
  unfold mplsRound
  by_cases hds : (mplsDefeatSet A s).isEmpty = false
  · simp only [hds, Bool.not_false, if_true]
    have hne : mplsDefeatSet A s ≠ [] := by intro e; rw [e] at hds; simp at hds
    obtain ⟨a1, a2, a3⟩ := mplsDefeatMany_spec A hA h _ (mplsDefeatSet_hopeful A s) (mplsDefeatSet_nodup A s h.1.1.wf) hne
      (mplsDefeatSet_bound A h.2.2.2.2 hne) hel
    refine ⟨a1, a2, fun _ => Or.inl a3, ?_⟩
    intro hc; unfold mplsDefeatMany at hc; cases hc
  · have hds' : (mplsDefeatSet A s).isEmpty = true := by simpa using hds
    simp only [hds', Bool.not_true, Bool.false_eq_true, if_false]
    split
    · rename_i hd hs heq
      obtain ⟨a1, a2, a3, a4⟩ := mplsElectSurplus_spec A hA hex h (hd :: hs) (A.pyMax hd.vote (hs.map (·.vote))) (by
        intro w hw
        have : w ∈ (byVote A true s.hopeful).filter (hasQuotaGE A s) := by rw [heq]; exact hw
        rw [List.mem_filter] at this
        exact ⟨(mem_pySorted _ _ _ _).1 this.1, this.2⟩)
      exact ⟨a1, a2, fun hc => Or.inl (a3 hc), fun hc => Or.inl (a4 hc)⟩
    · obtain ⟨b1, b2, b3, b4⟩ := mplsDefeatLow_spec A hA h
      unfold mplsFinish
      by_cases hfin : ((mplsDefeatLow A s).hopeful.length : Int) ≤ (mplsDefeatLow A s).seatsLeft
      · have hd : decide (((mplsDefeatLow A s).hopeful.length : Int) ≤ (mplsDefeatLow A s).seatsLeft) = true := by simpa using hfin
        rw [if_pos hd]
        refine ⟨b1, b2, ?_, fun _ => Or.inr (Or.inr hfin)⟩
        intro hc; cases hc
      · have hd : ¬ (decide (((mplsDefeatLow A s).hopeful.length : Int) ≤ (mplsDefeatLow A s).seatsLeft) = true) := by simpa using hfin
        rw [if_neg hd]
        refine ⟨b1, b2, fun _ => ?_, ?_⟩
        · by_cases hg : ((s.hopeful.length : Int) > s.seatsLeft)
          · exact b3 hg
          · exfalso
            rw [b4 hg] at hfin
            exact hfin (by omega)
        · intro hc; cases hc

theorem mplsAtThreshold_facts {s : St α} (hwf : s.WF) (hA : LawfulArith A) (hex : A.exact = false) :
    ((mplsAtThreshold A s).map (·.cid)).Nodup
    ∧ ∀ w ∈ mplsAtThreshold A s, w ∈ s.cands ∧ w.st = .hopeful ∧ s.quota ≤ w.vote := by
  unfold mplsAtThreshold
  refine ⟨?_, ?_⟩
  · have hp : ((byVote A true s.hopeful).map (·.cid)).Perm (s.hopeful.map (·.cid)) := (pySorted_perm _ _ _).map _
    have hnd : ((byVote A true s.hopeful).map (·.cid)).Nodup := hp.nodup_iff.2 (hopeful_cids_nodup hwf)
    exact List.Nodup.sublist (List.Sublist.map _ List.filter_sublist) hnd
  · intro w hw
    rw [List.mem_filter] at hw
    have hm : w ∈ s.hopeful := (mem_pySorted _ _ _ _).1 hw.1
    obtain ⟨hc, hh⟩ := mem_hopeful.1 hm
    have hq : hasQuotaGE A s w = true := by
      have := hw.2; simp only [Bool.and_eq_true] at this; exact this.2
    exact ⟨hc, hh, hasQuotaGE_sound A hA hex s w hq⟩

theorem mplsBody_spec (hA : LawfulArith A) (hex : A.exact = false) {s : St α} (h : MplsInv A s) :
    MplsInv A (mplsBody A s).1 ∧ Ext s (mplsBody A s).1
    ∧ ((mplsBody A s).2 = .cont → mu (mplsBody A s).1 < mu s ∨ (mplsBody A s).1.crash.isSome = true)
    ∧ ((mplsBody A s).2 = .brk → MplsFin (mplsBody A s).1) := by
  obtain ⟨hE, hM, hD, hJ, hNU⟩ := h
  have hcv := step_mplsCountVotes A s
  have hIcv : Inv A (mplsCountVotes A s) := hE.1.mplsCountVotes A
  have hinv1 : MplsInv A (mplsCountVotes A s) :=
    ⟨⟨hIcv, hcv.ehq hE.2⟩, hcv.mon hM, hD.of_frame A hcv.frame, by rw [hcv.frame.2.1, hcv.sumHE]; exact hJ, hcv.nound hNU⟩
  unfold mplsBody
  generalize mplsCountVotes A s = s1 at *
  by_cases hthr : s1.elected.length + (mplsAtThreshold A s1).length ≥ s1.seats
  · rw [if_pos hthr]
    unfold mplsElectThreshold
    dsimp only
    obtain ⟨hnd, hw⟩ := mplsAtThreshold_facts A hinv1.1.1.wf hA hex
    have hE2 := InvE.foldElect A hinv1.1 (mplsAtThreshold A s1) (fun _ => "Candidate at threshold") (fun _ => false) hnd hw
    obtain ⟨g, a, b, f, x, c, m⟩ := foldElectAll A ⟨hinv1.1.1, hinv1.2.1⟩ (mplsAtThreshold A s1) "Candidate at threshold" hnd
      (fun w hw' => ⟨(hw w hw').1, (hw w hw').2.1⟩)
    have hNU2 : NoUnd ((mplsAtThreshold A s1).foldl (fun acc c => acc.elect A c.cid "Candidate at threshold" false) s1) :=
      NoUnd.foldl (fun (acc : St α) (c : Cand α) => acc.elect A c.cid "Candidate at threshold" false)
        (fun t c ht => ht.elect A c.cid _ _) _ hinv1.2.2.2.2
    generalize (mplsAtThreshold A s1).foldl (fun acc c => acc.elect A c.cid "Candidate at threshold" false) s1 = s2 at *
    have hD2 : DroopQuota A s2 := hinv1.2.2.1.of_frame A f
    have hle2 : nEl s2 ≤ s2.seats := elected_le_seats A hE2.1 hE2.2 hD2
    refine ⟨⟨hE2, g.2, hD2, ?_, hNU2⟩, hcv.ext.trans x, ?_, fun _ => Or.inr (Or.inl ?_)⟩
    · rw [f.2.1]; have := hinv1.2.2.2.1; unfold sumHE at this ⊢; omega
    · intro hc; cases hc
    · rw [f.2.1] at hle2 ⊢; unfold nEl at *; omega
  · rw [if_neg hthr]
    have hnr := step_newRound A s1
    have hinv2 : MplsInv A (s1.newRound A) :=
      ⟨⟨hinv1.1.1.newRound A, hnr.ehq hinv1.1.2⟩, hnr.mon hinv1.2.1, hinv1.2.2.1.of_frame A hnr.frame,
       by rw [hnr.frame.2.1, hnr.sumHE]; exact hinv1.2.2.2.1, hnr.nound hinv1.2.2.2.2⟩
    obtain ⟨c1, c2, c3, c4⟩ := mplsRound_spec A hA hex hinv2
    refine ⟨c1, hcv.ext.trans (hnr.ext.trans c2), fun hc => ?_, c4⟩
    rcases c3 hc with h1 | h1
    · left; rw [hnr.mu, hcv.mu] at h1; exact h1
    · right; exact h1

/-! ## the whole Minneapolis count -/
abbrev mplsQuota (s0 : St α) : α := A.ofInt (pdiv s0.nballots (s0.seats + 1) + 1)

theorem mplsInit_inv (hA : LawfulArith A) {s0 : St α} (h0 : GStart A (mplsQuota A s0) s0) (hnu : NoUnd s0) :
    MplsInv A (mplsInit A s0) ∧ Ext s0 (mplsInit A s0) ∧ (mplsInit A s0).cands.length = s0.cands.length := by
  unfold mplsInit
  set core : St α := (firstCount A (s0.setQuota (mplsQuota A s0))).setExhausted A.zero with hcore
  have hIc : Inv A core := Inv.initCore A hA _ h0.init h0.quota_pos
  have hsk : core.skel = s0.skel := by
    show ((firstCount A (s0.setQuota _)).setExhausted A.zero).skel = _
    rw [firstCount_eq]; exact foldl_fcStep_skel A _ _
  obtain ⟨_, _, f3, f4, _, f6⟩ := foldl_fcStep_frame A (s0.setQuota (mplsQuota A s0)).ballots (s0.setQuota (mplsQuota A s0))
  have e1 : core.nballots = s0.nballots := by
    show (firstCount A _).nballots = _; rw [firstCount_eq]; exact f4
  have e2 : core.seats = s0.seats := by
    show (firstCount A _).seats = _; rw [firstCount_eq]; exact foldl_fcStep_seats A _ _
  have e3 : core.quota = mplsQuota A s0 := by
    show (firstCount A _).quota = _; rw [firstCount_eq]; exact f3
  have e4 : core.acts = [] := by
    show (firstCount A _).acts = _; rw [firstCount_acts]; exact h0.init.noActs
  have hfresh : ∀ c ∈ core.cands, c.st ≠ .elected := by
    intro c hc
    obtain ⟨c0, hc0, hcs⟩ := mem_of_skel_eq hsk hc
    rw [← (skel_st hcs).1]; exact h0.fresh c0 hc0
  have hX0 : Ext s0 core := Ext.of_acts_eq (by rw [e4]; exact h0.init.noActs.symm ▸ rfl)
  have hnr := step_newRound A core
  refine ⟨⟨⟨hIc.newRound A, hnr.ehq (EHQ.of_noElected hfresh)⟩, hnr.mon (Mon.of_noActs e4), ?_, ?_, hnr.nound (hnu.of_skel hsk)⟩,
    hX0.trans hnr.ext, ?_⟩
  · apply DroopQuota.of_frame A _ hnr.frame
    unfold DroopQuota; rw [e1, e2, e3]; exact h0.droop
  · rw [hnr.frame.2.1, hnr.sumHE, e2]
    have := (counts_of_skel hsk).1
    have hen := h0.enough
    unfold sumHE; omega
  · have hl := congrArg List.length hsk
    unfold St.skel at hl; simp only [List.length_map] at hl
    have : (core.newRound A).cands = core.cands := by unfold St.newRound; rw [logAct_cands]
    rw [this]; exact hl

theorem mplsEpilogue_spec {s : St α} (hg : Good A s) :
    Good A (mplsEpilogue A s) ∧ Ext s (mplsEpilogue A s) ∧ (mplsEpilogue A s).crash = s.crash
    ∧ (mplsEpilogue A s).seats = s.seats ∧ nHop (mplsEpilogue A s) = 0
    ∧ (nEl s = s.seats ∨ (s.hopeful.length : Int) ≤ s.seatsLeft → nEl s ≤ s.seats → s.seats ≤ sumHE s →
        nEl (mplsEpilogue A s) = s.seats) := by
  unfold mplsEpilogue
  by_cases hfit : ((s.hopeful.length : Int) ≤ s.seatsLeft)
  · simp only [hfit, decide_true, if_true]
    obtain ⟨hg6, a6, b6, f6, x6, c6, _⟩ := foldElectAll A hg s.hopeful "Elect remaining candidates"
      (hopeful_cids_nodup hg.1.wf) (fun w hw => mem_hopeful.1 hw)
    generalize s.hopeful.foldl (fun acc c => acc.elect A c.cid "Elect remaining candidates" false) s = s6 at *
    obtain ⟨hg7, a7, b7, f7, x7, c7, _⟩ := foldDefeatAll A hg6 s6.hopeful "Defeat remaining candidates"
      (hopeful_cids_nodup hg6.1.wf) (fun w hw => mem_hopeful.1 hw)
    refine ⟨hg7, x6.trans x7, by rw [c7, c6], by rw [f7.2.1, f6.2.1], ?_, ?_⟩
    · unfold nHop at a7 ⊢; omega
    · intro _ hle hge
      unfold St.seatsLeft at hfit
      unfold sumHE at hge
      unfold nHop nEl at *
      omega
  · simp only [hfit, decide_false, Bool.false_eq_true, if_false]
    obtain ⟨hg7, a7, b7, f7, x7, c7, _⟩ := foldDefeatAll A hg s.hopeful "Defeat remaining candidates"
      (hopeful_cids_nodup hg.1.wf) (fun w hw => mem_hopeful.1 hw)
    refine ⟨hg7, x7, c7, f7.2.1, ?_, ?_⟩
    · unfold nHop at a7 ⊢; omega
    · intro hfin hle hge
      rcases hfin with h | h
      · rw [b7]; exact h
      · exact False.elim h

/-- **C01 (termination), Minneapolis without undeclared write-ins** -/
theorem mplsCount_terminates (hA : LawfulArith A) (hex : A.exact = false) (s0 : St α) (h0 : GStart A (mplsQuota A s0) s0)
    (hnu : NoUnd s0) : ∃ t, mplsCount A s0 = some t := by
  obtain ⟨hinit, _, hlen⟩ := mplsInit_inv A hA h0 hnu
  have hfuel : mu (mplsInit A s0) + 2 ≤ 2 * s0.cands.length + 4 := by
    have := mu_le_two_mul (mplsInit A s0); omega
  obtain ⟨t, ht⟩ := loopN_total' (MplsInv A) (fun _ => true) (mplsBody A)
    (fun s hs _ => (mplsBody_spec A hA hex hs).1)
    (fun s hs _ hc => (mplsBody_spec A hA hex hs).2.2.1 hc)
    (2 * s0.cands.length + 4) (mplsInit A s0) hinit (by omega) (Or.inr hfuel)
  exact ⟨mplsEpilogue A t, by unfold mplsCount; rw [ht]⟩

/-- **C01 / C09, Minneapolis without undeclared write-ins** -/
theorem mpls_result (hA : LawfulArith A) (hex : A.exact = false) (s0 t : St α) (h0 : GStart A (mplsQuota A s0) s0)
    (hnu : NoUnd s0) (h : mplsCount A s0 = some t) :
    Mon t ∧ Ext s0 t ∧ (t.crash = none → nEl t = t.seats ∧ nHop t = 0) := by
  obtain ⟨hinit, hX0, _⟩ := mplsInit_inv A hA h0 hnu
  unfold mplsCount at h
  cases hl : loopN (fun _ => true) (mplsBody A) (2 * s0.cands.length + 4) (mplsInit A s0) with
  | none => rw [hl] at h; cases h
  | some s4 =>
    rw [hl] at h; cases h
    have hP := loopN_preserves (MplsInv A) (fun _ => true) (mplsBody A) (fun s hs => (mplsBody_spec A hA hex hs).1) _ _ _ hinit hl
    have hX := loopN_ext (MplsInv A) (fun _ => true) (mplsBody A) (fun s hs _ _ => (mplsBody_spec A hA hex hs).1)
      (fun s hs _ => (mplsBody_spec A hA hex hs).2.1) _ _ _ hinit hl
    obtain ⟨hE, hM, hD, hJ, _⟩ := hP
    obtain ⟨e1, e2, e3, e4, e5, e6⟩ := mplsEpilogue_spec A (s := s4) ⟨hE.1, hM⟩
    refine ⟨e1.2, hX0.trans (hX.trans e2), ?_⟩
    intro hcr
    rw [e3] at hcr
    have hfin : nEl s4 = s4.seats ∨ (s4.hopeful.length : Int) ≤ s4.seatsLeft := by
      rcases loopN_exit (MplsInv A) (fun _ => true) (mplsBody A) (fun s hs _ => (mplsBody_spec A hA hex hs).1)
        _ _ _ hinit hl with hc | hg | ⟨s', hs', _, hb⟩
      · rw [hcr] at hc; simp at hc
      · simp at hg
      · have := (mplsBody_spec A hA hex hs').2.2.2
        rw [hb] at this
        rcases this rfl with h1 | h1 | h1
        · dsimp only at h1; rw [hcr] at h1; simp at h1
        · left; exact h1
        · right; exact h1
    exact ⟨by rw [e4]; exact e6 hfin (elected_le_seats A hE.1 hE.2 hD) hJ, e5⟩

end Droop
