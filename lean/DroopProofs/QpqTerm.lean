import DroopProofs.PermBQpq
import DroopProofs.Counting
import DroopProofs.FinalCount

/-! # C01 for QPQ: the count never runs out of rounds

`qpqLoop` is given `n(n+2)+3` rounds for `n` candidates.  A round that continues either elects one hopeful candidate or excludes
one; an exclusion is followed by a restart in which every elected candidate becomes hopeful again.  With `k` = hopeful + elected
and `h` = hopeful, the measure `T(k) + (k+1 if a restart is due, else h+1)` (`T` the triangular numbers) drops in every round that
continues: an election lowers the second summand, an exclusion turns `T(k)` into `T(k-1) + k = T(k)` and loses the rest.
Initially it is at most `T(n) + n + 1`, which is below the rounds given.  No hypothesis on the arithmetic or on the ballots:
only distinct candidate ids. -/
namespace Droop
variable {α : Type} [CommRing α] [LinearOrder α] [IsStrictOrderedRing α] (A : Arith α)

def tri : Nat → Nat
  | 0 => 0
  | k+1 => tri k + (k + 1)

/-- ids and statuses, in order -/
def stsig (s : St α) : List (Nat × CState) := s.cands.map (fun c => (c.cid, c.st))

theorem nHop_of_stsig {s t : St α} (h : stsig t = stsig s) : nHop t = nHop s := by
  have e : ∀ u : St α, nHop u = ((stsig u).filter (fun p => p.2 == CState.hopeful)).length := by
    intro u; unfold nHop St.hopeful stsig; rw [List.filter_map, List.length_map]; rfl
  rw [e, e, h]

theorem nEl_of_stsig {s t : St α} (h : stsig t = stsig s) : nEl t = nEl s := by
  have e : ∀ u : St α, nEl u = ((stsig u).filter (fun p => p.2 == CState.elected)).length := by
    intro u; unfold nEl St.elected stsig; rw [List.filter_map, List.length_map]; rfl
  rw [e, e, h]

theorem WF_of_stsig {s t : St α} (h : stsig t = stsig s) (hwf : s.WF) : t.WF := by
  have e : ∀ u : St α, u.cands.map (·.cid) = (stsig u).map (·.1) := by
    intro u; unfold stsig; rw [List.map_map]; rfl
  unfold St.WF at *
  rw [e, h, ← e]; exact hwf

theorem stsig_upd_keep (s : St α) (cid : Nat) (f : Cand α → Cand α) (hf : ∀ c, (f c).cid = c.cid ∧ (f c).st = c.st) :
    stsig (s.upd cid f) = stsig s := by
  unfold stsig St.upd
  rw [List.map_map]
  apply List.map_congr_left
  intro c _
  simp only [Function.comp]
  split
  · rw [(hf c).1, (hf c).2]
  · rfl

theorem stsig_mapKeep (s : St α) (f : Cand α → Cand α) (hf : ∀ c, (f c).cid = c.cid ∧ (f c).st = c.st) :
    stsig ({ s with cands := s.cands.map f } : St α) = stsig s := by
  unfold stsig
  rw [List.map_map]
  apply List.map_congr_left
  intro c _
  simp only [Function.comp]
  rw [(hf c).1, (hf c).2]

theorem stsig_logAct (s : St α) (tag verb : String) (subj : List Nat) : stsig (s.logAct A tag verb subj) = stsig s := by
  unfold stsig; rw [logAct_cands]

theorem stsig_setCrash (s : St α) (k : String) : stsig (s.setCrash k) = stsig s := by
  unfold stsig; rw [setCrash_cands]

/-! ## the stages of a round: who is hopeful, who is elected -/

theorem unElect_counts (s1 : St α) : nHop (unElect s1) = nHop s1 + nEl s1 ∧ nEl (unElect s1) = 0 ∧ (unElect s1).cands.map (·.cid) = s1.cands.map (·.cid) := by
  unfold unElect nHop nEl St.hopeful St.elected
  simp only
  refine ⟨?_, ?_, ?_⟩
  · induction s1.cands with
    | nil => rfl
    | cons c cs ih =>
      simp only [List.map_cons, List.filter_cons]
      cases hc : c.st <;> simp [hc] at ih ⊢ <;> omega
  · rw [List.length_eq_zero_iff, List.filter_eq_nil_iff]
    intro a ha
    obtain ⟨c, _, rfl⟩ := List.mem_map.1 ha
    by_cases he : (c.st == CState.elected) = true
    · rw [if_pos he]; simp
    · rw [if_neg he]; exact he
  · rw [List.map_map]
    apply List.map_congr_left
    intro c _
    simp only [Function.comp]
    split <;> rfl

theorem qTally_stsig (acc : QSt α) (b : Ballot α) : stsig (qTally A acc b).s = stsig acc.s ∧ (qTally A acc b).restart = acc.restart := by
  unfold qTally
  cases b.top with
  | none => exact ⟨rfl, rfl⟩
  | some c => exact ⟨stsig_upd_keep acc.s c _ (fun _ => ⟨rfl, rfl⟩), rfl⟩

theorem foldl_qTally_stsig (bs : List (Ballot α)) (acc : QSt α) :
    stsig (bs.foldl (qTally A) acc).s = stsig acc.s ∧ (bs.foldl (qTally A) acc).restart = acc.restart := by
  induction bs generalizing acc with
  | nil => exact ⟨rfl, rfl⟩
  | cons b bs ih =>
    simp only [List.foldl_cons]
    obtain ⟨h1, h2⟩ := ih (qTally A acc b)
    obtain ⟨g1, g2⟩ := qTally_stsig A acc b
    exact ⟨h1.trans g1, h2.trans g2⟩

/-- from the state after the restart handling to the state the decision is taken in: ids and statuses are untouched -/
theorem qR5_stsig (q : QSt α) : stsig (qR5 A q) = stsig (qR2 A q) ∧ (qQ1 A q).restart = false := by
  have h3 : stsig (qR3 A q) = stsig (qR2 A q) := by
    unfold qR3
    exact stsig_mapKeep (qR2 A q) _ (fun c => by split <;> exact ⟨rfl, rfl⟩)
  have hq := foldl_qTally_stsig A (qR3 A q).ballots { s := qR3 A q, va := A.zero, tx := A.zero, restart := false }
  have h1 : stsig (qQ1 A q).s = stsig (qR3 A q) := hq.1
  have h4 : stsig (qR4 A q) = stsig (qQ1 A q).s := by
    unfold qR4
    exact stsig_mapKeep (qQ1 A q).s _ (fun c => by split <;> exact ⟨rfl, rfl⟩)
  have h5 : stsig (qR5 A q) = stsig (qR4 A q) := by
    unfold qR5
    split
    · rw [stsig_setCrash]; rfl
    · rfl
  exact ⟨h5.trans (h4.trans (h1.trans h3)), hq.2⟩

theorem qR2_counts (q : QSt α) :
    (q.restart = true → nHop (qR2 A q) = nHop q.s + nEl q.s ∧ nEl (qR2 A q) = 0)
    ∧ (q.restart = false → nHop (qR2 A q) = nHop q.s ∧ nEl (qR2 A q) = nEl q.s)
    ∧ (qR2 A q).cands.map (·.cid) = q.s.cands.map (·.cid) := by
  have h1c : (qR1 A q).cands = q.s.cands := by unfold qR1 St.newRound; rw [logAct_cands]
  have h1h : nHop (qR1 A q) = nHop q.s := by unfold nHop St.hopeful; rw [h1c]
  have h1e : nEl (qR1 A q) = nEl q.s := by unfold nEl St.elected; rw [h1c]
  unfold qR2
  refine ⟨?_, ?_, ?_⟩
  · intro hr
    rw [if_pos hr]
    have := unElect_counts (qR1 A q)
    have hc : (qRestart A (qR1 A q)).cands = (unElect (qR1 A q)).cands := rfl
    have e1 : nHop (qRestart A (qR1 A q)) = nHop (unElect (qR1 A q)) := by unfold nHop St.hopeful; rw [hc]
    have e2 : nEl (qRestart A (qR1 A q)) = nEl (unElect (qR1 A q)) := by unfold nEl St.elected; rw [hc]
    rw [e1, e2, this.1, this.2.1, h1h, h1e]
    exact ⟨rfl, rfl⟩
  · intro hr
    have hr' : ¬ q.restart = true := by rw [hr]; simp
    rw [if_neg hr']
    exact ⟨h1h, h1e⟩
  · by_cases hr : q.restart = true
    · rw [if_pos hr]
      have hc : (qRestart A (qR1 A q)).cands = (unElect (qR1 A q)).cands := rfl
      rw [hc, (unElect_counts (qR1 A q)).2.2, h1c]
    · rw [if_neg hr, h1c]

/-! ## the decision of a round -/

theorem mapBallots_cands (s : St α) (g : Ballot α → Ballot α) : (mapBallots s g).cands = s.cands := rfl
theorem nHop_mapBallots (s : St α) (g : Ballot α → Ballot α) : nHop (mapBallots s g) = nHop s := rfl
theorem nEl_mapBallots (s : St α) (g : Ballot α → Ballot α) : nEl (mapBallots s g) = nEl s := rfl

theorem qElected_counts {s6 : St α} (hwf : s6.WF) (hc : Cand α) (hh : hc ∈ s6.hopeful) :
    nHop (qElected A s6 hc) + 1 = nHop s6 ∧ nEl (qElected A s6 hc) = nEl s6 + 1
      ∧ (qElected A s6 hc).cands.map (·.cid) = s6.cands.map (·.cid) := by
  obtain ⟨hcs, hch⟩ := mem_hopeful.1 hh
  have hce := counts_elect A s6 hc "Elect high quotient" false hwf hcs hch
  have hcid : (s6.elect A hc.cid "Elect high quotient" false).cands.map (·.cid) = s6.cands.map (·.cid) := by
    have := WF_elect A hwf hc.cid "Elect high quotient" false
    unfold St.elect; rw [logAct_cands]
    unfold St.upd; rw [List.map_map]
    apply List.map_congr_left
    intro c _
    simp only [Function.comp]
    split <;> rfl
  unfold qElected
  split
  · have hcc : ((s6.elect A hc.cid "Elect high quotient" false).setCrash "ZeroDivisionError").cands
        = (s6.elect A hc.cid "Elect high quotient" false).cands := setCrash_cands _ _
    unfold nHop nEl St.hopeful St.elected at hce ⊢
    rw [hcc]
    exact ⟨hce.1, hce.2, hcid⟩
  · exact ⟨hce.1, hce.2, hcid⟩

/-- a round that continues either elects one hopeful candidate (no restart due) or excludes one (restart due) -/
theorem qDecide_cont (q1 : QSt α) (s5 : St α) (hwf : s5.WF) (hr1 : q1.restart = false) (h : (qDecide A q1 s5).2 = .cont) :
    ((qDecide A q1 s5).1.s.cands.map (·.cid) = s5.cands.map (·.cid)) ∧
    (((qDecide A q1 s5).1.restart = false ∧ nHop (qDecide A q1 s5).1.s + 1 = nHop s5 ∧ nEl (qDecide A q1 s5).1.s = nEl s5 + 1)
     ∨ ((qDecide A q1 s5).1.restart = true ∧ nHop (qDecide A q1 s5).1.s + 1 = nHop s5 ∧ nEl (qDecide A q1 s5).1.s = nEl s5)) := by
  unfold qDecide at h ⊢
  cases hh : s5.hopeful with
  | nil => rw [hh] at h; cases h
  | cons hd hs =>
    rw [hh] at h
    simp only at h ⊢
    by_cases hg : A.gt (A.pyMax (qQuot A hd) (hs.map (qQuot A))) s5.quota = true
    · rw [if_pos hg] at h ⊢
      have hfr := (breakTie_frame A s5 (List.filter (fun c => A.eq (qQuot A c) (A.pyMax (qQuot A hd) (hs.map (qQuot A)))) (hd :: hs))
        "Break tie by lot (largest quotient)").1
      have hmem := breakTie_mem A s5 (List.filter (fun c => A.eq (qQuot A c) (A.pyMax (qQuot A hd) (hs.map (qQuot A)))) (hd :: hs))
        "Break tie by lot (largest quotient)"
      cases hb : breakTie A s5 (List.filter (fun c => A.eq (qQuot A c) (A.pyMax (qQuot A hd) (hs.map (qQuot A)))) (hd :: hs))
          "Break tie by lot (largest quotient)" with
      | mk s6 oc =>
        rw [hb] at h hfr hmem
        simp only at hfr
        cases oc with
        | none => cases h
        | some hc =>
          simp only
          have hwf6 : s6.WF := by unfold St.WF; rw [hfr]; exact hwf
          have hh6 : hc ∈ s6.hopeful := by
            have : hc ∈ s5.hopeful := by rw [hh]; exact (List.mem_filter.1 (hmem hc rfl)).1
            unfold St.hopeful at this ⊢; rw [hfr]; exact this
          obtain ⟨e1, e2, e3⟩ := qElected_counts A hwf6 hc hh6
          have hc5 : nHop s6 = nHop s5 ∧ nEl s6 = nEl s5 := by
            unfold nHop nEl St.hopeful St.elected; rw [hfr]; exact ⟨rfl, rfl⟩
          refine ⟨?_, Or.inl ⟨hr1, ?_, ?_⟩⟩
          · rw [logAct_cands, mapBallots_cands, e3, hfr]
          · rw [nHop_logAct, nHop_mapBallots]; omega
          · rw [nEl_logAct, nEl_mapBallots]; omega
    · rw [if_neg hg] at h ⊢
      have hfr := (breakTie_frame A s5 (List.filter (fun c => A.eq (qQuot A c) (A.pyMin (qQuot A hd) (hs.map (qQuot A)))) (hd :: hs))
        "Break tie by lot (smallest quotient)").1
      have hmem := breakTie_mem A s5 (List.filter (fun c => A.eq (qQuot A c) (A.pyMin (qQuot A hd) (hs.map (qQuot A)))) (hd :: hs))
        "Break tie by lot (smallest quotient)"
      cases hb : breakTie A s5 (List.filter (fun c => A.eq (qQuot A c) (A.pyMin (qQuot A hd) (hs.map (qQuot A)))) (hd :: hs))
          "Break tie by lot (smallest quotient)" with
      | mk s6 oc =>
        rw [hb] at h hfr hmem
        simp only at hfr
        cases oc with
        | none => cases h
        | some lc =>
          simp only
          have hwf6 : s6.WF := by unfold St.WF; rw [hfr]; exact hwf
          have hl6 : lc ∈ s6.cands ∧ lc.st = .hopeful := by
            have : lc ∈ s5.hopeful := by rw [hh]; exact (List.mem_filter.1 (hmem lc rfl)).1
            rw [hfr]; exact mem_hopeful.1 this
          obtain ⟨d1, d2⟩ := counts_defeat A s6 lc "Defeat low quotient" hwf6 hl6.1 hl6.2
          have hc5 : nHop s6 = nHop s5 ∧ nEl s6 = nEl s5 := by
            unfold nHop nEl St.hopeful St.elected; rw [hfr]; exact ⟨rfl, rfl⟩
          have hcid : (s6.defeat A lc.cid "Defeat low quotient").cands.map (·.cid) = s6.cands.map (·.cid) := by
            unfold St.defeat; rw [logAct_cands]
            unfold St.upd; rw [List.map_map]
            apply List.map_congr_left
            intro c _
            simp only [Function.comp]
            split <;> rfl
          refine ⟨?_, Or.inr ⟨trivial, ?_, ?_⟩⟩
          · rw [logAct_cands, mapBallots_cands, hcid, hfr]
          · rw [nHop_logAct, nHop_mapBallots]; omega
          · rw [nEl_logAct, nEl_mapBallots]; omega

/-! ## the measure -/

def qMu (q : QSt α) : Nat := tri (nHop q.s + nEl q.s) + (if q.restart then nHop q.s + nEl q.s + 1 else nHop q.s + 1)

theorem tri_pred (k : Nat) (hk : 1 ≤ k) : tri k = tri (k - 1) + k := by
  obtain ⟨j, rfl⟩ : ∃ j, k = j + 1 := ⟨k - 1, by omega⟩
  rfl

theorem tri_mono {a b : Nat} (h : a ≤ b) : tri a ≤ tri b := by
  induction b with
  | zero => have : a = 0 := by omega
            subst this; exact Nat.le_refl _
  | succ n ih =>
    by_cases he : a = n + 1
    · subst he; exact Nat.le_refl _
    · have := ih (by omega)
      show tri a ≤ tri n + (n + 1)
      omega

theorem tri_fuel (n : Nat) : tri n + n + 1 < n * (n + 2) + 3 := by
  induction n with
  | zero => decide
  | succ n ih =>
    have e : (n + 1) * (n + 1 + 2) = n * (n + 2) + 2 * n + 3 := by ring
    show tri n + (n + 1) + (n + 1) + 1 < (n + 1) * (n + 1 + 2) + 3
    omega

theorem qpqBody_measure (q : QSt α) (hwf : q.s.WF) (h : (qpqBody A q).2 = .cont) :
    qMu (qpqBody A q).1 < qMu q ∧ (qpqBody A q).1.s.WF := by
  rw [qpqBody_eq] at h ⊢
  obtain ⟨hsig, hr1⟩ := qR5_stsig A q
  obtain ⟨c1, c2, c3⟩ := qR2_counts A q
  have hwf2 : (qR2 A q).WF := by unfold St.WF; rw [c3]; exact hwf
  have hwf5 : (qR5 A q).WF := WF_of_stsig hsig hwf2
  have h5h : nHop (qR5 A q) = nHop (qR2 A q) := nHop_of_stsig hsig
  have h5e : nEl (qR5 A q) = nEl (qR2 A q) := nEl_of_stsig hsig
  obtain ⟨hcid, hcase⟩ := qDecide_cont A (qQ1 A q) (qR5 A q) hwf5 hr1 h
  refine ⟨?_, ?_⟩
  · unfold qMu
    by_cases hr : q.restart = true
    · obtain ⟨a1, a2⟩ := c1 hr
      rw [if_pos hr]
      rcases hcase with ⟨r', x1, x2⟩ | ⟨r', x1, x2⟩
      · rw [r']; simp only [Bool.false_eq_true, if_false]
        have : nHop (qDecide A (qQ1 A q) (qR5 A q)).1.s + nEl (qDecide A (qQ1 A q) (qR5 A q)).1.s = nHop q.s + nEl q.s := by omega
        rw [this]; omega
      · rw [r']; simp only [if_true]
        have hk : 1 ≤ nHop q.s + nEl q.s := by omega
        have : nHop (qDecide A (qQ1 A q) (qR5 A q)).1.s + nEl (qDecide A (qQ1 A q) (qR5 A q)).1.s = nHop q.s + nEl q.s - 1 := by omega
        rw [this, tri_pred _ hk]; omega
    · have hr' : q.restart = false := by simpa using hr
      obtain ⟨a1, a2⟩ := c2 hr'
      rw [if_neg hr]
      rcases hcase with ⟨r', x1, x2⟩ | ⟨r', x1, x2⟩
      · rw [r']; simp only [Bool.false_eq_true, if_false]
        have : nHop (qDecide A (qQ1 A q) (qR5 A q)).1.s + nEl (qDecide A (qQ1 A q) (qR5 A q)).1.s = nHop q.s + nEl q.s := by omega
        rw [this]; omega
      · rw [r']; simp only [if_true]
        have hk : 1 ≤ nHop q.s + nEl q.s := by omega
        have : nHop (qDecide A (qQ1 A q) (qR5 A q)).1.s + nEl (qDecide A (qQ1 A q) (qR5 A q)).1.s = nHop q.s + nEl q.s - 1 := by omega
        rw [this, tri_pred _ hk]; omega
  · unfold St.WF
    rw [hcid]
    exact hwf5

/-- with more rounds than the measure the loop returns -/
theorem qpqLoop_total : ∀ (fuel : Nat) (q : QSt α), q.s.WF → qMu q < fuel → ∃ r, qpqLoop A fuel q = some r := by
  intro fuel
  induction fuel with
  | zero => intro q _ h; omega
  | succ n ih =>
    intro q hwf hmu
    unfold qpqLoop
    by_cases hc : q.s.crash.isSome = true
    · rw [if_pos hc]; exact ⟨q, rfl⟩
    · rw [if_neg hc]
      by_cases hg : (!qpqCountComplete q.s) = true
      · rw [if_pos hg]
        cases hb : qpqBody A q with
        | mk q' fl =>
          cases fl with
          | brk => exact ⟨q', rfl⟩
          | cont =>
            simp only
            have := qpqBody_measure A q hwf (by rw [hb])
            rw [hb] at this
            simp only at this
            exact ih q' this.2 (by omega)
      · rw [if_neg hg]; exact ⟨q, rfl⟩

theorem sumHE_le_length (s : St α) : nHop s + nEl s ≤ s.cands.length := by
  unfold nHop nEl St.hopeful St.elected
  induction s.cands with
  | nil => simp
  | cons c cs ih =>
    simp only [List.filter_cons, List.length_cons]
    cases hc : c.st <;> simp <;> omega

/-- **C01 for QPQ: the count returns** — for every profile with distinct candidate ids and every arithmetic -/
theorem qpqCount_terminates (s0 : St α) (hwf : s0.WF) : ∃ t, qpqCount A s0 = some t := by
  rw [qpqCount_eq]
  have hsig : stsig (qpqStart A s0).s = stsig s0 := by
    unfold qpqStart
    simp only
    rw [stsig_logAct]
    show stsig (qS1 A s0) = stsig s0
    unfold qS1
    exact stsig_mapKeep s0 _ (fun c => by split <;> exact ⟨rfl, rfl⟩)
  have hwf1 : (qpqStart A s0).s.WF := WF_of_stsig hsig hwf
  have hlen : (qpqStart A s0).s.cands.length = s0.cands.length := by
    have := congrArg List.length hsig
    unfold stsig at this
    simpa using this
  have hk := sumHE_le_length (qpqStart A s0).s
  have hmu : qMu (qpqStart A s0) < s0.cands.length * (s0.cands.length + 2) + 3 := by
    unfold qMu
    have hr : (qpqStart A s0).restart = true := rfl
    rw [hr]; simp only [if_true]
    have h1 := tri_mono (a := nHop (qpqStart A s0).s + nEl (qpqStart A s0).s) (b := s0.cands.length) (by omega)
    have h2 := tri_fuel s0.cands.length
    omega
  obtain ⟨r, hr⟩ := qpqLoop_total A _ _ hwf1 hmu
  rw [hr]
  exact ⟨_, rfl⟩

end Droop
