import DroopProofs.QpqTerm
import DroopProofs.MeekMon

/-! # C09 for QPQ: status only moves forward, except for the restart that follows an exclusion

Between the state a round starts in and the state it ends in, a candidate's status is unchanged, or goes from hopeful to elected or
defeated; only when a restart is due (`restart = true`: the count has just begun, or the previous round excluded someone) may an
elected candidate become hopeful again (and then be excluded).  Withdrawn and defeated candidates never change.  Over the whole
count: the same, with un-election allowed.  The elected never exceed the seats. -/
namespace Droop
variable {α : Type} [CommRing α] [LinearOrder α] [IsStrictOrderedRing α] (A : Arith α)

/-- permitted status changes; `un`: a restart may un-elect -/
def okT (un : Bool) (a b : CState) : Prop :=
  b = a ∨ (a = .hopeful ∧ (b = .elected ∨ b = .defeated)) ∨ (un = true ∧ a = .elected ∧ (b = .hopeful ∨ b = .defeated))

/-- candidate by candidate (same ids, same order), the status has moved only in a permitted way -/
def StFwd (un : Bool) (a b : List (Nat × CState)) : Prop :=
  List.Forall₂ (fun p p' => p'.1 = p.1 ∧ okT un p.2 p'.2) a b

theorem okT_refl (un : Bool) (a : CState) : okT un a a := Or.inl rfl

theorem okT_mono {a b : CState} (h : okT false a b) (un : Bool) : okT un a b := by
  rcases h with h | h | h
  · exact Or.inl h
  · exact Or.inr (Or.inl h)
  · exact absurd h.1 (by simp)

theorem okT_trans {un : Bool} {a b c : CState} (h1 : okT un a b) (h2 : okT un b c) : okT un a c := by
  unfold okT at *
  cases un <;> cases a <;> cases b <;> cases c <;> simp at h1 h2 ⊢

theorem StFwd.refl (un : Bool) (l : List (Nat × CState)) : StFwd un l l := by
  unfold StFwd
  induction l with
  | nil => exact List.Forall₂.nil
  | cons p ps ih => exact List.Forall₂.cons ⟨rfl, okT_refl un p.2⟩ ih

theorem StFwd.of_eq (un : Bool) {l l' : List (Nat × CState)} (h : l' = l) : StFwd un l l' := by
  rw [h]; exact StFwd.refl un l

theorem StFwd.mono {l l' : List (Nat × CState)} (h : StFwd false l l') (un : Bool) : StFwd un l l' := by
  unfold StFwd at *
  exact List.Forall₂.imp (fun _ _ hp => ⟨hp.1, okT_mono hp.2 un⟩) h

theorem StFwd.trans {un : Bool} {l1 l2 l3 : List (Nat × CState)} (h1 : StFwd un l1 l2) (h2 : StFwd un l2 l3) : StFwd un l1 l3 := by
  unfold StFwd at *
  induction h1 generalizing l3 with
  | nil => cases h2; exact List.Forall₂.nil
  | cons hp _ ih =>
    cases h2 with
    | cons hq hr => exact List.Forall₂.cons ⟨hq.1.trans hp.1, okT_trans hp.2 hq.2⟩ (ih hr)

theorem StFwd.ids {un : Bool} {l l' : List (Nat × CState)} (h : StFwd un l l') : l'.map (·.1) = l.map (·.1) := by
  unfold StFwd at h
  induction h with
  | nil => rfl
  | cons hp _ ih => simp only [List.map_cons, hp.1, ih]

theorem stsig_ids (s : St α) : (stsig s).map (·.1) = s.cands.map (·.cid) := by
  unfold stsig; rw [List.map_map]; rfl

theorem StFwd.WF {un : Bool} {s t : St α} (h : StFwd un (stsig s) (stsig t)) (hwf : s.WF) : t.WF := by
  unfold St.WF at *
  rw [← stsig_ids, h.ids, stsig_ids]; exact hwf

/-- a map over the candidate list that keeps ids and moves each status in a permitted way -/
theorem StFwd_map (un : Bool) (s : St α) (f : Cand α → Cand α)
    (hf : ∀ c ∈ s.cands, (f c).cid = c.cid ∧ okT un c.st (f c).st) :
    StFwd un (stsig s) (stsig ({ s with cands := s.cands.map f } : St α)) := by
  unfold StFwd stsig
  simp only
  generalize s.cands = l at hf
  induction l with
  | nil => exact List.Forall₂.nil
  | cons c cs ih =>
    simp only [List.map_cons]
    exact List.Forall₂.cons (hf c (List.mem_cons_self ..)) (ih (fun c' hc' => hf c' (List.mem_cons_of_mem _ hc')))

/-- changing the status of candidate `cid` to `st'`, permitted for whoever carries that id -/
theorem StFwd_upd (un : Bool) (s : St α) (cid : Nat) (f : Cand α → Cand α) (st' : CState)
    (hf : ∀ c, (f c).cid = c.cid ∧ (f c).st = st') (hok : ∀ c ∈ s.cands, c.cid = cid → okT un c.st st') :
    StFwd un (stsig s) (stsig (s.upd cid f)) := by
  unfold St.upd
  apply StFwd_map
  intro c hc
  by_cases he : (c.cid == cid) = true
  · rw [if_pos he]
    refine ⟨(hf c).1, ?_⟩
    rw [(hf c).2]
    exact hok c hc (by simpa using he)
  · rw [if_neg he]; exact ⟨rfl, okT_refl un _⟩

theorem cand_unique {s : St α} (hwf : s.WF) {a c : Cand α} (ha : a ∈ s.cands) (hc : c ∈ s.cands) (h : c.cid = a.cid) : c = a :=
  List.inj_on_of_nodup_map hwf hc ha h

theorem StFwd_elect (un : Bool) {s : St α} (hwf : s.WF) (a : Cand α) (ha : a ∈ s.cands) (hh : a.st = .hopeful) (verb : String) (p : Bool) :
    StFwd un (stsig s) (stsig (s.elect A a.cid verb p)) := by
  unfold St.elect
  rw [stsig_logAct]
  refine StFwd_upd un s a.cid (fun c => { c with st := .elected, pending := p }) .elected (fun c => ⟨rfl, rfl⟩) ?_
  intro c hc hci
  rw [cand_unique hwf ha hc hci, hh]
  exact Or.inr (Or.inl ⟨rfl, Or.inl rfl⟩)

theorem StFwd_defeat (un : Bool) {s : St α} (hwf : s.WF) (a : Cand α) (ha : a ∈ s.cands) (hh : a.st = .hopeful) (verb : String) :
    StFwd un (stsig s) (stsig (s.defeat A a.cid verb)) := by
  unfold St.defeat
  rw [stsig_logAct]
  refine StFwd_upd un s a.cid (fun c => { c with st := .defeated }) .defeated (fun c => ⟨rfl, rfl⟩) ?_
  intro c hc hci
  rw [cand_unique hwf ha hc hci, hh]
  exact Or.inr (Or.inl ⟨rfl, Or.inr rfl⟩)

theorem stsig_of_cands {s t : St α} (h : t.cands = s.cands) : stsig t = stsig s := by unfold stsig; rw [h]

/-! ## one round -/

theorem qR2_fwd (q : QSt α) : StFwd q.restart (stsig q.s) (stsig (qR2 A q)) := by
  have h1 : stsig (qR1 A q) = stsig q.s := by
    apply stsig_of_cands; unfold qR1 St.newRound; rw [logAct_cands]
  unfold qR2
  by_cases hr : q.restart = true
  · rw [if_pos hr, hr]
    have hc : stsig (qRestart A (qR1 A q)) = stsig (unElect (qR1 A q)) := stsig_of_cands rfl
    rw [hc, ← h1]
    unfold unElect
    apply StFwd_map
    intro c _
    by_cases he : (c.st == CState.elected) = true
    · rw [if_pos he]
      refine ⟨rfl, Or.inr (Or.inr ⟨rfl, ?_, Or.inl rfl⟩)⟩
      simpa using he
    · rw [if_neg he]; exact ⟨rfl, okT_refl _ _⟩
  · rw [if_neg hr]
    exact StFwd.of_eq _ h1

/-- the decision of a round: one hopeful candidate is elected or excluded, or nothing changes -/
theorem qDecide_fwd (q1 : QSt α) (s5 : St α) (hwf : s5.WF) :
    StFwd false (stsig s5) (stsig (qDecide A q1 s5).1.s) := by
  unfold qDecide
  cases hh : s5.hopeful with
  | nil =>
    simp only
    exact StFwd.of_eq _ (stsig_setCrash s5 _)
  | cons hd hs =>
    simp only
    by_cases hg : A.gt (A.pyMax (qQuot A hd) (hs.map (qQuot A))) s5.quota = true
    · rw [if_pos hg]
      have hfr := (breakTie_frame A s5 (List.filter (fun c => A.eq (qQuot A c) (A.pyMax (qQuot A hd) (hs.map (qQuot A)))) (hd :: hs))
        "Break tie by lot (largest quotient)").1
      have hmem := breakTie_mem A s5 (List.filter (fun c => A.eq (qQuot A c) (A.pyMax (qQuot A hd) (hs.map (qQuot A)))) (hd :: hs))
        "Break tie by lot (largest quotient)"
      cases hb : breakTie A s5 (List.filter (fun c => A.eq (qQuot A c) (A.pyMax (qQuot A hd) (hs.map (qQuot A)))) (hd :: hs))
          "Break tie by lot (largest quotient)" with
      | mk s6 oc =>
        rw [hb] at hfr hmem
        simp only at hfr
        cases oc with
        | none => exact StFwd.of_eq _ (stsig_of_cands hfr)
        | some hc =>
          simp only
          have hwf6 : s6.WF := by unfold St.WF; rw [hfr]; exact hwf
          have hh6 : hc ∈ s6.cands ∧ hc.st = .hopeful := by
            have : hc ∈ s5.hopeful := by rw [hh]; exact (List.mem_filter.1 (hmem hc rfl)).1
            rw [hfr]; exact mem_hopeful.1 this
          rw [stsig_logAct]
          have e1 : stsig (mapBallots (qElected A s6 hc) (fun (b : Ballot α) =>
              if b.top == some hc.cid then qAdvance (qElected A s6 hc) { b with w := A.divV A.one (qQuot A hc) } else b))
              = stsig (qElected A s6 hc) := stsig_of_cands rfl
          rw [e1]
          have e2 : stsig (qElected A s6 hc) = stsig (s6.elect A hc.cid "Elect high quotient" false) := by
            unfold qElected
            split
            · exact stsig_setCrash _ _
            · rfl
          rw [e2, ← stsig_of_cands hfr]
          exact StFwd_elect A false hwf6 hc hh6.1 hh6.2 _ _
    · rw [if_neg hg]
      have hfr := (breakTie_frame A s5 (List.filter (fun c => A.eq (qQuot A c) (A.pyMin (qQuot A hd) (hs.map (qQuot A)))) (hd :: hs))
        "Break tie by lot (smallest quotient)").1
      have hmem := breakTie_mem A s5 (List.filter (fun c => A.eq (qQuot A c) (A.pyMin (qQuot A hd) (hs.map (qQuot A)))) (hd :: hs))
        "Break tie by lot (smallest quotient)"
      cases hb : breakTie A s5 (List.filter (fun c => A.eq (qQuot A c) (A.pyMin (qQuot A hd) (hs.map (qQuot A)))) (hd :: hs))
          "Break tie by lot (smallest quotient)" with
      | mk s6 oc =>
        rw [hb] at hfr hmem
        simp only at hfr
        cases oc with
        | none => exact StFwd.of_eq _ (stsig_of_cands hfr)
        | some lc =>
          simp only
          have hwf6 : s6.WF := by unfold St.WF; rw [hfr]; exact hwf
          have hl6 : lc ∈ s6.cands ∧ lc.st = .hopeful := by
            have : lc ∈ s5.hopeful := by rw [hh]; exact (List.mem_filter.1 (hmem lc rfl)).1
            rw [hfr]; exact mem_hopeful.1 this
          rw [stsig_logAct]
          have e1 : stsig (mapBallots (s6.defeat A lc.cid "Defeat low quotient") (fun (b : Ballot α) =>
              if b.top == some lc.cid then qAdvance (s6.defeat A lc.cid "Defeat low quotient") b else b))
              = stsig (s6.defeat A lc.cid "Defeat low quotient") := stsig_of_cands rfl
          rw [e1, ← stsig_of_cands hfr]
          exact StFwd_defeat A false hwf6 lc hl6.1 hl6.2 _

/-- **one round of QPQ**: statuses move forward; an elected candidate is un-elected only if a restart was due -/
theorem qpqBody_fwd (q : QSt α) (hwf : q.s.WF) : StFwd q.restart (stsig q.s) (stsig (qpqBody A q).1.s) := by
  rw [qpqBody_eq]
  have h2 := qR2_fwd A q
  have h5 : stsig (qR5 A q) = stsig (qR2 A q) := (qR5_stsig A q).1
  have hwf5 : (qR5 A q).WF := WF_of_stsig h5 (h2.WF hwf)
  have hd := (qDecide_fwd A (qQ1 A q) (qR5 A q) hwf5).mono q.restart
  rw [h5] at hd
  exact h2.trans hd

/-! ## the whole count -/

theorem qpqLoop_fwd : ∀ (fuel : Nat) (q r : QSt α), q.s.WF → qpqLoop A fuel q = some r → StFwd true (stsig q.s) (stsig r.s) := by
  intro fuel
  induction fuel with
  | zero => intro q r _ h; cases h
  | succ n ih =>
    intro q r hwf h
    unfold qpqLoop at h
    split at h
    · cases h; exact StFwd.refl _ _
    · split at h
      · have hb := qpqBody_fwd A q hwf
        have hb' : StFwd true (stsig q.s) (stsig (qpqBody A q).1.s) := by
          cases hr : q.restart with
          | true => rw [hr] at hb; exact hb
          | false => rw [hr] at hb; exact hb.mono true
        cases hq : qpqBody A q with
        | mk q' fl =>
          rw [hq] at h hb'
          cases fl with
          | cont => exact hb'.trans (ih q' r (hb'.WF hwf) h)
          | brk => cases h; exact hb'
      · cases h; exact StFwd.refl _ _

def AllHop (s : St α) (ids : List Nat) : Prop := ∀ i ∈ ids, ∀ c ∈ s.cands, c.cid = i → c.st = .hopeful ∨ c.st = .elected
def AllHopD (s : St α) (ids : List Nat) : Prop := ∀ i ∈ ids, ∀ c ∈ s.cands, c.cid = i → c.st = .hopeful ∨ c.st = .defeated

theorem foldElect_fwd (un : Bool) (verb : String) : ∀ (l : List (Cand α)) (s : St α), AllHop s (l.map (·.cid)) →
    StFwd un (stsig s) (stsig (l.foldl (fun acc c => acc.elect A c.cid verb false) s)) := by
  intro l
  induction l with
  | nil => intro s _; exact StFwd.refl _ _
  | cons a as ih =>
    intro s hs
    simp only [List.foldl_cons]
    have h1 : StFwd un (stsig s) (stsig (s.elect A a.cid verb false)) := by
      unfold St.elect
      rw [stsig_logAct]
      refine StFwd_upd un s a.cid (fun c => { c with st := .elected, pending := false }) .elected (fun c => ⟨rfl, rfl⟩) ?_
      intro c hc hci
      rcases hs a.cid (by simp) c hc hci with h | h
      · rw [h]; exact Or.inr (Or.inl ⟨rfl, Or.inl rfl⟩)
      · rw [h]; exact Or.inl rfl
    refine h1.trans (ih _ ?_)
    intro i hi c' hc' hci
    unfold St.elect at hc'
    rw [logAct_cands] at hc'
    obtain ⟨c, hc, rfl⟩ := mem_upd.1 hc'
    by_cases he : (c.cid == a.cid) = true
    · rw [if_pos he]; exact Or.inr rfl
    · rw [if_neg he] at hci ⊢
      exact hs i (List.mem_cons_of_mem _ hi) c hc hci

theorem foldDefeat_fwd (un : Bool) (verb : String) : ∀ (l : List (Cand α)) (s : St α), AllHopD s (l.map (·.cid)) →
    StFwd un (stsig s) (stsig (l.foldl (fun acc c => acc.defeat A c.cid verb) s)) := by
  intro l
  induction l with
  | nil => intro s _; exact StFwd.refl _ _
  | cons a as ih =>
    intro s hs
    simp only [List.foldl_cons]
    have h1 : StFwd un (stsig s) (stsig (s.defeat A a.cid verb)) := by
      unfold St.defeat
      rw [stsig_logAct]
      refine StFwd_upd un s a.cid (fun c => { c with st := .defeated }) .defeated (fun c => ⟨rfl, rfl⟩) ?_
      intro c hc hci
      rcases hs a.cid (by simp) c hc hci with h | h
      · rw [h]; exact Or.inr (Or.inl ⟨rfl, Or.inr rfl⟩)
      · rw [h]; exact Or.inl rfl
    refine h1.trans (ih _ ?_)
    intro i hi c' hc' hci
    unfold St.defeat at hc'
    rw [logAct_cands] at hc'
    obtain ⟨c, hc, rfl⟩ := mem_upd.1 hc'
    by_cases he : (c.cid == a.cid) = true
    · rw [if_pos he]; exact Or.inr rfl
    · rw [if_neg he] at hci ⊢
      exact hs i (List.mem_cons_of_mem _ hi) c hc hci

theorem allHop_hopeful {s : St α} (hwf : s.WF) : AllHop s (s.hopeful.map (·.cid)) := by
  intro i hi c hc hci
  obtain ⟨a, ha, rfl⟩ := List.mem_map.1 hi
  obtain ⟨ha1, ha2⟩ := mem_hopeful.1 ha
  rw [cand_unique hwf ha1 hc hci]; exact Or.inl ha2

theorem allHopD_hopeful {s : St α} (hwf : s.WF) : AllHopD s (s.hopeful.map (·.cid)) := by
  intro i hi c hc hci
  obtain ⟨a, ha, rfl⟩ := List.mem_map.1 hi
  obtain ⟨ha1, ha2⟩ := mem_hopeful.1 ha
  rw [cand_unique hwf ha1 hc hci]; exact Or.inl ha2

theorem qpqFinish_fwd (un : Bool) (q : QSt α) (hwf : q.s.WF) : StFwd un (stsig q.s) (stsig (qpqFinish A q)) := by
  unfold qpqFinish
  split
  · exact StFwd.refl _ _
  · simp only
    have h4 : StFwd un (stsig q.s) (stsig (if decide ((q.s.hopeful.length : Int) ≤ q.s.seatsLeft) then
              q.s.hopeful.foldl (fun acc c => acc.elect A c.cid "Elect remaining candidates" false) q.s else q.s)) := by
      split
      · exact foldElect_fwd A un _ _ _ (allHop_hopeful hwf)
      · exact StFwd.refl _ _
    exact h4.trans (foldDefeat_fwd A un _ _ _ (allHopD_hopeful (h4.WF hwf)))

theorem qpqStart_stsig (s0 : St α) : stsig (qpqStart A s0).s = stsig s0 := by
  unfold qpqStart
  simp only
  rw [stsig_logAct]
  show stsig (qS1 A s0) = stsig s0
  unfold qS1
  exact stsig_mapKeep s0 _ (fun c => by split <;> exact ⟨rfl, rfl⟩)

/-- **the whole QPQ count**: candidate by candidate, the final status is reached from the initial one by permitted moves -/
theorem qpqCount_fwd (s0 t : St α) (hwf : s0.WF) (h : qpqCount A s0 = some t) : StFwd true (stsig s0) (stsig t) := by
  rw [qpqCount_eq] at h
  cases hl : qpqLoop A (s0.cands.length * (s0.cands.length + 2) + 3) (qpqStart A s0) with
  | none => rw [hl] at h; cases h
  | some r =>
    rw [hl] at h
    simp only [Option.map_some, Option.some.injEq] at h
    subst h
    have hs := qpqStart_stsig A s0
    have hwf1 : (qpqStart A s0).s.WF := WF_of_stsig hs hwf
    have h1 := qpqLoop_fwd A _ _ _ hwf1 hl
    rw [hs] at h1
    exact h1.trans (qpqFinish_fwd A true r (h1.WF hwf))

/-- what `StFwd` says about one candidate -/
theorem StFwd.at {un : Bool} {l l' : List (Nat × CState)} (h : StFwd un l l') (i : Nat) (st' : CState) (hm : (i, st') ∈ l') :
    ∃ st, (i, st) ∈ l ∧ okT un st st' := by
  unfold StFwd at h
  induction h with
  | nil => cases hm
  | @cons p p' ps ps' hp _ ih =>
    rcases List.mem_cons.1 hm with e | hm'
    · refine ⟨p.2, ?_, ?_⟩
      · have : p = (i, p.2) := by
          have h1 : p'.1 = i := by rw [← e]
          rw [← h1, hp.1]
        rw [← this]; exact List.mem_cons_self ..
      · have h2 : p'.2 = st' := by rw [← e]
        rw [← h2]; exact hp.2
    · obtain ⟨st, hst, hok⟩ := ih hm'
      exact ⟨st, List.mem_cons_of_mem _ hst, hok⟩

/-- ... and read from the other side -/
theorem StFwd.at_left {un : Bool} {l l' : List (Nat × CState)} (h : StFwd un l l') (i : Nat) (st : CState) (hm : (i, st) ∈ l) :
    ∃ st', (i, st') ∈ l' ∧ okT un st st' := by
  unfold StFwd at h
  induction h with
  | nil => cases hm
  | @cons p p' ps ps' hp _ ih =>
    rcases List.mem_cons.1 hm with e | hm'
    · refine ⟨p'.2, ?_, ?_⟩
      · have : p' = (i, p'.2) := by
          have h1 : p.1 = i := by rw [← e]
          rw [← h1, ← hp.1]
        rw [← this]; exact List.mem_cons_self ..
      · have h2 : p.2 = st := by rw [← e]
        rw [← h2]; exact hp.2
    · obtain ⟨st', hst, hok⟩ := ih hm'
      exact ⟨st', List.mem_cons_of_mem _ hst, hok⟩

end Droop
