import DroopModel
import Mathlib.Tactic.Linarith

/-! # The reader stores what the file says (C15, second tier)

`Stored pr`: the ballot total is the sum of the multipliers of the stored lines, no stored ranking is empty, and no stored
ranking names a withdrawn candidate. It holds of the empty profile, the header loop keeps the lines empty, the ballot loop
maintains it (the withdrawn set no longer changes there), names/title/source/comment do not touch it. -/
namespace Droop

def sumMult {β : Type} (l : List (Nat × β)) : Nat := (l.map (·.1)).sum

structure Stored (pr : Prof) : Prop where
  total : pr.nBallots = sumMult pr.ballotLines + sumMult pr.ballotLinesEq
  strict : ∀ bl ∈ pr.ballotLines, bl.2 ≠ [] ∧ ∀ c ∈ bl.2, c ∉ pr.withdrawn
  equal : ∀ bl ∈ pr.ballotLinesEq, bl.2 ≠ [] ∧ ∀ g ∈ bl.2, g ≠ [] ∧ ∀ c ∈ g, c ∉ pr.withdrawn

/-- nothing stored yet -/
def NoLines (pr : Prof) : Prop := pr.nBallots = 0 ∧ pr.ballotLines = [] ∧ pr.ballotLinesEq = []

theorem Stored.of_noLines {pr : Prof} (h : NoLines pr) : Stored pr := by
  obtain ⟨h1, h2, h3⟩ := h
  refine ⟨by rw [h1, h2, h3]; rfl, ?_, ?_⟩
  · rw [h2]; intro bl hbl; cases hbl
  · rw [h3]; intro bl hbl; cases hbl

/-- same stored data and same withdrawn set -/
theorem Stored.of_same {pr pr' : Prof} (h : Stored pr) (h1 : pr'.nBallots = pr.nBallots) (h2 : pr'.ballotLines = pr.ballotLines)
    (h3 : pr'.ballotLinesEq = pr.ballotLinesEq) (h4 : pr'.withdrawn = pr.withdrawn) : Stored pr' :=
  ⟨by rw [h1, h2, h3]; exact h.total, by rw [h2, h4]; exact h.strict, by rw [h3, h4]; exact h.equal⟩

theorem mem_stripRank {wd rank : List Nat} {c : Nat} (h : c ∈ stripRank wd rank) : c ∉ wd := by
  unfold stripRank at h
  rw [List.mem_filter] at h
  simpa using h.2

theorem addBallot_stored {pr pr' : Prof} (h : Stored pr) (mult : Nat) (ranking : List (List Nat))
    (he : addBallot pr mult ranking = .ok pr') : Stored pr' ∧ pr'.withdrawn = pr.withdrawn ∧ pr'.nCand = pr.nCand
      ∧ pr'.nickCid = pr.nickCid := by
  unfold addBallot at he
  dsimp only at he
  have hkept : ∀ g ∈ (ranking.map (stripRank pr.withdrawn)).filter (fun r => !r.isEmpty), g ≠ [] ∧ ∀ c ∈ g, c ∉ pr.withdrawn := by
    intro g hg
    rw [List.mem_filter] at hg
    obtain ⟨hg1, hg2⟩ := hg
    obtain ⟨r0, _, rfl⟩ := List.mem_map.1 hg1
    refine ⟨by intro e; rw [e] at hg2; simp at hg2, fun c hc => mem_stripRank hc⟩
  split at he
  · cases he; exact ⟨h, rfl, rfl, rfl⟩
  · rename_i hne
    have hne' : (ranking.map (stripRank pr.withdrawn)).filter (fun r => !r.isEmpty) ≠ [] := by
      intro e; rw [e] at hne; simp at hne
    split at he
    · cases he
      refine ⟨⟨?_, h.strict, ?_⟩, rfl, rfl, rfl⟩
      · show pr.nBallots + mult = sumMult pr.ballotLines + sumMult ((mult, _) :: pr.ballotLinesEq)
        have := h.total; unfold sumMult at *; simp only [List.map_cons, List.sum_cons]; omega
      · intro bl hbl
        rcases List.mem_cons.1 hbl with rfl | hbl'
        · exact ⟨hne', hkept⟩
        · exact h.equal bl hbl'
    · cases he
      refine ⟨⟨?_, ?_, h.equal⟩, rfl, rfl, rfl⟩
      · show pr.nBallots + mult = sumMult ((mult, _) :: pr.ballotLines) + sumMult pr.ballotLinesEq
        have := h.total; unfold sumMult at *; simp only [List.map_cons, List.sum_cons]; omega
      · intro bl hbl
        rcases List.mem_cons.1 hbl with rfl | hbl'
        · refine ⟨?_, ?_⟩
          · intro e
            have := congrArg List.length e
            simp only [List.length_map, List.length_nil] at this
            exact hne' (List.eq_nil_of_length_eq_zero this)
          · intro c hc
            obtain ⟨g, hg, rfl⟩ := List.mem_map.1 hc
            obtain ⟨hgne, hgw⟩ := hkept g hg
            cases g with
            | nil => exact absurd rfl hgne
            | cons x xs => exact hgw x (by simp)
        · exact h.strict bl hbl'

/-- the ballot loop keeps `Stored` and the withdrawn set -/
theorem ballotLoop_stored : ∀ (fuel : Nat) (pr : Prof) (ids : List String) (tok : String) (rest : List String)
    (pr' : Prof) (ids' rest' : List String), Stored pr → ballotLoop fuel pr ids tok rest = .ok (pr', ids', rest') →
    Stored pr' ∧ pr'.withdrawn = pr.withdrawn := by
  intro fuel
  induction fuel with
  | zero => intro pr ids tok rest pr' ids' rest' _ h; simp [ballotLoop] at h
  | succ n ih =>
    intro pr ids tok rest pr' ids' rest' hs h
    unfold ballotLoop at h
    split at h
    · cases h
    · rename_i mult idsA rest1 _
      split at h
      · simp only [pure, Except.pure, Except.ok.injEq, Prod.mk.injEq] at h
        obtain ⟨rfl, _, _⟩ := h
        exact ⟨hs, rfl⟩
      · split at h
        · cases h
        · rename_i ranking rest2 _
          split at h
          · cases h
          · rename_i prA hA
            have hstep : Stored prA ∧ prA.withdrawn = pr.withdrawn := by
              unfold ballotStore at hA
              split at hA
              · simp only [pure, Except.pure, Except.ok.injEq] at hA; subst hA; exact ⟨hs, rfl⟩
              · obtain ⟨a, b, _, _⟩ := addBallot_stored hs mult ranking hA
                exact ⟨a, b⟩
            split at h
            · cases h
            · obtain ⟨a, b⟩ := ih _ _ _ _ _ _ _ hstep.1 h
              exact ⟨a, b.trans hstep.2⟩

/-! ## the header never stores a line -/
theorem bltApply_lines {pr pr' : Prof} {name : String} {l : List String} (he : bltApply pr name l = .ok pr') :
    pr'.nBallots = pr.nBallots ∧ pr'.ballotLines = pr.ballotLines ∧ pr'.ballotLinesEq = pr.ballotLinesEq := by
  unfold bltApply at he
  split at he
  · unfold optTie at he
    split at he
    · cases he
    · split at he
      · cases he
      · simp only [pure, Except.pure, Except.ok.injEq] at he; subst he; exact ⟨rfl, rfl, rfl⟩
  · split at he
    · unfold optNick at he
      split at he
      · cases he
      · split at he
        · cases he
        · simp only [pure, Except.pure, Except.ok.injEq] at he; subst he; exact ⟨rfl, rfl, rfl⟩
    · split at he
      · simp only [pure, Except.pure, Except.ok.injEq] at he; subst he; exact ⟨rfl, rfl, rfl⟩
      · split at he
        · split at he
          · cases he
          · simp only [pure, Except.pure, Except.ok.injEq] at he; subst he; exact ⟨rfl, rfl, rfl⟩
        · split at he
          · split at he
            · cases he
            · simp only [pure, Except.pure, Except.ok.injEq] at he; subst he; exact ⟨rfl, rfl, rfl⟩
          · cases he

theorem bltOption_noLines {pr pr' : Prof} {opt : String} {rest rest' : List String} (h : NoLines pr)
    (he : bltOption pr opt rest = .ok (pr', rest')) : NoLines pr' := by
  obtain ⟨h1, h2, h3⟩ := h
  unfold bltOption at he
  split at he
  · cases he
  · split at he
    · cases he
    · rename_i prA hA
      simp only [pure, Except.pure, Except.ok.injEq, Prod.mk.injEq] at he
      obtain ⟨rfl, _⟩ := he
      obtain ⟨k1, k2, k3⟩ := bltApply_lines hA
      exact ⟨k1.trans h1, k2.trans h2, k3.trans h3⟩

theorem headerLoop_noLines : ∀ (fuel : Nat) (pr : Prof) (tok : String) (rest : List String) (pr' : Prof) (tok' : String)
    (rest' : List String), NoLines pr → headerLoop fuel pr tok rest = .ok (pr', tok', rest') → NoLines pr' := by
  intro fuel
  induction fuel with
  | zero => intro pr tok rest pr' tok' rest' _ h; simp [headerLoop] at h
  | succ n ih =>
    intro pr tok rest pr' tok' rest' hn h
    unfold headerLoop at h
    split at h
    · split at h
      · cases h
      · rename_i prA restA hA
        split at h
        · cases h
        · exact ih _ _ _ _ _ _ (bltOption_noLines hn hA) h
    · split at h
      · simp only [pure, Except.pure, Except.ok.injEq, Prod.mk.injEq] at h
        obtain ⟨rfl, _, _⟩ := h; exact hn
      · split at h
        · split at h
          · simp only [pure, Except.pure, Except.ok.injEq, Prod.mk.injEq] at h
            obtain ⟨rfl, _, _⟩ := h; exact hn
          · split at h
            · cases h
            · split at h
              · cases h
              · split at h
                · cases h
                · refine ih _ _ _ _ _ _ ?_ h
                  exact ⟨hn.1, hn.2.1, hn.2.2⟩
        · cases h

/-! ## names, title, source, comment do not touch the stored ballots -/
theorem readNames_same : ∀ (n cid : Nat) (pr : Prof) (rest : List String) (pr' : Prof) (rest' : List String),
    readNames n cid pr rest = .ok (pr', rest') →
    pr'.nBallots = pr.nBallots ∧ pr'.ballotLines = pr.ballotLines ∧ pr'.ballotLinesEq = pr.ballotLinesEq
    ∧ pr'.withdrawn = pr.withdrawn := by
  intro n
  induction n with
  | zero =>
    intro cid pr rest pr' rest' h
    simp only [readNames, pure, Except.pure, Except.ok.injEq, Prod.mk.injEq] at h
    obtain ⟨rfl, _⟩ := h; exact ⟨rfl, rfl, rfl, rfl⟩
  | succ k ih =>
    intro cid pr rest pr' rest' h
    unfold readNames at h
    split at h
    · cases h
    · split at h
      · cases h
      · split at h
        · cases h
        · obtain ⟨a, b, c, d⟩ := ih _ _ _ _ _ h
          exact ⟨a, b, c, d⟩

theorem parseTail_same {pr pr' : Prof} {rest : List String} (h : parseTail pr rest = .ok pr') :
    pr'.nBallots = pr.nBallots ∧ pr'.ballotLines = pr.ballotLines ∧ pr'.ballotLinesEq = pr.ballotLinesEq
    ∧ pr'.withdrawn = pr.withdrawn := by
  unfold parseTail at h
  repeat' split at h
  all_goals first
    | (simp only [pure, Except.pure, Except.ok.injEq] at h; subst h; exact ⟨rfl, rfl, rfl, rfl⟩)
    | cases h

/-- **whatever the reader accepts has its ballots stored faithfully**: the ballot total is the sum of the multipliers of the
    lines kept, no kept ranking is empty, no kept ranking names a withdrawn candidate -/
theorem parseCore_stored {toks : List String} {pr : Prof} (h : parseCore toks = .ok pr) : Stored pr := by
  unfold parseCore at h
  split at h
  · cases h
  · split at h
    · cases h
    · split at h
      · cases h
      · split at h
        · cases h
        · split at h
          · cases h
          · split at h
            · cases h
            · rename_i pr1 tok rest hh
              split at h
              · cases h
              · rename_i pr2 ids rest2 hb
                split at h
                · cases h
                · split at h
                  · cases h
                  · rename_i pr3 rest3 hn
                    have h1 := headerLoop_noLines _ _ _ _ _ _ _ ⟨rfl, rfl, rfl⟩ hh
                    obtain ⟨h2, _⟩ := ballotLoop_stored _ _ _ _ _ _ _ _ (Stored.of_noLines h1) hb
                    obtain ⟨a, b, c, d⟩ := readNames_same _ _ _ _ _ _ hn
                    obtain ⟨a', b', c', d'⟩ := parseTail_same h
                    exact (h2.of_same a b c d).of_same a' b' c' d'

theorem Stored.finalProf {pr : Prof} (h : Stored pr) : Stored (finalProf pr) := by
  unfold Droop.finalProf
  refine ⟨?_, ?_, ?_⟩
  · show pr.nBallots = sumMult pr.ballotLines.reverse + sumMult pr.ballotLinesEq.reverse
    have := h.total
    unfold sumMult at *
    rw [List.map_reverse, List.sum_reverse, List.map_reverse, List.sum_reverse]; exact this
  · intro bl hbl; exact h.strict bl (List.mem_reverse.1 hbl)
  · intro bl hbl; exact h.equal bl (List.mem_reverse.1 hbl)

theorem parseText_stored {text : List Char} {pf : Profile} (h : parseText text = .ok pf) : Stored pf.pr := by
  unfold parseText at h
  split at h
  · cases h
  · unfold parseTokens at h
    simp only [bind, Except.bind] at h
    split at h
    · cases h
    · rename_i prc hc
      unfold finishProfile at h
      simp only [bind, Except.bind] at h
      split at h
      · cases h
      · simp only [pure, Except.pure, Except.ok.injEq] at h
        subst h
        exact (parseCore_stored hc).finalProf

end Droop
