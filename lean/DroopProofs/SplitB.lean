import DroopProofs.PermBMore

/-! # C10: splitting a ballot line `(m, r)` into `(m₁, r)` and `(m − m₁, r)` is a transformation the count commutes with

`splitBallots i m1` replaces the `i`-th ballot `b` by two copies carrying `min m1 b.mult` and the rest of its multiplier;
`splitViews i` duplicates the `i`-th entry of a logged ballot view.  Both copies move together (same ranking, position and
weight), and weight × multiplier is exact, so the two halves credit exactly what the whole credited: `XF_split`.  Read from
right to left the same equations say that *merging* two adjacent identical lines changes nothing. -/
namespace Droop
variable {α : Type} [CommRing α] [LinearOrder α] [IsStrictOrderedRing α] (A : Arith α)

def splitOne (m1 : Nat) (b : Ballot α) : List (Ballot α) :=
  [{ b with mult := min m1 b.mult }, { b with mult := b.mult - min m1 b.mult }]

def splitBallots (i m1 : Nat) (l : List (Ballot α)) : List (Ballot α) :=
  l.take i ++ (match l.drop i with
               | b :: r => splitOne m1 b ++ r
               | [] => [])

def splitViews (i : Nat) (l : List (Nat × α)) : List (Nat × α) :=
  l.take i ++ (match l.drop i with
               | a :: r => a :: a :: r
               | [] => [])

theorem moveBallot_setMult (s : St α) (cids : List Nat) (rew : α → α) (b : Ballot α) (m : Nat) :
    moveBallot s cids rew { b with mult := m } = { moveBallot s cids rew b with mult := m } := by
  unfold moveBallot
  have ht : ({ b with mult := m } : Ballot α).top = b.top := rfl
  rw [ht]
  cases b.top with
  | none => rfl
  | some c =>
    simp only
    split
    · unfold advanceTo
      simp only
      cases (b.rank.drop b.idx).findIdx? (fun cid => s.isHopeful cid) <;> rfl
    · rfl

/-- two effects on the same destination add up -/
theorem applyEff_add (hA : LawfulArith A) (st : St α) (d : Option Nat) (v1 v2 : α) :
    applyEff A (applyEff A st (some (d, v1))) (some (d, v2)) = applyEff A st (some (d, v1 + v2)) := by
  cases d with
  | none =>
    unfold applyEff
    simp only [hA.add_eq]
    congr 1; ring
  | some c =>
    unfold applyEff St.addVote St.upd
    simp only [List.map_map]
    congr 1
    apply List.map_congr_left
    intro x _
    simp only [Function.comp]
    by_cases h1 : (x.cid == c) = true
    · simp only [h1, if_true, hA.add_eq]; congr 1; ring
    · simp only [h1, Bool.false_eq_true, if_false]

theorem bvote_setMult (hA : LawfulArith A) (b : Ballot α) (m : Nat) :
    bvote A { b with mult := m } = b.w * ((m : Int) : α) := by
  rw [bvote_eq A hA]

/-- the effect of a ballot with its multiplier replaced: same destination, value = moved weight × the new multiplier -/
theorem effOf_setMult (hA : LawfulArith A) (h : Nat → Bool) (cids : List Nat) (rew : α → α) (b : Ballot α) (m : Nat) :
    effOf A h cids rew { b with mult := m } =
      match b.top with
      | none => none
      | some c =>
        if cids.contains c then
          some ((advanceTo h { b with w := rew b.w }).top, (advanceTo h { b with w := rew b.w }).w * ((m : Int) : α))
        else none := by
  unfold effOf
  have ht : ({ b with mult := m } : Ballot α).top = b.top := rfl
  rw [ht]
  cases b.top with
  | none => rfl
  | some c =>
    simp only
    split
    · have hadv : advanceTo h ({ ({ b with mult := m } : Ballot α) with w := rew b.w })
          = { advanceTo h { b with w := rew b.w } with mult := m } := by
        unfold advanceTo
        simp only
        cases (b.rank.drop b.idx).findIdx? h <;> rfl
      simp only at hadv
      rw [hadv, bvote_setMult A hA]
      rfl
    · rfl

theorem effOf_self (hA : LawfulArith A) (h : Nat → Bool) (cids : List Nat) (rew : α → α) (b : Ballot α) :
    effOf A h cids rew b =
      match b.top with
      | none => none
      | some c =>
        if cids.contains c then
          some ((advanceTo h { b with w := rew b.w }).top, (advanceTo h { b with w := rew b.w }).w * ((b.mult : Int) : α))
        else none := by
  have := effOf_setMult A hA h cids rew b b.mult
  simpa using this

/-- the two halves of a split ballot have, together, the effect of the whole -/
theorem tstate_split (hA : LawfulArith A) (cids : List Nat) (rew : α → α) (st : St α) (b : Ballot α) (m1 : Nat) :
    (splitOne m1 b).foldl (tstate A cids rew) st = tstate A cids rew st b := by
  unfold splitOne
  simp only [List.foldl_cons, List.foldl_nil]
  rw [tstate_eq A cids rew st, tstate_eq, tstate_eq A cids rew st b, isHopeful_applyEff,
    effOf_setMult A hA, effOf_setMult A hA, effOf_self A hA]
  cases b.top with
  | none => rfl
  | some c =>
    simp only
    by_cases hc : cids.contains c = true
    · simp only [hc, if_true]
      rw [applyEff_add A hA]
      congr 2
      have hle : min m1 b.mult ≤ b.mult := Nat.min_le_right _ _
      have h1 : ((min m1 b.mult : Nat) : Int) + ((b.mult - min m1 b.mult : Nat) : Int) = (b.mult : Int) := by omega
      have h2 : (((min m1 b.mult : Nat) : Int) : α) + (((b.mult - min m1 b.mult : Nat) : Int) : α) = ((b.mult : Int) : α) := by
        rw [← Int.cast_add, h1]
      rw [← h2]; ring
    · simp only [hc, Bool.false_eq_true, if_false]; rfl

theorem fcStep_setMult (hA : LawfulArith A) (st : St α) (b : Ballot α) (m : Nat) :
    fcStep A st { b with mult := m } = applyEff A st (b.top.map (fun c => (some c, b.w * ((m : Int) : α)))) := by
  unfold fcStep applyEff
  have ht : ({ b with mult := m } : Ballot α).top = b.top := rfl
  rw [ht]
  cases b.top with
  | none => rfl
  | some c => simp only [Option.map_some]; rw [bvote_setMult A hA]

theorem fcStep_split (hA : LawfulArith A) (st : St α) (b : Ballot α) (m1 : Nat) :
    (splitOne m1 b).foldl (fcStep A) st = fcStep A st b := by
  unfold splitOne
  simp only [List.foldl_cons, List.foldl_nil]
  have hb : fcStep A st b = fcStep A st { b with mult := b.mult } := rfl
  rw [hb, fcStep_setMult A hA, fcStep_setMult A hA, fcStep_setMult A hA]
  cases b.top with
  | none => rfl
  | some c =>
    simp only [Option.map_some]
    rw [applyEff_add A hA]
    congr 2
    have hle : min m1 b.mult ≤ b.mult := Nat.min_le_right _ _
    have h1 : ((min m1 b.mult : Nat) : Int) + ((b.mult - min m1 b.mult : Nat) : Int) = (b.mult : Int) := by omega
    have h2 : (((min m1 b.mult : Nat) : Int) : α) + (((b.mult - min m1 b.mult : Nat) : Int) : α) = ((b.mult : Int) : α) := by
      rw [← Int.cast_add, h1]
    rw [← h2]; ring

/-- splitting one ballot line is a transformation every Gregory count commutes with -/
theorem XF_split (hA : LawfulArith A) (i m1 : Nat) : XF A (splitBallots (α := α) i m1) (splitViews i) := by
  refine ⟨?_, ?_, ?_, ?_, ?_⟩
  · intro l
    unfold splitBallots splitViews splitOne
    rw [← List.map_take, ← List.map_drop, List.map_append]
    congr 1
    cases l.drop i with
    | nil => rfl
    | cons b r => rfl
  · intro s cids rew l
    unfold splitBallots splitOne
    rw [← List.map_take, ← List.map_drop, List.map_append]
    congr 1
    cases l.drop i with
    | nil => rfl
    | cons b r =>
      simp only [List.map_cons, List.cons_append, List.nil_append]
      simp only [moveBallot_setMult, moveBallot_mult]
  · intro cids rew st l
    unfold splitBallots
    conv_rhs => rw [← List.take_append_drop i l]
    rw [List.foldl_append, List.foldl_append]
    cases l.drop i with
    | nil => rfl
    | cons b r =>
      simp only [List.foldl_append, List.foldl_cons]
      rw [tstate_split A hA]
  · intro st l
    unfold splitBallots
    conv_rhs => rw [← List.take_append_drop i l]
    rw [List.foldl_append, List.foldl_append]
    cases l.drop i with
    | nil => rfl
    | cons b r =>
      simp only [List.foldl_append, List.foldl_cons]
      rw [fcStep_split A hA]
  · intro f hf l
    unfold splitBallots
    conv_rhs => rw [← List.take_append_drop i l]
    rw [List.filter_append, List.filter_append, List.map_append, List.map_append, arith_sum_eq A hA, arith_sum_eq A hA,
      List.sum_append, List.sum_append]
    congr 1
    cases l.drop i with
    | nil => rfl
    | cons b r =>
      unfold splitOne
      simp only [List.cons_append, List.nil_append, List.filter_cons, hf]
      by_cases hb : f b = true
      · simp only [hb, if_true, List.map_cons, List.sum_cons]
        rw [bvote_setMult A hA, bvote_setMult A hA, bvote_eq A hA]
        have hle : min m1 b.mult ≤ b.mult := Nat.min_le_right _ _
        have h1 : ((min m1 b.mult : Nat) : Int) + ((b.mult - min m1 b.mult : Nat) : Int) = (b.mult : Int) := by omega
        have h2 : (((min m1 b.mult : Nat) : Int) : α) + (((b.mult - min m1 b.mult : Nat) : Int) : α) = ((b.mult : Int) : α) := by
          rw [← Int.cast_add, h1]
        rw [← h2]; ring
      · simp only [hb, Bool.false_eq_true, if_false]

end Droop
