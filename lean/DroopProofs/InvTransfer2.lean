import DroopProofs.InvTransfer

/-! # transferAll preserves the invariant bundle (all fields but `cons`, which depends on what is moved) -/
namespace Droop
variable {α : Type} [CommRing α] [LinearOrder α] [IsStrictOrderedRing α] (A : Arith α)

/-- the destination found by `advanceTo` satisfies the predicate -/
theorem advanceTo_top_cont (cont : Nat → Bool) (b : Ballot α) (c : Nat) (h : (advanceTo cont b).top = some c) :
    cont c = true := by
  unfold advanceTo at h
  cases hf : (b.rank.drop b.idx).findIdx? cont with
  | none =>
    rw [hf] at h
    simp [Ballot.top] at h
  | some k =>
    rw [hf] at h
    simp only [Ballot.top] at h
    have hk := List.findIdx?_eq_some_iff_getElem.1 hf
    obtain ⟨hlt, hck, _⟩ := hk
    have : (b.rank.drop b.idx)[k]? = some c := by
      rw [List.getElem?_drop]; exact h
    have : (b.rank.drop b.idx)[k] = c := by
      rw [List.getElem?_eq_getElem hlt] at this; exact Option.some.inj this
    rw [← this]; exact hck

theorem contrib_eq_zero_of_not_hopeful (s : St α) (cids : List Nat) (rew : α → α) (d : Nat) (b : Ballot α)
    (hd : s.isHopeful d = false) : contrib A s cids rew d b = 0 := by
  unfold contrib
  cases htop : b.top with
  | none => rfl
  | some c =>
    by_cases hc : c ∈ cids
    · simp only [List.contains_iff_mem, hc, if_true]
      split
      · rename_i hdest
        exfalso
        have : (moveBallot s cids rew b) = advanceTo (fun cid => s.isHopeful cid) { b with w := rew b.w } := by
          unfold moveBallot; simp [htop, hc]
        rw [this] at hdest
        have := advanceTo_top_cont _ _ _ hdest
        rw [hd] at this; exact absurd this (by decide)
      · rfl
    · simp [hc]

/-- weights after the transfer are non-negative if the re-weighting is non-negative on the moved ballots -/
theorem transferAll_wpos (s : St α) (cids : List Nat) (rew : α → α)
    (hw : ∀ b ∈ s.ballots, 0 ≤ b.w) (hr : ∀ b ∈ s.ballots, 0 ≤ rew b.w) :
    ∀ b ∈ (transferAll A s cids rew).ballots, 0 ≤ b.w := by
  rw [transferAll_ballots]
  intro b' hb'
  obtain ⟨b, hb, rfl⟩ := List.mem_map.1 hb'
  unfold moveBallot
  split
  · split
    · rw [advanceTo_w]; exact hr b hb
    · exact hw b hb
  · exact hw b hb

theorem moveBallot_rank (s : St α) (cids : List Nat) (rew : α → α) (b : Ballot α) :
    (moveBallot s cids rew b).rank = b.rank := by
  unfold moveBallot
  split
  · split
    · rw [advanceTo_rank]
    · rfl
  · rfl

theorem transferAll_bwf (s : St α) (cids : List Nat) (rew : α → α) (h : BallotsWF s) :
    BallotsWF (transferAll A s cids rew) := by
  intro b' hb' cid hcid
  rw [transferAll_ballots] at hb'
  obtain ⟨b, hb, rfl⟩ := List.mem_map.1 hb'
  rw [moveBallot_rank] at hcid
  rw [cand?_isSome_of_skel (transferAll_skel A s cids rew)]
  exact h b hb cid hcid

/-- exhausted only grows when the moved values are non-negative -/
theorem tstep_epos (hA : LawfulArith A) (cids : List Nat) (rew : α → α) (acc : St α × List (Ballot α)) (b : Ballot α)
    (hr : 0 ≤ rew b.w) (he : 0 ≤ acc.1.exhausted) : 0 ≤ (tstep A cids rew acc b).1.exhausted := by
  unfold tstep
  split
  · split
    · unfold transferBallot
      split
      · exact he
      · simp only [hA.add_eq]
        apply add_nonneg he
        rw [bvote_eq A hA, advanceTo_w, advanceTo_mult]
        exact mul_nonneg hr (by exact_mod_cast Nat.zero_le _)
    · exact he
  · exact he

theorem foldl_tstep_epos (hA : LawfulArith A) (cids : List Nat) (rew : α → α) (bs : List (Ballot α))
    (acc : St α × List (Ballot α)) (hr : ∀ b ∈ bs, 0 ≤ rew b.w) (he : 0 ≤ acc.1.exhausted) :
    0 ≤ (bs.foldl (tstep A cids rew) acc).1.exhausted := by
  induction bs generalizing acc with
  | nil => exact he
  | cons b bs ih =>
    simp only [List.foldl_cons]
    exact ih _ (fun b' hb' => hr b' (by simp [hb'])) (tstep_epos A hA cids rew acc b (hr b (by simp)) he)

theorem transferAll_epos (hA : LawfulArith A) (s : St α) (cids : List Nat) (rew : α → α)
    (hr : ∀ b ∈ s.ballots, 0 ≤ rew b.w) (he : 0 ≤ s.exhausted) : 0 ≤ (transferAll A s cids rew).exhausted := by
  have := foldl_tstep_epos A hA cids rew s.ballots (s, []) hr he
  simpa [transferAll] using this

/-- every field of the bundle except `cons`, for the state right after `transferAll` -/
structure InvNoCons (s : St α) : Prop where
  meth : s.method = .wigm
  recOK : RecOK A s
  wf   : s.WF
  bwf  : BallotsWF s
  wpos : ∀ b ∈ s.ballots, 0 ≤ b.w
  vpos : ∀ c ∈ s.cands, 0 ≤ c.vote
  epos : 0 ≤ s.exhausted
  qpos : 0 < s.quota
  i1   : ∀ c ∈ s.cands, c.inScope → c.vote = s.tally A c.cid
  pq   : ∀ c ∈ s.cands, c.st = .elected → c.pending = true → s.quota ≤ c.vote

theorem Inv.toNoCons {s : St α} (h : Inv A s) : InvNoCons A s :=
  ⟨h.meth, h.recOK, h.wf, h.bwf, h.wpos, h.vpos, h.epos, h.qpos, h.i1, h.pq⟩

theorem Inv.transferAll_noCons (hA : LawfulArith A) {s : St α} (h : Inv A s) (cids : List Nat) (rew : α → α)
    (hscope : ∀ c ∈ s.cands, c.inScope → c.cid ∉ cids)
    (hr : ∀ b ∈ s.ballots, 0 ≤ rew b.w) :
    InvNoCons A (transferAll A s cids rew) := by
  have hskel := transferAll_skel A s cids rew
  have hLA := lawfulAdd_of hA
  -- each candidate of the new state corresponds to an old one with vote = old + arrivals
  have hcorr : ∀ c' ∈ (transferAll A s cids rew).cands, ∃ c ∈ s.cands, c.skel = c'.skel ∧
      c'.vote = c.vote + (s.ballots.map (contrib A s cids rew c.cid)).sum := by
    intro c' hc'
    obtain ⟨c, hc, hsk⟩ := mem_of_skel_eq hskel hc'
    refine ⟨c, hc, hsk, ?_⟩
    have hwf' : (transferAll A s cids rew).WF := WF_of_skel hskel.symm h.wf
    have h1 := voteOf_of_mem hwf' hc'
    have h2 := voteOf_of_mem h.wf hc
    have h3 := transferAll_voteOf A hLA s h.bwf cids rew c'.cid
    rw [h1, ← skel_cid hsk, h2] at h3
    exact h3
  have hcontrib : ∀ d, 0 ≤ (s.ballots.map (contrib A s cids rew d)).sum := by
    intro d; apply sum_nonneg'
    intro b hb; exact contrib_nonneg A hA s cids rew d b (hr b hb)
  exact
    { meth := by rw [transferAll_method]; exact h.meth
      recOK := by unfold RecOK; rw [transferAll_acts, transferAll_nballots]; exact h.recOK
      wf := WF_of_skel hskel.symm h.wf
      bwf := transferAll_bwf A s cids rew h.bwf
      wpos := transferAll_wpos A s cids rew h.wpos hr
      vpos := by
        intro c' hc'
        obtain ⟨c, hc, _, hv⟩ := hcorr c' hc'
        rw [hv]; exact add_nonneg (h.vpos c hc) (hcontrib c.cid)
      epos := transferAll_epos A hA s cids rew hr h.epos
      qpos := by rw [transferAll_quota]; exact h.qpos
      i1 := by
        intro c' hc' hs
        obtain ⟨c, hc, hsk, _⟩ := hcorr c' hc'
        have hst := skel_st hsk
        have hsc : c.inScope := by
          unfold Cand.inScope at hs ⊢; rw [hst.1, hst.2]; exact hs
        have hnot : cids.contains c.cid = false := by
          have := hscope c hc hsc; simpa using this
        have hwf' : (transferAll A s cids rew).WF := WF_of_skel hskel.symm h.wf
        have hI : s.voteOf c.cid = s.tally A c.cid := by rw [voteOf_of_mem h.wf hc]; exact h.i1 c hc hsc
        have := transferAll_tally A hLA s h.bwf cids rew c.cid hnot hI
        rw [skel_cid hsk, voteOf_of_mem hwf' hc'] at this
        exact this
      pq := by
        intro c' hc' h1 h2
        obtain ⟨c, hc, hsk, hv⟩ := hcorr c' hc'
        have hst := skel_st hsk
        rw [transferAll_quota, hv]
        have := h.pq c hc (hst.1.trans h1) (hst.2.trans h2)
        linarith [hcontrib c.cid] }

end Droop
