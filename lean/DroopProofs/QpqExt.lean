import DroopProofs.QpqSeats
import DroopProofs.AppendOnly

/-! # C18 / C19 for QPQ: the record only grows

Every stage of a QPQ round either appends an action to the log or leaves the log alone; so do the start and the closing stage.
Hence the log of every earlier state of a count is a suffix of the log of every later one (`Ext`), and what an interrupted count
has logged is a prefix (oldest first) of what the full count logs. -/
namespace Droop
variable {α : Type} [CommRing α] [LinearOrder α] [IsStrictOrderedRing α] (A : Arith α)

theorem acts_upd (s : St α) (cid : Nat) (f : Cand α → Cand α) : (s.upd cid f).acts = s.acts := rfl

theorem qTally_acts (acc : QSt α) (b : Ballot α) : (qTally A acc b).s.acts = acc.s.acts := by
  unfold qTally; split <;> rfl

theorem foldl_qTally_acts (bs : List (Ballot α)) (acc : QSt α) : (bs.foldl (qTally A) acc).s.acts = acc.s.acts := by
  induction bs generalizing acc with
  | nil => rfl
  | cons b bs ih => simp only [List.foldl_cons]; rw [ih, qTally_acts]

theorem ext_qR5 (q : QSt α) : Ext q.s (qR5 A q) := by
  have h1 : Ext q.s (qR1 A q) := by unfold qR1; exact ext_newRound A q.s
  have h2 : Ext (qR1 A q) (qR2 A q) := by
    unfold qR2
    split
    · exact Ext.of_acts_eq rfl
    · exact Ext.refl _
  have h3 : Ext (qR2 A q) (qR4 A q) := by
    apply Ext.of_acts_eq
    show (qQ1 A q).s.acts = _
    unfold qQ1
    rw [foldl_qTally_acts]
    rfl
  have h5 : Ext (qR4 A q) (qR5 A q) := by
    unfold qR5
    split
    · refine Ext.trans ?_ (ext_setCrash _ _)
      exact Ext.of_acts_eq rfl
    · exact Ext.of_acts_eq rfl
  exact h1.trans (h2.trans (h3.trans h5))

theorem ext_qElected (s6 : St α) (hc : Cand α) : Ext s6 (qElected A s6 hc) := by
  unfold qElected
  split
  · exact (ext_elect A s6 _ _ _).trans (ext_setCrash _ _)
  · exact ext_elect A s6 _ _ _

theorem ext_qDecide (q1 : QSt α) (s5 : St α) : Ext s5 (qDecide A q1 s5).1.s := by
  unfold qDecide
  cases hh : s5.hopeful with
  | nil => simp only; exact ext_setCrash _ _
  | cons hd hs =>
    simp only
    by_cases hg : A.gt (A.pyMax (qQuot A hd) (hs.map (qQuot A))) s5.quota = true
    · rw [if_pos hg]
      have hb := ext_breakTie A s5 (List.filter (fun c => A.eq (qQuot A c) (A.pyMax (qQuot A hd) (hs.map (qQuot A)))) (hd :: hs))
        "Break tie by lot (largest quotient)"
      cases hbt : breakTie A s5 (List.filter (fun c => A.eq (qQuot A c) (A.pyMax (qQuot A hd) (hs.map (qQuot A)))) (hd :: hs))
          "Break tie by lot (largest quotient)" with
      | mk s6 oc =>
        rw [hbt] at hb
        cases oc with
        | none => exact hb
        | some hc =>
          simp only
          refine hb.trans ((ext_qElected A s6 hc).trans ?_)
          refine Ext.trans ?_ (ext_logAct A _ _ _ _)
          exact Ext.of_acts_eq rfl
    · rw [if_neg hg]
      have hb := ext_breakTie A s5 (List.filter (fun c => A.eq (qQuot A c) (A.pyMin (qQuot A hd) (hs.map (qQuot A)))) (hd :: hs))
        "Break tie by lot (smallest quotient)"
      cases hbt : breakTie A s5 (List.filter (fun c => A.eq (qQuot A c) (A.pyMin (qQuot A hd) (hs.map (qQuot A)))) (hd :: hs))
          "Break tie by lot (smallest quotient)" with
      | mk s6 oc =>
        rw [hbt] at hb
        cases oc with
        | none => exact hb
        | some lc =>
          simp only
          refine hb.trans ((ext_defeat A s6 lc.cid "Defeat low quotient").trans ?_)
          refine Ext.trans ?_ (ext_logAct A _ _ _ _)
          exact Ext.of_acts_eq rfl

/-- one round only appends -/
theorem ext_qpqBody (q : QSt α) : Ext q.s (qpqBody A q).1.s := by
  rw [qpqBody_eq]
  exact (ext_qR5 A q).trans (ext_qDecide A _ _)

theorem ext_qpqLoop : ∀ (fuel : Nat) (q r : QSt α), qpqLoop A fuel q = some r → Ext q.s r.s := by
  intro fuel
  induction fuel with
  | zero => intro q r h; cases h
  | succ n ih =>
    intro q r h
    unfold qpqLoop at h
    split at h
    · cases h; exact Ext.refl _
    · split at h
      · have hb := ext_qpqBody A q
        cases hq : qpqBody A q with
        | mk q' fl =>
          rw [hq] at h hb
          cases fl with
          | cont => exact hb.trans (ih q' r h)
          | brk => cases h; exact hb
      · cases h; exact Ext.refl _

theorem ext_qpqStart (s0 : St α) : Ext s0 (qpqStart A s0).s := by
  unfold qpqStart
  simp only
  refine Ext.trans ?_ (ext_logAct A _ _ _ _)
  exact Ext.of_acts_eq rfl

theorem ext_qpqFinish (q : QSt α) : Ext q.s (qpqFinish A q) := by
  unfold qpqFinish
  split
  · exact Ext.refl _
  · simp only
    have h4 : Ext q.s (if decide ((q.s.hopeful.length : Int) ≤ q.s.seatsLeft) then
        q.s.hopeful.foldl (fun acc c => acc.elect A c.cid "Elect remaining candidates" false) q.s else q.s) := by
      split
      · exact ext_foldl _ (fun (s : St α) (x : Cand α) => ext_elect A s x.cid _ _) _ _
      · exact Ext.refl _
    exact h4.trans (ext_foldl _ (fun (s : St α) (x : Cand α) => ext_defeat A s x.cid _) _ _)

/-- **the QPQ record is append-only**: the log of the start state is a suffix of the log of whatever the count returns -/
theorem qpq_record_appendOnly (s0 t : St α) (h : qpqCount A s0 = some t) : Ext s0 t := by
  rw [qpqCount_eq] at h
  cases hl : qpqLoop A (s0.cands.length * (s0.cands.length + 2) + 3) (qpqStart A s0) with
  | none => rw [hl] at h; cases h
  | some r =>
    rw [hl] at h
    simp only [Option.map_some, Option.some.injEq] at h
    subst h
    exact (ext_qpqStart A s0).trans ((ext_qpqLoop A _ _ _ hl).trans (ext_qpqFinish A r))

end Droop
