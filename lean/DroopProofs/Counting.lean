import DroopProofs.TerminateRun

/-! # Counting hopeful / elected candidates across the status primitives -/
namespace Droop
variable {α : Type} [CommRing α] [LinearOrder α] [IsStrictOrderedRing α] (A : Arith α)

def nHop (s : St α) : Nat := s.hopeful.length
def nEl (s : St α) : Nat := s.elected.length

theorem count_upd_unique (p : Cand α → Bool) (l : List (Cand α)) (a : Cand α) (f : Cand α → Cand α)
    (hnd : (l.map (·.cid)).Nodup) (ha : a ∈ l) :
    ((l.map (fun c => if c.cid == a.cid then f c else c)).filter p).length + (if p a then 1 else 0)
      = (l.filter p).length + (if p (f a) then 1 else 0) := by
  induction l with
  | nil => simp at ha
  | cons x xs ih =>
    simp only [List.map_cons, List.nodup_cons, List.mem_map, not_exists, not_and] at hnd
    rcases List.mem_cons.mp ha with rfl | ha'
    · have hrest : xs.map (fun c => if c.cid == a.cid then f c else c) = xs := by
        have : xs.map (fun c => if c.cid == a.cid then f c else c) = xs.map id := by
          apply List.map_congr_left
          intro c hc
          have hne : (c.cid == a.cid) = false := by
            have : c.cid ≠ a.cid := fun e => hnd.1 c hc e
            simp [this]
          simp only [hne, Bool.false_eq_true, if_false, id]
        simpa using this
      have haa : (a.cid == a.cid) = true := by simp
      simp only [List.map_cons, haa, if_true, hrest, List.filter_cons]
      by_cases h1 : p a = true <;> by_cases h2 : p (f a) = true <;>
        simp only [h1, h2, if_true, if_false, List.length_cons, Bool.false_eq_true] <;> omega
    · have hx : x.cid ≠ a.cid := fun e => hnd.1 a ha' e.symm
      have hxe : (x.cid == a.cid) = false := by simp [hx]
      have ih' := ih hnd.2 ha'
      simp only [List.map_cons, hxe, Bool.false_eq_true, if_false, List.filter_cons]
      by_cases h3 : p x = true
      · simp only [h3, if_true, List.length_cons]; omega
      · simp only [h3, Bool.false_eq_true, if_false]; exact ih'

theorem nHop_logAct (s : St α) (tag verb : String) (subj : List Nat) : nHop (s.logAct A tag verb subj) = nHop s := by
  unfold nHop St.hopeful; rw [logAct_cands]
theorem nEl_logAct (s : St α) (tag verb : String) (subj : List Nat) : nEl (s.logAct A tag verb subj) = nEl s := by
  unfold nEl St.elected; rw [logAct_cands]

def St.stl (s : St α) : List CState := s.cands.map (·.st)

theorem counts_of_stl {s t : St α} (h : t.stl = s.stl) : nHop t = nHop s ∧ nEl t = nEl s := by
  have key : ∀ (u : St α) (st : CState), (u.cands.filter (fun c => c.st == st)).length
      = (u.stl.filter (fun k => k == st)).length := by
    intro u st
    unfold St.stl
    rw [List.filter_map, List.length_map]
    rfl
  unfold nHop nEl St.hopeful St.elected
  rw [key t, key s, key t, key s, h]
  exact ⟨rfl, rfl⟩

theorem stl_of_skel {s t : St α} (h : t.skel = s.skel) : t.stl = s.stl := by
  have : ∀ (u : St α), u.stl = u.skel.map (fun k => k.2.2.2.2.1) := by
    intro u; unfold St.stl St.skel; rw [List.map_map]; rfl
  rw [this, this, h]

theorem counts_of_skel {s t : St α} (h : t.skel = s.skel) : nHop t = nHop s ∧ nEl t = nEl s :=
  counts_of_stl (stl_of_skel h)

/-- electing a hopeful candidate: one hopeful fewer, one elected more -/
theorem counts_elect (s : St α) (a : Cand α) (verb : String) (p : Bool) (hwf : s.WF) (ha : a ∈ s.cands)
    (hh : a.st = .hopeful) :
    nHop (s.elect A a.cid verb p) + 1 = nHop s ∧ nEl (s.elect A a.cid verb p) = nEl s + 1 := by
  unfold St.elect
  rw [nHop_logAct, nEl_logAct]
  unfold nHop nEl St.hopeful St.elected St.upd
  have h1 := count_upd_unique (fun c => c.st == .hopeful) s.cands a (fun c => { c with st := .elected, pending := p }) hwf ha
  have h2 := count_upd_unique (fun c => c.st == .elected) s.cands a (fun c => { c with st := .elected, pending := p }) hwf ha
  have e1 : (a.st == CState.hopeful) = true := by rw [hh]; rfl
  have e2 : (a.st == CState.elected) = false := by rw [hh]; rfl
  have e3 : (CState.elected == CState.hopeful) = false := rfl
  have e4 : (CState.elected == CState.elected) = true := rfl
  simp only [e1, e2, e3, e4, if_true, Bool.false_eq_true, if_false] at h1 h2
  constructor <;> omega

theorem counts_defeat (s : St α) (a : Cand α) (verb : String) (hwf : s.WF) (ha : a ∈ s.cands) (hh : a.st = .hopeful) :
    nHop (s.defeat A a.cid verb) + 1 = nHop s ∧ nEl (s.defeat A a.cid verb) = nEl s := by
  unfold St.defeat
  rw [nHop_logAct, nEl_logAct]
  unfold nHop nEl St.hopeful St.elected St.upd
  have h1 := count_upd_unique (fun c => c.st == .hopeful) s.cands a (fun c => { c with st := .defeated }) hwf ha
  have h2 := count_upd_unique (fun c => c.st == .elected) s.cands a (fun c => { c with st := .defeated }) hwf ha
  have e1 : (a.st == CState.hopeful) = true := by rw [hh]; rfl
  have e2 : (a.st == CState.elected) = false := by rw [hh]; rfl
  have e3 : (CState.defeated == CState.hopeful) = false := rfl
  have e4 : (CState.defeated == CState.elected) = false := rfl
  simp only [e1, e2, e3, e4, if_true, Bool.false_eq_true, if_false] at h1 h2
  constructor <;> omega

theorem stl_upd_keep_st (s : St α) (cid : Nat) (f : Cand α → Cand α) (hf : ∀ c, (f c).st = c.st) :
    (s.upd cid f).stl = s.stl := by
  unfold St.stl St.upd
  rw [List.map_map]
  apply List.map_congr_left
  intro c _
  simp only [Function.comp]
  split
  · exact hf c
  · rfl

theorem counts_unpendSilent (s : St α) (cid : Nat) :
    nHop (s.unpendSilent cid) = nHop s ∧ nEl (s.unpendSilent cid) = nEl s :=
  counts_of_stl (stl_upd_keep_st s cid _ (fun _ => rfl))

theorem counts_unpendLog (s : St α) (cid : Nat) (verb : String) :
    nHop (s.unpendLog A cid verb) = nHop s ∧ nEl (s.unpendLog A cid verb) = nEl s := by
  unfold St.unpendLog
  rw [nHop_logAct, nEl_logAct]
  exact counts_of_stl (stl_upd_keep_st s cid _ (fun _ => rfl))

end Droop
