import DroopProofs.RunWigm

/-! # C02, lower half: votes are not lost beyond rounding

`LInv A u s`: the votes credited to candidates plus the non-transferable total fall short of the number of ballots by at most
`u` per ballot per surplus transfer logged so far — in the state, and in every snapshot of the record with the number of
surplus transfers *up to that snapshot*. Exclusion transfers, elections, tie-breaks lose nothing; a surplus transfer loses less
than `u` per ballot that moves (`RewLower`: the re-weighting `rew w surplus vote` is at least `w·surplus/vote − u`, proved for
the two-step truncation and the fused multiply-divide of fixed-point arithmetic with `u` = two units in the last place, for a
tally of at least one vote). -/
namespace Droop
variable {α : Type} [CommRing α] [LinearOrder α] [IsStrictOrderedRing α] (A : Arith α)

/-! ## counting surplus transfers in the log -/
def isSTs (tag verb : String) : Bool := tag == "transfer" && (verb == "Surplus transferred" || verb == "Transfer surplus")
def nST (acts : List (Act α)) : Nat := (acts.filter (fun a => isSTs a.tag a.verb)).length

def snapTot (sn : Snap α) : α := ((sn.cs.filter (fun e => e.2.1 != "W")).map (fun e => e.2.2.1)).sum + sn.x1

def LowOK (u : α) (nb : Nat) (sn : Snap α) (t : Nat) : Prop :=
  ((nb : Int) : α) * A.one ≤ snapTot sn + u * ((nb : Int) : α) * (t : α)

/-- every snapshot of the record, with the surplus transfers logged up to and including its own action -/
def RecLow (u : α) (s : St α) : Prop :=
  ∀ (l : List (Act α)) (a : Act α), (a :: l) <:+ s.acts → ∀ sn, a.snap = some sn → LowOK A u s.nballots sn (nST (a :: l))

/-- what a re-weighting must satisfy for the lower bound: at a tally of at least one vote it loses less than `u` -/
def RewLower (u : α) (rew : α → α → α → α) : Prop :=
  ∀ w s v : α, 0 ≤ w → 0 ≤ s → A.one ≤ v → w * s ≤ (rew w s v + u) * v

structure LInv (u : α) (s : St α) : Prop where
  wz : ∀ c ∈ s.cands, c.st = .withdrawn → c.vote = 0
  nb : ((s.nballots : Int) : α) = (s.ballots.map (fun b => ((b.mult : Int) : α))).sum
  q1 : A.one ≤ s.quota
  low : ((s.nballots : Int) : α) * A.one ≤ s.total + u * ((s.nballots : Int) : α) * (nST s.acts : α)
  recl : RecLow A u s
  /-- every action of a Gregory record carries a snapshot (no `log` lines) -/
  snaps : ∀ a ∈ s.acts, a.snap.isSome = true

/-! ## the snapshot of a state shows the state's total -/
theorem sum_nonW (l : List (Cand α)) (m : Method) (hwz : ∀ c ∈ l, c.st = .withdrawn → c.vote = 0) :
    (((l.map (fun c => (c.cid, c.code m, c.vote, c.kf, c.quotient))).filter (fun e => e.2.1 != "W")).map (fun e => e.2.2.1)).sum
      = (l.map (·.vote)).sum := by
  induction l with
  | nil => simp
  | cons c cs ih =>
    have ih' := ih (fun x hx => hwz x (by simp [hx]))
    simp only [List.map_cons, List.sum_cons]
    cases hs : c.st with
    | withdrawn =>
      have hv := hwz c (by simp) hs
      have hcode : c.code m = "W" := by unfold Cand.code; rw [hs]
      rw [List.filter_cons]
      simp only [hcode, bne_self_eq_false, Bool.false_eq_true, if_false]
      rw [ih', hv]; simp
    | hopeful =>
      have hcode : (c.code m != "W") = true := by unfold Cand.code; rw [hs]; simp
      rw [List.filter_cons]; simp only [hcode, if_true, List.map_cons, List.sum_cons]; rw [ih']
    | defeated =>
      have hcode : (c.code m != "W") = true := by unfold Cand.code; rw [hs]; simp
      rw [List.filter_cons]; simp only [hcode, if_true, List.map_cons, List.sum_cons]; rw [ih']
    | elected =>
      have hcode : (c.code m != "W") = true := by
        unfold Cand.code; rw [hs]; dsimp only; split <;> simp
      rw [List.filter_cons]; simp only [hcode, if_true, List.map_cons, List.sum_cons]; rw [ih']

theorem snapTot_mkSnap (s : St α) (hm : s.method = .wigm) (hwz : ∀ c ∈ s.cands, c.st = .withdrawn → c.vote = 0) :
    snapTot (s.mkSnap A) = s.total := by
  unfold snapTot St.mkSnap St.total St.sumVotes
  simp only [hm]
  rw [sum_nonW s.cands .wigm hwz]
  rfl

/-! ## logging -/
theorem nST_cons (a : Act α) (l : List (Act α)) : nST (a :: l) = nST l + (if isSTs a.tag a.verb then 1 else 0) := by
  unfold nST; rw [List.filter_cons]; split <;> simp

/-- `logAct` on a state whose total already meets the bound *with the new action counted* -/
theorem LInv.logAct' (u : α) {s : St α} (hm : s.method = .wigm) (hwz : ∀ c ∈ s.cands, c.st = .withdrawn → c.vote = 0)
    (hnb : ((s.nballots : Int) : α) = (s.ballots.map (fun b => ((b.mult : Int) : α))).sum) (hq1 : A.one ≤ s.quota)
    (hrec : RecLow A u s) (hsn : ∀ a ∈ s.acts, a.snap.isSome = true) (tag verb : String) (subj : List Nat)
    (hlow : ((s.nballots : Int) : α) * A.one
      ≤ s.total + u * ((s.nballots : Int) : α) * ((nST s.acts + (if isSTs tag verb then 1 else 0) : Nat) : α)) :
    LInv A u (s.logAct A tag verb subj) := by
  have hfr : (s.logAct A tag verb subj).cands = s.cands ∧ (s.logAct A tag verb subj).ballots = s.ballots
      ∧ (s.logAct A tag verb subj).exhausted = s.exhausted ∧ (s.logAct A tag verb subj).quota = s.quota
      ∧ (s.logAct A tag verb subj).nballots = s.nballots := by
    unfold St.logAct; simp only; split <;> exact ⟨rfl, rfl, rfl, rfl, rfl⟩
  obtain ⟨e1, e2, e3, e4, e5⟩ := hfr
  -- the new action and its snapshot
  have hacts : ∃ a : Act α, (s.logAct A tag verb subj).acts = a :: s.acts ∧ a.tag = tag ∧ a.verb = verb
      ∧ ∃ sn, a.snap = some sn ∧ snapTot sn = s.total := by
    unfold St.logAct; simp only
    split
    · refine ⟨_, rfl, rfl, rfl, _, rfl, ?_⟩
      exact snapTot_mkSnap A { s with rounds := s.rounds ++ [s.cands] } hm hwz
    · exact ⟨_, rfl, rfl, rfl, _, rfl, snapTot_mkSnap A s hm hwz⟩
  obtain ⟨a, ha, hat, hav, sn0, hsn0, htot0⟩ := hacts
  have hn : nST (s.logAct A tag verb subj).acts = nST s.acts + (if isSTs tag verb then 1 else 0) := by
    rw [ha, nST_cons, hat, hav]
  have htotal : (s.logAct A tag verb subj).total = s.total := by
    unfold St.total St.sumVotes; rw [e1, e3]
  refine ⟨by rw [e1]; exact hwz, by rw [e5, e2]; exact hnb, by rw [e4]; exact hq1, ?_, ?_, ?_⟩
  · rw [e5, htotal, hn]; exact hlow
  rotate_left
  · intro a' ha'
    rw [ha] at ha'
    rcases List.mem_cons.1 ha' with rfl | h'
    · rw [hsn0]; rfl
    · exact hsn a' h'
  · intro l a' hsuf sn hsn
    rw [ha] at hsuf
    rw [e5]
    rcases List.suffix_cons_iff.1 hsuf with heq | hsuf'
    · have h1 : a' = a := (List.cons.inj heq).1
      have h2 : l = s.acts := (List.cons.inj heq).2
      subst h1; subst h2
      rw [hsn0] at hsn; cases hsn
      unfold LowOK
      rw [htot0, ← ha, hn]; exact hlow
    · exact hrec l a' hsuf' sn hsn

theorem LInv.logAct (u : α) {s : St α} (h : LInv A u s) (hm : s.method = .wigm) (tag verb : String) (subj : List Nat)
    (hns : isSTs tag verb = false) : LInv A u (s.logAct A tag verb subj) := by
  apply LInv.logAct' A u hm h.wz h.nb h.q1 h.recl h.snaps
  simp only [hns, Bool.false_eq_true, if_false, Nat.add_zero]
  exact h.low

/-- anything that keeps candidates, ballots, the non-transferable total, quota, ballot count and the log -/
theorem LInv.of_same (u : α) {s t : St α} (h : LInv A u s) (hc : t.cands = s.cands) (hb : t.ballots = s.ballots)
    (he : t.exhausted = s.exhausted) (hq : t.quota = s.quota) (hn : t.nballots = s.nballots) (ha : t.acts = s.acts) :
    LInv A u t := by
  have htot : t.total = s.total := by unfold St.total St.sumVotes; rw [hc, he]
  refine ⟨by rw [hc]; exact h.wz, by rw [hn, hb]; exact h.nb, by rw [hq]; exact h.q1, by rw [hn, htot, ha]; exact h.low, ?_,
    by rw [ha]; exact h.snaps⟩
  intro l a hsuf sn hsn
  rw [ha] at hsuf; rw [hn]
  exact h.recl l a hsuf sn hsn

/-- a status-only update (votes kept, nobody becomes withdrawn) -/
theorem LInv.upd_status (u : α) {s : St α} (h : LInv A u s) (cid : Nat) (f : Cand α → Cand α)
    (hv : ∀ c, (f c).vote = c.vote) (hw : ∀ c, (f c).st = .withdrawn → c.st = .withdrawn) : LInv A u (s.upd cid f) := by
  have hvotes : (s.upd cid f).cands.map (·.vote) = s.cands.map (·.vote) := by
    unfold St.upd; simp only [List.map_map]
    apply List.map_congr_left
    intro c _; simp only [Function.comp]; split
    · exact hv c
    · rfl
  have htot : (s.upd cid f).total = s.total := by
    unfold St.total St.sumVotes; rw [hvotes]; rfl
  refine ⟨?_, h.nb, h.q1, by rw [htot]; exact h.low, h.recl, h.snaps⟩
  intro c' hc' hst
  obtain ⟨c, hc, rfl⟩ := mem_upd.1 hc'
  by_cases hcc : (c.cid == cid) = true
  · simp only [hcc, if_true] at hst ⊢
    rw [hv]; exact h.wz c hc (hw c hst)
  · have hf : (c.cid == cid) = false := by simpa using hcc
    simp only [hf, Bool.false_eq_true, if_false] at hst ⊢
    exact h.wz c hc hst

theorem isSTs_false_of_tag (tag verb : String) (h : (tag == "transfer") = false) : isSTs tag verb = false := by
  unfold isSTs; rw [h]; rfl

theorem LInv.elect (u : α) {s : St α} (h : LInv A u s) (hm : s.method = .wigm) (cid : Nat) (verb : String) (p : Bool) :
    LInv A u (s.elect A cid verb p) := by
  unfold St.elect
  exact (h.upd_status A u cid (fun c => { c with st := .elected, pending := p }) (fun _ => rfl)
    (fun c hc => CState.noConfusion hc)).logAct A u hm _ _ _ (isSTs_false_of_tag "elect" verb (by decide))

theorem LInv.defeat (u : α) {s : St α} (h : LInv A u s) (hm : s.method = .wigm) (cid : Nat) (verb : String) :
    LInv A u (s.defeat A cid verb) := by
  unfold St.defeat
  exact (h.upd_status A u cid (fun c => { c with st := .defeated }) (fun _ => rfl)
    (fun c hc => CState.noConfusion hc)).logAct A u hm _ _ _ (isSTs_false_of_tag "defeat" verb (by decide))

theorem LInv.unpendLog (u : α) {s : St α} (h : LInv A u s) (hm : s.method = .wigm) (cid : Nat) (verb : String) :
    LInv A u (s.unpendLog A cid verb) := by
  unfold St.unpendLog
  exact (h.upd_status A u cid (fun c => { c with pending := false }) (fun _ => rfl) (fun c hc => hc)).logAct A u hm _ _ _
    (isSTs_false_of_tag "unpend" verb (by decide))

theorem LInv.unpendSilent (u : α) {s : St α} (h : LInv A u s) (cid : Nat) : LInv A u (s.unpendSilent cid) := by
  unfold St.unpendSilent
  exact h.upd_status A u cid (fun c => { c with pending := false }) (fun _ => rfl) (fun c hc => hc)

theorem LInv.newRound (u : α) {s : St α} (h : LInv A u s) (hm : s.method = .wigm) : LInv A u (s.newRound A) := by
  unfold St.newRound
  exact (h.of_same A u (t := { s with round := s.round + 1 }) rfl rfl rfl rfl rfl rfl).logAct A u hm _ _ _
    (isSTs_false_of_tag "round" "New Round" (by decide))

theorem LInv.setCrash (u : α) {s : St α} (h : LInv A u s) (k : String) : LInv A u (s.setCrash k) := by
  unfold St.setCrash; split
  · exact h
  · exact h.of_same A u rfl rfl rfl rfl rfl rfl

theorem LInv.setSurplus (u : α) {s : St α} (h : LInv A u s) (v : α) : LInv A u (s.setSurplus v) :=
  h.of_same A u rfl rfl rfl rfl rfl rfl

theorem LInv.breakTie (u : α) {s : St α} (h : LInv A u s) (hm : s.method = .wigm) (tied : List (Cand α)) (verb : String) :
    LInv A u (Droop.breakTie A s tied verb).1 := by
  unfold Droop.breakTie
  split
  · exact h.setCrash A u _
  · exact h
  · exact h.logAct A u hm _ _ _ (isSTs_false_of_tag "tie" verb (by decide))

theorem LInv.scotBreakTie (u : α) {s : St α} (h : LInv A u s) (hm : s.method = .wigm) (tied : List (Cand α))
    (lowest : Bool) (reason : String) : LInv A u (Droop.scotBreakTie A s tied lowest reason).1 := by
  unfold Droop.scotBreakTie
  split
  · exact h.setCrash A u _
  · exact h
  · dsimp only
    split
    · exact h.logAct A u hm _ _ _ (isSTs_false_of_tag "tie" _ (by decide))
    · exact h.logAct A u hm _ _ _ (isSTs_false_of_tag "tie" _ (by decide))

/-! ## transfers: what `transferAll` leaves alone -/
theorem moveBallot_mult (s : St α) (cids : List Nat) (rew : α → α) (b : Ballot α) :
    (moveBallot s cids rew b).mult = b.mult := by
  unfold moveBallot
  split
  · split
    · rw [advanceTo_mult]
    · rfl
  · rfl

theorem transferAll_mults (s : St α) (cids : List Nat) (rew : α → α) :
    (transferAll A s cids rew).ballots.map (fun b => ((b.mult : Int) : α)) = s.ballots.map (fun b => ((b.mult : Int) : α)) := by
  rw [transferAll_ballots, List.map_map]
  apply List.map_congr_left
  intro b _
  simp only [Function.comp, moveBallot_mult]

/-- nothing arrives at a withdrawn candidate -/
theorem transferAll_wz (hA : LawfulArith A) {s : St α} (hI : Inv A s) (cids : List Nat) (rew : α → α)
    (hwz : ∀ c ∈ s.cands, c.st = .withdrawn → c.vote = 0) :
    ∀ c ∈ (transferAll A s cids rew).cands, c.st = .withdrawn → c.vote = 0 := by
  intro c' hc' hst
  have hskel := transferAll_skel A s cids rew
  obtain ⟨c, hc, hsk⟩ := mem_of_skel_eq hskel hc'
  have hwf' : (transferAll A s cids rew).WF := WF_of_skel hskel.symm hI.wf
  have h1 := voteOf_of_mem hwf' hc'
  have h2 := voteOf_of_mem hI.wf hc
  have h3 := transferAll_voteOf A (lawfulAdd_of hA) s hI.bwf cids rew c'.cid
  have hcst : c.st = .withdrawn := (skel_st hsk).1.trans hst
  have hz : (s.ballots.map (contrib A s cids rew c.cid)).sum = 0 := by
    have : s.ballots.map (contrib A s cids rew c.cid) = s.ballots.map (fun _ => (0 : α)) := by
      apply List.map_congr_left
      intro b _
      exact contrib_eq_zero_of_not_hopeful A s cids rew c.cid b
        (isHopeful_false_of s hI.wf c hc (by rw [hcst]; intro e; cases e))
    rw [this]; simp
  rw [h1, ← skel_cid hsk, h2, hz, add_zero] at h3
  rw [h3]; exact hwz c hc hcst

theorem setVote_wz {s : St α} (cid : Nat) (v : α) (hwz : ∀ c ∈ s.cands, c.st = .withdrawn → c.vote = 0)
    (hv : v = 0 ∨ ∀ c ∈ s.cands, c.cid = cid → c.st ≠ .withdrawn) :
    ∀ c ∈ (s.setVote cid v).cands, c.st = .withdrawn → c.vote = 0 := by
  intro c' hc' hst
  obtain ⟨c, hc, rfl⟩ := mem_upd.1 hc'
  by_cases hcc : (c.cid == cid) = true
  · simp only [hcc, if_true] at hst ⊢
    rcases hv with hv | hv
    · exact hv
    · exact absurd hst (hv c hc (by simpa using hcc))
  · have hf : (c.cid == cid) = false := by simpa using hcc
    simp only [hf, Bool.false_eq_true, if_false] at hst ⊢
    exact hwz c hc hst

theorem foldSetZero_wz (hA : LawfulArith A) (cids : List Nat) {s : St α}
    (hwz : ∀ c ∈ s.cands, c.st = .withdrawn → c.vote = 0) :
    ∀ c ∈ (cids.foldl (fun acc c => acc.setVote c A.zero) s).cands, c.st = .withdrawn → c.vote = 0 := by
  induction cids generalizing s with
  | nil => exact hwz
  | cons x xs ih =>
    simp only [List.foldl_cons]
    exact ih (setVote_wz x A.zero hwz (Or.inl hA.zero_eq))

theorem foldSetZero_frame (cids : List Nat) (s : St α) :
    (cids.foldl (fun acc c => acc.setVote c A.zero) s).ballots = s.ballots
    ∧ (cids.foldl (fun acc c => acc.setVote c A.zero) s).exhausted = s.exhausted
    ∧ (cids.foldl (fun acc c => acc.setVote c A.zero) s).quota = s.quota
    ∧ (cids.foldl (fun acc c => acc.setVote c A.zero) s).nballots = s.nballots
    ∧ (cids.foldl (fun acc c => acc.setVote c A.zero) s).acts = s.acts
    ∧ (cids.foldl (fun acc c => acc.setVote c A.zero) s).method = s.method := by
  induction cids generalizing s with
  | nil => exact ⟨rfl, rfl, rfl, rfl, rfl, rfl⟩
  | cons x xs ih => simp only [List.foldl_cons]; exact ih _

/-! ## an exclusion transfer loses nothing -/
theorem defeatedCore_total (hA : LawfulArith A) {s : St α} (h : Inv A s) (cids : List Nat) (hnd : cids.Nodup)
    (hx : ∀ cid ∈ cids, ∃ x ∈ s.cands, x.cid = cid ∧ ¬ x.inScope ∧ x.st ≠ .hopeful ∧ x.vote = s.tally A cid) :
    (defeatedCore A s cids).total = s.total := by
  unfold defeatedCore
  have hskel := transferAll_skel A s cids id
  have hwf' : (transferAll A s cids id).WF := WF_of_skel hskel.symm h.wf
  have hvote : ∀ cid ∈ cids, (transferAll A s cids id).voteOf cid = s.voteOf cid := by
    intro cid hcid
    obtain ⟨x, hxm, hxc, _, hnh, _⟩ := hx cid hcid
    have h3 := transferAll_voteOf A (lawfulAdd_of hA) s h.bwf cids id cid
    have hz : (s.ballots.map (contrib A s cids id cid)).sum = 0 := by
      have : s.ballots.map (contrib A s cids id cid) = s.ballots.map (fun _ => (0 : α)) := by
        apply List.map_congr_left
        intro b _
        rw [← hxc]
        exact contrib_eq_zero_of_not_hopeful A s cids id x.cid b (isHopeful_false_of s h.wf x hxm hnh)
      rw [this]; simp
    rw [hz, add_zero] at h3; exact h3
  have htot := transferAll_total A hA s h.wf h.bwf cids id
  have hex' : ∀ cid ∈ cids, ∃ x ∈ (transferAll A s cids id).cands, x.cid = cid := by
    intro cid hcid
    obtain ⟨x, hxm, hxc, _⟩ := hx cid hcid
    have : x.skel ∈ s.skel := List.mem_map.2 ⟨x, hxm, rfl⟩
    rw [← hskel] at this
    obtain ⟨x', hx', hsk⟩ := List.mem_map.1 this
    exact ⟨x', hx', (skel_cid hsk).trans hxc⟩
  have hsv := sumVotes_foldSetZero A hA (transferAll A s cids id) hwf' cids hnd hex'
  have hmoved : (s.ballots.map (movedVal A s cids id)).sum = (cids.map (fun cid => s.voteOf cid)).sum := by
    have e1 := List.map_congr_left (l := s.ballots) (fun b _ => movedVal_id A hA s cids b)
    rw [e1, sum_by_source s.ballots (fun b => b.w * ((b.mult : Int) : α)) cids hnd]
    congr 1
    apply List.map_congr_left
    intro cid hcid
    obtain ⟨x, hxm, hxc, _, _, hI⟩ := hx cid hcid
    rw [← tally_explicit A hA, ← hI, ← hxc]
    exact (voteOf_of_mem h.wf hxm).symm
  have hvs : (cids.map (fun cid => (transferAll A s cids id).voteOf cid)).sum = (cids.map (fun cid => s.voteOf cid)).sum := by
    congr 1; exact List.map_congr_left (fun cid hcid => hvote cid hcid)
  unfold St.total at htot ⊢
  rw [(foldSetZero_frame A cids _).2.1, hsv, hvs]
  linarith

/-- the state of an exclusion transfer just before it is logged -/
theorem LInv.defeatedCore (hA : LawfulArith A) (u : α) {s : St α} (h : Inv A s) (hl : LInv A u s)
    (cids : List Nat) (hnd : cids.Nodup)
    (hx : ∀ cid ∈ cids, ∃ x ∈ s.cands, x.cid = cid ∧ ¬ x.inScope ∧ x.st ≠ .hopeful ∧ x.vote = s.tally A cid) :
    LInv A u (Droop.defeatedCore A s cids) ∧ (Droop.defeatedCore A s cids).method = .wigm := by
  have htot := defeatedCore_total A hA h cids hnd hx
  have hfr := foldSetZero_frame A cids (transferAll A s cids id)
  have hcore : LInv A u (Droop.defeatedCore A s cids) := by
    refine ⟨?_, ?_, ?_, ?_, ?_, ?_⟩
    rotate_right
    · unfold Droop.defeatedCore; rw [hfr.2.2.2.2.1, transferAll_acts]; exact hl.snaps
    · exact foldSetZero_wz A hA cids (transferAll_wz A hA h cids id hl.wz)
    · show ((St.nballots _ : Int) : α) = _
      unfold Droop.defeatedCore
      rw [hfr.2.2.2.1, hfr.1, transferAll_nballots, transferAll_mults]; exact hl.nb
    · unfold Droop.defeatedCore; rw [hfr.2.2.1, transferAll_quota]; exact hl.q1
    · rw [htot]; unfold Droop.defeatedCore; rw [hfr.2.2.2.1, hfr.2.2.2.2.1, transferAll_nballots, transferAll_acts]; exact hl.low
    · intro l a hsuf sn hsn
      unfold Droop.defeatedCore at hsuf ⊢
      rw [hfr.2.2.2.2.1, transferAll_acts] at hsuf
      rw [hfr.2.2.2.1, transferAll_nballots]
      exact hl.recl l a hsuf sn hsn
  have hm : (Droop.defeatedCore A s cids).method = .wigm := by
    unfold Droop.defeatedCore; rw [hfr.2.2.2.2.2, transferAll_method]; exact h.meth
  exact ⟨hcore, hm⟩

theorem LInv.transferDefeatedMany (hA : LawfulArith A) (u : α) {s : St α} (h : Inv A s) (hl : LInv A u s)
    (cids : List Nat) (verb : String) (hverb : isSTs "transfer" verb = false) (hnd : cids.Nodup)
    (hx : ∀ cid ∈ cids, ∃ x ∈ s.cands, x.cid = cid ∧ ¬ x.inScope ∧ x.st ≠ .hopeful ∧ x.vote = s.tally A cid) :
    LInv A u (Droop.transferDefeated A s cids verb) := by
  rw [transferDefeated_eq]
  obtain ⟨hcore, hm⟩ := LInv.defeatedCore A hA u h hl cids hnd hx
  exact hcore.logAct A u hm _ _ _ hverb

/-! ## a surplus transfer loses less than `u` per ballot that moves -/
theorem sum_rew_ge (f : α → α) (u sur v : α) (l : List (Ballot α)) (hc : Nat)
    (hf : ∀ b ∈ l, b.w * sur ≤ (f b.w + u) * v) :
    sur * (l.map (fun b => if b.top = some hc then b.w * ((b.mult : Int) : α) else 0)).sum
      ≤ ((l.map (fun b => if b.top = some hc then f b.w * ((b.mult : Int) : α) else 0)).sum
          + u * (l.map (fun b => if b.top = some hc then ((b.mult : Int) : α) else 0)).sum) * v := by
  induction l with
  | nil => simp
  | cons b bs ih =>
    simp only [List.map_cons, List.sum_cons]
    have ih' := ih (fun b' hb' => hf b' (by simp [hb']))
    have hb := hf b (by simp)
    have hm : (0 : α) ≤ ((b.mult : Int) : α) := by exact_mod_cast Nat.zero_le _
    by_cases ht : b.top = some hc
    · simp only [ht, if_true]
      nlinarith [mul_le_mul_of_nonneg_right hb hm]
    · simp only [ht, if_false]
      linarith

theorem sum_mults_le (l : List (Ballot α)) (hc : Nat) :
    (l.map (fun b => if b.top = some hc then ((b.mult : Int) : α) else 0)).sum ≤ (l.map (fun b => ((b.mult : Int) : α))).sum := by
  induction l with
  | nil => simp
  | cons b bs ih =>
    simp only [List.map_cons, List.sum_cons]
    have hm : (0 : α) ≤ ((b.mult : Int) : α) := by exact_mod_cast Nat.zero_le _
    split <;> linarith

theorem surplus_moved_ge (hA : LawfulArith A) (u : α) (rew : α → α → α → α) (hlow : RewLower A u rew) (s : St α) (hc : Nat)
    (sur v : α) (hsur : 0 ≤ sur) (hv1 : A.one ≤ v) (hw : ∀ b ∈ s.ballots, 0 ≤ b.w) (hu : 0 ≤ u)
    (hI : (s.ballots.map (fun b => if b.top = some hc then b.w * ((b.mult : Int) : α) else 0)).sum = v) :
    sur ≤ (s.ballots.map (movedVal A s [hc] (fun w => rew w sur v))).sum
          + u * (s.ballots.map (fun b => ((b.mult : Int) : α))).sum := by
  have hv : 0 < v := lt_of_lt_of_le hA.one_pos hv1
  have hrw : s.ballots.map (movedVal A s [hc] (fun w => rew w sur v))
      = s.ballots.map (fun b => if b.top = some hc then (rew b.w sur v) * ((b.mult : Int) : α) else 0) := by
    apply List.map_congr_left
    intro b _
    exact movedVal_surplus A hA s hc _ b
  rw [hrw]
  have key := sum_rew_ge (fun w => rew w sur v) u sur v s.ballots hc
    (fun b hb => hlow b.w sur v (hw b hb) hsur hv1)
  rw [hI] at key
  have hM := sum_mults_le s.ballots hc
  have h1 : sur ≤ (s.ballots.map (fun b => if b.top = some hc then (rew b.w sur v) * ((b.mult : Int) : α) else 0)).sum
      + u * (s.ballots.map (fun b => if b.top = some hc then ((b.mult : Int) : α) else 0)).sum :=
    le_of_mul_le_mul_right key hv
  have h2 : u * (s.ballots.map (fun b => if b.top = some hc then ((b.mult : Int) : α) else 0)).sum
      ≤ u * (s.ballots.map (fun b => ((b.mult : Int) : α))).sum := mul_le_mul_of_nonneg_left hM hu
  linarith

/-- Σ votes + non-transferable after a surplus transfer = before + what the ballots carry away − the surplus -/
theorem surplusCore_total (hA : LawfulArith A) (rew0 : α → α → α → α) {s : St α} (h : Inv A s) (x : Cand α)
    (hx : x ∈ s.cands) (hnh : x.st ≠ .hopeful) :
    (surplusCore A s x rew0).total = s.total
      + (s.ballots.map (movedVal A s [x.cid] (fun w => rew0 w (x.vote - s.quota) x.vote))).sum - (x.vote - s.quota) := by
  unfold surplusCore
  simp only [hA.sub_eq]
  set rew : α → α := fun w => rew0 w (x.vote - s.quota) x.vote with hrew
  have hskel := transferAll_skel A s [x.cid] rew
  have hwf' : (transferAll A s [x.cid] rew).WF := WF_of_skel hskel.symm h.wf
  have hx'ex : ∃ x' ∈ (transferAll A s [x.cid] rew).cands, x'.skel = x.skel := by
    have : x.skel ∈ s.skel := List.mem_map.2 ⟨x, hx, rfl⟩
    rw [← hskel] at this
    obtain ⟨x', hx', hsk⟩ := List.mem_map.1 this
    exact ⟨x', hx', hsk⟩
  obtain ⟨x', hx'm, hx'sk⟩ := hx'ex
  have hx'cid : x'.cid = x.cid := skel_cid hx'sk
  have hx'vote : x'.vote = x.vote := by
    have h1 := voteOf_of_mem hwf' hx'm
    have h2 := voteOf_of_mem h.wf hx
    have h3 := transferAll_voteOf A (lawfulAdd_of hA) s h.bwf [x.cid] rew x.cid
    have hz : (s.ballots.map (contrib A s [x.cid] rew x.cid)).sum = 0 := by
      have : s.ballots.map (contrib A s [x.cid] rew x.cid) = s.ballots.map (fun _ => (0 : α)) := by
        apply List.map_congr_left
        intro b _
        exact contrib_eq_zero_of_not_hopeful A s [x.cid] rew x.cid b (isHopeful_false_of s h.wf x hx hnh)
      rw [this]; simp
    rw [hz, add_zero, h2] at h3
    rw [← h1, hx'cid]; exact h3
  have hq' : (transferAll A s [x.cid] rew).quota = s.quota := transferAll_quota A s _ _
  have htot := transferAll_total A hA s h.wf h.bwf [x.cid] rew
  have hsv := sumVotes_setVote (transferAll A s [x.cid] rew) x.cid (transferAll A s [x.cid] rew).quota x' hwf' hx'm hx'cid
  have hex : ((transferAll A s [x.cid] rew).setVote x.cid (transferAll A s [x.cid] rew).quota).exhausted
      = (transferAll A s [x.cid] rew).exhausted := rfl
  unfold St.total at htot ⊢
  rw [hex, hsv, hx'vote, hq']
  linarith

/-- the state of a surplus transfer just before it is logged: everything `LInv.logAct'` asks for, the transfer counted -/
theorem LInv.surplusCore_pre (hA : LawfulArith A) (u : α) (hu : 0 ≤ u) (rew0 : α → α → α → α) (hlow : RewLower A u rew0)
    {s : St α} (h : Inv A s) (hl : LInv A u s) (x : Cand α)
    (hx : x ∈ s.cands) (hnh : x.st ≠ .hopeful) (hnw : x.st ≠ .withdrawn)
    (hI : x.vote = s.tally A x.cid) (hq : s.quota ≤ x.vote) :
    (Droop.surplusCore A s x rew0).method = .wigm
    ∧ (∀ c ∈ (Droop.surplusCore A s x rew0).cands, c.st = .withdrawn → c.vote = 0)
    ∧ (((Droop.surplusCore A s x rew0).nballots : Int) : α)
        = ((Droop.surplusCore A s x rew0).ballots.map (fun b => ((b.mult : Int) : α))).sum
    ∧ A.one ≤ (Droop.surplusCore A s x rew0).quota
    ∧ RecLow A u (Droop.surplusCore A s x rew0)
    ∧ (∀ a ∈ (Droop.surplusCore A s x rew0).acts, a.snap.isSome = true)
    ∧ (((Droop.surplusCore A s x rew0).nballots : Int) : α) * A.one
        ≤ (Droop.surplusCore A s x rew0).total
          + u * (((Droop.surplusCore A s x rew0).nballots : Int) : α) * ((nST (Droop.surplusCore A s x rew0).acts + 1 : Nat) : α) := by
  have htot := surplusCore_total A hA rew0 h x hx hnh
  have hsur : 0 ≤ x.vote - s.quota := sub_nonneg.2 hq
  have hv1 : A.one ≤ x.vote := le_trans hl.q1 hq
  have hmoved := surplus_moved_ge A hA u rew0 hlow s x.cid (x.vote - s.quota) x.vote hsur hv1 h.wpos hu
    (by rw [← tally_explicit A hA]; exact hI.symm)
  have hn0 : (0 : α) ≤ ((s.nballots : Int) : α) := by exact_mod_cast Nat.zero_le _
  -- frame of the core
  have hcands_wz : ∀ c ∈ (surplusCore A s x rew0).cands, c.st = .withdrawn → c.vote = 0 := by
    unfold surplusCore
    apply setVote_wz _ _ (transferAll_wz A hA h _ _ hl.wz)
    right
    intro c hc hcc
    obtain ⟨c0, hc0, hsk⟩ := mem_of_skel_eq (transferAll_skel A s _ _) hc
    have : c0 = x := nodup_cid_eq h.wf hc0 hx ((skel_cid hsk).trans hcc)
    rw [← (skel_st hsk).1, this]; exact hnw
  have hfr : (surplusCore A s x rew0).nballots = s.nballots ∧ (surplusCore A s x rew0).quota = s.quota
      ∧ (surplusCore A s x rew0).acts = s.acts ∧ (surplusCore A s x rew0).method = s.method
      ∧ (surplusCore A s x rew0).ballots.map (fun b => ((b.mult : Int) : α)) = s.ballots.map (fun b => ((b.mult : Int) : α)) := by
    unfold surplusCore
    refine ⟨transferAll_nballots A s _ _, transferAll_quota A s _ _, transferAll_acts A s _ _, transferAll_method A s _ _, ?_⟩
    exact transferAll_mults A s _ _
  obtain ⟨f1, f2, f3, f4, f5⟩ := hfr
  refine ⟨f4.trans h.meth, hcands_wz, by rw [f1, f5]; exact hl.nb, by rw [f2]; exact hl.q1, ?_, by rw [f3]; exact hl.snaps, ?_⟩
  · intro l a hsuf sn hsn
    rw [f3] at hsuf; rw [f1]
    exact hl.recl l a hsuf sn hsn
  · rw [f1, f3, htot]
    have hlow0 := hl.low
    rw [← hl.nb] at hmoved
    rw [Nat.cast_add, Nat.cast_one]
    nlinarith

theorem LInv.transferSurplus (hA : LawfulArith A) (u : α) (hu : 0 ≤ u) (rew0 : α → α → α → α) (hlow : RewLower A u rew0)
    {s : St α} (h : Inv A s) (hl : LInv A u s) (x : Cand α) (verb : String)
    (hverb : isSTs "transfer" verb = true)
    (hx : x ∈ s.cands) (hnh : x.st ≠ .hopeful) (hnw : x.st ≠ .withdrawn)
    (hI : x.vote = s.tally A x.cid) (hq : s.quota ≤ x.vote) :
    LInv A u (Droop.transferSurplus A s x rew0 verb) := by
  rw [transferSurplus_eq]
  obtain ⟨c0, c1, c2, c3, c4, c4s, c5⟩ := LInv.surplusCore_pre A hA u hu rew0 hlow h hl x hx hnh hnw hI hq
  apply LInv.logAct' A u c0 c1 c2 c3 c4 c4s
  simp only [hverb, if_true]
  exact c5

/-! ## fixed-point arithmetic loses less than two units per ballot -/
theorem lt_pdiv_add_one_mul (a b : Int) (hb : 0 < b) : a < (pdiv a b + 1) * b := by
  unfold pdiv
  rw [Int.fdiv_eq_ediv_of_nonneg a (le_of_lt hb)]
  exact Int.lt_ediv_add_one_mul_self a hb

theorem fixed_rewLower_mulDiv (p : Nat) : RewLower (fixedArith p) 2 (rewMulDiv (fixedArith p)) := by
  intro w s v hw hs hv1
  have hS := pow10_pos p
  have hv1' : pow10 p ≤ v := hv1
  have hv : 0 < v := lt_of_lt_of_le hS hv1'
  have hv0 : (v == 0) = false := by simp; exact ne_of_gt hv
  show w * s ≤ ((if (v == 0) = true then 0 else pdiv (pdiv (w * s) (pow10 p) * pow10 p) v) + 2) * v
  simp only [hv0, Bool.false_eq_true, if_false]
  have h1 := lt_pdiv_add_one_mul (w * s) (pow10 p) hS
  have h2 := lt_pdiv_add_one_mul (pdiv (w * s) (pow10 p) * pow10 p) v hv
  nlinarith

theorem fixed_rewLower_muldiv (p : Nat) : RewLower (fixedArith p) 2 (rewMuldivDown (fixedArith p)) := by
  intro w s v hw hs hv1
  have hS := pow10_pos p
  have hv1' : pow10 p ≤ v := hv1
  have hv : 0 < v := lt_of_lt_of_le hS hv1'
  have hv0 : (v == 0) = false := by simp; exact ne_of_gt hv
  show w * s ≤ (divmodRound .down (w * s) v + 2) * v
  simp only [divmodRound, hv0, Bool.false_eq_true, if_false]
  simp
  have h1 := lt_pdiv_add_one_mul (w * s) v hv
  nlinarith

/-! ## the composite moves of the drivers -/

/-- `c.unpend(msg)` followed by the transfer of `c`'s surplus -/
theorem LInv.unpendTransfer (hA : LawfulArith A) (u : α) (hu : 0 ≤ u) (rew0 : α → α → α → α) (hlow : RewLower A u rew0)
    {s : St α} (h : Inv A s) (hl : LInv A u s) (hc : Cand α) (hcs : hc ∈ s.cands) (hce : hc.st = .elected)
    (hcp : hc.pending = true) (verb1 verb2 : String) (hverb : isSTs "transfer" verb2 = true) :
    LInv A u (Droop.transferSurplus A (s.unpendLog A hc.cid verb1) hc rew0 verb2) := by
  have h2 := h.unpendLog A hc.cid verb1
  have hl2 := hl.unpendLog A u h.meth hc.cid verb1
  let x : Cand α := { hc with pending := false }
  have hx : x ∈ (s.unpendLog A hc.cid verb1).cands := by
    unfold St.unpendLog; rw [logAct_cands]
    exact mem_upd_of_eq (f := fun c => { c with pending := false }) hcs rfl
  rw [transferSurplus_congr A _ hc x rew0 _ rfl rfl]
  have hxe : x.st = .elected := hce
  apply LInv.transferSurplus A hA u hu rew0 hlow h2 hl2 x verb2 hverb hx
  · rw [hxe]; intro hh; cases hh
  · rw [hxe]; intro hh; cases hh
  · have ht : (s.unpendLog A hc.cid verb1).tally A x.cid = s.tally A hc.cid := by
      unfold St.tally St.unpendLog
      rw [logAct_ballots]; rfl
    rw [ht]
    exact h.i1 hc hcs (Or.inr ⟨hce, hcp⟩)
  · have hq : (s.unpendLog A hc.cid verb1).quota = s.quota := by
      unfold St.unpendLog; rw [logAct_quota]; rfl
    rw [hq]
    exact h.pq hc hcs hce hcp

theorem LInv.foldDefeat (u : α) {s : St α} (h : LInv A u s) (hm : s.method = .wigm) (ws : List (Cand α)) (verb : String) :
    LInv A u (ws.foldl (fun acc c => acc.defeat A c.cid verb) s)
    ∧ (ws.foldl (fun acc c => acc.defeat A c.cid verb) s).method = .wigm := by
  induction ws generalizing s with
  | nil => exact ⟨h, hm⟩
  | cons w ws ih =>
    simp only [List.foldl_cons]
    apply ih (h.defeat A u hm w.cid verb)
    unfold St.defeat St.logAct; simp only; split <;> exact hm

/-- "for c in sorted(ws): c.defeat(msg)" over distinct hopefuls, then one transfer of all their ballots -/
theorem LInv.defeatManyThenTransfer (hA : LawfulArith A) (u : α) {s : St α} (h : Inv A s) (hl : LInv A u s)
    (ws ws' : List (Cand α)) (verbD verbT : String) (hverb : isSTs "transfer" verbT = false)
    (hperm : ws'.Perm ws) (hnd : (ws.map (·.cid)).Nodup) (hw : ∀ w ∈ ws, w ∈ s.hopeful) :
    LInv A u (transferDefeated A (ws'.foldl (fun acc c => acc.defeat A c.cid verbD) s) (ws.map (·.cid)) verbT) := by
  have ht : Inv A (ws'.foldl (fun acc c => acc.defeat A c.cid verbD) s) := h.foldDefeat A ws' verbD
  have hlt := (hl.foldDefeat A u h.meth ws' verbD).1
  have hj := justDefeated_foldDefeat A h ws ws' verbD hperm hnd hw
  exact LInv.transferDefeatedMany A hA u ht hlt (ws.map (·.cid)) verbT hverb hj.1 hj.2

/-- `c.defeat(msg)` of a hopeful candidate followed by the transfer of its ballots -/
theorem LInv.defeatTransfer1 (hA : LawfulArith A) (u : α) {s : St α} (h : Inv A s) (hl : LInv A u s) (lc : Cand α)
    (hlc : lc ∈ s.hopeful) (verbD verbT : String) (hverb : isSTs "transfer" verbT = false) :
    LInv A u (transferDefeated A (s.defeat A lc.cid verbD) [lc.cid] verbT) := by
  have := LInv.defeatManyThenTransfer A hA u h hl [lc] [lc] verbD verbT hverb (List.Perm.refl _) (by simp)
    (by intro w hw; simp at hw; rw [hw]; exact hlc)
  simpa using this

theorem LInv.foldElect (u : α) {s : St α} (h : LInv A u s) (hm : s.method = .wigm) (ws : List (Cand α))
    (verb : Cand α → String) (pend : Cand α → Bool) :
    LInv A u (ws.foldl (fun acc c => acc.elect A c.cid (verb c) (pend c)) s)
    ∧ (ws.foldl (fun acc c => acc.elect A c.cid (verb c) (pend c)) s).method = .wigm := by
  induction ws generalizing s with
  | nil => exact ⟨h, hm⟩
  | cons w ws ih =>
    simp only [List.foldl_cons]
    apply ih (h.elect A u hm w.cid _ _)
    unfold St.elect St.logAct; simp only; split <;> exact hm

theorem LInv.electWinners (u : α) {s : St α} (h : LInv A u s) (hm : s.method = .wigm) (hasQ : St α → Cand α → Bool)
    (pend : St α → Cand α → Bool) (verb : St α → Cand α → String) :
    LInv A u (Droop.electWinners A hasQ pend verb s) := by
  unfold Droop.electWinners
  exact (h.foldElect A u hm _ (verb s) (pend s)).1

theorem LInv.foldUnpend (u : α) {s : St α} (h : LInv A u s) (l : List (Cand α)) :
    LInv A u (l.foldl (fun acc c => acc.unpendSilent c.cid) s) := by
  induction l generalizing s with
  | nil => exact h
  | cons c cs ih => simp only [List.foldl_cons]; exact ih (h.unpendSilent A u c.cid)

end Droop
