import DroopProofs.RunZero
import DroopProofs.OracleBridge

/-! # C07: candidates excluded as a batch are sure losers

`batchDefeatGroups` (wigm-prf-batch, meek, warren) and `mplsCertainLosers` return a prefix of the hopefuls sorted by tally whose
combined tallies plus the surplus are below the tally of the next candidate in that order, and (`batchDefeatGroups_bound`,
`mplsCertainLosers_go_bound`) leave enough candidates to fill the seats. -/
namespace Droop
variable {α : Type} [CommRing α] [LinearOrder α] [IsStrictOrderedRing α] (A : Arith α)

def votesOf (l : List (Cand α)) : α := (l.map (·.vote)).sum

theorem votesOf_append (a b : List (Cand α)) : votesOf (a ++ b) = votesOf a + votesOf b := by
  unfold votesOf; rw [List.map_append, List.sum_append]

/-- the scan of the vote-sorted groups: whenever it settles on group index `m`, the groups up to `m` together with the surplus
    are below the first candidate of group `m+1` -/
theorem scanGroups_sure (hA : LawfulArith A) (surplus : α) (maxDefeat : Int) :
    ∀ (suffix pre : List (List (Cand α))) (maxg : Option Nat),
      (∀ m, maxg = some m → ∃ c0, (((pre ++ suffix).drop (m + 1)).head?.bind List.head?) = some c0
          ∧ A.lt (A.add (votesOf ((pre ++ suffix).take (m + 1)).flatten) surplus) c0.vote = true) →
      ∀ m, scanGroups A surplus maxDefeat suffix pre.length pre.flatten.length (votesOf pre.flatten) maxg = some m →
        ∃ c0, (((pre ++ suffix).drop (m + 1)).head?.bind List.head?) = some c0
          ∧ A.lt (A.add (votesOf ((pre ++ suffix).take (m + 1)).flatten) surplus) c0.vote = true := by
  intro suffix
  induction suffix with
  | nil => intro pre maxg h m hm; unfold scanGroups at hm; exact h m hm
  | cons grp tl ih =>
    intro pre maxg h m hm
    cases tl with
    | nil => unfold scanGroups at hm; exact h m hm
    | cons nxt rest =>
      unfold scanGroups at hm
      by_cases hgt : ((pre.flatten.length + grp.length : Nat) : Int) > maxDefeat
      · rw [if_pos hgt] at hm; exact h m hm
      · rw [if_neg hgt] at hm
        dsimp only at hm
        have e1 : (pre ++ [grp]).length = pre.length + 1 := by simp
        have e2 : (pre ++ [grp]).flatten.length = pre.flatten.length + grp.length := by simp
        have e3 : pre ++ grp :: nxt :: rest = (pre ++ [grp]) ++ nxt :: rest := by simp
        have e4 : A.add (votesOf pre.flatten) (A.sum (grp.map (·.vote))) = votesOf (pre ++ [grp]).flatten := by
          rw [hA.add_eq, arith_sum_eq A hA]
          have : (pre ++ [grp]).flatten = pre.flatten ++ grp := by simp
          rw [this, votesOf_append]; rfl
        rw [← e1, ← e2, e4] at hm
        rw [e3]
        apply ih (pre ++ [grp]) _ _ m hm
        intro m' hm'
        have htake : (((pre ++ [grp]) ++ nxt :: rest).take (pre.length + 1)) = pre ++ [grp] := by
          rw [← e1]; exact List.take_left
        have hdrop : (((pre ++ [grp]) ++ nxt :: rest).drop (pre.length + 1)) = nxt :: rest := by
          rw [← e1]; exact List.drop_left
        cases hn : nxt.head? with
        | none =>
          rw [hn] at hm'; dsimp only at hm'
          rw [← e3]; exact h m' hm'
        | some c0 =>
          rw [hn] at hm'; dsimp only at hm'
          split at hm'
          · rename_i hlt
            cases hm'
            refine ⟨c0, ?_, ?_⟩
            · rw [hdrop]; simp [hn]
            · rw [htake]; exact hlt
          · rw [← e3]; exact h m' hm'

/-- **the batch of wigm-prf-batch / meek / warren is a set of sure losers**: it is a prefix of the hopefuls in tally order, and
    its combined tallies plus the surplus are below the tally of the next candidate in that order -/
theorem batchDefeatGroups_sure (hA : LawfulArith A) (s : St α) (surplus : α) (hne : batchDefeatGroups A s surplus ≠ []) :
    ∃ c0 rest, byVote A false s.hopeful = batchDefeatGroups A s surplus ++ c0 :: rest
      ∧ A.lt (A.add (votesOf (batchDefeatGroups A s surplus)) surplus) c0.vote = true := by
  unfold batchDefeatGroups at hne ⊢
  dsimp only at hne ⊢
  cases hg : scanGroups A surplus ((s.hopeful.length : Int) - s.seatsLeft) (sortedGroups A surplus (byVote A false s.hopeful))
      0 0 A.zero none with
  | none => rw [hg] at hne; exact absurd rfl hne
  | some g =>
    dsimp only at hne ⊢
    have := scanGroups_sure A hA surplus ((s.hopeful.length : Int) - s.seatsLeft)
      (sortedGroups A surplus (byVote A false s.hopeful)) [] none (by intro m hm; cases hm) g
      (by simp only [List.length_nil, List.flatten_nil, votesOf, List.map_nil, List.sum_nil]; rw [← hA.zero_eq]; exact hg)
    simp only [List.nil_append] at this
    obtain ⟨c0, hc0, hlt⟩ := this
    set groups := sortedGroups A surplus (byVote A false s.hopeful) with hgroups
    have hfl : (groups.take (g + 1)).flatten ++ (groups.drop (g + 1)).flatten = byVote A false s.hopeful := by
      rw [← List.flatten_append, List.take_append_drop, hgroups, sortedGroups_flatten]
    cases hd : groups.drop (g + 1) with
    | nil => rw [hd] at hc0; simp at hc0
    | cons nxt more =>
      rw [hd] at hc0
      simp only [List.head?_cons, Option.bind_some] at hc0
      cases hn : nxt with
      | nil => rw [hn] at hc0; simp at hc0
      | cons x xs =>
        rw [hn] at hc0
        simp only [List.head?_cons, Option.some.injEq] at hc0
        subst hc0
        refine ⟨x, xs ++ more.flatten, ?_, hlt⟩
        rw [← hfl, hd, hn]; simp

/-- the invariant of the Minneapolis certain-loser scan -/
def SurePrefix (surplus : α) (sorted losers : List (Cand α)) : Prop :=
  losers = [] ∨ ∃ k c0, losers = sorted.take k ∧ sorted[k]? = some c0
    ∧ A.lt (A.add (votesOf (sorted.take k)) surplus) c0.vote = true

theorem mplsCertainLosers_go_sure (hA : LawfulArith A) (surplus : α) (sorted : List (Cand α)) (maxDefeat : Int) :
    ∀ (fuel cx : Nat) (losers : List (Cand α)), SurePrefix A surplus sorted losers →
      SurePrefix A surplus sorted (mplsCertainLosers.go A surplus sorted maxDefeat cx fuel (votesOf (sorted.take cx)) losers) := by
  intro fuel
  induction fuel with
  | zero => intro cx losers hl; unfold mplsCertainLosers.go; exact hl
  | succ n ih =>
    intro cx losers hl
    unfold mplsCertainLosers.go
    dsimp only
    split
    · exact hl
    · rename_i hlt
      split
      · rename_i c nxt hc hnxt
        split
        · exact hl
        · have hvote : A.add (votesOf (sorted.take cx)) c.vote = votesOf (sorted.take (cx + 1)) := by
            rw [hA.add_eq]
            have : sorted.take (cx + 1) = sorted.take cx ++ [c] := by
              rw [List.take_succ, hc]; rfl
            rw [this, votesOf_append]; simp [votesOf]
          rw [hvote]
          apply ih
          split
          · rename_i hlt2
            right
            exact ⟨cx + 1, nxt, rfl, hnxt, hlt2⟩
          · exact hl
      · exact hl

/-- **the certain losers of a Minneapolis round are sure losers**: up to the order in which they are excluded they are a prefix
    of the hopefuls in tally order whose combined tallies plus the surplus are below the tally of the next candidate -/
theorem mplsCertainLosers_sure (hA : LawfulArith A) (s : St α) (surplus : α) (hne : mplsCertainLosers A s surplus ≠ []) :
    ∃ k c0, (mplsCertainLosers A s surplus).Perm ((byVote A false s.hopeful).take k)
      ∧ (byVote A false s.hopeful)[k]? = some c0
      ∧ A.lt (A.add (votesOf ((byVote A false s.hopeful).take k)) surplus) c0.vote = true := by
  unfold mplsCertainLosers at hne ⊢
  dsimp only at hne ⊢
  have h0 : votesOf ((byVote A false s.hopeful).take 0) = A.zero := by simp [votesOf, hA.zero_eq]
  have := mplsCertainLosers_go_sure A hA surplus (byVote A false s.hopeful) ((s.hopeful.length : Int) - s.seatsLeft)
    (byVote A false s.hopeful).length 0 [] (Or.inl rfl)
  rw [h0] at this
  rcases this with h | ⟨k, c0, h1, h2, h3⟩
  · exfalso; apply hne; rw [h]; rfl
  · refine ⟨k, c0, ?_, h2, h3⟩
    rw [h1]
    exact pySorted_perm _ _ _

end Droop
