import DroopProofs.QpqSeats
import DroopProofs.MeekRun
import DroopProofs.Surplus

/-! # C02 for QPQ in exact arithmetic: the contributions of all ballots sum to the number of candidates elected

Each ballot carries the fraction of a candidate it has helped to elect so far (`w`; the implementation's `ballot.weight`).  A
restart sets every contribution to 0 and un-elects everybody.  A round tallies, for each hopeful candidate `c`, the ballots standing
with `c` (`vote`) and their contributions (`tc`), and the quotient `vote / (1 + tc)`.  When `c` is elected every ballot standing with
`c` gets the contribution `1 / quotient = (1 + tc) / vote`: together `1 + tc` where they had `tc` — one more candidate elected, one
more unit contributed.  An exclusion changes no contribution, and is followed by a restart.

Stated for the model run with exact rational arithmetic (`rationalArith`): at the end of every round that continues without the
crash flag and orders no restart, the contributions sum to the number of elected candidates, exactly.  (The rule as deployed forces
guarded arithmetic, where the same sum is within the truncation allowance: that is judged on the record by `okC02Qpq`.) -/
namespace Droop

abbrev RA : Arith ℚ := rationalArith

def wsum (bs : List (Ballot ℚ)) : ℚ := (bs.map (fun b => b.w * ((b.mult : Int) : ℚ))).sum
def topW (bs : List (Ballot ℚ)) (k : Nat) : ℚ := (bs.map (fun b => if b.top = some k then b.w * ((b.mult : Int) : ℚ) else 0)).sum
def topM (bs : List (Ballot ℚ)) (k : Nat) : ℚ := (bs.map (fun b => if b.top = some k then ((b.mult : Int) : ℚ) else 0)).sum

/-! ## the tally fold -/

theorem qTally_ballots (acc : QSt ℚ) (b : Ballot ℚ) : (qTally RA acc b).s.ballots = acc.s.ballots := by
  unfold qTally; split <;> rfl

theorem foldl_qTally_ballots (bs : List (Ballot ℚ)) (acc : QSt ℚ) : (bs.foldl (qTally RA) acc).s.ballots = acc.s.ballots := by
  induction bs generalizing acc with
  | nil => rfl
  | cons b bs ih => simp only [List.foldl_cons]; rw [ih, qTally_ballots]

theorem qTally_crash (acc : QSt ℚ) (b : Ballot ℚ) : (qTally RA acc b).s.crash = acc.s.crash := by
  unfold qTally; split <;> rfl

theorem foldl_qTally_crash (bs : List (Ballot ℚ)) (acc : QSt ℚ) : (bs.foldl (qTally RA) acc).s.crash = acc.s.crash := by
  induction bs generalizing acc with
  | nil => rfl
  | cons b bs ih => simp only [List.foldl_cons]; rw [ih, qTally_crash]

/-- one ballot: the candidate it stands with gets its multiplier and its contribution -/
theorem qTally_cand (acc : QSt ℚ) (b : Ballot ℚ) (k : Nat) (x : Cand ℚ) (h : acc.s.cand? k = some x) :
    (qTally RA acc b).s.cand? k
      = some { x with tc := x.tc + (if b.top = some k then b.w * ((b.mult : Int) : ℚ) else 0),
                      vote := x.vote + (if b.top = some k then ((b.mult : Int) : ℚ) else 0) } := by
  have hxk : x.cid = k := (cand?_some_mem h).2
  unfold qTally
  cases hb : b.top with
  | none =>
    simp only
    rw [h]
    simp
  | some c =>
    simp only
    rw [cand?_upd acc.s c k (fun x => { x with tc := RA.add x.tc (RA.mulV b.w (RA.ofInt b.mult)),
                                               vote := RA.add x.vote (RA.ofInt b.mult) }) (fun _ => rfl), h]
    simp only [Option.map_some, Option.some.injEq]
    by_cases hck : c = k
    · subst hck
      simp only [hxk, beq_self_eq_true, if_true]
      rfl
    · have h1 : (x.cid == c) = false := by rw [hxk]; simpa using fun e => hck e.symm
      have h2 : ¬ (some c = some k) := fun e => hck (Option.some.inj e)
      simp only [h1, Bool.false_eq_true, if_false, h2, hck, add_zero]

theorem foldl_qTally_cand (bs : List (Ballot ℚ)) : ∀ (acc : QSt ℚ) (k : Nat) (x : Cand ℚ), acc.s.cand? k = some x →
    (bs.foldl (qTally RA) acc).s.cand? k = some { x with tc := x.tc + topW bs k, vote := x.vote + topM bs k } := by
  induction bs with
  | nil =>
    intro acc k x h
    simp only [List.foldl_nil, topW, topM, List.map_nil, List.sum_nil, add_zero]
    exact h
  | cons b bs ih =>
    intro acc k x h
    simp only [List.foldl_cons]
    rw [ih _ k _ (qTally_cand acc b k x h)]
    simp only [topW, topM, List.map_cons, List.sum_cons, Option.some.injEq]
    congr 1 <;> ring

/-! ## re-weighting the ballots of the candidate elected -/

theorem qAdvance_w (s : St ℚ) (b : Ballot ℚ) : (qAdvance s b).w = b.w := by unfold qAdvance; exact advanceTo_w _ _
theorem qAdvance_mult (s : St ℚ) (b : Ballot ℚ) : (qAdvance s b).mult = b.mult := by unfold qAdvance; exact advanceTo_mult _ _

theorem wsum_reweight (s : St ℚ) (k : Nat) (nw : ℚ) (bs : List (Ballot ℚ)) :
    wsum (bs.map (fun (b : Ballot ℚ) => if b.top == some k then qAdvance s { b with w := nw } else b))
      = wsum bs - topW bs k + nw * topM bs k := by
  induction bs with
  | nil => simp [wsum, topW, topM]
  | cons b bs ih =>
    simp only [wsum, topW, topM, List.map_cons, List.sum_cons] at ih ⊢
    rw [ih]
    by_cases hb : b.top = some k
    · have hb' : (b.top == some k) = true := by simp [hb]
      simp only [if_pos hb', if_pos hb, qAdvance_w, qAdvance_mult]
      ring
    · have hb' : ¬ ((b.top == some k) = true) := by simpa using hb
      simp only [if_neg hb', if_neg hb]
      ring

theorem wsum_advanceOnly (s : St ℚ) (k : Nat) (bs : List (Ballot ℚ)) :
    wsum (bs.map (fun (b : Ballot ℚ) => if b.top == some k then qAdvance s b else b)) = wsum bs := by
  induction bs with
  | nil => rfl
  | cons b bs ih =>
    simp only [wsum, List.map_cons, List.sum_cons] at ih ⊢
    rw [ih]
    split
    · rw [qAdvance_w, qAdvance_mult]
    · rfl

theorem wsum_restart (s : St ℚ) (bs : List (Ballot ℚ)) :
    wsum (bs.map (fun (b : Ballot ℚ) => qAdvance s { b with idx := 0, w := RA.zero, residual := RA.zero })) = 0 := by
  induction bs with
  | nil => rfl
  | cons b bs ih =>
    simp only [wsum, List.map_cons, List.sum_cons] at ih ⊢
    rw [ih, qAdvance_w]
    show (0 : ℚ) * _ + 0 = 0
    ring

/-! ## the state the decision is taken in -/

theorem qR5_ballots (q : QSt ℚ) : (qR5 RA q).ballots = (qR2 RA q).ballots := by
  have h4 : (qR4 RA q).ballots = (qR2 RA q).ballots := by
    show (qQ1 RA q).s.ballots = _
    unfold qQ1
    rw [foldl_qTally_ballots]
    rfl
  unfold qR5
  split
  · rw [(setCrash_frame _ _).2.1]; exact h4
  · exact h4

theorem qR2_wsum (q : QSt ℚ) : wsum (qR2 RA q).ballots = if q.restart then 0 else wsum q.s.ballots := by
  have h1 : (qR1 RA q).ballots = q.s.ballots := by
    unfold qR1 St.newRound
    exact logAct_ballots RA _ _ _ _
  unfold qR2
  by_cases hr : q.restart = true
  · rw [if_pos hr, if_pos hr]
    unfold qRestart mapBallots
    exact wsum_restart _ _
  · rw [if_neg hr, if_neg hr, h1]

/-- every hopeful candidate of the decision state carries the figures of the ballots standing with it -/
theorem qR5_figures (q : QSt ℚ) (hwf : q.s.WF) (c : Cand ℚ) (hc : c ∈ (qR5 RA q).hopeful) :
    c.vote = topM (qR5 RA q).ballots c.cid ∧ c.tc = topW (qR5 RA q).ballots c.cid
      ∧ c.quotient = some (RA.divV c.vote (1 + c.tc)) := by
  rw [qR5_ballots]
  -- c is a member of qR4's list
  have hc4 : c ∈ (qR4 RA q).cands ∧ c.st = .hopeful := by
    have := mem_hopeful.1 hc
    have e : (qR5 RA q).cands = (qR4 RA q).cands := by
      unfold qR5
      split
      · exact setCrash_cands _ _
      · rfl
    rw [e] at this; exact this
  obtain ⟨hc4m, hch⟩ := hc4
  unfold qR4 at hc4m
  simp only at hc4m
  obtain ⟨c0, hc0, hce⟩ := List.mem_map.1 hc4m
  -- the fold's description of candidate c0.cid
  have hwf2 : (qR2 RA q).WF := (qR2_fwd RA q).WF hwf
  have h3sig : stsig (qR3 RA q) = stsig (qR2 RA q) := by
    unfold qR3
    exact stsig_mapKeep (qR2 RA q) _ (fun c => by split <;> exact ⟨rfl, rfl⟩)
  have hwf3 : (qR3 RA q).WF := WF_of_stsig h3sig hwf2
  have hq1sig : stsig (qQ1 RA q).s = stsig (qR3 RA q) :=
    (foldl_qTally_stsig RA (qR3 RA q).ballots { s := qR3 RA q, va := RA.zero, tx := RA.zero, restart := false }).1
  have hwfq : (qQ1 RA q).s.WF := WF_of_stsig hq1sig hwf3
  have hfind : (qQ1 RA q).s.cand? c0.cid = some c0 := cand?_of_mem hwfq hc0
  have hex3 : ((qR3 RA q).cand? c0.cid).isSome := by
    rw [cand?_isSome_iff]
    have hid : (qR3 RA q).cands.map (·.cid) = (qQ1 RA q).s.cands.map (·.cid) := by
      rw [← stsig_ids, ← stsig_ids, hq1sig]
    have : c0.cid ∈ (qR3 RA q).cands.map (·.cid) := by rw [hid]; exact List.mem_map.2 ⟨c0, hc0, rfl⟩
    obtain ⟨x, hx, hxc⟩ := List.mem_map.1 this
    exact ⟨x, hx, hxc⟩
  cases hx3 : (qR3 RA q).cand? c0.cid with
  | none => rw [hx3] at hex3; cases hex3
  | some x =>
    have hfold := foldl_qTally_cand (qR3 RA q).ballots { s := qR3 RA q, va := RA.zero, tx := RA.zero, restart := false } c0.cid x hx3
    have hq : (qQ1 RA q).s = ((qR3 RA q).ballots.foldl (qTally RA) { s := qR3 RA q, va := RA.zero, tx := RA.zero, restart := false }).s := rfl
    rw [hq, hfold] at hfind
    have hc0eq : c0 = { x with tc := x.tc + topW (qR3 RA q).ballots c0.cid, vote := x.vote + topM (qR3 RA q).ballots c0.cid } :=
      (Option.some.inj hfind).symm
    have hb3 : (qR3 RA q).ballots = (qR2 RA q).ballots := rfl
    -- c0 is hopeful, so x is, so x was zeroed
    have hc0h : c0.st = .hopeful := by
      by_cases h0 : (c0.st == CState.hopeful) = true
      · simpa using h0
      · rw [if_neg h0] at hce; rw [← hce] at hch; exact hch
    have hxh : x.st = .hopeful := by rw [hc0eq] at hc0h; exact hc0h
    have hxz : x.vote = 0 ∧ x.tc = 0 := by
      obtain ⟨hxm, _⟩ := cand?_some_mem hx3
      unfold qR3 at hxm
      simp only at hxm
      obtain ⟨y, _, hye⟩ := List.mem_map.1 hxm
      by_cases hy : (y.st == CState.hopeful) = true
      · rw [if_pos hy] at hye; rw [← hye]; exact ⟨rfl, rfl⟩
      · rw [if_neg hy] at hye; rw [← hye] at hxh; exact absurd (by simpa using hxh) hy
    have h0 : (c0.st == CState.hopeful) = true := by rw [hc0h]; rfl
    rw [if_pos h0] at hce
    have hv : c0.vote = topM (qR2 RA q).ballots c0.cid := by
      have e : c0.vote = x.vote + topM (qR3 RA q).ballots c0.cid := congrArg Cand.vote hc0eq
      rw [e, hxz.1, hb3]; ring
    have ht : c0.tc = topW (qR2 RA q).ballots c0.cid := by
      have e : c0.tc = x.tc + topW (qR3 RA q).ballots c0.cid := congrArg Cand.tc hc0eq
      rw [e, hxz.2, hb3]; ring
    rw [← hce]
    exact ⟨hv, ht, rfl⟩

/-! ## the decision -/

theorem q_elect_ballots (s : St ℚ) (cid : Nat) (verb : String) (p : Bool) : (s.elect RA cid verb p).ballots = s.ballots := by
  unfold St.elect; rw [logAct_ballots]; rfl

theorem qElected_ballots (s6 : St ℚ) (hc : Cand ℚ) : (qElected RA s6 hc).ballots = s6.ballots := by
  unfold qElected
  split
  · rw [(setCrash_frame _ _).2.1]; exact q_elect_ballots _ _ _ _
  · exact q_elect_ballots _ _ _ _

theorem setCrash_none {s : St ℚ} {k : String} (h : (s.setCrash k).crash = none) : False := by
  have := setCrash_isSome s k
  rw [h] at this; cases this

/-- **one election adds exactly one unit**: in the decision state every hopeful candidate carries the figures of its ballots;
    if the round elects (no restart ordered) and the crash flag stays down, the contributions sum to one more than before -/
theorem qDecide_wsum (q1 : QSt ℚ) (s5 : St ℚ)
    (hfig : ∀ c ∈ s5.hopeful, c.vote = topM s5.ballots c.cid ∧ c.tc = topW s5.ballots c.cid
      ∧ c.quotient = some (RA.divV c.vote (1 + c.tc)))
    (h : (qDecide RA q1 s5).2 = .cont) (hr : (qDecide RA q1 s5).1.restart = false) (hr1 : q1.restart = false)
    (hcr : (qDecide RA q1 s5).1.s.crash = none) :
    wsum (qDecide RA q1 s5).1.s.ballots = wsum s5.ballots + 1 := by
  unfold qDecide at h hr hcr ⊢
  cases hh : s5.hopeful with
  | nil => rw [hh] at h; cases h
  | cons hd hs =>
    rw [hh] at h hr hcr
    simp only at h hr hcr ⊢
    by_cases hg : RA.gt (RA.pyMax (qQuot RA hd) (hs.map (qQuot RA))) s5.quota = true
    · rw [if_pos hg] at h hr hcr ⊢
      have hfr := breakTie_frame RA s5 (List.filter (fun c => RA.eq (qQuot RA c) (RA.pyMax (qQuot RA hd) (hs.map (qQuot RA)))) (hd :: hs))
        "Break tie by lot (largest quotient)"
      have hmem := breakTie_mem RA s5 (List.filter (fun c => RA.eq (qQuot RA c) (RA.pyMax (qQuot RA hd) (hs.map (qQuot RA)))) (hd :: hs))
        "Break tie by lot (largest quotient)"
      cases hb : breakTie RA s5 (List.filter (fun c => RA.eq (qQuot RA c) (RA.pyMax (qQuot RA hd) (hs.map (qQuot RA)))) (hd :: hs))
          "Break tie by lot (largest quotient)" with
      | mk s6 oc =>
        rw [hb] at h hr hcr hfr hmem
        simp only at hfr
        cases oc with
        | none => cases h
        | some hc =>
          simp only at hcr ⊢
          have hcm : hc ∈ s5.hopeful := by rw [hh]; exact (List.mem_filter.1 (hmem hc rfl)).1
          obtain ⟨fv, ft, fq⟩ := hfig hc hcm
          rw [logAct_ballots]
          rw [crash_logAct] at hcr
          have hcr' : (qElected RA s6 hc).crash = none := hcr
          -- the quotient is not zero, or the crash flag would be up
          have hqz : ¬ (RA.isZero (qQuot RA hc) = true) := by
            intro hz
            unfold qElected at hcr'
            rw [if_pos hz] at hcr'
            exact setCrash_none hcr'
          have hquot : qQuot RA hc = RA.divV hc.vote (1 + hc.tc) := by unfold qQuot; rw [fq]; rfl
          have hden : (1 + hc.tc) ≠ 0 := by
            intro h0
            apply hqz
            rw [hquot]
            show ((if (1 + hc.tc == 0) = true then (0 : ℚ) else hc.vote / (1 + hc.tc)) == 0) = true
            simp [h0]
          have hqv : qQuot RA hc = hc.vote / (1 + hc.tc) := by
            rw [hquot]
            show (if (1 + hc.tc == 0) = true then (0 : ℚ) else hc.vote / (1 + hc.tc)) = _
            have : ¬ ((1 + hc.tc == 0) = true) := by simpa using hden
            rw [if_neg this]
          have hq0 : qQuot RA hc ≠ 0 := by
            intro h0; apply hqz; show (qQuot RA hc == 0) = true; simp [h0]
          have hv0 : hc.vote ≠ 0 := by
            intro h0; apply hq0; rw [hqv, h0]; simp
          have hnw : RA.divV RA.one (qQuot RA hc) = (1 + hc.tc) / hc.vote := by
            show (if (qQuot RA hc == 0) = true then (0 : ℚ) else 1 / qQuot RA hc) = _
            have : ¬ ((qQuot RA hc == 0) = true) := by simpa using hq0
            rw [if_neg this, hqv]
            field_simp
          show wsum (mapBallots (qElected RA s6 hc) _).ballots = _
          unfold mapBallots
          simp only
          rw [qElected_ballots, hfr.2.1, wsum_reweight, hnw, ← fv, ← ft]
          field_simp
          ring
    · rw [if_neg hg] at h hr hcr ⊢
      cases hb : breakTie RA s5 (List.filter (fun c => RA.eq (qQuot RA c) (RA.pyMin (qQuot RA hd) (hs.map (qQuot RA)))) (hd :: hs))
          "Break tie by lot (smallest quotient)" with
      | mk s6 oc =>
        rw [hb] at h hr hcr
        cases oc with
        | none => cases h
        | some lc => simp only at hr; cases hr

/-- **C02 for QPQ, one round (exact arithmetic)**: let a round start from a state with distinct candidate ids in which, unless a
    restart is due, the contributions sum to the number of elected candidates.  If the round continues without the crash flag and
    orders no restart, the same holds in the state it ends in. -/
theorem qpqBody_wsum (q : QSt ℚ) (hwf : q.s.WF) (hJ : q.restart = false → wsum q.s.ballots = (nEl q.s : ℚ))
    (h : (qpqBody RA q).2 = .cont) (hcr : (qpqBody RA q).1.s.crash = none) :
    (qpqBody RA q).1.restart = false → wsum (qpqBody RA q).1.s.ballots = (nEl (qpqBody RA q).1.s : ℚ) := by
  intro hr
  rw [qpqBody_eq] at h hcr hr ⊢
  have h5 : stsig (qR5 RA q) = stsig (qR2 RA q) := (qR5_stsig RA q).1
  have hwf5 : (qR5 RA q).WF := WF_of_stsig h5 ((qR2_fwd RA q).WF hwf)
  have hd := qDecide_cont RA (qQ1 RA q) (qR5 RA q) hwf5 (qR5_stsig RA q).2 h
  have hsum := qDecide_wsum (qQ1 RA q) (qR5 RA q) (fun c hc => qR5_figures q hwf c hc) h hr (qR5_stsig RA q).2 hcr
  rw [hsum, qR5_ballots, qR2_wsum]
  have hE5 : nEl (qR5 RA q) = nEl (qR2 RA q) := nEl_of_stsig h5
  have hc2 := qR2_counts RA q
  rcases hd.2 with ⟨_, _, b⟩ | ⟨r, _, _⟩
  · rw [b, hE5]
    cases hres : q.restart with
    | true =>
      rw [(hc2.1 hres).2]
      simp
    | false =>
      rw [(hc2.2.1 hres).2, hJ hres]
      simp
  · rw [r] at hr; cases hr

end Droop

namespace Droop

/-- **C02 for QPQ, the whole loop (exact arithmetic)**: in the state the loop of rounds returns — if the crash flag is down and no
    restart is pending — the contributions of all ballots sum to the number of candidates elected -/
theorem qpqLoop_wsum : ∀ (fuel : Nat) (q r : QSt ℚ), q.s.WF → (q.restart = false → wsum q.s.ballots = (nEl q.s : ℚ)) →
    qpqLoop RA fuel q = some r → r.s.crash = none → r.restart = false → wsum r.s.ballots = (nEl r.s : ℚ) := by
  intro fuel
  induction fuel with
  | zero => intro q r _ _ h; cases h
  | succ n ih =>
    intro q r hwf hJ h hcr
    unfold qpqLoop at h
    by_cases hc : q.s.crash.isSome = true
    · rw [if_pos hc] at h; cases h; exact hJ
    · rw [if_neg hc] at h
      by_cases hg : (!qpqCountComplete q.s) = true
      · rw [if_pos hg] at h
        have hfw := qpqBody_fwd RA q hwf
        have hwf' : (qpqBody RA q).1.s.WF := hfw.WF hwf
        have hstep := qpqBody_wsum q hwf hJ
        cases hq : qpqBody RA q with
        | mk q' fl =>
          rw [hq] at h hwf' hstep
          cases fl with
          | cont =>
            simp only at h
            by_cases hc' : q'.s.crash = none
            · exact ih q' r hwf' (hstep rfl hc') h hcr
            · -- the loop returns q' at once
              have hsome : q'.s.crash.isSome = true := by
                cases hx : q'.s.crash with
                | none => exact absurd hx hc'
                | some _ => rfl
              cases n with
              | zero => cases h
              | succ m =>
                unfold qpqLoop at h
                rw [if_pos hsome] at h
                cases h
                exact absurd hcr hc'
          | brk =>
            simp only at h
            cases h
            have hb : (qpqBody RA q).2 = .brk := by rw [hq]
            rw [qpqBody_eq] at hb
            have := (qDecide_brk RA (qQ1 RA q) (qR5 RA q) hb).1
            rw [← qpqBody_eq, hq] at this
            rw [hcr] at this; cases this
      · rw [if_neg hg] at h; cases h; exact hJ

end Droop
