import DroopProofs.InvWigm

/-! # Run level: every state reached by the wigm / wigm-prf main loop and epilogue satisfies the bundle -/
namespace Droop
variable {α : Type} [CommRing α] [LinearOrder α] [IsStrictOrderedRing α] (A : Arith α)

/-- the options covered by this first run-level theorem: no batch exclusions -/
def WigmOpts.plain (o : WigmOpts) : Prop := o.batchZero = false ∧ o.prfBatch = false

theorem Inv.wigmAfterElect (hA : LawfulArith A) (o : WigmOpts) (ho : o.plain) {s : St α} (h : Inv A s) :
    Inv A (Droop.wigmAfterElect A o s).1 := by
  unfold Droop.wigmAfterElect
  have hsure : wigmSure A o s = [] := by unfold wigmSure; simp [ho.2]
  simp only [hsure, List.isEmpty_nil, Bool.not_true, Bool.false_eq_true, if_false]
  split
  · exact h.wigmSurplusStep A hA
  · split
    · exact h.wigmDefeatStep1 A hA o ho.1
    · exact h

theorem Inv.wigmElect (hA : LawfulArith A) (o : WigmOpts) (hex : o.prf = true → A.exact = false) {s : St α} (h : Inv A s) :
    Inv A (Droop.wigmElect A o s) := by
  unfold Droop.wigmElect
  apply h.electWinners A
  intro c hc
  by_cases hp : o.prf = true
  · simp only [hp, if_true] at hc
    exact hasQuotaGE_sound A hA (hex hp) s c hc
  · simp only [hp] at hc
    exact hasQuotaX_sound A hA s c hc

theorem Inv.wigmBody (hA : LawfulArith A) (o : WigmOpts) (ho : o.plain) (hex : o.prf = true → A.exact = false)
    {s : St α} (h : Inv A s) : Inv A (Droop.wigmBody A o s).1 := by
  unfold Droop.wigmBody
  exact ((h.newRound A).wigmElect A hA o hex).wigmAfterElect A hA o ho

/-- generic: a body that preserves a predicate, looped with fuel, preserves it -/
theorem loopN_preserves (P : St α → Prop) (guard : St α → Bool) (body : St α → St α × Flow)
    (hb : ∀ s, P s → P (body s).1) :
    ∀ (fuel : Nat) (s t : St α), P s → loopN guard body fuel s = some t → P t := by
  intro fuel
  induction fuel with
  | zero => intro s t _ h; simp [loopN] at h
  | succ n ih =>
    intro s t hP h
    unfold loopN at h
    by_cases hc : s.crash.isSome = true
    · simp [hc] at h; cases h; exact hP
    · by_cases hg : guard s = true
      · simp only [hc, hg, if_true] at h
        have hbs := hb s hP
        cases hbody : body s with
        | mk s' fl =>
          rw [hbody] at h hbs
          cases fl with
          | cont => exact ih _ _ hbs h
          | brk => simp at h; cases h; exact hbs
      · simp [hc, hg] at h; cases h; exact hP

theorem hopeful_unpendSilent_fold (s : St α) (l : List (Cand α)) :
    True := trivial

/-- the epilogue (silent un-pending, elect-or-defeat the remaining hopefuls) preserves the bundle -/
theorem Inv.foldUnpend {s : St α} (h : Inv A s) (l : List (Cand α)) :
    Inv A (l.foldl (fun acc c => acc.unpendSilent c.cid) s) := by
  induction l generalizing s with
  | nil => exact h
  | cons c cs ih => simp only [List.foldl_cons]; exact ih (h.unpendSilent A c.cid)

theorem Inv.foldRemaining {s : St α} (h : Inv A s) (ws : List (Cand α))
    (hnd : (ws.map (·.cid)).Nodup) (hw : ∀ w ∈ ws, w ∈ s.cands ∧ w.st = .hopeful) :
    Inv A (ws.foldl (fun acc c =>
      if acc.elected.length < acc.seats then acc.elect A c.cid "Elect remaining" false
      else acc.defeat A c.cid "Defeat remaining") s) := by
  induction ws generalizing s with
  | nil => exact h
  | cons w ws ih =>
    simp only [List.foldl_cons]
    simp only [List.map_cons, List.nodup_cons, List.mem_map, not_exists, not_and] at hnd
    obtain ⟨hwm, hwh⟩ := hw w (by simp)
    have hrest : ∀ (t : St α), (∀ c ∈ s.cands, c.cid ≠ w.cid → c ∈ t.cands) →
        ∀ w' ∈ ws, w' ∈ t.cands ∧ w'.st = .hopeful := by
      intro t ht w' hw'
      obtain ⟨hm, hh⟩ := hw w' (by simp [hw'])
      exact ⟨ht w' hm (fun e => hnd.1 w' hw' e), hh⟩
    split
    · have h1 : Inv A (s.elect A w.cid "Elect remaining" false) := by
        apply h.elect A
        · intro c hc hcid
          have : c = w := nodup_cid_eq h.wf hc hwm hcid
          rw [this]; exact hwh
        · intro c _ _ hp; cases hp
      apply ih h1 hnd.2
      apply hrest
      intro c hc hne
      unfold St.elect; rw [logAct_cands]; exact mem_upd_of_ne hc hne
    · have h1 : Inv A (s.defeat A w.cid "Defeat remaining") := h.defeat A w.cid _
      apply ih h1 hnd.2
      apply hrest
      intro c hc hne
      unfold St.defeat; rw [logAct_cands]; exact mem_upd_of_ne hc hne

theorem Inv.epilogue {s : St α} (h : Inv A s) : Inv A (epilogueElectOrDefeat A s) := by
  unfold epilogueElectOrDefeat
  have h1 := h.foldUnpend A s.pendingL
  apply h1.foldRemaining A
  · exact hopeful_cids_nodup h1.wf
  · intro w hw; exact mem_hopeful.1 hw

/-- **Run-level invariant for wigm / wigm-prf (no batch exclusions), all lawful arithmetics, all inputs:**
    if the bundle holds when the main loop is entered, it holds in the final state. -/
theorem wigmCount_inv (hA : LawfulArith A) (o : WigmOpts) (ho : o.plain) (hex : o.prf = true → A.exact = false)
    (s0 t : St α) (hinit : Inv A (wigmInit A o s0)) (h : wigmCount A o s0 = some t) : Inv A t := by
  unfold wigmCount at h
  cases hl : loopN stdGuard (wigmBody A o) (2 * s0.cands.length + 3) (wigmInit A o s0) with
  | none => rw [hl] at h; cases h
  | some s4 =>
    rw [hl] at h; cases h
    have h4 : Inv A s4 :=
      loopN_preserves (Inv A) stdGuard (wigmBody A o) (fun s hs => hs.wigmBody A hA o ho hex) _ _ _ hinit hl
    exact h4.epilogue A

end Droop
