import DroopProofs.MeekDist
import DroopProofs.InvElect
import DroopProofs.InvWigmRun

/-! # Meek / Warren at run level (strict ballots): every snapshot of the record has votes + residual = ballots -/
namespace Droop
variable {α : Type} [CommRing α] [LinearOrder α] [IsStrictOrderedRing α] (A : Arith α)

/-- what the record shows in one snapshot of a Meek-family count: the tallies of the non-withdrawn candidates plus the
    residual are exactly the ballots (C08, first sentence; C02 for the Meek family) -/
def SnapM (nb : Nat) (sn : Snap α) : Prop :=
  ((sn.cs.filter (fun e => e.2.1 != "W")).map (fun e => e.2.2.1)).sum + sn.x1 = A.ofInt nb

def RecM (s : St α) : Prop := ∀ a ∈ s.acts, ∀ sn, a.snap = some sn → SnapM A s.nballots sn

/-- a candidate that a distribution never credits: no keep factor, or keep factor zero -/
def Cand.noKeep (c : Cand α) : Prop := c.kf = none ∨ ∃ k, c.kf = some k ∧ A.isZero k = true

/-- everything a distribution needs: excluded and withdrawn candidates hold nothing and keep nothing -/
structure MPre (s : St α) : Prop where
  meth : s.method = .meek
  wf : s.WF
  noEq : s.ballotsEq = []
  nb : (s.ballots.map (fun b => A.ofInt b.mult)).sum = A.ofInt s.nballots
  dead : ∀ c ∈ s.cands, (c.st = .defeated ∨ c.st = .withdrawn) → c.vote = 0 ∧ c.noKeep A
  recM : RecM A s

/-- ... and the identity itself -/
structure MInv (s : St α) : Prop extends MPre A s where
  total : s.sumVotes + s.residual = A.ofInt s.nballots

theorem code_W_iff (m : Method) (c : Cand α) : c.code m = "W" ↔ c.st = .withdrawn := by
  unfold Cand.code
  cases c.st <;> simp
  split <;> simp

/-- the snapshot taken of a state in which withdrawn candidates hold nothing shows the state's total -/
theorem snapM_mkSnap (s : St α) (hm : s.method = .meek) (hw : ∀ c ∈ s.cands, c.st = .withdrawn → c.vote = 0)
    (ht : s.sumVotes + s.residual = A.ofInt s.nballots) : SnapM A s.nballots (s.mkSnap A) := by
  unfold SnapM St.mkSnap
  simp only [hm, if_true, beq_self_eq_true]
  have key : ∀ (l : List (Cand α)), (∀ c ∈ l, c.st = .withdrawn → c.vote = 0) →
      (((l.map (fun c => (c.cid, c.code s.method, c.vote, c.kf, c.quotient))).filter (fun e => e.2.1 != "W")).map
        (fun e => e.2.2.1)).sum = (l.map (·.vote)).sum := by
    intro l
    induction l with
    | nil => intro _; rfl
    | cons c cs ih =>
      intro h
      simp only [List.map_cons, List.filter_cons, List.sum_cons]
      by_cases hc : c.st = .withdrawn
      · have : (c.code s.method != "W") = false := by simp [(code_W_iff s.method c).2 hc]
        simp only [this, Bool.false_eq_true, if_false]
        rw [ih (fun d hd => h d (by simp [hd])), h c (by simp) hc, zero_add]
      · have : (c.code s.method != "W") = true := by
          simp only [bne_iff_ne, ne_eq]; intro e; exact hc ((code_W_iff s.method c).1 e)
        simp only [this, if_true, List.map_cons, List.sum_cons]
        rw [ih (fun d hd => h d (by simp [hd]))]
  have key2 := key s.cands hw
  rw [hm] at key2
  rw [key2]
  exact ht

theorem MInv.withdrawn_zero {s : St α} (h : MInv A s) : ∀ c ∈ s.cands, c.st = .withdrawn → c.vote = 0 :=
  fun c hc hw => (h.dead c hc (Or.inr hw)).1

/-- states that agree on everything the invariant reads -/
theorem MInv.of_same {s t : St α} (h : MInv A s) (hc : t.cands = s.cands) (hb : t.ballots = s.ballots)
    (he : t.ballotsEq = s.ballotsEq) (hr : t.residual = s.residual) (hn : t.nballots = s.nballots)
    (hm : t.method = s.method) (ha : t.acts = s.acts) : MInv A t :=
  { meth := hm ▸ h.meth
    wf := by unfold St.WF; rw [hc]; exact h.wf
    noEq := he ▸ h.noEq
    nb := by rw [hb, hn]; exact h.nb
    dead := by rw [hc]; exact h.dead
    recM := by unfold RecM; rw [ha, hn]; exact h.recM
    total := by unfold St.sumVotes; rw [hc, hr, hn]; exact h.total }

theorem MInv.logAct {s : St α} (h : MInv A s) (tag verb : String) (subj : List Nat) : MInv A (s.logAct A tag verb subj) := by
  have hsnap : SnapM A s.nballots (s.mkSnap A) := snapM_mkSnap A s h.meth (h.withdrawn_zero A) h.total
  have hfr : (s.logAct A tag verb subj).cands = s.cands ∧ (s.logAct A tag verb subj).ballots = s.ballots
      ∧ (s.logAct A tag verb subj).ballotsEq = s.ballotsEq ∧ (s.logAct A tag verb subj).residual = s.residual
      ∧ (s.logAct A tag verb subj).nballots = s.nballots ∧ (s.logAct A tag verb subj).method = s.method := by
    unfold St.logAct; simp only; split <;> exact ⟨rfl, rfl, rfl, rfl, rfl, rfl⟩
  obtain ⟨e1, e2, e3, e4, e5, e6⟩ := hfr
  have hacts : ∀ a ∈ (s.logAct A tag verb subj).acts, ∀ sn, a.snap = some sn → SnapM A s.nballots sn := by
    intro a ha sn hsn
    unfold St.logAct at ha
    simp only at ha
    split at ha
    · rcases List.mem_cons.mp ha with rfl | ha'
      · simp only at hsn
        have : sn = St.mkSnap A { s with rounds := s.rounds ++ [s.cands] } := (Option.some.inj hsn).symm
        rw [this]; exact hsnap
      · exact h.recM a ha' sn hsn
    · rcases List.mem_cons.mp ha with rfl | ha'
      · simp only at hsn
        have : sn = St.mkSnap A s := (Option.some.inj hsn).symm
        rw [this]; exact hsnap
      · exact h.recM a ha' sn hsn
  exact
    { meth := e6 ▸ h.meth
      wf := by unfold St.WF; rw [e1]; exact h.wf
      noEq := e3 ▸ h.noEq
      nb := by rw [e2, e5]; exact h.nb
      dead := by rw [e1]; exact h.dead
      recM := by unfold RecM; rw [e5]; exact hacts
      total := by unfold St.sumVotes; rw [e1, e4, e5]; exact h.total }

theorem MInv.logMsg {s : St α} (h : MInv A s) (verb : String) (subj : List Nat) (v : Option α) : MInv A (s.logMsg verb subj v) :=
  { meth := h.meth, wf := h.wf, noEq := h.noEq, nb := h.nb, dead := h.dead, total := h.total
    recM := by
      intro a ha sn hsn
      unfold St.logMsg at ha
      rcases List.mem_cons.mp ha with rfl | ha'
      · simp at hsn
      · exact h.recM a ha' sn hsn }

theorem MInv.newRound {s : St α} (h : MInv A s) : MInv A (s.newRound A) := by
  unfold St.newRound
  have h1 : MInv A ({ s with round := s.round + 1 } : St α) := h.of_same A rfl rfl rfl rfl rfl rfl rfl
  exact h1.logAct A _ _ _

theorem MInv.setCrash {s : St α} (h : MInv A s) (k : String) : MInv A (s.setCrash k) := by
  unfold St.setCrash
  split
  · exact h
  · exact h.of_same A rfl rfl rfl rfl rfl rfl rfl

/-- a change of status only (elect, defeat) keeps the identity; it may take a candidate *out of* the dead set, never
    silently into it -/
theorem MInv.upd_status {s : St α} (h : MInv A s) (cid : Nat) (f : Cand α → Cand α)
    (hf : ∀ c, (f c).cid = c.cid ∧ (f c).vote = c.vote ∧ (f c).kf = c.kf)
    (hdead : ∀ c ∈ s.cands, c.cid = cid → ((f c).st = .defeated ∨ (f c).st = .withdrawn) → c.vote = 0 ∧ c.noKeep A) :
    MInv A (s.upd cid f) :=
  { meth := h.meth
    wf := by
      unfold St.WF
      rw [upd_status_cids s cid f (fun c => ⟨(hf c).1, (hf c).2.1⟩)]; exact h.wf
    noEq := h.noEq, nb := h.nb, recM := h.recM
    dead := by
      intro c' hc' hd
      obtain ⟨c, hc, rfl⟩ := mem_upd.1 hc'
      by_cases he : (c.cid == cid) = true
      · simp only [he, if_true] at hd ⊢
        have := hdead c hc (by simpa using he) hd
        unfold Cand.noKeep at this ⊢
        rw [(hf c).2.1, (hf c).2.2]; exact this
      · have hne : (c.cid == cid) = false := by simpa using he
        simp only [hne, Bool.false_eq_true, if_false] at hd ⊢
        exact h.dead c hc hd
    total := by
      unfold St.sumVotes
      rw [upd_status_votes s cid f (fun c => ⟨(hf c).1, (hf c).2.1⟩)]; exact h.total }

theorem MInv.elect {s : St α} (h : MInv A s) (cid : Nat) (verb : String) (p : Bool) : MInv A (s.elect A cid verb p) := by
  unfold St.elect
  apply MInv.logAct
  apply h.upd_status A cid (fun c => { c with st := .elected, pending := p }) (fun c => ⟨rfl, rfl, rfl⟩)
  intro c _ _ hd
  rcases hd with hd | hd <;> simp at hd

theorem MInv.foldElect {s : St α} (h : MInv A s) (ws : List (Cand α)) (verb : String) :
    MInv A (ws.foldl (fun acc c => acc.elect A c.cid verb false) s) := by
  induction ws generalizing s with
  | nil => exact h
  | cons w ws ih => simp only [List.foldl_cons]; exact ih (h.elect A w.cid verb false)

theorem MInv.breakTie {s : St α} (h : MInv A s) (tied : List (Cand α)) (verb : String) :
    MInv A (Droop.breakTie A s tied verb).1 := by
  unfold Droop.breakTie
  split
  · exact h.setCrash A _
  · exact h
  · exact h.logAct A _ _ _

end Droop

namespace Droop
variable {α : Type} [CommRing α] [LinearOrder α] [IsStrictOrderedRing α] (A : Arith α)

theorem cand?_some_mem {s : St α} {cid : Nat} {c : Cand α} (h : s.cand? cid = some c) : c ∈ s.cands ∧ c.cid = cid := by
  unfold St.cand? at h
  exact ⟨List.mem_of_find?_eq_some h, by have := List.find?_some h; simpa using this⟩

theorem cand?_of_mem {s : St α} (hwf : s.WF) {c : Cand α} (hc : c ∈ s.cands) : s.cand? c.cid = some c := by
  cases hf : s.cand? c.cid with
  | none =>
    have := (cand?_isSome_iff s c.cid).2 ⟨c, hc, rfl⟩
    rw [hf] at this; cases this
  | some d =>
    obtain ⟨hd, hdc⟩ := cand?_some_mem hf
    rw [nodup_cid_eq hwf hd hc hdc]

/-- fields no step of a distribution touches -/
def DFrame (s t : St α) : Prop :=
  t.ballots = s.ballots ∧ t.ballotsEq = s.ballotsEq ∧ t.nballots = s.nballots ∧ t.method = s.method ∧ t.acts = s.acts

theorem DFrame.refl (s : St α) : DFrame s s := ⟨rfl, rfl, rfl, rfl, rfl⟩
theorem DFrame.trans {s t u : St α} (h1 : DFrame s t) (h2 : DFrame t u) : DFrame s u :=
  ⟨h2.1.trans h1.1, h2.2.1.trans h1.2.1, h2.2.2.1.trans h1.2.2.1, h2.2.2.2.1.trans h1.2.2.2.1, h2.2.2.2.2.trans h1.2.2.2.2⟩

theorem distRankStep_frame (warren : Bool) (mult : α) (acc : St α × α × α × Bool) (cid : Nat) :
    DFrame acc.1 (distRankStep A warren mult acc cid).1 := by
  unfold distRankStep
  split
  · exact DFrame.refl _
  · split
    · split
      · exact DFrame.refl _
      · exact ⟨rfl, rfl, rfl, rfl, rfl⟩
    · exact DFrame.refl _

theorem foldl_distRankStep_frame (warren : Bool) (mult : α) (rank : List Nat) (acc : St α × α × α × Bool) :
    DFrame acc.1 (rank.foldl (distRankStep A warren mult) acc).1 := by
  induction rank generalizing acc with
  | nil => exact DFrame.refl _
  | cons c cs ih => simp only [List.foldl_cons]; exact (distRankStep_frame A warren mult acc c).trans (ih _)

theorem distBallotStep_frame (warren : Bool) (s : St α) (b : Ballot α) : DFrame s (distBallotStep A warren s b) := by
  unfold distBallotStep
  have := foldl_distRankStep_frame A warren (A.ofInt b.mult) b.rank (s, A.one, A.ofInt b.mult, false)
  exact ⟨this.1, this.2.1, this.2.2.1, this.2.2.2.1, this.2.2.2.2⟩

theorem distStrict_frame (warren : Bool) (s : St α) : DFrame s (distStrict A warren s) := by
  unfold distStrict
  have : ∀ (bs : List (Ballot α)) (t : St α), DFrame t (bs.foldl (distBallotStep A warren) t) := by
    intro bs; induction bs with
    | nil => intro t; exact DFrame.refl _
    | cons b bs ih => intro t; simp only [List.foldl_cons]; exact (distBallotStep_frame A warren t b).trans (ih _)
  exact this _ _

theorem distributeVotes_frame (warren : Bool) (s : St α) (hq : s.ballotsEq = []) : DFrame s (distributeVotes A warren s) := by
  unfold distributeVotes
  have h1 : DFrame s (startDist A s) := ⟨rfl, rfl, rfl, rfl, rfl⟩
  have h2 := distStrict_frame A warren (startDist A s)
  have hbe : (distStrict A warren (startDist A s)).ballotsEq = [] := by rw [h2.2.1]; exact hq
  have heq : distEqual A warren (distStrict A warren (startDist A s)) = distStrict A warren (startDist A s) := by
    unfold distEqual; rw [hbe]; rfl
  rw [heq]; exact h1.trans h2

theorem distributeVotes_skel (warren : Bool) (s : St α) (hwf : s.WF) (hq : s.ballotsEq = []) (hA : LawfulArith A) :
    (distributeVotes A warren s).skel = s.skel := by
  unfold distributeVotes
  have hbe : (distStrict A warren (startDist A s)).ballotsEq = [] := by rw [distStrict_ballotsEq]; exact hq
  have heq : distEqual A warren (distStrict A warren (startDist A s)) = distStrict A warren (startDist A s) := by
    unfold distEqual; rw [hbe]; rfl
  rw [heq]
  have hwf1 : (startDist A s).WF := WF_of_skel (startDist_skel A s).symm hwf
  obtain ⟨_, h2⟩ := foldl_distBallotStep_sum A hA warren (startDist A s).ballots (startDist A s) hwf1
  unfold distStrict
  rw [h2, startDist_skel]

/-! ## a candidate that keeps nothing is never credited -/

theorem distRankStep_keeps (warren : Bool) (mult : α) (acc : St α × α × α × Bool) (cid : Nat) (hwf : acc.1.WF)
    (c : Cand α) (hc : c ∈ acc.1.cands) (hk : c.noKeep A) : c ∈ (distRankStep A warren mult acc cid).1.cands := by
  unfold distRankStep
  split
  · exact hc
  · cases hkf : kfOf acc.1 cid with
    | none => exact hc
    | some kf =>
      simp only
      split
      · exact hc
      · rename_i hnz
        apply mem_upd_of_ne hc
        intro e
        have h1 : acc.1.cand? cid = some c := by rw [← e]; exact cand?_of_mem hwf hc
        unfold kfOf at hkf
        rw [h1] at hkf
        simp only at hkf
        rcases hk with hk | ⟨k, hk, hz⟩
        · rw [hk] at hkf; cases hkf
        · rw [hk] at hkf
          have : k = kf := Option.some.inj hkf
          rw [this] at hz; exact hnz hz

theorem foldl_distRankStep_keeps (hA : LawfulArith A) (warren : Bool) (mult : α) (rank : List Nat) (acc : St α × α × α × Bool)
    (hwf : acc.1.WF) (c : Cand α) (hc : c ∈ acc.1.cands) (hk : c.noKeep A) :
    c ∈ (rank.foldl (distRankStep A warren mult) acc).1.cands := by
  induction rank generalizing acc with
  | nil => exact hc
  | cons d ds ih =>
    simp only [List.foldl_cons]
    have hsk := (distRankStep_sum A hA warren mult acc d hwf).2.1
    exact ih _ (WF_of_skel hsk.symm hwf) (distRankStep_keeps A warren mult acc d hwf c hc hk)

theorem distBallotStep_keeps (hA : LawfulArith A) (warren : Bool) (s : St α) (b : Ballot α) (hwf : s.WF)
    (c : Cand α) (hc : c ∈ s.cands) (hk : c.noKeep A) : c ∈ (distBallotStep A warren s b).cands := by
  unfold distBallotStep
  exact foldl_distRankStep_keeps A hA warren _ b.rank (s, A.one, A.ofInt b.mult, false) hwf c hc hk

theorem distStrict_keeps (hA : LawfulArith A) (warren : Bool) (s : St α) (hwf : s.WF)
    (c : Cand α) (hc : c ∈ s.cands) (hk : c.noKeep A) : c ∈ (distStrict A warren s).cands := by
  unfold distStrict
  have : ∀ (bs : List (Ballot α)) (t : St α), t.WF → c ∈ t.cands → c ∈ (bs.foldl (distBallotStep A warren) t).cands := by
    intro bs; induction bs with
    | nil => intro t _ h; exact h
    | cons b bs ih =>
      intro t ht hct
      simp only [List.foldl_cons]
      have hsk := (distBallotStep_sum A hA warren t b ht).2
      exact ih _ (WF_of_skel hsk.symm ht) (distBallotStep_keeps A hA warren t b ht c hct hk)
  exact this _ _ hwf hc

theorem startDist_keeps (s : St α) (c : Cand α) (hc : c ∈ s.cands) (hd : c.st = .defeated ∨ c.st = .withdrawn) :
    c ∈ (startDist A s).cands := by
  unfold startDist zeroActiveVotes St.setResidual
  simp only [List.mem_map]
  refine ⟨c, hc, ?_⟩
  rcases hd with hd | hd <;> simp [hd]

/-- the votes zeroed at the start of a distribution are all there is, when the dead hold nothing -/
theorem startDist_sumVotes (s : St α) (hdead : ∀ c ∈ s.cands, (c.st = .defeated ∨ c.st = .withdrawn) → c.vote = 0)
    (hz : A.zero = 0) : (startDist A s).sumVotes = 0 := by
  unfold startDist zeroActiveVotes St.setResidual St.sumVotes
  simp only [List.map_map]
  have : ∀ (l : List (Cand α)), (∀ c ∈ l, (c.st = .defeated ∨ c.st = .withdrawn) → c.vote = 0) →
      (l.map ((fun c => c.vote) ∘ fun c => if (c.st == .hopeful || c.st == .elected) = true then { c with vote := A.zero } else c)).sum = 0 := by
    intro l
    induction l with
    | nil => intro _; rfl
    | cons c cs ih =>
      intro h
      simp only [List.map_cons, List.sum_cons, Function.comp]
      rw [ih (fun d hd => h d (by simp [hd]))]
      cases hst : c.st with
      | hopeful => simp [hz]
      | elected => simp [hz]
      | defeated => simp [h c (by simp) (Or.inl hst)]
      | withdrawn => simp [h c (by simp) (Or.inr hst)]
  exact this s.cands hdead

/-- **a distribution re-establishes the identity**: from a state in which excluded and withdrawn candidates hold and
    keep nothing, whatever the keep factors of the others -/
theorem MPre.distribute (hA : LawfulArith A) (warren : Bool) {s : St α} (h : MPre A s) : MInv A (distributeVotes A warren s) := by
  have hfr := distributeVotes_frame A warren s h.noEq
  obtain ⟨f1, f2, f3, f4, f5⟩ := hfr
  have hsk := distributeVotes_skel A warren s h.wf h.noEq hA
  have hwf : (distributeVotes A warren s).WF := WF_of_skel hsk.symm h.wf
  have hsum := distributeVotes_sum A hA warren s h.wf h.noEq
  have hz := startDist_sumVotes A s (fun c hc hd => (h.dead c hc hd).1) hA.zero_eq
  refine
    { meth := f4 ▸ h.meth, wf := hwf, noEq := f2 ▸ h.noEq
      nb := by rw [f1, f3]; exact h.nb
      recM := by unfold RecM; rw [f5, f3]; exact h.recM
      dead := ?_
      total := by rw [hsum, hz, zero_add, f3]; exact h.nb }
  intro c' hc' hd
  obtain ⟨c, hc, hcsk⟩ := mem_of_skel_eq hsk hc'
  have hst := skel_st hcsk
  have hdc : c.st = .defeated ∨ c.st = .withdrawn := by rw [← hst.1] at hd; exact hd
  obtain ⟨hv, hk⟩ := h.dead c hc hdc
  -- the dead candidate is carried through unchanged
  have hkeep : c ∈ (distributeVotes A warren s).cands := by
    unfold distributeVotes
    have hbe : (distStrict A warren (startDist A s)).ballotsEq = [] := by rw [distStrict_ballotsEq]; exact h.noEq
    have heq : distEqual A warren (distStrict A warren (startDist A s)) = distStrict A warren (startDist A s) := by
      unfold distEqual; rw [hbe]; rfl
    rw [heq]
    exact distStrict_keeps A hA warren _ (WF_of_skel (startDist_skel A s).symm h.wf) c (startDist_keeps A s c hc hdc) hk
  have : c' = c := nodup_cid_eq hwf hc' hkeep (skel_cid hcsk).symm
  rw [this]; exact ⟨hv, hk⟩

end Droop

namespace Droop
variable {α : Type} [CommRing α] [LinearOrder α] [IsStrictOrderedRing α] (A : Arith α)

theorem MInv.setVotes {s : St α} (h : MInv A s) (v : α) : MInv A (s.setVotes v) := h.of_same A rfl rfl rfl rfl rfl rfl rfl
theorem MInv.setQuota {s : St α} (h : MInv A s) (v : α) : MInv A (s.setQuota v) := h.of_same A rfl rfl rfl rfl rfl rfl rfl
theorem MInv.setSurplus {s : St α} (h : MInv A s) (v : α) : MInv A (s.setSurplus v) := h.of_same A rfl rfl rfl rfl rfl rfl rfl

/-- one iteration (distribution, quota, election step, surplus) keeps the identity -/
theorem MInv.meekIterCore (hA : LawfulArith A) (o : MeekOpts) {s : St α} (h : MInv A s) : MInv A (Droop.meekIterCore A o s) := by
  unfold Droop.meekIterCore
  dsimp only
  apply MInv.setSurplus
  apply MInv.foldElect
  apply MInv.setQuota
  apply MInv.setVotes
  exact h.toMPre.distribute A hA o.warren

/-- changing only the keep factor of candidates that are elected -/
theorem MInv.upd_kf {s : St α} (h : MInv A s) (cid : Nat) (k : α)
    (hel : ∀ x ∈ s.cands, x.cid = cid → x.st = .elected) : MInv A (s.upd cid (fun x => { x with kf := some k })) :=
  { meth := h.meth
    wf := by
      unfold St.WF
      rw [upd_status_cids s cid (fun x => { x with kf := some k }) (fun c => ⟨rfl, rfl⟩)]; exact h.wf
    noEq := h.noEq, nb := h.nb, recM := h.recM
    dead := by
      intro c' hc' hd
      obtain ⟨c, hc, rfl⟩ := mem_upd.1 hc'
      by_cases he : (c.cid == cid) = true
      · simp only [he, if_true] at hd
        have := hel c hc (by simpa using he)
        rw [this] at hd
        rcases hd with hd | hd <;> cases hd
      · have hne : (c.cid == cid) = false := by simpa using he
        simp only [hne, Bool.false_eq_true, if_false] at hd ⊢
        exact h.dead c hc hd
    total := by
      unfold St.sumVotes
      rw [upd_status_votes s cid (fun x => { x with kf := some k }) (fun c => ⟨rfl, rfl⟩)]; exact h.total }

theorem upd_kf_skel (s : St α) (cid : Nat) (k : α) : (s.upd cid (fun x => { x with kf := some k })).skel = s.skel := by
  unfold St.skel St.upd
  simp only [List.map_map]
  apply List.map_congr_left
  intro c _
  simp only [Function.comp]
  split <;> rfl

theorem setCrash_cands (s : St α) (k : String) : (s.setCrash k).cands = s.cands := by
  unfold St.setCrash; split <;> rfl

def kfStep (cap : Bool) (acc : St α) (c : Cand α) : St α :=
  match c.kf with
  | some kf =>
    if A.isZero c.vote then acc.setCrash "ZeroDivisionError"
    else acc.upd c.cid (fun x => { x with kf := some (kfCap A cap (A.div .up (A.mul .up kf acc.quota) c.vote)) })
  | none => acc.setCrash "TypeError"

theorem kfUpdate_eq (cap : Bool) (s : St α) : kfUpdate A cap s = s.elected.foldl (kfStep A cap) s := rfl

theorem MInv.kfFold (cap : Bool) (l : List (Cand α)) {s : St α} (h : MInv A s)
    (hel : ∀ c ∈ l, ∀ x ∈ s.cands, x.cid = c.cid → x.st = .elected) : MInv A (l.foldl (kfStep A cap) s) := by
  induction l generalizing s with
  | nil => exact h
  | cons c cs ih =>
    simp only [List.foldl_cons]
    have hstep : MInv A (kfStep A cap s c) ∧ (kfStep A cap s c).skel = s.skel := by
      unfold kfStep
      split
      · split
        · exact ⟨h.setCrash A _, by unfold St.skel; rw [setCrash_cands]⟩
        · exact ⟨h.upd_kf A c.cid _ (hel c (by simp)), upd_kf_skel s c.cid _⟩
      · exact ⟨h.setCrash A _, by unfold St.skel; rw [setCrash_cands]⟩
    apply ih hstep.1
    intro c' hc' x hx hxc
    obtain ⟨x0, hx0, hsk⟩ := mem_of_skel_eq hstep.2 hx
    have := hel c' (by simp [hc']) x0 hx0 ((skel_cid hsk).trans hxc)
    rw [← (skel_st hsk).1]; exact this

theorem MInv.kfUpdate (cap : Bool) {s : St α} (h : MInv A s) : MInv A (Droop.kfUpdate A cap s) := by
  rw [kfUpdate_eq]
  apply h.kfFold A cap
  intro c hc x hx hxc
  unfold St.elected at hc
  rw [List.mem_filter] at hc
  have : x = c := nodup_cid_eq h.wf hx hc.1 hxc
  rw [this]; simpa using hc.2

/-- logging needs only: method, "withdrawn hold nothing", the identity, and the record so far -/
theorem recM_logAct (s : St α) (hm : s.method = .meek) (hw : ∀ c ∈ s.cands, c.st = .withdrawn → c.vote = 0)
    (ht : s.sumVotes + s.residual = A.ofInt s.nballots) (hr : RecM A s) (tag verb : String) (subj : List Nat) :
    RecM A (s.logAct A tag verb subj) := by
  have hsnap : SnapM A s.nballots (s.mkSnap A) := snapM_mkSnap A s hm hw ht
  have e5 : (s.logAct A tag verb subj).nballots = s.nballots := by unfold St.logAct; simp only; split <;> rfl
  unfold RecM
  rw [e5]
  intro a ha sn hsn
  unfold St.logAct at ha
  simp only at ha
  split at ha
  · rcases List.mem_cons.mp ha with rfl | ha'
    · simp only at hsn
      have : sn = St.mkSnap A { s with rounds := s.rounds ++ [s.cands] } := (Option.some.inj hsn).symm
      rw [this]; exact hsnap
    · exact hr a ha' sn hsn
  · rcases List.mem_cons.mp ha with rfl | ha'
    · simp only at hsn
      have : sn = St.mkSnap A s := (Option.some.inj hsn).symm
      rw [this]; exact hsnap
    · exact hr a ha' sn hsn

/-- the state of an exclusion just before the redistribution: logged, tally and keep factor zeroed -/
theorem MInv.defeatZero (hA : LawfulArith A) (hz : A.isZero A.zero = true) {s : St α} (h : MInv A s) (cid : Nat) (verb : String) :
    MPre A ((s.defeat A cid verb).upd cid (fun c => { c with kf := some A.zero, vote := A.zero })) := by
  have hcands : ((s.defeat A cid verb).upd cid (fun c => { c with kf := some A.zero, vote := A.zero })).cands
      = s.cands.map (fun c => if c.cid == cid then { c with st := .defeated, kf := some A.zero, vote := A.zero } else c) := by
    unfold St.defeat St.upd
    rw [logAct_cands]
    simp only [List.map_map]
    apply List.map_congr_left
    intro c _
    simp only [Function.comp]
    by_cases he : (c.cid == cid) = true
    · simp [he]
    · simp [he]
  have hfr : ∀ (t : St α) (tag vb : String) (sj : List Nat), (t.logAct A tag vb sj).ballots = t.ballots
      ∧ (t.logAct A tag vb sj).ballotsEq = t.ballotsEq ∧ (t.logAct A tag vb sj).nballots = t.nballots
      ∧ (t.logAct A tag vb sj).method = t.method := by
    intro t tag vb sj; unfold St.logAct; simp only; split <;> exact ⟨rfl, rfl, rfl, rfl⟩
  obtain ⟨g1, g2, g3, g4⟩ := hfr (s.upd cid (fun c => { c with st := .defeated })) "defeat" verb [cid]
  exact
    { meth := by
        show ((s.upd cid fun c => { c with st := .defeated }).logAct A "defeat" verb [cid]).method = _
        rw [g4]; exact h.meth
      wf := by
        unfold St.WF
        rw [hcands, List.map_map]
        have : s.cands.map ((fun c => c.cid) ∘ fun c => if c.cid == cid then { c with st := .defeated, kf := some A.zero, vote := A.zero } else c)
            = s.cands.map (·.cid) := by
          apply List.map_congr_left; intro c _; simp only [Function.comp]; split <;> rfl
        rw [this]; exact h.wf
      noEq := by
        show ((s.upd cid fun c => { c with st := .defeated }).logAct A "defeat" verb [cid]).ballotsEq = _
        rw [g2]; exact h.noEq
      nb := by
        show (((s.upd cid fun c => { c with st := .defeated }).logAct A "defeat" verb [cid]).ballots.map _).sum
          = A.ofInt ((s.upd cid fun c => { c with st := .defeated }).logAct A "defeat" verb [cid]).nballots
        rw [g1, g3]; exact h.nb
      dead := by
        intro c' hc' hd
        rw [hcands] at hc'
        obtain ⟨c, hc, rfl⟩ := List.mem_map.1 hc'
        by_cases he : (c.cid == cid) = true
        · simp only [he, if_true]
          exact ⟨hA.zero_eq, Or.inr ⟨A.zero, rfl, hz⟩⟩
        · have hne : (c.cid == cid) = false := by simpa using he
          simp only [hne, Bool.false_eq_true, if_false] at hd ⊢
          exact h.dead c hc hd
      recM := by
        show RecM A ((s.upd cid fun c => { c with st := .defeated }).logAct A "defeat" verb [cid])
        apply recM_logAct A (s.upd cid fun c => { c with st := .defeated }) h.meth
        · intro c' hc' hw
          obtain ⟨c, hc, rfl⟩ := mem_upd.1 hc'
          by_cases he : (c.cid == cid) = true
          · simp only [he, if_true] at hw; cases hw
          · have hne : (c.cid == cid) = false := by simpa using he
            simp only [hne, Bool.false_eq_true, if_false] at hw ⊢
            exact (h.dead c hc (Or.inr hw)).1
        · unfold St.sumVotes
          rw [upd_status_votes s cid (fun c => { c with st := .defeated }) (fun c => ⟨rfl, rfl⟩)]; exact h.total
        · exact h.recM }

theorem MInv.meekDefeatOne (hA : LawfulArith A) (hz : A.isZero A.zero = true) (o : MeekOpts) {s : St α} (h : MInv A s)
    (cid : Nat) (verb : String) : MInv A (Droop.meekDefeatOne A o s cid verb) := by
  unfold Droop.meekDefeatOne
  exact (h.defeatZero A hA hz cid verb).distribute A hA o.warren

end Droop

namespace Droop
variable {α : Type} [CommRing α] [LinearOrder α] [IsStrictOrderedRing α] (A : Arith α)

/-- the whole iteration of a round -/
theorem MInv.meekIterate (hA : LawfulArith A) (o : MeekOpts) (omega : α) :
    ∀ (fuel : Nat) (last : α) (s : St α), MInv A s → MInv A (Droop.meekIterate A o omega fuel last s).1 := by
  intro fuel
  induction fuel with
  | zero => intro last s h; exact h
  | succ n ih =>
    intro last s h
    unfold Droop.meekIterate
    have hc := h.meekIterCore A hA o
    repeat' split
    all_goals first
      | exact hc
      | exact hc.logMsg A _ _ _
      | exact hc.kfUpdate A true
      | exact ih _ _ (hc.kfUpdate A true)

theorem MInv.meekDefeatBatch (hA : LawfulArith A) (hz : A.isZero A.zero = true) (o : MeekOpts) {s : St α} (h : MInv A s)
    (cids : List Nat) : MInv A (Droop.meekDefeatBatch A o s cids) := by
  unfold Droop.meekDefeatBatch
  generalize byBallotOrder (s.cands.filter (fun c => cids.contains c.cid)) = l
  induction l generalizing s with
  | nil => exact h
  | cons c cs ih => simp only [List.foldl_cons]; exact ih (h.meekDefeatOne A hA hz o c.cid _)

theorem MInv.meekDefeatLow (hA : LawfulArith A) (hz : A.isZero A.zero = true) (o : MeekOpts) {s : St α} (h : MInv A s)
    (b : Bool) : MInv A (Droop.meekDefeatLow A o s b).1 := by
  unfold Droop.meekDefeatLow
  split
  · exact h
  · rename_i hd hs _
    have hbt := h.breakTie A (s.hopeful.filter (fun c => A.ge (A.add (A.vMin hd.vote (hs.map (·.vote))) s.surplus) c.vote)) "Break tie (defeat)"
    cases hb : Droop.breakTie A s (s.hopeful.filter (fun c => A.ge (A.add (A.vMin hd.vote (hs.map (·.vote))) s.surplus) c.vote)) "Break tie (defeat)" with
    | mk s3 oc =>
      rw [hb] at hbt
      cases oc with
      | none => exact hbt
      | some lc => exact hbt.meekDefeatOne A hA hz o lc.cid _

theorem MInv.meekAfterIterate (hA : LawfulArith A) (hz : A.isZero A.zero = true) (o : MeekOpts) (r : St α × IStatus)
    (h : MInv A r.1) : MInv A (Droop.meekAfterIterate A o r).1 := by
  unfold Droop.meekAfterIterate
  split
  · exact h.setCrash A _
  · exact h
  · exact h.logAct A _ _ _
  · exact (h.logAct A _ _ _).meekDefeatBatch A hA hz o _
  · exact (h.logAct A _ _ _).meekDefeatLow A hA hz o _
  · exact (h.logAct A _ _ _).meekDefeatLow A hA hz o _

theorem MInv.meekBody (hA : LawfulArith A) (hz : A.isZero A.zero = true) (o : MeekOpts) (omega : α) (fuel : Nat) {s : St α}
    (h : MInv A s) : MInv A (Droop.meekBody A o omega fuel s).1 := by
  unfold Droop.meekBody
  exact MInv.meekAfterIterate A hA hz o _ (MInv.meekIterate A hA o omega fuel _ _ (h.newRound A))

/-- electing or defeating what is left at the end keeps the identity -/
theorem MInv.meekRemainingStep (hA : LawfulArith A) (hz : A.isZero A.zero = true) (o : MeekOpts) {s : St α} (h : MInv A s)
    (c : Cand α) : MInv A (Droop.meekRemainingStep A o s c) := by
  unfold Droop.meekRemainingStep
  split
  · exact (h.elect A c.cid _ false).toMPre.distribute A hA o.warren
  · exact h.meekDefeatOne A hA hz o c.cid _

theorem MInv.foldRemainingM (hA : LawfulArith A) (hz : A.isZero A.zero = true) (o : MeekOpts) (l : List (Cand α)) {s : St α}
    (h : MInv A s) : MInv A (l.foldl (Droop.meekRemainingStep A o) s) := by
  induction l generalizing s with
  | nil => exact h
  | cons c cs ih => simp only [List.foldl_cons]; exact ih (h.meekRemainingStep A hA hz o c)

/-- **Meek / Warren (strict ballots), run level**: if the identity holds when the main loop is entered it holds when the
    loop exits and after the remaining candidates have been elected or defeated — and, through `recM`, every snapshot
    logged on the way (begin, every round, every iterate, elect, tie, defeat) shows votes + residual = ballots exactly.
    No hypothesis on keep factors, precision or omega. -/
theorem meek_loop_identity (hA : LawfulArith A) (hz : A.isZero A.zero = true) (o : MeekOpts) (omega : α) (iterFuel fuel : Nat)
    (s t : St α) (h : MInv A s)
    (hl : loopN (fun s => !meekCountComplete s) (meekBody A o omega iterFuel) fuel s = some t) :
    MInv A t ∧ MInv A (t.hopeful.foldl (meekRemainingStep A o) t) := by
  have ht : MInv A t :=
    loopN_preserves (MInv A) _ (meekBody A o omega iterFuel) (fun s hs => hs.meekBody A hA hz o omega iterFuel) _ _ _ h hl
  exact ⟨ht, ht.foldRemainingM A hA hz o _⟩

end Droop

namespace Droop
variable {α : Type} [CommRing α] [LinearOrder α] [IsStrictOrderedRing α] (A : Arith α)

/-- what `Election.__init__` + `Election.count()` hand to the Meek / Warren rule for a profile of strict ballots -/
structure MInit (s : St α) : Prop where
  meth : s.method = .meek
  noActs : s.acts = []
  wf : s.WF
  noEq : s.ballotsEq = []
  tops : ∀ b ∈ s.ballots, ∃ c, b.top = some c ∧ ∃ x ∈ s.cands, x.cid = c ∧ x.st = .hopeful
  fresh : ∀ c ∈ s.cands, c.vote = 0 ∧ c.kf = none ∧ (c.st = .hopeful ∨ c.st = .withdrawn)
  residual0 : s.residual = 0
  nb : (s.ballots.map (fun b => A.ofInt b.mult)).sum = A.ofInt s.nballots

def mfcStep (acc : St α) (b : Ballot α) : St α :=
  match b.top with
  | some c => acc.addVote A c (A.ofInt b.mult)
  | none => acc

theorem meekFirstCount_eq (s : St α) (hq : s.ballotsEq = []) : meekFirstCount A s = s.ballots.foldl (mfcStep A) s := by
  unfold meekFirstCount
  rw [hq]; rfl

/-- the invariant of the first count: withdrawn candidates untouched, everything else as in `MInv` minus the record -/
structure FC (s0 s : St α) (done : List (Ballot α)) : Prop where
  skel : s.skel = s0.skel
  sum : s.sumVotes = s0.sumVotes + (done.map (fun b => A.ofInt b.mult)).sum
  wd : ∀ c ∈ s.cands, c.st = .withdrawn → c ∈ s0.cands
  frame : s.ballots = s0.ballots ∧ s.ballotsEq = s0.ballotsEq ∧ s.residual = s0.residual ∧ s.nballots = s0.nballots
          ∧ s.method = s0.method ∧ s.acts = s0.acts

theorem mfc_fold (hA : LawfulArith A) (s0 : St α) (hwf : s0.WF)
    (bs : List (Ballot α)) (htops : ∀ b ∈ bs, ∃ c, b.top = some c ∧ ∃ x ∈ s0.cands, x.cid = c ∧ x.st = .hopeful) :
    ∀ (s : St α) (done : List (Ballot α)), FC A s0 s done → FC A s0 (bs.foldl (mfcStep A) s) (done ++ bs) := by
  induction bs with
  | nil => intro s done h; simpa using h
  | cons b bs ih =>
    intro s done h
    simp only [List.foldl_cons]
    have hstep : FC A s0 (mfcStep A s b) (done ++ [b]) := by
      obtain ⟨c, htop, x, hx, hxc, hxh⟩ := htops b (by simp)
      unfold mfcStep
      rw [htop]
      have hwfs : s.WF := WF_of_skel h.skel.symm hwf
      have hsome : (s.cand? c).isSome := by
        rw [cand?_isSome_of_skel h.skel]; exact (cand?_isSome_iff s0 c).2 ⟨x, hx, hxc⟩
      exact
        { skel := (addVote_skel A s c _).trans h.skel
          sum := by
            rw [sumVotes_addVote A hA s c _ hwfs hsome, h.sum]
            simp only [List.map_append, List.sum_append, List.map_cons, List.map_nil, List.sum_cons, List.sum_nil]; ring
          wd := by
            intro c' hc' hw
            obtain ⟨c0, hc0, rfl⟩ := mem_upd.1 hc'
            by_cases he : (c0.cid == c) = true
            · -- the credited candidate is hopeful, not withdrawn
              exfalso
              simp only [he, if_true] at hw
              obtain ⟨y, hy, hsk⟩ := mem_of_skel_eq h.skel hc0
              have hcc : c0.cid = c := by simpa using he
              have : y = x := nodup_cid_eq hwf hy hx ((skel_cid hsk).trans (hcc.trans hxc.symm))
              have hst := (skel_st hsk).1
              rw [this, hxh] at hst
              have hw' : c0.st = .withdrawn := hw
              rw [← hst] at hw'; cases hw'
            · have hne : (c0.cid == c) = false := by simpa using he
              simp only [hne, Bool.false_eq_true, if_false] at hw ⊢
              exact h.wd c0 hc0 hw
          frame := h.frame }
    have := ih (fun b' hb' => htops b' (by simp [hb'])) _ _ hstep
    simpa using this

theorem MInv.meekInit (hA : LawfulArith A) {s0 : St α} (h0 : MInit A s0) : MInv A (Droop.meekInit A s0) := by
  unfold Droop.meekInit
  apply MInv.logAct
  set s3 : St α := ((s0.setVotes (A.ofInt s0.nballots)).setQuota (meekQuota A (s0.setVotes (A.ofInt s0.nballots)))).initKf A.one with hs3
  have hsk3 : s3.skel = s0.skel := by
    show (s0.cands.map _).map Cand.skel = s0.cands.map Cand.skel
    rw [List.map_map]
    apply List.map_congr_left; intro c _; simp only [Function.comp]; split <;> rfl
  have hwf3 : s3.WF := WF_of_skel hsk3.symm h0.wf
  have hq3 : s3.ballotsEq = [] := h0.noEq
  rw [meekFirstCount_eq A s3 hq3]
  have htops3 : ∀ b ∈ s3.ballots, ∃ c, b.top = some c ∧ ∃ x ∈ s3.cands, x.cid = c ∧ x.st = .hopeful := by
    intro b hb
    obtain ⟨c, htop, x, hx, hxc, hxh⟩ := h0.tops b hb
    have : x.skel ∈ s3.skel := by rw [hsk3]; exact List.mem_map.2 ⟨x, hx, rfl⟩
    obtain ⟨x', hx', hsk'⟩ := List.mem_map.1 this
    exact ⟨c, htop, x', hx', (skel_cid hsk').trans hxc, (skel_st hsk').1.trans hxh⟩
  have hfc := mfc_fold A hA s3 hwf3 s3.ballots htops3 s3 [] ⟨rfl, by simp, fun c hc _ => hc, ⟨rfl, rfl, rfl, rfl, rfl, rfl⟩⟩
  simp only [List.nil_append] at hfc
  obtain ⟨f1, f2, f3, f4, f5, f6⟩ := hfc.frame
  have hsum3 : s3.sumVotes = 0 := by
    unfold St.sumVotes
    have : s3.cands.map (·.vote) = s0.cands.map (fun _ => (0 : α)) := by
      show (s0.cands.map _).map _ = _
      rw [List.map_map]
      apply List.map_congr_left; intro c hc
      simp only [Function.comp]
      have := (h0.fresh c hc).1
      split <;> simpa using this
    rw [this]; simp
  exact
    { meth := f5 ▸ h0.meth
      wf := WF_of_skel hfc.skel.symm hwf3
      noEq := f2 ▸ hq3
      nb := by rw [f1, f4]; exact h0.nb
      recM := by unfold RecM; rw [f6]; show ∀ a ∈ s0.acts, _; rw [h0.noActs]; intro a ha; cases ha
      dead := by
        intro c hc hd
        rcases hd with hd | hd
        · -- nobody is defeated yet
          exfalso
          obtain ⟨y, hy, hsk⟩ := mem_of_skel_eq (hfc.skel.trans hsk3) hc
          have := (h0.fresh y hy).2.2
          rw [(skel_st hsk).1, hd] at this
          rcases this with h | h <;> cases h
        · have hc3 := hfc.wd c hc hd
          -- a withdrawn candidate of s3 is the withdrawn candidate of s0, unchanged
          obtain ⟨c0, hc0, rfl⟩ := List.mem_map.1 (show c ∈ s0.cands.map _ from hc3)
          have hw0 : c0.st = .withdrawn := by
            by_cases hh : (c0.st == CState.hopeful) = true
            · simp only [hh, if_true] at hd; rw [(by simpa using hh : c0.st = .hopeful)] at hd; cases hd
            · simpa [hh] using hd
          have hne : (c0.st == CState.hopeful) = false := by rw [hw0]; rfl
          simp only [hne, Bool.false_eq_true, if_false]
          exact ⟨(h0.fresh c0 hc0).1, Or.inl (h0.fresh c0 hc0).2.1⟩
      total := by
        rw [hfc.sum, hsum3, zero_add, f3, f4]
        show _ + s0.residual = _
        rw [h0.residual0, add_zero]
        exact h0.nb }

/-- **C08 / C02 for meek and warren on strict ballots, from the start of the count**: every snapshot of the record up to
    the last exclusion or election has votes + residual = ballots, for every input, every keep-factor history, every
    precision and omega -/
theorem meek_identity (hA : LawfulArith A) (hz : A.isZero A.zero = true) (o : MeekOpts) (omega : α) (iterFuel fuel : Nat)
    (s0 t : St α) (h0 : MInit A s0)
    (hl : loopN (fun s => !meekCountComplete s) (meekBody A o omega iterFuel) fuel (meekInit A s0) = some t) :
    RecM A (t.hopeful.foldl (meekRemainingStep A o) t) :=
  (meek_loop_identity A hA hz o omega iterFuel fuel _ t (MInv.meekInit A hA h0) hl).2.recM

end Droop
