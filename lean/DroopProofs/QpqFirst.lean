import DroopProofs.QpqFig
import DroopProofs.QpqLow

/-! # C05 for QPQ, one seat: a candidate ranked first on more than half of the ballots wins

The first round starts with a restart: every ballot goes back to its first preference with contribution 0.  The tally then gives
each hopeful candidate its first-preference count as quotient (`count / (1 + 0)`), and the quota is `ballots / 2`, rounded down in
the last guarded digit.  The majority candidate's quotient is a whole unit above every other quotient and above the quota by more
than the tolerance of the guarded comparisons, so it is the one elected; with one seat the loop then stops, and the closing stage
un-elects nobody. -/
namespace Droop

/-- first preferences for candidate `k`, and all ballots, counted with multipliers -/
def fpI (bs : List (Ballot Int)) (k : Nat) : Int := (bs.map (fun b => if b.rank.head? = some k then (b.mult : Int) else 0)).sum
def nI (bs : List (Ballot Int)) : Int := (bs.map (fun b => (b.mult : Int))).sum

theorem fpI_nonneg (bs : List (Ballot Int)) (k : Nat) : 0 ≤ fpI bs k := by
  unfold fpI
  apply List.sum_nonneg
  intro x hx
  obtain ⟨b, _, rfl⟩ := List.mem_map.1 hx
  split
  · exact Int.natCast_nonneg _
  · exact le_refl _

theorem fpI_two (bs : List (Ballot Int)) (k w : Nat) (h : k ≠ w) : fpI bs k + fpI bs w ≤ nI bs := by
  unfold fpI nI
  induction bs with
  | nil => simp
  | cons b bs ih =>
    simp only [List.map_cons, List.sum_cons]
    have hm : (0 : Int) ≤ (b.mult : Int) := Int.natCast_nonneg _
    by_cases h1 : b.rank.head? = some k
    · have h2 : ¬ b.rank.head? = some w := by rw [h1]; intro e; exact h (Option.some.inj e)
      rw [if_pos h1, if_neg h2]; omega
    · rw [if_neg h1]
      by_cases h2 : b.rank.head? = some w
      · rw [if_pos h2]; omega
      · rw [if_neg h2]; omega

/-- a state no round has touched: a restart is due, distinct ids, everybody hopeful or withdrawn, every ballot starts with a
    hopeful candidate -/
structure QFresh (q : QSt Int) : Prop where
  restart : q.restart = true
  wf : q.s.WF
  stat : ∀ c ∈ q.s.cands, c.st = .hopeful ∨ c.st = .withdrawn
  ballots : ∀ b ∈ q.s.ballots, ∃ r rs, b.rank = r :: rs ∧ q.s.isHopeful r = true

def resetB (b : Ballot Int) : Ballot Int := { b with idx := 0, w := 0, residual := 0 }

theorem resetB_top (b : Ballot Int) : (resetB b).top = b.rank.head? := by
  unfold resetB Ballot.top
  simp only
  cases b.rank <;> rfl

section
variable (p g : Nat)

theorem qR2_fresh_cands (q : QSt Int) (h : QFresh q) : (qR2 (guardedArith p g) q).cands = q.s.cands := by
  have h1 : (qR1 (guardedArith p g) q).cands = q.s.cands := by unfold qR1 St.newRound; rw [logAct_cands]
  unfold qR2
  rw [if_pos h.restart]
  show (unElect (qR1 (guardedArith p g) q)).cands = _
  unfold unElect
  simp only
  rw [h1]
  conv_rhs => rw [← List.map_id q.s.cands]
  apply List.map_congr_left
  intro c hc
  have : ¬ ((c.st == CState.elected) = true) := by
    rcases h.stat c hc with e | e <;> rw [e] <;> decide
  rw [if_neg this]; rfl

theorem qR2_fresh_ballots (q : QSt Int) (h : QFresh q) : (qR2 (guardedArith p g) q).ballots = q.s.ballots.map resetB := by
  have h1b : (qR1 (guardedArith p g) q).ballots = q.s.ballots := by
    unfold qR1 St.newRound
    exact logAct_ballots (guardedArith p g) _ _ _ _
  have h1c : (unElect (qR1 (guardedArith p g) q)).cands = q.s.cands := by
    have := qR2_fresh_cands p g q h
    unfold qR2 at this
    rw [if_pos h.restart] at this
    exact this
  unfold qR2
  rw [if_pos h.restart]
  unfold qRestart mapBallots
  simp only
  show (qR1 (guardedArith p g) q).ballots.map _ = _
  rw [h1b]
  apply List.map_congr_left
  intro b hb
  obtain ⟨r, rs, hr, hh⟩ := h.ballots b hb
  have hcont : (unElect (qR1 (guardedArith p g) q)).isHopeful r = true := by
    unfold St.isHopeful at hh ⊢
    rw [h1c]; exact hh
  unfold qAdvance advanceTo resetB
  simp only [hr, List.drop_zero, List.findIdx?_cons, hcont, if_true, Nat.add_zero]
  rfl

theorem fresh_topMg (bs : List (Ballot Int)) (k : Nat) :
    topMg (guardedArith p g) (bs.map resetB) k = fpI bs k * pow10 (p + g) := by
  unfold topMg fpI
  induction bs with
  | nil => simp
  | cons b bs ih =>
    simp only [List.map_cons, List.sum_cons, resetB_top] at ih ⊢
    rw [ih, add_mul]
    congr 1
    split
    · rfl
    · simp

theorem fresh_topWg (bs : List (Ballot Int)) (k : Nat) : topWg (bs.map resetB) k = 0 := by
  unfold topWg
  induction bs with
  | nil => simp
  | cons b bs ih =>
    simp only [List.map_cons, List.sum_cons] at ih ⊢
    rw [ih]
    split
    · show (0 : Int) * _ + 0 = 0
      simp
    · simp

theorem fresh_exhWg (bs : List (Ballot Int)) : exhWg (bs.map resetB) = 0 := by
  unfold exhWg
  induction bs with
  | nil => simp
  | cons b bs ih =>
    simp only [List.map_cons, List.sum_cons] at ih ⊢
    rw [ih]
    split
    · show (0 : Int) * _ + 0 = 0
      simp
    · simp

theorem fresh_activeMg (bs : List (Ballot Int)) (hne : ∀ b ∈ bs, b.rank ≠ []) :
    activeMg (guardedArith p g) (bs.map resetB) = nI bs * pow10 (p + g) := by
  unfold activeMg nI
  induction bs with
  | nil => simp
  | cons b bs ih =>
    simp only [List.map_cons, List.sum_cons, resetB_top] at ih ⊢
    rw [ih (fun b' hb' => hne b' (List.mem_cons_of_mem _ hb')), add_mul]
    congr 1
    have : ¬ b.rank.head? = none := by
      cases hb : b.rank with
      | nil => exact absurd hb (hne b (List.mem_cons_self ..))
      | cons r rs => simp
    rw [if_neg this]
    rfl

/-- in the decision state of the first round every hopeful candidate's quotient is its first-preference count -/
theorem fresh_quot (q : QSt Int) (h : QFresh q) (c : Cand Int) (hc : c ∈ (qR5 (guardedArith p g) q).hopeful) :
    qQuot (guardedArith p g) c = fpI q.s.ballots c.cid * pow10 (p + g) := by
  have hS := pow10_pos (p + g)
  obtain ⟨fv, ft, fq⟩ := qR5_figures_gen (guardedArith p g) (guarded_lawful p g) q h.wf c hc
  rw [qR2_fresh_ballots p g q h, fresh_topMg] at fv
  rw [qR2_fresh_ballots p g q h, fresh_topWg] at ft
  unfold qQuot
  rw [fq, fv, ft]
  show (if (pow10 (p + g) + 0 == 0) = true then (0 : Int) else pdiv (fpI q.s.ballots c.cid * pow10 (p + g) * pow10 (p + g)) (pow10 (p + g) + 0)) = _
  have hne : ¬ ((pow10 (p + g) + 0 == 0) = true) := by simp; omega
  rw [if_neg hne, add_zero]
  exact pdiv_mul_cancel _ _ hS

/-- ... and the quota, with one seat, is at most half the ballots -/
theorem fresh_quota (q : QSt Int) (h : QFresh q) (hseats : q.s.seats = 1) :
    2 * (qR5 (guardedArith p g) q).quota ≤ nI q.s.ballots * pow10 (p + g) := by
  have hS := pow10_pos (p + g)
  have hq := qR5_quota_gen (guardedArith p g) (guarded_lawful p g) q
  have hne : ∀ b ∈ q.s.ballots, b.rank ≠ [] := by
    intro b hb
    obtain ⟨r, rs, hr, _⟩ := h.ballots b hb
    rw [hr]; simp
  rw [qR2_fresh_ballots p g q h, fresh_activeMg p g _ hne, fresh_exhWg, qR2_seats, hseats] at hq
  rw [hq]
  show 2 * (if ((((1 + 1 : Nat) : Int)) * pow10 (p + g) - 0 == 0) = true then (0 : Int)
      else pdiv (nI q.s.ballots * pow10 (p + g) * pow10 (p + g)) ((((1 + 1 : Nat) : Int)) * pow10 (p + g) - 0)) ≤ _
  have h2 : (((1 + 1 : Nat) : Int)) * pow10 (p + g) - 0 = 2 * pow10 (p + g) := by push_cast; ring
  rw [h2]
  have hne2 : ¬ ((2 * pow10 (p + g) == 0) = true) := by simp; omega
  rw [if_neg hne2]
  have hle := pdiv_mul_le (nI q.s.ballots * pow10 (p + g) * pow10 (p + g)) (2 * pow10 (p + g)) (by omega)
  -- quota * (2S) ≤ nS * S, so 2 * quota ≤ nS
  have : 2 * pdiv (nI q.s.ballots * pow10 (p + g) * pow10 (p + g)) (2 * pow10 (p + g)) * pow10 (p + g)
      ≤ nI q.s.ballots * pow10 (p + g) * pow10 (p + g) := by
    calc 2 * pdiv (nI q.s.ballots * pow10 (p + g) * pow10 (p + g)) (2 * pow10 (p + g)) * pow10 (p + g)
        = pdiv (nI q.s.ballots * pow10 (p + g) * pow10 (p + g)) (2 * pow10 (p + g)) * (2 * pow10 (p + g)) := by ring
      _ ≤ _ := hle
  exact le_of_mul_le_mul_right this hS


theorem breakTie_some {α : Type} (A : Arith α) (s : St α) (tied : List (Cand α)) (verb : String) (hne : tied ≠ []) :
    ∃ c, (breakTie A s tied verb).2 = some c := by
  unfold breakTie
  match tied, hne with
  | [c], _ => exact ⟨c, rfl⟩
  | x :: y :: rest, _ =>
    simp only
    have hx : x ∈ byTieOrder (x :: y :: rest) := (mem_pySorted _ _ _ _).2 (List.mem_cons_self ..)
    cases hb : byTieOrder (x :: y :: rest) with
    | nil => rw [hb] at hx; cases hx
    | cons z zs => exact ⟨z, rfl⟩

theorem guarded_eq_refl (a : Int) : (guardedArith p g).eq a a = true := by
  rw [guarded_eq_iff]; simp [geps_pos]

/-- under guarded comparisons a round with a hopeful candidate always takes a decision -/
theorem qDecide_flow_cont (q1 : QSt Int) (s5 : St Int) (hne : s5.hopeful ≠ []) :
    (qDecide (guardedArith p g) q1 s5).2 = .cont := by
  unfold qDecide
  cases hh : s5.hopeful with
  | nil => exact absurd hh hne
  | cons hd hs =>
    simp only
    have key : ∀ (v : Int), v ∈ (qQuot (guardedArith p g) hd) :: hs.map (qQuot (guardedArith p g)) →
        List.filter (fun c => (guardedArith p g).eq (qQuot (guardedArith p g) c) v) (hd :: hs) ≠ [] := by
      intro v hv
      have : ∃ d ∈ hd :: hs, qQuot (guardedArith p g) d = v := by
        rcases List.mem_cons.1 hv with e | e
        · exact ⟨hd, List.mem_cons_self .., e.symm⟩
        · obtain ⟨d, hd', hde⟩ := List.mem_map.1 e
          exact ⟨d, List.mem_cons_of_mem _ hd', hde⟩
      obtain ⟨d, hdm, hde⟩ := this
      intro hnil
      have : d ∈ List.filter (fun c => (guardedArith p g).eq (qQuot (guardedArith p g) c) v) (hd :: hs) :=
        List.mem_filter.2 ⟨hdm, by rw [hde]; exact guarded_eq_refl p g v⟩
      rw [hnil] at this; cases this
    split
    · obtain ⟨c, hc⟩ := breakTie_some (guardedArith p g) s5 _ "Break tie by lot (largest quotient)"
        (key _ (guarded_pyMax p g (hs.map (qQuot (guardedArith p g))) (qQuot (guardedArith p g) hd)).2.1)
      split
      · rfl
      · rename_i hb; rw [hb] at hc; cases hc
    · obtain ⟨c, hc⟩ := breakTie_some (guardedArith p g) s5 _ "Break tie by lot (smallest quotient)"
        (key _ (guarded_pyMin p g (hs.map (qQuot (guardedArith p g))) (qQuot (guardedArith p g) hd)).2.1)
      split
      · rfl
      · rename_i hb; rw [hb] at hc; cases hc

theorem mem_stsig_iff {α : Type} (s : St α) (i : Nat) (st : CState) : (i, st) ∈ stsig s ↔ ∃ c ∈ s.cands, c.cid = i ∧ c.st = st := by
  unfold stsig
  constructor
  · intro h
    obtain ⟨c, hc, he⟩ := List.mem_map.1 h
    exact ⟨c, hc, by cases he; rfl, by cases he; rfl⟩
  · rintro ⟨c, hc, rfl, rfl⟩
    exact List.mem_map.2 ⟨c, hc, rfl⟩

/-- **the first round elects the majority candidate** -/
theorem first_round_elects (q : QSt Int) (h : QFresh q) (hseats : q.s.seats = 1) (hp : 4 * geps g ≤ pow10 (p + g)) (w : Nat)
    (hw : (w, CState.hopeful) ∈ stsig q.s) (hmaj : nI q.s.ballots < 2 * fpI q.s.ballots w) :
    (qpqBody (guardedArith p g) q).2 = .cont ∧ (w, CState.elected) ∈ stsig (qpqBody (guardedArith p g) q).1.s
      ∧ nEl (qpqBody (guardedArith p g) q).1.s = 1 := by
  have hS := pow10_pos (p + g)
  have hgp := geps_pos g
  rw [qpqBody_eq]
  have h5 : stsig (qR5 (guardedArith p g) q) = stsig q.s := by
    rw [(qR5_stsig (guardedArith p g) q).1]
    exact stsig_of_cands (qR2_fresh_cands p g q h)
  have hwf5 : (qR5 (guardedArith p g) q).WF := WF_of_stsig h5 h.wf
  obtain ⟨m, hm5, hmw, hmh⟩ := (mem_stsig_iff _ w .hopeful).1 (by rw [h5]; exact hw)
  have hmhop : m ∈ (qR5 (guardedArith p g) q).hopeful := mem_hopeful.2 ⟨hm5, hmh⟩
  have hne : (qR5 (guardedArith p g) q).hopeful ≠ [] := fun e => by rw [e] at hmhop; cases hmhop
  have hcont := qDecide_flow_cont p g (qQ1 (guardedArith p g) q) (qR5 (guardedArith p g) q) hne
  have hqm : qQuot (guardedArith p g) m = fpI q.s.ballots w * pow10 (p + g) := by
    rw [fresh_quot p g q h m hmhop, hmw]
  have hquota := fresh_quota p g q h hseats
  -- whoever is not `w` has a quotient a whole unit lower
  have hlow : ∀ d ∈ (qR5 (guardedArith p g) q).hopeful, d.cid ≠ w →
      qQuot (guardedArith p g) d + pow10 (p + g) ≤ fpI q.s.ballots w * pow10 (p + g) := by
    intro d hd hdw
    rw [fresh_quot p g q h d hd]
    have := fpI_two q.s.ballots d.cid w hdw
    have h1 : fpI q.s.ballots d.cid + 1 ≤ fpI q.s.ballots w := by omega
    have := Int.mul_le_mul_of_nonneg_right h1 (le_of_lt hS)
    linarith
  have hnE : nEl (qR5 (guardedArith p g) q) = 0 := by
    rw [nEl_of_stsig h5]
    unfold nEl St.elected
    rw [List.length_eq_zero_iff, List.filter_eq_nil_iff]
    intro c hc
    rcases h.stat c hc with e | e <;> rw [e] <;> decide
  have hbig : (nI q.s.ballots + 1) * pow10 (p + g) ≤ 2 * fpI q.s.ballots w * pow10 (p + g) :=
    Int.mul_le_mul_of_nonneg_right (by omega) (le_of_lt hS)
  have hdec := qpq_round_decision p g (qQ1 (guardedArith p g) q) (qR5 (guardedArith p g) q) (qR5_stsig _ q).2 hcont
  have hcnt := qDecide_cont (guardedArith p g) (qQ1 (guardedArith p g) q) (qR5 (guardedArith p g) q) hwf5 (qR5_stsig _ q).2 hcont
  rcases hdec with ⟨c, hc, hel, hr, _, hall⟩ | ⟨c, hc, _, _, hall, _⟩
  · have hcw : c.cid = w := by
      by_contra hne'
      have h1 := hlow c hc hne'
      have h2 := hall m hmhop
      rw [hqm] at h2
      omega
    refine ⟨hcont, by rw [← hcw]; exact hel, ?_⟩
    rcases hcnt.2 with ⟨_, _, b⟩ | ⟨r, _, _⟩
    · rw [b, hnE]
    · rw [r] at hr; cases hr
  · exfalso
    have h2 := hall m hmhop
    rw [hqm] at h2
    nlinarith

end
end Droop
