import DroopProofs.PermBMore
import DroopProofs.MeekRun

/-! # C10 for the Meek family: the order of the ballot lines does not matter (meek, warren; strict rankings)

A Meek distribution is a fold over the ballot list; one ballot credits a rounded share to each candidate it passes and the rest
to the residual.  What a ballot credits depends on the state only through the keep factors, which no credit changes; credits are
additions, additions commute.  `foldRank_comm` is the one induction (over a ranking) that says so: any state transformer `g` that
commutes with `addVote`, keeps the keep factors and commutes with a residual increment commutes with a ballot's step.  It is used
with `g` = another credit, `g` = a residual increment, `g` = another ballot's step (→ two ballots commute) and `g` = the
rearrangement of the ballot list itself (→ the step does not care how the list is stored). -/
namespace Droop
variable {α : Type} [CommRing α] [LinearOrder α] [IsStrictOrderedRing α] (A : Arith α)

theorem kfOf_addVote (st : St α) (c : Nat) (v : α) (c' : Nat) : kfOf (st.addVote A c v) c' = kfOf st c' := by
  unfold kfOf St.cand? St.addVote St.upd
  simp only [List.find?_map]
  have hp : ((fun x : Cand α => x.cid == c') ∘ fun x : Cand α => if (x.cid == c) = true then { x with vote := A.add x.vote v } else x)
      = fun x : Cand α => x.cid == c' := by
    funext x; simp only [Function.comp]; split <;> rfl
  rw [hp]
  cases List.find? (fun x : Cand α => x.cid == c') st.cands with
  | none => rfl
  | some x => simp only [Option.map_some]; split <;> rfl

/-- a state transformer a ballot's step cannot tell apart from the identity -/
structure Blind (g : St α → St α) : Prop where
  add : ∀ (st : St α) (c : Nat) (v : α), g (st.addVote A c v) = (g st).addVote A c v
  kf : ∀ (st : St α) (c : Nat), kfOf (g st) c = kfOf st c
  res : ∀ (st : St α) (x : α), g { st with residual := A.add st.residual x } = { g st with residual := A.add (g st).residual x }

theorem distRankStep_blind {g : St α → St α} (hg : Blind A g) (w : Bool) (mult : α) (a : St α × α × α × Bool) (cid : Nat) :
    distRankStep A w mult (g a.1, a.2) cid = (g (distRankStep A w mult a cid).1, (distRankStep A w mult a cid).2) := by
  unfold distRankStep
  simp only [hg.kf]
  by_cases hs : a.2.2.2 = true
  · simp only [hs, if_true]
  · simp only [hs, Bool.false_eq_true, if_false]
    cases kfOf a.1 cid with
    | none => rfl
    | some k =>
      simp only
      by_cases hz : A.isZero k = true
      · simp only [hz, if_true]
      · simp only [hz, Bool.false_eq_true, if_false, hg.add]

theorem foldRank_blind {g : St α → St α} (hg : Blind A g) (w : Bool) (mult : α) (rank : List Nat) (a : St α × α × α × Bool) :
    rank.foldl (distRankStep A w mult) (g a.1, a.2)
      = (g (rank.foldl (distRankStep A w mult) a).1, (rank.foldl (distRankStep A w mult) a).2) := by
  induction rank generalizing a with
  | nil => rfl
  | cons c cs ih =>
    simp only [List.foldl_cons]
    rw [distRankStep_blind A hg, ih]

theorem distBallotStep_blind {g : St α → St α} (hg : Blind A g) (w : Bool) (s : St α) (b : Ballot α) :
    distBallotStep A w (g s) b = g (distBallotStep A w s b) := by
  unfold distBallotStep
  have h := foldRank_blind A hg w (A.ofInt b.mult) b.rank (s, A.one, A.ofInt b.mult, false)
  simp only at h
  rw [h]
  exact (hg.res _ _).symm

theorem blind_addVote (hA : LawfulArith A) (c : Nat) (v : α) : Blind A (fun st => st.addVote A c v) :=
  ⟨fun st c' v' => addVote_comm A hA st c' c v' v, fun st c' => kfOf_addVote A st c v c', fun _ _ => rfl⟩

theorem blind_residual (hA : LawfulArith A) (x : α) : Blind A (fun st : St α => { st with residual := A.add st.residual x }) := by
  refine ⟨fun _ _ _ => rfl, fun _ _ => rfl, fun st y => ?_⟩
  show ({ st with residual := A.add (A.add st.residual y) x } : St α) = { st with residual := A.add (A.add st.residual x) y }
  congr 1
  simp only [hA.add_eq]; ring

theorem kfOf_distRankStep (w : Bool) (mult : α) (a : St α × α × α × Bool) (cid c : Nat) :
    kfOf (distRankStep A w mult a cid).1 c = kfOf a.1 c := by
  unfold distRankStep
  split
  · rfl
  · split
    · split
      · rfl
      · exact kfOf_addVote A _ _ _ _
    · rfl

theorem kfOf_foldRank (w : Bool) (mult : α) (rank : List Nat) (a : St α × α × α × Bool) (c : Nat) :
    kfOf (rank.foldl (distRankStep A w mult) a).1 c = kfOf a.1 c := by
  induction rank generalizing a with
  | nil => rfl
  | cons x xs ih => simp only [List.foldl_cons]; rw [ih, kfOf_distRankStep]

theorem kfOf_distBallotStep (w : Bool) (s : St α) (b : Ballot α) (c : Nat) : kfOf (distBallotStep A w s b) c = kfOf s c := by
  unfold distBallotStep
  exact kfOf_foldRank A w (A.ofInt b.mult) b.rank (s, A.one, A.ofInt b.mult, false) c

theorem blind_distBallotStep (hA : LawfulArith A) (w : Bool) (b : Ballot α) : Blind A (fun st => distBallotStep A w st b) :=
  ⟨fun st c v => distBallotStep_blind A (blind_addVote A hA c v) w st b,
   fun st c => kfOf_distBallotStep A w st b c,
   fun st x => distBallotStep_blind A (blind_residual A hA x) w st b⟩

/-- **two ballots' credits commute** -/
theorem distBallotStep_comm (hA : LawfulArith A) (w : Bool) (s : St α) (b b' : Ballot α) :
    distBallotStep A w (distBallotStep A w s b) b' = distBallotStep A w (distBallotStep A w s b') b :=
  distBallotStep_blind A (blind_distBallotStep A hA w b) w s b'

theorem foldl_distBallotStep_perm (hA : LawfulArith A) (w : Bool) {l l' : List (Ballot α)} (hp : l'.Perm l) (st : St α) :
    l'.foldl (distBallotStep A w) st = l.foldl (distBallotStep A w) st :=
  hp.foldl_eq' (fun x _ y _ z => distBallotStep_comm A hA w z x y) st

/-! ## the first count of the Meek rules -/

theorem mfcStep_comm (hA : LawfulArith A) (s : St α) (b b' : Ballot α) :
    mfcStep A (mfcStep A s b) b' = mfcStep A (mfcStep A s b') b := by
  unfold mfcStep
  cases b.top <;> cases b'.top <;> try rfl
  exact addVote_comm A hA s _ _ _ _

theorem foldl_mfcStep_perm (hA : LawfulArith A) {l l' : List (Ballot α)} (hp : l'.Perm l) (st : St α) :
    l'.foldl (mfcStep A) st = l.foldl (mfcStep A) st :=
  hp.foldl_eq' (fun x _ y _ z => mfcStep_comm A hA z x y) st

/-! ## every step of the Meek / Warren driver commutes with a rearrangement of the ballot list -/

/-- what a transformation of the ballot list (and of the logged ballot views) must satisfy for a Meek count to commute with it -/
structure XMeek (fb : List (Ballot α) → List (Ballot α)) (fw : List (Nat × α) → List (Nat × α)) : Prop extends XF A fb fw where
  dist : ∀ (w : Bool) (st : St α) (l : List (Ballot α)), (fb l).foldl (distBallotStep A w) st = l.foldl (distBallotStep A w) st
  mfirst : ∀ (st : St α) (l : List (Ballot α)), (fb l).foldl (mfcStep A) st = l.foldl (mfcStep A) st
  nil : fw [] = []

variable {fb : List (Ballot α) → List (Ballot α)} {fw : List (Nat × α) → List (Nat × α)}

theorem blind_xB : Blind A (xB fb fw) := ⟨fun _ _ _ => rfl, fun _ _ => rfl, fun _ _ => rfl⟩

theorem xB_logMsg (hx : XMeek A fb fw) (s : St α) (verb : String) (subj : List Nat) (v : Option α) :
    xB fb fw (s.logMsg verb subj v) = (xB fb fw s).logMsg verb subj v := by
  unfold St.logMsg xB
  simp only [List.map_cons, hx.nil]

theorem xB_distStrict (hx : XMeek A fb fw) (w : Bool) (s : St α) :
    xB fb fw (distStrict A w s) = distStrict A w (xB fb fw s) := by
  unfold distStrict
  rw [ballots_xB, hx.dist]
  generalize s.ballots = bs
  induction bs generalizing s with
  | nil => rfl
  | cons b bs ih =>
    simp only [List.foldl_cons]
    rw [ih, distBallotStep_blind A (blind_xB A)]

theorem distEqual_nil (w : Bool) (s : St α) (hq : s.ballotsEq = []) : distEqual A w s = s := by
  unfold distEqual; rw [hq]; rfl

theorem xB_distributeVotes (hx : XMeek A fb fw) (w : Bool) (s : St α) (hq : s.ballotsEq = []) :
    xB fb fw (distributeVotes A w s) = distributeVotes A w (xB fb fw s) := by
  unfold distributeVotes
  have h1 : (distStrict A w (startDist A s)).ballotsEq = [] := by rw [distStrict_ballotsEq]; exact hq
  have h2 : (distStrict A w (startDist A (xB fb fw s))).ballotsEq = [] := by rw [distStrict_ballotsEq]; exact hq
  rw [distEqual_nil A w _ h1, distEqual_nil A w _ h2, xB_distStrict A hx]
  rfl

theorem xB_kfStep (cap : Bool) (acc : St α) (c : Cand α) : kfStep A cap (xB fb fw acc) c = xB fb fw (kfStep A cap acc c) := by
  unfold kfStep
  cases c.kf with
  | none => simp only; rw [xB_setCrash]
  | some k =>
    simp only
    split
    · rw [xB_setCrash]
    · rfl

theorem xB_kfUpdate (cap : Bool) (s : St α) : kfUpdate A cap (xB fb fw s) = xB fb fw (kfUpdate A cap s) := by
  rw [kfUpdate_eq, kfUpdate_eq, elected_xB]
  generalize s.elected = l
  induction l generalizing s with
  | nil => rfl
  | cons c cs ih => simp only [List.foldl_cons]; rw [xB_kfStep, ih]

/-- the state after distribution, with the totals and the quota recomputed -/
def meekS3 (o : MeekOpts) (s : St α) : St α :=
  ((distributeVotes A o.warren s).setVotes (activeVotes A (distributeVotes A o.warren s))).setQuota
      (meekQuota A ((distributeVotes A o.warren s).setVotes (activeVotes A (distributeVotes A o.warren s))))

theorem meekIterCore_eq (o : MeekOpts) (s : St α) :
    meekIterCore A o s =
      ((meekWinners A (meekS3 A o s)).foldl (fun acc c => acc.elect A c.cid "Elect" false) (meekS3 A o s)).setSurplus
        (if A.lt (A.sum (((meekWinners A (meekS3 A o s)).foldl (fun acc c => acc.elect A c.cid "Elect" false) (meekS3 A o s)).elected.map
              (fun c => A.sub c.vote ((meekWinners A (meekS3 A o s)).foldl (fun acc c => acc.elect A c.cid "Elect" false) (meekS3 A o s)).quota))) A.zero
         then A.zero
         else A.sum (((meekWinners A (meekS3 A o s)).foldl (fun acc c => acc.elect A c.cid "Elect" false) (meekS3 A o s)).elected.map
              (fun c => A.sub c.vote ((meekWinners A (meekS3 A o s)).foldl (fun acc c => acc.elect A c.cid "Elect" false) (meekS3 A o s)).quota))) := rfl

theorem meekIterElected_eq (o : MeekOpts) (s : St α) : meekIterElected A o s = !(meekWinners A (meekS3 A o s)).isEmpty := rfl

theorem xB_meekS3 (hx : XMeek A fb fw) (o : MeekOpts) (s : St α) (hq : s.ballotsEq = []) :
    meekS3 A o (xB fb fw s) = xB fb fw (meekS3 A o s) := by
  unfold meekS3
  rw [← xB_distributeVotes A hx o.warren s hq]
  rfl

theorem xB_meekIterCore (hx : XMeek A fb fw) (o : MeekOpts) (s : St α) (hq : s.ballotsEq = []) :
    meekIterCore A o (xB fb fw s) = xB fb fw (meekIterCore A o s) := by
  rw [meekIterCore_eq, meekIterCore_eq, xB_meekS3 A hx o s hq]
  have hw : meekWinners A (xB fb fw (meekS3 A o s)) = meekWinners A (meekS3 A o s) := rfl
  rw [hw, ← xB_foldElect A hx.toXF]
  rfl

theorem xB_meekIterElected (hx : XMeek A fb fw) (o : MeekOpts) (s : St α) (hq : s.ballotsEq = []) :
    meekIterElected A o (xB fb fw s) = meekIterElected A o s := by
  rw [meekIterElected_eq, meekIterElected_eq, xB_meekS3 A hx o s hq]
  rfl

theorem batchDefeatGroups_xB (s : St α) (sp : α) : batchDefeatGroups A (xB fb fw s) sp = batchDefeatGroups A s sp := rfl

theorem xB_meekIterate (hA : LawfulArith A) (hx : XMeek A fb fw) (o : MeekOpts) (omega : α) :
    ∀ (fuel : Nat) (last : α) (s : St α), MInv A s →
      meekIterate A o omega fuel last (xB fb fw s)
        = (xB fb fw (meekIterate A o omega fuel last s).1, (meekIterate A o omega fuel last s).2) := by
  intro fuel
  induction fuel with
  | zero => intro last s _; rfl
  | succ n ih =>
    intro last s h
    have hq := h.noEq
    have hc := h.meekIterCore A hA o
    unfold meekIterate
    rw [xB_meekIterElected A hx o s hq, xB_meekIterCore A hx o s hq]
    have hsp : (xB fb fw (meekIterCore A o s)).surplus = (meekIterCore A o s).surplus := rfl
    simp only [hsp, batchDefeatGroups_xB, xB_kfUpdate, crash_xB]
    by_cases h1 : meekIterElected A o s = true
    · simp only [h1, if_true]
    · simp only [h1, Bool.false_eq_true, if_false]
      by_cases h2 : A.le (meekIterCore A o s).surplus omega = true
      · simp only [h2, if_true]
      · simp only [h2, Bool.false_eq_true, if_false]
        by_cases h3 : A.ge (meekIterCore A o s).surplus last = true
        · simp only [h3, if_true]
          rw [xB_logMsg A hx]
        · simp only [h3, Bool.false_eq_true, if_false]
          by_cases h4 : (!(if o.batchSafe then batchDefeatGroups A (meekIterCore A o s) (meekIterCore A o s).surplus else []).isEmpty) = true
          · simp only [h4, if_true]
          · simp only [h4, Bool.false_eq_true, if_false]
            by_cases h5 : (kfUpdate A true (meekIterCore A o s)).crash.isSome = true
            · simp only [h5, if_true]
            · simp only [h5, Bool.false_eq_true, if_false]
              exact ih _ _ (hc.kfUpdate A true)

theorem ballotsEq_defeatZero (s : St α) (cid : Nat) (verb : String) :
    ((s.defeat A cid verb).upd cid (fun c => { c with kf := some A.zero, vote := A.zero })).ballotsEq = s.ballotsEq := by
  unfold St.defeat St.logAct
  simp only
  split <;> rfl

theorem xB_meekDefeatOne (hx : XMeek A fb fw) (o : MeekOpts) (s : St α) (hq : s.ballotsEq = []) (cid : Nat) (verb : String) :
    meekDefeatOne A o (xB fb fw s) cid verb = xB fb fw (meekDefeatOne A o s cid verb) := by
  unfold meekDefeatOne
  rw [xB_distributeVotes A hx o.warren _ (by rw [ballotsEq_defeatZero]; exact hq), xB_upd, xB_defeat A hx.toXF]

theorem xB_meekDefeatBatch (hA : LawfulArith A) (hz : A.isZero A.zero = true) (hx : XMeek A fb fw) (o : MeekOpts) (s : St α)
    (h : MInv A s) (cids : List Nat) :
    meekDefeatBatch A o (xB fb fw s) cids = xB fb fw (meekDefeatBatch A o s cids) := by
  unfold meekDefeatBatch
  rw [cands_xB]
  generalize byBallotOrder (s.cands.filter (fun c => cids.contains c.cid)) = l
  induction l generalizing s with
  | nil => rfl
  | cons c cs ih =>
    simp only [List.foldl_cons]
    rw [xB_meekDefeatOne A hx o s h.noEq, ih _ (h.meekDefeatOne A hA hz o c.cid _)]

theorem breakTie_ballotsEq (s : St α) (tied : List (Cand α)) (verb : String) : (breakTie A s tied verb).1.ballotsEq = s.ballotsEq := by
  unfold breakTie
  split
  · unfold St.setCrash; cases s.crash <;> rfl
  · rfl
  · unfold St.logAct; simp only; split <;> rfl

theorem xB_meekDefeatLow (hx : XMeek A fb fw) (o : MeekOpts) (s : St α) (hq : s.ballotsEq = []) (b : Bool) :
    meekDefeatLow A o (xB fb fw s) b = (xB fb fw (meekDefeatLow A o s b).1, (meekDefeatLow A o s b).2) := by
  unfold meekDefeatLow
  simp only [hopeful_xB]
  cases hh : s.hopeful with
  | nil => rfl
  | cons hd hs =>
    simp only
    have hsp : (xB fb fw s).surplus = s.surplus := rfl
    rw [hsp, xB_breakTie A hx.toXF]
    have hfr := breakTie_ballotsEq A s (List.filter (fun c => A.ge (A.add (A.vMin hd.vote (hs.map (·.vote))) s.surplus) c.vote) (hd :: hs))
      "Break tie (defeat)"
    cases hb : breakTie A s (List.filter (fun c => A.ge (A.add (A.vMin hd.vote (hs.map (·.vote))) s.surplus) c.vote) (hd :: hs))
        "Break tie (defeat)" with
    | mk s3 oc =>
      rw [hb] at hfr
      cases oc with
      | none => rfl
      | some lc =>
        simp only
        rw [xB_meekDefeatOne A hx o s3 (by simp only at hfr; rw [hfr]; exact hq)]

theorem xB_meekAfterIterate (hA : LawfulArith A) (hz : A.isZero A.zero = true) (hx : XMeek A fb fw) (o : MeekOpts)
    (r : St α × IStatus) (h : MInv A r.1) :
    meekAfterIterate A o (xB fb fw r.1, r.2) = (xB fb fw (meekAfterIterate A o r).1, (meekAfterIterate A o r).2) := by
  obtain ⟨s, st⟩ := r
  unfold meekAfterIterate
  cases st with
  | fuel => simp only; rw [xB_setCrash]
  | crash => rfl
  | elected => simp only; rw [xB_logAct A hx.toXF]
  | batch cids =>
    simp only
    rw [← xB_logAct A hx.toXF, xB_meekDefeatBatch A hA hz hx o _ (h.logAct A _ _ _)]
  | omega =>
    simp only
    rw [← xB_logAct A hx.toXF]
    exact xB_meekDefeatLow A hx o _ (h.logAct A _ _ _).noEq true
  | stable =>
    simp only
    rw [← xB_logAct A hx.toXF]
    exact xB_meekDefeatLow A hx o _ (h.logAct A _ _ _).noEq false

theorem xB_meekBody (hA : LawfulArith A) (hz : A.isZero A.zero = true) (hx : XMeek A fb fw) (o : MeekOpts) (omega : α)
    (iterFuel : Nat) (s : St α) (h : MInv A s) :
    meekBody A o omega iterFuel (xB fb fw s) = (xB fb fw (meekBody A o omega iterFuel s).1, (meekBody A o omega iterFuel s).2) := by
  unfold meekBody
  rw [← xB_newRound A hx.toXF]
  have hnb : (xB fb fw (s.newRound A)).nballots = (s.newRound A).nballots := rfl
  rw [hnb, xB_meekIterate A hA hx o omega iterFuel _ _ (h.newRound A)]
  exact xB_meekAfterIterate A hA hz hx o _ (MInv.meekIterate A hA o omega iterFuel _ _ (h.newRound A))

theorem meekCountComplete_xB (s : St α) : meekCountComplete (xB fb fw s) = meekCountComplete s := rfl

/-- the fuelled loop commutes with `xB`, given that the body does on states satisfying a round invariant -/
theorem loopN_xB_inv (P : St α → Prop) (guard : St α → Bool) (body : St α → St α × Flow)
    (hP : ∀ s, P s → P (body s).1)
    (hg : ∀ s, guard (xB fb fw s) = guard s)
    (hb : ∀ s, P s → body (xB fb fw s) = (xB fb fw (body s).1, (body s).2)) :
    ∀ (fuel : Nat) (s : St α), P s → loopN guard body fuel (xB fb fw s) = (loopN guard body fuel s).map (xB fb fw) := by
  intro fuel
  induction fuel with
  | zero => intro s _; rfl
  | succ n ih =>
    intro s hPs
    unfold loopN
    simp only [crash_xB, hg]
    by_cases hc : s.crash.isSome = true
    · simp [hc]
    · simp only [hc, Bool.false_eq_true, if_false]
      by_cases hgs : guard s = true
      · simp only [hgs, if_true]
        rw [hb s hPs]
        have hP' := hP s hPs
        cases hbody : body s with
        | mk s' fl =>
          rw [hbody] at hP'
          cases fl with
          | cont => simp only; exact ih s' hP'
          | brk => rfl
      · simp [hgs]

theorem xB_meekFirstCount (hx : XMeek A fb fw) (s : St α) (hq : s.ballotsEq = []) :
    xB fb fw (meekFirstCount A s) = meekFirstCount A (xB fb fw s) := by
  rw [meekFirstCount_eq A s hq, meekFirstCount_eq A (xB fb fw s) hq, ballots_xB, hx.mfirst]
  have key : ∀ (bs : List (Ballot α)) (t : St α), xB fb fw (bs.foldl (mfcStep A) t) = bs.foldl (mfcStep A) (xB fb fw t) := by
    intro bs
    induction bs with
    | nil => intro t; rfl
    | cons b bs ih =>
      intro t
      simp only [List.foldl_cons]
      rw [ih]
      congr 1
      unfold mfcStep
      cases b.top <;> rfl
  exact key _ _

theorem xB_meekInit (hx : XMeek A fb fw) (s0 : St α) (hq : s0.ballotsEq = []) :
    xB fb fw (meekInit A s0) = meekInit A (xB fb fw s0) := by
  unfold meekInit
  have e := xB_meekFirstCount A hx
    (((s0.setVotes (A.ofInt s0.nballots)).setQuota (meekQuota A (s0.setVotes (A.ofInt s0.nballots)))).initKf A.one) hq
  rw [xB_logAct A hx.toXF, e]
  rfl

theorem xB_meekRemainingStep (hx : XMeek A fb fw) (o : MeekOpts) (s : St α) (hq : s.ballotsEq = []) (c : Cand α) :
    meekRemainingStep A o (xB fb fw s) c = xB fb fw (meekRemainingStep A o s c) := by
  unfold meekRemainingStep
  by_cases hlt : s.elected.length < s.seats
  · rw [if_pos (show (xB fb fw s).elected.length < (xB fb fw s).seats from hlt), if_pos hlt, ← xB_elect A hx.toXF,
      xB_distributeVotes A hx o.warren _ (by unfold St.elect St.logAct; simp only; split <;> exact hq)]
  · rw [if_neg (show ¬ (xB fb fw s).elected.length < (xB fb fw s).seats from hlt), if_neg hlt]
    exact xB_meekDefeatOne A hx o s hq c.cid _

theorem xB_meekEpilogue (hA : LawfulArith A) (hz : A.isZero A.zero = true) (hx : XMeek A fb fw) (o : MeekOpts) (s : St α)
    (h : MInv A s) : meekEpilogue A o (xB fb fw s) = xB fb fw (meekEpilogue A o s) := by
  unfold meekEpilogue
  by_cases hcr : s.crash.isSome = true
  · rw [if_pos (show (xB fb fw s).crash.isSome = true from hcr), if_pos hcr]
  · rw [if_neg (show ¬ (xB fb fw s).crash.isSome = true from hcr), if_neg hcr, hopeful_xB]
    have key : ∀ (l : List (Cand α)) (t : St α), MInv A t →
        l.foldl (meekRemainingStep A o) (xB fb fw t) = xB fb fw (l.foldl (meekRemainingStep A o) t) := by
      intro l
      induction l with
      | nil => intro t _; rfl
      | cons c cs ih =>
        intro t ht
        simp only [List.foldl_cons]
        rw [xB_meekRemainingStep A hx o t ht.noEq, ih _ (ht.meekRemainingStep A hA hz o c)]
    rw [key _ _ h]
    rfl

/-- **C10 for meek and warren, run level**: the count of the rearranged profile is the count of the original, with the ballot
    list and the logged ballot views rearranged (strict rankings; every lawful arithmetic whose zero is recognised as zero) -/
theorem meek_xB (hA : LawfulArith A) (hz : A.isZero A.zero = true) (hx : XMeek A fb fw) (o : MeekOpts) (iterFuel : Nat)
    (s0 : St α) (h0 : MInit A s0) :
    meekCount A o iterFuel (xB fb fw s0) = (meekCount A o iterFuel s0).map (xB fb fw) := by
  unfold meekCount
  split
  · simp only [Option.map_some]; rw [xB_setCrash]
  · have hlen : (xB fb fw s0).cands.length = s0.cands.length := rfl
    rw [hlen, ← xB_meekInit A hx s0 h0.noEq,
      loopN_xB_inv (MInv A) (fun s => !meekCountComplete s) (meekBody A o _ iterFuel)
        (fun s hs => hs.meekBody A hA hz o _ iterFuel) (fun s => by rw [meekCountComplete_xB])
        (fun s hs => xB_meekBody A hA hz hx o _ iterFuel s hs) _ _ (MInv.meekInit A hA h0)]
    cases hl : loopN (fun s => !meekCountComplete s) (meekBody A o (A.divV A.one (A.ofInt (10 ^ o.omega10))) iterFuel)
        (2 * s0.cands.length + 3) (meekInit A s0) with
    | none => rfl
    | some s7 =>
      simp only [Option.map_some]
      have h7 := (meek_loop_identity A hA hz o _ iterFuel _ _ s7 (MInv.meekInit A hA h0) hl).1
      rw [xB_meekEpilogue A hA hz hx o s7 h7]

/-- natural permutations of the ballot list are such transformations -/
theorem XMeek_of_natPerm (hA : LawfulArith A) {π : ∀ {β : Type}, List β → List β} (hπ : NatPerm π) : XMeek A (π (β := Ballot α)) (π (β := Nat × α)) :=
  { toXF := XF_of_natPerm A hA hπ
    dist := fun w st l => foldl_distBallotStep_perm A hA w (hπ.perm l) st
    mfirst := fun st l => foldl_mfcStep_perm A hA (hπ.perm l) st
    nil := List.Perm.eq_nil (hπ.perm []) }

end Droop
