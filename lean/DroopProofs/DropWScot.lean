import DroopProofs.DropWWigm
import DroopProofs.RunScot

/-! # C11, Scottish rule: the count of the profile with the withdrawn candidates deleted is the count of the full profile with
the withdrawn candidates deleted from its record

The Scottish tie-break looks back through the saved stages (`E.rounds`).  Deleting the withdrawn candidates deletes them from the
saved stages too, and the look-back is unchanged because it only ever reads the entries of tied — hence not withdrawn —
candidates.  That needs one more invariant than the wigm proof: every saved stage lists the same candidate ids as the current
candidate list, and marks the same ones withdrawn (`RndW`). -/
namespace Droop
variable {α : Type} [CommRing α] [LinearOrder α] [IsStrictOrderedRing α] (A : Arith α)

/-- the ids of a candidate list and which of them are withdrawn -/
def wsig (l : List (Cand α)) : List (Nat × Bool) := l.map (fun c => (c.cid, c.st == CState.withdrawn))

/-- every saved stage lists the candidates the state lists, with the same ones withdrawn -/
def RndW (s : St α) : Prop := ∀ l ∈ s.rounds, wsig l = wsig s.cands

/-- a step that keeps ids and withdrawn marks, and saves only stages of that shape -/
def RStep (s t : St α) : Prop := wsig t.cands = wsig s.cands ∧ ∀ l ∈ t.rounds, l ∈ s.rounds ∨ wsig l = wsig s.cands

theorem RStep.refl (s : St α) : RStep s s := ⟨rfl, fun _ h => Or.inl h⟩

theorem RStep.trans {s t u : St α} (h1 : RStep s t) (h2 : RStep t u) : RStep s u := by
  refine ⟨h2.1.trans h1.1, fun l hl => ?_⟩
  rcases h2.2 l hl with h | h
  · exact h1.2 l h
  · exact Or.inr (h.trans h1.1)

theorem RndW.step {s t : St α} (h : RndW s) (hst : RStep s t) : RndW t := by
  intro l hl
  rw [hst.1]
  rcases hst.2 l hl with h' | h'
  · exact h l h'
  · exact h'

theorem wsig_of_skel {s t : St α} (h : t.skel = s.skel) : wsig t.cands = wsig s.cands := by
  have e : ∀ u : St α, wsig u.cands = u.skel.map (fun k => (k.1, k.2.2.2.2.1 == CState.withdrawn)) := by
    intro u; unfold wsig St.skel; rw [List.map_map]; rfl
  rw [e, e, h]

theorem rstep_of_eq {s t : St α} (hc : t.cands = s.cands) (hr : t.rounds = s.rounds) : RStep s t :=
  ⟨by rw [hc], fun l hl => Or.inl (hr ▸ hl)⟩

theorem rstep_skel {s t : St α} (hs : t.skel = s.skel) (hr : t.rounds = s.rounds) : RStep s t :=
  ⟨wsig_of_skel hs, fun l hl => Or.inl (hr ▸ hl)⟩

theorem rstep_logAct (s : St α) (tag verb : String) (subj : List Nat) : RStep s (s.logAct A tag verb subj) := by
  unfold St.logAct
  by_cases ht : (tag == "round") = true
  · simp only [ht, if_true]
    refine ⟨rfl, fun l hl => ?_⟩
    rcases List.mem_append.1 hl with h | h
    · exact Or.inl h
    · rw [List.mem_singleton.1 h]; exact Or.inr rfl
  · simp only [ht, Bool.false_eq_true, if_false]
    exact ⟨rfl, fun l hl => Or.inl hl⟩

theorem rstep_upd (s : St α) (cid : Nat) (f : Cand α → Cand α) (hcid : ∀ x, (f x).cid = x.cid)
    (hw : ∀ x ∈ s.cands, (x.cid == cid) = true → ((f x).st == CState.withdrawn) = (x.st == CState.withdrawn)) :
    RStep s (s.upd cid f) := by
  refine ⟨?_, fun l hl => Or.inl hl⟩
  unfold wsig St.upd
  simp only [List.map_map]
  apply List.map_congr_left
  intro x hx
  simp only [Function.comp]
  by_cases h : (x.cid == cid) = true
  · simp only [h, if_true, hcid, hw x hx h]
  · simp only [h, Bool.false_eq_true, if_false]

theorem rstep_elect {s : St α} (hwf : s.WF) {cid : Nat} (h : NonWId s cid) (verb : String) (p : Bool) :
    RStep s (s.elect A cid verb p) := by
  unfold St.elect
  have h1 : RStep s (s.upd cid (fun c => { c with st := .elected, pending := p })) := by
    refine rstep_upd s cid _ (fun _ => rfl) ?_
    intro x hx hxc
    have hne := noW_of_nonWId hwf h x hx (by simpa using hxc)
    have : (x.st == CState.withdrawn) = false := by simpa using hne
    rw [this]; rfl
  exact h1.trans (rstep_logAct A _ _ _ _)

theorem rstep_defeat {s : St α} (hwf : s.WF) {cid : Nat} (h : NonWId s cid) (verb : String) :
    RStep s (s.defeat A cid verb) := by
  unfold St.defeat
  have h1 : RStep s (s.upd cid (fun c => { c with st := .defeated })) := by
    refine rstep_upd s cid _ (fun _ => rfl) ?_
    intro x hx hxc
    have hne := noW_of_nonWId hwf h x hx (by simpa using hxc)
    have : (x.st == CState.withdrawn) = false := by simpa using hne
    rw [this]; rfl
  exact h1.trans (rstep_logAct A _ _ _ _)

/-! ## `rounds` is untouched by transfers -/
theorem transferBallot_rounds (s : St α) (b : Ballot α) : (transferBallot A s b).1.rounds = s.rounds := by
  unfold transferBallot; split <;> rfl

theorem tstep_rounds (cids : List Nat) (rew : α → α) (acc : St α × List (Ballot α)) (b : Ballot α) :
    (tstep A cids rew acc b).1.rounds = acc.1.rounds := by
  unfold tstep; split
  · split
    · exact transferBallot_rounds A _ _
    · rfl
  · rfl

theorem foldl_tstep_rounds (cids : List Nat) (rew : α → α) (bs : List (Ballot α)) (acc : St α × List (Ballot α)) :
    (bs.foldl (tstep A cids rew) acc).1.rounds = acc.1.rounds := by
  induction bs generalizing acc with
  | nil => rfl
  | cons b bs ih => simp only [List.foldl_cons]; rw [ih, tstep_rounds]

theorem transferAll_rounds (s : St α) (cids : List Nat) (rew : α → α) : (transferAll A s cids rew).rounds = s.rounds := by
  have := foldl_tstep_rounds A cids rew s.ballots (s, []); simpa [transferAll] using this

theorem rstep_transferAll (s : St α) (cids : List Nat) (rew : α → α) : RStep s (transferAll A s cids rew) :=
  rstep_skel (transferAll_skel A s cids rew) (transferAll_rounds A s cids rew)

theorem rstep_setVote (s : St α) (cid : Nat) (v : α) : RStep s (s.setVote cid v) := by
  unfold St.setVote
  exact rstep_upd s cid _ (fun _ => rfl) (fun _ _ _ => rfl)

theorem rstep_transferSurplus (s : St α) (hc : Cand α) (rew : α → α → α → α) (verb : String) :
    RStep s (transferSurplus A s hc rew verb) := by
  unfold transferSurplus
  dsimp only
  exact (rstep_transferAll A s _ _).trans ((rstep_setVote _ _ _).trans (rstep_logAct A _ _ _ _))

theorem rstep_foldSetZero (cids : List Nat) (s : St α) : RStep s (cids.foldl (fun acc c => acc.setVote c A.zero) s) := by
  induction cids generalizing s with
  | nil => exact RStep.refl s
  | cons c cs ih => simp only [List.foldl_cons]; exact (rstep_setVote s c _).trans (ih _)

theorem rstep_transferDefeated (s : St α) (cids : List Nat) (verb : String) : RStep s (transferDefeated A s cids verb) := by
  unfold transferDefeated
  dsimp only
  exact (rstep_transferAll A s _ _).trans ((rstep_foldSetZero A _ _).trans (rstep_logAct A _ _ _ _))

theorem rstep_unpendLog (s : St α) (cid : Nat) (verb : String) : RStep s (s.unpendLog A cid verb) := by
  unfold St.unpendLog
  have h1 : RStep s (s.upd cid (fun c => { c with pending := false })) := rstep_upd s cid _ (fun _ => rfl) (fun _ _ _ => rfl)
  exact h1.trans (rstep_logAct A _ _ _ _)

theorem rstep_unpendSilent (s : St α) (cid : Nat) : RStep s (s.unpendSilent cid) := by
  unfold St.unpendSilent
  exact rstep_upd s cid _ (fun _ => rfl) (fun _ _ _ => rfl)

theorem rstep_setCrash (s : St α) (k : String) : RStep s (s.setCrash k) := by
  unfold St.setCrash
  cases s.crash <;> exact rstep_of_eq rfl rfl

theorem rstep_scotBreakTie (s : St α) (tied : List (Cand α)) (lowest : Bool) (reason : String) :
    RStep s (scotBreakTie A s tied lowest reason).1 := by
  unfold scotBreakTie
  split
  · exact rstep_setCrash s _
  · exact RStep.refl s
  · dsimp only
    split
    · exact rstep_logAct A _ _ _ _
    · exact rstep_logAct A _ _ _ _

theorem rstep_foldElect (ws : List (Cand α)) (verb : Cand α → String) (pend : Cand α → Bool) {s : St α} (hwf : s.WF)
    (h : ∀ w ∈ ws, NonWId s w.cid) : RStep s (ws.foldl (fun acc c => acc.elect A c.cid (verb c) (pend c)) s) := by
  induction ws generalizing s with
  | nil => exact RStep.refl s
  | cons w ws ih =>
    simp only [List.foldl_cons]
    exact (rstep_elect A hwf (h w (by simp)) _ _).trans
      (ih (WF_elect A hwf _ _ _) (fun w' hw' => nonWId_elect A (h w' (by simp [hw'])) _ _ _))

theorem rstep_foldDefeat (ws : List (Cand α)) (verb : Cand α → String) {s : St α} (hwf : s.WF)
    (h : ∀ w ∈ ws, NonWId s w.cid) : RStep s (ws.foldl (fun acc c => acc.defeat A c.cid (verb c)) s) := by
  induction ws generalizing s with
  | nil => exact RStep.refl s
  | cons w ws ih =>
    simp only [List.foldl_cons]
    exact (rstep_defeat A hwf (h w (by simp)) _).trans
      (ih (WF_defeat A hwf _ _) (fun w' hw' => nonWId_defeat A (h w' (by simp [hw'])) _ _))

theorem rstep_newRound (s : St α) : RStep s (s.newRound A) := by
  unfold St.newRound
  exact (rstep_of_eq (t := { s with round := s.round + 1 }) rfl rfl).trans (rstep_logAct A _ _ _ _)

/-! ## the look-back does not read withdrawn entries -/

theorem nonWId_of_pending {s : St α} {w : Cand α} (h : w ∈ s.pendingL) : NonWId s w.cid := by
  obtain ⟨h1, h2, _⟩ := mem_pendingL.1 h
  exact ⟨w, h1, rfl, by rw [h2]; intro e; cases e⟩

theorem nonW_of_rw {s : St α} (hwf : s.WF) (hrw : RndW s) {cn : List (Cand α)} (hcn : cn ∈ s.rounds) {c : Cand α}
    (hc : c ∈ cn) (hk : NonWId s c.cid) : nonW c = true := by
  have hm : (c.cid, c.st == CState.withdrawn) ∈ wsig cn := List.mem_map.2 ⟨c, hc, rfl⟩
  rw [hrw cn hcn] at hm
  obtain ⟨x, hx, hxe⟩ := List.mem_map.1 hm
  have h1 : x.cid = c.cid := congrArg Prod.fst hxe
  have h2 : (x.st == CState.withdrawn) = (c.st == CState.withdrawn) := congrArg Prod.snd hxe
  have hne := noW_of_nonWId hwf hk x hx h1
  have : (x.st == CState.withdrawn) = false := by simpa using hne
  unfold nonW
  rw [this] at h2
  simp only [bne, ← h2, Bool.not_false]

theorem findSome?_congr_mem {β γ : Type} (l : List β) (f g : β → Option γ) (h : ∀ x ∈ l, f x = g x) :
    l.findSome? f = l.findSome? g := by
  induction l with
  | nil => rfl
  | cons x xs ih =>
    simp only [List.findSome?_cons]
    rw [h x (by simp)]
    cases g x with
    | some _ => rfl
    | none => exact ih (fun y hy => h y (by simp [hy]))

theorem scotPrior_filter_nonW (cids : List Nat) (lowest : Bool) (cn : List (Cand α))
    (h : ∀ c ∈ cn, cids.contains c.cid = true → nonW c = true) :
    scotPrior A cids lowest (cn.filter nonW) = scotPrior A cids lowest cn := by
  unfold scotPrior
  have : (cn.filter nonW).filter (fun c => cids.contains c.cid) = cn.filter (fun c => cids.contains c.cid) := by
    rw [List.filter_filter]
    apply List.filter_congr
    intro x hx
    by_cases hc : cids.contains x.cid = true
    · simp only [hc, h x hx hc, Bool.and_self]
    · simp only [hc, Bool.false_and]
  rw [this]

theorem dropW_scotBreakTie {s : St α} (hwf : s.WF) (hrw : RndW s) (tied : List (Cand α))
    (ht : ∀ w ∈ tied, NonWId s w.cid) (lowest : Bool) (reason : String) :
    scotBreakTie A (dropW s) tied lowest reason
      = (dropW (scotBreakTie A s tied lowest reason).1, (scotBreakTie A s tied lowest reason).2) := by
  unfold scotBreakTie
  match tied, ht with
  | [], _ => simp only; rw [dropW_setCrash]
  | [c], _ => rfl
  | c :: d :: r, ht =>
    simp only [round_dropW]
    have hr : (dropW s).rounds = s.rounds.map (fun l => l.filter nonW) := rfl
    have key : (((dropW s).rounds.take s.round).reverse).findSome? (scotPrior A ((c :: d :: r).map (·.cid)) lowest)
        = ((s.rounds.take s.round).reverse).findSome? (scotPrior A ((c :: d :: r).map (·.cid)) lowest) := by
      rw [hr, ← List.map_take, ← List.map_reverse, List.findSome?_map]
      apply findSome?_congr_mem
      intro cn hcn
      have hcn' : cn ∈ s.rounds := List.mem_of_mem_take (List.mem_reverse.1 hcn)
      simp only [Function.comp]
      apply scotPrior_filter_nonW
      intro x hx hxc
      have hxc' : x.cid ∈ (c :: d :: r).map (·.cid) := by simpa using hxc
      obtain ⟨w, hw, hwe⟩ := List.mem_map.1 hxc'
      exact nonW_of_rw hwf hrw hcn' hx (hwe ▸ ht w hw)
    rw [key]
    cases ((s.rounds.take s.round).reverse).findSome? (scotPrior A ((c :: d :: r).map (·.cid)) lowest) with
    | some cn0 => simp only; rw [dropW_logAct]
    | none => simp only; rw [dropW_logAct]

/-! ## the steps of a Scottish stage -/

theorem WF_scotBreakTie {s : St α} (hwf : s.WF) (tied : List (Cand α)) (lowest : Bool) (reason : String) :
    (scotBreakTie A s tied lowest reason).1.WF := by
  unfold St.WF; rw [(scotBreakTie_frame A s tied lowest reason).1]; exact hwf

theorem WF_electWinners {s : St α} (hwf : s.WF) (hasQ : St α → Cand α → Bool) (pend : St α → Cand α → Bool)
    (verb : St α → Cand α → String) : (electWinners A hasQ pend verb s).WF := by
  unfold electWinners; exact WF_foldElect A hwf _ _ _

theorem rstep_electWinners {s : St α} (hwf : s.WF) (hasQ : St α → Cand α → Bool) (pend : St α → Cand α → Bool)
    (verb : St α → Cand α → String) : RStep s (electWinners A hasQ pend verb s) := by
  unfold electWinners
  apply rstep_foldElect A _ _ _ hwf
  intro w hw
  rw [List.mem_filter] at hw
  exact nonWId_of_hopeful ((mem_pySorted _ _ _ _).1 hw.1)

theorem dropW_scotElect {s : St α} (hwf : s.WF) : dropW (scotElect A s) = scotElect A (dropW s) := by
  unfold scotElect electWinners
  simp only [hopeful_dropW]
  have hq : hasQuotaGE A (dropW s) = hasQuotaGE A s := by funext c; rfl
  rw [hq]
  apply dropW_foldElect A _ _ _ hwf
  intro w hw
  rw [List.mem_filter] at hw
  exact nonWId_of_hopeful ((mem_pySorted _ _ _ _).1 hw.1)

theorem dropW_scotSurplusStep {s : St α} (hwf : s.WF) (hrw : RndW s) :
    dropW (scotSurplusStep A s) = scotSurplusStep A (dropW s) := by
  unfold scotSurplusStep
  simp only [pendingL_dropW]
  cases hm : maxVoteOf A s.pendingL with
  | none => rfl
  | some hv =>
    simp only
    rw [dropW_scotBreakTie A hwf hrw _ (fun w hw => nonWId_of_pending (List.mem_filter.1 hw).1)]
    cases hb : scotBreakTie A s (s.pendingL.filter (fun c => A.eq c.vote hv)) false "largest surplus" with
    | mk s1 oc =>
      cases oc with
      | none => rfl
      | some hc => simp only; rw [dropW_transferSurplus, dropW_unpendLog]

theorem dropW_scotDefeatStep {s : St α} (hwf : s.WF) (hrw : RndW s) :
    dropW (scotDefeatStep A s) = scotDefeatStep A (dropW s) := by
  unfold scotDefeatStep
  simp only [hopeful_dropW]
  cases hm : minVoteOf A s.hopeful with
  | none => rfl
  | some lv =>
    simp only
    rw [dropW_scotBreakTie A hwf hrw _ (fun w hw => nonWId_of_hopeful (List.mem_filter.1 hw).1)]
    have hwf1 := WF_scotBreakTie A hwf (s.hopeful.filter (fun c => A.eq c.vote lv)) true "defeat low candidate"
    have hmem := scotBreakTie_mem A s (s.hopeful.filter (fun c => A.eq c.vote lv)) true "defeat low candidate"
    have hcs := (scotBreakTie_frame A s (s.hopeful.filter (fun c => A.eq c.vote lv)) true "defeat low candidate").1
    cases hb : scotBreakTie A s (s.hopeful.filter (fun c => A.eq c.vote lv)) true "defeat low candidate" with
    | mk s1 oc =>
      rw [hb] at hwf1 hmem hcs
      cases oc with
      | none => rfl
      | some lc =>
        simp only
        have hl : lc ∈ s.hopeful := (List.mem_filter.1 (hmem lc rfl)).1
        have hn : NonWId s1 lc.cid := nonWId_of_cands (nonWId_of_hopeful hl) hcs
        rw [dropW_transferDefeated, dropW_defeat A hwf1 hn]

theorem scotCountComplete_dropW (s : St α) : scotCountComplete (dropW s) = scotCountComplete s := by
  unfold scotCountComplete; simp only [seatsLeft_dropW, hopeful_dropW]

theorem dropW_scotRound (s : St α) : dropW (scotRound A s) = scotRound A (dropW s) := by
  unfold scotRound
  rw [dropW_setSurplus]
  have e : (dropW s).newRound A = dropW (s.newRound A) := (dropW_newRound A s).symm
  rw [e, pendingL_dropW]
  rfl

theorem scotFinish_dropW (s : St α) : scotFinish (dropW s) = (dropW (scotFinish s).1, (scotFinish s).2) := by
  unfold scotFinish
  rw [scotCountComplete_dropW]
  split <;> rfl

theorem dropW_scotStage {s : St α} (hwf : s.WF) (hrw : RndW s) :
    scotStage A (dropW s) = (dropW (scotStage A s).1, (scotStage A s).2) := by
  unfold scotStage
  simp only [pendingL_dropW, hopeful_dropW]
  split
  · rw [dropW_scotSurplusStep A hwf hrw]
  · split
    · rw [← dropW_scotDefeatStep A hwf hrw, scotFinish_dropW]
    · exact scotFinish_dropW s

theorem WF_scotRound {s : St α} (hwf : s.WF) : (scotRound A s).WF := by
  unfold scotRound St.WF
  show ((s.newRound A).cands.map (·.cid)).Nodup
  unfold St.newRound; rw [logAct_cands]; exact hwf

theorem rstep_scotRound (s : St α) : RStep s (scotRound A s) := by
  unfold scotRound
  exact (rstep_newRound A s).trans (rstep_of_eq rfl rfl)

theorem dropW_scotBody {s : St α} (hwf : s.WF) (hrw : RndW s) :
    scotBody A (dropW s) = (dropW (scotBody A s).1, (scotBody A s).2) := by
  unfold scotBody
  have hwf1 : (scotElect A s).WF := by unfold scotElect; exact WF_electWinners A hwf _ _ _
  have hrw1 : RndW (scotElect A s) := hrw.step (by unfold scotElect; exact rstep_electWinners A hwf _ _ _)
  rw [← dropW_scotElect A hwf, scotCountComplete_dropW]
  split
  · rfl
  · rw [← dropW_scotRound]
    exact dropW_scotStage A (WF_scotRound A hwf1) (hrw1.step (rstep_scotRound A _))

theorem rstep_scotSurplusStep (s : St α) : RStep s (scotSurplusStep A s) := by
  rcases scotSurplusStep_cases A s with ⟨_, e⟩ | ⟨tied, _, ⟨_, e⟩ | ⟨hc, _, e⟩⟩
  · rw [e]; exact RStep.refl s
  · rw [e]; exact rstep_scotBreakTie A _ _ _ _
  · rw [e]
    exact (rstep_scotBreakTie A _ _ _ _).trans ((rstep_unpendLog A _ _ _).trans (rstep_transferSurplus A _ _ _ _))

theorem rstep_scotDefeatStep {s : St α} (hwf : s.WF) : RStep s (scotDefeatStep A s) := by
  rcases scotDefeatStep_cases A s with ⟨_, e⟩ | ⟨tied, htied, ⟨_, e⟩ | ⟨lc, hlc, e⟩⟩
  · rw [e]; exact RStep.refl s
  · rw [e]; exact rstep_scotBreakTie A _ _ _ _
  · rw [e]
    have hwf1 := WF_scotBreakTie A hwf tied true "defeat low candidate"
    have hcs := (scotBreakTie_frame A s tied true "defeat low candidate").1
    have hl : lc ∈ s.hopeful := htied lc (scotBreakTie_mem A s tied true "defeat low candidate" lc hlc)
    have hn : NonWId (scotBreakTie A s tied true "defeat low candidate").1 lc.cid :=
      nonWId_of_cands (nonWId_of_hopeful hl) hcs
    exact (rstep_scotBreakTie A _ _ _ _).trans ((rstep_defeat A hwf1 hn _).trans (rstep_transferDefeated A _ _ _))

theorem rstep_scotBody {s : St α} (hwf : s.WF) : RStep s (scotBody A s).1 := by
  have hwf1 : (scotElect A s).WF := by unfold scotElect; exact WF_electWinners A hwf _ _ _
  have hX1 : RStep s (scotElect A s) := by unfold scotElect; exact rstep_electWinners A hwf _ _ _
  unfold scotBody
  split
  · exact hX1
  · have hX2 : RStep s (scotRound A (scotElect A s)) := hX1.trans (rstep_scotRound A _)
    unfold scotStage
    split
    · exact hX2.trans (rstep_scotSurplusStep A _)
    · split
      · rw [scotFinish_fst]; exact hX2.trans (rstep_scotDefeatStep A (WF_scotRound A hwf1))
      · rw [scotFinish_fst]; exact hX2

/-! ## before and after the loop -/

theorem fcStep_rounds (s : St α) (b : Ballot α) : (fcStep A s b).rounds = s.rounds := by
  unfold fcStep; split <;> rfl

theorem foldl_fcStep_rounds (bs : List (Ballot α)) (s : St α) : (bs.foldl (fcStep A) s).rounds = s.rounds := by
  induction bs generalizing s with
  | nil => rfl
  | cons b bs ih => simp only [List.foldl_cons]; rw [ih, fcStep_rounds]

theorem scotInit_rounds (s0 : St α) : (scotInit A s0).rounds = s0.rounds := by
  unfold scotInit St.logAct
  simp only [show ("begin" == "round") = false from by decide, Bool.false_eq_true, if_false]
  show (firstCount A (s0.setQuota _)).rounds = _
  rw [firstCount_eq, foldl_fcStep_rounds]; rfl

theorem dropW_scotInit (s0 : St α) : dropW (scotInit A s0) = scotInit A (dropW s0) := by
  unfold scotInit
  rw [dropW_logAct, dropW_setExhausted, dropW_firstCount, dropW_setQuota]
  rfl

theorem WF_foldUnpend (l : List (Cand α)) {t : St α} (h : t.WF) : (l.foldl (fun acc c => acc.unpendSilent c.cid) t).WF := by
  induction l generalizing t with
  | nil => exact h
  | cons c cs ih => simp only [List.foldl_cons]; exact ih (WF_upd h _ _ (fun _ => rfl))

theorem dropW_scotEpilogue {s : St α} (hwf : s.WF) : dropW (scotEpilogue A s) = scotEpilogue A (dropW s) := by
  unfold scotEpilogue
  dsimp only
  simp only [pendingL_dropW]
  rw [← dropW_foldUnpend]
  have hwf5 := WF_foldUnpend s.pendingL hwf
  generalize s.pendingL.foldl (fun acc c => acc.unpendSilent c.cid) s = s5 at *
  simp only [hopeful_dropW, seatsLeft_dropW]
  have h6 : dropW (if decide ((s5.hopeful.length : Int) ≤ s5.seatsLeft) then
              s5.hopeful.foldl (fun acc c => acc.elect A c.cid "Elect remaining candidates" false) s5 else s5)
      = (if decide ((s5.hopeful.length : Int) ≤ s5.seatsLeft) then
              s5.hopeful.foldl (fun acc c => acc.elect A c.cid "Elect remaining candidates" false) (dropW s5) else dropW s5) := by
    split
    · exact dropW_foldElect A _ (fun _ => "Elect remaining candidates") (fun _ => false) hwf5 (fun w hw => nonWId_of_hopeful hw)
    · rfl
  have hwf6 : (if decide ((s5.hopeful.length : Int) ≤ s5.seatsLeft) then
              s5.hopeful.foldl (fun acc c => acc.elect A c.cid "Elect remaining candidates" false) s5 else s5).WF := by
    split
    · exact WF_foldElect A hwf5 _ (fun _ => "Elect remaining candidates") (fun _ => false)
    · exact hwf5
  rw [← h6]
  generalize (if decide ((s5.hopeful.length : Int) ≤ s5.seatsLeft) then
              s5.hopeful.foldl (fun acc c => acc.elect A c.cid "Elect remaining candidates" false) s5 else s5) = s6 at *
  simp only [hopeful_dropW]
  exact dropW_foldDefeat A _ (fun _ => "Defeat remaining candidates") hwf6 (fun w hw => nonWId_of_hopeful hw)

/-- **C11, second clause, Scottish rule**: counting the profile with the withdrawn candidates deleted gives exactly the state
    (record included) obtained by deleting them from the count of the full profile -/
theorem scot_dropW (hA : LawfulArith A) (hex : A.exact = false) (s0 t t' : St α) (h0 : ScotStart A s0)
    (hr0 : s0.rounds = []) (h : scotCount A s0 = some t) (h' : scotCount A (dropW s0) = some t') :
    t' = dropW t := by
  have hinit : ScotInv A (scotInit A s0) ∧ RndW (scotInit A s0) := by
    refine ⟨h0.inv A hA, ?_⟩
    intro l hl
    rw [scotInit_rounds, hr0] at hl
    cases hl
  have hwfP : ∀ s, ScotInv A s ∧ RndW s → s.WF := fun s hs => hs.1.1.1.wf
  have hstep : ∀ s, ScotInv A s ∧ RndW s → ScotInv A (scotBody A s).1 ∧ RndW (scotBody A s).1 := fun s hs =>
    ⟨(scotBody_spec A hA hex hs.1).1, hs.2.step (rstep_scotBody A (hwfP s hs))⟩
  unfold scotCount at h h'
  cases hl : loopN (fun _ => true) (scotBody A) (2 * s0.cands.length + 3) (scotInit A s0) with
  | none => rw [hl] at h; cases h
  | some s4 =>
    rw [hl] at h
    cases hl' : loopN (fun _ => true) (scotBody A) (2 * (dropW s0).cands.length + 3) (scotInit A (dropW s0)) with
    | none => rw [hl'] at h'; cases h'
    | some s4' =>
      rw [hl'] at h'
      have ht : t = scotEpilogue A s4 := (Option.some.inj h).symm
      have ht' : t' = scotEpilogue A s4' := (Option.some.inj h').symm
      have hlen : (dropW s0).cands.length ≤ s0.cands.length := List.length_filter_le _ _
      rw [← dropW_scotInit] at hl'
      have h1 := loopN_fuel_mono (fun _ => true) (scotBody A) _ _ _ hl' (2 * s0.cands.length + 3) (by omega)
      have h2 := loopN_dropW (fun s => ScotInv A s ∧ RndW s) (fun _ => true) (scotBody A)
        (fun s hs _ _ => hstep s hs) (fun _ => rfl) (fun s hs => dropW_scotBody A (hwfP s hs) hs.2)
        (2 * s0.cands.length + 3) _ hinit
      rw [hl, h1] at h2
      have h4 : s4' = dropW s4 := by simpa using h2
      have hP := loopN_preserves_guard (fun s => ScotInv A s ∧ RndW s) (fun _ => true) (scotBody A)
        (fun s hs _ => hstep s hs) _ _ _ hinit hl
      rw [ht', ht, h4, dropW_scotEpilogue A (hwfP _ hP)]

end Droop
