import DroopProofs.Sticky
import DroopProofs.CaseInit

/-! # C05, one seat: the candidate elected at the first election step is the winner (all four Gregory drivers)

`Shown w r`: the newest snapshot of `r` lists candidate `w`, and lists it as elected.  A fold of `elect` over a list that
contains `w` ends in such a state (`shown_foldElect`); every later state with a forward-only record still has `w` elected
(`Shown.final`, from `elected_sticky`).  The rule-specific part is only: *the first election step folds `elect` over a list
that contains the majority candidate*. -/
namespace Droop
variable {α : Type} [CommRing α] [LinearOrder α] [IsStrictOrderedRing α] (A : Arith α)

def Shown (w : Nat) (r : St α) : Prop := ∃ sn, (snaps r.acts).head? = some sn ∧ AllEl w sn ∧ HasC w sn

theorem Shown.final {w : Nat} {r t : St α} (h : Shown w r) (hx : Ext r t) (hM : Mon t) :
    ∃ x ∈ t.cands, x.cid = w ∧ x.st = .elected := by
  obtain ⟨sn, h1, h2, h3⟩ := h
  exact elected_sticky hM hx sn h1 h2 h3

theorem elect_cands (s : St α) (cid : Nat) (verb : String) (p : Bool) :
    (s.elect A cid verb p).cands = (s.upd cid (fun c => { c with st := .elected, pending := p })).cands := by
  unfold St.elect; rw [logAct_cands]

theorem elect_sets (s : St α) (w : Nat) (verb : String) (p : Bool) :
    ∀ x ∈ (s.elect A w verb p).cands, x.cid = w → x.st = .elected := by
  intro x hx hw
  rw [elect_cands] at hx
  obtain ⟨c, _, rfl⟩ := mem_upd.1 hx
  by_cases hc : (c.cid == w) = true
  · simp only [hc, if_true]
  · have hf : (c.cid == w) = false := by simpa using hc
    simp only [hf, Bool.false_eq_true, if_false] at hw
    rw [hw] at hf; simp at hf

theorem elect_keeps (s : St α) (cid : Nat) (verb : String) (p : Bool) (w : Nat)
    (h : ∀ x ∈ s.cands, x.cid = w → x.st = .elected) :
    ∀ x ∈ (s.elect A cid verb p).cands, x.cid = w → x.st = .elected := by
  intro x hx hw
  rw [elect_cands] at hx
  obtain ⟨c, hc, rfl⟩ := mem_upd.1 hx
  by_cases hcc : (c.cid == cid) = true
  · simp only [hcc, if_true]
  · have hf : (c.cid == cid) = false := by simpa using hcc
    simp only [hf, Bool.false_eq_true, if_false] at hw ⊢
    exact h c hc hw

theorem elect_has (s : St α) (cid : Nat) (verb : String) (p : Bool) (w : Nat) (h : ∃ x ∈ s.cands, x.cid = w) :
    ∃ x ∈ (s.elect A cid verb p).cands, x.cid = w := by
  obtain ⟨x, hx, hw⟩ := h
  rw [elect_cands]
  refine ⟨if x.cid == cid then { x with st := .elected, pending := p } else x, mem_upd.2 ⟨x, hx, rfl⟩, ?_⟩
  split <;> exact hw

theorem foldElect_keeps (ws : List (Cand α)) (verb : Cand α → String) (pend : Cand α → Bool) (s : St α) (w : Nat)
    (h : ∀ x ∈ s.cands, x.cid = w → x.st = .elected) :
    ∀ x ∈ (ws.foldl (fun acc x => acc.elect A x.cid (verb x) (pend x)) s).cands, x.cid = w → x.st = .elected := by
  induction ws generalizing s with
  | nil => exact h
  | cons v vs ih => simp only [List.foldl_cons]; exact ih _ (elect_keeps A s v.cid _ _ w h)

theorem foldElect_all (ws : List (Cand α)) (verb : Cand α → String) (pend : Cand α → Bool) (s : St α) (w : Cand α)
    (hw : w ∈ ws) :
    ∀ x ∈ (ws.foldl (fun acc x => acc.elect A x.cid (verb x) (pend x)) s).cands, x.cid = w.cid → x.st = .elected := by
  induction ws generalizing s with
  | nil => cases hw
  | cons v vs ih =>
    simp only [List.foldl_cons]
    rcases List.mem_cons.1 hw with rfl | hin
    · exact foldElect_keeps A vs verb pend _ w.cid (elect_sets A s w.cid _ _)
    · exact ih _ hin

theorem foldElect_has (ws : List (Cand α)) (verb : Cand α → String) (pend : Cand α → Bool) (s : St α) (w : Nat)
    (h : ∃ x ∈ s.cands, x.cid = w) :
    ∃ x ∈ (ws.foldl (fun acc x => acc.elect A x.cid (verb x) (pend x)) s).cands, x.cid = w := by
  induction ws generalizing s with
  | nil => exact h
  | cons v vs ih => simp only [List.foldl_cons]; exact ih _ (elect_has A s v.cid _ _ w h)

/-- a fold of `elect` over a list containing `w` ends with `w` shown elected in the newest snapshot -/
theorem shown_foldElect (ws : List (Cand α)) (verb : Cand α → String) (pend : Cand α → Bool) (s : St α) (w : Cand α)
    (hw : w ∈ ws) (hs : ∃ x ∈ s.cands, x.cid = w.cid) :
    Shown w.cid (ws.foldl (fun acc x => acc.elect A x.cid (verb x) (pend x)) s) := by
  refine ⟨_, head_snap_foldElect A ws (by intro h; rw [h] at hw; cases hw) verb pend s, ?_, ?_⟩
  · exact allEl_mkSnap A (foldElect_all A ws verb pend s w hw)
  · exact hasC_mkSnap A (foldElect_has A ws verb pend s w.cid hs)

/-- the same for the election step of the Gregory drivers -/
theorem shown_electWinners (hasQ : St α → Cand α → Bool) (pend : St α → Cand α → Bool) (verb : St α → Cand α → String)
    (s : St α) (w : Cand α) (hw : w ∈ s.hopeful) (hq : hasQ s w = true) :
    Shown w.cid (electWinners A hasQ pend verb s) := by
  unfold electWinners
  apply shown_foldElect A _ (verb s) (pend s) s w
  · rw [List.mem_filter]; exact ⟨(mem_pySorted _ _ _ _).2 hw, hq⟩
  · exact ⟨w, (mem_hopeful.1 hw).1, rfl⟩

/-! ## one step of the fuelled loop -/

theorem loopN_first (guard : St α → Bool) (body : St α → St α × Flow) (hb : ∀ s, Ext s (body s).1)
    (n : Nat) (s t : St α) (hc : s.crash = none) (hg : guard s = true) (h : loopN guard body (n + 1) s = some t) :
    Ext (body s).1 t := by
  unfold loopN at h
  simp only [hc, Option.isSome_none, Bool.false_eq_true, if_false, hg, if_true] at h
  cases hbs : body s with
  | mk s' fl =>
    rw [hbs] at h
    cases fl with
    | cont => exact ext_loopN guard body hb _ _ _ h
    | brk => simp only [Option.some.injEq] at h; rw [← h]; exact Ext.refl _

theorem loopN_guard_false (guard : St α → Bool) (body : St α → St α × Flow)
    (n : Nat) (s t : St α) (hc : s.crash = none) (hg : guard s = false) (h : loopN guard body (n + 1) s = some t) :
    t = s := by
  unfold loopN at h
  simp only [hc, Option.isSome_none, Bool.false_eq_true, if_false, hg] at h
  exact (Option.some.inj h).symm

/-! ## crash flag and ballots at the start -/

theorem fcStep_crash (s : St α) (b : Ballot α) : (fcStep A s b).crash = s.crash := by
  unfold fcStep; split <;> rfl

theorem foldl_fcStep_crash (bs : List (Ballot α)) (s : St α) : (bs.foldl (fcStep A) s).crash = s.crash := by
  induction bs generalizing s with
  | nil => rfl
  | cons b bs ih => simp only [List.foldl_cons]; rw [ih, fcStep_crash]

theorem gInit_crash (q : α) (s0 : St α) : (gInit A q s0).crash = s0.crash := by
  unfold gInit
  rw [crash_logAct]
  show (firstCount A (s0.setQuota q)).crash = _
  rw [firstCount_eq, foldl_fcStep_crash]; rfl

theorem gInit_ballots (q : α) (s0 : St α) : (gInit A q s0).ballots = s0.ballots := by
  unfold gInit
  rw [logAct_ballots]
  show (firstCount A (s0.setQuota q)).ballots = _
  rw [firstCount_eq, (foldl_fcStep_frame A _ _).1]; rfl

end Droop
