import DroopProofs.LowerRun
import DroopProofs.OracleBridge

/-! # The compiled lower-bound oracle is true on every record that satisfies `LInv`

`recLowerB` is the Boolean the driver evaluates on the model's record *and* on the implementation's record (oldest action first).
`recLowerB_of_LInv`: on a record whose state satisfies `LInv A 2` it evaluates to `true`. With `recUpperB_of_recOK` this makes
`okC02Gregory` a theorem about every model record of the seven Gregory rules: an alarm of that oracle on the implementation's
record is never a false alarm of the oracle itself. -/
namespace Droop
variable {α : Type} [CommRing α] [LinearOrder α] [IsStrictOrderedRing α] (A : Arith α)

def cntST (xs : List (Act α × Snap α)) : Nat := (xs.filter (fun p => isSTs p.1.tag p.1.verb)).length

def lowerCheck (ctx : Ctx) (units : Int → α) (x : Act α × Snap α) (t : Nat) : Bool :=
  if ctx.isRational then
    !(A.ltRaw (A.add (A.sum ((x.2.cs.filter (fun e => e.2.1 != "W")).map (fun e => e.2.2.1))) x.2.x1) (A.ofInt ctx.nballots))
  else
    !(A.ltRaw (A.add (A.sum ((x.2.cs.filter (fun e => e.2.1 != "W")).map (fun e => e.2.2.1))) x.2.x1)
        (A.sub (A.ofInt ctx.nballots) (units (2 * ctx.nballots * t))))

theorem go_cons (ctx : Ctx) (units : Int → α) (t : Nat) (x : Act α × Snap α) (rest : List (Act α × Snap α)) :
    recLowerB.go A ctx units (A.ofInt ctx.nballots) t (x :: rest)
      = (lowerCheck A ctx units x (t + (if isSTs x.1.tag x.1.verb then 1 else 0))
          && recLowerB.go A ctx units (A.ofInt ctx.nballots) (t + (if isSTs x.1.tag x.1.verb then 1 else 0)) rest) := by
  obtain ⟨a, s⟩ := x
  conv_lhs => unfold recLowerB.go
  unfold lowerCheck isSTs
  dsimp only
  have ht : (if (a.tag == "transfer" && (a.verb == "Surplus transferred" || a.verb == "Transfer surplus")) = true then t + 1 else t)
      = t + (if (a.tag == "transfer" && (a.verb == "Surplus transferred" || a.verb == "Transfer surplus")) = true then 1 else 0) := by
    split <;> rfl
  rw [ht]

theorem go_append_single (ctx : Ctx) (units : Int → α) :
    ∀ (xs : List (Act α × Snap α)) (t : Nat) (x : Act α × Snap α),
      recLowerB.go A ctx units (A.ofInt ctx.nballots) t (xs ++ [x])
        = (recLowerB.go A ctx units (A.ofInt ctx.nballots) t xs
            && lowerCheck A ctx units x (t + cntST xs + (if isSTs x.1.tag x.1.verb then 1 else 0))) := by
  intro xs
  induction xs with
  | nil =>
    intro t x
    simp only [List.nil_append, cntST, List.filter_nil, List.length_nil, Nat.add_zero]
    rw [go_cons]
    have : recLowerB.go A ctx units (A.ofInt ctx.nballots) (t + (if isSTs x.1.tag x.1.verb then 1 else 0)) [] = true := by unfold recLowerB.go; rfl
    rw [this]
    have h0 : recLowerB.go A ctx units (A.ofInt ctx.nballots) t [] = true := by unfold recLowerB.go; rfl
    rw [h0]; simp
  | cons y ys ih =>
    intro t x
    simp only [List.cons_append]
    rw [go_cons, go_cons, ih]
    have hc : cntST (y :: ys) = (if isSTs y.1.tag y.1.verb then 1 else 0) + cntST ys := by
      unfold cntST; rw [List.filter_cons]; split <;> simp [Nat.add_comm]
    rw [hc, Bool.and_assoc]
    congr 2
    congr 1
    omega

theorem snapsOf_append (l1 l2 : List (Act α)) : snapsOf (l1 ++ l2) = snapsOf l1 ++ snapsOf l2 := by
  unfold snapsOf; rw [List.filterMap_append]

theorem cntST_snapsOf_reverse (l : List (Act α)) (hs : ∀ a ∈ l, a.snap.isSome = true) : cntST (snapsOf l.reverse) = nST l := by
  induction l with
  | nil => rfl
  | cons a l ih =>
    have ha := hs a (by simp)
    obtain ⟨sn, hsn⟩ := Option.isSome_iff_exists.1 ha
    rw [List.reverse_cons, snapsOf_append, nST_cons]
    have : snapsOf [a] = [(a, sn)] := by unfold snapsOf; simp [hsn]
    rw [this]
    unfold cntST at ih ⊢
    rw [List.filter_append, List.length_append, ih (fun x hx => hs x (by simp [hx]))]
    simp only [List.filter_cons, List.filter_nil]
    split <;> simp

/-- **the lower-bound oracle holds on the record of every state that satisfies `LInv A 2`** -/
theorem recLowerB_of_LInv (hA : LawfulArith A) (hR : LawfulRaw A) (ctx : Ctx) (units : Int → α) (hU : ∀ k : Int, units k = (k : α))
    (s : St α) (hn : ctx.nballots = s.nballots) (hrat : ctx.isRational = false) (h : LInv A 2 s) :
    recLowerB A ctx units s.acts.reverse = true := by
  unfold recLowerB
  have key : ∀ (l : List (Act α)), l <:+ s.acts → recLowerB.go A ctx units (A.ofInt ctx.nballots) 0 (snapsOf l.reverse) = true := by
    intro l
    induction l with
    | nil => intro _; unfold snapsOf recLowerB.go; rfl
    | cons a l ih =>
      intro hsuf
      have hsufl : l <:+ s.acts := (List.suffix_cons a l).trans hsuf
      have hsn_all : ∀ x ∈ a :: l, x.snap.isSome = true := fun x hx => h.snaps x (hsuf.subset hx)
      obtain ⟨sn, hsn⟩ := Option.isSome_iff_exists.1 (hsn_all a (by simp))
      rw [List.reverse_cons, snapsOf_append]
      have h1 : snapsOf [a] = [(a, sn)] := by unfold snapsOf; simp [hsn]
      rw [h1, go_append_single, ih hsufl, Bool.true_and]
      have hcnt := cntST_snapsOf_reverse l (fun x hx => hsn_all x (by simp [hx]))
      have hT : 0 + cntST (snapsOf l.reverse) + (if isSTs a.tag a.verb then 1 else 0) = nST (a :: l) := by
        rw [hcnt, nST_cons]; omega
      rw [hT]
      have hlow := h.recl l a hsuf sn hsn
      unfold LowOK snapTot at hlow
      unfold lowerCheck
      simp only [hrat, Bool.false_eq_true, if_false]
      rw [Bool.not_eq_true', ← Bool.not_eq_true, hR.ltRaw_iff, not_lt]
      rw [hA.add_eq, arith_sum_eq A hA, hA.sub_eq, hA.ofInt_eq, hU, hn]
      push_cast
      push_cast at hlow
      linarith
  exact key s.acts (List.suffix_refl _)

end Droop
