import DroopProofs.Counting

/-! # wigm / wigm-prf: enough candidates remain (J1), and the count ends with exactly `seats` winners -/
namespace Droop
variable {α : Type} [CommRing α] [LinearOrder α] [IsStrictOrderedRing α] (A : Arith α)

def sumHE (s : St α) : Nat := nHop s + nEl s

theorem sumHE_of_skel {s t : St α} (h : t.skel = s.skel) : sumHE t = sumHE s := by
  unfold sumHE; rw [(counts_of_skel h).1, (counts_of_skel h).2]
theorem sumHE_logAct (s : St α) (tag verb : String) (subj : List Nat) : sumHE (s.logAct A tag verb subj) = sumHE s := by
  unfold sumHE; rw [nHop_logAct, nEl_logAct]
theorem sumHE_newRound (s : St α) : sumHE (s.newRound A) = sumHE s := by
  unfold St.newRound; rw [sumHE_logAct]; rfl
theorem sumHE_breakTie (s : St α) (tied : List (Cand α)) (verb : String) : sumHE (breakTie A s tied verb).1 = sumHE s := by
  apply sumHE_of_skel; unfold St.skel; rw [(breakTie_frame A s tied verb).1]

theorem sumHE_foldElect {s : St α} (hI : Inv A s) (ws : List (Cand α)) (verb : Cand α → String) (pend : Cand α → Bool)
    (hnd : (ws.map (·.cid)).Nodup)
    (hw : ∀ w ∈ ws, w ∈ s.cands ∧ w.st = .hopeful ∧ (pend w = true → s.quota ≤ w.vote)) :
    sumHE (ws.foldl (fun acc c => acc.elect A c.cid (verb c) (pend c)) s) = sumHE s := by
  induction ws generalizing s with
  | nil => rfl
  | cons w ws ih =>
    simp only [List.foldl_cons]
    simp only [List.map_cons, List.nodup_cons, List.mem_map, not_exists, not_and] at hnd
    obtain ⟨hwm, hwh, hwq⟩ := hw w (by simp)
    have huniq : ∀ c ∈ s.cands, c.cid = w.cid → c = w := fun c hc hcid => nodup_cid_eq hI.wf hc hwm hcid
    have h1 : Inv A (s.elect A w.cid (verb w) (pend w)) := by
      apply hI.elect A
      · intro c hc hcid; rw [huniq c hc hcid]; exact hwh
      · intro c hc hcid hp; rw [huniq c hc hcid]; exact hwq hp
    have hc := counts_elect A s w (verb w) (pend w) hI.wf hwm hwh
    have hstep : sumHE (s.elect A w.cid (verb w) (pend w)) = sumHE s := by unfold sumHE; omega
    rw [← hstep]
    apply ih h1 hnd.2
    intro w' hw'
    obtain ⟨hm, hh, hq⟩ := hw w' (by simp [hw'])
    have hne : w'.cid ≠ w.cid := fun e => hnd.1 w' hw' e
    refine ⟨?_, hh, ?_⟩
    · unfold St.elect; rw [logAct_cands]; exact mem_upd_of_ne hm hne
    · intro hp; unfold St.elect; rw [logAct_quota]; exact hq hp

theorem sumHE_wigmElect (hA : LawfulArith A) (o : WigmOpts) (hex : o.prf = true → A.exact = false) {s : St α} (hI : Inv A s) :
    sumHE (wigmElect A o s) = sumHE s := by
  unfold wigmElect electWinners
  apply sumHE_foldElect A hI
  · have hp : ((byVote A true s.hopeful).map (·.cid)).Perm (s.hopeful.map (·.cid)) := (pySorted_perm _ _ _).map _
    have hnd : ((byVote A true s.hopeful).map (·.cid)).Nodup := hp.nodup_iff.2 (hopeful_cids_nodup hI.wf)
    exact List.Nodup.sublist (List.Sublist.map _ List.filter_sublist) hnd
  · intro w hw
    rw [List.mem_filter] at hw
    have hm : w ∈ s.hopeful := (mem_pySorted _ _ _ _).1 hw.1
    obtain ⟨hc, hh⟩ := mem_hopeful.1 hm
    refine ⟨hc, hh, fun _ => ?_⟩
    by_cases hp : o.prf = true
    · have := hw.2; simp only [hp, if_true] at this; exact hasQuotaGE_sound A hA (hex hp) s w this
    · have := hw.2; simp only [hp] at this; exact hasQuotaX_sound A hA s w this

theorem sumHE_transferSurplus (s : St α) (hc : Cand α) (rew : α → α → α → α) (verb : String) :
    sumHE (transferSurplus A s hc rew verb) = sumHE s := by
  unfold transferSurplus; dsimp only
  rw [sumHE_logAct]
  exact (sumHE_of_skel (setVote_skel _ _ _)).trans (sumHE_of_skel (transferAll_skel A s _ _))

theorem sumHE_foldl_setVote (l : List Nat) (s : St α) : sumHE (l.foldl (fun acc c => acc.setVote c A.zero) s) = sumHE s := by
  induction l generalizing s with
  | nil => rfl
  | cons c cs ih => simp only [List.foldl_cons]; rw [ih]; exact sumHE_of_skel (setVote_skel _ _ _)

theorem sumHE_transferDefeated (s : St α) (cids : List Nat) (verb : String) :
    sumHE (transferDefeated A s cids verb) = sumHE s := by
  unfold transferDefeated; dsimp only
  rw [sumHE_logAct, sumHE_foldl_setVote]
  exact sumHE_of_skel (transferAll_skel A s _ _)

theorem sumHE_wigmSurplusStep (s : St α) : sumHE (wigmSurplusStep A s) = sumHE s := by
  unfold wigmSurplusStep
  cases hm : maxVoteOf A s.pendingL with
  | none => rfl
  | some hv =>
    simp only
    have hbt := sumHE_breakTie A s (s.pendingL.filter (fun c => A.eq c.vote hv)) "Break tie (surplus)"
    cases hb : breakTie A s (s.pendingL.filter (fun c => A.eq c.vote hv)) "Break tie (surplus)" with
    | mk s1 oc =>
      rw [hb] at hbt
      cases oc with
      | none => exact hbt
      | some hc =>
        simp only
        rw [sumHE_transferSurplus]
        have := counts_unpendLog A s1 hc.cid "Transfer high surplus"
        unfold sumHE at hbt ⊢
        simp only at hbt
        omega

/-- a single exclusion lowers hopeful+elected by at most one -/
theorem sumHE_wigmDefeatStep (o : WigmOpts) (hz : o.batchZero = false) {s : St α} (hI : Inv A s) :
    sumHE s ≤ sumHE (wigmDefeatStep A o s) + 1 := by
  unfold wigmDefeatStep
  cases hm : minVoteOf A s.hopeful with
  | none => exact Nat.le_succ _
  | some lv =>
    simp only [hz, Bool.and_false, Bool.false_and, Bool.false_eq_true, if_false]
    have hbt := sumHE_breakTie A s (s.hopeful.filter (fun c => A.eq c.vote lv)) "Break tie (defeat)"
    have hfr := breakTie_frame A s (s.hopeful.filter (fun c => A.eq c.vote lv)) "Break tie (defeat)"
    have hmem := breakTie_mem A s (s.hopeful.filter (fun c => A.eq c.vote lv)) "Break tie (defeat)"
    have hI1 := hI.breakTie A (s.hopeful.filter (fun c => A.eq c.vote lv)) "Break tie (defeat)"
    cases hb : breakTie A s (s.hopeful.filter (fun c => A.eq c.vote lv)) "Break tie (defeat)" with
    | mk s1 oc =>
      rw [hb] at hbt hfr hmem hI1
      cases oc with
      | none => simp only at hbt ⊢; omega
      | some lc =>
        simp only
        have hcm := hmem lc rfl
        rw [List.mem_filter] at hcm
        obtain ⟨hcs, hch⟩ := mem_hopeful.1 hcm.1
        have hcs1 : lc ∈ s1.cands := by have := hfr.1; simp only at this; rw [this]; exact hcs
        rw [sumHE_transferDefeated]
        have := counts_defeat A s1 lc "Defeat" hI1.wf hcs1 hch
        unfold sumHE at hbt ⊢
        simp only at hbt
        omega

theorem seats_wigmBody (o : WigmOpts) (s : St α) : (wigmBody A o s).1.seats = s.seats := (frame_wigmBody A o s).2.1

/-- J1: if more candidates than seats remain when a round starts (the loop guard), at least `seats` remain after it -/
theorem J1_wigmBody (hA : LawfulArith A) (o : WigmOpts) (ho : o.plain) (hex : o.prf = true → A.exact = false)
    {s : St α} (hI : Inv A s) (hg : s.seats < sumHE s) : (wigmBody A o s).1.seats ≤ sumHE (wigmBody A o s).1 := by
  rw [seats_wigmBody]
  unfold wigmBody
  have hI1 := hI.newRound A
  have hI2 := hI1.wigmElect A hA o hex
  have h2 : sumHE (wigmElect A o (s.newRound A)) = sumHE s := by
    rw [sumHE_wigmElect A hA o hex hI1, sumHE_newRound]
  unfold wigmAfterElect
  have hsure : wigmSure A o (wigmElect A o (s.newRound A)) = [] := by unfold wigmSure; simp [ho.2]
  simp only [hsure, List.isEmpty_nil, Bool.not_true, Bool.false_eq_true, if_false]
  split
  · dsimp only; rw [sumHE_wigmSurplusStep, h2]; omega
  · split
    · dsimp only
      have := sumHE_wigmDefeatStep A o ho.1 hI2
      omega
    · dsimp only; rw [h2]; omega

theorem guard_strict (s : St α) (hg : stdGuard s = true) : s.seats < sumHE s := by
  unfold stdGuard St.seatsLeft at hg
  simp only [Bool.and_eq_true, decide_eq_true_eq] at hg
  unfold sumHE nHop nEl
  omega

end Droop
