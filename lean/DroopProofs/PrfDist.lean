import DroopProofs.MeekDist

/-! # meek-prf distribution (reference rule B.2.a): votes credited plus residual grow by exactly the ballots (C08, C02) -/
namespace Droop
variable {α : Type} [CommRing α] [LinearOrder α] [IsStrictOrderedRing α] (A : Arith α)

theorem prfRankStep_sum (hA : LawfulArith A) (mult : α) (acc : St α × α × α × Bool) (cid : Nat) (hwf : acc.1.WF) :
    (prfRankStep A mult acc cid).1.sumVotes + (prfRankStep A mult acc cid).2.2.1 = acc.1.sumVotes + acc.2.2.1
    ∧ (prfRankStep A mult acc cid).1.skel = acc.1.skel
    ∧ (prfRankStep A mult acc cid).1.residual = acc.1.residual := by
  unfold prfRankStep
  split
  · exact ⟨rfl, rfl, rfl⟩
  · cases hk : kfOf acc.1 cid with
    | none => exact ⟨rfl, rfl, rfl⟩
    | some kf =>
      simp only
      split
      · exact ⟨rfl, rfl, rfl⟩
      · have hsome : (acc.1.cand? cid).isSome := by
          unfold kfOf at hk
          cases hc : acc.1.cand? cid with
          | none => rw [hc] at hk; cases hk
          | some c => rfl
        refine ⟨?_, addVote_skel A _ _ _, rfl⟩
        simp only
        rw [sumVotes_addVote A hA _ _ _ hwf hsome, hA.sub_eq]
        ring

theorem foldl_prfRankStep_sum (hA : LawfulArith A) (mult : α) (rank : List Nat) (acc : St α × α × α × Bool) (hwf : acc.1.WF) :
    (rank.foldl (prfRankStep A mult) acc).1.sumVotes + (rank.foldl (prfRankStep A mult) acc).2.2.1
      = acc.1.sumVotes + acc.2.2.1
    ∧ (rank.foldl (prfRankStep A mult) acc).1.skel = acc.1.skel
    ∧ (rank.foldl (prfRankStep A mult) acc).1.residual = acc.1.residual := by
  induction rank generalizing acc with
  | nil => exact ⟨rfl, rfl, rfl⟩
  | cons c cs ih =>
    simp only [List.foldl_cons]
    obtain ⟨h1, h2, h3⟩ := prfRankStep_sum A hA mult acc c hwf
    obtain ⟨g1, g2, g3⟩ := ih (prfRankStep A mult acc c) (WF_of_skel h2.symm hwf)
    exact ⟨g1.trans h1, g2.trans h2, g3.trans h3⟩

/-- one ballot: Σ votes + residual grows by exactly the ballot's multiplier -/
theorem prfBallotStep_sum (hA : LawfulArith A) (s : St α) (b : Ballot α) (hwf : s.WF) :
    (prfBallotStep A s b).sumVotes + (prfBallotStep A s b).residual = s.sumVotes + s.residual + A.ofInt b.mult
    ∧ (prfBallotStep A s b).skel = s.skel := by
  unfold prfBallotStep
  obtain ⟨h1, h2, h3⟩ := foldl_prfRankStep_sum A hA (A.ofInt b.mult) b.rank (s, A.one, A.ofInt b.mult, false) hwf
  refine ⟨?_, h2⟩
  simp only at h1 h3 ⊢
  show (List.foldl (prfRankStep A (A.ofInt ↑b.mult)) (s, A.one, A.ofInt ↑b.mult, false) b.rank).1.sumVotes
      + A.add (List.foldl (prfRankStep A (A.ofInt ↑b.mult)) (s, A.one, A.ofInt ↑b.mult, false) b.rank).1.residual
              (List.foldl (prfRankStep A (A.ofInt ↑b.mult)) (s, A.one, A.ofInt ↑b.mult, false) b.rank).2.2.1
      = _
  rw [hA.add_eq, h3]
  linarith

/-- **the meek-prf distribution over all ballots: votes credited + residual grow by exactly the number of ballots**,
    whatever the keep factors are -/
theorem foldl_prfBallotStep_sum (hA : LawfulArith A) (bs : List (Ballot α)) (s : St α) (hwf : s.WF) :
    (bs.foldl (prfBallotStep A) s).sumVotes + (bs.foldl (prfBallotStep A) s).residual
      = s.sumVotes + s.residual + (bs.map (fun b => A.ofInt b.mult)).sum
    ∧ (bs.foldl (prfBallotStep A) s).skel = s.skel := by
  induction bs generalizing s with
  | nil => simp
  | cons b bs ih =>
    simp only [List.foldl_cons, List.map_cons, List.sum_cons]
    obtain ⟨h1, h2⟩ := prfBallotStep_sum A hA s b hwf
    obtain ⟨g1, g2⟩ := ih (prfBallotStep A s b) (WF_of_skel h2.symm hwf)
    exact ⟨by rw [g1, h1]; ring, g2.trans h2⟩

/-- starting from the state `prfIterate` distributes from — active tallies zeroed, residual zero — the tallies credited plus
    the residual are the tallies that were not zeroed plus the number of ballots -/
theorem prf_distribution_conserves (hA : LawfulArith A) (s : St α) (hwf : s.WF) :
    let s1 : St α := { zeroActiveVotes A s with residual := A.zero }
    (s1.ballots.foldl (prfBallotStep A) s1).sumVotes + (s1.ballots.foldl (prfBallotStep A) s1).residual
      = s1.sumVotes + (s.ballots.map (fun b => A.ofInt b.mult)).sum := by
  intro s1
  have hsk : s1.skel = s.skel := by
    show ({ zeroActiveVotes A s with residual := A.zero } : St α).skel = s.skel
    unfold zeroActiveVotes St.skel
    simp only [List.map_map]
    apply List.map_congr_left
    intro c _
    simp only [Function.comp]
    split <;> rfl
  have hwf1 : s1.WF := WF_of_skel hsk.symm hwf
  obtain ⟨h1, _⟩ := foldl_prfBallotStep_sum A hA s1.ballots s1 hwf1
  rw [h1]
  have hr : s1.residual = A.zero := rfl
  have hb : s1.ballots = s.ballots := rfl
  rw [hr, hA.zero_eq, hb]; ring

end Droop
