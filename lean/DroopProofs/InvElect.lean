import DroopProofs.InvDefeat
import DroopProofs.SortPerm
import Mathlib.Data.List.Nodup

/-! # The election step preserves the bundle -/
namespace Droop
variable {α : Type} [CommRing α] [LinearOrder α] [IsStrictOrderedRing α] (A : Arith α)

@[simp] theorem logAct_cands (s : St α) (tag verb : String) (subj : List Nat) : (s.logAct A tag verb subj).cands = s.cands := by
  unfold St.logAct; simp only; split <;> rfl
@[simp] theorem logAct_quota (s : St α) (tag verb : String) (subj : List Nat) : (s.logAct A tag verb subj).quota = s.quota := by
  unfold St.logAct; simp only; split <;> rfl
@[simp] theorem logAct_ballots (s : St α) (tag verb : String) (subj : List Nat) : (s.logAct A tag verb subj).ballots = s.ballots := by
  unfold St.logAct; simp only; split <;> rfl
@[simp] theorem logAct_seats (s : St α) (tag verb : String) (subj : List Nat) : (s.logAct A tag verb subj).seats = s.seats := by
  unfold St.logAct; simp only; split <;> rfl

theorem mem_upd_of_ne {s : St α} {cid : Nat} {f : Cand α → Cand α} {c : Cand α} (hc : c ∈ s.cands) (hne : c.cid ≠ cid) :
    c ∈ (s.upd cid f).cands := by
  apply mem_upd.2
  exact ⟨c, hc, by simp [hne]⟩

theorem mem_upd_of_eq {s : St α} {cid : Nat} {f : Cand α → Cand α} {c : Cand α} (hc : c ∈ s.cands) (he : c.cid = cid) :
    f c ∈ (s.upd cid f).cands := by
  apply mem_upd.2
  exact ⟨c, hc, by simp [he]⟩

/-- electing, one after another, distinct hopeful candidates that hold a quota (when pending is requested) -/
theorem Inv.foldElect {s : St α} (h : Inv A s) (ws : List (Cand α)) (verb : Cand α → String) (pend : Cand α → Bool)
    (hnd : (ws.map (·.cid)).Nodup)
    (hw : ∀ w ∈ ws, w ∈ s.cands ∧ w.st = .hopeful ∧ (pend w = true → s.quota ≤ w.vote)) :
    Inv A (ws.foldl (fun acc c => acc.elect A c.cid (verb c) (pend c)) s) := by
  induction ws generalizing s with
  | nil => exact h
  | cons w ws ih =>
    simp only [List.foldl_cons]
    simp only [List.map_cons, List.nodup_cons, List.mem_map, not_exists, not_and] at hnd
    obtain ⟨hwm, hwh, hwq⟩ := hw w (by simp)
    have h1 : Inv A (s.elect A w.cid (verb w) (pend w)) := by
      apply h.elect A
      · intro c hc hcid
        have : c = w := nodup_cid_eq h.wf hc hwm hcid
        rw [this]; exact hwh
      · intro c hc hcid hp
        have : c = w := nodup_cid_eq h.wf hc hwm hcid
        rw [this]; exact hwq hp
    apply ih h1 hnd.2
    intro w' hw'
    obtain ⟨hm, hh, hq⟩ := hw w' (by simp [hw'])
    have hne : w'.cid ≠ w.cid := fun e => hnd.1 w' hw' e
    refine ⟨?_, hh, ?_⟩
    · unfold St.elect
      rw [logAct_cands]
      exact mem_upd_of_ne hm hne
    · intro hp
      unfold St.elect
      rw [logAct_quota]
      exact hq hp

theorem hopeful_cids_nodup {s : St α} (hwf : s.WF) : (s.hopeful.map (·.cid)).Nodup := by
  unfold St.hopeful
  exact List.Nodup.sublist (List.Sublist.map _ List.filter_sublist) hwf

theorem mem_hopeful {s : St α} {c : Cand α} : c ∈ s.hopeful ↔ c ∈ s.cands ∧ c.st = .hopeful := by
  unfold St.hopeful; simp

theorem hasQuotaX_sound (hA : LawfulArith A) (s : St α) (c : Cand α) (h : hasQuotaX A s c = true) : s.quota ≤ c.vote := by
  unfold hasQuotaX at h
  split at h
  · exact le_of_lt (hA.gt_sound _ _ h)
  · rename_i hex
    exact hA.ge_sound _ _ (by simpa using hex) h

theorem hasQuotaGE_sound (hA : LawfulArith A) (hex : A.exact = false) (s : St α) (c : Cand α)
    (h : hasQuotaGE A s c = true) : s.quota ≤ c.vote := hA.ge_sound _ _ hex h

/-- `electWinners` with a sound quota test preserves the bundle -/
theorem Inv.electWinners {s : St α} (h : Inv A s) (hasQ : St α → Cand α → Bool) (pend : St α → Cand α → Bool)
    (verb : St α → Cand α → String) (hsound : ∀ c, hasQ s c = true → s.quota ≤ c.vote) :
    Inv A (Droop.electWinners A hasQ pend verb s) := by
  unfold Droop.electWinners
  apply h.foldElect A _ (verb s) (pend s)
  · have hp : ((byVote A true s.hopeful).map (·.cid)).Perm (s.hopeful.map (·.cid)) :=
      (pySorted_perm _ _ _).map _
    have hnd : ((byVote A true s.hopeful).map (·.cid)).Nodup := hp.nodup_iff.2 (hopeful_cids_nodup h.wf)
    exact List.Nodup.sublist (List.Sublist.map _ List.filter_sublist) hnd
  · intro w hw
    rw [List.mem_filter] at hw
    have hm : w ∈ s.hopeful := (mem_pySorted _ _ _ _).1 hw.1
    obtain ⟨hc, hh⟩ := mem_hopeful.1 hm
    exact ⟨hc, hh, fun _ => hsound w hw.2⟩

end Droop
