import DroopProofs.Lawful
import DroopProofs.TallyInv

/-! # Conservation: what a transfer adds to (Σ votes + exhausted) is exactly the value of the moved ballots -/
namespace Droop
variable {α : Type} [CommRing α] [LinearOrder α] [IsStrictOrderedRing α] (A : Arith α)

def St.sumVotes (s : St α) : α := (s.cands.map (·.vote)).sum
def St.total (s : St α) : α := s.sumVotes + s.exhausted

/-- distinct candidate ids -/
def St.WF (s : St α) : Prop := (s.cands.map (·.cid)).Nodup

theorem WF_of_skel {s t : St α} (h : s.skel = t.skel) (hs : s.WF) : t.WF := by
  unfold St.WF at *
  have e : ∀ (u : St α), u.cands.map (·.cid) = u.skel.map (·.1) := by
    intro u; unfold St.skel; simp [Cand.skel]
  rw [e] at hs ⊢; rw [← h]; exact hs

theorem sum_votes_upd_vote (l : List (Cand α)) (cid : Nat) (v : α)
    (hnd : (l.map (·.cid)).Nodup) (hex : ∃ c ∈ l, c.cid = cid) :
    ((l.map (fun c => if c.cid == cid then { c with vote := c.vote + v } else c)).map (·.vote)).sum
      = (l.map (·.vote)).sum + v := by
  induction l with
  | nil => obtain ⟨c, hc, _⟩ := hex; simp at hc
  | cons x xs ih =>
    simp only [List.map_cons, List.sum_cons]
    simp only [List.map_cons, List.nodup_cons, List.mem_map, not_exists, not_and] at hnd
    by_cases hx : x.cid = cid
    · -- x is the one; nobody in xs has this cid
      have hrest : xs.map (fun c => if c.cid == cid then { c with vote := c.vote + v } else c) = xs := by
        have : xs.map (fun c => if c.cid == cid then { c with vote := c.vote + v } else c) = xs.map id := by
          apply List.map_congr_left
          intro c hc
          have : c.cid ≠ cid := by rw [← hx]; exact fun e => hnd.1 c hc e
          simp [this]
        simpa using this
      rw [hrest]; simp [hx]; ring
    · have hex' : ∃ c ∈ xs, c.cid = cid := by
        obtain ⟨c, hc, hcid⟩ := hex
        rcases List.mem_cons.mp hc with rfl | hc'
        · exact absurd hcid hx
        · exact ⟨c, hc', hcid⟩
      rw [ih hnd.2 hex']; simp [hx]; ring

theorem cand?_isSome_iff (s : St α) (cid : Nat) : (s.cand? cid).isSome ↔ ∃ c ∈ s.cands, c.cid = cid := by
  unfold St.cand?
  rw [List.find?_isSome]
  simp

theorem sumVotes_addVote (hA : LawfulArith A) (s : St α) (cid : Nat) (v : α) (hwf : s.WF)
    (hex : (s.cand? cid).isSome) : (s.addVote A cid v).sumVotes = s.sumVotes + v := by
  unfold St.sumVotes St.addVote St.upd
  simp only [hA.add_eq]
  exact sum_votes_upd_vote s.cands cid v hwf ((cand?_isSome_iff s cid).1 hex)

/-- value that ballot `b` carries to wherever it goes during `transferAll s cids rew` (0 if it does not move) -/
def movedVal (s : St α) (cids : List Nat) (rew : α → α) (b : Ballot α) : α :=
  match b.top with
  | some c => if c ∈ cids then bvote A (moveBallot s cids rew b) else 0
  | none => 0

theorem tstep_total (hA : LawfulArith A) (cids : List Nat) (rew : α → α) (s : St α)
    (acc : St α × List (Ballot α)) (b : Ballot α)
    (h : acc.1.skel = s.skel) (hwf : s.WF) (hb : ∀ cid ∈ b.rank, (s.cand? cid).isSome) :
    (tstep A cids rew acc b).1.total = acc.1.total + movedVal A s cids rew b := by
  have hfun : (fun cid => acc.1.isHopeful cid) = (fun cid => s.isHopeful cid) := by
    funext cid; exact isHopeful_of_skel h cid
  unfold tstep movedVal moveBallot
  cases htop : b.top with
  | none => simp
  | some c =>
    by_cases hc : c ∈ cids
    · simp only [List.contains_iff_mem, hc, if_true]
      unfold transferBallot
      rw [hfun]
      cases hnew : (advanceTo (fun cid => s.isHopeful cid) { b with w := rew b.w }).top with
      | none =>
        simp only [St.total, St.sumVotes, hA.add_eq]; ring
      | some c' =>
        have hmem : c' ∈ b.rank := by
          have := top_mem_rank _ _ hnew
          rwa [advanceTo_rank] at this
        have hsome : (acc.1.cand? c').isSome := by
          rw [cand?_isSome_of_skel h]; exact hb c' hmem
        have hwf' : acc.1.WF := WF_of_skel h.symm hwf
        simp only [St.total]
        rw [sumVotes_addVote A hA _ _ _ hwf' hsome]
        have : (acc.1.addVote A c' (bvote A (advanceTo (fun cid => s.isHopeful cid) { b with w := rew b.w }))).exhausted
             = acc.1.exhausted := rfl
        rw [this]; ring
    · simp [hc]

theorem foldl_tstep_total (hA : LawfulArith A) (cids : List Nat) (rew : α → α) (s : St α)
    (bs : List (Ballot α)) (acc : St α × List (Ballot α))
    (h : acc.1.skel = s.skel) (hwf : s.WF) (hb : ∀ b ∈ bs, ∀ cid ∈ b.rank, (s.cand? cid).isSome) :
    (bs.foldl (tstep A cids rew) acc).1.total = acc.1.total + (bs.map (movedVal A s cids rew)).sum := by
  induction bs generalizing acc with
  | nil => simp
  | cons b bs ih =>
    simp only [List.foldl_cons, List.map_cons, List.sum_cons]
    rw [ih _ (by rw [tstep_skel]; exact h) (fun b' hb' => hb b' (by simp [hb'])),
        tstep_total A hA cids rew s acc b h hwf (hb b (by simp))]
    ring

/-- **Σ votes + exhausted after a transfer = before + the value of the moved ballots** -/
theorem transferAll_total (hA : LawfulArith A) (s : St α) (hwf : s.WF) (hbw : BallotsWF s)
    (cids : List Nat) (rew : α → α) :
    (transferAll A s cids rew).total = s.total + (s.ballots.map (movedVal A s cids rew)).sum := by
  have := foldl_tstep_total A hA cids rew s s.ballots (s, []) rfl hwf hbw
  simpa [transferAll, St.total, St.sumVotes] using this

end Droop
