import DroopProofs.MeekMon
import DroopProofs.PermBMeek

/-! # The first Meek / Warren distribution under fixed-point arithmetic is the first-preference count

While every ranked candidate keeps everything (keep factor one) a ballot hands its whole value to its first choice and stops:
`distBallotStep = fcStep`.  So the first distribution of a count is the first count of the Gregory rules, for which the
per-candidate tallies are known (`foldl_fcStep_voteOf`). -/
namespace Droop

theorem foldl_distRankStep_stop {α : Type} (A : Arith α) (w : Bool) (mult : α) (rank : List Nat) (a : St α × α × α × Bool)
    (h : a.2.2.2 = true) : rank.foldl (distRankStep A w mult) a = a := by
  induction rank with
  | nil => rfl
  | cons c cs ih =>
    simp only [List.foldl_cons]
    have : distRankStep A w mult a c = a := by unfold distRankStep; rw [if_pos h]
    rw [this]; exact ih

theorem fixed_mul_down (p : Nat) (a b : Int) : (fixedArith p).mul .down a b = pdiv (a * b) (pow10 p) := by
  have hS : pow10 p ≠ 0 := ne_of_gt (pow10_pos p)
  show divmodRound .down (a * b) (pow10 p) = _
  unfold divmodRound
  have h0 : (pow10 p == 0) = false := by simpa using hS
  simp [h0]

/-- a ballot whose first choice keeps everything: the whole value goes there, nothing to the residual -/
theorem distBallotStep_first (p : Nat) (w : Bool) (s : St Int) (b : Ballot Int) (c1 : Nat) (rest : List Nat)
    (hr : b.rank = c1 :: rest) (hk : kfOf s c1 = some (pow10 p)) :
    distBallotStep (fixedArith p) w s b
      = { s.addVote (fixedArith p) c1 (pow10 p * (b.mult : Int)) with residual := s.residual } := by
  have hS := pow10_pos p
  have hS0 : pow10 p ≠ 0 := ne_of_gt hS
  unfold distBallotStep
  rw [hr, List.foldl_cons]
  have hstep : distRankStep (fixedArith p) w ((fixedArith p).ofInt b.mult) (s, (fixedArith p).one, (fixedArith p).ofInt b.mult, false) c1
      = (s.addVote (fixedArith p) c1 (pow10 p * (b.mult : Int)), 0, 0, true) := by
    unfold distRankStep
    simp only [Bool.false_eq_true, if_false, hk]
    have hz : (fixedArith p).isZero (pow10 p) = false := by
      show (pow10 p == 0) = false
      simpa using hS0
    simp only [hz, Bool.false_eq_true, if_false]
    have hone : (fixedArith p).one = pow10 p := rfl
    have hkw : keepWeight (fixedArith p) w (pow10 p) (fixedArith p).one = (pow10 p, 0) := by
      unfold keepWeight
      rw [hone]
      by_cases hw : w = true
      · rw [if_pos hw]
        have hlt : (fixedArith p).lt (pow10 p) (pow10 p) = false := by
          simp [Arith.lt, fixedArith, intCmp]
        rw [hlt]
        simp only [Bool.false_eq_true, if_false]
        show (pow10 p, pow10 p - pow10 p) = _
        simp
      · rw [if_neg hw, fixed_mul_down, fixed_mul_down]
        show (pdiv (pow10 p * pow10 p) (pow10 p), pdiv (pow10 p * (pow10 p - pow10 p)) (pow10 p)) = _
        rw [pdiv_mul_cancel _ _ hS]
        simp [pdiv]
    rw [hkw]
    have hmv : (fixedArith p).mulV (pow10 p) ((fixedArith p).ofInt b.mult) = pow10 p * (b.mult : Int) :=
      (fixed_lawful p).mulV_ofInt _ _
    simp only [hmv]
    have hof : (fixedArith p).ofInt (b.mult : Int) = (b.mult : Int) * pow10 p := rfl
    have hsub : (fixedArith p).sub ((fixedArith p).ofInt b.mult) (pow10 p * (b.mult : Int)) = 0 := by
      rw [hof]; show (b.mult : Int) * pow10 p - pow10 p * (b.mult : Int) = 0; ring
    have hle : (fixedArith p).le 0 (fixedArith p).zero = true := by
      simp [Arith.le, fixedArith, intCmp]
    rw [hsub, hle]
  rw [hstep, foldl_distRankStep_stop (fixedArith p) w _ rest _ rfl]
  show ({ s.addVote (fixedArith p) c1 (pow10 p * (b.mult : Int)) with residual := (s.addVote (fixedArith p) c1 (pow10 p * (b.mult : Int))).residual + 0 } : St Int) = _
  simp only [add_zero]
  rfl

/-- ... which is the Gregory first-count step, for a ballot that has not moved -/
theorem distBallotStep_eq_fcStep (p : Nat) (w : Bool) (s : St Int) (b : Ballot Int) (c1 : Nat) (rest : List Nat)
    (hr : b.rank = c1 :: rest) (hi : b.idx = 0) (hw : b.w = pow10 p) (hk : kfOf s c1 = some (pow10 p)) :
    distBallotStep (fixedArith p) w s b = fcStep (fixedArith p) s b := by
  rw [distBallotStep_first p w s b c1 rest hr hk]
  unfold fcStep
  have htop : b.top = some c1 := by unfold Ballot.top; rw [hr, hi]; rfl
  rw [htop]
  simp only
  have hb : bvote (fixedArith p) b = pow10 p * (b.mult : Int) := by
    unfold bvote; rw [hw]; exact (fixed_lawful p).mulV_ofInt _ _
  rw [hb]
  rfl

/-- every ballot is in its initial position and ranks only candidates that keep everything -/
def AllKeepOne (p : Nat) (s : St Int) (bs : List (Ballot Int)) : Prop :=
  ∀ b ∈ bs, b.idx = 0 ∧ b.w = pow10 p ∧ b.rank ≠ [] ∧ ∀ cid ∈ b.rank, kfOf s cid = some (pow10 p)

theorem kfOf_fcStep (p : Nat) (s : St Int) (b : Ballot Int) (c : Nat) : kfOf (fcStep (fixedArith p) s b) c = kfOf s c := by
  unfold fcStep
  split
  · exact kfOf_addVote (fixedArith p) _ _ _ _
  · rfl

theorem foldl_dist_eq_fc (p : Nat) (w : Bool) (bs : List (Ballot Int)) (s : St Int) (h : AllKeepOne p s bs) :
    bs.foldl (distBallotStep (fixedArith p) w) s = bs.foldl (fcStep (fixedArith p)) s := by
  induction bs generalizing s with
  | nil => rfl
  | cons b bs ih =>
    simp only [List.foldl_cons]
    obtain ⟨hi, hw, hne, hk⟩ := h b (by simp)
    cases hr : b.rank with
    | nil => exact absurd hr hne
    | cons c1 rest =>
      rw [distBallotStep_eq_fcStep p w s b c1 rest hr hi hw (hk c1 (by rw [hr]; simp))]
      apply ih
      intro b' hb'
      obtain ⟨a1, a2, a3, a4⟩ := h b' (by simp [hb'])
      exact ⟨a1, a2, a3, fun cid hc => by rw [kfOf_fcStep]; exact a4 cid hc⟩

/-! ## ids and keep factors through the start of a count -/

section
variable {α : Type} [CommRing α] [LinearOrder α] [IsStrictOrderedRing α]


/-- ids, statuses and keep factors, in order -/
def ksig (s : St α) : List (Nat × CState × Option α) := s.cands.map (fun c => (c.cid, c.st, c.kf))

theorem kfOf_eq_ksig (s : St α) (cid : Nat) :
    kfOf s cid = ((ksig s).find? (fun e => e.1 == cid)).bind (fun e => e.2.2) := by
  unfold kfOf St.cand? ksig
  rw [List.find?_map]
  have : ((fun e : Nat × CState × Option α => e.1 == cid) ∘ fun c : Cand α => (c.cid, c.st, c.kf)) = fun c : Cand α => c.cid == cid := rfl
  rw [this]
  cases List.find? (fun c : Cand α => c.cid == cid) s.cands <;> rfl

theorem kfOf_of_ksig {s t : St α} (h : ksig t = ksig s) (cid : Nat) : kfOf t cid = kfOf s cid := by
  rw [kfOf_eq_ksig, kfOf_eq_ksig, h]

theorem ksig_mapKeep (s : St α) (f : Cand α → Cand α) (hf : ∀ c, (f c).cid = c.cid ∧ (f c).st = c.st ∧ (f c).kf = c.kf) :
    ksig ({ s with cands := s.cands.map f } : St α) = ksig s := by
  unfold ksig
  rw [List.map_map]
  apply List.map_congr_left
  intro c _
  simp only [Function.comp]
  rw [(hf c).1, (hf c).2.1, (hf c).2.2]

theorem ksig_addVote (A : Arith α) (s : St α) (c : Nat) (v : α) : ksig (s.addVote A c v) = ksig s := by
  unfold St.addVote St.upd
  exact ksig_mapKeep s _ (fun x => by split <;> exact ⟨rfl, rfl, rfl⟩)

theorem ksig_foldl_mfcStep (A : Arith α) (bs : List (Ballot α)) (s : St α) : ksig (bs.foldl (mfcStep A) s) = ksig s := by
  induction bs generalizing s with
  | nil => rfl
  | cons b bs ih =>
    simp only [List.foldl_cons]
    rw [ih]
    unfold mfcStep
    split
    · exact ksig_addVote A _ _ _
    · rfl

theorem ksig_logAct (A : Arith α) (s : St α) (tag verb : String) (subj : List Nat) : ksig (s.logAct A tag verb subj) = ksig s := by
  unfold ksig; rw [logAct_cands]

theorem ksig_startDist (A : Arith α) (s : St α) : ksig (startDist A s) = ksig s := by
  unfold startDist zeroActiveVotes St.setResidual
  exact ksig_mapKeep s _ (fun x => by split <;> exact ⟨rfl, rfl, rfl⟩)

/-- the state the first distribution of a Meek / Warren count starts from -/
def meekX (A : Arith α) (s0 : St α) : St α := startDist A ((meekInit A s0).newRound A)

theorem ksig_meekX (A : Arith α) (s0 : St α) (hq : s0.ballotsEq = []) :
    ksig (meekX A s0) = s0.cands.map (fun c => (c.cid, c.st, if c.st == CState.hopeful then some A.one else c.kf)) := by
  unfold meekX
  rw [ksig_startDist]
  unfold St.newRound
  rw [ksig_logAct]
  show ksig (meekInit A s0) = _
  unfold meekInit
  rw [ksig_logAct]
  have e := meekFirstCount_eq A
    (((s0.setVotes (A.ofInt s0.nballots)).setQuota (meekQuota A (s0.setVotes (A.ofInt s0.nballots)))).initKf A.one) hq
  rw [e, ksig_foldl_mfcStep]
  unfold ksig St.initKf
  simp only [List.map_map]
  apply List.map_congr_left
  intro c _
  simp only [Function.comp]
  show ((if (c.st == CState.hopeful) = true then ({ c with kf := some A.one } : Cand α) else c).cid,
        (if (c.st == CState.hopeful) = true then ({ c with kf := some A.one } : Cand α) else c).st,
        (if (c.st == CState.hopeful) = true then ({ c with kf := some A.one } : Cand α) else c).kf) = _
  split <;> rfl

/-- a hopeful candidate keeps everything when the first distribution starts -/
theorem kfOf_meekX (A : Arith α) (s0 : St α) (hq : s0.ballotsEq = []) (hwf : s0.WF) (x : Cand α) (hx : x ∈ s0.cands)
    (hh : x.st = .hopeful) : kfOf (meekX A s0) x.cid = some A.one := by
  rw [kfOf_eq_ksig, ksig_meekX A s0 hq, List.find?_map]
  have hp : ((fun e : Nat × CState × Option α => e.1 == x.cid) ∘
      fun c : Cand α => (c.cid, c.st, if c.st == CState.hopeful then some A.one else c.kf)) = fun c : Cand α => c.cid == x.cid := rfl
  rw [hp]
  have hf : s0.cands.find? (fun c => c.cid == x.cid) = some x := cand?_of_mem hwf hx
  rw [hf]
  simp [hh]

theorem meekX_ballots (A : Arith α) (s0 : St α) (h0 : MInit A s0) :
    (meekX A s0).ballots = s0.ballots := by
  unfold meekX
  show ((meekInit A s0).newRound A).ballots = _
  unfold St.newRound
  rw [logAct_ballots]
  show (meekInit A s0).ballots = _
  unfold meekInit
  rw [logAct_ballots]
  have e := meekFirstCount_eq A
    (((s0.setVotes (A.ofInt s0.nballots)).setQuota (meekQuota A (s0.setVotes (A.ofInt s0.nballots)))).initKf A.one) h0.noEq
  rw [e]
  have : ∀ (bs : List (Ballot α)) (t : St α), (bs.foldl (mfcStep A) t).ballots = t.ballots := by
    intro bs
    induction bs with
    | nil => intro t; rfl
    | cons b bs ih => intro t; simp only [List.foldl_cons]; rw [ih]; unfold mfcStep; split <;> rfl
  rw [this]
  rfl

end

/-! ## the first distribution, in figures (fixed-point arithmetic) -/

theorem foldl_fcStep_residual {α : Type} (A : Arith α) (bs : List (Ballot α)) (s : St α) :
    (bs.foldl (fcStep A) s).residual = s.residual := by
  induction bs generalizing s with
  | nil => rfl
  | cons b bs ih => simp only [List.foldl_cons]; rw [ih]; unfold fcStep; split <;> rfl

theorem foldl_mfcStep_skel (p : Nat) (bs : List (Ballot Int)) (t : St Int) : (bs.foldl (mfcStep (fixedArith p)) t).skel = t.skel := by
  induction bs generalizing t with
  | nil => rfl
  | cons b bs ih =>
    simp only [List.foldl_cons]
    rw [ih]
    unfold mfcStep
    split
    · exact addVote_skel (fixedArith p) _ _ _
    · rfl

theorem foldl_mfcStep_nballots (p : Nat) (bs : List (Ballot Int)) (t : St Int) :
    (bs.foldl (mfcStep (fixedArith p)) t).nballots = t.nballots := by
  induction bs generalizing t with
  | nil => rfl
  | cons b bs ih => simp only [List.foldl_cons]; rw [ih]; unfold mfcStep; split <;> rfl

/-- the state before the first count of the Meek rules -/
def meekY (p : Nat) (s0 : St Int) : St Int :=
  ((s0.setVotes ((fixedArith p).ofInt s0.nballots)).setQuota (meekQuota (fixedArith p) (s0.setVotes ((fixedArith p).ofInt s0.nballots)))).initKf
    (fixedArith p).one

theorem meekInit_eq (p : Nat) (s0 : St Int) (hq : s0.ballotsEq = []) :
    meekInit (fixedArith p) s0 = ((meekY p s0).ballots.foldl (mfcStep (fixedArith p)) (meekY p s0)).logAct (fixedArith p) "begin" "Begin Count" [] := by
  unfold meekInit
  have e := meekFirstCount_eq (fixedArith p) (meekY p s0) hq
  unfold meekY at e ⊢
  rw [e]

theorem meekY_skel (p : Nat) (s0 : St Int) : (meekY p s0).skel = s0.skel := by
  unfold meekY St.initKf St.skel
  simp only [List.map_map]
  apply List.map_congr_left
  intro c _
  simp only [Function.comp]
  split <;> rfl

theorem meekInit_skel (p : Nat) (s0 : St Int) (hq : s0.ballotsEq = []) : (meekInit (fixedArith p) s0).skel = s0.skel := by
  rw [meekInit_eq p s0 hq]
  unfold St.skel
  rw [logAct_cands]
  exact (foldl_mfcStep_skel p _ _).trans (meekY_skel p s0)

theorem meekInit_nballots (p : Nat) (s0 : St Int) (hq : s0.ballotsEq = []) : (meekInit (fixedArith p) s0).nballots = s0.nballots := by
  rw [meekInit_eq p s0 hq]
  have : ∀ (t : St Int) (tag verb : String) (sj : List Nat), (t.logAct (fixedArith p) tag verb sj).nballots = t.nballots := by
    intro t tag verb sj; unfold St.logAct; simp only; split <;> rfl
  rw [this, foldl_mfcStep_nballots]
  rfl

theorem foldl_mfcStep_sc (p : Nat) (bs : List (Ballot Int)) (t : St Int) :
    (bs.foldl (mfcStep (fixedArith p)) t).seats = t.seats ∧ (bs.foldl (mfcStep (fixedArith p)) t).crash = t.crash := by
  induction bs generalizing t with
  | nil => exact ⟨rfl, rfl⟩
  | cons b bs ih =>
    simp only [List.foldl_cons]
    obtain ⟨h1, h2⟩ := ih (mfcStep (fixedArith p) t b)
    have : (mfcStep (fixedArith p) t b).seats = t.seats ∧ (mfcStep (fixedArith p) t b).crash = t.crash := by
      unfold mfcStep; split <;> exact ⟨rfl, rfl⟩
    exact ⟨h1.trans this.1, h2.trans this.2⟩

theorem logAct_sc (p : Nat) (t : St Int) (tag verb : String) (sj : List Nat) :
    (t.logAct (fixedArith p) tag verb sj).seats = t.seats ∧ (t.logAct (fixedArith p) tag verb sj).crash = t.crash := by
  unfold St.logAct; simp only; split <;> exact ⟨rfl, rfl⟩

theorem meekInit_sc (p : Nat) (s0 : St Int) (hq : s0.ballotsEq = []) :
    (meekInit (fixedArith p) s0).seats = s0.seats ∧ (meekInit (fixedArith p) s0).crash = s0.crash := by
  rw [meekInit_eq p s0 hq]
  obtain ⟨a1, a2⟩ := logAct_sc p ((meekY p s0).ballots.foldl (mfcStep (fixedArith p)) (meekY p s0)) "begin" "Begin Count" []
  obtain ⟨b1, b2⟩ := foldl_mfcStep_sc p (meekY p s0).ballots (meekY p s0)
  exact ⟨a1.trans b1, a2.trans b2⟩

/-- what the case hands to a Meek / Warren count, beyond `MInit`: ballots in their initial position, of full weight -/
def FreshBallots (p : Nat) (s0 : St Int) : Prop :=
  ∀ b ∈ s0.ballots, b.idx = 0 ∧ b.w = pow10 p ∧ b.rank ≠ [] ∧ ∀ cid ∈ b.rank, ∃ x ∈ s0.cands, x.cid = cid ∧ x.st = .hopeful

theorem startDist_votes_zero (p : Nat) (s : St Int) (hdead : ∀ c ∈ s.cands, (c.st = .defeated ∨ c.st = .withdrawn) → c.vote = 0) :
    ∀ c ∈ (startDist (fixedArith p) s).cands, c.vote = 0 := by
  intro c' hc'
  unfold startDist zeroActiveVotes St.setResidual at hc'
  obtain ⟨c, hc, rfl⟩ := List.mem_map.1 hc'
  by_cases ha : (c.st == CState.hopeful || c.st == CState.elected) = true
  · rw [if_pos ha]; rfl
  · rw [if_neg ha]
    apply hdead c hc
    cases hs : c.st <;> simp [hs] at ha ⊢

theorem voteOf_zero_of_all (s : St Int) (h : ∀ c ∈ s.cands, c.vote = 0) (d : Nat) : s.voteOf d = 0 := by
  unfold St.voteOf
  cases hc : s.cand? d with
  | none => rfl
  | some c => exact h c (cand?_some_mem hc).1

/-- the first distribution is the first-preference count: tallies, residual, total -/
theorem first_distribution (p : Nat) (w : Bool) (s0 : St Int) (h0 : MInit (fixedArith p) s0) (hf : FreshBallots p s0) :
    let s1 := (meekInit (fixedArith p) s0).newRound (fixedArith p)
    let S2 := distributeVotes (fixedArith p) w s1
    (∀ d, S2.voteOf d = (s0.ballots.map (fun b => if b.top = some d then bvote (fixedArith p) b else 0)).sum)
    ∧ S2.skel = s1.skel
    ∧ activeVotes (fixedArith p) S2 ≤ (s0.nballots : Int) * pow10 p
    ∧ S2.seats = s0.seats ∧ s1.skel = s0.skel := by
  intro s1 S2
  have hA := fixed_lawful p
  have hI1 : MInv (fixedArith p) s1 := (MInv.meekInit (fixedArith p) hA h0).newRound (fixedArith p)
  have hX : startDist (fixedArith p) s1 = meekX (fixedArith p) s0 := rfl
  have hXb : (meekX (fixedArith p) s0).ballots = s0.ballots := meekX_ballots (fixedArith p) s0 h0
  -- every ranked candidate keeps everything
  have hkeep : AllKeepOne p (meekX (fixedArith p) s0) (meekX (fixedArith p) s0).ballots := by
    intro b hb
    rw [hXb] at hb
    obtain ⟨a1, a2, a3, a4⟩ := hf b hb
    refine ⟨a1, a2, a3, ?_⟩
    intro cid hc
    obtain ⟨x, hx, hxc, hxh⟩ := a4 cid hc
    rw [← hxc]
    exact kfOf_meekX (fixedArith p) s0 h0.noEq h0.wf x hx hxh
  have hS2 : S2 = (meekX (fixedArith p) s0).ballots.foldl (fcStep (fixedArith p)) (meekX (fixedArith p) s0) := by
    show distributeVotes (fixedArith p) w s1 = _
    unfold distributeVotes
    have hbe : (distStrict (fixedArith p) w (startDist (fixedArith p) s1)).ballotsEq = [] := by
      rw [distStrict_ballotsEq]; exact hI1.noEq
    rw [distEqual_nil (fixedArith p) w _ hbe, hX]
    unfold distStrict
    exact foldl_dist_eq_fc p w _ _ hkeep
  have hXsk : (meekX (fixedArith p) s0).skel = s1.skel := by rw [← hX]; exact startDist_skel (fixedArith p) s1
  have hwfX : (meekX (fixedArith p) s0).WF := WF_of_skel hXsk.symm hI1.wf
  have hXz : ∀ c ∈ (meekX (fixedArith p) s0).cands, c.vote = 0 := by
    rw [← hX]
    exact startDist_votes_zero p s1 (fun c hc hd => (hI1.dead c hc hd).1)
  -- ranked candidates exist in X
  have hs1sk : s1.skel = s0.skel := by
    show ((meekInit (fixedArith p) s0).newRound (fixedArith p)).skel = _
    unfold St.newRound St.skel
    rw [logAct_cands]
    exact meekInit_skel p s0 h0.noEq
  have hcandX : ∀ b ∈ (meekX (fixedArith p) s0).ballots, ∀ cid ∈ b.rank, ((meekX (fixedArith p) s0).cand? cid).isSome := by
    intro b hb cid hc
    rw [hXb] at hb
    obtain ⟨x, hx, hxc, _⟩ := (hf b hb).2.2.2 cid hc
    rw [cand?_isSome_of_skel (hXsk.trans hs1sk)]
    rw [← hxc, cand?_of_mem h0.wf hx]; rfl
  have hvote : ∀ d, S2.voteOf d = (s0.ballots.map (fun b => if b.top = some d then bvote (fixedArith p) b else 0)).sum := by
    intro d
    rw [hS2, foldl_fcStep_voteOf (fixedArith p) hA (meekX (fixedArith p) s0) d _ _ rfl hcandX, voteOf_zero_of_all _ hXz d, hXb, zero_add]
  have hsk2 : S2.skel = s1.skel := by rw [hS2, foldl_fcStep_skel]; exact hXsk
  have hseats : S2.seats = s0.seats := by
    rw [hS2, foldl_fcStep_seats]
    show ((meekInit (fixedArith p) s0).newRound (fixedArith p)).seats = _
    unfold St.newRound
    rw [(logAct_sc p _ _ _ _).1]
    exact (meekInit_sc p s0 h0.noEq).1
  refine ⟨hvote, hsk2, ?_, hseats, hs1sk⟩
  -- the active total is at most the number of ballots
  have hwf2 : S2.WF := WF_of_skel hsk2.symm hI1.wf
  have hnn : ∀ c ∈ S2.cands, 0 ≤ c.vote := by
    intro c hc
    rw [← voteOf_of_mem hwf2 hc, hvote]
    apply List.sum_nonneg
    intro x hx
    obtain ⟨b, hb, rfl⟩ := List.mem_map.1 hx
    split
    · have hbv : bvote (fixedArith p) b = pow10 p * (b.mult : Int) := by
        unfold bvote; rw [(hf b hb).2.1]; exact hA.mulV_ofInt _ _
      rw [hbv]
      have := pow10_pos p
      positivity
    · exact le_refl _
  have hsum : S2.sumVotes = (s0.nballots : Int) * pow10 p := by
    have hI2 : MInv (fixedArith p) S2 := hI1.toMPre.distribute (fixedArith p) hA w
    have hres : S2.residual = 0 := by
      rw [hS2, foldl_fcStep_residual]
      show (startDist (fixedArith p) s1).residual = 0
      rfl
    have ht := hI2.total
    rw [hres, add_zero] at ht
    rw [ht]
    have : S2.nballots = s0.nballots := by
      rw [hS2, (foldl_fcStep_frame (fixedArith p) _ _).2.2.2.1]
      show ((meekInit (fixedArith p) s0).newRound (fixedArith p)).nballots = _
      have hl : ∀ (t : St Int) (tag verb : String) (sj : List Nat), (t.logAct (fixedArith p) tag verb sj).nballots = t.nballots := by
        intro t tag verb sj; unfold St.logAct; simp only; split <;> rfl
      unfold St.newRound
      rw [hl]
      exact meekInit_nballots p s0 h0.noEq
    rw [this]
    rfl
  rw [← hsum]
  unfold activeVotes
  rw [arith_sum_eq (fixedArith p) hA]
  unfold St.hopeful St.elected St.sumVotes
  rw [List.map_append, List.sum_append]
  apply sum_two_filters_le
  · intro x _ hx
    obtain ⟨h1, h2⟩ := hx
    have e1 : x.st = .hopeful := by simpa using h1
    rw [e1] at h2
    simp at h2
  · exact hnn

end Droop
