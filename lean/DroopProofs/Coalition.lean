import DroopProofs.RunZero
import DroopProofs.RunScot

/-! # C05: coalition bookkeeping for the Gregory rules — definitions and the primitive lemmas

`S` is the coalition (a list of candidate ids), `m` the length of the prefix of a ranking that must be exactly `S`
(as a set).  A *coalition ballot* ranks the members of `S`, in any order, in its first `m` places.

* `Pos s`: every candidate a ballot has passed over (positions before `idx`) is not hopeful.
* `RestX s X`: every ballot rests on a candidate that is hopeful or elected-with-transfer-pending, or on one of `X`
  (the candidates whose papers are about to be moved).
* `Vval s`: the total current value of the coalition ballots.
-/
namespace Droop
variable {α : Type} [CommRing α] [LinearOrder α] [IsStrictOrderedRing α] (A : Arith α)

section Defs
variable (S : List Nat) (m : Nat)

def isVb (r : List Nat) : Bool :=
  (r.take m).all (fun x => S.contains x) && S.all (fun x => (r.take m).contains x)

def Vval (s : St α) : α := (s.ballots.map (fun b => if isVb S m b.rank then bvote A b else 0)).sum
def Vmult (s : St α) : α := (s.ballots.map (fun b => if isVb S m b.rank then ((b.mult : Int) : α) else 0)).sum

def hopS (s : St α) : Nat := (s.cands.filter (fun c => S.contains c.cid && c.st == .hopeful)).length
def elS (s : St α) : Nat := (s.cands.filter (fun c => S.contains c.cid && c.st == .elected)).length
def doneS (s : St α) : Nat := (s.cands.filter (fun c => S.contains c.cid && (c.st == .elected && !c.pending))).length
end Defs

def Pos (s : St α) : Prop :=
  ∀ b ∈ s.ballots, ∀ (j c : Nat), j < b.idx → b.rank[j]? = some c → s.isHopeful c = false

def inScopeId (s : St α) (c : Nat) : Bool :=
  s.cands.any (fun x => x.cid == c && (x.st == .hopeful || (x.st == .elected && x.pending)))

def RestX (s : St α) (X : List Nat) : Prop :=
  ∀ b ∈ s.ballots, ∀ c, b.top = some c → inScopeId s c = true ∨ c ∈ X

/-! ## positions -/

theorem Pos.of_sub {s t : St α} (h : Pos s) (hb : t.ballots = s.ballots)
    (hh : ∀ c, t.isHopeful c = true → s.isHopeful c = true) : Pos t := by
  intro b hbm j c hj hr
  rw [hb] at hbm
  have := h b hbm j c hj hr
  cases hc : t.isHopeful c with
  | false => rfl
  | true => rw [hh c hc] at this; cases this

theorem Pos.of_skel {s t : St α} (h : Pos s) (hb : t.ballots = s.ballots) (hsk : t.skel = s.skel) : Pos t :=
  h.of_sub hb (fun c hc => by rw [← isHopeful_of_skel hsk c]; exact hc)

theorem advanceTo_pos (cont : Nat → Bool) (b : Ballot α) (j c : Nat) (hj : j < (advanceTo cont b).idx)
    (hr : b.rank[j]? = some c) (hge : b.idx ≤ j) : cont c = false := by
  unfold advanceTo at hj
  cases hf : (b.rank.drop b.idx).findIdx? cont with
  | some k =>
    rw [hf] at hj
    simp only at hj
    obtain ⟨hlt, _, hall⟩ := List.findIdx?_eq_some_iff_getElem.1 hf
    have hjk : j - b.idx < k := by omega
    have := hall (j - b.idx) hjk
    have hget : (b.rank.drop b.idx)[j - b.idx]? = some c := by
      rw [List.getElem?_drop]
      have : b.idx + (j - b.idx) = j := by omega
      rw [this]; exact hr
    have hlt2 : j - b.idx < (b.rank.drop b.idx).length := by omega
    have hget' : (b.rank.drop b.idx)[j - b.idx] = c := by
      have := List.getElem?_eq_getElem hlt2
      rw [this] at hget; exact Option.some.inj hget
    rw [hget'] at this
    simpa using this
  | none =>
    have hn := List.findIdx?_eq_none_iff.1 hf
    have hmem : c ∈ b.rank.drop b.idx := by
      have hget : (b.rank.drop b.idx)[j - b.idx]? = some c := by
        rw [List.getElem?_drop]
        have : b.idx + (j - b.idx) = j := by omega
        rw [this]; exact hr
      exact List.mem_of_getElem? hget
    have := hn c hmem
    simpa using this

theorem Pos.transferAll {s : St α} (h : Pos s) (cids : List Nat) (rew : α → α) : Pos (transferAll A s cids rew) := by
  have hsk := transferAll_skel A s cids rew
  intro b' hb' j c hj hr
  rw [isHopeful_of_skel hsk c]
  rw [transferAll_ballots] at hb'
  obtain ⟨b, hb, rfl⟩ := List.mem_map.1 hb'
  unfold moveBallot at hj hr
  cases htop : b.top with
  | none => rw [htop] at hj hr; exact h b hb j c hj hr
  | some d =>
    rw [htop] at hj hr
    simp only at hj hr
    by_cases hc : cids.contains d = true
    · rw [if_pos hc] at hj hr
      rw [advanceTo_rank] at hr
      by_cases hlt : j < b.idx
      · exact h b hb j c hlt hr
      · exact advanceTo_pos (fun cid => s.isHopeful cid) { b with w := rew b.w } j c hj hr (by simpa using hlt)
    · rw [if_neg hc] at hj hr
      exact h b hb j c hj hr

/-- while a member of the coalition is hopeful, every coalition ballot rests on a member of the coalition -/
theorem top_in_S (S : List Nat) (m : Nat) {s : St α} (hp : Pos s) (b : Ballot α) (hb : b ∈ s.ballots)
    (hv : isVb S m b.rank = true) (x : Nat) (hx : x ∈ S) (hxh : s.isHopeful x = true) :
    ∃ c, b.top = some c ∧ c ∈ S := by
  unfold isVb at hv
  simp only [Bool.and_eq_true, List.all_eq_true, List.contains_iff_mem] at hv
  obtain ⟨h1, h2⟩ := hv
  have hxm : x ∈ b.rank.take m := by simpa using h2 x hx
  obtain ⟨j, hjlt, hjx⟩ := List.getElem_of_mem hxm
  have hjm : j < m := by
    have := hjlt; rw [List.length_take] at this; omega
  have hjl : j < b.rank.length := by
    have := hjlt; rw [List.length_take] at this; omega
  have hrj : b.rank[j]? = some x := by
    rw [List.getElem?_eq_getElem hjl]
    rw [List.getElem_take] at hjx
    rw [hjx]
  have hge : b.idx ≤ j := by
    by_contra hlt
    have := hp b hb j x (by omega) hrj
    rw [hxh] at this; cases this
  have hil : b.idx < b.rank.length := by omega
  refine ⟨b.rank[b.idx], ?_, ?_⟩
  · unfold Ballot.top; exact List.getElem?_eq_getElem hil
  · have : b.rank[b.idx] ∈ b.rank.take m := by
      rw [List.mem_take_iff_getElem]
      exact ⟨b.idx, by rw [Nat.lt_min]; exact ⟨by omega, hil⟩, rfl⟩
    simpa using h1 _ this

/-! ## where the ballots rest -/

theorem inScopeId_iff {s : St α} {c : Nat} :
    inScopeId s c = true ↔ ∃ x ∈ s.cands, x.cid = c ∧ (x.st = .hopeful ∨ (x.st = .elected ∧ x.pending = true)) := by
  unfold inScopeId
  rw [List.any_eq_true]
  constructor
  · rintro ⟨x, hx, h⟩
    simp only [Bool.and_eq_true, beq_iff_eq, Bool.or_eq_true] at h
    exact ⟨x, hx, h.1, h.2⟩
  · rintro ⟨x, hx, h1, h2⟩
    refine ⟨x, hx, ?_⟩
    simp only [Bool.and_eq_true, beq_iff_eq, Bool.or_eq_true]
    exact ⟨h1, h2⟩

theorem isHopeful_iff {s : St α} {c : Nat} : s.isHopeful c = true ↔ ∃ x ∈ s.cands, x.cid = c ∧ x.st = .hopeful := by
  unfold St.isHopeful
  rw [List.any_eq_true]
  constructor
  · rintro ⟨x, hx, h⟩
    simp only [Bool.and_eq_true, beq_iff_eq] at h
    exact ⟨x, hx, h.1, h.2⟩
  · rintro ⟨x, hx, h1, h2⟩
    exact ⟨x, hx, by simp [h1, h2]⟩

theorem inScopeId_of_hopeful {s : St α} {c : Nat} (h : s.isHopeful c = true) : inScopeId s c = true := by
  obtain ⟨x, hx, h1, h2⟩ := isHopeful_iff.1 h
  exact inScopeId_iff.2 ⟨x, hx, h1, Or.inl h2⟩

theorem inScopeId_of_skel {s t : St α} (h : t.skel = s.skel) (c : Nat) (hc : inScopeId s c = true) : inScopeId t c = true := by
  obtain ⟨x, hx, h1, h2⟩ := inScopeId_iff.1 hc
  obtain ⟨x', hx', hsk⟩ := mem_of_skel_eq h.symm hx
  refine inScopeId_iff.2 ⟨x', hx', (skel_cid hsk).trans h1, ?_⟩
  rw [(skel_st hsk).1, (skel_st hsk).2]; exact h2

theorem RestX.of_skel {s t : St α} {X : List Nat} (h : RestX s X) (hb : t.ballots = s.ballots) (hsk : t.skel = s.skel) :
    RestX t X := by
  intro b hbm c hc
  rw [hb] at hbm
  rcases h b hbm c hc with h1 | h1
  · exact Or.inl (inScopeId_of_skel hsk c h1)
  · exact Or.inr h1

theorem RestX.weaken {s : St α} {X Y : List Nat} (h : RestX s X) (hxy : ∀ c ∈ X, c ∈ Y) : RestX s Y := by
  intro b hb c hc
  rcases h b hb c hc with h1 | h1
  · exact Or.inl h1
  · exact Or.inr (hxy c h1)

/-- an update of the candidates with id `cid`: papers resting there may now rest on somebody out of scope -/
theorem RestX.upd {s : St α} {X : List Nat} (h : RestX s X) (cid : Nat) (f : Cand α → Cand α) :
    RestX (s.upd cid f) (cid :: X) := by
  intro b hb c hc
  rcases h b hb c hc with h1 | h1
  · by_cases hcc : c = cid
    · exact Or.inr (by simp [hcc])
    · left
      obtain ⟨x, hx, hx1, hx2⟩ := inScopeId_iff.1 h1
      refine inScopeId_iff.2 ⟨x, ?_, hx1, hx2⟩
      exact mem_upd_of_ne hx (by rw [hx1]; exact hcc)
  · exact Or.inr (by simp [h1])

/-- an update that keeps everybody who was in scope in scope -/
theorem RestX.upd_keep {s : St α} {X : List Nat} (h : RestX s X) (cid : Nat) (f : Cand α → Cand α)
    (hcid : ∀ x, (f x).cid = x.cid)
    (hf : ∀ x ∈ s.cands, (x.st = .hopeful ∨ (x.st = .elected ∧ x.pending = true)) →
        ((f x).st = .hopeful ∨ ((f x).st = .elected ∧ (f x).pending = true))) :
    RestX (s.upd cid f) X := by
  intro b hb c hc
  rcases h b hb c hc with h1 | h1
  · left
    obtain ⟨x, hx, hx1, hx2⟩ := inScopeId_iff.1 h1
    by_cases hcc : x.cid = cid
    · exact inScopeId_iff.2 ⟨f x, mem_upd_of_eq hx hcc, (hcid x).trans hx1, hf x hx hx2⟩
    · exact inScopeId_iff.2 ⟨x, mem_upd_of_ne hx hcc, hx1, hx2⟩
  · exact Or.inr h1

/-- moving the papers of `cids` puts every paper back on a continuing candidate -/
theorem RestX.transferAll {s : St α} {cids : List Nat} (h : RestX s cids) (rew : α → α) :
    RestX (transferAll A s cids rew) [] := by
  have hsk := transferAll_skel A s cids rew
  intro b' hb' c hc
  left
  apply inScopeId_of_skel hsk
  rw [transferAll_ballots] at hb'
  obtain ⟨b, hb, rfl⟩ := List.mem_map.1 hb'
  unfold moveBallot at hc
  cases htop : b.top with
  | none => rw [htop] at hc; simp only at hc; rw [htop] at hc; cases hc
  | some d =>
    rw [htop] at hc
    simp only at hc
    by_cases hd : cids.contains d = true
    · rw [if_pos hd] at hc
      exact inScopeId_of_hopeful (advanceTo_top_cont (fun cid => s.isHopeful cid) _ c hc)
    · rw [if_neg hd] at hc
      rw [htop] at hc
      have hcd : d = c := Option.some.inj hc
      rcases h b hb d htop with h1 | h1
      · rw [← hcd]; exact h1
      · exact absurd (by simpa using h1) hd

/-! ## the value of the coalition ballots -/

section Values
variable (S : List Nat) (m : Nat)

theorem Vval_eq (hA : LawfulArith A) (s : St α) :
    Vval A S m s = (s.ballots.map (fun b => if isVb S m b.rank then b.w * ((b.mult : Int) : α) else 0)).sum := by
  unfold Vval
  congr 1
  apply List.map_congr_left
  intro b _
  split
  · exact bvote_eq A hA b
  · rfl

/-- the weight a ballot carries after `transferAll` -/
def movedW (cids : List Nat) (rew : α → α) (b : Ballot α) : α :=
  match b.top with
  | some c => if cids.contains c then rew b.w else b.w
  | none => b.w

theorem moveBallot_w (s : St α) (cids : List Nat) (rew : α → α) (b : Ballot α) :
    (moveBallot s cids rew b).w = movedW cids rew b := by
  unfold moveBallot movedW
  cases htop : b.top with
  | none => rfl
  | some c =>
    simp only
    split
    · rw [advanceTo_w]
    · rfl

theorem Vmult_transferAll (s : St α) (cids : List Nat) (rew : α → α) :
    Vmult S m (transferAll A s cids rew) = Vmult S m s := by
  unfold Vmult
  rw [transferAll_ballots, List.map_map]
  congr 1
  apply List.map_congr_left
  intro b _
  simp only [Function.comp, moveBallot_rank, moveBallot_mult]

theorem Vval_transferAll (hA : LawfulArith A) (s : St α) (cids : List Nat) (rew : α → α) :
    Vval A S m (transferAll A s cids rew)
      = (s.ballots.map (fun b => if isVb S m b.rank then movedW cids rew b * ((b.mult : Int) : α) else 0)).sum := by
  rw [Vval_eq A S m hA, transferAll_ballots, List.map_map]
  congr 1
  apply List.map_congr_left
  intro b _
  simp only [Function.comp, moveBallot_rank, moveBallot_mult, moveBallot_w]

/-- papers moved at unchanged value -/
theorem Vval_transferAll_id (hA : LawfulArith A) (s : St α) (cids : List Nat) :
    Vval A S m (transferAll A s cids id) = Vval A S m s := by
  rw [Vval_transferAll A S m hA, Vval_eq A S m hA]
  congr 1
  apply List.map_congr_left
  intro b _
  have : movedW cids id b = b.w := by
    unfold movedW; split
    · split <;> rfl
    · rfl
  rw [this]

/-- no coalition ballot rests on a candidate of `cids` -/
theorem Vval_transferAll_disjoint (hA : LawfulArith A) (s : St α) (cids : List Nat) (rew : α → α)
    (h : ∀ b ∈ s.ballots, isVb S m b.rank = true → ∀ d, b.top = some d → cids.contains d = false) :
    Vval A S m (transferAll A s cids rew) = Vval A S m s := by
  rw [Vval_transferAll A S m hA, Vval_eq A S m hA]
  congr 1
  apply List.map_congr_left
  intro b hb
  by_cases hv : isVb S m b.rank = true
  · have : movedW cids rew b = b.w := by
      unfold movedW
      cases htop : b.top with
      | none => rfl
      | some d => simp only [h b hb hv d htop, Bool.false_eq_true, if_false]
    rw [this]
  · simp only [hv, Bool.false_eq_true, if_false]

theorem sum_pair_le {β : Type} (l : List β) (f g : β → α) (c d : α) (h : ∀ x ∈ l, f x * c ≤ g x * d) :
    (l.map f).sum * c ≤ (l.map g).sum * d := by
  induction l with
  | nil => simp
  | cons x xs ih =>
    simp only [List.map_cons, List.sum_cons, add_mul]
    exact add_le_add (h x (by simp)) (ih (fun y hy => h y (by simp [hy])))

theorem sum_le_sum' {β : Type} (l : List β) (f g : β → α) (h : ∀ x ∈ l, f x ≤ g x) : (l.map f).sum ≤ (l.map g).sum := by
  induction l with
  | nil => simp
  | cons x xs ih =>
    simp only [List.map_cons, List.sum_cons]
    exact add_le_add (h x (by simp)) (ih (fun y hy => h y (by simp [hy])))

/-- **the surplus of `hc` is transferred**: the coalition's ballots lose at most the quota the candidate keeps, plus `u`
    per ballot (`RewLower`), provided their value resting on `hc` is at most the tally `T` the re-weighting divides by -/
theorem Vval_surplus (hA : LawfulArith A) (u : α) (hu : 0 ≤ u) (rew0 : α → α → α → α) (hlow : RewLower A u rew0)
    (s : St α) (hc : Nat) (sur T : α) (hsur : 0 ≤ sur) (hsT : sur ≤ T) (hT : A.one ≤ T)
    (hw : ∀ b ∈ s.ballots, 0 ≤ b.w)
    (hX : (s.ballots.map (fun b => if isVb S m b.rank && (b.top == some hc) then b.w * ((b.mult : Int) : α) else 0)).sum ≤ T) :
    Vval A S m s ≤ Vval A S m (transferAll A s [hc] (fun w => rew0 w sur T)) + (T - sur) + u * Vmult S m s := by
  have hTpos : 0 < T := lt_of_lt_of_le hA.one_pos hT
  set a : Ballot α → α := fun b => if isVb S m b.rank && (b.top == some hc) then b.w * ((b.mult : Int) : α) else 0 with ha
  set a' : Ballot α → α := fun b => if isVb S m b.rank && (b.top == some hc) then rew0 b.w sur T * ((b.mult : Int) : α) else 0 with ha'
  set mm : Ballot α → α := fun b => if isVb S m b.rank && (b.top == some hc) then ((b.mult : Int) : α) else 0 with hmm
  set r : Ballot α → α := fun b => if isVb S m b.rank && !(b.top == some hc) then b.w * ((b.mult : Int) : α) else 0 with hr
  have hmpos : ∀ b : Ballot α, (0 : α) ≤ ((b.mult : Int) : α) := fun b => by exact_mod_cast Nat.zero_le _
  -- the two totals, split into the part resting on `hc` and the rest
  have e1 : Vval A S m s = (s.ballots.map a).sum + (s.ballots.map r).sum := by
    rw [Vval_eq A S m hA, ← sum_map_add']
    congr 1
    apply List.map_congr_left
    intro b _
    simp only [ha, hr]
    by_cases hv : isVb S m b.rank = true <;> by_cases ht : (b.top == some hc) = true <;> simp [hv, ht]
  have e2 : Vval A S m (transferAll A s [hc] (fun w => rew0 w sur T)) = (s.ballots.map a').sum + (s.ballots.map r).sum := by
    rw [Vval_transferAll A S m hA, ← sum_map_add']
    congr 1
    apply List.map_congr_left
    intro b _
    simp only [ha', hr]
    by_cases hv : isVb S m b.rank = true
    · by_cases ht : (b.top == some hc) = true
      · have htop : b.top = some hc := by simpa using ht
        have : movedW [hc] (fun w => rew0 w sur T) b = rew0 b.w sur T := by
          unfold movedW; rw [htop]; simp
        simp [hv, ht, this]
      · have : movedW [hc] (fun w => rew0 w sur T) b = b.w := by
          unfold movedW
          cases htop : b.top with
          | none => rfl
          | some d =>
            have hne : d ≠ hc := by intro e; rw [htop, e] at ht; simp at ht
            simp [hne]
        simp [hv, ht, this]
    · simp [hv]
  -- the re-weighting law, summed
  have hsum : (s.ballots.map a).sum * sur ≤ (s.ballots.map (fun b => a' b + u * mm b)).sum * T := by
    apply sum_pair_le
    intro b hb
    simp only [ha, ha', hmm]
    by_cases hc' : (isVb S m b.rank && (b.top == some hc)) = true
    · simp only [hc', if_true]
      have := hlow b.w sur T (hw b hb) hsur hT
      have h2 := mul_le_mul_of_nonneg_right this (hmpos b)
      calc b.w * ((b.mult : Int) : α) * sur = b.w * sur * ((b.mult : Int) : α) := by ring
        _ ≤ (rew0 b.w sur T + u) * T * ((b.mult : Int) : α) := h2
        _ = (rew0 b.w sur T * ((b.mult : Int) : α) + u * ((b.mult : Int) : α)) * T := by ring
    · simp [hc']
  rw [sum_map_add'] at hsum
  have hmul : (s.ballots.map (fun b => u * mm b)).sum = u * (s.ballots.map mm).sum := by
    induction s.ballots with
    | nil => simp
    | cons b bs ih => simp only [List.map_cons, List.sum_cons, ih]; ring
  rw [hmul] at hsum
  have hM : (s.ballots.map mm).sum ≤ Vmult S m s := by
    unfold Vmult
    apply sum_le_sum'
    intro b _
    simp only [hmm]
    by_cases hv : isVb S m b.rank = true <;> by_cases ht : (b.top == some hc) = true <;> simp [hv, ht, hmpos b]
  have hX' : (s.ballots.map a).sum ≤ T := hX
  set X := (s.ballots.map a).sum
  set X' := (s.ballots.map a').sum
  set M := (s.ballots.map mm).sum
  have hXpos : 0 ≤ X := by
    apply List.sum_nonneg
    intro x hx
    obtain ⟨b, hb, rfl⟩ := List.mem_map.1 hx
    simp only [ha]
    split
    · exact mul_nonneg (hw b hb) (hmpos b)
    · exact le_refl _
  have hkey : (X - X' - u * M) * T ≤ (T - sur) * T := by
    have h1 : (X - X' - u * M) * T = X * T - (X' + u * M) * T := by ring
    have h2 : X * T - (X' + u * M) * T ≤ X * T - X * sur := by linarith
    have h3 : X * T - X * sur = X * (T - sur) := by ring
    have h4 : X * (T - sur) ≤ T * (T - sur) := mul_le_mul_of_nonneg_right hX' (sub_nonneg.2 hsT)
    calc (X - X' - u * M) * T = X * T - (X' + u * M) * T := h1
      _ ≤ X * T - X * sur := h2
      _ = X * (T - sur) := h3
      _ ≤ T * (T - sur) := h4
      _ = (T - sur) * T := by ring
  have hfin : X - X' - u * M ≤ T - sur := le_of_mul_le_mul_right hkey hTpos
  have huM : u * M ≤ u * Vmult S m s := mul_le_mul_of_nonneg_left hM hu
  rw [e1, e2]
  linarith

end Values

/-! ## where the coalition's value rests, and the two counting arguments -/

section Key
variable (S : List Nat) (m : Nat)

def inSc (c : Cand α) : Bool := c.st == .hopeful || (c.st == .elected && c.pending)

theorem length_filter_le_of_imp {β : Type} (l : List β) (p q : β → Bool) (h : ∀ x ∈ l, p x = true → q x = true) :
    (l.filter p).length ≤ (l.filter q).length := by
  induction l with
  | nil => simp
  | cons x xs ih =>
    have ih' := ih (fun y hy => h y (by simp [hy]))
    simp only [List.filter_cons]
    by_cases hp : p x = true
    · have hq := h x (by simp) hp
      simp only [hp, hq, if_true, List.length_cons]; omega
    · simp only [hp, Bool.false_eq_true, if_false]
      split
      · simp only [List.length_cons]; omega
      · exact ih'

theorem sum_le_card_mul (l : List (Cand α)) (q : α) (h : ∀ c ∈ l, c.vote ≤ q) :
    (l.map (·.vote)).sum ≤ (l.length : α) * q := by
  induction l with
  | nil => simp
  | cons x xs ih =>
    simp only [List.length_cons, List.map_cons, List.sum_cons]
    have := ih (fun c hc => h c (by simp [hc]))
    have hx := h x (by simp)
    push_cast
    linarith

theorem Vmult_nonneg (s : St α) : 0 ≤ Vmult S m s := by
  unfold Vmult
  apply List.sum_nonneg
  intro x hx
  obtain ⟨b, _, rfl⟩ := List.mem_map.1 hx
  split
  · exact_mod_cast Nat.zero_le _
  · exact le_refl _

/-- the coalition's value rests on the coalition's continuing candidates (while one of them is hopeful) -/
theorem Vval_le_inscope (hA : LawfulArith A) {s : St α} (hI : Inv A s) (hp : Pos s) (hr : RestX s [])
    (hh : 1 ≤ hopS S s) :
    Vval A S m s ≤ ((s.cands.filter (fun c => S.contains c.cid && inSc c)).map (·.vote)).sum := by
  set LSP := s.cands.filter (fun c => S.contains c.cid && inSc c) with hLSP
  have hnd : (LSP.map (·.cid)).Nodup := List.Nodup.sublist (List.Sublist.map _ List.filter_sublist) hI.wf
  -- a hopeful member of the coalition
  obtain ⟨x, hxS, hxh⟩ : ∃ x, x ∈ S ∧ s.isHopeful x = true := by
    unfold hopS at hh
    have hne : s.cands.filter (fun c => S.contains c.cid && c.st == .hopeful) ≠ [] := by
      intro e; rw [e] at hh; simp at hh
    obtain ⟨c, hc⟩ := List.exists_mem_of_ne_nil _ hne
    rw [List.mem_filter] at hc
    simp only [Bool.and_eq_true, List.contains_iff_mem, beq_iff_eq] at hc
    exact ⟨c.cid, hc.2.1, isHopeful_iff.2 ⟨c, hc.1, rfl, hc.2.2⟩⟩
  set f : Ballot α → α := fun b => if isVb S m b.rank then b.w * ((b.mult : Int) : α) else 0 with hf
  have hfpos : ∀ b ∈ s.ballots, 0 ≤ f b := by
    intro b hb
    simp only [hf]
    split
    · exact mul_nonneg (hI.wpos b hb) (by exact_mod_cast Nat.zero_le _)
    · exact le_refl _
  rw [Vval_eq A S m hA]
  have e1 : s.ballots.map f = s.ballots.map (fun b => match b.top with
      | some c => if c ∈ LSP.map (·.cid) then f b else 0
      | none => 0) := by
    apply List.map_congr_left
    intro b hb
    by_cases hv : isVb S m b.rank = true
    · obtain ⟨c0, hc0, hc0S⟩ := top_in_S S m hp b hb hv x hxS hxh
      rcases hr b hb c0 hc0 with h1 | h1
      · obtain ⟨y, hy, hy1, hy2⟩ := inScopeId_iff.1 h1
        have hyL : y ∈ LSP := by
          rw [hLSP, List.mem_filter]
          refine ⟨hy, ?_⟩
          simp only [Bool.and_eq_true, List.contains_iff_mem, inSc, Bool.or_eq_true, beq_iff_eq]
          exact ⟨by rw [hy1]; exact hc0S, hy2⟩
        have hmem : c0 ∈ LSP.map (·.cid) := List.mem_map.2 ⟨y, hyL, hy1⟩
        rw [hc0]; simp only [hmem, if_true]
      · cases h1
    · have : f b = 0 := by simp only [hf, hv, Bool.false_eq_true, if_false]
      rw [this]
      split
      · split <;> rfl
      · rfl
  have : (s.ballots.map (fun b => if isVb S m b.rank then b.w * ((b.mult : Int) : α) else 0)) = s.ballots.map f := rfl
  rw [this, e1]
  refine le_trans (le_of_eq (sum_by_source s.ballots f (LSP.map (·.cid)) hnd)) ?_
  rw [List.map_map]
  apply sum_le_sum'
  intro c hc
  simp only [Function.comp]
  have hcm : c ∈ s.cands ∧ (S.contains c.cid && inSc c) = true := by rw [hLSP, List.mem_filter] at hc; exact hc
  have hsc : c.inScope := by
    have := hcm.2
    simp only [Bool.and_eq_true, inSc, Bool.or_eq_true, beq_iff_eq] at this
    exact this.2
  rw [hI.i1 c hcm.1 hsc, tally_explicit A hA]
  apply sum_le_sum'
  intro b hb
  by_cases ht : b.top = some c.cid
  · simp only [ht, if_true, hf]
    split
    · exact le_refl _
    · exact mul_nonneg (hI.wpos b hb) (by exact_mod_cast Nat.zero_le _)
  · simp only [ht, if_false]; exact le_refl _

/-- **single exclusions are safe for the coalition**: in a round with no surplus pending and every hopeful at or below
    the quota, while the coalition still has a hopeful member, more than `k` of its members are hopeful or elected -/
theorem alive_gt (hA : LawfulArith A) (u : α) (hu : 0 ≤ u) {s : St α} (hI : Inv A s) (hp : Pos s) (hr : RestX s [])
    (hpend : s.pendingL = []) (hbelow : ∀ c ∈ s.hopeful, c.vote ≤ s.quota) (hh : 1 ≤ hopS S s) (k : Nat)
    (hD2 : Vmult S m s * A.one ≤ Vval A S m s + (doneS S s : α) * (s.quota + u * Vmult S m s))
    (hbig : (k : α) * s.quota + (s.cands.length : α) * (u * Vmult S m s) < Vmult S m s * A.one) :
    k < hopS S s + elS S s := by
  have h1 := Vval_le_inscope A S m hA hI hp hr hh
  have hnV := Vmult_nonneg S m s
  -- without pending candidates, in scope = hopeful
  have hfil : s.cands.filter (fun c => S.contains c.cid && inSc c) = s.cands.filter (fun c => S.contains c.cid && c.st == .hopeful) := by
    apply List.filter_congr
    intro c hc
    by_cases hcS : S.contains c.cid = true
    · simp only [hcS, Bool.true_and, inSc]
      cases hst : c.st <;> simp
      by_contra hpe
      have : c ∈ s.pendingL := by
        unfold St.pendingL; rw [List.mem_filter]
        exact ⟨hc, by simp [hst]; simpa using hpe⟩
      rw [hpend] at this; cases this
    · have hn : c.cid ∉ S := by simpa using hcS
      simp [hn]
  rw [hfil] at h1
  have h2 : ((s.cands.filter (fun c => S.contains c.cid && c.st == .hopeful)).map (·.vote)).sum ≤ (hopS S s : α) * s.quota := by
    unfold hopS
    apply sum_le_card_mul
    intro c hc
    rw [List.mem_filter] at hc
    apply hbelow c
    rw [mem_hopeful]
    refine ⟨hc.1, ?_⟩
    have := hc.2; simp only [Bool.and_eq_true, beq_iff_eq] at this; exact this.2
  have hde : doneS S s ≤ elS S s := by
    unfold doneS elS
    apply length_filter_le_of_imp
    intro c _ h
    simp only [Bool.and_eq_true] at h ⊢
    exact ⟨h.1, h.2.1⟩
  have hdN : elS S s ≤ s.cands.length := by unfold elS; exact List.length_filter_le _ _
  have hq := hI.qpos
  have hunV : 0 ≤ u * Vmult S m s := mul_nonneg hu hnV
  have c1 : ((doneS S s : Nat) : α) ≤ ((elS S s : Nat) : α) := by exact_mod_cast hde
  have c2 : ((elS S s : Nat) : α) ≤ ((s.cands.length : Nat) : α) := by exact_mod_cast hdN
  have c3 : (doneS S s : α) * (s.quota + u * Vmult S m s) ≤ (elS S s : α) * s.quota + (s.cands.length : α) * (u * Vmult S m s) := by
    have e : (doneS S s : α) * (s.quota + u * Vmult S m s) = (doneS S s : α) * s.quota + (doneS S s : α) * (u * Vmult S m s) := by ring
    rw [e]
    exact add_le_add (mul_le_mul_of_nonneg_right c1 (le_of_lt hq)) (mul_le_mul_of_nonneg_right (le_trans c1 c2) hunV)
  have hfin : (k : α) * s.quota < ((hopS S s + elS S s : Nat) : α) * s.quota := by
    push_cast
    nlinarith
  have := lt_of_mul_lt_mul_right hfin (le_of_lt hq)
  exact_mod_cast this

theorem sum_two_filters_le (l : List (Cand α)) (pA pB : Cand α → Bool)
    (hdis : ∀ c ∈ l, ¬ (pA c = true ∧ pB c = true)) (hpos : ∀ c ∈ l, 0 ≤ c.vote) :
    ((l.filter pA).map (·.vote)).sum + ((l.filter pB).map (·.vote)).sum ≤ (l.map (·.vote)).sum := by
  induction l with
  | nil => simp
  | cons x xs ih =>
    have ih' := ih (fun c hc => hdis c (by simp [hc])) (fun c hc => hpos c (by simp [hc]))
    have hx := hpos x (by simp)
    have hd := hdis x (by simp)
    simp only [List.filter_cons, List.map_cons, List.sum_cons]
    by_cases ha : pA x = true
    · have hb : pB x = false := by
        cases hb : pB x with
        | false => rfl
        | true => exact absurd ⟨ha, hb⟩ hd
      simp only [ha, hb, if_true, Bool.false_eq_true, if_false, List.map_cons, List.sum_cons]
      linarith
    · have ha' : pA x = false := by simpa using ha
      by_cases hb : pB x = true
      · simp only [ha', hb, if_true, Bool.false_eq_true, if_false, List.map_cons, List.sum_cons]
        linarith
      · have hb' : pB x = false := by simpa using hb
        simp only [ha', hb', Bool.false_eq_true, if_false]
        linarith

theorem length_filter_split {β : Type} (l : List β) (p q : β → Bool) :
    (l.filter p).length = (l.filter (fun c => p c && q c)).length + (l.filter (fun c => p c && !q c)).length := by
  induction l with
  | nil => simp
  | cons x xs ih =>
    simp only [List.filter_cons]
    cases hp : p x <;> cases hq : q x <;> simp [ih] <;> omega

/-- **all seats taken**: while the coalition still has a hopeful member, at least `k` of its members are elected -/
theorem elS_ge_of_full (hA : LawfulArith A) (u : α) (hu : 0 ≤ u) {s : St α} (hI : Inv A s) (hE : ElectedHoldQuota s)
    (hD : DroopQuota A s) (hp : Pos s) (hr : RestX s []) (hh : 1 ≤ hopS S s) (k : Nat)
    (hD2 : Vmult S m s * A.one ≤ Vval A S m s + (doneS S s : α) * (s.quota + u * Vmult S m s))
    (hbig : (k : α) * s.quota + (s.cands.length : α) * (u * Vmult S m s) < Vmult S m s * A.one)
    (hfull : s.seats ≤ nEl s) : k ≤ elS S s := by
  have h1 := Vval_le_inscope A S m hA hI hp hr hh
  have hnV := Vmult_nonneg S m s
  have hq := hI.qpos
  have hcnt1 : nEl s = (s.cands.filter (fun c => c.st == .elected && !(S.contains c.cid && c.pending))).length
      + (s.cands.filter (fun c => c.st == .elected && (S.contains c.cid && c.pending))).length := by
    unfold nEl St.elected
    rw [length_filter_split s.cands (fun c => c.st == .elected) (fun c => S.contains c.cid && c.pending)]
    omega
  set pA : Cand α → Bool := fun c => c.st == .elected && !(S.contains c.cid && c.pending) with hpA
  set pB : Cand α → Bool := fun c => S.contains c.cid && inSc c with hpB
  have hsum := sum_two_filters_le s.cands pA pB (by
    intro c _ h
    simp only [hpA, hpB, inSc, Bool.and_eq_true, Bool.not_eq_true', Bool.or_eq_true, beq_iff_eq, Bool.and_eq_false_iff] at h
    obtain ⟨⟨he, hn⟩, hS, hsc⟩ := h
    rcases hsc with hsc | hsc
    · rw [he] at hsc; cases hsc
    · rcases hn with hn | hn
      · rw [hS] at hn; cases hn
      · rw [hsc.2] at hn; cases hn) hI.vpos
  have hA1 : ((s.cands.filter pA).length : α) * s.quota ≤ ((s.cands.filter pA).map (·.vote)).sum := by
    apply sum_ge_card_mul
    intro c hc
    rw [List.mem_filter] at hc
    have := hc.2; simp only [hpA, Bool.and_eq_true, beq_iff_eq] at this
    exact hE c hc.1 this.1
  have hcons : s.sumVotes ≤ ((s.nballots : Int) : α) * A.one := by
    have := hI.cons; unfold St.total at this; linarith [hI.epos]
  unfold St.sumVotes at hcons
  -- counting
  have hcnt2 : elS S s = (s.cands.filter (fun c => c.st == .elected && (S.contains c.cid && c.pending))).length + doneS S s := by
    unfold elS doneS
    rw [length_filter_split s.cands (fun c => S.contains c.cid && c.st == .elected) (fun c => c.pending)]
    congr 1
    · congr 1
      apply List.filter_congr
      intro c _
      cases S.contains c.cid <;> cases (c.st == CState.elected) <;> cases c.pending <;> rfl
    · congr 1
      apply List.filter_congr
      intro c _
      cases S.contains c.cid <;> cases (c.st == CState.elected) <;> cases c.pending <;> rfl
  have hdN : doneS S s ≤ s.cands.length := by unfold doneS; exact List.length_filter_le _ _
  set a := (s.cands.filter pA).length
  set d := doneS S s
  have hunV : 0 ≤ u * Vmult S m s := mul_nonneg hu hnV
  have c2 : ((d : Nat) : α) ≤ ((s.cands.length : Nat) : α) := by exact_mod_cast hdN
  unfold DroopQuota at hD
  have hfin : ((a + k : Nat) : α) * s.quota < ((s.seats + 1 + d : Nat) : α) * s.quota := by
    push_cast
    have e3 : (d : α) * (u * Vmult S m s) ≤ (s.cands.length : α) * (u * Vmult S m s) := mul_le_mul_of_nonneg_right c2 hunV
    have hD' : ((s.nballots : Int) : α) * A.one < ((s.seats : α) + 1) * s.quota := by
      have := hD; rw [Nat.cast_add, Nat.cast_one] at this; exact this
    nlinarith
  have hlt := lt_of_mul_lt_mul_right hfin (le_of_lt hq)
  have hlt' : a + k < s.seats + 1 + d := by exact_mod_cast hlt
  omega

end Key

end Droop
