import DroopProofs.Seats

/-! # ElectedHoldQuota is a loop invariant of wigm / wigm-prf, hence elected ≤ seats at every loop state -/
namespace Droop
variable {α : Type} [CommRing α] [LinearOrder α] [IsStrictOrderedRing α] (A : Arith α)

theorem EHQ.of_same {s t : St α} (h : ElectedHoldQuota s) (hc : t.cands = s.cands) (hq : t.quota = s.quota) :
    ElectedHoldQuota t := by
  intro c hc' he; rw [hq]; exact h c (hc ▸ hc') he

theorem EHQ.logAct {s : St α} (h : ElectedHoldQuota s) (tag verb : String) (subj : List Nat) :
    ElectedHoldQuota (s.logAct A tag verb subj) :=
  EHQ.of_same h (logAct_cands A s tag verb subj) (logAct_quota A s tag verb subj)

theorem EHQ.newRound {s : St α} (h : ElectedHoldQuota s) : ElectedHoldQuota (s.newRound A) := by
  unfold St.newRound
  exact EHQ.logAct A (EHQ.of_same (t := { s with round := s.round + 1 }) h rfl rfl) _ _ _

theorem EHQ.upd_status {s : St α} (h : ElectedHoldQuota s) (cid : Nat) (f : Cand α → Cand α) (hf : statusOnly f)
    (hnew : ∀ c ∈ s.cands, c.cid = cid → (f c).st = .elected → s.quota ≤ c.vote) :
    ElectedHoldQuota (s.upd cid f) := by
  intro c' hc' he
  obtain ⟨c, hc, rfl⟩ := mem_upd.1 hc'
  show s.quota ≤ _
  by_cases hcid : (c.cid == cid) = true
  · simp only [hcid, if_true] at he ⊢
    rw [(hf c).2]; exact hnew c hc (by simpa using hcid) he
  · have hf : (c.cid == cid) = false := by simpa using hcid
    simp only [hf, Bool.false_eq_true, if_false] at he ⊢
    exact h c hc he

theorem EHQ.elect {s : St α} (h : ElectedHoldQuota s) (cid : Nat) (verb : String) (p : Bool)
    (hq : ∀ c ∈ s.cands, c.cid = cid → s.quota ≤ c.vote) : ElectedHoldQuota (s.elect A cid verb p) := by
  unfold St.elect
  apply EHQ.logAct
  exact EHQ.upd_status h cid _ (fun c => ⟨rfl, rfl⟩) (fun c hc hcid _ => hq c hc hcid)

theorem EHQ.defeat {s : St α} (h : ElectedHoldQuota s) (cid : Nat) (verb : String) :
    ElectedHoldQuota (s.defeat A cid verb) := by
  unfold St.defeat
  apply EHQ.logAct
  exact EHQ.upd_status h cid _ (fun c => ⟨rfl, rfl⟩) (fun c _ _ he => by simp at he)

theorem EHQ.unpendLog {s : St α} (h : ElectedHoldQuota s) (cid : Nat) (verb : String) :
    ElectedHoldQuota (s.unpendLog A cid verb) := by
  unfold St.unpendLog
  apply EHQ.logAct
  exact EHQ.upd_status h cid _ (fun c => ⟨rfl, rfl⟩) (fun c hc _ he => h c hc he)

theorem EHQ.breakTie {s : St α} (h : ElectedHoldQuota s) (tied : List (Cand α)) (verb : String) :
    ElectedHoldQuota (Droop.breakTie A s tied verb).1 := by
  obtain ⟨h1, _, _, h4, _⟩ := breakTie_frame A s tied verb
  exact EHQ.of_same h h1 h4

/-- after `transferAll` followed by `setVote cid v` with `quota ≤ v`: every elected candidate still holds a quota -/
theorem EHQ.transferAll_setVote (hA : LawfulArith A) {s : St α} (hI : Inv A s) (h : ElectedHoldQuota s)
    (cids : List Nat) (rew : α → α) (hr : ∀ b ∈ s.ballots, 0 ≤ rew b.w) (cid : Nat) (v : α) (hv : s.quota ≤ v) :
    ElectedHoldQuota ((transferAll A s cids rew).setVote cid v) := by
  have hskel := transferAll_skel A s cids rew
  have hq : (transferAll A s cids rew).quota = s.quota := transferAll_quota A s cids rew
  have hwf' : (transferAll A s cids rew).WF := WF_of_skel hskel.symm hI.wf
  intro c' hc' he
  show (transferAll A s cids rew).quota ≤ _
  rw [hq]
  obtain ⟨c1, hc1, rfl⟩ := mem_upd.1 hc'
  by_cases hcid : (c1.cid == cid) = true
  · simp only [hcid, if_true]; exact hv
  · have hf : (c1.cid == cid) = false := by simpa using hcid
    simp only [hf, Bool.false_eq_true, if_false] at he ⊢
    obtain ⟨c, hc, hsk⟩ := mem_of_skel_eq hskel hc1
    have h1 := voteOf_of_mem hwf' hc1
    have h2 := voteOf_of_mem hI.wf hc
    have h3 := transferAll_voteOf A (lawfulAdd_of hA) s hI.bwf cids rew c1.cid
    rw [h1, ← skel_cid hsk, h2] at h3
    rw [h3]
    have hce : c.st = .elected := (skel_st hsk).1.trans he
    have hnn : 0 ≤ (s.ballots.map (contrib A s cids rew c.cid)).sum :=
      sum_nonneg' _ _ (fun b hb => contrib_nonneg A hA s cids rew c.cid b (hr b hb))
    linarith [h c hc hce]

theorem EHQ.transferSurplus (hA : LawfulArith A) (rew0 : α → α → α → α) (hrew0 : RewLaw rew0) {s : St α} (hI : Inv A s)
    (h : ElectedHoldQuota s) (x : Cand α) (verb : String) (hq : s.quota ≤ x.vote) :
    ElectedHoldQuota (Droop.transferSurplus A s x rew0 verb) := by
  unfold Droop.transferSurplus
  simp only [hA.sub_eq]
  apply EHQ.logAct
  have hv : 0 < x.vote := lt_of_lt_of_le hI.qpos hq
  have hsur : 0 ≤ x.vote - s.quota := sub_nonneg.2 hq
  have hr : ∀ b ∈ s.ballots, 0 ≤ rew0 b.w (x.vote - s.quota) x.vote :=
    fun b hb => (hrew0 b.w _ _ (hI.wpos b hb) hsur hv).1
  have := EHQ.transferAll_setVote A hA hI h [x.cid] (fun w => rew0 w (x.vote - s.quota) x.vote) hr x.cid s.quota (le_refl _)
  rw [transferAll_quota]
  exact this

theorem EHQ.transferDefeated1 (hA : LawfulArith A) {s : St α} (hI : Inv A s) (h : ElectedHoldQuota s) (x : Cand α)
    (verb : String) (hx : x ∈ s.cands) (hne : x.st ≠ .elected) :
    ElectedHoldQuota (Droop.transferDefeated A s [x.cid] verb) := by
  unfold Droop.transferDefeated
  simp only [List.foldl_cons, List.foldl_nil]
  apply EHQ.logAct
  -- the candidate whose vote is zeroed is not elected, so the requirement is vacuous for it
  have hskel := transferAll_skel A s [x.cid] id
  have hq : (transferAll A s [x.cid] id).quota = s.quota := transferAll_quota A s _ _
  have hwf' : (transferAll A s [x.cid] id).WF := WF_of_skel hskel.symm hI.wf
  intro c' hc' he
  show (transferAll A s [x.cid] id).quota ≤ _
  rw [hq]
  obtain ⟨c1, hc1, rfl⟩ := mem_upd.1 hc'
  obtain ⟨c, hc, hsk⟩ := mem_of_skel_eq hskel hc1
  by_cases hcid : (c1.cid == x.cid) = true
  · exfalso
    simp only [hcid, if_true] at he
    have hcx : c = x := nodup_cid_eq hI.wf hc hx ((skel_cid hsk).trans (by simpa using hcid))
    have : c1.st = .elected := he
    rw [← (skel_st hsk).1, hcx] at this
    exact hne this
  · have hf : (c1.cid == x.cid) = false := by simpa using hcid
    simp only [hf, Bool.false_eq_true, if_false] at he ⊢
    have h1 := voteOf_of_mem hwf' hc1
    have h2 := voteOf_of_mem hI.wf hc
    have h3 := transferAll_voteOf A (lawfulAdd_of hA) s hI.bwf [x.cid] id c1.cid
    rw [h1, ← skel_cid hsk, h2] at h3
    rw [h3]
    have hce : c.st = .elected := (skel_st hsk).1.trans he
    have hnn : 0 ≤ (s.ballots.map (contrib A s [x.cid] id c.cid)).sum :=
      sum_nonneg' _ _ (fun b hb => contrib_nonneg A hA s [x.cid] id c.cid b (hI.wpos b hb))
    linarith [h c hc hce]

end Droop
