import DroopProofs.MonotoneRun
import DroopProofs.TerminateRun
import DroopProofs.InvCfer

/-! # Run-level tools shared by the Scottish, CfER and Minneapolis drivers

* `loopN_total'` — progress is demanded only of rounds that continue (`Flow.cont`); a round that breaks ends the loop.
* `loopN_exit_brk` — a `while True` loop that returns without the crash flag returned from a round that broke.
* `foldl_hopefuls` — induction over "for c in <distinct hopeful candidates>: op(c)".
* counts after electing / defeating a list of hopeful candidates one by one.
* `Good` — the three per-state invariants in one bundle. -/
namespace Droop
variable {α : Type} [CommRing α] [LinearOrder α] [IsStrictOrderedRing α] (A : Arith α)

theorem loopN_total' (P : St α → Prop) (guard : St α → Bool) (body : St α → St α × Flow)
    (hP : ∀ s, P s → guard s = true → P (body s).1)
    (hprog : ∀ s, P s → guard s = true → (body s).2 = .cont →
      mu (body s).1 < mu s ∨ (body s).1.crash.isSome = true) :
    ∀ (fuel : Nat) (s : St α), P s → 1 ≤ fuel → (s.crash.isSome = true ∨ mu s + 2 ≤ fuel) →
      ∃ t, loopN guard body fuel s = some t := by
  intro fuel
  induction fuel with
  | zero => intro s _ h1 _; omega
  | succ n ih =>
    intro s hPs _ hm
    unfold loopN
    by_cases hc : s.crash.isSome = true
    · exact ⟨s, by simp [hc]⟩
    · have hmu : mu s + 2 ≤ n + 1 := by
        rcases hm with h | h
        · exact absurd h hc
        · exact h
      by_cases hg : guard s = true
      · simp only [hc, hg, if_true]
        have hP' := hP s hPs hg
        have hpr := hprog s hPs hg
        cases hbody : body s with
        | mk s' fl =>
          rw [hbody] at hP' hpr
          cases fl with
          | brk => exact ⟨s', rfl⟩
          | cont =>
            apply ih s' hP' (by omega)
            rcases hpr rfl with h | h
            · right; simp only at h; omega
            · left; exact h
      · exact ⟨s, by simp [hc, hg]⟩

/-- a loop returns its start state (crash flag up, or guard false), or the result of a round that broke, or nothing;
    an invariant of the rounds holds at the state the last round started from -/
theorem loopN_exit (P : St α → Prop) (guard : St α → Bool) (body : St α → St α × Flow)
    (hb : ∀ s, P s → guard s = true → P (body s).1) :
    ∀ (fuel : Nat) (s t : St α), P s → loopN guard body fuel s = some t →
      t.crash.isSome = true ∨ guard t = false ∨ ∃ s', P s' ∧ guard s' = true ∧ body s' = (t, .brk) := by
  intro fuel
  induction fuel with
  | zero => intro s t _ h; simp [loopN] at h
  | succ n ih =>
    intro s t hP h
    unfold loopN at h
    by_cases hc : s.crash.isSome = true
    · simp [hc] at h; cases h; left; exact hc
    · by_cases hg : guard s = true
      · simp only [hc, hg, if_true] at h
        have hP' := hb s hP hg
        cases hbody : body s with
        | mk s' fl =>
          rw [hbody] at h hP'
          cases fl with
          | cont => exact ih _ _ hP' h
          | brk => simp at h; cases h; right; right; exact ⟨s, hP, hg, hbody⟩
      · simp [hc, hg] at h; cases h; right; left; simpa using hg

/-- "for w in ws: s = op(s, w)" over distinct hopeful candidates, where `op s w` touches no candidate but `w` -/
theorem foldl_hopefuls (P : Nat → St α → Prop) (op : St α → Cand α → St α)
    (hstep : ∀ n s w, P (n + 1) s → w ∈ s.cands → w.st = .hopeful →
      P n (op s w) ∧ ∀ c ∈ s.cands, c.cid ≠ w.cid → c ∈ (op s w).cands)
    (ws : List (Cand α)) (hnd : (ws.map (·.cid)).Nodup) {s : St α}
    (hw : ∀ w ∈ ws, w ∈ s.cands ∧ w.st = .hopeful) (hP : P ws.length s) : P 0 (ws.foldl op s) := by
  induction ws generalizing s with
  | nil => exact hP
  | cons w ws ih =>
    simp only [List.foldl_cons]
    simp only [List.map_cons, List.nodup_cons, List.mem_map, not_exists, not_and] at hnd
    obtain ⟨hwm, hwh⟩ := hw w (by simp)
    obtain ⟨h1, h2⟩ := hstep ws.length s w hP hwm hwh
    apply ih hnd.2 _ h1
    intro w' hw'
    obtain ⟨hm, hh⟩ := hw w' (by simp [hw'])
    exact ⟨h2 w' hm (fun e => hnd.1 w' hw' e), hh⟩

/-- the per-state invariants of the run-level theorems: the conservation bundle and a forward-only record -/
def Good (s : St α) : Prop := Inv A s ∧ Mon s

theorem Good.elect {s : St α} (h : Good A s) (w : Cand α) (verb : String) (p : Bool) (hwm : w ∈ s.cands)
    (hwh : w.st = .hopeful) (hq : p = true → s.quota ≤ w.vote) : Good A (s.elect A w.cid verb p) := by
  have huniq : ∀ c ∈ s.cands, c.cid = w.cid → c = w := fun c hc hcid => nodup_cid_eq h.1.wf hc hwm hcid
  refine ⟨?_, ?_⟩
  · apply h.1.elect A
    · intro c hc hcid; rw [huniq c hc hcid]; exact hwh
    · intro c hc hcid hp; rw [huniq c hc hcid]; exact hq hp
  · apply h.2.elect A
    intro c hc hcid; rw [huniq c hc hcid]; exact hwh

theorem Good.defeat {s : St α} (h : Good A s) (w : Cand α) (verb : String) (hwm : w ∈ s.cands)
    (hwh : w.st = .hopeful) : Good A (s.defeat A w.cid verb) := by
  have huniq : ∀ c ∈ s.cands, c.cid = w.cid → c = w := fun c hc hcid => nodup_cid_eq h.1.wf hc hwm hcid
  refine ⟨h.1.defeat A w.cid verb, ?_⟩
  apply h.2.defeat A
  intro c hc hcid; rw [huniq c hc hcid]; exact hwh

theorem mem_elect_of_ne {s : St α} {c : Cand α} (hc : c ∈ s.cands) (cid : Nat) (verb : String) (p : Bool)
    (hne : c.cid ≠ cid) : c ∈ (s.elect A cid verb p).cands := by
  unfold St.elect; rw [logAct_cands]; exact mem_upd_of_ne hc hne

theorem mem_defeat_of_ne {s : St α} {c : Cand α} (hc : c ∈ s.cands) (cid : Nat) (verb : String)
    (hne : c.cid ≠ cid) : c ∈ (s.defeat A cid verb).cands := by
  unfold St.defeat; rw [logAct_cands]; exact mem_upd_of_ne hc hne

theorem crash_logAct (s : St α) (tag verb : String) (subj : List Nat) : (s.logAct A tag verb subj).crash = s.crash := by
  unfold St.logAct; simp only; split <;> rfl
theorem crash_elect (s : St α) (cid : Nat) (verb : String) (p : Bool) : (s.elect A cid verb p).crash = s.crash := by
  unfold St.elect; rw [crash_logAct]; rfl
theorem crash_defeat (s : St α) (cid : Nat) (verb : String) : (s.defeat A cid verb).crash = s.crash := by
  unfold St.defeat; rw [crash_logAct]; rfl
theorem crash_foldUnpend (l : List (Cand α)) (s : St α) :
    (l.foldl (fun acc c => acc.unpendSilent c.cid) s).crash = s.crash := by
  induction l generalizing s with
  | nil => rfl
  | cons c cs ih => simp only [List.foldl_cons]; rw [ih]; rfl

/-- electing (no transfer pending) every member of a list of distinct hopeful candidates -/
theorem foldElectAll {s : St α} (h : Good A s) (ws : List (Cand α)) (verb : String)
    (hnd : (ws.map (·.cid)).Nodup) (hw : ∀ w ∈ ws, w ∈ s.cands ∧ w.st = .hopeful) :
    let t := ws.foldl (fun acc c => acc.elect A c.cid verb false) s
    Good A t ∧ nHop t + ws.length = nHop s ∧ nEl t = nEl s + ws.length ∧ Frame s t ∧ Ext s t ∧ t.crash = s.crash
    ∧ mu t + ws.length ≤ mu s := by
  have := foldl_hopefuls
    (fun n t => Good A t ∧ nHop t + (ws.length - n) = nHop s ∧ nEl t = nEl s + (ws.length - n) ∧ n ≤ ws.length
      ∧ Frame s t ∧ Ext s t ∧ t.crash = s.crash ∧ mu t + (ws.length - n) ≤ mu s)
    (fun acc c => acc.elect A c.cid verb false)
    (by
      intro n t w hP hwm hwh
      obtain ⟨hg, a, b, hn, hf, he, hcr, hmu⟩ := hP
      have hc := counts_elect A t w verb false hg.1.wf hwm hwh
      have hlt := mu_elect_lt A t w verb false hg.1.wf hwm hwh
      refine ⟨⟨hg.elect A w verb false hwm hwh (fun hp => by cases hp), by omega, by omega, by omega,
        hf.trans (frame_elect A t w.cid verb false), he.trans (ext_elect A t w.cid verb false),
        (crash_elect A t w.cid verb false).trans hcr, by omega⟩, ?_⟩
      intro c hc' hne
      exact mem_elect_of_ne A hc' _ _ _ hne)
    ws hnd hw ⟨h, by omega, by omega, Nat.le_refl _, Frame.refl s, Ext.refl s, rfl, by omega⟩
  obtain ⟨hg, a, b, _, hf, he, hcr, hmu⟩ := this
  exact ⟨hg, by omega, by omega, hf, he, hcr, by omega⟩

/-- defeating every member of a list of distinct hopeful candidates -/
theorem foldDefeatAll {s : St α} (h : Good A s) (ws : List (Cand α)) (verb : String)
    (hnd : (ws.map (·.cid)).Nodup) (hw : ∀ w ∈ ws, w ∈ s.cands ∧ w.st = .hopeful) :
    let t := ws.foldl (fun acc c => acc.defeat A c.cid verb) s
    Good A t ∧ nHop t + ws.length = nHop s ∧ nEl t = nEl s ∧ Frame s t ∧ Ext s t ∧ t.crash = s.crash
    ∧ mu t + ws.length ≤ mu s := by
  have := foldl_hopefuls
    (fun n t => Good A t ∧ nHop t + (ws.length - n) = nHop s ∧ nEl t = nEl s ∧ n ≤ ws.length ∧ Frame s t ∧ Ext s t
      ∧ t.crash = s.crash ∧ mu t + (ws.length - n) ≤ mu s)
    (fun acc c => acc.defeat A c.cid verb)
    (by
      intro n t w hP hwm hwh
      obtain ⟨hg, a, b, hn, hf, he, hcr, hmu⟩ := hP
      have hc := counts_defeat A t w verb hg.1.wf hwm hwh
      have hlt := mu_defeat_lt A t w verb hg.1.wf hwm hwh
      refine ⟨⟨hg.defeat A w verb hwm hwh, by omega, by omega, by omega,
        hf.trans (frame_defeat A t w.cid verb), he.trans (ext_defeat A t w.cid verb),
        (crash_defeat A t w.cid verb).trans hcr, by omega⟩, ?_⟩
      intro c hc' hne
      exact mem_defeat_of_ne A hc' _ _ hne)
    ws hnd hw ⟨h, by omega, rfl, Nat.le_refl _, Frame.refl s, Ext.refl s, rfl, by omega⟩
  obtain ⟨hg, a, b, _, hf, he, hcr, hmu⟩ := this
  exact ⟨hg, by omega, b, hf, he, hcr, by omega⟩

/-- un-pending (silently) every pending candidate -/
theorem Good.foldUnpend {s : St α} (h : Good A s) :
    Good A (s.pendingL.foldl (fun acc c => acc.unpendSilent c.cid) s) := by
  refine ⟨h.1.foldUnpend A s.pendingL, ?_⟩
  have key : ∀ (l : List (Cand α)) (t : St α), Inv A t → Mon t → (∀ c ∈ l, ∀ x ∈ t.cands, x.cid = c.cid → x.st = .elected) →
      Mon (l.foldl (fun acc c => acc.unpendSilent c.cid) t) := by
    intro l
    induction l with
    | nil => intro t _ hm _; exact hm
    | cons c cs ih =>
      intro t hI hm hl
      simp only [List.foldl_cons]
      apply ih _ (hI.unpendSilent A c.cid) (hm.unpend c.cid (hl c (by simp)))
      intro c' hc' x hx hxc
      unfold St.unpendSilent at hx
      obtain ⟨y, hy, rfl⟩ := mem_upd.1 hx
      have hyc : y.cid = c'.cid := by
        split at hxc <;> exact hxc
      have := hl c' (by simp [hc']) y hy hyc
      split <;> exact this
  apply key _ _ h.1 h.2
  intro c hc x hx hxc
  obtain ⟨hcm, hce, _⟩ := mem_pendingL.1 hc
  rw [nodup_cid_eq h.1.wf hx hcm hxc]; exact hce

/-- a state whose log is empty has a (vacuously) monotone record -/
theorem Mon.of_noActs {s : St α} (h : s.acts = []) : Mon s := by
  unfold Mon snaps; rw [h]; exact ⟨trivial, fun sn hsn => by simp at hsn⟩

/-- nobody elected yet: every elected candidate holds a quota -/
theorem EHQ.of_noElected {s : St α} (h : ∀ c ∈ s.cands, c.st ≠ .elected) : ElectedHoldQuota s :=
  fun c hc he => absurd he (h c hc)

theorem Mon.setSurplus {s : St α} (h : Mon s) (v : α) : Mon (s.setSurplus v) := Mon.of_skel h rfl rfl rfl
theorem EHQ.setSurplus {s : St α} (h : ElectedHoldQuota s) (v : α) : ElectedHoldQuota (s.setSurplus v) :=
  EHQ.of_same h rfl rfl
theorem frame_setSurplus (s : St α) (v : α) : Frame s (s.setSurplus v) := ⟨rfl, rfl, rfl⟩
theorem ext_setSurplus (s : St α) (v : α) : Ext s (s.setSurplus v) := Ext.of_acts_eq rfl
theorem mu_setSurplus (s : St α) (v : α) : mu (s.setSurplus v) = mu s := mu_of_skel rfl
theorem sumHE_setSurplus (s : St α) (v : α) : sumHE (s.setSurplus v) = sumHE s := sumHE_of_skel rfl

/-- like `loopN_total'`, the invariant being demanded only of rounds that continue -/
theorem loopN_total2 (P : St α → Prop) (guard : St α → Bool) (body : St α → St α × Flow)
    (hP : ∀ s, P s → guard s = true → (body s).2 = .cont → P (body s).1)
    (hprog : ∀ s, P s → guard s = true → (body s).2 = .cont →
      mu (body s).1 < mu s ∨ (body s).1.crash.isSome = true) :
    ∀ (fuel : Nat) (s : St α), P s → 1 ≤ fuel → (s.crash.isSome = true ∨ mu s + 2 ≤ fuel) →
      ∃ t, loopN guard body fuel s = some t := by
  intro fuel
  induction fuel with
  | zero => intro s _ h1 _; omega
  | succ n ih =>
    intro s hPs _ hm
    unfold loopN
    by_cases hc : s.crash.isSome = true
    · exact ⟨s, by simp [hc]⟩
    · have hmu : mu s + 2 ≤ n + 1 := by
        rcases hm with h | h
        · exact absurd h hc
        · exact h
      by_cases hg : guard s = true
      · simp only [hc, hg, if_true]
        have hP' := hP s hPs hg
        have hpr := hprog s hPs hg
        cases hbody : body s with
        | mk s' fl =>
          rw [hbody] at hP' hpr
          cases fl with
          | brk => exact ⟨s', rfl⟩
          | cont =>
            apply ih s' (hP' rfl) (by omega)
            rcases hpr rfl with h | h
            · right; simp only at h; omega
            · left; exact h
      · exact ⟨s, by simp [hc, hg]⟩

/-- what a loop returns: a state where the round invariant `P` holds and the loop had to stop (crash flag, guard), or the
    result `Q` of a round that broke -/
theorem loopN_result (P Q : St α → Prop) (guard : St α → Bool) (body : St α → St α × Flow)
    (hP : ∀ s, P s → guard s = true → (body s).2 = .cont → P (body s).1)
    (hQ : ∀ s, P s → guard s = true → (body s).2 = .brk → Q (body s).1) :
    ∀ (fuel : Nat) (s t : St α), P s → loopN guard body fuel s = some t →
      (P t ∧ (t.crash.isSome = true ∨ guard t = false)) ∨ Q t := by
  intro fuel
  induction fuel with
  | zero => intro s t _ h; simp [loopN] at h
  | succ n ih =>
    intro s t hPs h
    unfold loopN at h
    by_cases hc : s.crash.isSome = true
    · simp [hc] at h; cases h; left; exact ⟨hPs, Or.inl hc⟩
    · by_cases hg : guard s = true
      · simp only [hc, hg, if_true] at h
        have hP' := hP s hPs hg
        have hQ' := hQ s hPs hg
        cases hbody : body s with
        | mk s' fl =>
          rw [hbody] at h hP' hQ'
          cases fl with
          | cont => exact ih _ _ (hP' rfl) h
          | brk => simp at h; cases h; right; exact hQ' rfl
      · simp [hc, hg] at h; cases h; left; exact ⟨hPs, Or.inr (by simpa using hg)⟩

/-! ## every elected candidate still holds a quota after the ballots of several non-elected candidates are moved on -/
theorem EHQ.transferAll (hA : LawfulArith A) {s : St α} (hI : Inv A s) (h : ElectedHoldQuota s)
    (cids : List Nat) (rew : α → α) (hr : ∀ b ∈ s.ballots, 0 ≤ rew b.w) :
    ElectedHoldQuota (Droop.transferAll A s cids rew) := by
  have hskel := transferAll_skel A s cids rew
  have hq : (Droop.transferAll A s cids rew).quota = s.quota := transferAll_quota A s cids rew
  have hwf' : (Droop.transferAll A s cids rew).WF := WF_of_skel hskel.symm hI.wf
  intro c1 hc1 he
  rw [hq]
  obtain ⟨c, hc, hsk⟩ := mem_of_skel_eq hskel hc1
  have h1 := voteOf_of_mem hwf' hc1
  have h2 := voteOf_of_mem hI.wf hc
  have h3 := transferAll_voteOf A (lawfulAdd_of hA) s hI.bwf cids rew c1.cid
  rw [h1, ← skel_cid hsk, h2] at h3
  rw [h3]
  have hce : c.st = .elected := (skel_st hsk).1.trans he
  have hnn : 0 ≤ (s.ballots.map (contrib A s cids rew c.cid)).sum :=
    sum_nonneg' _ _ (fun b hb => contrib_nonneg A hA s cids rew c.cid b (hr b hb))
  linarith [h c hc hce]

theorem EHQ.setVote_nonElected {s : St α} (h : ElectedHoldQuota s) (cid : Nat) (v : α)
    (hne : ∀ c ∈ s.cands, c.cid = cid → c.st ≠ .elected) : ElectedHoldQuota (s.setVote cid v) := by
  intro c' hc' he
  show s.quota ≤ _
  obtain ⟨c1, hc1, rfl⟩ := mem_upd.1 hc'
  by_cases hcid : (c1.cid == cid) = true
  · exfalso
    simp only [hcid, if_true] at he
    exact hne c1 hc1 (by simpa using hcid) he
  · have hf : (c1.cid == cid) = false := by simpa using hcid
    simp only [hf, Bool.false_eq_true, if_false] at he ⊢
    exact h c1 hc1 he

theorem nonElected_of_skel {s t : St α} (hsk : t.skel = s.skel) {cid : Nat}
    (h : ∀ c ∈ s.cands, c.cid = cid → c.st ≠ .elected) : ∀ c ∈ t.cands, c.cid = cid → c.st ≠ .elected := by
  intro c hc hcc
  obtain ⟨c0, hc0, hsk0⟩ := mem_of_skel_eq hsk hc
  rw [← (skel_st hsk0).1]; exact h c0 hc0 ((skel_cid hsk0).trans hcc)

theorem EHQ.foldSetVote (l : List Nat) {s : St α} (h : ElectedHoldQuota s)
    (hne : ∀ cid ∈ l, ∀ c ∈ s.cands, c.cid = cid → c.st ≠ .elected) :
    ElectedHoldQuota (l.foldl (fun acc c => acc.setVote c A.zero) s) := by
  induction l generalizing s with
  | nil => exact h
  | cons x xs ih =>
    simp only [List.foldl_cons]
    apply ih (EHQ.setVote_nonElected h x _ (hne x (by simp)))
    intro cid hcid
    exact nonElected_of_skel (setVote_skel s x A.zero) (hne cid (by simp [hcid]))

theorem EHQ.transferDefeated (hA : LawfulArith A) {s : St α} (hI : Inv A s) (h : ElectedHoldQuota s) (cids : List Nat)
    (verb : String) (hne : ∀ cid ∈ cids, ∀ c ∈ s.cands, c.cid = cid → c.st ≠ .elected) :
    ElectedHoldQuota (Droop.transferDefeated A s cids verb) := by
  unfold Droop.transferDefeated
  dsimp only
  apply EHQ.logAct
  apply EHQ.foldSetVote A cids (EHQ.transferAll A hA hI h cids id (fun b hb => hI.wpos b hb))
  intro cid hcid
  exact nonElected_of_skel (transferAll_skel A s cids id) (hne cid hcid)

/-- `c.elect(msg)` on a candidate who is hopeful or already elected keeps the record moving forward -/
theorem Mon.electNP {s : St α} (h : Mon s) (cid : Nat) (verb : String)
    (hst : ∀ c ∈ s.cands, c.cid = cid → c.st = .hopeful ∨ c.st = .elected) : Mon (s.elect A cid verb false) := by
  unfold St.elect
  apply Mon.logAct
  refine Mon.upd_forward h cid _ ?_ ?_
  · intro c; rfl
  intro c hc hcid
  unfold Cand.code fwd
  rcases hst c hc hcid with hs | hs
  · simp [hs]
  · simp only [hs]; split <;> simp

theorem stl_upd_keep_st' (s : St α) (cid : Nat) (f : Cand α → Cand α)
    (hf : ∀ c ∈ s.cands, c.cid = cid → (f c).st = c.st) : (s.upd cid f).stl = s.stl := by
  unfold St.stl St.upd
  rw [List.map_map]
  apply List.map_congr_left
  intro c hc
  simp only [Function.comp]
  split
  · rename_i h; exact hf c hc (by simpa using h)
  · rfl

/-- `c.elect(msg)` (no transfer pending) on candidates who are already elected: statuses, counts and the measure stay put
    or drop -/
theorem foldElectNP_elected {s : St α} (h : Good A s) (l : List (Cand α)) (verb : String)
    (hl : ∀ c ∈ l, ∀ x ∈ s.cands, x.cid = c.cid → x.st = .elected) :
    let t := l.foldl (fun acc c => acc.elect A c.cid verb false) s
    Good A t ∧ nHop t = nHop s ∧ nEl t = nEl s ∧ Frame s t ∧ Ext s t ∧ t.crash = s.crash := by
  induction l generalizing s with
  | nil => exact ⟨h, rfl, rfl, Frame.refl s, Ext.refl s, rfl⟩
  | cons c cs ih =>
    simp only [List.foldl_cons]
    have hel := hl c (by simp)
    have hg1 : Good A (s.elect A c.cid verb false) :=
      ⟨h.1.electNP A c.cid verb, h.2.electNP A c.cid verb (fun x hx hxc => Or.inr (hel x hx hxc))⟩
    have hstl : (s.elect A c.cid verb false).stl = s.stl := by
      unfold St.elect St.stl; rw [logAct_cands]
      exact stl_upd_keep_st' s c.cid _ (fun x hx hxc => (hel x hx hxc).symm)
    have hcnt := counts_of_stl hstl
    have hl1 : ∀ c' ∈ cs, ∀ x ∈ (s.elect A c.cid verb false).cands, x.cid = c'.cid → x.st = .elected := by
      intro c' hc' x hx hxc
      unfold St.elect at hx; rw [logAct_cands] at hx
      obtain ⟨y, hy, rfl⟩ := mem_upd.1 hx
      by_cases hyc : (y.cid == c.cid) = true
      · simp only [hyc, if_true]
      · have hf : (y.cid == c.cid) = false := by simpa using hyc
        simp only [hf, Bool.false_eq_true, if_false] at hxc ⊢
        exact hl c' (by simp [hc']) y hy hxc
    obtain ⟨a1, a2, a3, a4, a5, a6⟩ := ih hg1 hl1
    exact ⟨a1, a2.trans hcnt.1, a3.trans hcnt.2, (frame_elect A s c.cid verb false).trans a4,
      (ext_elect A s c.cid verb false).trans a5, a6.trans (crash_elect A s c.cid verb false)⟩

/-- the log only grows along a loop whose rounds only append (under the round invariant) -/
theorem loopN_ext (P : St α → Prop) (guard : St α → Bool) (body : St α → St α × Flow)
    (hP : ∀ s, P s → guard s = true → (body s).2 = .cont → P (body s).1)
    (hX : ∀ s, P s → guard s = true → Ext s (body s).1) :
    ∀ (fuel : Nat) (s t : St α), P s → loopN guard body fuel s = some t → Ext s t := by
  intro fuel
  induction fuel with
  | zero => intro s t _ h; simp [loopN] at h
  | succ n ih =>
    intro s t hPs h
    unfold loopN at h
    by_cases hc : s.crash.isSome = true
    · simp [hc] at h; cases h; exact Ext.refl _
    · by_cases hg : guard s = true
      · simp only [hc, hg, if_true] at h
        have hP' := hP s hPs hg
        have hX' := hX s hPs hg
        cases hbody : body s with
        | mk s' fl =>
          rw [hbody] at h hP' hX'
          cases fl with
          | cont => exact hX'.trans (ih _ _ (hP' rfl) h)
          | brk => simp at h; cases h; exact hX'
      · simp [hc, hg] at h; cases h; exact Ext.refl _

theorem setCrash_isSome (s : St α) (k : String) : (s.setCrash k).crash.isSome = true := by
  unfold St.setCrash; split
  · rename_i h; rw [h]; rfl
  · rfl

/-! ## the round number: only `newRound` changes it -/
theorem round_logAct (s : St α) (tag verb : String) (subj : List Nat) : (s.logAct A tag verb subj).round = s.round := by
  unfold St.logAct; simp only; split <;> rfl
theorem round_newRound (s : St α) : (s.newRound A).round = s.round + 1 := by
  unfold St.newRound; rw [round_logAct]
theorem round_elect (s : St α) (cid : Nat) (verb : String) (p : Bool) : (s.elect A cid verb p).round = s.round := by
  unfold St.elect; rw [round_logAct]; rfl
theorem round_defeat (s : St α) (cid : Nat) (verb : String) : (s.defeat A cid verb).round = s.round := by
  unfold St.defeat; rw [round_logAct]; rfl
theorem round_unpendLog (s : St α) (cid : Nat) (verb : String) : (s.unpendLog A cid verb).round = s.round := by
  unfold St.unpendLog; rw [round_logAct]; rfl
theorem round_setCrash (s : St α) (k : String) : (s.setCrash k).round = s.round := by
  unfold St.setCrash; split <;> rfl
theorem round_foldl {β : Type} (f : St α → β → St α) (hf : ∀ s x, (f s x).round = s.round) (l : List β) (s : St α) :
    (l.foldl f s).round = s.round := by
  induction l generalizing s with
  | nil => rfl
  | cons x xs ih => simp only [List.foldl_cons]; rw [ih, hf]
theorem transferBallot_round (s : St α) (b : Ballot α) : (transferBallot A s b).1.round = s.round := by
  unfold transferBallot; split <;> rfl
theorem tstep_round (cids : List Nat) (rew : α → α) (acc : St α × List (Ballot α)) (b : Ballot α) :
    (tstep A cids rew acc b).1.round = acc.1.round := by
  unfold tstep; split
  · split
    · exact transferBallot_round A _ _
    · rfl
  · rfl
theorem foldl_tstep_round (cids : List Nat) (rew : α → α) (bs : List (Ballot α)) (acc : St α × List (Ballot α)) :
    (bs.foldl (tstep A cids rew) acc).1.round = acc.1.round := by
  induction bs generalizing acc with
  | nil => rfl
  | cons b bs ih => simp only [List.foldl_cons]; rw [ih, tstep_round]
theorem round_transferAll (s : St α) (cids : List Nat) (rew : α → α) : (transferAll A s cids rew).round = s.round := by
  have := foldl_tstep_round A cids rew s.ballots (s, []); simpa [transferAll] using this
theorem round_transferSurplus (s : St α) (hc : Cand α) (rew : α → α → α → α) (verb : String) :
    (transferSurplus A s hc rew verb).round = s.round := by
  unfold transferSurplus; dsimp only; rw [round_logAct]
  show (transferAll A s _ _).round = _
  exact round_transferAll A s _ _
theorem round_transferDefeated (s : St α) (cids : List Nat) (verb : String) :
    (transferDefeated A s cids verb).round = s.round := by
  unfold transferDefeated; dsimp only; rw [round_logAct]
  rw [round_foldl (fun (acc : St α) (c : Nat) => acc.setVote c A.zero) (fun _ _ => rfl)]
  exact round_transferAll A s _ _
theorem round_breakTie (s : St α) (tied : List (Cand α)) (verb : String) : (breakTie A s tied verb).1.round = s.round := by
  unfold breakTie
  split
  · exact round_setCrash s _
  · rfl
  · exact round_logAct A _ _ _ _
theorem round_electWinners (hasQ : St α → Cand α → Bool) (pend : St α → Cand α → Bool)
    (verb : St α → Cand α → String) (s : St α) : (electWinners A hasQ pend verb s).round = s.round := by
  unfold electWinners
  exact round_foldl (fun (acc : St α) (c : Cand α) => acc.elect A c.cid (verb s c) (pend s c))
    (fun t c => round_elect A t c.cid _ _) _ _

end Droop
