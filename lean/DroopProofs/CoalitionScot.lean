import DroopProofs.CoalitionRun
import DroopProofs.Majority

/-! # C05, Scottish rule: a solid coalition with more than `k` quotas gets `min(k, size)` of its members elected -/
namespace Droop
variable {α : Type} [CommRing α] [LinearOrder α] [IsStrictOrderedRing α] (A : Arith α)

/-- the quota tests are complete: a failed test means the tally does not exceed the quota -/
def QuotaComplete : Prop := (∀ a b : α, A.ge a b = false → a ≤ b) ∧ (∀ a b : α, A.gt a b = false → a ≤ b)

variable {S : List Nat} {m : Nat} {kk k : Nat} {u nV : α} {N : Nat}

theorem hopS_pos_of_mem {s : St α} {c : Cand α} (hc : c ∈ s.hopeful) (hS : S.contains c.cid = true) : 1 ≤ hopS S s := by
  unfold hopS
  have : c ∈ s.cands.filter (fun c => S.contains c.cid && c.st == .hopeful) := by
    rw [List.mem_filter]
    obtain ⟨h1, h2⟩ := mem_hopeful.1 hc
    exact ⟨h1, by simp only [Bool.and_eq_true, beq_iff_eq]; exact ⟨hS, h2⟩⟩
  exact List.length_pos_of_mem this

/-- the premise of `alive_gt` from the bundle -/
theorem CInv.safe (hA : LawfulArith A) (hu : 0 ≤ u) {s : St α} (h : CInv A S m kk k u nV N s) (hI : Inv A s)
    (hpend : s.pendingL = []) (hbelow : ∀ c ∈ s.hopeful, c.vote ≤ s.quota) (lc : Cand α) (hlc : lc ∈ s.hopeful) :
    S.contains lc.cid = true → k < hopS S s + elS S s := by
  intro hS
  have hh := hopS_pos_of_mem (S := S) hlc hS
  have hD := h.d2 hh
  have hb := h.big
  rw [← h.vm] at hD hb
  rw [← h.len] at hb
  exact alive_gt A S m hA u hu hI h.pos h.rest hpend hbelow hh k hD hb

section scot
variable (hA : LawfulArith A) (hex : A.exact = false) (hqc : QuotaComplete A) (hu : 0 ≤ u)
  (hlow : RewLower A u (rewMuldivDown A)) (hkk : kk ≤ k)
include hA hu hlow

theorem CInv.scotSurplusStep {s : St α} (h : CInv A S m kk k u nV N s) (hI : Inv A s) (hq1 : A.one ≤ s.quota) :
    CInv A S m kk k u nV N (Droop.scotSurplusStep A s) := by
  rcases scotSurplusStep_cases A s with ⟨_, e⟩ | ⟨tied, hsub, ⟨_, e⟩ | ⟨hc, hb, e⟩⟩
  · rw [e]; exact h
  · rw [e]; exact h.scotBreakTie A _ _ _
  · rw [e]
    obtain ⟨hm, hcs1, _⟩ := scotBreakTie_picked A hI tied false _ hc hb (fun x hx => (mem_pendingL.1 (hsub x hx)).1)
    obtain ⟨_, hce, hcp⟩ := mem_pendingL.1 (hsub hc hm)
    have hq' : A.one ≤ (Droop.scotBreakTie A s tied false "largest surplus").1.quota := by
      rw [(scotBreakTie_frame A s tied false _).2.2.2.1]; exact hq1
    exact CInv.unpendTransfer A hA hu _ hlow (h.scotBreakTie A tied false _) (hI.scotBreakTie A tied false _) hq'
      hc hcs1 hce hcp _ _

include hkk in
theorem CInv.scotDefeatStep {s : St α} (h : CInv A S m kk k u nV N s) (hI : Inv A s) (hpend : s.pendingL = [])
    (hbelow : ∀ c ∈ s.hopeful, c.vote ≤ s.quota) : CInv A S m kk k u nV N (Droop.scotDefeatStep A s) := by
  rcases scotDefeatStep_cases A s with ⟨_, e⟩ | ⟨tied, hsub, ⟨_, e⟩ | ⟨lc, hb, e⟩⟩
  · rw [e]; exact h
  · rw [e]; exact h.scotBreakTie A _ _ _
  · rw [e]
    obtain ⟨hm, hcs1, _⟩ := scotBreakTie_picked A hI tied true _ lc hb (fun x hx => (mem_hopeful.1 (hsub x hx)).1)
    obtain ⟨_, hch⟩ := mem_hopeful.1 (hsub lc hm)
    obtain ⟨e1, e2, _, e4, _⟩ := scotBreakTie_frame A s tied true "defeat low candidate"
    have h' := h.scotBreakTie A tied true "defeat low candidate"
    have hI' := hI.scotBreakTie A tied true "defeat low candidate"
    have hlc' : lc ∈ (Droop.scotBreakTie A s tied true "defeat low candidate").1.hopeful := mem_hopeful.2 ⟨hcs1, hch⟩
    apply CInv.defeatTransfer1 A hA h' hI' hkk lc hlc'
    apply CInv.safe A hA hu h' hI' ?_ ?_ lc hlc'
    · unfold St.pendingL at hpend ⊢; rw [e1]; exact hpend
    · intro c hc
      rw [e4]; apply hbelow
      unfold St.hopeful at hc ⊢; rw [← e1]; exact hc

include hex hqc hkk in
theorem CInv.scotBody {s : St α} (hS : ScotInv A s) (h : CInv A S m kk k u nV N s) (hq1 : A.one ≤ s.quota) :
    CInv A S m kk k u nV N (Droop.scotBody A s).1 := by
  have hI := hS.1.1
  have hsound : ∀ c, hasQuotaGE A s c = true → s.quota ≤ c.vote := fun c hc => hasQuotaGE_sound A hA hex s c hc
  have h1 : CInv A S m kk k u nV N (scotElect A s) := by
    unfold scotElect electWinners
    obtain ⟨hnd, hw⟩ := electWinners_list A (hasQuotaGE A) hI.wf hsound
    exact h.foldElect A hA hI _ _ hnd hw
  have hI1 : Inv A (scotElect A s) := hI.scotElect A hA hex
  have hF1 : Frame s (scotElect A s) := by unfold scotElect; exact frame_electWinners A _ _ _ s
  have hbelow1 : ∀ c ∈ (scotElect A s).hopeful, c.vote ≤ (scotElect A s).quota := by
    intro c hc
    have := electWinners_rest_below A (hasQuotaGE A) (fun _ _ => true) (fun _ _ => "Elect, transfer pending") hI.wf c
      (by unfold scotElect at hc; exact hc)
    rw [hF1.1]
    exact hqc.1 _ _ this.2
  unfold Droop.scotBody
  split
  · exact h1
  · have hc2 : (scotRound A (scotElect A s)).cands = (scotElect A s).cands := by
      unfold scotRound St.setSurplus St.newRound; simp only [logAct_cands]
    have hq2 : (scotRound A (scotElect A s)).quota = (scotElect A s).quota := by
      unfold scotRound St.setSurplus St.newRound; simp only [logAct_quota]
    have h2 : CInv A S m kk k u nV N (scotRound A (scotElect A s)) := by
      unfold scotRound; exact (h1.newRound A).setSurplus A _
    have hI2 : Inv A (scotRound A (scotElect A s)) := by
      unfold scotRound; exact (hI1.newRound A).setSurplus A _
    have hq1' : A.one ≤ (scotRound A (scotElect A s)).quota := by rw [hq2, hF1.1]; exact hq1
    unfold scotStage
    split
    · exact CInv.scotSurplusStep A hA hu hlow h2 hI2 hq1'
    · rename_i hp
      have hpend : (scotRound A (scotElect A s)).pendingL = [] := by
        cases hl : (scotRound A (scotElect A s)).pendingL with
        | nil => rfl
        | cons x xs => rw [hl] at hp; simp at hp
      have hb2 : ∀ c ∈ (scotRound A (scotElect A s)).hopeful, c.vote ≤ (scotRound A (scotElect A s)).quota := by
        intro c hc
        rw [hq2]; apply hbelow1
        unfold St.hopeful at hc ⊢; rw [← hc2]; exact hc
      split
      · rw [scotFinish_fst]; exact CInv.scotDefeatStep A hA hu hlow hkk h2 hI2 hpend hb2
      · rw [scotFinish_fst]; exact h2

end scot

/-! ## the epilogues only count -/

theorem WF_upd {s : St α} (hwf : s.WF) (cid : Nat) (f : Cand α → Cand α) (hcid : ∀ x, (f x).cid = x.cid) : (s.upd cid f).WF := by
  unfold St.WF St.upd at *
  rw [List.map_map]
  have : (fun c : Cand α => c.cid) ∘ (fun c => if c.cid == cid then f c else c) = fun c => c.cid := by
    funext c; simp only [Function.comp]; split
    · exact hcid c
    · rfl
  rw [this]; exact hwf

theorem cnt_upd_keep (p : Cand α → Bool) (s : St α) (cid : Nat) (f : Cand α → Cand α)
    (h : ∀ c, p (if c.cid == cid then f c else c) = p c) :
    ((s.upd cid f).cands.filter p).length = (s.cands.filter p).length := by
  unfold St.upd
  rw [List.filter_map, List.length_map]
  congr 1
  apply List.filter_congr
  intro c _
  exact h c

theorem countsS_unpendSilent (s : St α) (cid : Nat) :
    hopS S (s.unpendSilent cid) = hopS S s ∧ elS S (s.unpendSilent cid) = elS S s := by
  unfold St.unpendSilent hopS elS
  refine ⟨cnt_upd_keep _ s cid _ ?_, cnt_upd_keep _ s cid _ ?_⟩ <;> intro c <;> split <;> rfl

theorem countsS_foldUnpend (l : List (Cand α)) (s : St α) :
    hopS S (l.foldl (fun acc c => acc.unpendSilent c.cid) s) = hopS S s
    ∧ elS S (l.foldl (fun acc c => acc.unpendSilent c.cid) s) = elS S s := by
  induction l generalizing s with
  | nil => exact ⟨rfl, rfl⟩
  | cons c cs ih =>
    simp only [List.foldl_cons]
    obtain ⟨a, b⟩ := ih (s.unpendSilent c.cid)
    obtain ⟨a', b'⟩ := countsS_unpendSilent (S := S) s c.cid
    exact ⟨a.trans a', b.trans b'⟩

theorem WF_elect {s : St α} (hwf : s.WF) (cid : Nat) (verb : String) (p : Bool) : (s.elect A cid verb p).WF := by
  unfold St.elect St.WF; rw [logAct_cands]; exact WF_upd hwf cid _ (fun _ => rfl)
theorem WF_defeat {s : St α} (hwf : s.WF) (cid : Nat) (verb : String) : (s.defeat A cid verb).WF := by
  unfold St.defeat St.WF; rw [logAct_cands]; exact WF_upd hwf cid _ (fun _ => rfl)

theorem countsS_elect {s : St α} (hwf : s.WF) (w : Cand α) (hw : w ∈ s.cands) (hh : w.st = .hopeful) (verb : String) (pd : Bool) :
    hopS S (s.elect A w.cid verb pd) + (if S.contains w.cid = true then 1 else 0) = hopS S s
    ∧ elS S (s.elect A w.cid verb pd) = elS S s + (if S.contains w.cid = true then 1 else 0) := by
  have hc : (s.elect A w.cid verb pd).cands = (s.upd w.cid (fun c => { c with st := .elected, pending := pd })).cands := by
    unfold St.elect; rw [logAct_cands]
  have c1 := cnt_upd (fun c => S.contains c.cid && c.st == .hopeful) hwf w hw (fun c => { c with st := .elected, pending := pd })
  have c2 := cnt_upd (fun c => S.contains c.cid && c.st == .elected) hwf w hw (fun c => { c with st := .elected, pending := pd })
  have t1 : (CState.hopeful == CState.hopeful) = true := rfl
  have t2 : (CState.elected == CState.hopeful) = false := rfl
  have t3 : (CState.elected == CState.elected) = true := rfl
  have t4 : (CState.hopeful == CState.elected) = false := rfl
  simp only [hh, t1, t2, t3, t4, Bool.and_true, Bool.and_false, Bool.false_eq_true, if_false] at c1 c2
  unfold hopS elS
  rw [hc]
  exact ⟨by omega, by omega⟩

theorem countsS_defeat {s : St α} (hwf : s.WF) (w : Cand α) (hw : w ∈ s.cands) (hh : w.st = .hopeful) (verb : String) :
    hopS S (s.defeat A w.cid verb) + (if S.contains w.cid = true then 1 else 0) = hopS S s
    ∧ elS S (s.defeat A w.cid verb) = elS S s := by
  have hc : (s.defeat A w.cid verb).cands = (s.upd w.cid (fun c => { c with st := .defeated })).cands := by
    unfold St.defeat; rw [logAct_cands]
  have c1 := cnt_upd (fun c => S.contains c.cid && c.st == .hopeful) hwf w hw (fun c => { c with st := .defeated })
  have c2 := cnt_upd (fun c => S.contains c.cid && c.st == .elected) hwf w hw (fun c => { c with st := .defeated })
  have t1 : (CState.hopeful == CState.hopeful) = true := rfl
  have t2 : (CState.defeated == CState.hopeful) = false := rfl
  have t3 : (CState.defeated == CState.elected) = false := rfl
  have t4 : (CState.hopeful == CState.elected) = false := rfl
  simp only [hh, t1, t2, t3, t4, Bool.and_true, Bool.and_false, Bool.false_eq_true, if_false] at c1 c2
  unfold hopS elS
  rw [hc]
  exact ⟨by omega, by omega⟩

/-- electing a list of distinct hopeful candidates: the coalition keeps its hopeful-plus-elected count, nobody is un-elected -/
theorem countsS_foldElect {s : St α} (hwf : s.WF) (ws : List (Cand α)) (verb : String) (pd : Bool)
    (hnd : (ws.map (·.cid)).Nodup) (hw : ∀ w ∈ ws, w ∈ s.cands ∧ w.st = .hopeful) :
    hopS S (ws.foldl (fun acc c => acc.elect A c.cid verb pd) s) + elS S (ws.foldl (fun acc c => acc.elect A c.cid verb pd) s)
      = hopS S s + elS S s
    ∧ elS S s ≤ elS S (ws.foldl (fun acc c => acc.elect A c.cid verb pd) s) := by
  have := foldl_hopefuls (fun _ t => t.WF ∧ hopS S t + elS S t = hopS S s + elS S s ∧ elS S s ≤ elS S t)
    (fun acc c => acc.elect A c.cid verb pd)
    (by
      intro n t w hP hwm hwh
      obtain ⟨hwf', a, b⟩ := hP
      obtain ⟨c1, c2⟩ := countsS_elect (S := S) A hwf' w hwm hwh verb pd
      exact ⟨⟨WF_elect A hwf' _ _ _, by omega, by omega⟩, fun c hc' hne => mem_elect_of_ne A hc' _ _ _ hne⟩)
    ws hnd hw ⟨hwf, rfl, Nat.le_refl _⟩
  exact ⟨this.2.1, this.2.2⟩

/-- defeating a list of distinct hopeful candidates leaves the coalition's elected members elected -/
theorem countsS_foldDefeat {s : St α} (hwf : s.WF) (ws : List (Cand α)) (verb : String)
    (hnd : (ws.map (·.cid)).Nodup) (hw : ∀ w ∈ ws, w ∈ s.cands ∧ w.st = .hopeful) :
    elS S (ws.foldl (fun acc c => acc.defeat A c.cid verb) s) = elS S s := by
  have := foldl_hopefuls (fun _ t => t.WF ∧ elS S t = elS S s)
    (fun acc c => acc.defeat A c.cid verb)
    (by
      intro n t w hP hwm hwh
      obtain ⟨hwf', a⟩ := hP
      obtain ⟨_, c2⟩ := countsS_defeat (S := S) A hwf' w hwm hwh verb
      exact ⟨⟨WF_defeat A hwf' _ _, by omega⟩, fun c hc' hne => mem_defeat_of_ne A hc' _ _ hne⟩)
    ws hnd hw ⟨hwf, rfl⟩
  exact this.2

theorem hopS_le_nHop (s : St α) : hopS S s ≤ nHop s := by
  unfold hopS nHop St.hopeful
  apply length_filter_le_of_imp
  intro c _ h
  simp only [Bool.and_eq_true] at h
  exact h.2

/-- **the Scottish epilogue**: if the main loop stopped with the count complete and at least `kk` coalition members hopeful
    or elected — and `kk` of them elected in case the seats are all taken — then `kk` of them are elected at the end -/
theorem scotEpilogue_elS {s : St α} (hg : Good A s) (hcomp : scotCountComplete s = true)
    (halive : kk ≤ hopS S s + elS S s) (hfull : s.seats ≤ nEl s → kk ≤ elS S s) :
    kk ≤ elS S (scotEpilogue A s) := by
  unfold scotEpilogue
  dsimp only
  have hg5 := hg.foldUnpend A
  obtain ⟨u1, u2, u3⟩ := counts_foldUnpend s.pendingL s
  obtain ⟨v1, v2⟩ := countsS_foldUnpend (S := S) s.pendingL s
  generalize s.pendingL.foldl (fun acc c => acc.unpendSilent c.cid) s = s5 at *
  by_cases hfit : ((s5.hopeful.length : Int) ≤ s5.seatsLeft)
  · simp only [hfit, decide_true, if_true]
    obtain ⟨hg6, a6, _⟩ := foldElectAll A hg5 s5.hopeful "Elect remaining candidates"
      (hopeful_cids_nodup hg5.1.wf) (fun w hw => mem_hopeful.1 hw)
    obtain ⟨w1, w2⟩ := countsS_foldElect (S := S) A hg5.1.wf s5.hopeful "Elect remaining candidates" false
      (hopeful_cids_nodup hg5.1.wf) (fun w hw => mem_hopeful.1 hw)
    generalize s5.hopeful.foldl (fun acc c => acc.elect A c.cid "Elect remaining candidates" false) s5 = s6 at *
    have h0 : nHop s6 = 0 := by unfold nHop at a6 ⊢; omega
    have hs6 : s6.hopeful = [] := List.eq_nil_of_length_eq_zero h0
    rw [hs6]
    simp only [List.foldl_nil]
    have := hopS_le_nHop (S := S) s6
    omega
  · simp only [hfit, decide_false, Bool.false_eq_true, if_false]
    rw [countsS_foldDefeat (S := S) A hg5.1.wf s5.hopeful "Defeat remaining candidates"
      (hopeful_cids_nodup hg5.1.wf) (fun w hw => mem_hopeful.1 hw), v2]
    apply hfull
    unfold scotCountComplete at hcomp
    simp only [Bool.or_eq_true, decide_eq_true_eq] at hcomp
    unfold St.seatsLeft at hfit hcomp
    unfold nHop nEl at *
    rw [u3] at hfit
    omega

/-! ## the Scottish count -/

/-- what the coalition argument needs about the state a Gregory count starts in -/
structure CStart (S : List Nat) (m : Nat) (kk k : Nat) (u : α) (q : α) (s0 : St α) : Prop where
  tops : ∀ b ∈ s0.ballots, ∀ c, b.top = some c → s0.isHopeful c = true
  idx0 : ∀ b ∈ s0.ballots, b.idx = 0 ∧ b.w = A.one
  noEl : ∀ c ∈ s0.cands, c.st ≠ .elected
  kk_le : kk ≤ k
  alive : kk ≤ hopS S s0
  q1 : A.one ≤ q
  big : (k : α) * q + (s0.cands.length : α) * (u * Vmult S m s0) < Vmult S m s0 * A.one

theorem CInv.gInit (hA : LawfulArith A) (q : α) {s0 : St α} (h : CStart A S m kk k u q s0) :
    CInv A S m kk k u (Vmult S m s0) s0.cands.length (Droop.gInit A q s0) := by
  obtain ⟨hsk, _, _, hq, _, _, _⟩ := gInit_facts A q s0
  have hb : (Droop.gInit A q s0).ballots = s0.ballots := gInit_ballots A q s0
  obtain ⟨k1, k2, k3, k4⟩ := countsS_of_skel (S := S) hsk
  have hd0 : doneS S s0 = 0 := by
    unfold doneS
    rw [List.length_eq_zero_iff, List.filter_eq_nil_iff]
    intro c hc hcc
    simp only [Bool.and_eq_true, beq_iff_eq] at hcc
    exact h.noEl c hc hcc.2.1
  refine ⟨?_, ?_, by unfold Vmult; rw [hb], k4, ?_, by rw [k1]; have := h.alive; omega, by rw [hq]; exact h.big⟩
  · intro b hbm j c hj _
    rw [hb] at hbm
    have := (h.idx0 b hbm).1
    omega
  · intro b hbm c hc
    rw [hb] at hbm
    left
    apply inScopeId_of_skel hsk
    exact inScopeId_of_hopeful (h.tops b hbm c hc)
  · intro _
    rw [k3, hd0]
    have : Vval A S m (Droop.gInit A q s0) = Vmult S m s0 * A.one := by
      rw [Vval_eq A S m hA, hb]
      unfold Vmult
      have key : ∀ l : List (Ballot α), (∀ b ∈ l, b.w = A.one) →
          (l.map (fun b => if isVb S m b.rank then b.w * ((b.mult : Int) : α) else 0)).sum
            = (l.map (fun b => if isVb S m b.rank then ((b.mult : Int) : α) else 0)).sum * A.one := by
        intro l
        induction l with
        | nil => intro _; simp
        | cons b bs ih =>
          intro hl
          simp only [List.map_cons, List.sum_cons, add_mul]
          rw [ih (fun b' hb' => hl b' (by simp [hb']))]
          congr 1
          split
          · rw [hl b (by simp)]; ring
          · ring
      exact key s0.ballots (fun b hb' => (h.idx0 b hb').2)
    rw [this]; simp

/-- the premise of `elS_ge_of_full` from the bundle -/
theorem CInv.full (hA : LawfulArith A) (hu : 0 ≤ u) {s : St α} (h : CInv A S m kk k u nV N s) (hI : Inv A s)
    (hE : ElectedHoldQuota s) (hD : DroopQuota A s) (hkk : kk ≤ k) (hfull : s.seats ≤ nEl s) : kk ≤ elS S s := by
  by_cases hh : 1 ≤ hopS S s
  · have hD2 := h.d2 hh
    have hb := h.big
    rw [← h.vm] at hD2 hb
    rw [← h.len] at hb
    have := elS_ge_of_full A S m hA u hu hI hE hD h.pos h.rest hh k hD2 hb hfull
    omega
  · have := h.alive; omega

theorem scotInit_eq_gInit (s0 : St α) :
    scotInit A s0 = gInit A (A.ofInt (pdiv s0.nballots (s0.seats + 1) + 1)) s0 := rfl

/-- **C05, Scottish rule**: a set `S` of candidates ranked, in any order, in the first `m` places by ballots worth more
    than `k` quotas (plus `u` per ballot per candidate) has at least `kk = min(k, standing members of S)` members elected -/
theorem scot_coalition (hA : LawfulArith A) (hex : A.exact = false) (hqc : QuotaComplete A) (hu : 0 ≤ u)
    (hlow : RewLower A u (rewMuldivDown A)) (s0 t : St α) (h0 : ScotStart A s0)
    (hc : CStart A S m kk k u (A.ofInt (pdiv s0.nballots (s0.seats + 1) + 1)) s0)
    (h : scotCount A s0 = some t) (hcr : t.crash = none) : kk ≤ elS S t := by
  unfold scotCount at h
  cases hl : loopN (fun _ => true) (scotBody A) (2 * s0.cands.length + 3) (scotInit A s0) with
  | none => rw [hl] at h; cases h
  | some s4 =>
    rw [hl] at h
    have ht : t = scotEpilogue A s4 := (Option.some.inj h).symm
    have hinit : ScotInv A (scotInit A s0) ∧ CInv A S m kk k u (Vmult S m s0) s0.cands.length (scotInit A s0)
        ∧ A.one ≤ (scotInit A s0).quota := by
      refine ⟨h0.inv A hA, ?_, ?_⟩
      · rw [scotInit_eq_gInit]; exact CInv.gInit A hA _ hc
      · rw [(scotInit_frame A s0).2.2]; exact hc.q1
    have hP := loopN_preserves
      (fun s => ScotInv A s ∧ CInv A S m kk k u (Vmult S m s0) s0.cands.length s ∧ A.one ≤ s.quota)
      (fun _ => true) (scotBody A)
      (fun s hs => ⟨(scotBody_spec A hA hex hs.1).1, CInv.scotBody A hA hex hqc hu hlow hc.kk_le hs.1 hs.2.1 hs.2.2,
        by rw [(scotBody_spec A hA hex hs.1).2.1.1]; exact hs.2.2⟩) _ _ _ hinit hl
    obtain ⟨hS4, hC4, _⟩ := hP
    obtain ⟨_, _, hcomp⟩ := scot_loop_exit A hA hex s0 s4 h0 hl
    obtain ⟨_, _, e3, _⟩ := scotEpilogue_spec A (s := s4) ⟨hS4.1.1, hS4.2.1⟩
    rw [ht] at hcr ⊢
    rw [e3] at hcr
    exact scotEpilogue_elS A ⟨hS4.1.1, hS4.2.1⟩ (hcomp hcr) hC4.alive
      (fun hfull => hC4.full A hA hu hS4.1.1 hS4.1.2 hS4.2.2.1 hc.kk_le hfull)

end Droop
